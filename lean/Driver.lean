/-
  Line-protocol driver: one request per line on stdin (`<model> <op> <args…>`), one canonical
  answer per line on stdout.  Core-only so that it links as a `lean_exe`.
-/
import Vgw.Driver.Range

def dispatch (line : String) : String :=
  match (line.trimAscii.toString.splitOn " ").filter (· ≠ "") with
  | "range" :: rest => (Vgw.Driver.Range.handle rest).getD "bad-op"
  | _ => "bad-op"

partial def loop (h : IO.FS.Stream) (out : IO.FS.Stream) : IO Unit := do
  let line ← h.getLine
  if line.isEmpty then return ()
  out.putStrLn (dispatch line)
  loop h out

def main : IO Unit := do
  let out ← IO.getStdout
  loop (← IO.getStdin) out
  out.flush
