/-
  Line-protocol driver: one request per line on stdin (`<model> <op> <args…>`), one canonical
  answer per line on stdout.  Core-only so that it links as a `lean_exe`.
-/
import Vgw.Driver.Range
import Vgw.Driver.Gw
import Vgw.Driver.Policy
import Vgw.Driver.BucketName
import Vgw.Driver.Path
import Vgw.Driver.Walk
import Vgw.Driver.Conc
import Vgw.Driver.ConcVer
import Vgw.Driver.Proxy
import Vgw.Driver.IAM
import Vgw.Driver.Robust
import Vgw.Driver.Crash
import Vgw.Driver.Race
import Vgw.Driver.Chunk

structure DriverState where
  gw : Vgw.Driver.Gw.DState := {}
  iam : Vgw.Driver.IAM.DState := {}

def dispatch (d : DriverState) (line : String) : DriverState × String :=
  match (line.trimAscii.toString.splitOn " ").filter (· ≠ "") with
  | "range" :: rest => (d, (Vgw.Driver.Range.handle rest).getD "bad-op")
  | "gw" :: rest =>
    let (g, out) := Vgw.Driver.Gw.handle d.gw rest
    ({ d with gw := g }, out.getD "bad-op")
  | "path" :: rest => (d, (Vgw.Driver.Path.handle rest).getD "bad-op")
  | "walk" :: rest => (d, (Vgw.Driver.Walk.handle rest).getD "bad-op")
  | "chunk" :: rest => (d, (Vgw.Driver.Chunk.handle rest).getD "bad-op")
  | "race" :: rest => (d, (Vgw.Driver.Race.handle rest).getD "bad-op")
  | "crash" :: rest => (d, (Vgw.Driver.Crash.handle rest).getD "bad-op")
  | "iam" :: rest =>
    let (g, out) := Vgw.Driver.IAM.handle d.iam rest
    ({ d with iam := g }, out.getD "bad-op")
  | "robust" :: rest => (d, (Vgw.Driver.Robust.handle rest).getD "bad-op")
  | "proxy" :: rest => (d, (Vgw.Driver.Proxy.handle rest).getD "bad-op")
  | "conc" :: rest => (d, (Vgw.Driver.Conc.handle rest).getD "bad-op")
  | "concver" :: rest => (d, (Vgw.Driver.ConcVer.handle rest).getD "bad-op")
  | "bucketname" :: rest => (d, (Vgw.Driver.BucketName.handle rest).getD "bad-op")
  | "glob" :: rest => (d, (Vgw.Driver.Policy.globHandle rest).getD "bad-op")
  | "policy" :: rest => (d, (Vgw.Driver.Policy.handle rest).getD "bad-op")
  | _ => (d, "bad-op")

partial def loop (h : IO.FS.Stream) (out : IO.FS.Stream) (d : DriverState) : IO Unit := do
  let line ← h.getLine
  if line.isEmpty then return ()
  let (d', ans) := dispatch d line
  out.putStrLn ans
  loop h out d'

def main : IO Unit := do
  let out ← IO.getStdout
  loop (← IO.getStdin) out {}
  out.flush
