import Vgw.Go.Bytes
import Vgw.Go.Strconv
import Vgw.Model.Range
