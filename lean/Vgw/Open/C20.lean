/-
  C20 — the code as it is violates the full statement at seven sites.  Each theorem below is the
  NEGATION of a clause of `Props.C20.C20_full false`, from a concrete input; each input was
  replayed on the real gateway (the child process exits / its RSS balloons):

    1  AclParser `pathParts[1]`                 request target `fzb` (no leading "/"), signed
    2  PutBucketOwnershipControls `Rules[0]`    `<OwnershipControls></OwnershipControls>`
    3  ListMultipartUploads `resultUpds[i-1]`   four uploads, key-marker = first key, max-uploads = 1
    4  Grant.isValid → `(*Grt)(nil).isValid()`  PutBucketAcl, `<Grant><Permission>READ</Permission></Grant>`
    5  PutObjectAcl `&grt.Grantee.ID`           the same document on `PUT /b/k?acl`
    6  SelectObjectContent `*progress.Enabled`  `<RequestProgress></RequestProgress>`
    7  unsigned chunk reader `make([]byte, n)`  chunk-size line `140000000` and no payload: 5 GiB
-/
import Vgw.Props.C20
namespace Vgw.Open.C20
open Vgw Vgw.Go Vgw.Model.Robust Vgw.Props.C20

/-- 1: `fzb` passes DecodeURL as it is and has no "/" for AclParser to split at -/
theorem aclParser_asis_witness : noPanic (decodeThenAclParser false [102, 122, 98]) = false := by decide

/-- 2 -/
theorem putOwnershipControls_asis_witness (valid : Bytes → Bool) : noPanic (putOwnershipControls false valid []) = false :=
  (Props.C20.putOwnershipControls_asis_panics_iff valid []).mpr rfl

/-- 3 -/
theorem listMultipartUploads_asis_witness :
    noPanic (listMultipartUploadsPage false [⟨[97], [1]⟩, ⟨[98], [2]⟩, ⟨[99], [3]⟩, ⟨[100], [4]⟩] 0 1 [97] []) = false := by decide

/-- 4: a Grant with a valid Permission and no Grantee -/
theorem acpValidate_asis_witness : noPanic (acpValidate false [⟨none, [82, 69, 65, 68]⟩] (some (some [1]))) = false := by decide

/-- 5 -/
theorem putObjectAclGrants_asis_witness : noPanic (putObjectAclGrants false [⟨none, [82, 69, 65, 68]⟩]) = false := by decide

/-- 6 -/
theorem selectProgress_asis_witness : noPanic (selectProgressEnabled false (some none)) = false :=
  (Props.C20.selectProgress_asis_panics_iff (some none)).mpr rfl

/-- 7: the line `140000000` is accepted and sizes an allocation of 5 GiB although nothing arrived -/
theorem chunkAlloc_asis_witness :
    extractChunkSize [49, 52, 48, 48, 48, 48, 48, 48, 48] = some 5368709120 ∧
    chunkAlloc false 5368709120 0 = .ok 5368709120 := by decide

theorem noPanicAtDefectSites_asis_false : ¬ NoPanicAtDefectSites false := by
  intro h
  have := h.1 [102, 122, 98]
  rw [aclParser_asis_witness] at this
  simp at this

theorem allocTracksArrival_asis_false : ¬ AllocTracksArrival false := by
  intro h
  obtain ⟨m, hm, hle⟩ := h [49, 52, 48, 48, 48, 48, 48, 48, 48] 5368709120 0 chunkAlloc_asis_witness.1
  rw [chunkAlloc_asis_witness.2] at hm
  simp at hm
  omega

/-- the full statement is false of the code as it is -/
theorem C20_full_asis_false : ¬ C20_full false := fun h => noPanicAtDefectSites_asis_false h.1

/-- each clause separately (so that repairing one site does not hide the others) -/
theorem each_clause_asis_false :
    (¬ ∀ u, noPanic (decodeThenAclParser false u) = true) ∧
    (¬ ∀ valid rules, noPanic (putOwnershipControls false valid rules) = true) ∧
    (¬ ∀ grants owner, noPanic (acpValidate false grants owner) = true) ∧
    (¬ ∀ grants, noPanic (putObjectAclGrants false grants) = true) ∧
    (¬ ∀ p, noPanic (selectProgressEnabled false p) = true) ∧
    (¬ ∀ uploads kmi mx km um, -1 ≤ kmi → noPanic (listMultipartUploadsPage false uploads kmi mx km um) = true) := by
  refine ⟨?_, ?_, ?_, ?_, ?_, ?_⟩
  · intro h; have := h [102, 122, 98]; rw [aclParser_asis_witness] at this; simp at this
  · intro h; have := h (fun _ => true) []; rw [putOwnershipControls_asis_witness] at this; simp at this
  · intro h; have := h [⟨none, [82, 69, 65, 68]⟩] (some (some [1])); rw [acpValidate_asis_witness] at this; simp at this
  · intro h; have := h [⟨none, [82, 69, 65, 68]⟩]; rw [putObjectAclGrants_asis_witness] at this; simp at this
  · intro h; have := h (some none); rw [selectProgress_asis_witness] at this; simp at this
  · intro h
    have := h [⟨[97], [1]⟩, ⟨[98], [2]⟩, ⟨[99], [3]⟩, ⟨[100], [4]⟩] 0 1 [97] [] (by omega)
    rw [listMultipartUploads_asis_witness] at this; simp at this

end Vgw.Open.C20
