/-
  Open/C05 — the clauses of C05 that the code as it is VIOLATES (reads by path: single write,
  linearizability), each refuted from a concrete schedule of Model.Conc; the same schedules are
  replayed against the real gateway by the harness (corpus of harness/cmd/vharness/c05.go).
  The window of the REGRESSION variants (publication by remove-then-link, before commit 4399f3e) is
  kept as `example`s about those variants.
-/
import Vgw.Props.C05
namespace Vgw.Open.C05
open Vgw.Model.Conc Vgw.Props.C05 Vgw.Spec.Register

theorem reach_run (c : Cfg) (s : State) (sched : List Nat) : Reach c s (run c s sched) := by
  induction sched generalizing s with
  | nil => exact Reach.refl
  | cons i sched ih =>
    simp only [run]
    cases h : step c s i with
    | none => simpa using ih s
    | some s' =>
      have := ih s'
      simp only [Option.getD_some]
      -- Reach c s s' then on
      have h1 : Reach c s s' := Reach.step Reach.refl h
      clear ih
      generalize run c s' sched = s2 at this
      induction this with
      | refl => exact h1
      | step _ hs ih2 => exact Reach.step ih2 hs

/-- write A (the object the key holds at the start) and write B (the overwrite). -/
def wA : Write := { blob := ⟨1, 1⟩, attrs := [(.umeta 0, 1), (.etag, 1)] }
def wB : Write := { blob := ⟨2, 1⟩, attrs := [(.umeta 0, 2), (.etag, 2)] }
def fsA : FS := { inodes := [inodeOf wA], key := some 0 }
def reqsPG : List Req := [{ kind := .put, w := wB }, { kind := .get }]

/-- schedule 1: GET reads stat and every attribute (of A), the PUT runs completely, GET opens (B). -/
def schedTorn : List Nat := List.replicate 12 1 ++ List.replicate 12 0 ++ [1]

/-- schedule 2 (regression variants): the PUT runs up to and including its unlink, GET starts (and
    sees nothing), the PUT goes on. -/
def schedWindow : List Nat := List.replicate 5 0 ++ [1] ++ List.replicate 4 0

/-- the torn answer: body of B with ETag and user metadata of A. -/
def tornResp : ReadResp :=
  { size := 1, body := some ⟨2, 1⟩, etag := some 1, umeta := [(0, 1)], hdrs := [] }

theorem torn_otmp : (run ⟨.otmp, .byPath⟩ (init ⟨.otmp, .byPath⟩ fsA reqsPG) schedTorn).resp 1 = some (.read tornResp) := by decide
theorem torn_mktemp : (run ⟨.mktemp, .byPath⟩ (init ⟨.mktemp, .byPath⟩ fsA reqsPG) schedTorn).resp 1 = some (.read tornResp) := by decide

/-- REGRESSION variants: a GET between the unlink and the publication of an overwrite answers
    NoSuchKey although the key existed and was only being overwritten. -/
example : (run ⟨.otmpOld, .byPath⟩ (init ⟨.otmpOld, .byPath⟩ fsA reqsPG) schedWindow).resp 1 = some .noSuchKey := by decide
example : (run ⟨.mktempOld, .byPath⟩ (init ⟨.mktempOld, .byPath⟩ fsA reqsPG) schedWindow).resp 1 = some .noSuchKey := by decide

theorem keyLast_fsA : KeyLast fsA := by intro i h; cases h; rfl

theorem isValue_cases (ino : Inode) (h : IsValue fsA reqsPG ino) : ino = inodeOf wA ∨ ino = written { kind := .put, w := wB } := by
  rcases h with h | ⟨rq, hrq, hw, rfl⟩
  · left; simpa [fsA] using h
  · simp only [reqsPG, List.mem_cons, List.not_mem_nil, or_false] at hrq
    rcases hrq with rfl | rfl
    · right; rfl
    · cases hw

/-- **The code as it is violates the single-write clause** (both strategies of the Linux build): a
GET whose stat and attribute reads precede an overwrite's publication and whose open follows it
answers the body of B with the ETag and metadata of A. -/
theorem get_single_write_false (st : Strategy) (h : st = .otmp ∨ st = .mktemp) : ¬ get_single_write_full ⟨st, .byPath⟩ := by
  intro hfull
  have key : ∀ c : Cfg, (run c (init c fsA reqsPG) schedTorn).resp 1 = some (.read tornResp) → get_single_write_full c → False := by
    intro c hr hf
    obtain ⟨ino, hv, he⟩ := hf fsA reqsPG _ 1 { kind := .get } tornResp keyLast_fsA (reach_run c _ schedTorn) rfl hr
    rcases isValue_cases ino hv with rfl | rfl
    · revert he; decide
    · revert he; decide
  rcases h with rfl | rfl
  · exact key _ torn_otmp hfull
  · exact key _ torn_mktemp hfull

/-- the regression variants violate the never-missing clause (the code as it is does not:
    `Props.C05.overwrite_never_missing`). -/
example (st : Strategy) (h : st = .otmpOld ∨ st = .mktempOld) : ¬ overwrite_never_missing_full ⟨st, .byPath⟩ := by
  intro hfull
  have key : ∀ c : Cfg, (run c (init c fsA reqsPG) schedWindow).resp 1 = some .noSuchKey → overwrite_never_missing_full c → False := by
    intro c hr hf
    exact hf fsA reqsPG _ 1 { kind := .get } keyLast_fsA (by decide) (by decide) (reach_run c _ schedWindow) rfl rfl hr
  rcases h with rfl | rfl
  · exact key _ (by decide) hfull
  · exact key _ (by decide) hfull

/-! ### not linearizable -/

/-- with the register always holding one of the values `S` (no DELETE among the operations), no replay
    admits an answered read whose answer is the observation of none of them. -/
theorem accepts_foreign_false {V K O : Type} [DecidableEq O] (obs : V → K → O) (S : List V) (es : List (Event V K O))
    (st : Option V) (hst : ∃ v ∈ S, st = some v)
    (hops : ∀ e ∈ es, e.op ≠ .delete ∧ ∀ v, e.op = .write v → v ∈ S)
    (hm : ∃ e ∈ es, e.ret.isSome = true ∧ ∃ k o, e.op = .read k ∧ e.res = .value o ∧ ∀ v ∈ S, obs v k ≠ o) :
    accepts obs st es = false := by
  induction es generalizing st with
  | nil => obtain ⟨e, he, _⟩ := hm; cases he
  | cons e es ih =>
    simp only [accepts]
    obtain ⟨e', he', h1, k, o, h2, h3, h4⟩ := hm
    rcases List.mem_cons.1 he' with rfl | hin
    · obtain ⟨v, hv, rfl⟩ := hst
      have : admits obs (some v) e'.op e'.res = false := by
        rw [h2, h3]; simp only [admits, Option.map_some, Option.some.injEq, decide_eq_false_iff_not]; exact h4 v hv
      cases hr : e'.ret with
      | none => rw [hr] at h1; cases h1
      | some r => simp [this]
    · have hnext : ∃ v ∈ S, next st e.op = some v := by
        cases hop : e.op with
        | write v => exact ⟨v, (hops e List.mem_cons_self).2 v hop, rfl⟩
        | delete => exact absurd hop (hops e List.mem_cons_self).1
        | read k => simpa [next] using hst
      rw [ih (next st e.op) hnext (fun x hx => hops x (List.mem_cons_of_mem _ hx)) ⟨e', hin, h1, k, o, h2, h3, h4⟩]
      simp

/-- **The code as it is is not linearizable**: in the torn schedule the GET's answer (body of B with
ETag and metadata of A) is the observation of neither A nor B — no order explains it. -/
theorem linearizable_false (st : Strategy) (h : st = .otmp ∨ st = .mktemp) : ¬ linearizable_full ⟨st, .byPath⟩ := by
  intro hfull
  have key : ∀ c : Cfg,
      (let s := run c (init c fsA reqsPG) schedTorn
       (histOf reqsPG s)[1]?.map (fun e => (e.op, e.ret.isSome, e.res)) = some (.read false, true, .value tornResp) ∧
       ((histOf reqsPG s)[0]?.map (·.op)) = some (.write (written { kind := .put, w := wB })) ∧ (histOf reqsPG s).length = 2) →
      linearizable_full c → False := by
    intro c hh hf
    obtain ⟨pts, _, _, _, hall, hacc⟩ := hf fsA reqsPG _ keyLast_fsA (reach_run c _ schedTorn)
    obtain ⟨h1, h0, hlen⟩ := hh
    cases he1 : (histOf reqsPG (run c (init c fsA reqsPG) schedTorn))[1]? with
    | none => rw [he1] at h1; cases h1
    | some e1 =>
      rw [he1] at h1
      simp only [Option.map_some, Option.some.injEq, Prod.mk.injEq] at h1
      obtain ⟨hop1, hret1, hres1⟩ := h1
      have hin : 1 ∈ pts.map (·.2) := hall 1 e1 he1 (by intro hn; rw [hn] at hret1; cases hret1)
      have : accepts observe fsA.cur (pts.filterMap fun p => (histOf reqsPG (run c (init c fsA reqsPG) schedTorn))[p.2]?) = false := by
        apply accepts_foreign_false observe [inodeOf wA, written { kind := .put, w := wB }]
        · exact ⟨inodeOf wA, by simp, rfl⟩
        · intro e he
          obtain ⟨p, _, hp⟩ := List.mem_filterMap.1 he
          have hlt : p.2 < 2 := by rw [← hlen]; exact (List.getElem?_eq_some_iff.1 hp).1
          have : p.2 = 0 ∨ p.2 = 1 := by omega
          rcases this with e0 | e1'
          · rw [e0] at hp; rw [hp] at h0; simp only [Option.map_some, Option.some.injEq] at h0
            rw [h0]; exact ⟨(fun hx => nomatch hx), (fun v hv => by cases hv; simp)⟩
          · rw [e1', he1] at hp; cases hp; rw [hop1]; exact ⟨(fun hx => nomatch hx), (fun v hv => nomatch hv)⟩
        · obtain ⟨p, hp, hp1⟩ := List.mem_map.1 hin
          refine ⟨e1, List.mem_filterMap.2 ⟨p, hp, by rw [hp1]; exact he1⟩, hret1, false, tornResp, hop1, hres1, ?_⟩
          intro v hv
          simp only [List.mem_cons, List.not_mem_nil, or_false] at hv
          rcases hv with rfl | rfl <;> decide
      rw [this] at hacc; cases hacc
  rcases h with rfl | rfl
  · exact key _ (by decide) hfull
  · exact key _ (by decide) hfull

end Vgw.Open.C05
