/-
  Open/C05 — nothing here is a defect of the code as it is: every clause of C05 is a theorem of
  Props/C05.lean for the current code.

  What is kept are `example`s about the REGRESSION models (`Variant.old` and its parts), so that the
  behaviour the check must report as a violation, should it ever return, stays documented by a
  witness the kernel evaluates:
    * reads by path (GetObject/HeadObject before 109ae9c): a GET whose stat and attribute reads
      precede an overwrite's publication and whose open follows it answers the body of B with the
      ETag and metadata of A — no single write, not linearizable;
    * publication by remove-then-link (before 4399f3e): a GET between the unlink and the publication
      answers NoSuchKey although the key is only being overwritten — not linearizable either;
    * CopyObject failing on its final stat (before 4e82e48).
  The same schedules run first in the harness (corpus of harness/cmd/vharness/c05.go) against the
  real gateway, where they must now pass.
-/
import Vgw.Props.C05
import Vgw.Props.C05Ver
namespace Vgw.Open.C05
open Vgw.Model.Conc Vgw.Props.C05 Vgw.Spec.Register

/-- write A (the object the key holds at the start) and write B (the overwrite). -/
def wA : Write := { blob := ⟨1, 1⟩, attrs := [(.umeta 0, 1), (.etag, 1)] }
def wB : Write := { blob := ⟨2, 1⟩, attrs := [(.umeta 0, 2), (.etag, 2)] }
def fsA : FS := { inodes := [inodeOf wA], key := some 0 }
def reqsPG : List Req := [{ kind := .put, w := wB }, { kind := .get }]

/-- schedule 1: GET reads stat and every attribute (of A), the PUT runs completely, GET opens (B). -/
def schedTorn : List Nat := List.replicate 12 1 ++ List.replicate 12 0 ++ [1]

/-- schedule 2: the PUT runs up to and including its unlink, GET starts (and sees nothing), the PUT goes on. -/
def schedWindow : List Nat := List.replicate 5 0 ++ [1] ++ List.replicate 4 0

/-- the torn answer: body of B with ETag and user metadata of A. -/
def tornResp : ReadResp :=
  { size := 1, body := some ⟨2, 1⟩, etag := some 1, umeta := [(0, 1)], hdrs := [] }

/-- the regression configurations: reads by path on top of the current publication (the code between
    4399f3e and 109ae9c), and the complete old variant. -/
def byPathCfg (otmp : Bool) : Cfg := { cur otmp with rmode := .byPath }
def oldCfg (otmp : Bool) : Cfg := Variant.old.cfg otmp

/-! ### reads by path: torn answers -/

example : (run (byPathCfg true) (init (byPathCfg true) fsA reqsPG) schedTorn).resp 1 = some (.read tornResp) := by decide
example : (run (byPathCfg false) (init (byPathCfg false) fsA reqsPG) schedTorn).resp 1 = some (.read tornResp) := by decide
example : (run (oldCfg true) (init (oldCfg true) fsA reqsPG) schedTorn).resp 1 = some (.read tornResp) := by decide

/-- the same schedule on the code as it is: the answer is exactly A. -/
example : (run (cur true) (init (cur true) fsA reqsPG) schedTorn).resp 1 = some (.read (observe (inodeOf wA) false)) := by decide

/-- REGRESSION model "reads by path" violates the single-write clause. -/
example (otmp : Bool) : ¬ get_single_write_full (byPathCfg otmp) := by
  intro hf
  have key : ∀ c : Cfg, (run c (init c fsA reqsPG) schedTorn).resp 1 = some (.read tornResp) → get_single_write_full c → False := by
    intro c hr hf
    obtain ⟨ino, hv, he⟩ := hf fsA reqsPG _ 1 { kind := .get } tornResp (by intro i h; cases h; rfl) (reach_run c _ schedTorn) rfl hr
    have hcases : ino = inodeOf wA ∨ ino = written { kind := .put, w := wB } := by
      rcases hv with h | ⟨rq, hrq, hw, rfl⟩
      · left; simpa [fsA] using h
      · simp only [reqsPG, List.mem_cons, List.not_mem_nil, or_false] at hrq
        rcases hrq with rfl | rfl
        · right; rfl
        · cases hw
    rcases hcases with rfl | rfl
    · revert he; decide
    · revert he; decide
  cases otmp
  · exact key _ (by decide) hf
  · exact key _ (by decide) hf

/-- REGRESSION model "reads by path" is not linearizable: the torn answer is the observation of
    neither A nor B. -/
example (otmp : Bool) : ¬ linearizable_full (byPathCfg otmp) := by
  intro hfull
  have key : ∀ c : Cfg,
      (let s := run c (init c fsA reqsPG) schedTorn
       (histOf reqsPG s)[1]?.map (fun e => (e.op, e.ret.isSome, e.res)) = some (.read false, true, .value tornResp) ∧
       ((histOf reqsPG s)[0]?.map (·.op)) = some (.write (written { kind := .put, w := wB })) ∧ (histOf reqsPG s).length = 2) →
      linearizable_full c → False := by
    intro c hh hf
    obtain ⟨pts, _, _, _, hall, hacc⟩ := hf fsA reqsPG _ (by intro i h; cases h; rfl) (reach_run c _ schedTorn)
    obtain ⟨h1, h0, hlen⟩ := hh
    cases he1 : (histOf reqsPG (run c (init c fsA reqsPG) schedTorn))[1]? with
    | none => rw [he1] at h1; cases h1
    | some e1 =>
      rw [he1] at h1
      simp only [Option.map_some, Option.some.injEq, Prod.mk.injEq] at h1
      obtain ⟨hop1, hret1, hres1⟩ := h1
      have hin : 1 ∈ pts.map (·.2) := hall 1 e1 he1 (by intro hn; rw [hn] at hret1; cases hret1)
      have : accepts observe fsA.cur (pts.filterMap fun p => (histOf reqsPG (run c (init c fsA reqsPG) schedTorn))[p.2]?) = false := by
        apply accepts_foreign_false observe [inodeOf wA, written { kind := .put, w := wB }]
        · exact ⟨inodeOf wA, by simp, rfl⟩
        · intro e he
          obtain ⟨p, _, hp⟩ := List.mem_filterMap.1 he
          have hlt : p.2 < 2 := by rw [← hlen]; exact (List.getElem?_eq_some_iff.1 hp).1
          have : p.2 = 0 ∨ p.2 = 1 := by omega
          rcases this with e0 | e1'
          · rw [e0] at hp; rw [hp] at h0; simp only [Option.map_some, Option.some.injEq] at h0
            rw [h0]; exact ⟨(fun hx => nomatch hx), (fun v hv => by cases hv; simp)⟩
          · rw [e1', he1] at hp; cases hp; rw [hop1]; exact ⟨(fun hx => nomatch hx), (fun v hv => nomatch hv)⟩
        · obtain ⟨p, hp, hp1⟩ := List.mem_map.1 hin
          refine ⟨e1, List.mem_filterMap.2 ⟨p, hp, by rw [hp1]; exact he1⟩, hret1, false, tornResp, hop1, hres1, ?_⟩
          intro v hv
          simp only [List.mem_cons, List.not_mem_nil, or_false] at hv
          rcases hv with rfl | rfl <;> decide
      rw [this] at hacc; cases hacc
  cases otmp
  · exact key _ (by decide) hfull
  · exact key _ (by decide) hfull

/-! ### publication by remove-then-link: the key-missing window -/

example : (run (oldCfg true) (init (oldCfg true) fsA reqsPG) schedWindow).resp 1 = some .noSuchKey := by decide
example : (run (oldCfg false) (init (oldCfg false) fsA reqsPG) schedWindow).resp 1 = some .noSuchKey := by decide

/-- the same schedule on the code as it is: the GET finds A. -/
example : (run (cur true) (init (cur true) fsA reqsPG) (schedWindow ++ List.replicate 16 1)).resp 1 =
    some (.read (observe (inodeOf wA) false)) := by decide

/-- REGRESSION model "remove-then-link" violates the never-missing clause. -/
example (otmp : Bool) : ¬ overwrite_never_missing_full (oldCfg otmp) := by
  intro hfull
  have key : ∀ c : Cfg, (run c (init c fsA reqsPG) schedWindow).resp 1 = some .noSuchKey → overwrite_never_missing_full c → False := by
    intro c hr hf
    exact hf fsA reqsPG _ 1 { kind := .get } (by intro i h; cases h; rfl) (by decide) (by decide) (reach_run c _ schedWindow) rfl rfl hr
  cases otmp
  · exact key _ (by decide) hfull
  · exact key _ (by decide) hfull

/-! ### CopyObject failing on its final stat -/

/-- REGRESSION model: COPY publishes, a DELETE removes the key, COPY's stat finds nothing → 500. -/
example :
    (run (oldCfg true) (init (oldCfg true) fsA [{ kind := .copy, w := wB }, { kind := .delete }])
      (List.replicate 6 0 ++ [1, 1] ++ [0])).resp 0 = some .err := by decide

/-- the code as it is answers 200. -/
example :
    (run (cur true) (init (cur true) fsA [{ kind := .copy, w := wB }, { kind := .delete }])
      (List.replicate 9 0 ++ [1, 1] ++ [0])).resp 0 = some .ok := by decide

end Vgw.Open.C05

/-! ## versioned buckets (`Model.ConcVer`) -/
namespace Vgw.Open.C05Ver
open Vgw.Model.ConcVer

/-- **the code as it is loses an acknowledged version**: two overlapping writes both archive the
object that was current, the first publication is replaced by the second without being archived.
Both writes are acknowledged (ids 2 and 3), id 2 cannot be read. This is the recorded finding
`conc:versioned:version-not-retrievable:*`, reproduced on the real gateway by `./check C05`. -/
theorem acked_version_lost :
    let s := run .byFd (init (some ⟨0, 1⟩) [1, 2]) [0, 1, 0, 1, 0, 1, 0, 1]
    acked s = [2, 3] ∧ readVer s 2 = none ∧ readVer s 3 = some ⟨⟨2, 3⟩, ⟨2, 3⟩⟩ := by decide

/-- hence the full statement is false for the code as it is. -/
theorem not_noLostVersion :
    ¬ Vgw.Props.C05Ver.NoLostVersion (run .byFd (init (some ⟨0, 1⟩) [1, 2]) [0, 1, 0, 1, 0, 1, 0, 1]) := by
  intro h
  have := h 2 (by decide)
  rcases this with ⟨e, he⟩
  have hn : readVer (run .byFd (init (some ⟨0, 1⟩) [1, 2]) [0, 1, 0, 1, 0, 1, 0, 1]) 2 = none := by decide
  rw [hn] at he
  cases he

/-- REGRESSION model `byName` (before 54bf489: size and attribute names taken from the name): the
slower writer archives object 0 with the shape of object 2 — an incomplete (padded / attribute-less)
version file. -/
example : (run .byName (init (some ⟨0, 1⟩) [1, 2]) [0, 1, 1, 1, 0]).arch
    = [⟨⟨0, 1⟩, ⟨2, 2⟩⟩] ∧
    ((run .byName (init (some ⟨0, 1⟩) [1, 2]) [0, 1, 1, 1, 0]).arch.all Ver.complete) = false := by decide

end Vgw.Open.C05Ver
