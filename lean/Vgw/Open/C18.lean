/-
  C18 — open findings: what is still FALSE for backend/s3proxy/s3.go.
  Every refutation is derived from the REGENERATED table (`Vgw.Gen.ProxyFacts`), so it disappears
  (the build breaks, asking for the lists in Model/Proxy.lean to be updated) when the code is
  repaired. The harness replays each witness end to end on real gateway processes
  (harness/cmd/vharness/c18*.go).

  * every entry of `lossyReq` is individually necessary: for each of them there is a request on
    which the value does not reach the backend as a plain copy (`lossy_entry_is_lost`) — hence the
    request half of `proxy_fields_preserved_full` is false (Expires, object-lock headers,
    ListBuckets owner; the three argued entries are harmless: Props.C18.lossyReqFindings_eq);
  * `no_panic_full` is false: eight methods dereference members of a successful answer untested
    (members every real endpoint answers: ETag, bucket names, upload ids, …);
  * `acl_fits_full` is false: an ACL document longer than 192 bytes cannot be stored in the tag;
  * the obvious way to implement client bucket tagging (forward the calls) would clobber and
    reveal the reserved tag — kept as the rejected alternative of Props.C18.acl_tag_isolated.
-/
import Vgw.Props.C18
namespace Vgw.Open.C18
open Vgw Vgw.Gen.ProxyFacts Vgw.Model.Proxy Vgw.Lemmas.Proxy Vgw.Lemmas.ProxyAcl Vgw.Props.C18

/-- method names are unique in the generated table -/
theorem look_unique : methods.all (fun M => look M.name == some M) = true := by decide

theorem look_of_mem {M : Method} (h : M ∈ methods) : look M.name = some M := by
  have := List.all_eq_true.mp look_unique M h
  simpa using this

/-- a relevant request entry the table rejects is lost for the witness request -/
theorem lossy_entry_is_lost (e : String × String × String) (h : reqOk e = false) : ¬ ReqPreserved e := by
  rintro ⟨M, c, hm, hn, hc, hall⟩
  have hl : look e.1 = some M := by rw [← hn]; exact look_of_mem hm
  unfold reqOk at h
  rw [hl] at h
  exact preservedReq_complete M c e.2.1 e.2.2 hc h (hall (fun _ _ => none) (witnessReq M e.2.1))

/-- a relevant output entry the table rejects is lost for the witness answer -/
theorem dropped_entry_is_lost (e : String × String × String) (h : respOk e = false) : ¬ RespCopied e := by
  rintro ⟨M, hm, hn, hall⟩
  have hl : look e.1 = some M := by rw [← hn]; exact look_of_mem hm
  unfold respOk at h
  rw [hl] at h
  exact copiedResp_complete M e.2.1 e.2.2 h (hall (fun _ _ => none) (witnessResp e.2.1))

/-- every listed drop is individually necessary -/
theorem lossyReq_all_necessary : ∀ e ∈ relevantReq, (e.1, e.2.1) ∈ lossyReq → ¬ ReqPreserved e := by
  intro e he hl
  apply lossy_entry_is_lost
  have key : relevantReq.all (fun e => !lossyReq.contains (e.1, e.2.1) || !reqOk e) = true := by decide
  have := List.all_eq_true.mp key e he
  have hc : lossyReq.contains (e.1, e.2.1) = true := List.contains_iff_mem.mpr hl
  rw [hc] at this
  simpa using this

/-- The full statement is false: the caller of ListBuckets does not reach the backend. -/
theorem proxy_fields_preserved_full_false : ¬ proxy_fields_preserved_full := by
  intro h
  exact lossyReq_all_necessary ("ListBuckets", "Owner", "Owner") (by decide) (by decide)
    (h.1 _ (by decide))

/-- a non-RFC1123 `Expires` is at the mercy of `time.Parse`: modelled as an arbitrary computation,
which may yield nothing (the code: `if err == nil { expires = &exp }`) -/
theorem expires_not_copied : reqOk ("PutObject", "Expires", "Expires") = false := by decide

/-- the object-lock headers of a PUT are cleared before the call -/
theorem lock_cleared : mPutObject.cleared = ["ObjectLockRetainUntilDate", "ObjectLockMode", "ObjectLockLegalHoldStatus"] := by decide

/-- `ListBuckets` sends neither the caller nor the is-admin flag: the endpoint cannot filter -/
theorem listbuckets_owner_not_sent : reqOk ("ListBuckets", "Owner", "Owner") = false ∧ reqOk ("ListBuckets", "IsAdmin", "IsAdmin") = false := by decide

/-! ### panics -/

/-- an answer to PutObject without ETag makes the method panic (`*output.ETag`) -/
theorem putobject_panics_without_etag : panics mPutObject false (fun p => p != "ETag") = true := by decide

theorem no_panic_full_false : ¬ no_panic_full := by
  intro h
  have := h mPutObject (by decide) false (fun p => p != "ETag")
  rw [putobject_panics_without_etag] at this
  exact Bool.noConfusion this

/-- the methods that dereference optional members of a successful answer untested -/
theorem unguarded_derefs : (methods.filter (fun m => !m.derefUnguarded.isEmpty)).map (fun m => m.name) =
    ["ListBuckets", "GetBucketOwnershipControls", "CreateMultipartUpload",
     "UploadPartCopy", "PutObject", "GetBucketAcl", "PutBucketAcl", "GetObjectTagging"] := by decide

/-! ### the ACL does not fit -/

theorem acl_fits_full_false : ¬ acl_fits_full := by
  intro h
  obtain ⟨t, ht⟩ := h (List.replicate 193 65)
  rw [acl_too_long_refused _ (by rw [List.length_replicate]; decide)] at ht
  cases ht

/-! ### bucket tagging: the rejected alternative -/

/-- the obvious implementation (forward the three calls) is wrong: a client's put removes the stored ACL … -/
def aclOf (s : Option Tags) : Option Bytes := match getBucketAcl s with | .ok a => some a | .error _ => none

theorem naive_put_clobbers_acl :
    aclOf (naiveTagging (some [(aclKeyB, b64Encode [123, 125])]) (.put [("team", [120])])).2 = some [] ∧
    aclOf (some [(aclKeyB, b64Encode [123, 125])]) = some [123, 125] := by decide

/-- … and a client's get shows it -/
theorem naive_get_reveals_acl :
    (match (naiveTagging (some [(aclKeyB, [65, 65, 65, 65])]) .get).1 with
     | .ok (some vis) => vis.any (fun kv => kv.1 == aclKeyB)
     | _ => false) = true := by decide

end Vgw.Open.C18
