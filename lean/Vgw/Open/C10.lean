/-
  Open finding of C10 (the unchanged code violates the full statement; `known_findings.json`
  signature `lock:completeUpload-onto-protected:data-replaced`): CompleteMultipartUpload performs
  no object-lock check. In a lock bucket without versioning the completed upload replaces a
  protected object. The model mirrors the code, so the negation is provable from a witness.
-/
import Vgw.Props.C10
namespace Vgw.Open.C10
open Vgw Vgw.Model.Gw Vgw.Props.C10

/-- full statement: no request makes a protected version's data unretrievable or different -/
def protected_survives_every_request_full : Prop :=
  ∀ (cfg : Cfg) (s : State) (w : Who) (now : Int) (op : Op) (b k : Bytes) (bk : Bucket) (v : Ver),
    findBucket s b = some bk → lockOn bk → (bk.versions k).contains v = true → Protected bk w now k v →
    ∃ bk', findBucket (handle cfg s w now op).1 b = some bk' ∧ (bk'.versions k).contains v = true

def held : Ver := { vid := [], data := [⟨1, 0, 3⟩], etag := [97], hold := true, holdSet := true }
def up : Upload := { key := [107], id := [117], parts := [⟨1, [⟨2, 0, 5⟩], [98]⟩] }
def bkt : Bucket := { name := [98], acl := ⟨[114], []⟩, lock := some { enabled := true },
                      objects := [([107], [held])], uploads := [up] }
def st : State := { buckets := [bkt] }
def rootW : Who := ⟨[114], true, .admin⟩
def op : Op := .completeUpload [98] [107] [117] [(1, [98])] [99] []

theorem witness_state : (findBucket (handle {} st rootW 0 op).1 [98]).map (fun bk' => (bk'.versions [107]).contains held) = some false := by
  decide

theorem protected_survives_every_request_full_false : ¬ protected_survives_every_request_full := by
  intro h
  obtain ⟨bk', hf, hm⟩ := h {} st rootW 0 op [98] [107] bkt held (by decide) ⟨{ enabled := true }, rfl, rfl⟩ (by decide)
    (by unfold Protected; decide)
  have := witness_state
  rw [hf] at this
  simp only [Option.map_some, Option.some.injEq] at this
  rw [hm] at this
  cases this

end Vgw.Open.C10
