/-
  C17, open part: the unchanged code (`Variant.current`) violates the full statements of
  Props/C17.lean.  Each witness is a concrete history / interleaving, evaluated by the kernel; the
  same schedules are replayed on the real code by the harness (c17conc.go corpus, c17e2e.go).

  * `seq_refines_map_full_false`       a fresh account answers WITHOUT its uid/gid (sequentially!):
                                       IAMCache.CreateAccount builds the cache entry from Access,
                                       Secret, Role only                [iam:create:cache-entry-drops-uid-gid]
  * `lookup_after_ack_full_false`      a lookup that has fetched, then a complete, acknowledged
                                       delete, then the lookup's cache.set: every later lookup finds
                                       the deleted account until the TTL ends  [iam:miss-in-flight-vs-delete:stale-cache]
  * `old_secret_after_update`          the same with an update: the old secret keeps working
                                                                        [iam:miss-in-flight-vs-update:stale-cache]
  * `deleted_account_after_create_race` create decided, delete runs completely, create writes its
                                       cache entry                      [iam:create-in-flight-vs-delete:stale-cache]
  * `updates_cached_out_of_order`      two updates whose cache steps run in the opposite order of
                                       their store steps                [iam:update-in-flight-vs-update:stale-cache]
  * `stale_uid_outlives_ttl`           the entry without uid/gid expires, is not pruned yet, and an
                                       update resurrects it (icache.update refreshes expired entries)

  Each of them falsifies one part of the side condition `QuietAt` of the `_partial` theorems, which
  shows that no part of it can be dropped.  With docs/C17-fix-2.diff (`invalidate`) the full
  statements hold (`Props.C17.lookup_after_ack_fixed`, `seq_refines_map_fixed`).
-/
import Vgw.Props.C17
namespace Vgw.Open.C17
open Vgw Vgw.Model.IAM Vgw.Props.C17
open Vgw.Model.Gw (Account Role)

def root : Account := { access := [114], secret := [1], role := .admin }
def cfg : Cfg := { root := root, ttl := 5 }
/-- account `a`: secret 2, role userplus, uid 5, gid 1000 -/
def acc : Account := { access := [97], secret := [2], role := .userplus, uid := 5, gid := 1000 }

theorem start_empty : Start cfg [] := ⟨by decide, by simp [keysNodup]⟩
theorem start_acc : Start cfg [acc] := ⟨by decide, by simp [keysNodup, acc]⟩

/-! ### the entry CreateAccount caches has no uid/gid -/

def seqWitness : List SeqAct := [.call (.create acc), .call (.get [97])]

/-- what the model (and the real code) answers: uid 0, gid 0 -/
theorem seqWitness_answers : seqRun .current cfg (init []) seqWitness =
    [some .ok, some (.acct { acc with uid := 0, gid := 0 })] := by decide

theorem seq_refines_map_full_false : ¬ seq_refines_map_full := by
  intro h
  have := h cfg [] 0 seqWitness start_empty
  rw [seqWitness_answers] at this
  simp only [seqWitness, seqRefines_call] at this
  have h2 := this.2.1
  revert h2
  decide

/-! ### a lookup in flight across a delete re-inserts the account -/

/-- lookup 0 of `a`: cache miss, RLock, read, RUnlock — parked before cache.set;
delete 1 of `a`: runs from invocation to return (acknowledged) -/
def raceDel₁ : List Act :=
  [.invoke (.get [97]), .step 0, .step 0, .step 0, .step 0, .invoke (.delete [97])] ++ List.replicate 8 (.step 1)
/-- lookup 0 stores what it fetched; then a NEW lookup 2 is invoked and runs -/
def raceDel₂ : List Act := [.step 0, .invoke (.get [97]), .step 2]

theorem raceDel_acked : (run .current cfg (init [acc]) raceDel₁).calls[1]? = some ⟨.delete [97], .done .ok⟩ := by decide
theorem raceDel_store : (run .current cfg (init [acc]) raceDel₁).committed = [] := by decide
theorem raceDel_answer :
    (run .current cfg (run .current cfg (init [acc]) raceDel₁) raceDel₂).calls[2]? = some ⟨.get [97], .done (.acct acc)⟩ := by decide

theorem lookup_after_ack_full_false : ¬ lookup_after_ack_full := by
  intro h
  have := h cfg [acc] 0 raceDel₁ raceDel₂ start_acc [97] (noMutB_sound (by decide))
    (by intro op hop hm; simp [raceDel₂] at hop; subst hop; cases hm)
    2 (.acct acc) (by decide) raceDel_answer
  rw [raceDel_store] at this
  revert this
  decide

/-- the stale entry lives until the TTL ends: at clock 4 the deleted account is still found, at
clock 5 it is gone (test) -/
example : (run .current cfg (run .current cfg (init [acc]) raceDel₁)
    [.step 0, .tick 4, .invoke (.get [97]), .step 2]).calls[2]? = some ⟨.get [97], .done (.acct acc)⟩ := by decide
example : (run .current cfg (run .current cfg (init [acc]) raceDel₁)
    ([.step 0, .tick 5, .invoke (.get [97])] ++ List.replicate 5 (.step 2))).calls[2]? = some ⟨.get [97], .done .noSuchUser⟩ := by decide

/-- the schedule is not quiet: the rename of the delete happens while lookup 0 holds a fetched value -/
example : quietRunB .current cfg (init [acc]) (raceDel₁ ++ raceDel₂) = false := by decide

/-! ### ... and across an update keeps the old secret valid -/

def raceUpd₁ : List Act :=
  [.invoke (.get [97]), .step 0, .step 0, .step 0, .step 0, .invoke (.update [97] { secret := some [9] })] ++ List.replicate 8 (.step 1)

theorem old_secret_after_update :
    (run .current cfg (init [acc]) raceUpd₁).calls[1]? = some ⟨.update [97] { secret := some [9] }, .done .ok⟩ ∧
    (run .current cfg (init [acc]) raceUpd₁).committed = [{ acc with secret := [9] }] ∧
    (run .current cfg (run .current cfg (init [acc]) raceUpd₁) raceDel₂).calls[2]? = some ⟨.get [97], .done (.acct acc)⟩ := by
  decide

/-! ### concurrent changes of one key: cache steps in another order than store steps -/

/-- create 0 decided and unlocked (parked before its cache step); delete 1 complete; create 0 caches -/
def raceCreate : List Act :=
  [.invoke (.create { acc with uid := 0, gid := 0 })] ++ List.replicate 7 (.step 0) ++
  [.invoke (.delete [97])] ++ List.replicate 8 (.step 1) ++ [.step 0, .invoke (.get [97]), .step 2]

theorem deleted_account_after_create_race :
    (run .current cfg (init []) raceCreate).calls[0]? = some ⟨.create { acc with uid := 0, gid := 0 }, .done .ok⟩ ∧
    (run .current cfg (init []) raceCreate).calls[1]? = some ⟨.delete [97], .done .ok⟩ ∧
    (run .current cfg (init []) raceCreate).committed = [] ∧
    (run .current cfg (init []) raceCreate).log = [⟨0, .create { acc with uid := 0, gid := 0 }, .ok⟩, ⟨1, .delete [97], .ok⟩] ∧
    (run .current cfg (init []) raceCreate).calls[2]? = some ⟨.get [97], .done (.acct { acc with uid := 0, gid := 0 })⟩ := by
  decide

/-- the entry is warm; update 1 (secret 8) and update 2 (secret 9) are decided in that order, their
cache steps run in the opposite order: the store says 9, every lookup answers 8 -/
def raceUpdUpd : List Act :=
  [.invoke (.get [97])] ++ List.replicate 5 (.step 0) ++
  [.invoke (.update [97] { secret := some [8] })] ++ List.replicate 7 (.step 1) ++
  [.invoke (.update [97] { secret := some [9] })] ++ List.replicate 8 (.step 2) ++ [.step 1, .invoke (.get [97]), .step 3]

theorem updates_cached_out_of_order :
    (run .current cfg (init [acc]) raceUpdUpd).committed = [{ acc with secret := [9] }] ∧
    (run .current cfg (init [acc]) raceUpdUpd).calls[3]? = some ⟨.get [97], .done (.acct { acc with secret := [8] })⟩ := by
  decide

/-! ### the entry without uid/gid can outlive the TTL -/

theorem stale_uid_outlives_ttl : seqRun .current cfg (init [])
    [.call (.create acc), .tick 6, .call (.update [97] { secret := some [9] }), .call (.get [97]), .tick 4, .call (.get [97])] =
    [some .ok, some .ok, some (.acct { acc with secret := [9], uid := 0, gid := 0 }),
     some (.acct { acc with secret := [9], uid := 0, gid := 0 })] := by decide

/-! ### with fix 2 the same schedules are harmless (tests; the theorem is `lookup_after_ack_fixed`) -/

def fix2 : Variant := { invalidate := true }

example : (run fix2 cfg (run fix2 cfg (init [acc]) raceDel₁) ([.step 0, .invoke (.get [97])] ++ List.replicate 5 (.step 2))).calls[2]? =
    some ⟨.get [97], .done .noSuchUser⟩ := by decide
example : seqRun fix2 cfg (init []) seqWitness = [some .ok, some (.acct acc)] := by decide

end Vgw.Open.C17
