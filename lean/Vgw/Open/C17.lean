/-
  C17 — nothing is open for the current code: the statements of Props/C17.lean hold at full
  strength, without side condition.

  This file keeps REGRESSION EXAMPLES about the OLD revision only (`Variant.oldWriteThrough`: the
  write-through account cache of /repo before 6f25651, whose CreateAccount built the cache entry
  from Access, Secret, Role).  They are the kernel-evaluated interleavings on which that revision
  violated the property; the harness runs the same schedules on the real code as corpus
  (c17.go, c17conc.go, c17e2e.go), where they must now pass — a failure there carries the signature
  given in brackets and is a VIOLATION.  Each example is followed by the same schedule on
  `Variant.current`, where it is harmless.  The definitions are named `old…`; nothing below is a
  statement about the current code except the lines that say `.current`.

  * the entry the old CreateAccount cached had no uid/gid          [iam:create:cache-entry-drops-uid-gid]
  * a lookup in flight across a delete re-inserted the account      [iam:miss-in-flight-vs-delete:stale-cache]
  * … across an update kept the old secret valid                   [iam:miss-in-flight-vs-update:stale-cache]
  * a create in flight across a delete cached the deleted account   [iam:create-in-flight-vs-delete:stale-cache]
  * two updates cached in the opposite order of their store order   [iam:update-in-flight-vs-update:stale-cache]
  * an update resurrected the expired entry without uid/gid
-/
import Vgw.Props.C17
namespace Vgw.Open.C17
open Vgw Vgw.Model.IAM Vgw.Props.C17
open Vgw.Model.Gw (Account Role)

/-- the regression model -/
abbrev old : Variant := .oldWriteThrough

def root : Account := { access := [114], secret := [1], role := .admin }
def cfg : Cfg := { root := root, ttl := 5 }
/-- account `a`: secret 2, role userplus, uid 5, gid 1000 -/
def acc : Account := { access := [97], secret := [2], role := .userplus, uid := 5, gid := 1000 }

theorem start_empty : Start cfg [] := ⟨by decide, by simp [keysNodup]⟩
theorem start_acc : Start cfg [acc] := ⟨by decide, by simp [keysNodup, acc]⟩

/-! ### OLD: the entry CreateAccount cached had no uid/gid -/

def oldSeqWitness : List SeqAct := [.call (.create acc), .call (.get [97])]

/-- OLD revision: a fresh account answered with uid 0, gid 0 — not a refinement of the map -/
example : seqRun old cfg (init []) oldSeqWitness = [some .ok, some (.acct { acc with uid := 0, gid := 0 })] := by decide
example : ¬ SeqRefines cfg (abs []) oldSeqWitness (seqRun old cfg (init []) oldSeqWitness) := by
  have e : seqRun old cfg (init []) oldSeqWitness = [some .ok, some (.acct { acc with uid := 0, gid := 0 })] := by decide
  rw [e]
  simp only [oldSeqWitness, seqRefines_call]
  intro h
  have h2 := h.2.1
  revert h2
  decide
/-- current code: all attributes at once -/
example : seqRun .current cfg (init []) oldSeqWitness = [some .ok, some (.acct acc)] := by decide

/-- OLD revision: the entry expired, was not pruned yet, and an update resurrected it
(icache.update refreshed expired entries): the wrong uid/gid outlived the TTL -/
def oldResurrect : List SeqAct :=
  [.call (.create acc), .tick 6, .call (.update [97] { secret := some [9] }), .call (.get [97]), .tick 4, .call (.get [97])]
example : seqRun old cfg (init []) oldResurrect =
    [some .ok, some .ok, some (.acct { acc with secret := [9], uid := 0, gid := 0 }),
     some (.acct { acc with secret := [9], uid := 0, gid := 0 })] := by decide
example : seqRun .current cfg (init []) oldResurrect =
    [some .ok, some .ok, some (.acct { acc with secret := [9] }), some (.acct { acc with secret := [9] })] := by decide

/-! ### OLD: a lookup in flight across a delete re-inserted the account -/

/-- lookup 0 of `a`: cache miss, RLock, read, RUnlock — parked before its cache step;
delete 1 of `a`: runs from invocation to return (acknowledged) -/
def oldRaceDel₁ : List Act :=
  [.invoke (.get [97]), .step 0, .step 0, .step 0, .step 0, .invoke (.delete [97])] ++ List.replicate 8 (.step 1)
/-- lookup 0 takes its cache step; then a NEW lookup 2 is invoked and runs to its return -/
def oldRaceDel₂ : List Act := [.step 0, .invoke (.get [97])] ++ List.replicate 5 (.step 2)

/-- OLD revision: the acknowledged delete (store empty) was followed by a lookup that found the account -/
example : (run old cfg (init [acc]) oldRaceDel₁).calls[1]? = some ⟨.delete [97], .done .ok⟩ ∧
    (run old cfg (init [acc]) oldRaceDel₁).committed = [] ∧
    (run old cfg (run old cfg (init [acc]) oldRaceDel₁) oldRaceDel₂).calls[2]? = some ⟨.get [97], .done (.acct acc)⟩ := by decide
/-- i.e. `LookupAfterAck` failed for the OLD revision -/
example : ¬ LookupAfterAck old cfg [acc] 0 oldRaceDel₁ oldRaceDel₂ := by
  intro h
  have := h [97] (noMutB_sound (by decide))
    (by intro op hop hm; simp [oldRaceDel₂] at hop; subst hop; cases hm)
    2 (.acct acc) (by decide) (by decide)
  have e : (run old cfg (init [acc]) oldRaceDel₁).committed = [] := by decide
  rw [e] at this
  revert this
  decide
/-- the schedule violates the side condition the old revision needed -/
example : quietRunB old cfg (init [acc]) (oldRaceDel₁ ++ oldRaceDel₂) = false := by decide
/-- current code, same schedule: the generation moved on, the lookup's store is dropped, "no such user" -/
example : (run .current cfg (run .current cfg (init [acc]) oldRaceDel₁) oldRaceDel₂).calls[2]? =
    some ⟨.get [97], .done .noSuchUser⟩ := by decide

/-! ### OLD: … and across an update kept the old secret valid -/

def oldRaceUpd₁ : List Act :=
  [.invoke (.get [97]), .step 0, .step 0, .step 0, .step 0, .invoke (.update [97] { secret := some [9] })] ++ List.replicate 8 (.step 1)

example : (run old cfg (init [acc]) oldRaceUpd₁).calls[1]? = some ⟨.update [97] { secret := some [9] }, .done .ok⟩ ∧
    (run old cfg (init [acc]) oldRaceUpd₁).committed = [{ acc with secret := [9] }] ∧
    (run old cfg (run old cfg (init [acc]) oldRaceUpd₁) oldRaceDel₂).calls[2]? = some ⟨.get [97], .done (.acct acc)⟩ := by decide
example : (run .current cfg (run .current cfg (init [acc]) oldRaceUpd₁) oldRaceDel₂).calls[2]? =
    some ⟨.get [97], .done (.acct { acc with secret := [9] })⟩ := by decide

/-! ### OLD: concurrent changes of one key, cache steps in another order than store steps -/

/-- create 0 decided and unlocked (parked before its cache step); delete 1 complete; create 0 takes
its cache step; lookup 2 -/
def oldRaceCreate : List Act :=
  [.invoke (.create { acc with uid := 0, gid := 0 })] ++ List.replicate 7 (.step 0) ++
  [.invoke (.delete [97])] ++ List.replicate 8 (.step 1) ++ [.step 0, .invoke (.get [97])] ++ List.replicate 5 (.step 2)

example : (run old cfg (init []) oldRaceCreate).committed = [] ∧
    (run old cfg (init []) oldRaceCreate).log = [⟨0, .create { acc with uid := 0, gid := 0 }, .ok⟩, ⟨1, .delete [97], .ok⟩] ∧
    (run old cfg (init []) oldRaceCreate).calls[2]? = some ⟨.get [97], .done (.acct { acc with uid := 0, gid := 0 })⟩ := by decide
example : (run .current cfg (init []) oldRaceCreate).calls[2]? = some ⟨.get [97], .done .noSuchUser⟩ := by decide

/-- the entry is warm; update 1 (secret 8) and update 2 (secret 9) are decided in that order, their
cache steps run in the opposite order -/
def oldRaceUpdUpd : List Act :=
  [.invoke (.get [97])] ++ List.replicate 5 (.step 0) ++
  [.invoke (.update [97] { secret := some [8] })] ++ List.replicate 7 (.step 1) ++
  [.invoke (.update [97] { secret := some [9] })] ++ List.replicate 8 (.step 2) ++ [.step 1, .invoke (.get [97])] ++ List.replicate 5 (.step 3)

/-- OLD revision: the store said 9, every lookup answered 8 -/
example : (run old cfg (init [acc]) oldRaceUpdUpd).committed = [{ acc with secret := [9] }] ∧
    (run old cfg (init [acc]) oldRaceUpdUpd).calls[3]? = some ⟨.get [97], .done (.acct { acc with secret := [8] })⟩ := by decide
example : (run .current cfg (init [acc]) oldRaceUpdUpd).calls[3]? = some ⟨.get [97], .done (.acct { acc with secret := [9] })⟩ := by decide

end Vgw.Open.C17
