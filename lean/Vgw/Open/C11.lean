/-
  Open findings of C11: the unchanged posix backend violates the full statements of Props/C11.lean.
  The model mirrors the code (tie: step conformance + crash enumeration of the harness), so each negation
  is proved from a concrete witness, which the harness replays on the real gateway
  (known_findings.json, signatures `crash …`).
-/
import Vgw.Props.C11
namespace Vgw.Open.C11
open Vgw.Model.Crash Vgw.Props.C11

/-- a bucket with one object `k` (xattr store) -/
def fsOld : FS := { ents := [(["R", "b"], .dir [("acl", "x")]), (["R", "b", ".sgwtmp"], .dir []),
                             (["R", "b", "k"], .file "old" [("etag", "old"), ("X-Amz-Tagging", "old")])] }
def putK : Req := { op := .put, key := ["k"] }
theorem kOK : KeyOK ["k"] := ⟨by decide, by decide⟩

/-! ### 1. overwrite = remove, then link: the key vanishes
    (with_otmpfile.go `link`: `os.Remove(objPath)` before `linkat`/`rename`, in both strategies) -/

-- the plan: …, unlink R/b/k, link @0 → R/b/k; killed between the two (after 6 steps) the key reads 404
theorem overwrite_window : view {} (crashAt 6 (plan {} putK fsOld) fsOld) ["k"] = none
    ∧ (view {} fsOld ["k"]).isSome ∧ (view {} (run (plan {} putK fsOld) fsOld) ["k"]).isSome := by decide

theorem crash_atomic_full_false : ¬ crash_atomic_full := by
  intro h
  exact absurd (h {} putK fsOld 6 kOK) (by decide)

-- the same with the named-temp strategy (--disableotmp): unlink, chmod, rename
theorem crash_atomic_full_false_named :
    ¬ (view { otmp := false } (crashAt 7 (plan { otmp := false } putK fsOld) fsOld) ["k"] = view { otmp := false } fsOld ["k"] ∨
       view { otmp := false } (crashAt 7 (plan { otmp := false } putK fsOld) fsOld) ["k"]
         = view { otmp := false } (run (plan { otmp := false } putK fsOld) fsOld) ["k"]) := by decide

/-! ### 2. tags (legal hold, retention) are written by name AFTER the publication: a new object without its tags -/

def fsNew : FS := { ents := [(["R", "b"], .dir [("acl", "x")]), (["R", "b", ".sgwtmp"], .dir [])] }
def putTagged : Req := { op := .put, key := ["k"], tags := true }

theorem tags_after_publication :
    (view {} (crashAt 6 (plan {} putTagged fsNew) fsNew) ["k"]).map (·.tags) = some none ∧
    (view {} (run (plan {} putTagged fsNew) fsNew) ["k"]).map (·.tags) = some (some "new") ∧
    view {} fsNew ["k"] = none := by decide

theorem crash_atomic_full_false_tags :
    ¬ (view {} (crashAt 6 (plan {} putTagged fsNew) fsNew) ["k"] = view {} fsNew ["k"] ∨
       view {} (crashAt 6 (plan {} putTagged fsNew) fsNew) ["k"] = view {} (run (plan {} putTagged fsNew) fsNew) ["k"]) := by
  have hw := tags_after_publication
  rintro (h | h)
  · rw [h, hw.2.2] at hw; exact absurd hw.1 (by decide)
  · rw [h, hw.2.1] at hw; exact absurd hw.1 (by decide)

/-! ### 3. sidecar store: attributes are files written by NAME of the final object, before the publication:
    the old data with (part of) the new metadata -/

def scfg : Cfg := { sidecar := true }
def fsSide : FS := { ents := [(["R", "b"], .dir []), (["R", "b", ".sgwtmp"], .dir []), (["R", "b", "k"], .file "old" []),
                              (["S", "b"], .dir []), (["S", "b", "k"], .dir []), (["S", "b", "k", "meta"], .dir []),
                              (["S", "b", "k", "meta", "etag"], .file "old" [])] }

-- after `os.RemoveAll(meta)` and the new ETag file, before unlink/link: old body, new ETag
theorem sidecar_mixed :
    (view scfg (crashAt 10 (plan scfg putK fsSide) fsSide) ["k"]).map (fun v => (v.data, v.etag)) = some ("old", some "new") ∧
    (view scfg fsSide ["k"]).map (fun v => (v.data, v.etag)) = some ("old", some "old") ∧
    (view scfg (run (plan scfg putK fsSide) fsSide) ["k"]).map (fun v => (v.data, v.etag)) = some ("new", some "new") := by
  decide

theorem crash_atomic_full_false_sidecar :
    ¬ (view scfg (crashAt 10 (plan scfg putK fsSide) fsSide) ["k"] = view scfg fsSide ["k"] ∨
       view scfg (crashAt 10 (plan scfg putK fsSide) fsSide) ["k"] = view scfg (run (plan scfg putK fsSide) fsSide) ["k"]) := by
  have hw := sidecar_mixed
  rintro (h | h)
  · rw [h, hw.2.1] at hw; exact absurd hw.1 (by decide)
  · rw [h, hw.2.2] at hw; exact absurd hw.1 (by decide)

/-! ### 4. versioned bucket: the archive copy is published before the new current version:
    the same version id twice in ListObjectVersions -/

def vcfg : Cfg := { verDir := true, vstatus := .enabled }
def fsVer : FS := { ents := [(["R", "b"], .dir []), (["R", "b", ".sgwtmp"], .dir []),
                             (["R", "b", "k"], .file "old" [("etag", "old"), ("version-id", "v1")]),
                             (["V", "b"], .dir []), (["V", "b", ".sgwtmp"], .dir [])] }

theorem versions_duplicate :
    (versions vcfg (crashAt 14 (plan vcfg putK fsVer) fsVer) ["k"]).map (fun v => (v.vid, v.latest)) = [("v1", true), ("v1", false)] := by
  decide

theorem versions_atomic_full_false : ¬ versions_atomic_full := by
  intro h
  exact absurd (h vcfg putK fsVer 14 kOK) (by decide)

/-! ### 5. CompleteMultipartUpload removes the upload after the publication: object complete, upload still listed -/

def fsMp : FS := { ents := [(["R", "b"], .dir []), (["R", "b", ".sgwtmp"], .dir []), (["R", "b", ".sgwtmp", "multipart"], .dir []),
                            (["R", "b", ".sgwtmp", "multipart", "#k"], .dir [("objname", "k")]),
                            (["R", "b", ".sgwtmp", "multipart", "#k", "U0"], .dir []),
                            (["R", "b", ".sgwtmp", "multipart", "#k", "U0", "1"], .file "p1" [("etag", "e1")])] }
def complK : Req := { op := .complete, key := ["k"], upload := "U0", parts := ["1"] }

theorem upload_left_over :
    (view {} (crashAt 4 (plan {} complK fsMp) fsMp) ["k"]).map (·.data) = some "p1" ∧
    uploads {} (crashAt 4 (plan {} complK fsMp) fsMp) ["k"] = ["U0"] ∧
    uploads {} (run (plan {} complK fsMp) fsMp) ["k"] = [] := by decide

theorem upload_consumed_full_false : ¬ upload_consumed_full := by
  intro h
  exact absurd (h {} complK fsMp 4 kOK rfl (by decide) (by decide) (by decide)) (by decide)

/-! ### 6. parent directories are created before the publication (and pruned after the removal): an invisible
    empty directory that makes DeleteBucket answer BucketNotEmpty -/

def putNested : Req := { op := .put, key := ["d", "k"] }

theorem stray_parent : blocked {} fsNew = false ∧ blocked {} (run (plan {} putNested fsNew) fsNew) = false ∧
    blocked {} (crashAt 4 (plan {} putNested fsNew) fsNew) = true ∧
    (∀ k, k ∈ [["d"], ["d", "k"]] → listed {} (crashAt 4 (plan {} putNested fsNew) fsNew) k = none) := by decide

theorem not_blocked_full_false : ¬ not_blocked_full := by
  intro h
  exact absurd (h {} putNested fsNew 4 ⟨by decide, by decide⟩ (by decide) (by decide)) (by decide)

/-! ### 7. what stays open with every committed repair switched on (`nowCfg` = the backend as committed:
    atomic replace, PutObject's and CopyObject's tags on the temp file) -/

def nowCfg : Cfg := { atomicReplace := true, tagsFirst := true, copyTagsFirst := true }
def nowV : Cfg := { nowCfg with verDir := true, vstatus := .enabled }

theorem versions_duplicate_now :
    (versions nowV (crashAt 14 (plan nowV putK fsVer) fsVer) ["k"]).map (fun v => (v.vid, v.latest)) = [("v1", true), ("v1", false)] := by
  decide

theorem upload_left_over_now :
    (view nowCfg (crashAt 4 (plan nowCfg complK fsMp) fsMp) ["k"]).map (·.data) = some "p1" ∧
    uploads nowCfg (crashAt 4 (plan nowCfg complK fsMp) fsMp) ["k"] = ["U0"] ∧
    uploads nowCfg (run (plan nowCfg complK fsMp) fsMp) ["k"] = [] := by decide

theorem stray_parent_now : blocked nowCfg fsNew = false ∧ blocked nowCfg (run (plan nowCfg putNested fsNew) fsNew) = false ∧
    blocked nowCfg (crashAt 4 (plan nowCfg putNested fsNew) fsNew) = true := by decide

/-! ### 8. PutObject / CopyObject with `x-amz-object-lock-legal-hold: ON`: PutObjectLegalHold (and PutObjectRetention)
    run by NAME after the publication — the backend as committed publishes the complete new object without the
    legal hold that protects it -/

def lockCfg : Cfg := { nowCfg with lock := true }
def putHeld : Req := { op := .put, key := ["k"], hold := true }

theorem hold_after_publication :
    (view lockCfg (crashAt 6 (plan lockCfg putHeld fsNew) fsNew) ["k"]).map (fun v => (v.data, v.hold)) = some ("new", none) ∧
    (view lockCfg (run (plan lockCfg putHeld fsNew) fsNew) ["k"]).map (fun v => (v.data, v.hold)) = some ("new", some "new") ∧
    view lockCfg fsNew ["k"] = none := by decide

theorem crash_atomic_full_false_hold :
    ¬ (view lockCfg (crashAt 6 (plan lockCfg putHeld fsNew) fsNew) ["k"] = view lockCfg fsNew ["k"] ∨
       view lockCfg (crashAt 6 (plan lockCfg putHeld fsNew) fsNew) ["k"] = view lockCfg (run (plan lockCfg putHeld fsNew) fsNew) ["k"]) := by
  have hw := hold_after_publication
  rintro (h | h)
  · rw [h, hw.2.2] at hw; exact absurd hw.1 (by decide)
  · rw [h, hw.2.1] at hw; exact absurd hw.1 (by decide)

end Vgw.Open.C11
