/-
  C07 — open findings: the full statement `walk_refines_spec_full` is FALSE for the model of
  backend.Walk (as repaired by C07-fix-1..3), and every substantive hypothesis of
  `walk_refines_spec_partial` is individually necessary. Each witness is a tiny tree evaluated by the kernel (`decide`); the harness replays
  the same inputs on the real backend.Walk (harness/cmd/vharness/c07.go: c07Corpus).

  For every witness two facts are shown: the model's page is not the specified page (`¬ Refines`),
  and — stronger, this is what the harness judges — the executable oracle `pageOkB` rejects the
  model's page (so the deviation is not in a grey zone), where that is the case.

  Bytes: a=97 b=98 c=99 m=109 x=120 y=121 z=122, '-'=45 '.'=46 '/'=47 '0'=48.
-/
import Vgw.Props.C07
namespace Vgw.Open.C07
open Vgw Vgw.Model.Walk Vgw.Spec.List Vgw.Props.C07

/-- every directory is an explicit directory object too -/
def allObjs : GetObj := fun k => some (k.length, k)

/-! ### 1. order-incompatible siblings (`walk:order-incompatible-siblings`)
keys `a/x`, `a.b`: fs.WalkDir visits directory `a` before the file `a.b`, but `a.b` < `a/x`. -/

def tOrder : List Tree := [.dir [97] [.file [120]], .file [97, 46, 98]]

theorem order_hyps : wfList tOrder = true ∧ ocList tOrder = false ∧
    populatedList fileOnly [] [] tOrder = true ∧ markerClear (keysList fileOnly [] [] tOrder) [] [] [] = true := by decide

theorem order_page : walk ⟨[], [], [], 1, fileOnly, []⟩ tOrder =
    ⟨[⟨[97, 47, 120], 3, [97, 47, 120]⟩], [], true, [97, 47, 120]⟩ := by decide
theorem order_spec : result fileOnly (keysList fileOnly [] [] tOrder) [] [] [] 1 =
    ⟨[⟨[97, 46, 98], 3, [97, 46, 98]⟩], [], true, [97, 46, 98]⟩ := by decide

theorem order_not_refines : ¬ Refines tOrder fileOnly [] [] [] [] 1 := by
  unfold Refines; decide

theorem order_rejected : pageOkB fileOnly (keysList fileOnly [] [] tOrder) [] [] [] 1
    (walk ⟨[], [], [], 1, fileOnly, []⟩ tOrder) = false := by decide

/-- the converse of `events_sorted`: without order compatibility the traversal is not ascending -/
theorem events_unsorted_witness : wfList tOrder = true ∧
    ¬ (eventsList [] tOrder).Pairwise (fun a b => blt a b = true) := by decide

/-- **the full statement fails** -/
theorem not_walk_refines_spec_full : ¬ walk_refines_spec_full := by
  intro h
  exact order_not_refines (h tOrder fileOnly [] [] [] [] 1 (by decide))

/-! ### 2. marker inside / prefixing a common prefix (`walk:marker-inside-common-prefix`) -/

def tMarker : List Tree := [.dir [97] [.file [98], .file [99]]]

theorem marker_hyps : wfList tMarker = true ∧ ocList tMarker = true ∧
    populatedList fileOnly [] [] tMarker = true ∧
    markerClear (keysList fileOnly [] [] tMarker) [] [47] [97, 47, 98] = false ∧
    markerClear (keysList fileOnly [] [] tMarker) [] [47] [97] = false := by decide

/-- start-after `a/b` with delimiter `/`: the common prefix `a/` (key `a/c` is after the marker) is lost -/
theorem marker_inside_rejected :
    walk ⟨[], [47], [97, 47, 98], 10, fileOnly, []⟩ tMarker = ⟨[], [], false, []⟩ ∧
    result fileOnly (keysList fileOnly [] [] tMarker) [] [47] [97, 47, 98] 10 = ⟨[], [[97, 47]], false, []⟩ ∧
    pageOkB fileOnly (keysList fileOnly [] [] tMarker) [] [47] [97, 47, 98] 10
      (walk ⟨[], [47], [97, 47, 98], 10, fileOnly, []⟩ tMarker) = false := by decide

/-- start-after `a` (think `photos`): the common prefix `a/` is lost -/
theorem marker_prefixing_rejected :
    walk ⟨[], [47], [97], 10, fileOnly, []⟩ tMarker = ⟨[], [], false, []⟩ ∧
    result fileOnly (keysList fileOnly [] [] tMarker) [] [47] [97] 10 = ⟨[], [[97, 47]], false, []⟩ ∧
    pageOkB fileOnly (keysList fileOnly [] [] tMarker) [] [47] [97] 10
      (walk ⟨[], [47], [97], 10, fileOnly, []⟩ tMarker) = false := by decide

theorem marker_not_refines : ¬ Refines tMarker fileOnly [] [] [47] [97, 47, 98] 10 := by
  unfold Refines; decide

/-! ### 3. delimiters other than "/" (`walk:non-slash-delimiter`)
keys `a`, `a-b`, delimiter `-`: the server's own NextMarker `a` (page size 1) drops the common
prefix `a-`; the marker IS server-issued. -/

def tDelim : List Tree := [.file [97], .file [97, 45, 98]]

theorem delim_hyps : wfList tDelim = true ∧ ocList tDelim = true ∧
    populatedList fileOnly [] [] tDelim = true ∧
    serverIssued (keysList fileOnly [] [] tDelim) [] [45] [97] = true := by decide

theorem delim_first_page : walk ⟨[], [45], [], 1, fileOnly, []⟩ tDelim = ⟨[⟨[97], 1, [97]⟩], [], true, [97]⟩ := by decide

theorem delim_second_page_rejected :
    walk ⟨[], [45], [97], 1, fileOnly, []⟩ tDelim = ⟨[], [], false, []⟩ ∧
    result fileOnly (keysList fileOnly [] [] tDelim) [] [45] [97] 1 = ⟨[], [[97, 45]], false, []⟩ ∧
    pageOkB fileOnly (keysList fileOnly [] [] tDelim) [] [45] [97] 1
      (walk ⟨[], [45], [97], 1, fileOnly, []⟩ tDelim) = false := by decide

theorem delim_not_refines : ¬ Refines tDelim fileOnly [] [] [45] [97] 1 := by
  unfold Refines; decide

/-- even with no marker at all the exact page differs for a non-'/' delimiter: `a-b`, `a-c` with page
size 1 is reported truncated although nothing remains (the grey zone of Spec.List, admitted by the
oracle) -/
def tDelim2 : List Tree := [.file [97, 45, 98], .file [97, 45, 99]]
theorem delim_grey_zone :
    walk ⟨[], [45], [], 1, fileOnly, []⟩ tDelim2 = ⟨[], [[97, 45]], true, [97, 45]⟩ ∧
    result fileOnly (keysList fileOnly [] [] tDelim2) [] [45] [] 1 = ⟨[], [[97, 45]], false, []⟩ ∧
    pageOkB fileOnly (keysList fileOnly [] [] tDelim2) [] [45] [] 1
      (walk ⟨[], [45], [], 1, fileOnly, []⟩ tDelim2) = true := by decide

/-! ### 4. explicit directory object, no delimiter (`walk:dir-object-empty-delimiter`)
keys `a/`, `b`: the directory object is appended without marker test and its NextMarker is `a`,
so it is returned again on every page. -/

def tDirObj : List Tree := [.dir [97] [], .file [98]]

theorem dirobj_hyps : wfList tDirObj = true ∧ ocList tDirObj = true ∧
    populatedList allObjs [] [] tDirObj = true ∧
    markerClear (keysList allObjs [] [] tDirObj) [] [] [] = true := by decide

theorem dirobj_loops :
    walk ⟨[], [], [], 1, allObjs, []⟩ tDirObj = ⟨[⟨[97, 47], 2, [97, 47]⟩], [], true, [97]⟩ ∧
    walk ⟨[], [], [97], 1, allObjs, []⟩ tDirObj = ⟨[⟨[97, 47], 2, [97, 47]⟩], [], true, [97]⟩ ∧
    pageOkB allObjs (keysList allObjs [] [] tDirObj) [] [] [] 1
      (walk ⟨[], [], [], 1, allObjs, []⟩ tDirObj) = false := by decide

theorem dirobj_not_refines : ¬ Refines tDirObj allObjs [] [] [] [] 1 := by
  unfold Refines; decide

/-! ### 5. explicit directory object with children, delimiter "/" (`walk:dir-object-with-children`)
keys `a/`, `a/b`, prefix `a/`: the object `a/` is never listed. -/

def tDirObj2 : List Tree := [.dir [97] [.file [98]]]

theorem dirobj2_hyps : wfList tDirObj2 = true ∧ ocList tDirObj2 = true ∧
    populatedList allObjs [] [] tDirObj2 = true ∧
    markerClear (keysList allObjs [] [] tDirObj2) [97, 47] [47] [] = true := by decide

theorem dirobj2_rejected :
    walk ⟨[97, 47], [47], [], 10, allObjs, []⟩ tDirObj2 = ⟨[⟨[97, 47, 98], 3, [97, 47, 98]⟩], [], false, []⟩ ∧
    result allObjs (keysList allObjs [] [] tDirObj2) [97, 47] [47] [] 10 =
      ⟨[⟨[97, 47], 2, [97, 47]⟩, ⟨[97, 47, 98], 3, [97, 47, 98]⟩], [], false, []⟩ ∧
    pageOkB allObjs (keysList allObjs [] [] tDirObj2) [97, 47] [47] [] 10
      (walk ⟨[97, 47], [47], [], 10, allObjs, []⟩ tDirObj2) = false := by decide

theorem dirobj2_not_refines : ¬ Refines tDirObj2 allObjs [] [97, 47] [47] [] 10 := by
  unfold Refines; decide

/-! ### 6. phantom directory (hypothesis `hpop`, `walk:phantom-directory`)
a directory holding no key is listed as a common prefix: Walk rolls a directory up without looking
for a listable entry below it. On disk: a versioned bucket in which every key below `dir/` has been
deleted — posix keeps the file of a delete marker in place and `fileToObj` answers ErrSkipObj for
it (here: `fileOnly` answers for no path below `a/`, the directory `a` is empty). -/

def tPhantom : List Tree := [.dir [97] [], .file [98]]

theorem phantom_hyps : wfList tPhantom = true ∧ ocList tPhantom = true ∧
    populatedList fileOnly [] [] tPhantom = false ∧
    markerClear (keysList fileOnly [] [] tPhantom) [] [47] [] = true := by decide

theorem phantom_rejected :
    walk ⟨[], [47], [], 10, fileOnly, []⟩ tPhantom = ⟨[⟨[98], 1, [98]⟩], [[97, 47]], false, []⟩ ∧
    result fileOnly (keysList fileOnly [] [] tPhantom) [] [47] [] 10 = ⟨[⟨[98], 1, [98]⟩], [], false, []⟩ ∧
    pageOkB fileOnly (keysList fileOnly [] [] tPhantom) [] [47] [] 10
      (walk ⟨[], [47], [], 10, fileOnly, []⟩ tPhantom) = false := by decide

end Vgw.Open.C07
