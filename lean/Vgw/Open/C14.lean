/-
  C14 — open finding on the current tree: the negation of the one FULL statement of Props/C14.lean
  that does not hold, from a concrete witness that the harness replays on the implementation
  (harness/cmd/vharness/c14v.go, corpus list).  The former findings `glob:subject-contains-star`,
  `validate:resource-prefix-of-other-bucket` and `validate:map-order-dependent` were repaired in
  /repo (4562263, ade9d47); their witnesses are now regression examples in Props/C14.lean.
-/
import Vgw.Props.C14
namespace Vgw.Open.C14
open Vgw Vgw.Model.Policy Vgw.Spec.Policy Vgw.Props.C14 Vgw.Lemmas.Validate

def bucket : Bytes := [98, 117, 99, 107, 101, 116]
def noAcct : Bytes → Bool := fun _ => false

theorem bucket_sane : Sane bucket := by decide

/-- `validate:missing-field` — `{"Statement":[{"Effect":"Allow"}]}` -/
def docMissing : RawDoc := .stmts [⟨.str allowLit, .missing, .missing, .missing⟩]

theorem witness_missing_accepted : validateDocument id bucket noAcct docMissing = .ok () := by rfl
theorem witness_missing_illformed : ¬ WellFormed .lenient bucket noAcct docMissing := by decide
theorem witness_missing_class : ¬ DocHyp StmtNoMissing docMissing := by decide

/-- a second shape of the class: Principal and `Action: "s3:*"` present, Resource absent -/
def docNoResource : RawDoc := .stmts [⟨.str allowLit, .str starLit, .str allActions, .missing⟩]

theorem witness_noresource_accepted : validateDocument id bucket noAcct docNoResource = .ok () := by rfl
theorem witness_noresource_illformed : ¬ WellFormed .lenient bucket noAcct docNoResource := by decide

theorem validate_iff_wellformed_full_false : ¬ validate_iff_wellformed_full := by
  intro h
  have := (h id bucket noAcct docMissing bucket_sane rfl (fun l => List.Perm.refl l)).2
    witness_missing_illformed
  exact this witness_missing_accepted

end Vgw.Open.C14
