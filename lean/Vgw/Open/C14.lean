/-
  C14 — open findings on the unchanged tree: the negations of the FULL statements of Props/C14.lean,
  each from a concrete witness that the harness replays on the implementation
  (harness/cmd/vharness/c14.go, corpus lists).
-/
import Vgw.Props.C14
namespace Vgw.Open.C14
open Vgw Vgw.Model.Policy Vgw.Spec.Policy Vgw.Spec.Glob Vgw.Props.C14 Vgw.Lemmas.Validate

/-! ### `glob:subject-contains-star` — pattern `*`, subject `*a` -/

theorem witness_match : Model.Glob.match [42] [42, 97] = false := by
  simp [Model.Glob.match, Model.Glob.loop, Model.Glob.star, Model.Glob.qmark]

theorem witness_glob : G [42] [42, 97] = true := by
  simp [G, star]

theorem match_iff_glob_full_false : ¬ match_iff_glob_full := by
  intro h
  have := h [42] [42, 97]
  rw [witness_match, witness_glob] at this
  cases this

/-! ### the same class at the level of the decision: a Deny on `b/*` does not apply to the key `*x`

policy: Allow * s3:GetObject b/?x ; Deny * s3:GetObject b/* — request alice, s3:GetObject, b/*x -/

def getObject : Bytes := [115, 51, 58, 71, 101, 116, 79, 98, 106, 101, 99, 116]
def alice : Bytes := [97, 108, 105, 99, 101]
def stAllow : Stmt := ⟨allowLit, [starLit], [getObject], [[98, 47, 63, 120]]⟩
def stDeny : Stmt := ⟨denyLit, [starLit], [getObject], [[98, 47, 42]]⟩
def witnessPolicy : Policy := [stAllow, stDeny]
def witnessResource : Bytes := [98, 47, 42, 120]

theorem witness_allowed : isAllowed witnessPolicy alice getObject witnessResource = true := by
  have m1 : Model.Glob.match [98, 47, 63, 120] [98, 47, 42, 120] = true := by
    simp [Model.Glob.match, Model.Glob.loop, Model.Glob.skipStars, Model.Glob.star, Model.Glob.qmark]
  have m2 : Model.Glob.match [98, 47, 42] [98, 47, 42, 120] = false := by
    simp [Model.Glob.match, Model.Glob.loop, Model.Glob.star, Model.Glob.qmark]
  simp [isAllowed, isAllowedLoop, witnessPolicy, stAllow, stDeny, stmtFindMatch, principalsContains,
    actionsFindMatch, resourcesFindMatch, witnessResource, m1, m2, starLit, allowLit, denyLit,
    getObject, allActions, alice]

theorem witness_denied : ¬ Allows witnessPolicy alice getObject witnessResource := by
  intro h
  apply h.2
  refine ⟨stDeny, by simp [witnessPolicy], rfl, ?_, ?_, ?_⟩
  · left; simp [stDeny]
  · right; left; simp [stDeny]
  · refine ⟨[98, 47, 42], by simp [stDeny], ?_⟩
    simp [G, star, witnessResource]

theorem isAllowed_iff_full_false : ¬ isAllowed_iff_full := by
  intro h
  exact witness_denied ((h witnessPolicy alice getObject witnessResource).1 witness_allowed)

/-! ### validation: one witness per excluded class (bucket `bucket`, no accounts) -/

def bucket : Bytes := [98, 117, 99, 107, 101, 116]
def noAcct : Bytes → Bool := fun _ => false

theorem bucket_sane : Sane bucket := by decide

/-- `validate:resource-prefix-of-other-bucket` — Resource `arn:aws:s3:::bucket2/*` -/
def docPrefix : RawDoc := .stmts [⟨.str allowLit, .str starLit, .str getObject,
    .str (arnPrefix ++ [98, 117, 99, 107, 101, 116, 50, 47, 42])⟩]

theorem witness_prefix_accepted : validateDocument id bucket noAcct docPrefix = .ok () := by rfl
theorem witness_prefix_illformed : ¬ WellFormed .lenient bucket noAcct docPrefix := by decide
theorem witness_prefix_class : ¬ DocHyp (StmtNoForeignPrefix bucket) docPrefix := by decide

theorem validate_iff_wellformed_full_false : ¬ validate_iff_wellformed_full := by
  intro h
  have := (h id bucket noAcct docPrefix bucket_sane rfl (fun l => List.Perm.refl l)).2
    witness_prefix_illformed
  exact this witness_prefix_accepted

/-- `validate:missing-field` — `{"Statement":[{"Effect":"Allow"}]}` -/
def docMissing : RawDoc := .stmts [⟨.str allowLit, .missing, .missing, .missing⟩]

theorem witness_missing_accepted : validateDocument id bucket noAcct docMissing = .ok () := by rfl
theorem witness_missing_illformed : ¬ WellFormed .lenient bucket noAcct docMissing := by decide
theorem witness_missing_class : ¬ DocHyp StmtNoMissing docMissing := by decide

/-- `validate:map-order-dependent` — Action `["s3:*","s3:GetObject"]`, Resource `arn:aws:s3:::bucket`:
accepted when the map yields `s3:*` first, refused when it yields `s3:GetObject` first. -/
def docOrder : RawDoc := .stmts [⟨.str allowLit, .str starLit, .arr [allActions, getObject],
    .str (arnPrefix ++ bucket)⟩]

theorem witness_order_accepted : validateDocument allFirst bucket noAcct docOrder = .ok () := by rfl
theorem witness_order_refused :
    validateDocument allLast bucket noAcct docOrder = .error .resourceMismatch := by rfl
theorem witness_order_illformed : ¬ WellFormed .lenient bucket noAcct docOrder := by decide
theorem witness_order_class : ¬ DocHyp (StmtOrderIndependent bucket) docOrder := by decide

/-- each of the three hypotheses of `validate_iff_wellformed_partial` is needed: dropping it
alone already breaks the statement (the other two hold of the witness) -/
theorem witness_hyps :
    (DocHyp StmtNoMissing docPrefix ∧ DocHyp (StmtOrderIndependent bucket) docPrefix) ∧
    (DocHyp (StmtNoForeignPrefix bucket) docMissing ∧ DocHyp (StmtOrderIndependent bucket) docMissing) ∧
    (DocHyp StmtNoMissing docOrder ∧ DocHyp (StmtNoForeignPrefix bucket) docOrder) := by decide

end Vgw.Open.C14
