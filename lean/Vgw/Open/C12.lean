/-
  C12 — open findings: the full-strength statements of `Vgw/Props/C12.lean` are FALSE on the
  unchanged tree.  Each refutation is a concrete tiny stream + fragmentation evaluated on the model
  by the kernel (`decide`), with a toy hash family (the statements quantify over all hash families,
  so one instance suffices; the harness replays the same shapes on the real readers with real
  SHA-256/HMAC/CRC32 — `c12Corpus` in harness/cmd/vharness/c12.go).

  known_findings.json signatures:
    signed:cut-inside-nonfirst-header   `signed_header_split_rejects_valid`
    signed:wrong-payload-accepted       `signed_header_split_wrong_payload`
    signed:truncated-accepted           `signed_accepts_empty_stream`, `signed_accepts_truncated`
    unsigned:truncated-after-size-line  `unsigned_accepts_truncated`
    *:panic:*                           `signed_negative_size_panics`, `unsigned_negative_size_panics`
-/
import Vgw.Props.C12
namespace Vgw.Open.C12
open Vgw Vgw.Spec.Chunked Vgw.Model Vgw.Props.C12
open Vgw.Lemmas.ChunkSigned (signedCfg SignedHyps variantOf)
open Vgw.Lemmas.ChunkUnsigned (ucfg UnsignedHyps)

/-- the final chunk header of `s1` starts (with its CRLF) at offset 23; cut it at 30 -/
def ds1 : List (Bytes × Bool) := [(s1.take 30, false), (s1.drop 30, false)]

theorem ds1_partition : Partition s1 ds1 := by decide

/-- **signed:cut-inside-nonfirst-header** — a valid stream whose final chunk header is split across
two reads is rejected (errMalformedEncoding: the stash holds two stale bytes). -/
theorem signed_header_split_rejects_valid :
    ChunkSigned.run (signedCfg toy false 0) toy.seedSig ds1 = ([65], .err .malformed) := by decide

theorem not_decode_complete_full : ¬ decode_complete_full := by
  intro h
  have := h.1 toy false 0 toy_signed_hyps s1 [65] s1_valid ds1 ds1_partition
  rw [signed_header_split_rejects_valid] at this
  exact absurd this (by decide)

/-- payload "A" ++ sixteen "B" in two chunks (sizes 1 and 0x10) -/
def s2 : Bytes :=
  [49] ++ sigIntro ++ [48, 49] ++ [13, 10] ++ [65] ++ [13, 10] ++
  [49, 48] ++ sigIntro ++ [48, 49] ++ [13, 10] ++ List.replicate 16 66 ++ [13, 10] ++
  [48] ++ sigIntro ++ [48, 49] ++ [13, 10] ++ [13, 10]

theorem s2_valid : Valid toy (variantOf false) s2 (65 :: List.replicate 16 66) :=
  ⟨[([49], [65]), ([49, 48], List.replicate 16 66)], [48], ⟨by decide, by decide, by decide⟩, by decide, by decide⟩

/-- cut right behind `CRLF 10` of the second header: the stash becomes "1010", the size is read as
0x1010, everything up to the end of the stream is taken for chunk data and the underlying EOF is
handed through. -/
def ds2 : List (Bytes × Bool) := [(s2.take 27, false), (s2.drop 27, false)]

/-- **signed:wrong-payload-accepted** — a valid stream, split inside the second chunk header, is
decoded "successfully" into a different object (chunk framing bytes end up in the payload). -/
theorem signed_header_split_wrong_payload :
    (ChunkSigned.run (signedCfg toy false 0) toy.seedSig ds2).2 = .eof ∧
    (ChunkSigned.run (signedCfg toy false 0) toy.seedSig ds2).1 ≠ 65 :: List.replicate 16 66 := by decide

/-- **signed:truncated-accepted** (extreme case) — the empty stream is accepted as the empty object. -/
theorem signed_accepts_empty_stream :
    ChunkSigned.run (signedCfg toy false 0) toy.seedSig [] = ([], .eof) := by decide

/-- **signed:truncated-accepted** — `s2` cut in the middle of the second chunk's data is accepted as
a shorter object; the data of the cut chunk is never authenticated. -/
theorem signed_accepts_truncated :
    ChunkSigned.run (signedCfg toy false 0) toy.seedSig [(s2.take 53, true)] = (65 :: List.replicate 5 66, .eof) := by
  decide

theorem not_valid_nil (P : Params) (v : Variant) (p : Bytes) : ¬ Valid P v [] p := by
  rintro ⟨cs, hz, hwf, hs, _⟩
  have h1 := Lemmas.ChunkSigned.renderSigned_length P false cs P.seedSig [] hz
  have h2 := Lemmas.ChunkSigned.renderSigned_length P true cs P.seedSig [] hz
  have h3 := Lemmas.ChunkUnsigned.renderUnsigned_length P cs [] hz
  have hl := congrArg List.length hs
  cases v <;> simp only [render, List.length_nil] at hl <;> omega

/-- `2 CRLF AB CRLF 1 CRLF` — an unsigned stream that ends right after the second chunk-size line -/
def u1 : Bytes := [50, 13, 10, 65, 66, 13, 10, 49, 13, 10]

/-- **unsigned:truncated-after-size-line** — `u1` read with one-byte buffers is accepted as the object
"A": `io.ReadFull` reads nothing and returns io.EOF, which `Read` hands through — dropping the "B"
it had just taken from its stash into the caller's buffer. -/
theorem unsigned_accepts_truncated :
    ChunkUnsigned.run (ucfg toy) [u1] (fun _ => 1) = ([65], .eof) := by decide

theorem u1_not_valid (p : Bytes) : ¬ Valid toy .unsignedTrailer u1 p := by
  rintro ⟨cs, hz, hwf, hs, _⟩
  -- every valid unsigned stream ends in CRLF CRLF; u1 ends in "1 CRLF"
  have key : ∀ (cs : List Chunk) (acc : Bytes), ∃ pre, renderUnsigned toy acc cs hz = pre ++ [13, 10, 13, 10] := by
    intro cs
    induction cs with
    | nil => intro acc; exact ⟨hz ++ crlf ++ toy.trailerName ++ [58] ++ checksumB64 toy acc, by simp [renderUnsigned, crlf]⟩
    | cons c cs ih =>
      intro acc
      obtain ⟨pre, h⟩ := ih (acc ++ c.2)
      exact ⟨c.1 ++ crlf ++ c.2 ++ crlf ++ pre, by simp [renderUnsigned, h]⟩
  obtain ⟨pre, h⟩ := key cs []
  simp only [render] at hs
  rw [h] at hs
  have := congrArg (fun l => l.reverse.take 4) hs
  simp [u1] at this

theorem not_decode_sound_full : ¬ decode_sound_full := by
  intro h
  have := h.1 toy false 0 toy_signed_hyps [] [] [] (by decide) signed_accepts_empty_stream
  exact not_valid_nil _ _ _ this

/-- the unsigned half of `decode_sound_full` fails on its own as well -/
theorem not_decode_sound_unsigned :
    ¬ (∀ (P : Params), UnsignedHyps P → ∀ s p (frags : List Bytes) (caps : Nat → Nat), frags.flatten = s →
      (∀ i, 0 < caps i) → ChunkUnsigned.run (ucfg P) frags caps = (p, .eof) → Valid P .unsignedTrailer s p) := by
  intro h
  exact u1_not_valid _ (h toy toy_unsigned_hyps u1 [65] [u1] (fun _ => 1) (by decide) (by intro _; decide)
    unsigned_accepts_truncated)

/-! ### panics (the readers crash instead of rejecting; reachable from the wire) -/

/-- **signed:panic:negative-slice-bound** — `-1;chunk-signature=01 CRLF …`: `p[:chunkSize]` with a
negative chunk size. -/
theorem signed_negative_size_panics :
    (ChunkSigned.run (signedCfg toy false 0) toy.seedSig [(45 :: s1, false)]).2 = .panic := by decide

/-- **unsigned:panic:makeslice-len-out-of-range** — `-1 CRLF …`: `make([]byte, chunkSize)` -/
theorem unsigned_negative_size_panics :
    (ChunkUnsigned.run (ucfg toy) [45 :: u1] (fun _ => 1)).2 = .panic := by decide

end Vgw.Open.C12
