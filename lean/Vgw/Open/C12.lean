/-
  C12 — what is left open after /repo commit cf70120.

  No violation of the property remains: `Props.C12.decode_complete` holds at full strength, the
  harness finds no stream / fragmentation on which the readers deviate from `Spec.Chunked`.
  (The defects recorded before cf70120 — header split across reads mis-parsed, bare io.EOF handed
  through, negative / oversized chunk sizes panicking — are `fixed:` lines in known_findings.json.)

  This file keeps the two places where the THEOREMS carry a side condition, with kernel-evaluated
  witnesses that the side condition is not an artefact.  Neither is a violation of C12: the first
  concerns streams outside `Spec.Chunked.Valid` (a chunk size spelled with more than 1000 leading
  zeros — a grey zone of the Spec), the second only the KIND of error with which an invalid stream
  is refused.
-/
import Vgw.Props.C12
namespace Vgw.Open.C12
open Vgw Vgw.Spec.Chunked Vgw.Model Vgw.Props.C12
open Vgw.Lemmas.ChunkSigned (signedCfg)

/-- "000…01;chunk-signature=01 CRLF A CRLF 0;chunk-signature=01 CRLF CRLF" with 1100 leading zeros -/
def long : Bytes := List.replicate 1100 48 ++ s1

set_option maxRecDepth 100000 in
/-- **The 1024-byte stash limit is real** (side condition `StashOK` of
`signed_fragmentation_independent`): a stream whose first chunk size is spelled with 1100 leading
zeros is decoded when it arrives in one read and refused (errInvalidChunkFormat) when its first
1030 bytes arrive on their own.  Harness: malformation class `leading-zeros-1100` (grey). -/
theorem stash_limit_matters :
    ChunkSigned.run (signedCfg toy false 0) toy.seedSig [(long, false)] = ([65], .eof) ∧
    ChunkSigned.run (signedCfg toy false 0) toy.seedSig [(long.take 1030, false), (long.drop 1030, false)] =
      ([], .err .invalidFormat) := by
  constructor <;> decide

/-- **The error KIND depends on how io.EOF arrives**: a stream cut inside a chunk header is refused
with errInvalidChunkFormat when io.EOF comes with the last bytes and with io.ErrUnexpectedEOF when
it comes on its own — refused either way. -/
theorem eof_mode_changes_error_kind :
    ChunkSigned.run (signedCfg toy false 0) toy.seedSig [(s1.take 30, true)] = ([65], .err .invalidFormat) ∧
    ChunkSigned.run (signedCfg toy false 0) toy.seedSig [(s1.take 30, false)] = ([65], .err .unexpectedEOF) := by
  constructor <;> decide

end Vgw.Open.C12
