/-
  Line protocol of the proxy model (stateless): `proxy <op> <args…>`.

    proxy lossy                      → `Method.Field,…`   relevant request fields the table does not certify
    proxy findings                   → the same minus the argued non-issues
    proxy dropped                    → `Method.Field,…`   relevant output fields not copied
    proxy reqok <M> <f> <sdk>        → true|false         (table criterion)
    proxy respok <M> <sdk> <res>     → true|false
    proxy relevantreq | relevantresp → `M|f|sdk,…`
    proxy unimplemented              → names
    proxy earlyuse                   → methods reading the output before testing the error
    proxy derefs                     → `M:path;path,…`
    proxy aclkey                     → the reserved tag name
    proxy b64 <hex>                  → hex of the base64 text
    proxy aclput <tags> <aclhex>     → `ok <tags>` | `err <name>`   tags: `~` (no tag set) | `-` (empty) | khex:vhex,…
    proxy aclget <tags>              → `ok <hex>` | `err <name>`
    proxy create <aclhex>            → `ok <tags>` | `err <name>`
    proxy tagging <impl 0|1> <tags> get|delete|put <tags> → `<answer> | <store>`
    proxy sdkinput <M> <f=hex,…|->   → `sdk=hex,…` the model's SDK input of the primary call (only fields that are present;
                                        `sdk=?` = computed by code the extractor does not look into)
    proxy gwresult <M> <sdk=hex,…|-> → `res=hex,…` the model's gateway result
    proxy err api <codehex> <msghex> <status|~> | proxy err other <hex> → `api <codehex> <deschex> <status>` | `foreign <hex>`
-/
import Vgw.Model.Proxy
namespace Vgw.Driver.Proxy
open Vgw Vgw.Gen.ProxyFacts Vgw.Model.Proxy

def look (n : String) : Option Method := methods.find? (fun m => m.name == n)

def pairs (l : List (String × String)) : String :=
  if l.isEmpty then "-" else ",".intercalate (l.map fun p => p.1 ++ "." ++ p.2)

def reqOk (e : String × String × String) : Bool :=
  match look e.1 with
  | none => false
  | some M => preservedReq M e.2.1 e.2.2

def respOk (e : String × String × String) : Bool :=
  match look e.1 with
  | none => false
  | some M => copiedResp M e.2.1 e.2.2

def strHex (s : String) : String := Bytes.toHexArg (Bytes.ofString s)

def strOfHex (h : String) : Option String :=
  if h == "-" then some "" else (Bytes.ofHex h).map fun b => String.ofList (b.map fun c => Char.ofNat c.toNat)

def bytesOfHex (h : String) : Option Bytes := if h == "-" then some [] else Bytes.ofHex h

def parseTags (s : String) : Option (Option Tags) :=
  if s == "~" then some none
  else if s == "-" then some (some [])
  else do
    let items ← (s.splitOn ",").mapM fun it =>
      match it.splitOn ":" with
      | [k, v] => do pure ((← strOfHex k), (← bytesOfHex v))
      | _ => none
    pure (some items)

def showTags : Option Tags → String
  | none => "~"
  | some [] => "-"
  | some t => ",".intercalate (t.map fun kv => strHex kv.1 ++ ":" ++ Bytes.toHexArg kv.2)

def errName : TagErr → String
  | .noSuchTagSet => "NoSuchTagSet" | .invalidTag => "InvalidTag" | .badBase64 => "BadBase64" | .notImplemented => "NotImplemented"

def parseFields (s : String) : Option (List (String × String)) :=
  if s == "-" then some []
  else (s.splitOn ",").mapM fun it =>
    match it.splitOn "=" with
    | [k, v] => do pure (k, (← strOfHex v))
    | _ => none

def asFields (l : List (String × String)) : Fields := fun f => (l.find? (fun p => p.1 == f)).map (·.2)

/-- the marker a computed field is given: derive = "?" when one of its sources is present -/
def unknown : String := "?"

def showFields (names : List String) (g : Fields) : String :=
  let l := names.filterMap fun n => (g n).map fun v => n ++ "=" ++ (if v == unknown then "?" else strHex v)
  if l.isEmpty then "-" else ",".intercalate l

def handle : List String → Option String
  | ["lossy"] => some (pairs lossyReq)
  | ["argued"] => some (pairs (zeroUnreachable ++ faithfulDerivation ++ emptyBodyRewrite))
  | ["findings"] => some (pairs (lossyReq.filter fun e => !zeroUnreachable.contains e && !faithfulDerivation.contains e))
  | ["dropped"] => some (pairs droppedResp)
  | ["tablelossy"] => some (pairs ((relevantReq.filter fun e => !reqOk e).map fun e => (e.1, e.2.1)))
  | ["tabledropped"] => some (pairs ((relevantResp.filter fun e => !respOk e).map fun e => (e.1, e.2.1)))
  | ["reqok", m, f, sdk] => some (toString (reqOk (m, f, sdk)))
  | ["respok", m, sdk, res] => some (toString (respOk (m, sdk, res)))
  | ["relevantreq"] => some (",".intercalate (relevantReq.map fun e => e.1 ++ "|" ++ e.2.1 ++ "|" ++ e.2.2))
  | ["relevantresp"] => some (",".intercalate (relevantResp.map fun e => e.1 ++ "|" ++ e.2.1 ++ "|" ++ e.2.2))
  | ["unimplemented"] => some (",".intercalate unimplemented)
  | ["earlyuse"] => some (",".intercalate ((methods.filter fun m => m.useBeforeErrCheck).map fun m => m.name))
  | ["derefs"] => some (",".intercalate ((methods.filter fun m => !m.derefUnguarded.isEmpty).map fun m =>
      m.name ++ ":" ++ ";".intercalate m.derefUnguarded))
  | ["aclkey"] => some aclKey
  | ["b64", h] => do pure (Bytes.toHexArg (b64Encode (← bytesOfHex h)))
  | ["aclput", t, a] => do
    let store ← parseTags t
    let acl ← bytesOfHex a
    match putBucketAcl store acl with
    | .ok s => pure ("ok " ++ showTags (some s))
    | .error e => pure ("err " ++ errName e)
  | ["aclget", t] => do
    let store ← parseTags t
    match getBucketAcl store with
    | .ok a => pure ("ok " ++ Bytes.toHexArg a)
    | .error e => pure ("err " ++ errName e)
  | ["create", a] => do
    match createBucketTags (← bytesOfHex a) with
    | .ok s => pure ("ok " ++ showTags (some s))
    | .error e => pure ("err " ++ errName e)
  | "tagging" :: impl :: t :: op => do
    let store ← parseTags t
    let o ← match op with
      | ["get"] => some TagOp.get
      | ["delete"] => some TagOp.delete
      | ["put", n] => do match (← parseTags n) with
        | some l => some (TagOp.put l)
        | none => none
      | _ => none
    let (ans, st) := clientTagging (impl == "1") store o
    let a := match ans with
      | .ok none => "ok"
      | .ok (some v) => "ok " ++ showTags (some v)
      | .error e => "err " ++ errName e
    pure (a ++ " | " ++ showTags st)
  | ["sdkinput", m, fs] => do
    let M ← look m
    let c ← primaryCall M
    let r := asFields (← parseFields fs)
    let srcsOf := fun (sdk : String) =>
      if c.passthrough then [sdk] else ((c.fields.find? (fun fld => fld.sdk == sdk)).map (·.req)).getD []
    let derive : String → Fields → Val := fun sdk g => if (srcsOf sdk).any (fun s => (g s).isSome) then some unknown else none
    let names := if c.passthrough then M.reqFields else c.fields.map (·.sdk)
    pure (showFields names (sdkInput M c derive r))
  | ["gwresult", m, fs] => do
    let M ← look m
    let given ← parseFields fs
    let o := asFields given
    let srcsOf := fun (res : String) => ((M.outFields.find? (fun fld => fld.res == res)).map (·.out)).getD []
    let derive : String → Fields → Val := fun res g => if (srcsOf res).any (fun s => (g s).isSome) then some unknown else none
    let names := if M.outPassthrough then given.map (·.1) else M.outFields.map (·.res)
    pure (showFields names (gwResult M derive o))
  | ["err", "api", c, m, st] => do
    let code ← strOfHex c
    let msg ← strOfHex m
    let status := if st == "~" then none else st.toNat?
    match handleError (.api code msg status) with
    | .api c d s => pure s!"api {strHex c} {strHex d} {s}"
    | .foreign t => pure ("foreign " ++ strHex t)
  | ["err", "other", t] => do
    match handleError (.other (← strOfHex t)) with
    | .api c d s => pure s!"api {strHex c} {strHex d} {s}"
    | .foreign t => pure ("foreign " ++ strHex t)
  | _ => none

end Vgw.Driver.Proxy
