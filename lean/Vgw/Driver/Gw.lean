import Vgw.Model.Gw.Step
namespace Vgw.Driver.Gw
open Vgw Vgw.Model.Gw

structure DState where
  cfg : Cfg := {}
  st : State := {}

def parseList {α} (s : String) (sep : String) (f : String → Option α) : Option (List α) :=
  if s = "-" || s = "" then some [] else (s.splitOn sep).mapM f

def parseKVs (s : String) : Option KVs :=
  parseList s "," fun kv => match kv.splitOn ":" with
    | [k, v] => do pure ((← Bytes.ofHex k), (← Bytes.ofHex v))
    | _ => none

def parseOptKVs (s : String) : Option (Option KVs) :=
  if s = "~" then some none else (parseKVs s).map some

def parseData (s : String) : Option Data :=
  parseList s "," fun seg => match seg.splitOn ":" with
    | [a, b, c] => do pure ⟨← a.toNat?, ← b.toNat?, ← c.toNat?⟩
    | _ => none

def parseBytesList (s : String) : Option (List Bytes) := parseList s "," Bytes.ofHex

def parseStmt (s : String) : Option Stmt :=
  match s.splitOn "/" with
  | [e, ps, as, rs] => do
    let allow ← (if e = "A" then some true else if e = "D" then some false else none)
    pure ⟨allow, ← parseBytesList ps, ← parseBytesList as, ← parseBytesList rs⟩
  | _ => none

def parsePolicy (id stmts : String) : Option Policy := do
  pure ⟨← id.toNat?, ← parseList stmts ";" parseStmt⟩

def parseRetention (s : String) : Option (Option Retention) :=
  if s = "~" then some none else
  match s.splitOn ":" with
  | [m, t] => do
    let mode ← (if m = "G" then some LockMode.governance else if m = "C" then some LockMode.compliance else none)
    pure (some ⟨mode, ← t.toInt?⟩)
  | _ => none

/-- `<data> <etag> <ctype> <meta> <hdrs> <tags|~> <hold 0/1> <retention|~>` -/
def parsePutSpec : List String → Option (PutSpec × List String)
  | d :: e :: c :: m :: h :: t :: hold :: ret :: rest => do
    pure ({ data := ← parseData d, etag := ← Bytes.ofHex e, ctype := ← Bytes.ofHex c, umeta := ← parseKVs m,
            hdrs := ← parseKVs h, tags := ← parseOptKVs t, hold := hold = "1", retention := ← parseRetention ret }, rest)
  | _ => none

def parseCanned : String → Option CannedAcl
  | "none" => some .none | "private" => some .private_ | "public-read" => some .publicRead
  | "public-read-write" => some .publicReadWrite | _ => none

def parseOwnership : String → Option (Option Ownership)
  | "~" => some none
  | "BucketOwnerEnforced" => some (some .bucketOwnerEnforced)
  | "BucketOwnerPreferred" => some (some .bucketOwnerPreferred)
  | "ObjectWriter" => some (some .objectWriter)
  | _ => none

def parseKeyVids (s : String) : Option (List (Bytes × Bytes)) :=
  parseList s "," fun kv => match kv.splitOn ":" with
    | [k, v] => do pure ((← Bytes.ofHex k), (← Bytes.ofHex v))
    | _ => none

def parseOp : List String → Option Op
  | ["createBucket", b, acl, own, lock, valid] => do
    pure (.createBucket (← Bytes.ofHex b) (← parseCanned acl) (← parseOwnership own) (lock = "1") (valid = "1"))
  | ["deleteBucket", b] => do pure (.deleteBucket (← Bytes.ofHex b))
  | ["headBucket", b] => do pure (.headBucket (← Bytes.ofHex b))
  | ["listBuckets", pfx, token, max] => do pure (.listBuckets (← Bytes.ofHex pfx) (← Bytes.ofHex token) (← max.toNat?))
  | ["putBucketPolicy", b, id, stmts, valid] => do pure (.putBucketPolicy (← Bytes.ofHex b) (← parsePolicy id stmts) (valid = "1"))
  | ["getBucketPolicy", b] => do pure (.getBucketPolicy (← Bytes.ofHex b))
  | ["deleteBucketPolicy", b] => do pure (.deleteBucketPolicy (← Bytes.ofHex b))
  | ["putBucketAcl", b, acl] => do pure (.putBucketAcl (← Bytes.ofHex b) (← parseCanned acl))
  | ["putBucketAclGrants", b, gs] => do
    -- gs = "-" or comma-separated PERM:hexaccount
    let items := if gs = "-" then [] else gs.splitOn ","
    let grants ← items.mapM fun it =>
      match it.splitOn ":" with
      | [p, a] => do
        let perm ← (match p with
          | "FULL_CONTROL" => some Perm.fullControl | "READ" => some Perm.read | "READ_ACP" => some Perm.readAcp
          | "WRITE" => some Perm.write | "WRITE_ACP" => some Perm.writeAcp | _ => none)
        pure (perm, ← Bytes.ofHex a)
      | _ => none
    pure (.putBucketAclGrants (← Bytes.ofHex b) grants)
  | ["getBucketAcl", b] => do pure (.getBucketAcl (← Bytes.ofHex b))
  | ["putBucketTagging", b, t] => do pure (.putBucketTagging (← Bytes.ofHex b) (← parseKVs t))
  | ["getBucketTagging", b] => do pure (.getBucketTagging (← Bytes.ofHex b))
  | ["deleteBucketTagging", b] => do pure (.deleteBucketTagging (← Bytes.ofHex b))
  | ["putOwnership", b, o] => do
    match ← parseOwnership o with
    | some o => pure (.putOwnership (← Bytes.ofHex b) o)
    | none => none
  | ["getOwnership", b] => do pure (.getOwnership (← Bytes.ofHex b))
  | ["deleteOwnership", b] => do pure (.deleteOwnership (← Bytes.ofHex b))
  | ["putVersioning", b, e] => do pure (.putVersioning (← Bytes.ofHex b) (e = "1"))
  | ["getVersioning", b] => do pure (.getVersioning (← Bytes.ofHex b))
  | "putObject" :: b :: k :: newVid :: rest => do
    let (p, rest') ← parsePutSpec rest
    if rest' ≠ [] then none else pure (.putObject (← Bytes.ofHex b) (← Bytes.ofHex k) p (← Bytes.ofHex newVid))
  | ["getObject", b, k, vid] => do pure (.getObject (← Bytes.ofHex b) (← Bytes.ofHex k) (← Bytes.ofHex vid))
  | ["headObject", b, k, vid] => do pure (.headObject (← Bytes.ofHex b) (← Bytes.ofHex k) (← Bytes.ofHex vid))
  | ["deleteObject", b, k, vid, bypass, newVid] => do
    pure (.deleteObject (← Bytes.ofHex b) (← Bytes.ofHex k) (← Bytes.ofHex vid) (bypass = "1") (← Bytes.ofHex newVid))
  | ["deleteObjects", b, keys, bypass, newVids] => do
    pure (.deleteObjects (← Bytes.ofHex b) (← parseKeyVids keys) (bypass = "1") (← parseBytesList newVids))
  | "copyObject" :: sb :: sk :: svid :: b :: k :: newVid :: mode :: rest => do
    let replace ← (if mode = "COPY" then some none else do
      let (p, rest') ← parsePutSpec rest
      if rest' ≠ [] then none else pure (some p))
    pure (.copyObject (← Bytes.ofHex sb) (← Bytes.ofHex sk) (← Bytes.ofHex svid) (← Bytes.ofHex b) (← Bytes.ofHex k) replace (← Bytes.ofHex newVid))
  | ["putObjectTagging", b, k, t] => do pure (.putObjectTagging (← Bytes.ofHex b) (← Bytes.ofHex k) (← parseKVs t))
  | ["getObjectTagging", b, k] => do pure (.getObjectTagging (← Bytes.ofHex b) (← Bytes.ofHex k))
  | ["deleteObjectTagging", b, k] => do pure (.deleteObjectTagging (← Bytes.ofHex b) (← Bytes.ofHex k))
  | ["listVersions", b] => do pure (.listVersions (← Bytes.ofHex b))
  | ["putLockConfig", b, en, mode, days] => do
    let m ← (if mode = "~" then some none else if mode = "G" then some (some LockMode.governance) else if mode = "C" then some (some LockMode.compliance) else none)
    pure (.putLockConfig (← Bytes.ofHex b) (en = "1") m (← days.toNat?))
  | ["getLockConfig", b] => do pure (.getLockConfig (← Bytes.ofHex b))
  | ["putRetention", b, k, vid, r, bypass] => do
    match ← parseRetention r with
    | some r => pure (.putRetention (← Bytes.ofHex b) (← Bytes.ofHex k) (← Bytes.ofHex vid) r (bypass = "1"))
    | none => none
  | ["getRetention", b, k, vid] => do pure (.getRetention (← Bytes.ofHex b) (← Bytes.ofHex k) (← Bytes.ofHex vid))
  | ["putLegalHold", b, k, vid, on] => do pure (.putLegalHold (← Bytes.ofHex b) (← Bytes.ofHex k) (← Bytes.ofHex vid) (on = "1"))
  | ["getLegalHold", b, k, vid] => do pure (.getLegalHold (← Bytes.ofHex b) (← Bytes.ofHex k) (← Bytes.ofHex vid))
  | "createUpload" :: b :: k :: newId :: rest => do
    let (p, rest') ← parsePutSpec rest
    if rest' ≠ [] then none else pure (.createUpload (← Bytes.ofHex b) (← Bytes.ofHex k) p (← Bytes.ofHex newId))
  | ["uploadPart", b, k, id, num, data, etag] => do
    pure (.uploadPart (← Bytes.ofHex b) (← Bytes.ofHex k) (← Bytes.ofHex id) (← num.toNat?) (← parseData data) (← Bytes.ofHex etag))
  | ["uploadPartCopy", b, k, id, num, sb, sk, svid, range, etag] => do
    let r ← (if range = "~" then some none else match range.splitOn ":" with
      | [a, e] => do pure (some ((← a.toNat?), (← e.toNat?)))
      | _ => none)
    pure (.uploadPartCopy (← Bytes.ofHex b) (← Bytes.ofHex k) (← Bytes.ofHex id) (← num.toNat?) (← Bytes.ofHex sb) (← Bytes.ofHex sk) (← Bytes.ofHex svid) r (← Bytes.ofHex etag))
  | ["listParts", b, k, id] => do pure (.listParts (← Bytes.ofHex b) (← Bytes.ofHex k) (← Bytes.ofHex id))
  | ["listUploads", b] => do pure (.listUploads (← Bytes.ofHex b))
  | ["completeUpload", b, k, id, parts, mpEtag, newVid] => do
    let ps ← parseList parts "," fun e => match e.splitOn ":" with
      | [n, t] => do pure ((← n.toNat?), (← Bytes.ofHex t))
      | _ => none
    pure (.completeUpload (← Bytes.ofHex b) (← Bytes.ofHex k) (← Bytes.ofHex id) ps (← Bytes.ofHex mpEtag) (← Bytes.ofHex newVid))
  | ["abortUpload", b, k, id] => do pure (.abortUpload (← Bytes.ofHex b) (← Bytes.ofHex k) (← Bytes.ofHex id))
  | _ => none

def parseCaller (s : String) : Option Caller :=
  if s = "root" then some .root else if s = "anon" then some .unauthentic else
  if s.startsWith "u:" then (Bytes.ofHex (s.drop 2).toString).map .acct else none

def parseRole : String → Option Role
  | "admin" => some .admin | "userplus" => some .userplus | "user" => some .user | _ => none

def showResp (r : Resp) : String :=
  let f := " ".intercalate (r.fields.map fun (k, v) => k ++ "=" ++ v)
  let e := ";".intercalate (r.events.map fun e => s!"{e.name} {Bytes.toHexArg e.bucket} {Bytes.toHexArg e.key} {e.size} {Bytes.toHexArg e.etag}")
  s!"code={r.code} {f} | {e}"

/-- `gw reset <readonly> <versioning> <rootaccess>` · `gw acct <access> <secret> <role>` ·
    `gw step <caller> <now> <op> <args…>` -/
def handle (d : DState) : List String → DState × Option String
  | ["reset", ro, v, root] =>
    match Bytes.ofHex root with
    | some r => ({ cfg := { readonly := ro = "1", versioning := v = "1", rootAccess := r }, st := {} }, some "ok")
    | none => (d, none)
  | ["filter", f] =>
    if f = "~" then ({ d with cfg := { d.cfg with eventFilter := none } }, some "ok") else
    match parseList f "," (fun e => match e.splitOn "=" with
        | [k, v] => some (k, decide (v = "1"))
        | _ => none) with
    | some m => ({ d with cfg := { d.cfg with eventFilter := some m } }, some "ok")
    | none => (d, none)
  | ["cfg", ro, v] => ({ d with cfg := { d.cfg with readonly := ro = "1", versioning := v = "1" } }, some "ok")
  | ["acct", a, sec, role] =>
    match Bytes.ofHex a, Bytes.ofHex sec, parseRole role with
    | some a, some sec, some role =>
      ({ d with st := { d.st with accounts := d.st.accounts.filter (·.access != a) ++ [{ access := a, secret := sec, role := role }] } }, some "ok")
    | _, _, _ => (d, none)
  | "step" :: caller :: now :: rest =>
    match parseCaller caller, now.toInt?, parseOp rest with
    | some c, some now, some op =>
      let (st', r) := step d.cfg d.st ⟨c, op, now⟩
      ({ d with st := st' }, some (showResp r))
    | _, _, _ => (d, none)
  | _ => (d, none)

end Vgw.Driver.Gw
