import Vgw.Spec.Chunked
import Vgw.Model.ChunkSigned
import Vgw.Model.ChunkUnsigned
import Vgw.Hash.Sha256
import Vgw.Hash.Crc32
/-
  Line protocol of the aws-chunked models and oracle (property C12).

  <ctx> = <variant> <algo> <secret> <region> <yyyymmdd> <amzdate> <seedsig>      (hex except variant/algo)
     variant ∈ signed | signed-trailer | unsigned-trailer ; algo ∈ crc32 | sha256 (trailer checksum)

  chunk run <ctx> <stream> <spec>[/<spec>…]   spec = <cuts>:<eofWith 0|1>:<caps>  (comma lists, `-` = none)
        → one outcome per spec joined by "|" :  ok <hexpayload> | err <class> | panic
  chunk oracle <ctx> <stream> <obs>[/<obs>…]  obs = ok:<hexpayload> | rejected | crashed
        → <class-of-stream> then ok|bad per obs      (class: valid | grey | truncated | malformed | badsig | badchecksum)
  chunk encode <ctx> <payload> <sizes>        → hex of Spec.Chunked.encode
  chunk sha256|crc32|b64|b64len|trim|parsehex|hexenc <hex> ; chunk hmac <key> <hex>   (differential tests of the shims)
-/
namespace Vgw.Driver.Chunk
open Vgw Vgw.Spec.Chunked

def natList (s : String) : Option (List Nat) :=
  if s = "-" then some [] else (s.splitOn ",").mapM String.toNat?

structure Ctx where
  variant : Variant
  P : Params
  csumLen : Nat

def csumOf (algo : String) : Option ((Bytes → Bytes) × Nat × Bytes) :=
  match algo with
  | "crc32" => some (Hash.crc32Sum, 4, Bytes.ofString "x-amz-checksum-crc32")
  | "sha256" => some (Hash.sha256, 32, Bytes.ofString "x-amz-checksum-sha256")
  | _ => none

def parseCtx (variant algo secret region ymd amz seed : String) : Option Ctx := do
  let v ← match variant with
    | "signed" => some Variant.signed
    | "signed-trailer" => some Variant.signedTrailer
    | "unsigned-trailer" => some Variant.unsignedTrailer
    | _ => none
  let (csum, clen, tname) ← csumOf algo
  let secret ← Bytes.ofHex secret
  let region ← Bytes.ofHex region
  let ymd ← Bytes.ofHex ymd
  let amz ← Bytes.ofHex amz
  let seed ← Bytes.ofHex seed
  let key := Model.ChunkSigned.getSigningKey Hash.hmacSha256 secret region ymd
  pure { variant := v, csumLen := clen,
         P := { sha := Hash.sha256, hmac := Hash.hmacSha256, csum := csum, key := key, amzDate := amz,
                scope := Model.ChunkSigned.credentialScope region ymd, seedSig := seed, trailerName := tname } }

def signedCfg (c : Ctx) : Model.ChunkSigned.Cfg :=
  { sha := c.P.sha, hmac := c.P.hmac, csum := c.P.csum, signingKey := c.P.key, amzDate := c.P.amzDate,
    scope := c.P.scope, trailer := if c.variant = .signedTrailer then c.P.trailerName else [], csumLen := c.csumLen }

def showSignedErr : Model.ChunkSigned.Err → String
  | .sigMismatch => "sigmismatch" | .badDigest => "baddigest" | .invalidFormat => "invalidformat"
  | .malformed => "malformed" | .badTrailer => "badtrailer" | .unexpectedEOF => "unexpectedeof"

def showUnsignedErr : Model.ChunkUnsigned.Err → String
  | .malformed => "malformed" | .unexpectedEOF => "unexpectedeof" | .badDigest => "baddigest"

def runSpec (c : Ctx) (stream : Bytes) (spec : String) : Option String := do
  let [cuts, eofWith, caps] := spec.splitOn ":" | none
  let cuts ← natList cuts
  let caps ← natList caps
  let eofWith := eofWith = "1"
  let frags := Model.ChunkSigned.cutAt stream cuts 0
  match c.variant with
  | .unsignedTrailer =>
    let capf := fun i => max 1 (caps.getD (i % max 1 caps.length) 1)
    let (out, st) := Model.ChunkUnsigned.run { csum := c.P.csum, trailer := c.P.trailerName } frags capf
    pure <| match st with
      | .eof => s!"ok {Bytes.toHexArg out}"
      | .err e => s!"err {showUnsignedErr e}"
      | .nil => "livelock"
      | .fuel => "fuel"
  | _ =>
    let ds := Model.ChunkSigned.deliveries eofWith caps frags
    let (out, st) := Model.ChunkSigned.run (signedCfg c) c.P.seedSig ds
    pure <| match st with
      | .eof => s!"ok {Bytes.toHexArg out}"
      | .err e => s!"err {showSignedErr e}"
      | .panic => "panic"
      | .nil => "livelock"
      | .fuel => "fuel"

def showClass : Class → String
  | .valid => "valid" | .grey => "grey"
  | .invalid .truncated => "truncated" | .invalid .malformed => "malformed"
  | .invalid .badSignature => "badsig" | .invalid .badChecksum => "badchecksum"
  | .invalid (.valid _) => "valid"

def parseObs (s : String) : Option Obs :=
  if s = "rejected" then some .rejected
  else if s = "crashed" then some .crashed
  else match s.splitOn ":" with
    | ["ok", h] => (Bytes.ofHex h).map .ok
    | _ => none

/-- `admitsB` with the classification computed once -/
def admitsWith (cl : Class × Option Bytes) (o : Obs) : Bool :=
  match cl, o with
  | (.valid, some p), .ok q => p == q
  | (.grey, some p), .ok q => p == q
  | (.grey, _), .rejected => true
  | (.invalid _, _), .rejected => true
  | _, _ => false

def hex1 (f : Bytes → Bytes) (h : String) : Option String := do
  let b ← Bytes.ofHex h
  pure (Bytes.toHexArg (f b))

def handle : List String → Option String
  | ["run", v, algo, secret, region, ymd, amz, seed, stream, specs] => do
    let c ← parseCtx v algo secret region ymd amz seed
    let stream ← Bytes.ofHex stream
    let outs ← (specs.splitOn "/").mapM (runSpec c stream)
    pure ("|".intercalate outs)
  | ["oracle", v, algo, secret, region, ymd, amz, seed, stream, obss] => do
    let c ← parseCtx v algo secret region ymd amz seed
    let stream ← Bytes.ofHex stream
    let cl := classify c.P c.variant stream
    let obs ← (obss.splitOn "/").mapM parseObs
    pure (showClass cl.1 ++ " " ++ " ".intercalate (obs.map fun o => if admitsWith cl o then "ok" else "bad"))
  | ["encode", v, algo, secret, region, ymd, amz, seed, payload, sizes] => do
    let c ← parseCtx v algo secret region ymd amz seed
    let payload ← Bytes.ofHex payload
    let sizes ← natList sizes
    pure (Bytes.toHexArg (encode c.P c.variant payload sizes))
  | ["sha256", h] => hex1 Hash.sha256 h
  | ["crc32", h] => hex1 Hash.crc32Sum h
  | ["b64", h] => hex1 b64Encode h
  | ["trim", h] => hex1 trimSpace h
  | ["hexenc", h] => hex1 hexEncode h
  | ["b64len", h] => do
    let b ← Bytes.ofHex h
    pure (match b64DecodedLen b with | some n => toString n | none => "err")
  | ["parsehex", h] => do
    let b ← Bytes.ofHex h
    pure (match parseIntHex64 b with | some n => toString n | none => "err")
  | ["hmac", k, h] => do
    let k ← Bytes.ofHex k
    let b ← Bytes.ofHex h
    pure (Bytes.toHexArg (Hash.hmacSha256 k b))
  | _ => none

end Vgw.Driver.Chunk
