import Vgw.Model.Crash
import Vgw.Spec.Crash
/-
  Line protocol of the crash model (stateless):
    crash plan  <cfg> <req> <fs>                      → the step list of the request on that file system
    crash after <cfg> <req> <fs> <idx> <key> <okey>   → file system after running the plan's steps with the given
                                                         indices (in that order) and a kill, + its observation
    crash obs   <cfg> <fs> <key> <okey>               → observation of a file system
    crash judge <old×6> <new×6> <obs×6>               → ok | defect+defect…   (Spec.Crash.defects)
  cfg  otmp=1,sidecar=0,verdir=1,vstatus=enabled,bucket=cbk
  req  op=put,key=d/k,falloc=1,meta=a+b,ctype=1,tags=1,src=s/k,upload=U0,part=2,parts=1+2,tmp=TMP
  fs   path|f|data|a=v,a=v;path|d|-|-      (`-` = empty list, `~` = empty value)
-/
namespace Vgw.Driver.Crash
open Vgw.Model.Crash Vgw.Spec.Crash

def encV (v : String) : String := if v == "" then "~" else v
def decV (v : String) : String := if v == "~" then "" else v
def encP (p : Path) : String := "/".intercalate p
def decP (s : String) : Path := if s == "-" || s == "" then [] else s.splitOn "/"

def kv (s : String) : List (String × String) :=
  if s == "-" || s == "" then [] else
  (s.splitOn ",").filterMap (fun e => match e.splitOn "=" with
    | [k, v] => some (k, v)
    | _ => none)

def look (m : List (String × String)) (k : String) (d : String) : String :=
  match m.find? (fun e => e.1 == k) with
  | some e => e.2
  | none => d

def plusList (s : String) : List String := if s == "-" || s == "" then [] else s.splitOn "+"

def parseCfg (s : String) : Cfg :=
  let m := kv s
  { otmp := look m "otmp" "1" == "1", sidecar := look m "sidecar" "0" == "1", verDir := look m "verdir" "0" == "1",
    vstatus := (match look m "vstatus" "off" with | "enabled" => .enabled | "suspended" => .suspended | _ => .off),
    bucket := look m "bucket" "b", atomicReplace := look m "areplace" "0" == "1", tagsFirst := look m "tagsfirst" "0" == "1",
    copyTagsFirst := look m "copytagsfirst" "0" == "1", lock := look m "lock" "0" == "1",
    holdFirst := look m "holdfirst" "0" == "1" }

def parseReq (s : String) : Option Req := do
  let m := kv s
  let op ← match look m "op" "" with
    | "put" => some Op.put | "copy" => some Op.copy | "delete" => some Op.delete
    | "uploadpart" => some Op.uploadPart | "complete" => some Op.complete | _ => none
  pure { op := op, key := decP (look m "key" "-"), data := look m "data" "new", falloc := look m "falloc" "1" == "1",
         metaKeys := plusList (look m "meta" "-"), ctype := look m "ctype" "0" == "1", tags := look m "tags" "0" == "1", hold := look m "hold" "0" == "1",
         src := decP (look m "src" "-"), upload := look m "upload" "", partNo := look m "part" "1",
         parts := plusList (look m "parts" "-"), tmp := look m "tmp" "TMP", newVid := look m "newvid" "new" }

def parseAttrs (s : String) : Attrs := (kv s).map (fun e => (e.1, decV e.2))

def parseFS (s : String) : Option FS :=
  if s == "-" then some {} else do
  let ents ← (s.splitOn ";").mapM (fun e => match e.splitOn "|" with
    | [p, "f", d, a] => some (decP p, Node.file (decV d) (parseAttrs a))
    | [p, "d", _, a] => some (decP p, Node.dir (parseAttrs a))
    | _ => none)
  pure { ents := ents }

def sortStrings (l : List String) : List String := (l.toArray.qsort (· < ·)).toList

def showAttrs (a : Attrs) : String :=
  if a.isEmpty then "-" else ",".intercalate (sortStrings (a.map (fun e => e.1 ++ "=" ++ encV e.2)))

def showFS (fs : FS) : String :=
  if fs.ents.isEmpty then "-" else
  ";".intercalate (sortStrings (fs.ents.map (fun e => match e.2 with
    | .file d a => encP e.1 ++ "|f|" ++ encV d ++ "|" ++ showAttrs a
    | .dir a => encP e.1 ++ "|d|-|" ++ showAttrs a)))

def showRef : Ref → String
  | .anon id => "@" ++ toString id
  | .path p => encP p

def showStep : Step → String
  | .otmp id d => s!"otmp:@{id}:{encP d}"
  | .creat p => s!"creat:{encP p}"
  | .falloc r => s!"falloc:{showRef r}"
  | .write r v => s!"write:{showRef r}:{encV v}"
  | .setx r a v => s!"setx:{showRef r}:{a}:{encV v}"
  | .rmx p a => s!"rmx:{encP p}:{a}"
  | .mkdir p => s!"mkdir:{encP p}"
  | .unlink p => s!"unlink:{encP p}"
  | .rmdir p => s!"rmdir:{encP p}"
  | .link id p => s!"link:@{id}:{encP p}"
  | .rename s d => s!"rename:{encP s}:{encP d}"
  | .chmod r => s!"chmod:{showRef r}"

def opt (o : Option String) : String := match o with | some v => encV v | none => "-"
/-- an ETag / version id that is stored empty reads as absent -/
def optNE (o : Option String) : String := match o with | some v => if v == "" then "-" else v | none => "-"
def vidNE (v : String) : String := if v == "" then "null" else v

def showGet (v : Option ObjView) (lock : Bool := false) : String :=
  match v with
  | none => "404"
  | some o =>
    let m := if o.umeta.isEmpty then "-" else "+".intercalate (sortStrings (o.umeta.map (fun e => e.1 ++ "=" ++ encV e.2)))
    -- the legal hold is a seventh field in object-lock buckets only
    s!"{encV o.data},{opt o.etag},{opt o.ctype},{m},{opt (o.vid.map vidNE)},{opt o.tags}" ++ (if lock then "," ++ opt o.hold else "")

def showList (l : Option (Option Val)) : String :=
  match l with
  | none => "-"
  | some none => "noetag"
  | some (some e) => if e == "" then "noetag" else e

def showVers (vs : List VerView) : String :=
  if vs.isEmpty then "-" else
  "/".intercalate (sortStrings (vs.map (fun v =>
    s!"{vidNE v.vid}:{if v.latest then "L" else "A"}:{if v.marker then "M" else "O"}:{if v.marker then "-" else optNE v.etag}")))

def showUploads (cfg : Cfg) (fs : FS) (key : Path) : String :=
  let us := uploads cfg fs key
  if us.isEmpty then "-" else
  "/".intercalate (sortStrings (us.map (fun u =>
    let ps := match partsOf cfg fs key u with
      | some ps => if ps.isEmpty then "-" else "+".intercalate (sortStrings (ps.map (fun p => p.1 ++ "=" ++ optNE p.2)))
      | none => "!"
    u ++ ":" ++ ps)))

def obsOf (cfg : Cfg) (fs : FS) (key okey : Path) : Obs :=
  { get := (if getBroken cfg fs key then "!500" else showGet (view cfg fs key) cfg.lock), list := showList (listed cfg fs key), ver := (if cfg.verDir && cfg.vstatus != .off then (if versionsBroken cfg fs key then "!500" else showVers (versions cfg fs key)) else "-"),
    up := showUploads cfg fs key,
    other := if okey.isEmpty then "-" else showGet (view cfg fs okey) cfg.lock ++ "|" ++ showList (listed cfg fs okey),
    blocked := blocked cfg fs }

def showObs (o : Obs) : String :=
  s!"{o.get} {o.list} {o.ver} {o.up} {o.other} {if o.blocked then "1" else "0"}"

def mkObs : List String → Option Obs
  | [g, l, v, u, o, b] => some { get := g, list := l, ver := v, up := u, other := o, blocked := b == "1" }
  | _ => none

def handle : List String → Option String
  | ["plan", cfg, rq, fs] => do
    let rq ← parseReq rq
    let fs ← parseFS fs
    let p := plan (parseCfg cfg) rq fs
    pure (if p.isEmpty then "-" else ";".intercalate (p.map showStep))
  | ["after", cfg, rq, fs, idx, key, okey] => do
    let cfg := parseCfg cfg
    let rq ← parseReq rq
    let fs ← parseFS fs
    let p := plan cfg rq fs
    let is ← (if idx == "-" then some [] else (idx.splitOn ",").mapM String.toNat?)
    let steps ← is.mapM (fun i => p[i]?)
    let fs' := crash (run steps fs)
    pure (showFS fs' ++ " " ++ showObs (obsOf cfg fs' (decP key) (decP okey)))
  | ["obs", cfg, fs, key, okey] => do
    let fs ← parseFS fs
    pure (showObs (obsOf (parseCfg cfg) fs (decP key) (decP okey)))
  | "judge" :: rest =>
    if rest.length != 18 then none else do
    let old ← mkObs (rest.take 6)
    let new ← mkObs ((rest.drop 6).take 6)
    let o ← mkObs (rest.drop 12)
    let d := defects old new o
    pure (if d.isEmpty then "ok" else "+".intercalate d)
  | _ => none

end Vgw.Driver.Crash
