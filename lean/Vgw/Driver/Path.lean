import Vgw.Go.Path
namespace Vgw.Driver.Path
open Vgw Vgw.Go.Path

/-- `path clean <hex>` · `path join <hex> <hex>` · `path validname <hex>` · `path validcomp <hex>` -/
def handle : List String → Option String
  | ["clean", p] => do pure (Bytes.toHexArg (clean (← Bytes.ofHex p)))
  | ["join", a, b] => do pure (Bytes.toHexArg (join2 (← Bytes.ofHex a) (← Bytes.ofHex b)))
  | ["validname", p] => do pure (toString (isObjectNameValid (← Bytes.ofHex p)))
  | ["validcomp", p] => do pure (toString (isPathComponentValid (← Bytes.ofHex p)))
  | _ => none

end Vgw.Driver.Path
