/-
  Driver for Model.ConcVer (line protocol, core only):
    concver prog <variant>                       → the step names of one versioned write, in program order,
                                                   with where the archive step takes its inputs from
    concver run <variant> <init> <ws> <sched>    → outcome of a schedule
       init = "-" | "<w>.<vid>"; ws, sched = comma separated naturals ("-" = empty)
-/
import Vgw.Model.ConcVer
namespace Vgw.Driver.ConcVer
open Vgw.Model.ConcVer

def parseVariant : String → Option Variant
  | "byFd" => some .byFd
  | "byName" => some .byName
  | _ => none

def parseNats (s : String) : Option (List Nat) :=
  if s = "-" then some [] else (s.splitOn ",").mapM (·.toNat?)

def parseInit (s : String) : Option (Option Obj) :=
  if s = "-" then some none else
  match s.splitOn "." with
  | [w, v] => do some (some ⟨← w.toNat?, ← v.toNat?⟩)
  | _ => none

/-- the name of the step request 0 takes next. -/
def stepName (var : Variant) (s : Sys) : Option String :=
  match s.reqs[0]? with
  | some r =>
    match r.pc with
    | .start => some "openCur"
    | .opened _ => some (match var with
        | .byFd => "archive(id+data+values+size+names:fd)"
        | .byName => "archive(id+data+values:fd,size+names:name)")
    | .archived _ => some "publish"
    | .published _ => some "ack"
    | .done _ => none
  | none => none

def progNames (var : Variant) : Nat → Sys → List String
  | 0, _ => []
  | fuel + 1, s =>
    match stepName var s with
    | none => []
    | some n => n :: progNames var fuel (step var s 0)

def showObj (o : Obj) : String := s!"{o.w}.{o.vid}"

def handle : List String → Option String
  | ["prog", v] => do
    let var ← parseVariant v
    some (",".intercalate (progNames var 8 (init (some ⟨0, 1⟩) [1])))
  | ["run", v, i, ws, sc] => do
    let var ← parseVariant v
    let c ← parseInit i
    let ws ← parseNats ws
    let sc ← parseNats sc
    let s := run var (init c ws) sc
    let ack := acked s
    let lost := ack.filter (fun v => (readVer s v).isNone)
    let arch := s.arch.map (fun e => s!"{showObj e.src}/{showObj e.shape}")
    some s!"acked={ack};cur={(s.cur.map showObj).getD "-"};arch={arch};lost={lost}"
  | _ => none

end Vgw.Driver.ConcVer
