/-
  Line protocol of the IAM model (STATEFUL handler: the model state is threaded through the
  driver like `gw`).

    iam reset <cache 0/1> <copyIds 0/1 (regression model)> <invalidate 0/1 (1 = current code)> <ttl> <now> <root acct> <accts|->   -> ok
    iam call <op>                 one call alone, invocation to return        -> <res>
    iam invoke <op>               a call enters (gets the next index)         -> id=<n>
    iam step <i>                  next atomic step of call i                  -> <pc>
    iam seg <i>                   steps of call i up to its next yield point (gMiss, gFetched,
                                  mCache) or its return (at least one step)   -> <pc>
    iam tick <n> | iam gc                                                     -> ok
    iam quiet                     was the schedule since `reset` quiet by the standard of the
                                  regression model (old write-through cache, `quietRunB`)? -> 1 | 0
    iam dump                                                                  -> file/cache image
    iam spec <root acct> <accts|-> <op>…      (stateless) answers of the plain map, in order
                                              (listings are shown as `accts=-`; judged by `lin`)
    iam lin <root acct> <accts|-> <rec>…      (stateless) Spec oracle          -> ok | violation

    <op>   create=<acct> | get=<k> | update=<k>=<secret|~>=<uid|~>=<gid|~> | delete=<k> | list
    <acct> <access>:<secret>:<role>:<uid>:<gid>      (access, secret in hex, `-` = empty)
    <res>  ok | exists | nosuchuser | acct=<acct> | accts=<acct>,… | accts=-
    <pc>   <name> | done:<res> | blocked:<name>
    <rec>  <inv>|<ret>|<op>|<res | pending | found=<secret|~>=<0/1>=<role|~>=<uid|~>=<gid|~>>
-/
import Vgw.Model.IAM
import Vgw.Model.IAMQuiet
import Vgw.Spec.IAM
namespace Vgw.Driver.IAM
open Vgw Vgw.Model.IAM
open Vgw.Model.Gw (Account Role)

structure DState where
  v : Variant := {}
  cfg : Cfg := { root := { access := [], secret := [], role := .admin }, ttl := 0 }
  σ : State := {}
  /-- the schedule executed since the last reset satisfies the side condition that the regression
  model (old write-through cache) needed (`quietRunB`) -/
  quiet : Bool := true

def parseRole : String → Option Role
  | "admin" => some .admin | "userplus" => some .userplus | "user" => some .user | _ => none

def showRole : Role → String
  | .admin => "admin" | .userplus => "userplus" | .user => "user"

def parseAcct (s : String) : Option Account :=
  match s.splitOn ":" with
  | [a, sec, r, u, g] => do
    pure { access := ← Bytes.ofHex a, secret := ← Bytes.ofHex sec, role := ← parseRole r, uid := ← u.toInt?, gid := ← g.toInt? }
  | _ => none

def showAcct (a : Account) : String :=
  s!"{Bytes.toHexArg a.access}:{Bytes.toHexArg a.secret}:{showRole a.role}:{a.uid}:{a.gid}"

def parseAccts (s : String) : Option (List Account) :=
  if s = "-" || s = "" then some [] else (s.splitOn ",").mapM parseAcct

def showAccts (l : List Account) : String :=
  if l.isEmpty then "-" else ",".intercalate (l.map showAcct)

def parseOpt {α} (f : String → Option α) (s : String) : Option (Option α) :=
  if s = "~" then some none else (f s).map some

def parseOp (s : String) : Option Op :=
  match s.splitOn "=" with
  | ["create", a] => do pure (.create (← parseAcct a))
  | ["get", k] => do pure (.get (← Bytes.ofHex k))
  | ["update", k, sec, u, g] => do
    pure (.update (← Bytes.ofHex k) { secret := ← parseOpt Bytes.ofHex sec, uid := ← parseOpt String.toInt? u, gid := ← parseOpt String.toInt? g })
  | ["delete", k] => do pure (.delete (← Bytes.ofHex k))
  | ["list"] => some .list
  | _ => none

def showRes : Res → String
  | .ok => "ok"
  | .userExists => "exists"
  | .noSuchUser => "nosuchuser"
  | .acct a => "acct=" ++ showAcct a
  | .accts l => "accts=" ++ showAccts l

def parseBool : String → Option Bool
  | "0" => some false | "1" => some true | _ => none

def parseResPat (s : String) : Option Spec.IAM.ResPat :=
  match s.splitOn "=" with
  | ["pending"] => some .pending
  | ["ok"] => some (.exact .ok)
  | ["exists"] => some (.exact .userExists)
  | ["nosuchuser"] => some (.exact .noSuchUser)
  | ["acct", a] => do pure (.exact (.acct (← parseAcct a)))
  | ["accts", l] => do pure (.exact (.accts (← parseAccts l)))
  | ["found", sec, eq, role, u, g] => do
    let sec ← parseOpt Bytes.ofHex sec
    let eq ← parseBool eq
    pure (.found (sec.map fun s => (s, eq)) (← parseOpt parseRole role) (← parseOpt String.toInt? u) (← parseOpt String.toInt? g))
  | _ => none

def parseRec (s : String) : Option Spec.IAM.Rec :=
  match s.splitOn "|" with
  | [i, r, op, res] => do pure { op := ← parseOp op, res := ← parseResPat res, inv := ← i.toNat?, ret := ← r.toNat? }
  | _ => none

def pcName : PC → String
  | .start => "start" | .mLocked => "mLocked" | .mRead _ => "mRead" | .mRemoved _ => "mRemoved"
  | .mBackedUp _ => "mBackedUp" | .mTemp _ => "mTemp" | .mRenamed => "mRenamed" | .mFailed _ => "mFailed"
  | .mCache => "mCache" | .gMiss _ => "gMiss" | .gRLocked _ => "gRLocked" | .gGot _ _ => "gGot"
  | .gFetched _ _ => "gFetched" | .lRLocked => "lRLocked" | .lGot _ => "lGot"
  | .done r => "done:" ++ showRes r

def showPc (σ : State) (i : Nat) : String :=
  match σ.calls[i]? with
  | some c => pcName c.pc
  | none => "nocall"

def isYield : PC → Bool
  | .gMiss _ | .gFetched _ _ | .mCache | .done _ => true
  | _ => false

/-- steps of call i up to the next yield point; a blocked call is reported -/
def seg (v : Variant) (cfg : Cfg) (σ : State) (i : Nat) (q : Bool) : Nat → State × Bool × Bool
  | 0 => (σ, false, q)
  | n + 1 =>
    let q' := q && quietStepB v σ (.step i)
    let σ' := stepAt v cfg σ i
    match σ.calls[i]?, σ'.calls[i]? with
    | some c, some c' =>
      if c.pc = c'.pc then (σ, false, q)            -- blocked (or done)
      else if isYield c'.pc then (σ', true, q') else seg v cfg σ' i q' n
    | _, _ => (σ, false, q)

def showEntry (e : Entry) : String := s!"{showAcct e.val}@{e.exp}"

def handle (d : DState) : List String → DState × Option String
  | ["reset", c, ci, inv, ttl, now, root, accts] =>
    match parseBool c, parseBool ci, parseBool inv, ttl.toNat?, now.toNat?, parseAcct root, parseAccts accts with
    | some c, some ci, some inv, some ttl, some now, some root, some accts =>
      ({ v := { cache := c, copyIds := ci, invalidate := inv }, cfg := { root := root, ttl := ttl }, σ := init accts now, quiet := true }, some "ok")
    | _, _, _, _, _, _, _ => (d, none)
  | ["call", op] =>
    match parseOp op with
    | some op =>
      let n := d.σ.calls.length
      let σ' := call d.v d.cfg d.σ op
      let q := quietRunB d.v d.cfg d.σ (.invoke op :: List.replicate fuel (.step n))   -- = the steps of `call` (Lemmas.IAMSeq.call_eq_run)
      ({ d with σ := σ', quiet := d.quiet && q }, some (match σ'.result n with | some r => showRes r | none => "stuck:" ++ showPc σ' n))
    | none => (d, none)
  | ["invoke", op] =>
    match parseOp op with
    | some op => ({ d with σ := act d.v d.cfg d.σ (.invoke op) }, some s!"id={d.σ.calls.length}")
    | none => (d, none)
  | ["step", i] =>
    match i.toNat? with
    | some i =>
      let σ' := stepAt d.v d.cfg d.σ i
      ({ d with σ := σ', quiet := d.quiet && quietStepB d.v d.σ (.step i) }, some (showPc σ' i))
    | none => (d, none)
  | ["seg", i] =>
    match i.toNat? with
    | some i =>
      let (σ', moved, q) := seg d.v d.cfg d.σ i d.quiet fuel
      ({ d with σ := σ', quiet := q }, some ((if moved then "" else "blocked:") ++ showPc σ' i))
    | none => (d, none)
  | ["tick", n] =>
    match n.toNat? with
    | some n => ({ d with σ := act d.v d.cfg d.σ (.tick n) }, some "ok")
    | none => (d, none)
  | ["gc"] => ({ d with σ := act d.v d.cfg d.σ .gc }, some "ok")
  | ["quiet"] => (d, some (if d.quiet then "1" else "0"))
  | ["dump"] =>
    let f := match d.σ.main with | some s => showAccts (sortAccts s) | none => "absent"
    let t := match d.σ.temp with | some _ => "temp" | none => "notemp"
    (d, some s!"file={f} {t} now={d.σ.now} gen={d.σ.gen} cache={if d.σ.items.isEmpty then "-" else ",".intercalate (d.σ.items.map showEntry)}")
  | "lin" :: root :: accts :: recs =>
    match parseAcct root, parseAccts accts, recs.mapM parseRec with
    | some root, some accts, some recs =>
      (d, some (if Spec.IAM.linearizableB root accts recs then "ok" else "violation"))
    | _, _, _ => (d, none)
  | "spec" :: root :: accts :: ops =>
    match parseAcct root, parseAccts accts, ops.mapM parseOp with
    | some root, some accts, some ops =>
      (d, some (" ".intercalate ((Spec.IAM.seqSpec root (Spec.IAM.Accts.ofList accts) ops).map showRes)))
    | _, _, _ => (d, none)
  | _ => (d, none)

end Vgw.Driver.IAM
