import Vgw.Model.BucketName
namespace Vgw.Driver.BucketName
open Vgw Vgw.Model.BucketName

/-- `bucketname <hex>` → `true` | `false` -/
def handle : List String → Option String
  | [h] => do pure (toString (isValidBucketName (← Bytes.ofHex h)))
  | _ => none

end Vgw.Driver.BucketName
