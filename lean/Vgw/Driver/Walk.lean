import Vgw.Spec.List
namespace Vgw.Driver.Walk
open Vgw Vgw.Model.Walk Vgw.Spec.List

/-! Line protocol of the `walk` model.

  keys   : `-` or comma-separated `hexkey:size:hexetag` (explicit directory objects end in `/`);
           `hexkey:D:-` = a file that exists in the tree but for which getObj answers ErrSkipObj
           (posix: the current version is a delete marker) — part of the tree, not a key
  skip   : `-` or comma-separated hex names (Walk's skipdirs)
  page   : `<objs>;<cps>;<0|1>;<hexnext>` with objs = `-` or comma-separated `hexkey:size:hexetag`,
           cps = `-` or comma-separated hex
-/

def splitList (s : String) : List String := if s = "-" then [] else s.splitOn ","

def parseObj (s : String) : Option Obj :=
  match s.splitOn ":" with
  | [k, sz, et] => do
    let k ← Bytes.ofHexAux k.toList
    let sz ← sz.toNat?
    let et ← Bytes.ofHex et
    pure ⟨k, sz, et⟩
  | _ => none

def parseObjs (s : String) : Option (List Obj) := (splitList s).mapM parseObj

/-- the key table of a request: the objects getObj answers for, and every path of the tree -/
structure Tbl where
  objs : List Obj
  all : List Bytes

def parseTblEntry (s : String) : Option (Option Obj × Bytes) :=
  match s.splitOn ":" with
  | [k, "D", _] => do
    let k ← Bytes.ofHexAux k.toList
    pure (none, k)
  | _ => do
    let o ← parseObj s
    pure (some o, o.key)

def parseTbl (s : String) : Option Tbl := do
  let es ← (splitList s).mapM parseTblEntry
  pure ⟨es.filterMap (·.1), es.map (·.2)⟩

def parseHexList (s : String) : Option (List Bytes) := (splitList s).mapM (fun x => Bytes.ofHexAux x.toList)

def getObjOf (tbl : List Obj) : GetObj := fun k =>
  (tbl.find? (·.key == k)).map fun o => (o.size, o.etag)

def showObj (o : Obj) : String := s!"{Bytes.toHex o.key}:{o.size}:{Bytes.toHexArg o.etag}"

def showList (l : List String) : String := if l.isEmpty then "-" else ",".intercalate l

def showResult (r : Result) : String :=
  s!"{showList (r.objects.map showObj)};{showList (r.cps.map Bytes.toHex)};{if r.truncated then 1 else 0};{Bytes.toHexArg r.next}"

def parseResult (s : String) : Option Result :=
  match s.splitOn ";" with
  | [o, c, t, n] => do
    let o ← parseObjs o
    let c ← parseHexList c
    let t ← if t = "1" then some true else if t = "0" then some false else none
    let n ← Bytes.ofHex n
    pure ⟨o, c, t, n⟩
  | _ => none

/-- the keys the specification talks about: those outside internal bookkeeping directories -/
def specKeys (tbl : List Obj) (skip : List Bytes) : List Bytes :=
  (tbl.map (·.key)).filter (fun k => !internal skip k)

/-- input class = the first hypothesis of `walk_refines_spec_partial` that the input violates -/
def classify (tbl : Tbl) (skip : List Bytes) (P D M : Bytes) : String :=
  let all := tbl.all
  let K := specKeys tbl.objs skip
  if D ≠ [] && D ≠ [47] then "walk:non-slash-delimiter"
  else if D = [] && hasDirObj K then "walk:dir-object-empty-delimiter"
  else if K.any (fun k => isDirObj k && all.any (fun k' => k' != k && k.isPrefixOf k')) then
    "walk:dir-object-with-children"     -- children on disk, objects or not
  else if D = [47] && !populatedList (getObjOf tbl.objs) skip [] (treeOf all) then "walk:phantom-directory"
  else if !ocList (treeOf all) then "walk:order-incompatible-siblings"
  else if !markerClear K P D M then "walk:marker-inside-common-prefix"
  else "walk:other"


/-- follow the IMPLEMENTATION's own markers: page i was asked with the marker page i-1 returned.
For every page: is it equal to the model's page, does the oracle admit it (and, when they differ,
does the oracle admit the model's page), and the input class of that page's request. -/
def judgePages (tbl : Tbl) (skip : List Bytes) (p d : Bytes) (n : Nat) :
    Nat → Bytes → List Result → List String
  | _, _, [] => []
  | i, m, r :: rs =>
    let g := getObjOf tbl.objs
    let K := specKeys tbl.objs skip
    let model := walk ⟨p, d, m, n, g, skip⟩ (treeOf tbl.all)
    let eq := model == r
    let ok := pageOkB g K p d m n r
    let rest := judgePages tbl skip p d n (i + 1) r.next rs
    if eq && ok then rest else
      let mok := if eq then ok else pageOkB g K p d m n model
      s!"{i}|{if eq then "eq" else "ne"}|{if ok then "ok" else "bad"}|{if mok then "ok" else "bad"}|{classify tbl skip p d m}|{showResult model}" :: rest

def judge (tbl : Tbl) (skip : List Bytes) (p d m : Bytes) (n : Nat) (pages : List Result) : String :=
  let details := judgePages tbl skip p d n 0 m pages
  let run := runOkB (getObjOf tbl.objs) (specKeys tbl.objs skip) p d m n pages
  let cls := classify tbl skip p d m
  if details.isEmpty && run then s!"ok {cls}"
  else s!"bad {cls} run:{if run then "ok" else "bad"} {" ".intercalate details}"

def handle : List String → Option String
  | ["model", keys, skip, p, d, m, max] => do
    let tbl ← parseTbl keys
    let skip ← parseHexList skip
    let p ← Bytes.ofHex p
    let d ← Bytes.ofHex d
    let m ← Bytes.ofHex m
    let max ← max.toInt?
    pure (showResult (walk ⟨p, d, m, max, getObjOf tbl.objs, skip⟩ (treeOf tbl.all)))
  | ["spec", keys, skip, p, d, m, n] => do
    let tbl ← parseTbl keys
    let skip ← parseHexList skip
    let p ← Bytes.ofHex p
    let d ← Bytes.ofHex d
    let m ← Bytes.ofHex m
    let n ← n.toNat?
    pure (showResult (result (getObjOf tbl.objs) (specKeys tbl.objs skip) p d m n))
  | ["all", keys, skip, p, d, m] => do
    let tbl ← parseTbl keys
    let skip ← parseHexList skip
    let p ← Bytes.ofHex p
    let d ← Bytes.ofHex d
    let m ← Bytes.ofHex m
    let es := entries (specKeys tbl.objs skip) p d m
    pure (showResult ⟨objsOf (getObjOf tbl.objs) es, cpsOf es, false, []⟩)
  | ["selfcheck", keys, skip, p, d, m, n] => do
    let tbl ← parseTbl keys
    let skip ← parseHexList skip
    let p ← Bytes.ofHex p
    let d ← Bytes.ofHex d
    let m ← Bytes.ofHex m
    let n ← n.toNat?
    let r := walk ⟨p, d, m, n, getObjOf tbl.objs, skip⟩ (treeOf tbl.all)
    pure (if pageOkB (getObjOf tbl.objs) (specKeys tbl.objs skip) p d m n r then "ok" else "bad")
  | ["class", keys, skip, p, d, m] => do
    let tbl ← parseTbl keys
    let skip ← parseHexList skip
    let p ← Bytes.ofHex p
    let d ← Bytes.ofHex d
    let m ← Bytes.ofHex m
    pure (classify tbl skip p d m)
  | ["oracle", keys, skip, p, d, m, n, page] => do
    let tbl ← parseTbl keys
    let skip ← parseHexList skip
    let p ← Bytes.ofHex p
    let d ← Bytes.ofHex d
    let m ← Bytes.ofHex m
    let n ← n.toNat?
    let r ← parseResult page
    pure (if pageOkB (getObjOf tbl.objs) (specKeys tbl.objs skip) p d m n r then "ok" else "bad")
  | "run" :: keys :: skip :: p :: d :: m :: n :: pages => do
    let tbl ← parseTbl keys
    let skip ← parseHexList skip
    let p ← Bytes.ofHex p
    let d ← Bytes.ofHex d
    let m ← Bytes.ofHex m
    let n ← n.toNat?
    let rs ← pages.mapM parseResult
    pure (if runOkB (getObjOf tbl.objs) (specKeys tbl.objs skip) p d m n rs then "ok" else "bad")
  | "judge" :: keys :: skip :: p :: d :: m :: n :: pages => do
    let tbl ← parseTbl keys
    let skip ← parseHexList skip
    let p ← Bytes.ofHex p
    let d ← Bytes.ofHex d
    let m ← Bytes.ofHex m
    let n ← n.toNat?
    let rs ← pages.mapM parseResult
    pure (judge tbl skip p d m n rs)
  | _ => none

end Vgw.Driver.Walk
