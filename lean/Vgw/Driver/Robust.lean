/-
  Line protocol of the C20 models: `robust <op> <args…>`, one answer line per request; byte strings
  travel as hex (`-` = empty); a run-time panic of the modelled Go code is the answer `panic`.
  Stateless.
-/
import Vgw.Model.RobustHandlers
import Vgw.Model.Glob
namespace Vgw.Driver.Robust
open Vgw Vgw.Go Vgw.Model.Robust

def hx (b : Bytes) : String := Bytes.toHexArg b

def showChk {α : Type} (f : α → String) : Chk α → String
  | .ok a => f a
  | .error _ => "panic"

def errName : AuthErr → String
  | .missingFields => "MissingFields" | .sigVersion => "SignatureVersionNotSupported" | .credMalformed => "CredMalformed"
  | .invalidQueryParams => "InvalidQueryParams" | .incorrService => "SignatureIncorrService"
  | .terminationStr => "SignatureTerminationStr" | .dateMismatch => "SignatureDateDoesNotMatch"
  | .malformedDate => "MalformedDate" | .invalidSigAlgo => "InvalidQuerySignatureAlgo" | .regionMismatch => "RegionMismatch"
  | .malformedExpires => "MalformedExpires" | .negativeExpires => "NegativeExpires" | .maximumExpires => "MaximumExpires"
  | .expired => "ExpiredPresignRequest"

def showAuth : Except AuthErr AuthData → String
  | .error e => "err " ++ errName e
  | .ok a => s!"ok {hx a.access} {hx a.region} {hx a.signedHeaders} {hx a.signature} {hx a.date}"

def parseBool (s : String) : Option Bool := if s = "1" then some true else if s = "0" then some false else none

/-- comma-separated hex strings (`.` = empty list) -/
def parseHexList (s : String) : Option (List Bytes) :=
  if s = "." then some [] else (s.splitOn ",").mapM Bytes.ofHex

def showHexList (l : List Bytes) : String := if l.isEmpty then "." else ",".intercalate (l.map hx)

/-- grants: `perm:type:id` or `perm:nil`, comma separated, `.` = none -/
def parseGrants (s : String) : Option (List Grant) :=
  if s = "." then some [] else
  (s.splitOn ",").mapM fun g =>
    match g.splitOn ":" with
    | [p, "nil"] => do pure ⟨none, ← Bytes.ofHex p⟩
    | [p, t, i] => do pure ⟨some ⟨← Bytes.ofHex t, ← Bytes.ofHex i⟩, ← Bytes.ofHex p⟩
    | _ => none

def parseUploads (s : String) : Option (List Upload) :=
  if s = "." then some [] else
  (s.splitOn ",").mapM fun u =>
    match u.splitOn ":" with
    | [k, i] => do pure ⟨← Bytes.ofHex k, ← Bytes.ofHex i⟩
    | _ => none

def parseInts (s : String) : Option (List Int) :=
  if s = "." then some [] else (s.splitOn ",").mapM String.toInt?

/-- parts of a CompleteMultipartUpload body: `pn/etag`, with `nil` for an absent member -/
def parseCParts (s : String) : Option (List CPart) :=
  if s = "." then some [] else
  (s.splitOn ",").mapM fun p =>
    match p.splitOn "/" with
    | [n, e] => do
      let pn ← if n = "nil" then pure none else (some <$> n.toInt?)
      let et ← if e = "nil" then pure none else (some <$> Bytes.ofHex e)
      pure ⟨pn, et⟩
    | _ => none

/-- stored parts: `pn=size/etag` -/
def parseStored (s : String) : Option (List (Int × Int × Bytes)) :=
  if s = "." then some [] else
  (s.splitOn ",").mapM fun p =>
    match p.splitOn "=" with
    | [n, r] => match r.splitOn "/" with
      | [sz, e] => do pure (← n.toInt?, ← sz.toInt?, ← Bytes.ofHex e)
      | _ => none
    | _ => none

def ownershipValues : List Bytes := [
  [66, 117, 99, 107, 101, 116, 79, 119, 110, 101, 114, 69, 110, 102, 111, 114, 99, 101, 100],      -- BucketOwnerEnforced
  [66, 117, 99, 107, 101, 116, 79, 119, 110, 101, 114, 80, 114, 101, 102, 101, 114, 114, 101, 100], -- BucketOwnerPreferred
  [79, 98, 106, 101, 99, 116, 87, 114, 105, 116, 101, 114]]                                        -- ObjectWriter

def siteLine (s : SiteExp) : String :=
  s!"{s.file}|{s.func}|{s.kind}|{hx s.expr.toUTF8.toList}|{s.count}|{s.variant}"

def handle : List String → Option String
  | ["sites"] => some (";".intercalate ((parserSites ++ handlerSites).map siteLine))
  | ["complete"] => some (";".intercalate (completeFuncs.map fun p => s!"{p.1}|{p.2}"))
  | ["copysource", h] => do
    let h ← Bytes.ofHex h
    pure (showChk (fun r => match r with
      | .ok b o v => s!"ok {hx b} {hx o} {hx v}"
      | .invalid => "invalid") (parseCopySource h))
  | ["copysourcereq", h] => do
    let h ← Bytes.ofHex h
    pure (showChk (fun r => match r with
      | none => "nocopy"
      | some (.ok b o v) => s!"ok {hx b} {hx o} {hx v}"
      | some .invalid => "invalid") (copySourceOfRequest h))
  | ["tags", t] => do
    let t ← Bytes.ofHex t
    pure (showChk (fun r => match r with
      | none => "err"
      | some m => "ok " ++ (if m.isEmpty then "." else ",".intercalate (m.map fun kv => s!"{hx kv.1}={hx kv.2}"))) (parseObjectTags t))
  | ["copyrange", size, r] => do
    let size ← size.toInt?
    let r ← Bytes.ofHex r
    pure (showChk (fun x => match x with
      | .ok a b => s!"ok {a} {b}"
      | .invalid => "invalid"
      | .exceeding => "exceeding") (parseCopySourceRange size r))
  | ["getrange", size, r] => do
    let size ← size.toInt?
    let r ← Bytes.ofHex r
    pure (showChk (fun p => s!"{p.start} {p.length} {p.valid} {p.err}") (parseGetObjectRange size r))
  | ["auth", a, rs2] => do
    let a ← Bytes.ofHex a
    let rs2 ← Bytes.ofHex rs2
    pure (showChk showAuth (parseAuthorization (fun _ => rs2) a))
  | ["presign", algo, cred, date, sig, shdrs, exp, region, passed] => do
    let q : PresignQuery := ⟨← Bytes.ofHex algo, ← Bytes.ofHex cred, ← Bytes.ofHex date, ← Bytes.ofHex sig, ← Bytes.ofHex shdrs, ← Bytes.ofHex exp⟩
    pure (showChk showAuth (parsePresigned q (← Bytes.ofHex region) (← passed.toInt?)))
  | ["v4date", d, c] => do
    let d ← Bytes.ofHex d
    let c ← Bytes.ofHex c
    pure (showChk (fun r => match r with
      | .missing => "missing" | .malformed => "malformed" | .mismatch => "mismatch" | .proceed => "proceed") (v4Date d c))
  | ["timeparse", "compact", s] => do pure (toString (Time.parseCompact (← Bytes.ofHex s)))
  | ["timeparse", "ymd", s] => do pure (toString (Time.parseYMD (← Bytes.ofHex s)))
  | ["queryunescape", s] => do
    pure (match queryUnescape (← Bytes.ofHex s) with | none => "err" | some b => "ok " ++ hx b)
  | ["trimspace", s] => do pure (hx (trimSpace (← Bytes.ofHex s)))
  | ["aclparser", fixed, u] => do
    let fixed ← parseBool fixed
    let u ← Bytes.ofHex u
    pure (showChk (fun r => match r with
      | none => "refused"
      | some b => "bucket " ++ hx b) (decodeThenAclParser fixed u))
  | ["confined", src] => do
    pure (showChk toString (copySourceConfined (← Bytes.ofHex src)))
  | ["trailing", p, k] => do
    pure (showChk hx (trailingSlashFix (← Bytes.ofHex p) (← Bytes.ofHex k)))
  | ["bigdata", p] => do
    pure (showChk toString (bigDataHasKey (← Bytes.ofHex p)))
  | ["ownership", fixed, rules] => do
    let fixed ← parseBool fixed
    let rules ← parseHexList rules
    pure (showChk toString (putOwnershipControls fixed (fun r => ownershipValues.contains r) rules))
  | ["acp", fixed, grants, owner] => do
    let fixed ← parseBool fixed
    let grants ← parseGrants grants
    let owner ← if owner = "nil" then pure none else if owner = "noid" then pure (some none) else (fun b => some (some b)) <$> Bytes.ofHex owner
    pure (showChk toString (acpValidate fixed grants owner))
  | ["objacl", fixed, grants] => do
    let fixed ← parseBool fixed
    let grants ← parseGrants grants
    pure (showChk (fun r => match r with | none => "refused" | some n => s!"converted {n}") (putObjectAclGrants fixed grants))
  | ["select", fixed, p] => do
    let fixed ← parseBool fixed
    let p ← match p with
      | "nil" => pure none
      | "noenabled" => pure (some none)
      | "true" => pure (some (some true))
      | "false" => pure (some (some false))
      | _ => none
    pure (showChk toString (selectProgressEnabled fixed p))
  | ["lmu", fixed, uploads, kmi, mx, km, um] => do
    let fixed ← parseBool fixed
    let uploads ← parseUploads uploads
    let r := listMultipartUploadsPage fixed uploads (← kmi.toInt?) (← mx.toInt?) (← Bytes.ofHex km) (← Bytes.ofHex um)
    pure (showChk (fun p => s!"ok {showHexList (p.uploads.map (·.uploadId))} {p.truncated} {hx p.nextKey} {hx p.nextUploadId}") r)
  | ["listparts", parts, mx] => do
    let parts ← parseInts parts
    pure (showChk (fun r => s!"ok {if r.1.isEmpty then "." else ",".intercalate (r.1.map toString)} {r.2.1} {r.2.2}") (listPartsPage parts (← mx.toInt?)))
  | ["maxbuckets", q] => do
    pure (match maxBucketsOf (← Bytes.ofHex q) with | none => "invalid" | some n => toString n)
  | ["listbuckets", mx, token, names] => do
    let names ← parseHexList names
    pure (showChk (fun r => s!"ok {showHexList r.1} {hx r.2}") (listBucketsLoop (← mx.toInt?) (← Bytes.ofHex token) names []))
  | ["complete", parts, stored, minPart] => do
    let parts ← parseCParts parts
    let stored ← parseStored stored
    let look : Int → Option (Int × Bytes) := fun n => (stored.find? (fun e => e.1 = n)).map (·.2)
    pure (showChk (fun r => match r with
      | .ok t => s!"ok {t}"
      | .error .invalidPart => "err InvalidPart"
      | .error .invalidPartNumber => "err InvalidCompleteMpPartNumber"
      | .error .invalidPartOrder => "err InvalidPartOrder"
      | .error .entityTooSmall => "err EntityTooSmall") (completeParts look parts (← minPart.toInt?)))
  | ["verattr", st] => do
    pure (match versioningAttr (← Bytes.ofHex st) with
      | none => "refused"
      | some v => showChk (fun r => match r with | some true => "Enabled" | some false => "Suspended" | none => "none") (versioningOf v))
  | ["versioningof", v] => do
    pure (showChk (fun r => match r with | some true => "Enabled" | some false => "Suspended" | none => "none") (versioningOf (← Bytes.ofHex v)))
  | ["legalholdof", v] => do pure (showChk toString (legalHoldOf (← Bytes.ofHex v)))
  | ["chunksize", line] => do
    pure (match extractChunkSize (← Bytes.ofHex line) with | none => "malformed" | some n => toString n)
  | ["globmatch", p, sub] => do
    pure (if Vgw.Model.Glob.match (← Bytes.ofHex p) (← Bytes.ofHex sub) then "t" else "f")
  | ["chunksizeof", stream] => do
    let st ← Bytes.ofHex stream
    pure (match extractChunkSizeOf st with | none => "malformed" | some (n, r) => s!"{n} {st.length - r.length}")
  | ["chunkalloc", fixed, n, arrived] => do
    pure (showChk toString (chunkAlloc (← parseBool fixed) (← n.toInt?) (← arrived.toNat?)))
  | ["policyfirst", b] => do pure (showChk toString (policyFirstCharBad (← Bytes.ofHex b)))
  | ["walkroot", p] => do
    pure (showChk (fun r => match r with | none => "dot" | some b => hx b) (walkRoot (← Bytes.ofHex p)))
  | _ => none

end Vgw.Driver.Robust
