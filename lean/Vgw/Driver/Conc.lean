/-
  Line protocol of the concurrency model (stateless: one request line → one answer line).

  conc run   <strat> <rmode> <init> <reqs> <sched>   → `steps … | resp … | final …`
  conc enum  <strat> <rmode> <init> <reqs> <limit>   → `n=<count> <sched> <sched> …` (all interleavings of the
                                                        steps that touch the key; private steps ride along)
  conc lin   <init> <events>                         → ok | bad | unknown     (Spec.Register.linearizableB)
  conc judge <kind> <writes> <view>                  → ok | grey:<class> | bad:<class>[+<class>…]

  <strat> = otmp|mktemp|portable|otmp-old|mktemp-old, <rmode> = bypath|byfd
  <write> = <tag>.<len>.<attr>=<val>+<attr>=<val>…  (attrs `0` = none; names m<k> ctype cenc cdisp clang cache expires etag tags checksums)
  <init>  = `-` | <write>;  <reqs> = comma separated `P<write>` `M<write>` `D` `G` `H`;  <sched> = digits (request index per step)
  <events> = comma separated `<op>:<inv>:<ret|->:<res>`, op = W<v> | D | R, res = ok | missing | v<v> | garbled | -
  <view>  = the client's view of a read answer: `read(clen=N,body=T.D|-,short=0|1,etag=V|-,meta=…,hdrs=…,tags=C|-)`
          (tags: the value of the tag attribute = number of tags in the correspondence runs)
-/
import Vgw.Model.Conc
import Vgw.Spec.Register
namespace Vgw.Driver.Conc
open Vgw.Model.Conc

def attrName : Attr → String
  | .umeta k => s!"m{k}" | .ctype => "ctype" | .cenc => "cenc" | .cdisp => "cdisp" | .clang => "clang"
  | .cache => "cache" | .expires => "expires" | .etag => "etag" | .tags => "tags" | .checksums => "checksums"

def parseAttr (s : String) : Option Attr :=
  match s with
  | "ctype" => some .ctype | "cenc" => some .cenc | "cdisp" => some .cdisp | "clang" => some .clang
  | "cache" => some .cache | "expires" => some .expires | "etag" => some .etag | "tags" => some .tags
  | "checksums" => some .checksums
  | _ => if s.startsWith "m" then (s.drop 1).toString.toNat?.map .umeta else none

def parseAttrs (s : String) : Option (List (Attr × Val)) :=
  if s = "0" then some [] else
  (s.splitOn "+").mapM fun kv => match kv.splitOn "=" with
    | [k, v] => do pure ((← parseAttr k), (← v.toNat?))
    | _ => none

def parseWrite (s : String) : Option Write :=
  match s.splitOn "." with
  | [t, l, a] => do pure { blob := ⟨← t.toNat?, ← l.toNat?⟩, attrs := ← parseAttrs a }
  | _ => none

def parseReq (s : String) : Option Req :=
  if s = "D" then some { kind := .delete }
  else if s = "G" then some { kind := .get }
  else if s = "H" then some { kind := .head }
  else if s.startsWith "P" then (parseWrite (s.drop 1).toString).map fun w => { kind := .put, w := w }
  else if s.startsWith "C" then (parseWrite (s.drop 1).toString).map fun w => { kind := .copy, w := w }
  else if s.startsWith "M" then (parseWrite (s.drop 1).toString).map fun w => { kind := .mpu, w := w }
  else none

def parseStrat : String → Option Strategy
  | "otmp" => some .otmp | "mktemp" => some .mktemp | "portable" => some .portable
  | "otmp-old" => some .otmpOld | "mktemp-old" => some .mktempOld
  | _ => none

def parseMode : String → Option ReadMode
  | "bypath" => some .byPath | "byfd" => some .byFd
  | _ => none

def parseInit (s : String) : Option FS :=
  if s = "-" then some {} else (parseWrite s).map fun w => { inodes := [inodeOf w], key := some 0 }

def parseSched (s : String) : List Nat :=
  if s = "-" then [] else s.toList.filterMap fun c => if c.isDigit then some (c.toNat - '0'.toNat) else none

def showAct : Act → String
  | .wstat => "wstat" | .opentmp => "opentmp" | .setattr a v => s!"setattr.{attrName a}.{v}" | .unlink => "unlink"
  | .rmdirProbe => "rmdir" | .lstat => "lstat" | .linkat => "linkat" | .linkatx => "linkat" | .rename => "rename" | .linktmp => "linktmp"
  | .dstat => "dstat" | .dunlink => "dunlink" | .rstat => "rstat" | .listsize => "listsize" | .listnames => "listnames"
  | .getmeta k => s!"getmeta.m{k}" | .gethdr a => s!"gethdr.{attrName a}" | .getetag => "getetag" | .gettags => "gettags"
  | .ropen => "open" | .statign => "statign" | .cstat => "cstat"

def showOptNat : Option Nat → String
  | none => "-" | some n => toString n

def showKV (f : α → String) (l : List (α × Val)) : String :=
  if l.isEmpty then "0" else "+".intercalate (l.map fun p => s!"{f p.1}={p.2}")

/-- what the backend hands to the controller: Content-Length = `size` (from stat), `body` = tag and
    length of the opened inode. When the two lengths differ fasthttp's fixed-size body writer fails:
    the client gets no answer at all, or (bodies beyond the write buffer) the announced number of
    bytes of the opened file, or fewer — that part of the client's view is outside the model. -/
def showRead (r : ReadResp) : String :=
  let body := match r.body with
    | none => "-"
    | some b => s!"{b.tag}.{b.len}"
  let short := "0"
  s!"read(clen={r.size},body={body},short={short},etag={showOptNat r.etag},meta={showKV (fun k => s!"m{k}") r.umeta},hdrs={showKV attrName r.hdrs},tags={showOptNat r.tags})"

def showResp : Option Resp → String
  | none => "pending" | some .ok => "ok" | some .noSuchKey => "nokey" | some .err => "err" | some (.read r) => showRead r

def nextAct (s : State) (i : Nat) : Option Act :=
  match s.reqs[i]? with
  | some (_, l) => l.prog.head?
  | none => none

/-- the name of the step in the syscall vocabulary of the correspondence (what strace shows). -/
def projAct : Act → String
  | .wstat | .dstat | .rstat | .statign | .cstat => "stat"
  | .dunlink => "unlink"
  | .setattr a _ => s!"setattr.{attrName a}"
  | a => showAct a

/-- the errno class the step's syscall returns in the state `s` (before the step). -/
def resClass (c : Cfg) (s : State) (i : Nat) (a : Act) : String :=
  let l : Local := match s.reqs[i]? with | some (_, l) => l | none => { prog := [] }
  let t : Option Inode := (target c s.fs l).bind (s.fs.inodes[·]?)
  let byKey := if s.fs.key.isSome then "ok" else "enoent"
  let attr (a : Attr) := match t with
    | none => "enoent"
    | some ino => if (getAttr ino.attrs a).isSome then "ok" else "enodata"
  match a with
  | .wstat | .dstat | .statign | .lstat | .unlink | .dunlink | .ropen | .cstat => byKey
  | .rmdirProbe => if s.fs.key.isSome then "enotdir" else "enoent"
  | .linkat | .linkatx => if s.fs.key.isSome then "eexist" else "ok"
  | .rstat | .listsize | .gettags => (match t with | none => "enoent" | some ino => if a == .gettags then (if (getAttr ino.attrs .tags).isSome then "ok" else "enodata") else "ok")
  | .listnames => (match t with | none => "enoent" | some ino => if listLen ino.attrs > l.probe + 1 then "erange" else "ok")
  | .getmeta k => attr (.umeta k)
  | .gethdr h => attr h
  | .getetag => attr .etag
  | _ => "ok"

def showEv (e : Ev) (cls : String) : String :=
  s!"{e.rid}:{projAct e.act}:{cls}:{if e.fin then 1 else 0}"

/-- run a schedule, collecting the projected step list. -/
def runTrace (c : Cfg) (s : State) : List Nat → List String → State × List String
  | [], acc => (s, acc.reverse)
  | i :: sched, acc =>
    match nextAct s i, step c s i with
    | some a, some s' =>
      let cls := resClass c s i a
      runTrace c s' sched ((match s'.trace.head? with | some e => showEv e cls | none => "?") :: acc)
    | _, _ => runTrace c s sched acc

/-- steps that neither change the key's directory entry nor use what they see of it. -/
def Act.silent : Act → Bool
  | .wstat | .opentmp | .setattr _ _ | .rmdirProbe | .lstat | .linktmp | .statign => true
  | _ => false

/-- one macro step of request `i`: leading silent steps, one visible step, and — when only silent
    steps remain — those too. Returns the step-level schedule fragment. -/
def macroStep (c : Cfg) (fuel : Nat) (s : State) (i : Nat) (seenVisible : Bool) (acc : List Nat) : State × List Nat :=
  match fuel with
  | 0 => (s, acc)
  | fuel + 1 =>
    match nextAct s i with
    | none => (s, acc)
    | some a =>
      if Act.silent a then
        -- trailing silent steps are taken only if nothing visible follows
        if seenVisible && !(match s.reqs[i]? with | some (_, l) => l.prog.all Act.silent | none => true) then (s, acc)
        else match step c s i with
          | some s' => macroStep c fuel s' i seenVisible (i :: acc)
          | none => (s, acc)
      else if seenVisible then (s, acc)
      else match step c s i with
        | some s' => macroStep c fuel s' i true (i :: acc)
        | none => (s, acc)

/-- all maximal interleavings of macro steps (depth-first), at most `limit` of them. -/
def enum (c : Cfg) (fuel : Nat) (s : State) (pre : List Nat) (limit : Nat) (out : List (List Nat)) : List (List Nat) :=
  match fuel with
  | 0 => out
  | fuel + 1 =>
    let live := (List.range s.reqs.length).filter fun i => (nextAct s i).isSome
    if live.isEmpty then (pre.reverse :: out) else
    live.foldl (fun out i =>
      if out.length ≥ limit then out else
      let (s', frag) := macroStep c 64 s i false []
      enum c fuel s' (frag ++ pre) limit out) out

open Vgw.Spec.Register in
def parseEvent (s : String) : Option (Ev Nat) :=
  match s.splitOn ":" with
  | [op, inv, ret, res] => do
    let op ← if op = "D" then some Op.delete else if op = "R" then some (Op.read ())
             else if op.startsWith "W" then (op.drop 1).toString.toNat?.map Op.write else none
    let inv ← inv.toNat?
    let ret ← if ret = "-" then some none else ret.toNat?.map some
    let res ← if res = "ok" then some Res.ok else if res = "missing" then some Res.missing
              else if res = "garbled" || res = "-" then some Res.garbled
              else if res.startsWith "v" then (res.drop 1).toString.toNat?.map Res.value else none
    pure { op := op, inv := inv, ret := ret, res := res }
  | _ => none

/-- parse `k=v+k=v` (or `0`) into an association list of strings. -/
def parseKVs (s : String) : List (String × String) :=
  if s = "0" || s = "" then [] else
  (s.splitOn "+").filterMap fun kv => match kv.splitOn "=" with
    | [k, v] => some (k, v)
    | _ => none

def field (fs : List (String × String)) (k : String) : String := (fs.lookup k).getD ""

/-- split `read(a=…,b=…)` into fields. -/
def parseView (s : String) : Option (List (String × String)) :=
  if s.startsWith "read(" && s.endsWith ")" then
    let inner := ((s.drop 5).dropEnd 1).toString
    some ((inner.splitOn ",").filterMap fun kv =>
      match kv.splitOn "=" with
      | k :: rest => some (k, "=".intercalate rest)
      | _ => none)
  else none

/-- the single-write oracle on the client's view of one successful read.
    `writes`: the writes that were ever issued on the key (initial one included). -/
def judge (isHead : Bool) (writes : List Write) (view : String) : String :=
  match parseView view with
  | none => "bad:unparsable"
  | some fs =>
    let clen := (field fs "clen").toNat?.getD 0
    let etag := (field fs "etag").toNat?
    let metaS := field fs "meta"
    let hdrS := field fs "hdrs"
    let tagS := field fs "tags"
    -- the write the answer is attributed to: the body's for GET, the length's/ETag's for HEAD
    let base : Option Write :=
      if isHead then
        match etag with
        | some e => writes.find? fun w => getAttr (inodeOf w).attrs .etag = some e
        | none => writes.find? fun w => w.blob.len = clen
      else match (field fs "body").splitOn "." with
        | [t, _] => t.toNat?.bind fun t => writes.find? fun w => w.blob.tag = t
        | _ => none
    if isHead && etag.isNone then
      -- every object has an ETag: an answer without one is not the value of any write
      (if metaS = "0" && hdrS = "0" then "bad:etag-missing+metadata-missing" else "bad:etag-missing") else
    match base with
    | none => "bad:no-such-write"
    | some w =>
      if !isHead && field fs "short" = "1" then "grey:short-body" else
      let ino := inodeOf w
      let want := observe ino isHead
      let probs : List String := []
      let probs := match etag with
        | none => probs ++ ["etag-missing"]
        | some e => if want.etag = some e then probs else probs ++ ["etag-from-other-write"]
      let wantMeta := showKV (fun k => s!"m{k}") want.umeta
      let wantHdrs := showKV attrName want.hdrs
      let otherHas := writes.any fun w' =>
        let o := observe (inodeOf w') isHead
        w'.blob.tag != w.blob.tag && showKV (fun k => s!"m{k}") o.umeta = metaS && showKV attrName o.hdrs = hdrS
      let probs := if wantMeta = metaS && wantHdrs = hdrS then probs
        else if otherHas then probs ++ ["metadata-from-other-write"] else probs ++ ["metadata-missing"]
      -- the tag set (GET: x-amz-tagging-count; `-` = no tags) must be the one of the same write
      let wantTags := showOptNat want.tags
      let probs := if isHead || tagS = "" || tagS = wantTags then probs
        else if tagS = "-" then probs ++ ["tags-missing"] else probs ++ ["tags-from-other-write"]
      let probs :=
        if isHead then (if clen = w.blob.len then probs else probs ++ ["length-from-other-write"])
        else
          let d := match (field fs "body").splitOn "." with
            | [_, d] => d.toNat?.getD 0
            | _ => 0
          if clen = w.blob.len && d = w.blob.len then probs else probs ++ ["body-prefix"]
      if probs.isEmpty then "ok" else "bad:" ++ "+".intercalate probs

def handle : List String → Option String
  | ["variant"] => some (match codeVariant with | .old => "old" | .current => "current")
  | ["run", strat, mode, ini, reqs, sched] => do
    let c : Cfg := { strat := ← parseStrat strat, rmode := ← parseMode mode }
    let fs ← parseInit ini
    let rqs ← (reqs.splitOn ",").mapM parseReq
    let (s, tr) := runTrace c (init c fs rqs) (parseSched sched) []
    let steps := " ".intercalate tr
    let resps := " ".intercalate ((List.range rqs.length).map fun i => showResp (s.resp i))
    let fin := match s.fs.cur with
      | some ino => showRead (observe ino false)
      | none => "nokey"
    pure s!"steps {steps} | resp {resps} | final {fin}"
  | ["enum", strat, mode, ini, reqs, limit] => do
    let c : Cfg := { strat := ← parseStrat strat, rmode := ← parseMode mode }
    let fs ← parseInit ini
    let rqs ← (reqs.splitOn ",").mapM parseReq
    let limit ← limit.toNat?
    let all := (enum c 400 (init c fs rqs) [] limit []).reverse
    pure (s!"n={all.length} " ++ " ".intercalate (all.map fun sc => String.ofList (sc.map fun i => Char.ofNat (i + '0'.toNat))))
  | ["lin", ini, evs] => do
    let ini ← if ini = "-" then some none else ini.toNat?.map some
    let evs ← if evs = "-" then some [] else (evs.splitOn ",").mapM parseEvent
    pure (match Vgw.Spec.Register.linearizableB ini evs with
      | some true => "ok" | some false => "bad" | none => "unknown")
  | ["judge", kind, writes, view] => do
    let ws ← (writes.splitOn ",").mapM parseWrite
    pure (judge (kind = "H") ws view)
  | _ => none

end Vgw.Driver.Conc
