import Vgw.Spec.Range
namespace Vgw.Driver.Range
open Vgw Vgw.Model.Range Vgw.Spec.Range

def showResp (r : Resp) : String :=
  let cr := match r.contentRange with
    | none => "-"
    | some (a, b, s) => s!"{a}:{b}:{s}"
  s!"{r.status} {r.bodyOff} {r.bodyLen} {r.contentLength} {cr}"

def parseCR (s : String) : Option (Option (Int × Int × Int)) :=
  if s = "-" then some none else
  match s.splitOn ":" with
  | [a, b, c] => match a.toInt?, b.toInt?, c.toInt? with
    | some a, some b, some c => some (some (a, b, c))
    | _, _, _ => none
  | _ => none

/-- `range model <size> <hexhdr>`            → model's response
    `range oracle <size> <hexhdr> <status> <off> <len> <clen> <cr>` → ok | bad
    `range selfcheck <size> <hexhdr>`        → ok iff the oracle admits the model's own answer -/
def handle : List String → Option String
  | ["parse", size, hdr] => do
    let size ← size.toInt?
    let hdr ← Bytes.ofHex hdr
    let p := parseGetObjectRange size hdr
    pure s!"{p.start} {p.length} {p.valid} {p.err}"
  | ["model", size, hdr] => do
    let size ← size.toInt?
    let hdr ← Bytes.ofHex hdr
    pure (showResp (respond size hdr))
  | ["selfcheck", size, hdr] => do
    let size ← size.toInt?
    let hdr ← Bytes.ofHex hdr
    pure (if admissibleB size hdr (respond size hdr) then "ok" else "bad")
  | ["oracle", size, hdr, st, off, len, clen, cr] => do
    let size ← size.toInt?
    let hdr ← Bytes.ofHex hdr
    let st ← st.toNat?
    let off ← off.toInt?
    let len ← len.toInt?
    let clen ← clen.toInt?
    let cr ← parseCR cr
    pure (if admissibleB size hdr ⟨st, off, len, clen, cr⟩ then "ok" else "bad")
  | _ => none

end Vgw.Driver.Range
