import Vgw.Spec.Policy
/-
  Line protocol for C14.

  bytes  : hex, `-` = empty                      list : `_` = empty, else bytes joined by `,`
  stmt   : `<effect>:<principals>:<actions>:<resources>`       policy : `_` or stmts joined by `|`
  field  : `m` (absent) | `b` (wrong JSON type) | `s<bytes>` | `a<list>`
  rawstmt: `<field>:<field>:<field>:<field>` (effect, principal, action, resource)
  rawdoc : `badjson` | `nostmt` | `d` followed by rawstmts joined by `|` (`d` = empty Statement array)
  answers: booleans as `t`/`f`; model first, spec second.
-/
namespace Vgw.Driver.Policy
open Vgw Vgw.Model.Policy Vgw.Spec.Policy

def tf (b : Bool) : String := if b then "t" else "f"

def parseList (s : String) : Option (List Bytes) :=
  if s = "_" then some [] else (s.splitOn ",").mapM Bytes.ofHex

def showList (l : List Bytes) : String :=
  if l.isEmpty then "_" else ",".intercalate (l.map Bytes.toHexArg)

def parseStmt (s : String) : Option Stmt :=
  match s.splitOn ":" with
  | [e, p, a, r] => do
    pure ⟨← Bytes.ofHex e, ← parseList p, ← parseList a, ← parseList r⟩
  | _ => none

def parsePolicy (s : String) : Option Policy :=
  if s = "_" then some [] else (s.splitOn "|").mapM parseStmt

def showPolicy (p : Policy) : String :=
  if p.isEmpty then "_" else
  "|".intercalate (p.map fun st =>
    s!"{Bytes.toHexArg st.effect}:{showList st.principals}:{showList st.actions}:{showList st.resources}")

def parseField (s : String) : Option Field :=
  if s = "m" then some .missing
  else if s = "b" then some .bad
  else match s.toList with
    | 's' :: rest => (Bytes.ofHex (String.ofList rest)).map .str
    | 'a' :: rest => (parseList (String.ofList rest)).map .arr
    | _ => none

def parseRawStmt (s : String) : Option RawStmt :=
  match s.splitOn ":" with
  | [e, p, a, r] => do pure ⟨← parseField e, ← parseField p, ← parseField a, ← parseField r⟩
  | _ => none

def parseRawDoc (s : String) : Option RawDoc :=
  if s = "badjson" then some .badJson
  else if s = "nostmt" then some .noStatement
  else match s.toList with
    | ['d'] => some (.stmts [])
    | 'd' :: rest => ((String.ofList rest).splitOn "|").mapM parseRawStmt |>.map .stmts
    | _ => none

def showErr : VErr → String
  | .invalidEffect => "invalidEffect" | .invalidPrincipal => "invalidPrincipal"
  | .invalidResource => "invalidResource" | .resourceMismatch => "resourceMismatch"
  | .invalidAction => "invalidAction" | .invalidJson => "invalidJson"
  | .emptyStatement => "emptyStatement" | .missingStatement => "missingStatement" | .panic => "panic"
  | .missingPrincipal => "missingPrincipal" | .missingAction => "missingAction"
  | .missingResource => "missingResource"

def showRes : Except VErr Unit → String
  | .ok _ => "ok"
  | .error e => showErr e

def showVerdict : Verdict → String
  | .accept => "accept" | .refuse => "refuse" | .grey => "grey"

def showKind : Kind → String
  | .all => "all" | .object => "object" | .bucket => "bucket" | .panic => "panic"

def acctOf (l : List Bytes) : Bytes → Bool := fun a => l.contains a

/-- all strings over `alpha` of length exactly `n`, lexicographic by alphabet position -/
def wordsOfLen (alpha : List UInt8) : Nat → List Bytes
  | 0 => [[]]
  | n + 1 => alpha.flatMap fun c => (wordsOfLen alpha n).map (c :: ·)

/-- all strings of length ≤ n: by length, then lexicographic -/
def wordsUpTo (alpha : List UInt8) (n : Nat) : List Bytes :=
  (List.range (n + 1)).flatMap (wordsOfLen alpha)

def globHandle : List String → Option String
  | ["m", p, s] => do
    let p ← Bytes.ofHex p
    let s ← Bytes.ofHex s
    pure (tf (Model.Glob.match p s) ++ tf (Spec.Glob.G p s))
  | ["row", p, alpha, n] => do
    let p ← Bytes.ofHex p
    let alpha ← Bytes.ofHex alpha
    let n ← n.toNat?
    let cs := (wordsUpTo alpha n).map fun s =>
      match Model.Glob.match p s, Spec.Glob.G p s with
      | false, false => '0' | true, false => '1' | false, true => '2' | true, true => '3'
    pure (String.ofList cs)
  | _ => none

def handle : List String → Option String
  | ["action", acts, act] => do
    let acts ← parseList acts
    let act ← Bytes.ofHex act
    pure (tf (actionsFindMatch acts act) ++ tf (actionHitB acts act))
  | ["principal", ps, who] => do
    let ps ← parseList ps
    let who ← Bytes.ofHex who
    pure (tf (principalsContains ps who) ++ tf (principalHitB ps who))
  | ["resource", rs, res] => do
    let rs ← parseList rs
    let res ← Bytes.ofHex res
    pure (tf (resourcesFindMatch rs res) ++ tf (resourceHitB rs res))
  | ["eval", pol, who, act, res] => do
    let pol ← parsePolicy pol
    let who ← Bytes.ofHex who
    let act ← Bytes.ofHex act
    let res ← Bytes.ofHex res
    pure (tf (isAllowed pol who act res) ++ tf (allowsB pol who act res))
  | ["verify", pol, who, bucket, object, act] => do
    let pol ← parsePolicy pol
    let who ← Bytes.ofHex who
    let bucket ← Bytes.ofHex bucket
    let object ← Bytes.ofHex object
    let act ← Bytes.ofHex act
    pure (tf (verify pol who bucket object act) ++ tf (allowsB pol who act (requestResource bucket object)))
  | ["validate", bucket, accts, doc] => do
    let bucket ← Bytes.ofHex bucket
    let accts ← parseList accts
    let doc ← parseRawDoc doc
    -- the map order is irrelevant (Props.C14.validate_order_independent): one order suffices
    pure s!"{showRes (validateDocument id bucket (acctOf accts) doc)} {showVerdict (verdict bucket (acctOf accts) doc)}"
  | ["validated", bucket, accts, pol] => do
    let bucket ← Bytes.ofHex bucket
    let accts ← parseList accts
    let pol ← parsePolicy pol
    pure (showRes (validatePolicy bucket (acctOf accts) pol))
  | ["decode", doc] => do
    let doc ← parseRawDoc doc
    pure (match decodeDoc doc with
      | .ok pol => "ok " ++ showPolicy pol
      | .error e => "err " ++ showErr e)
  | ["actionvalid", a] => do
    let a ← Bytes.ofHex a
    pure (tf (actionIsValid a) ++ " " ++ showKind (actionKind a))
  | ["resourcevalid", r] => do
    let r ← Bytes.ofHex r
    pure (match isValidResource r with
      | none => "none"
      | some p => "some " ++ Bytes.toHexArg p)
  | _ => none

end Vgw.Driver.Policy
