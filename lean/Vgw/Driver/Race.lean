/-
  Driver for Model.BucketRace: `race outcomes` lists every (upload outcome, delete outcome) pair that the
  repaired model reaches for one DeleteBucket racing one upload, over all schedules.
-/
import Vgw.Model.BucketRace
namespace Vgw.Driver.Race
open Vgw.Model.BucketRace

def showOut : Outcome → String
  | .running => "running" | .ok => "ok" | .noSuchBucket => "nosuchbucket" | .notEmpty => "notempty" | .exists_ => "exists"

/-- all interleavings of `a` steps of request 0 and `b` steps of request 1 -/
def schedules : Nat → Nat → List (List Nat)
  | 0, 0 => [[]]
  | a + 1, 0 => (schedules a 0).map (0 :: ·)
  | 0, b + 1 => (schedules 0 b).map (1 :: ·)
  | a + 1, b + 1 => (schedules a (b + 1)).map (0 :: ·) ++ (schedules (a + 1) b).map (1 :: ·)

def outcomes (v : Variant) : List String :=
  let s : Sys := { fs := {}, reqs := [.delete 0 .running, .upload 7 0 .running] }
  let outs := (schedules 3 3).map fun sch =>
    let e := run v s sch
    match e.reqs with
    | [d, u] => s!"{showOut u.out}/{showOut d.out}"
    | _ => "?"
  outs.eraseDups

def handle : List String → Option String
  | ["outcomes"] => some (" ".intercalate (outcomes .repaired))
  | ["outcomes-pinned"] => some (" ".intercalate (outcomes .pinned))
  | _ => none

end Vgw.Driver.Race
