/-
  CRC-32 (IEEE 802.3, reflected polynomial 0xEDB88320) as computed by Go's hash/crc32 with
  `crc32.NewIEEE()`; `crc32Sum` is `hash.Sum(nil)` (big-endian 4 bytes).  Executable instance of the
  trailing-checksum parameter; differential-tested against Go by the C12 harness.  Core-only.
-/
import Vgw.Go.Bytes
namespace Vgw.Hash

def crc32Step (crc : UInt32) (b : UInt8) : UInt32 := Id.run do
  let mut c := crc ^^^ b.toUInt32
  for _ in [0:8] do
    c := if c &&& 1 == 1 then (c >>> 1) ^^^ 0xEDB88320 else c >>> 1
  return c

def crc32 (msg : Bytes) : UInt32 := (msg.foldl crc32Step 0xFFFFFFFF) ^^^ 0xFFFFFFFF

def crc32Sum (msg : Bytes) : Bytes :=
  let x := crc32 msg
  [(x >>> 24).toUInt8, (x >>> 16).toUInt8, (x >>> 8).toUInt8, x.toUInt8]

end Vgw.Hash
