/-
  SHA-256 and HMAC-SHA256 (FIPS 180-4 / RFC 2104), executable instances of the hash parameters of
  the chunk-reader models.  Only the DRIVER uses them (the theorems quantify over all hash
  functions); differential-tested against Go's crypto/sha256 and crypto/hmac by the C12 harness.
  Core-only.
-/
import Vgw.Go.Bytes
namespace Vgw.Hash

def sha256K : Array UInt32 := #[
  0x428a2f98, 0x71374491, 0xb5c0fbcf, 0xe9b5dba5, 0x3956c25b, 0x59f111f1, 0x923f82a4, 0xab1c5ed5,
  0xd807aa98, 0x12835b01, 0x243185be, 0x550c7dc3, 0x72be5d74, 0x80deb1fe, 0x9bdc06a7, 0xc19bf174,
  0xe49b69c1, 0xefbe4786, 0x0fc19dc6, 0x240ca1cc, 0x2de92c6f, 0x4a7484aa, 0x5cb0a9dc, 0x76f988da,
  0x983e5152, 0xa831c66d, 0xb00327c8, 0xbf597fc7, 0xc6e00bf3, 0xd5a79147, 0x06ca6351, 0x14292967,
  0x27b70a85, 0x2e1b2138, 0x4d2c6dfc, 0x53380d13, 0x650a7354, 0x766a0abb, 0x81c2c92e, 0x92722c85,
  0xa2bfe8a1, 0xa81a664b, 0xc24b8b70, 0xc76c51a3, 0xd192e819, 0xd6990624, 0xf40e3585, 0x106aa070,
  0x19a4c116, 0x1e376c08, 0x2748774c, 0x34b0bcb5, 0x391c0cb3, 0x4ed8aa4a, 0x5b9cca4f, 0x682e6ff3,
  0x748f82ee, 0x78a5636f, 0x84c87814, 0x8cc70208, 0x90befffa, 0xa4506ceb, 0xbef9a3f7, 0xc67178f2]

def sha256Init : Array UInt32 := #[
  0x6a09e667, 0xbb67ae85, 0x3c6ef372, 0xa54ff53a, 0x510e527f, 0x9b05688c, 0x1f83d9ab, 0x5be0cd19]

@[inline] def rotr (x : UInt32) (n : UInt32) : UInt32 := (x >>> n) ||| (x <<< (32 - n))

/-- big-endian word `i` of a 64-byte block starting at `off` -/
@[inline] def beWord (b : ByteArray) (off : Nat) : UInt32 :=
  (b.get! off).toUInt32 <<< 24 ||| (b.get! (off + 1)).toUInt32 <<< 16 |||
  (b.get! (off + 2)).toUInt32 <<< 8 ||| (b.get! (off + 3)).toUInt32

def schedule (b : ByteArray) (off : Nat) : Array UInt32 := Id.run do
  let mut w : Array UInt32 := Array.mkEmpty 64
  for i in [0:16] do
    w := w.push (beWord b (off + 4 * i))
  for i in [16:64] do
    let w15 := w[i - 15]!
    let w2 := w[i - 2]!
    let s0 := rotr w15 7 ^^^ rotr w15 18 ^^^ (w15 >>> 3)
    let s1 := rotr w2 17 ^^^ rotr w2 19 ^^^ (w2 >>> 10)
    w := w.push (w[i - 16]! + s0 + w[i - 7]! + s1)
  return w

def compress (h : Array UInt32) (b : ByteArray) (off : Nat) : Array UInt32 := Id.run do
  let w := schedule b off
  let mut a := h[0]!; let mut bb := h[1]!; let mut c := h[2]!; let mut d := h[3]!
  let mut e := h[4]!; let mut f := h[5]!; let mut g := h[6]!; let mut hh := h[7]!
  for i in [0:64] do
    let s1 := rotr e 6 ^^^ rotr e 11 ^^^ rotr e 25
    let ch := (e &&& f) ^^^ ((~~~ e) &&& g)
    let t1 := hh + s1 + ch + sha256K[i]! + w[i]!
    let s0 := rotr a 2 ^^^ rotr a 13 ^^^ rotr a 22
    let maj := (a &&& bb) ^^^ (a &&& c) ^^^ (bb &&& c)
    let t2 := s0 + maj
    hh := g; g := f; f := e; e := d + t1; d := c; c := bb; bb := a; a := t1 + t2
  return #[h[0]! + a, h[1]! + bb, h[2]! + c, h[3]! + d, h[4]! + e, h[5]! + f, h[6]! + g, h[7]! + hh]

def sha256Pad (msg : ByteArray) : ByteArray := Id.run do
  let len := msg.size
  let mut b := msg.push 0x80
  let zeros := (119 - len % 64) % 64          -- so that (len + 1 + zeros) % 64 = 56
  for _ in [0:zeros] do
    b := b.push 0
  let bits := len * 8
  for i in [0:8] do
    b := b.push (UInt8.ofNat ((bits >>> (8 * (7 - i))) % 256))
  return b

def sha256Arr (msg : ByteArray) : ByteArray := Id.run do
  let b := sha256Pad msg
  let mut h := sha256Init
  for i in [0:b.size / 64] do
    h := compress h b (64 * i)
  let mut out := ByteArray.emptyWithCapacity 32
  for x in h do
    out := out.push (x >>> 24).toUInt8
    out := out.push (x >>> 16).toUInt8
    out := out.push (x >>> 8).toUInt8
    out := out.push x.toUInt8
  return out

/-- SHA-256 digest (32 raw bytes). -/
def sha256 (msg : Bytes) : Bytes := (sha256Arr ⟨msg.toArray⟩).toList

/-- HMAC-SHA256 (32 raw bytes). -/
def hmacSha256 (key msg : Bytes) : Bytes :=
  let k := if key.length > 64 then sha256 key else key
  let k := k ++ List.replicate (64 - k.length) (0 : UInt8)
  let ipad := k.map (· ^^^ 0x36)
  let opad := k.map (· ^^^ 0x5c)
  sha256 (opad ++ sha256 (ipad ++ msg))

end Vgw.Hash
