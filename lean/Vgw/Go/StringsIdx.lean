/-
  More of Go's package `strings`, in the index-returning forms the request-path code uses:
  LastIndex (−1 = absent), Cut / SplitN(…, 2) with a one-byte separator, TrimSpace.  Core-only.
-/
import Vgw.Go.Bytes
namespace Vgw.Go

/-- `strings.LastIndex(s, needle)`; −1 when absent (`needle = ""` ↦ `len(s)`). -/
def lastIndexOf (needle : Bytes) : Bytes → Int
  | [] => if needle = [] then 0 else -1
  | c :: s =>
    let r := lastIndexOf needle s
    if 0 ≤ r then r + 1 else if needle.isPrefixOf (c :: s) then 0 else -1

/-- `strings.Cut(s, string(sep))` -/
def cutByte (sep : UInt8) : Bytes → Option (Bytes × Bytes)
  | [] => none
  | c :: s =>
    if c = sep then some ([], s)
    else match cutByte sep s with
      | some (a, b) => some (c :: a, b)
      | none => none

/-- `strings.SplitN(s, string(sep), 2)` -/
def splitN2 (sep : UInt8) (s : Bytes) : List Bytes :=
  match cutByte sep s with
  | some (a, b) => [a, b]
  | none => [s]

/-- ASCII white space of `unicode.IsSpace`: \t \n \v \f \r and space -/
def isAsciiSpace (c : UInt8) : Bool := (9 ≤ c && c ≤ 13) || c == 32

/-- UTF-8 encodings of the non-ASCII runes with `unicode.IsSpace`:
U+0085, U+00A0, U+1680, U+2000–U+200A, U+2028, U+2029, U+202F, U+205F, U+3000 -/
def uniSpaces : List Bytes :=
  [[0xC2, 0x85], [0xC2, 0xA0], [0xE1, 0x9A, 0x80],
   [0xE2, 0x80, 0x80], [0xE2, 0x80, 0x81], [0xE2, 0x80, 0x82], [0xE2, 0x80, 0x83], [0xE2, 0x80, 0x84],
   [0xE2, 0x80, 0x85], [0xE2, 0x80, 0x86], [0xE2, 0x80, 0x87], [0xE2, 0x80, 0x88], [0xE2, 0x80, 0x89],
   [0xE2, 0x80, 0x8A], [0xE2, 0x80, 0xA8], [0xE2, 0x80, 0xA9], [0xE2, 0x80, 0xAF], [0xE2, 0x81, 0x9F],
   [0xE3, 0x80, 0x80]]

/-- length of the white-space rune `s` starts with (0 = none) -/
def spacePrefixLen (s : Bytes) : Nat :=
  match s with
  | [] => 0
  | c :: _ =>
    if isAsciiSpace c then 1
    else match uniSpaces.find? (fun u => u.isPrefixOf s) with
      | some u => u.length
      | none => 0

def trimLeftFuel : Nat → Bytes → Bytes
  | 0, s => s
  | f + 1, s =>
    let n := spacePrefixLen s
    if n = 0 then s else trimLeftFuel f (s.drop n)

/-- `strings.TrimLeftFunc(s, unicode.IsSpace)` -/
def trimLeft (s : Bytes) : Bytes := trimLeftFuel s.length s

/-- length of the white-space rune `s` ends with (0 = none); argument is the REVERSED string -/
def spaceSuffixLenRev (r : Bytes) : Nat :=
  match r with
  | [] => 0
  | c :: _ =>
    if isAsciiSpace c then 1
    else match uniSpaces.find? (fun u => u.reverse.isPrefixOf r) with
      | some u => u.length
      | none => 0

def trimRightFuel : Nat → Bytes → Bytes
  | 0, r => r
  | f + 1, r =>
    let n := spaceSuffixLenRev r
    if n = 0 then r else trimRightFuel f (r.drop n)

/-- `strings.TrimSpace(s)` -/
def trimSpace (s : Bytes) : Bytes :=
  let l := trimLeft s
  (trimRightFuel l.length l.reverse).reverse

theorem cutByte_lengths (sep : UInt8) : ∀ (s a b : Bytes), cutByte sep s = some (a, b) →
    a.length + 1 + b.length = s.length := by
  intro s
  induction s with
  | nil => intro a b h; simp [cutByte] at h
  | cons c s ih =>
    intro a b h
    unfold cutByte at h
    split at h
    · simp at h; obtain ⟨rfl, rfl⟩ := h; simp; omega
    · cases hc : cutByte sep s with
      | none => simp [hc] at h
      | some p =>
        obtain ⟨a', b'⟩ := p
        simp [hc] at h
        obtain ⟨rfl, rfl⟩ := h
        have := ih a' b' hc
        simp; omega

theorem splitN2_length (sep : UInt8) (s : Bytes) : (splitN2 sep s).length = 1 ∨ (splitN2 sep s).length = 2 := by
  unfold splitN2; split <;> simp

/-- an occurrence found by LastIndex fits into the string -/
theorem lastIndexOf_bound (needle : Bytes) : ∀ s : Bytes, 0 ≤ lastIndexOf needle s →
    lastIndexOf needle s + needle.length ≤ s.length := by
  intro s
  induction s with
  | nil =>
    intro h
    unfold lastIndexOf at h ⊢
    split <;> simp_all
  | cons c s ih =>
    intro h
    unfold lastIndexOf at h ⊢
    simp only at h ⊢
    split
    · rename_i hr
      have := ih hr
      simp; omega
    · rename_i hr
      rw [if_neg hr] at h
      split
      · rename_i hp
        have : needle <+: (c :: s) := List.isPrefixOf_iff_prefix.mp hp
        have := this.length_le
        simp at this ⊢; omega
      · rename_i hp
        rw [if_neg hp] at h
        omega

theorem lastIndexOf_ge (needle s : Bytes) : -1 ≤ lastIndexOf needle s := by
  induction s with
  | nil => unfold lastIndexOf; split <;> simp
  | cons c s ih =>
    unfold lastIndexOf
    simp only
    split
    · omega
    · split <;> simp

end Vgw.Go
