/-
  strconv.ParseInt(s, 10, 64) as used by the range parsers, and strconv.Itoa-style
  decimal rendering.  Core-only.
-/
import Vgw.Go.Bytes
namespace Vgw

def isDigit (c : UInt8) : Bool := 48 ≤ c && c ≤ 57

/-- value of a digit string, `none` on the first non-digit. -/
def digitsVal : Bytes → Nat → Option Nat
  | [], acc => some acc
  | c :: cs, acc => if isDigit c then digitsVal cs (acc * 10 + (c.toNat - 48)) else none

/-- non-empty decimal digit string → its value (unbounded). -/
def parseDigits (s : Bytes) : Option Nat :=
  match s with
  | [] => none
  | _ :: _ => digitsVal s 0

def int64Max : Int := 9223372036854775807

/-- `strconv.ParseInt(s, 10, 64)`: optional sign, at least one digit, digits only (base 10 given
explicitly: no underscores), error when outside the int64 range. `none` = any error. -/
def parseInt64 (s : Bytes) : Option Int :=
  match s with
  | [] => none
  | c :: rest =>
    if c = 43 then
      match parseDigits rest with
      | some n => if (n : Int) ≤ int64Max then some n else none
      | none => none
    else if c = 45 then
      match parseDigits rest with
      | some n => if (n : Int) ≤ int64Max + 1 then some (-(n : Int)) else none
      | none => none
    else
      match parseDigits s with
      | some n => if (n : Int) ≤ int64Max then some n else none
      | none => none

def natToDec (n : Nat) : Bytes := (toString n).toUTF8.toList
def intToDec (i : Int) : Bytes := (toString i).toUTF8.toList

end Vgw
