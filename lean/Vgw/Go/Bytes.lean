/-
  Go `string` / `[]byte` as `List UInt8`, and the fragments of package `strings`
  that the modelled code uses.  Core-only (no Mathlib): the driver links this.
-/
namespace Vgw

abbrev Bytes := List UInt8

namespace Bytes

/-- ASCII literal → bytes (used for constants such as "s3:GetObject"; reducible by `decide`).
Only meaningful for ASCII strings. -/
def ofString (s : String) : Bytes := s.toList.map fun c => c.toNat.toUInt8

def hexDigit (n : Nat) : Char :=
  if n < 10 then Char.ofNat (48 + n) else Char.ofNat (87 + n)

def toHex (b : Bytes) : String :=
  String.ofList (b.flatMap fun c => [hexDigit (c.toNat / 16), hexDigit (c.toNat % 16)])

def hexVal (c : Char) : Option Nat :=
  if '0' ≤ c ∧ c ≤ '9' then some (c.toNat - 48)
  else if 'a' ≤ c ∧ c ≤ 'f' then some (c.toNat - 87)
  else if 'A' ≤ c ∧ c ≤ 'F' then some (c.toNat - 55)
  else none

def ofHexAux : List Char → Option Bytes
  | [] => some []
  | a :: b :: rest =>
    match hexVal a, hexVal b, ofHexAux rest with
    | some x, some y, some r => some (UInt8.ofNat (x * 16 + y) :: r)
    | _, _, _ => none
  | [_] => none

/-- "-" encodes the empty string in the line protocol. -/
def ofHex (s : String) : Option Bytes :=
  if s = "-" then some [] else ofHexAux s.toList

def toHexArg (b : Bytes) : String := if b.isEmpty then "-" else toHex b

end Bytes

/-! ### strings.Split with a one-byte separator

`strings.Split(s, sep)` with `len(sep) = 1` returns the (always non-empty) list of
fields between occurrences of `sep`. -/

def splitOn (sep : UInt8) : Bytes → List Bytes
  | [] => [[]]
  | c :: cs =>
    if c = sep then [] :: splitOn sep cs
    else match splitOn sep cs with
      | [] => [[c]]          -- unreachable (splitOn is never empty); kept total
      | f :: fs => (c :: f) :: fs

def joinWith (sep : UInt8) : List Bytes → Bytes
  | [] => []
  | [f] => f
  | f :: g :: fs => f ++ sep :: joinWith sep (g :: fs)

theorem splitOn_ne_nil (sep : UInt8) (s : Bytes) : splitOn sep s ≠ [] := by
  induction s with
  | nil => simp [splitOn]
  | cons c cs ih =>
    unfold splitOn
    split
    · simp
    · split
      · contradiction
      · simp

theorem join_splitOn (sep : UInt8) (s : Bytes) : joinWith sep (splitOn sep s) = s := by
  induction s with
  | nil => simp [splitOn, joinWith]
  | cons c cs ih =>
    unfold splitOn
    split
    · rename_i h
      cases hs : splitOn sep cs with
      | nil => exact absurd hs (splitOn_ne_nil sep cs)
      | cons f fs =>
        rw [hs] at ih
        simp [joinWith, ih, h]
    · cases hs : splitOn sep cs with
      | nil => exact absurd hs (splitOn_ne_nil sep cs)
      | cons f fs =>
        rw [hs] at ih
        cases fs with
        | nil => simp [joinWith] at ih ⊢; exact ih
        | cons g gs => simp [joinWith] at ih ⊢; exact ih

/-- No field produced by `splitOn sep` contains `sep`. -/
theorem splitOn_no_sep (sep : UInt8) (s : Bytes) : ∀ f ∈ splitOn sep s, sep ∉ f := by
  induction s with
  | nil => simp [splitOn]
  | cons c cs ih =>
    unfold splitOn
    split
    · intro f hf
      simp at hf
      rcases hf with rfl | hf
      · simp
      · exact ih f hf
    · rename_i hne
      cases hs : splitOn sep cs with
      | nil => exact absurd hs (splitOn_ne_nil sep cs)
      | cons g gs =>
        rw [hs] at ih
        intro f hf
        simp at hf
        rcases hf with rfl | hf
        · have := ih g (by simp)
          simp
          exact ⟨fun h => hne h.symm, this⟩
        · exact ih f (by simp [hf])

/-- Splitting a separator-free string gives that string alone. -/
theorem splitOn_of_not_mem (sep : UInt8) (s : Bytes) (h : sep ∉ s) : splitOn sep s = [s] := by
  induction s with
  | nil => simp [splitOn]
  | cons c cs ih =>
    simp at h
    unfold splitOn
    rw [if_neg (fun e => h.1 e.symm), ih h.2]

theorem splitOn_cons_ne (sep c : UInt8) (cs f : Bytes) (fs : List Bytes) (h : c ≠ sep)
    (hs : splitOn sep cs = f :: fs) : splitOn sep (c :: cs) = (c :: f) :: fs := by
  rw [splitOn, if_neg h, hs]

theorem splitOn_append (sep : UInt8) (a b : Bytes) (h : sep ∉ a) :
    splitOn sep (a ++ sep :: b) = a :: splitOn sep b := by
  induction a with
  | nil => simp [splitOn]
  | cons c cs ih =>
    simp at h
    exact splitOn_cons_ne sep c _ cs _ (fun e => h.1 e.symm) (ih h.2)

end Vgw
