/-
  Fragments of Go's string semantics used by `backend.Walk`: bytewise comparison (`<` on
  strings), strings.HasPrefix / TrimPrefix / Cut / Contains / LastIndex, sort.Strings.
  Core-only (the driver links this).
-/
import Vgw.Go.Bytes
namespace Vgw

/-- Go's `a < b` on strings: bytewise lexicographic. -/
def blt : Bytes → Bytes → Bool
  | _, [] => false
  | [], _ :: _ => true
  | a :: as, b :: bs => if a < b then true else if a = b then blt as bs else false

/-- Go's `a <= b` on strings. -/
def ble (a b : Bytes) : Bool := !blt b a

/-- strings.HasPrefix(s, p) -/
def hasPrefix (s p : Bytes) : Bool := p.isPrefixOf s

/-- strings.TrimPrefix(s, p) -/
def trimPrefix (s p : Bytes) : Bytes := if hasPrefix s p then s.drop p.length else s

/-- strings.Cut(s, sep): `some before` when `sep` occurs in `s` (first occurrence), else `none`.
(`sep = ""` is found at index 0, as in Go.) -/
def cut (sep : Bytes) : Bytes → Option Bytes
  | [] => if sep = [] then some [] else none
  | c :: s => if sep.isPrefixOf (c :: s) then some [] else (cut sep s).map (c :: ·)

/-- strings.Contains(s, sep) -/
def containsSub (s sep : Bytes) : Bool := (cut sep s).isSome

/-- strings.LastIndex(s, string(c)) (`none` = -1) -/
def lastIndexByte (c : UInt8) : Bytes → Option Nat
  | [] => none
  | x :: xs =>
    match lastIndexByte c xs with
    | some i => some (i + 1)
    | none => if x = c then some 0 else none

/-- insertion into a `blt`-sorted duplicate-free list (no effect when already present) -/
def insertSorted (x : Bytes) : List Bytes → List Bytes
  | [] => [x]
  | y :: ys => if blt x y then x :: y :: ys else if x = y then y :: ys else y :: insertSorted x ys

/-- sort.Strings on a set of strings (duplicates collapse) -/
def sortDedup (l : List Bytes) : List Bytes := l.foldr insertSorted []

end Vgw
