/-
  path/filepath.Clean and Join (Unix) as used by the posix backend, lexically, over `Bytes`.
  Core-only.
-/
import Vgw.Go.Bytes
namespace Vgw.Go.Path
open Vgw

def dot : Bytes := [46]
def dotdot : Bytes := [46, 46]

/-- the element loop of filepath.Clean: `out` is the stack of kept elements (top first) -/
def cleanSegs (rooted : Bool) : List Bytes → List Bytes → List Bytes
  | [], out => out.reverse
  | s :: rest, out =>
    if s = [] ∨ s = dot then cleanSegs rooted rest out
    else if s = dotdot then
      match out with
      | o :: os => if o = dotdot then cleanSegs rooted rest (dotdot :: out) else cleanSegs rooted rest os
      | [] => if rooted then cleanSegs rooted rest [] else cleanSegs rooted rest [dotdot]
    else cleanSegs rooted rest (s :: out)

/-- filepath.Clean -/
def clean (p : Bytes) : Bytes :=
  match p with
  | [] => dot
  | c :: _ =>
    let rooted := c == 47
    let body := joinWith 47 (cleanSegs rooted (splitOn 47 p) [])
    if rooted then 47 :: body else if body.isEmpty then dot else body

/-- filepath.Join of two elements (both non-empty in every use by the backend) -/
def join2 (a b : Bytes) : Bytes :=
  if a.isEmpty then clean b else if b.isEmpty then clean a else clean (a ++ 47 :: b)

/-- utils.IsPathComponentValid -/
def isPathComponentValid (id : Bytes) : Bool :=
  !id.isEmpty && id != dot && id != dotdot && !id.contains 47 && !id.contains 0

/-- the segment loop of utils.IsObjectNameValid -/
def segsValid : List Bytes → Bool → Bool
  | [], _ => true
  | s :: rest, first =>
    if s = dot ∨ s = dotdot then false
    else if s = [] then (rest.isEmpty && !first)
    else segsValid rest false

/-- utils.IsObjectNameValid -/
def isObjectNameValid (name : Bytes) : Bool :=
  !name.isEmpty && !name.contains 0 && segsValid (splitOn 47 name) true

end Vgw.Go.Path
