/-
  `time.Parse` (go1.23 src/time/format.go) specialised to the two layouts the authentication code
  uses: "20060102T150405Z" (iso8601Format) and "20060102" (yyyymmdd).  Only success / failure is
  modelled (the callers use the error, and — for the compact layout — go on to slice the INPUT
  string, which is why its length matters).  Core-only.
-/
import Vgw.Go.Strconv
namespace Vgw.Go.Time
open Vgw

def dval (c : UInt8) : Nat := c.toNat - 48

/-- `getnum(s, fixed)`: one or two leading digits (exactly two when `fixed`) -/
def getnum (s : Bytes) (fixed : Bool) : Option (Nat × Bytes) :=
  match s with
  | [] => none
  | a :: rest =>
    if !isDigit a then none else
    match rest with
    | b :: rest2 =>
      if isDigit b then some (dval a * 10 + dval b, rest2)
      else if fixed then none else some (dval a, rest)
    | [] => if fixed then none else some (dval a, [])

def isLeap (y : Nat) : Bool := y % 4 == 0 && (y % 100 != 0 || y % 400 == 0)

def daysIn (month year : Nat) : Nat :=
  if month = 2 then (if isLeap year then 29 else 28)
  else if month = 4 ∨ month = 6 ∨ month = 9 ∨ month = 11 then 30 else 31

/-- stdLongYear: four digits -/
def getYear (s : Bytes) : Option (Nat × Bytes) :=
  match s with
  | a :: b :: c :: d :: rest =>
    if isDigit a && isDigit b && isDigit c && isDigit d then
      some (dval a * 1000 + dval b * 100 + dval c * 10 + dval d, rest)
    else none
  | _ => none

/-- year, month (1..12), day (two digits; validated at the end) -/
def getYMD (s : Bytes) : Option (Nat × Nat × Nat × Bytes) :=
  match getYear s with
  | none => none
  | some (y, r1) =>
    match getnum r1 true with
    | none => none
    | some (m, r2) =>
      if m = 0 ∨ 12 < m then none else
      match getnum r2 true with
      | none => none
      | some (d, r3) => some (y, m, d, r3)

def dayOk (y m d : Nat) : Bool := 1 ≤ d && d ≤ daysIn m y

/-- `time.Parse("20060102", s)` succeeds -/
def parseYMD (s : Bytes) : Bool :=
  match getYMD s with
  | some (y, m, d, []) => dayOk y m d
  | _ => false

/-- the fractional second `time.Parse` accepts after a seconds field although the layout has none:
`[.,]` followed by at least one digit, then all following digits -/
def skipFrac (s : Bytes) : Bytes :=
  match s with
  | c :: d :: rest => if (c = 46 ∨ c = 44) ∧ isDigit d then rest.dropWhile isDigit else s
  | _ => s

/-- hour (one or two digits, < 24), minute, second (two digits, < 60), optional fraction -/
def getHMS (s : Bytes) : Option Bytes :=
  match getnum s false with
  | none => none
  | some (h, r1) =>
    if 24 ≤ h then none else
    match getnum r1 true with
    | none => none
    | some (mi, r2) =>
      if 60 ≤ mi then none else
      match getnum r2 true with
      | none => none
      | some (sec, r3) => if 60 ≤ sec then none else some (skipFrac r3)

/-- `time.Parse("20060102T150405Z", s)` succeeds -/
def parseCompact (s : Bytes) : Bool :=
  match getYMD s with
  | some (y, m, d, 84 :: r) =>           -- 'T'
    match getHMS r with
    | some [90] => dayOk y m d             -- 'Z', nothing after it
    | _ => false
  | _ => false

theorem getnum_fixed_length (s r : Bytes) (n : Nat) (h : getnum s true = some (n, r)) : s.length = r.length + 2 := by
  unfold getnum at h
  split at h
  · simp at h
  · rename_i a rest
    split at h
    · simp at h
    · split at h
      · rename_i b rest2
        split at h
        · simp at h; obtain ⟨_, rfl⟩ := h; simp
        · simp at h
      · simp at h

theorem getYear_length (s r : Bytes) (y : Nat) (h : getYear s = some (y, r)) : s.length = r.length + 4 := by
  unfold getYear at h
  split at h
  · split at h
    · simp at h; obtain ⟨_, rfl⟩ := h; simp
    · simp at h
  · simp at h

/-- year + month + day take exactly eight bytes of the input -/
theorem getYMD_length (s r : Bytes) (y m d : Nat) (h : getYMD s = some (y, m, d, r)) : s.length = r.length + 8 := by
  unfold getYMD at h
  cases hy : getYear s with
  | none => simp [hy] at h
  | some p =>
    obtain ⟨y', r1⟩ := p
    simp only [hy] at h
    cases hm : getnum r1 true with
    | none => simp [hm] at h
    | some q =>
      obtain ⟨m', r2⟩ := q
      simp only [hm] at h
      split at h
      · simp at h
      · cases hd : getnum r2 true with
        | none => simp [hd] at h
        | some t =>
          obtain ⟨d', r3⟩ := t
          simp only [hd] at h
          simp at h
          obtain ⟨_, _, _, rfl⟩ := h
          have a := getYear_length s r1 y' hy
          have b := getnum_fixed_length r1 r2 m' hm
          have c := getnum_fixed_length r2 r3 d' hd
          omega

/-- what the callers rely on when they write `date[:8]` after a successful parse -/
theorem parseCompact_length (s : Bytes) (h : parseCompact s = true) : 8 ≤ s.length := by
  unfold parseCompact at h
  split at h
  · rename_i y m d r hy
    have := getYMD_length s _ y m d hy
    omega
  · simp at h

theorem parseYMD_length (s : Bytes) (h : parseYMD s = true) : s.length = 8 := by
  unfold parseYMD at h
  split at h
  · rename_i y m d hy
    have := getYMD_length s _ y m d hy
    simpa using this
  · simp at h

end Vgw.Go.Time
