/-
  Shim of the Go stdlib fragments used by the aws-chunked readers:
  `strconv.ParseInt(s, 16, 64)`, `hex.EncodeToString`, `fmt.Sprintf("%x", n)`,
  `base64.StdEncoding.EncodeToString` / `DecodeString` (validity + decoded length only),
  `strings.TrimSpace`, `bytes.Index(s, "\r\n")`, the cursor primitives of `bufio.Reader`
  (`ReadByte` loops, `ReadString(delim)`) on an in-memory snapshot.  Core-only.
-/
import Vgw.Go.Strconv
namespace Vgw

/-! ### hex -/

def hexNibble (n : Nat) : UInt8 := if n < 10 then UInt8.ofNat (48 + n) else UInt8.ofNat (87 + n)

/-- `hex.EncodeToString` (lower case). -/
def hexEncode : Bytes → Bytes
  | [] => []
  | c :: cs => hexNibble (c.toNat / 16) :: hexNibble (c.toNat % 16) :: hexEncode cs

def hexDigitVal (c : UInt8) : Option Nat :=
  if 48 ≤ c ∧ c ≤ 57 then some (c.toNat - 48)
  else if 97 ≤ c ∧ c ≤ 102 then some (c.toNat - 87)
  else if 65 ≤ c ∧ c ≤ 70 then some (c.toNat - 55)
  else none

def isHexDigit (c : UInt8) : Bool := (hexDigitVal c).isSome

def hexDigitsVal : Bytes → Nat → Option Nat
  | [], acc => some acc
  | c :: cs, acc =>
    match hexDigitVal c with
    | some d => hexDigitsVal cs (acc * 16 + d)
    | none => none

/-- non-empty string of hex digits (either case) → its value (unbounded). -/
def parseHexDigits (s : Bytes) : Option Nat :=
  match s with
  | [] => none
  | _ :: _ => hexDigitsVal s 0

/-- `strconv.ParseInt(s, 16, 64)`: optional sign, at least one hex digit, hex digits only (base
given explicitly: no `0x`, no underscores), error outside the int64 range. `none` = any error. -/
def parseIntHex64 (s : Bytes) : Option Int :=
  match s with
  | [] => none
  | c :: rest =>
    if c = 43 then
      match parseHexDigits rest with
      | some n => if (n : Int) ≤ int64Max then some n else none
      | none => none
    else if c = 45 then
      match parseHexDigits rest with
      | some n => if (n : Int) ≤ int64Max + 1 then some (-(n : Int)) else none
      | none => none
    else
      match parseHexDigits s with
      | some n => if (n : Int) ≤ int64Max then some n else none
      | none => none

def natToHexAux : Nat → Nat → Bytes → Bytes
  | 0, _, acc => acc
  | f + 1, n, acc =>
    if n < 16 then hexNibble n :: acc else natToHexAux f (n / 16) (hexNibble (n % 16) :: acc)

/-- `fmt.Sprintf("%x", n)` for `n ≥ 0`. -/
def natToHex (n : Nat) : Bytes := natToHexAux (n + 1) n []

/-! ### base64 (StdEncoding) -/

def b64Char (n : Nat) : UInt8 :=
  if n < 26 then UInt8.ofNat (65 + n)
  else if n < 52 then UInt8.ofNat (97 + (n - 26))
  else if n < 62 then UInt8.ofNat (48 + (n - 52))
  else if n = 62 then 43 else 47

def b64Encode : Bytes → Bytes
  | [] => []
  | [a] =>
    let x := a.toNat
    [b64Char (x / 4), b64Char (x % 4 * 16), 61, 61]
  | [a, b] =>
    let x := a.toNat; let y := b.toNat
    [b64Char (x / 4), b64Char (x % 4 * 16 + y / 16), b64Char (y % 16 * 4), 61]
  | a :: b :: c :: rest =>
    let x := a.toNat; let y := b.toNat; let z := c.toNat
    b64Char (x / 4) :: b64Char (x % 4 * 16 + y / 16) :: b64Char (y % 16 * 4 + z / 64) :: b64Char (z % 64) ::
      b64Encode rest

def isB64 (c : UInt8) : Bool :=
  (65 ≤ c && c ≤ 90) || (97 ≤ c && c ≤ 122) || (48 ≤ c && c ≤ 57) || c == 43 || c == 47

def b64LenAux : Bytes → Option Nat
  | [] => some 0
  | [a, b, c, d] =>
    if isB64 a && isB64 b then
      if c == 61 then (if d == 61 then some 1 else none)
      else if isB64 c then (if d == 61 then some 2 else if isB64 d then some 3 else none)
      else none
    else none
  | a :: b :: c :: d :: rest =>
    if isB64 a && isB64 b && isB64 c && isB64 d then (b64LenAux rest).map (· + 3) else none
  | _ => none

/-- `base64.StdEncoding.DecodeString(s)`: `none` = error, `some n` = n decoded bytes.  Go's decoder
skips `\r` and `\n` anywhere, demands padding, allows `=` only as the padding of the last quantum,
and (non-strict mode) does not look at the unused low bits. -/
def b64DecodedLen (s : Bytes) : Option Nat :=
  b64LenAux (s.filter fun c => c != 10 && c != 13)

/-! ### strings.TrimSpace -/

def isAsciiSpace (c : UInt8) : Bool := c == 32 || (9 ≤ c && c ≤ 13)

/-- UTF-8 encodings of the non-ASCII runes with `unicode.IsSpace`. -/
def uniSpaces : List Bytes :=
  [[0xC2, 0x85], [0xC2, 0xA0], [0xE1, 0x9A, 0x80],
   [0xE2, 0x80, 0x80], [0xE2, 0x80, 0x81], [0xE2, 0x80, 0x82], [0xE2, 0x80, 0x83], [0xE2, 0x80, 0x84],
   [0xE2, 0x80, 0x85], [0xE2, 0x80, 0x86], [0xE2, 0x80, 0x87], [0xE2, 0x80, 0x88], [0xE2, 0x80, 0x89],
   [0xE2, 0x80, 0x8A], [0xE2, 0x80, 0xA8], [0xE2, 0x80, 0xA9], [0xE2, 0x80, 0xAF], [0xE2, 0x81, 0x9F],
   [0xE3, 0x80, 0x80]]

/-- trim from the left; `pats` = multi-byte space encodings as they appear from this side. -/
def trimLeftFuel (pats : List Bytes) : Nat → Bytes → Bytes
  | 0, s => s
  | f + 1, s =>
    match s with
    | [] => []
    | c :: cs =>
      if isAsciiSpace c then trimLeftFuel pats f cs
      else match pats.find? (fun p => p.isPrefixOf s) with
        | some p => trimLeftFuel pats f (s.drop p.length)
        | none => s

/-- `strings.TrimSpace`. -/
def trimSpace (s : Bytes) : Bytes :=
  let l := trimLeftFuel uniSpaces s.length s
  (trimLeftFuel (uniSpaces.map List.reverse) l.length l.reverse).reverse

/-! ### bytes.Index(s, "\r\n") -/

def indexCRLFAux : Bytes → Nat → Int
  | [], _ => -1
  | [_], _ => -1
  | a :: b :: rest, i => if a = 13 ∧ b = 10 then (i : Int) else indexCRLFAux (b :: rest) (i + 1)

def indexCRLF (s : Bytes) : Int := indexCRLFAux s 0

/-! ### cursor primitives (bufio.Reader over an in-memory snapshot) -/

inductive RdErr where
  | eof          -- io.EOF from the snapshot
  | mismatch     -- errMalformedEncoding
  deriving DecidableEq, Repr

/-- `readAndSkip(rdr, data...)`: consume exactly `data`. -/
def readAndSkip : Bytes → Bytes → Except RdErr Bytes
  | [], cur => .ok cur
  | _ :: _, [] => .error .eof
  | d :: ds, b :: cur => if b = d then readAndSkip ds cur else .error .mismatch

/-- `ReadString(delim)` + trim of the delimiter: `(before, after)`; `none` = EOF before `delim`. -/
def readUntil (delim : UInt8) : Bytes → Option (Bytes × Bytes)
  | [] => none
  | b :: cur =>
    if b = delim then some ([], cur)
    else match readUntil delim cur with
      | some (a, r) => some (b :: a, r)
      | none => none

end Vgw
