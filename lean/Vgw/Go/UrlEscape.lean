/-
  `net/url.QueryUnescape` (go1.23 src/net/url/url.go, unescape with mode encodeQueryComponent):
  `%XX` ↦ the byte, `+` ↦ space, every other byte itself; error (`none`) when a `%` is not followed
  by two hex digits.  Core-only.
-/
import Vgw.Go.Bytes
namespace Vgw.Go

/-- `ishex` / `unhex` -/
def unhexByte (c : UInt8) : Option Nat :=
  if 48 ≤ c ∧ c ≤ 57 then some (c.toNat - 48)
  else if 97 ≤ c ∧ c ≤ 102 then some (c.toNat - 87)
  else if 65 ≤ c ∧ c ≤ 70 then some (c.toNat - 55)
  else none

/-- `url.QueryUnescape(s)`; `none` = EscapeError -/
def queryUnescape : Bytes → Option Bytes
  | [] => some []
  | c :: rest =>
    if c = 37 then                                   -- '%'
      match rest with
      | a :: b :: rest' =>
        match unhexByte a, unhexByte b with
        | some x, some y => (queryUnescape rest').map (UInt8.ofNat (x * 16 + y) :: ·)
        | _, _ => none
      | _ => none
    else if c = 43 then (queryUnescape rest).map (32 :: ·)   -- '+'
    else (queryUnescape rest).map (c :: ·)

/-- decoding never lengthens a string -/
theorem queryUnescape_length : ∀ (n : Nat) (s r : Bytes), s.length ≤ n → queryUnescape s = some r → r.length ≤ s.length := by
  intro n
  induction n with
  | zero =>
    intro s r hn h
    have : s = [] := List.eq_nil_of_length_eq_zero (by omega)
    subst this
    simp [queryUnescape] at h; subst h; simp
  | succ n ih =>
    intro s r hn h
    cases s with
    | nil => simp [queryUnescape] at h; subst h; simp
    | cons c rest =>
      unfold queryUnescape at h
      split at h
      · split at h
        · rename_i a b rest'
          split at h
          · cases hq : queryUnescape rest' with
            | none => simp [hq] at h
            | some q =>
              simp [hq] at h; subst h
              have := ih rest' q (by simp at hn; omega) hq
              simp; omega
          · simp at h
        · simp at h
      · split at h
        all_goals
          cases hq : queryUnescape rest with
          | none => simp [hq] at h
          | some q =>
            simp [hq] at h; subst h
            have := ih rest q (by simp at hn; omega) hq
            simp; omega

end Vgw.Go
