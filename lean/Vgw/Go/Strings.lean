/-
  Fragments of Go's package `strings` used by the bucket-policy code (auth/bucket_policy*.go):
  HasPrefix, TrimPrefix, HasSuffix, TrimSuffix, Contains (with a one-byte needle).  Core-only.
-/
import Vgw.Go.Bytes
namespace Vgw.Go.Strings
open Vgw

/-- `strings.HasPrefix(s, pre)` -/
def hasPrefix (s pre : Bytes) : Bool := pre.isPrefixOf s

/-- `strings.TrimPrefix(s, pre)` -/
def trimPrefix (s pre : Bytes) : Bytes := if pre.isPrefixOf s then s.drop pre.length else s

/-- `strings.HasSuffix(s, suf)` -/
def hasSuffix (s suf : Bytes) : Bool := suf.isSuffixOf s

/-- `strings.TrimSuffix(s, suf)` -/
def trimSuffix (s suf : Bytes) : Bytes :=
  if suf.isSuffixOf s then s.take (s.length - suf.length) else s

/-- `strings.Contains(s, string(c))` for a single byte `c` -/
def containsByte (s : Bytes) (c : UInt8) : Bool := s.contains c

end Vgw.Go.Strings
