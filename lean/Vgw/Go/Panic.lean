/-
  Go run-time panics as explicit outcomes.  Every operation of the modelled code that the Go
  run time checks — index `a[i]`, slice `a[i:j]`, dereference of a possibly-nil pointer,
  `make` with a computed size — is written with one of the combinators below and yields
  `Except Panic α`; a model that uses them is a *checked* transcription: it cannot silently assume
  an index is in range.  Core-only.
-/
import Vgw.Go.Bytes
namespace Vgw.Go

inductive Panic where
  | index (i : Int) (len : Nat)          -- "index out of range [i] with length len"
  | slice (lo hi : Int) (len : Nat)      -- "slice bounds out of range"
  | nilDeref                             -- "invalid memory address or nil pointer dereference"
  | makeLen (n : Int)                    -- "makeslice: len out of range"
  | divZero
  deriving Repr, DecidableEq

abbrev Chk (α : Type) := Except Panic α

/-- decidable equality of outcomes (named inside this namespace: no clash with another derivation) -/
instance decEqExcept {ε α : Type} [DecidableEq ε] [DecidableEq α] : DecidableEq (Except ε α)
  | .ok a, .ok b => if h : a = b then isTrue (by rw [h]) else isFalse (by intro e; cases e; exact h rfl)
  | .error a, .error b => if h : a = b then isTrue (by rw [h]) else isFalse (by intro e; cases e; exact h rfl)
  | .ok _, .error _ => isFalse (by intro e; cases e)
  | .error _, .ok _ => isFalse (by intro e; cases e)

/-- `a[i]` -/
def idx {α : Type} (a : List α) (i : Int) : Chk α :=
  if 0 ≤ i then
    match a[i.toNat]? with
    | some x => .ok x
    | none => .error (.index i a.length)
  else .error (.index i a.length)

/-- `a[lo:]` -/
def sliceFrom {α : Type} (a : List α) (lo : Int) : Chk (List α) :=
  if 0 ≤ lo ∧ lo ≤ a.length then .ok (a.drop lo.toNat) else .error (.slice lo a.length a.length)

/-- `a[:hi]` -/
def sliceTo {α : Type} (a : List α) (hi : Int) : Chk (List α) :=
  if 0 ≤ hi ∧ hi ≤ a.length then .ok (a.take hi.toNat) else .error (.slice 0 hi a.length)

/-- `a[lo:hi]` -/
def slice {α : Type} (a : List α) (lo hi : Int) : Chk (List α) :=
  if 0 ≤ lo ∧ lo ≤ hi ∧ hi ≤ a.length then .ok ((a.take hi.toNat).drop lo.toNat)
  else .error (.slice lo hi a.length)

/-- `*p` for an optional (possibly nil) pointer -/
def deref {α : Type} : Option α → Chk α
  | some x => .ok x
  | none => .error .nilDeref

/-- largest `make([]byte, n)` the run time accepts on linux/amd64 (maxAlloc = 2^48) -/
def maxAlloc : Int := 281474976710656

/-- `make([]byte, n)`: the size of the allocation, or the run-time panic -/
def makeBytes (n : Int) : Chk Nat :=
  if 0 ≤ n ∧ n ≤ maxAlloc then .ok n.toNat else .error (.makeLen n)

/-- the outcome carries a value (no run-time panic) -/
def noPanic {α : Type} : Chk α → Bool
  | .ok _ => true
  | .error _ => false

theorem idx_ok {α : Type} (a : List α) (i : Int) (h0 : 0 ≤ i) (h : i.toNat < a.length) :
    idx a i = .ok (a[i.toNat]'h) := by
  unfold idx
  rw [if_pos h0, List.getElem?_eq_getElem h]

theorem idx_zero_cons {α : Type} (x : α) (xs : List α) : idx (x :: xs) 0 = .ok x := rfl
theorem idx_one_cons {α : Type} (x y : α) (xs : List α) : idx (x :: y :: xs) 1 = .ok y := rfl
theorem idx_nil {α : Type} (i : Int) : noPanic (idx ([] : List α) i) = false := by
  unfold idx; split <;> simp [noPanic]

theorem sliceFrom_ok {α : Type} (a : List α) (lo : Int) (h0 : 0 ≤ lo) (h : lo ≤ a.length) :
    sliceFrom a lo = .ok (a.drop lo.toNat) := by
  unfold sliceFrom; rw [if_pos ⟨h0, h⟩]

theorem sliceTo_ok {α : Type} (a : List α) (hi : Int) (h0 : 0 ≤ hi) (h : hi ≤ a.length) :
    sliceTo a hi = .ok (a.take hi.toNat) := by
  unfold sliceTo; rw [if_pos ⟨h0, h⟩]

end Vgw.Go
