/-
  REGRESSION MODEL only (the write-through cache of the code before 6f25651; the current code needs
  no side condition).  Executable form of the side condition under which the write-through
  revisions of the account cache keep cache and store in agreement (`Lemmas.IAMCacheW.QuietAt`): when call i renames the
  new image into place, no other call on the same key sits between its store access and its cache
  step, and a created account equals the entry CreateAccount will cache.  Core-only: the driver
  labels the schedules of the real runs with it.
-/
import Vgw.Model.IAM
namespace Vgw.Model.IAM
open Vgw
open Vgw.Model.Gw (Account Role)

/-- the store has been changed (rename done), IAMCache's own step has not happened yet -/
def pend : PC → Bool
  | .mRenamed | .mCache => true
  | _ => false

def isFetched : PC → Bool
  | .gFetched _ _ => true
  | _ => false

def isTemp : PC → Bool
  | .mTemp _ => true
  | _ => false

def quietOthersB (calls : List Call) (i : Nat) (k : Bytes) : Bool :=
  (List.range calls.length).all fun j =>
    match calls[j]? with
    | some cj => j == i || cj.op.key != k || (!pend cj.pc && !isFetched cj.pc)
    | none => true

def quietAtB (v : Variant) (σ : State) (i : Nat) (c : Call) : Bool :=
  quietOthersB σ.calls i c.op.key &&
  (match c.op with | .create a => decide (entryOf v a = a) | _ => true)

def quietStepB (v : Variant) (σ : State) : Act → Bool
  | .step i => match σ.calls[i]? with
    | some c => !isTemp c.pc || quietAtB v σ i c
    | none => true
  | _ => true

def quietRunB (v : Variant) (cfg : Cfg) : State → List Act → Bool
  | _, [] => true
  | σ, a :: rest => quietStepB v σ a && quietRunB v cfg (act v cfg σ a) rest

end Vgw.Model.IAM
