/-
  Model of backend.Walk (backend/walk.go) over an abstract directory tree.

  * `Tree` is what `fs.WalkDir` sees: every directory's children in `ReadDir` order (sorted by
    NAME, not by full path — directory `a` and its whole subtree come before the sibling `a.b`).
  * `cb` is the WalkDirFunc closure of `Walk`, statement by statement; its captured variables
    (`pastMarker`, `pastMax`, `newMarker`, `truncated`, `objects`, `cpmap`) are the record `St`;
    its return value is `Ret` (nil | fs.SkipDir | fs.SkipAll). It is written as `apply ∘ act`:
    `act` follows the control flow to one of the `return` sites, `apply` is that site's effect.
  * `walkNode`/`walkList` are `io/fs.walkDir` (go1.23): a callback error on a non-directory is
    returned to the parent loop, where `SkipDir` BREAKS the loop over the siblings.
  * `walk` is `Walk`: max = 0, root selection from the prefix, `fs.Stat(root)` failing with
    ErrNotExist/ENOTDIR (suppressed → empty result), sorting of the common prefixes, NextMarker.
  * `getObj` is a parameter: `none` = ErrSkipObj, `some (size, etag)` = an object whose Key is the
    path handed to the callback (what posix.fileToObj does).

  Not modelled (documented in checks.py): other errors of getObj / ReadDir / ctx cancellation
  (Walk returns the error), `utf8.ValidString` inside fs.ValidPath, trees violating the fs.FS
  contract (names empty, containing '/', "." or "..").
-/
import Vgw.Go.StrOrder
namespace Vgw.Model.Walk
open Vgw

inductive Tree where
  | file (name : Bytes)
  | dir (name : Bytes) (children : List Tree)
  deriving Repr

def Tree.name : Tree → Bytes
  | .file n => n
  | .dir n _ => n

def Tree.isDir : Tree → Bool
  | .file _ => false
  | .dir _ _ => true

structure Obj where
  key : Bytes
  size : Nat
  etag : Bytes
  deriving Repr, DecidableEq

/-- size/etag lookup; `none` = `ErrSkipObj`. Directories are asked with a trailing `/`. -/
abbrev GetObj := Bytes → Option (Nat × Bytes)

structure Cfg where
  pfx : Bytes
  delim : Bytes
  marker : Bytes
  max : Int
  getObj : GetObj
  skip : List Bytes

/-- the variables captured by the closure -/
structure St where
  pastMarker : Bool
  pastMax : Bool
  truncated : Bool
  objects : List Obj
  cps : List Bytes          -- cpmap: a set, kept duplicate-free in insertion order
  newMarker : Bytes
  deriving Repr, DecidableEq

inductive Ret where
  | nil | skipDir | skipAll
  deriving Repr, DecidableEq

def slash : UInt8 := 47

/-- `cpmap[k] = struct{}{}` -/
def setInsert (k : Bytes) (m : List Bytes) : List Bytes := if m.contains k then m else m ++ [k]

/-- `(len(objects) + len(cpmap)) == int(max)` → `newMarker = mk; pastMax = true` -/
def bump (c : Cfg) (s : St) (mk : Bytes) : St :=
  if ((s.objects.length + s.cps.length : Nat) : Int) = c.max then
    { s with newMarker := mk, pastMax := true }
  else s

/-- The callback is split in two: which `return` statement an invocation reaches and with what
(`Act`, a function of the configuration, the directory entry and `pastMarker` only), and what that
does to the captured variables (`apply`). -/
inductive Act where
  | ret (r : Ret)                                  -- `return skipflag` / `return fs.SkipDir`
  | past (r : Ret)                                 -- `pastMarker = true; return skipflag`
  | obj (o : Obj) (mk : Bytes) (r : Ret)           -- the `objects = append(objects, …)` blocks
  | cp (name : Bytes) (r : Ret)                    -- the `cpmap[cpref] = struct{}{}` block
  deriving Repr, DecidableEq

/-- `obj, err := getObj(key, d); if err == ErrSkipObj { return skipflag }; …` -/
def actObj (c : Cfg) (key mk : Bytes) (skipflag : Ret) : Act :=
  match c.getObj key with
  | none => .ret skipflag                                   -- ErrSkipObj
  | some (size, etag) => .obj ⟨key, size, etag⟩ mk skipflag

/-- the callback from `if !pastMarker {` to its end; `path` already carries the trailing `/`
of a directory -/
def actTail (c : Cfg) (pastMarker : Bool) (path : Bytes) (skipflag : Ret) : Act :=
  if !pastMarker && path == c.marker then .past skipflag else
  if !pastMarker && blt path c.marker then .ret skipflag else
  if c.pfx ≠ [] && !hasPrefix path c.pfx then .ret skipflag else
  if c.delim = [] then actObj c path path skipflag else
  match cut c.delim (trimPrefix path c.pfx) with
  | none => actObj c path path skipflag
  | some before =>
    let cprefNoDelim := c.pfx ++ before
    let cpref := c.pfx ++ before ++ c.delim
    if cpref == c.marker then .past skipflag else
    if c.marker ≠ [] && hasPrefix c.marker cprefNoDelim then .ret skipflag else
    .cp cpref skipflag

/-- the `if d.IsDir() {` block; `noEnts` = `len(fs.ReadDir(path)) == 0` -/
def actDir (c : Cfg) (pastMarker : Bool) (path : Bytes) (noEnts : Bool) : Act :=
  let pslash := path ++ [slash]
  if c.pfx ≠ [] && !hasPrefix pslash c.pfx && !hasPrefix c.pfx pslash then .ret .skipDir else
  if c.delim ≠ [] && hasPrefix pslash c.pfx && containsSub (trimPrefix pslash c.pfx) c.delim then
    actTail c pastMarker pslash .skipDir
  else if c.delim = [] then
    actObj c pslash path .nil                      -- `getObj(path+"/", d)` … `newMarker = path`
  else if !noEnts then .ret .nil
  else actTail c pastMarker pslash .nil

/-- the whole callback (for `path ≠ "."`) up to the state update -/
def act (c : Cfg) (pastMarker : Bool) (path _name : Bytes) (isDir noEnts : Bool) : Act :=
  if isDir && c.skip.contains path then .ret .skipDir else     -- `d.IsDir() && contains(path, skipdirs)`
  if isDir then actDir c pastMarker path noEnts else actTail c pastMarker path .nil

/-- the state update of each `return` site; `if pastMax { truncated = true; return fs.SkipAll }` -/
def apply (c : Cfg) (s : St) : Act → St × Ret
  | .ret r => (s, r)
  | .past r => ({ s with pastMarker := true }, r)
  | .obj o mk r =>
    if s.pastMax then ({ s with truncated := true }, .skipAll) else
    (bump c { s with objects := s.objects ++ [o] } mk, r)
  | .cp name r =>
    if s.pastMax then ({ s with truncated := true }, .skipAll) else
    (bump c { s with cps := setInsert name s.cps } name, r)

def cb (c : Cfg) (s : St) (path name : Bytes) (isDir noEnts : Bool) : St × Ret :=
  apply c s (act c s.pastMarker path name isDir noEnts)

/-! ### io/fs.walkDir -/
mutual
def walkNode (c : Cfg) (base : Bytes) (s : St) : Tree → St × Ret
  | .file n => cb c s (base ++ n) n false true          -- `err != nil || !d.IsDir()` → return err
  | .dir n cs =>
    match cb c s (base ++ n) n true cs.isEmpty with
    | (s', .nil) => walkList c (base ++ n ++ [slash]) s' cs
    | (s', .skipDir) => (s', .nil)                       -- successfully skipped directory
    | (s', .skipAll) => (s', .skipAll)
def walkList (c : Cfg) (base : Bytes) (s : St) : List Tree → St × Ret
  | [] => (s, .nil)
  | t :: ts =>
    match walkNode c base s t with
    | (s', .nil) => walkList c base s' ts
    | (s', .skipDir) => (s', .nil)                       -- `if err == SkipDir { break }`
    | (s', .skipAll) => (s', .skipAll)
end

/-! ### root selection and fs.Stat(root) -/

/-- `root := "."; if strings.Contains(prefix, "/") { idx := LastIndex; if idx > 0 { root = prefix[:idx] } }`;
`none` = "." -/
def rootOf (pfx : Bytes) : Option Bytes :=
  match lastIndexByte slash pfx with
  | some (i + 1) => some (pfx.take (i + 1))
  | _ => none

def findChild (n : Bytes) : List Tree → Option Tree
  | [] => none
  | t :: ts => if t.name = n then some t else findChild n ts

/-- element of a valid fs path: non-empty, not "." or ".." (it cannot contain '/': it is a field
of `splitOn '/'`) -/
def validElem (n : Bytes) : Bool := n ≠ [] && n ≠ [46] && n ≠ [46, 46]

/-- descend along the path elements: the node and the path of its parent (with trailing '/') -/
def descend : List Bytes → Bytes → List Tree → Option (Bytes × Tree)
  | [], _, _ => none
  | [n], base, ts => (findChild n ts).map (base, ·)
  | n :: m :: rest, base, ts =>
    match findChild n ts with
    | some (.dir _ cs) => descend (m :: rest) (base ++ n ++ [slash]) cs
    | _ => none                                            -- missing, or a file: ENOTDIR

structure Result where
  objects : List Obj
  cps : List Bytes
  truncated : Bool
  next : Bytes
  deriving Repr, DecidableEq

def Result.empty : Result := ⟨[], [], false, []⟩

def init (c : Cfg) : St := ⟨c.marker == [], false, false, [], [], []⟩

/-- after WalkDir: sort the common prefixes; `if !truncated { newMarker = "" }` -/
def finish (s : St) : Result :=
  ⟨s.objects, sortDedup s.cps, s.truncated, if s.truncated then s.newMarker else []⟩

/-- `root == skip || strings.HasPrefix(root, skip+"/")` for some skip dir -/
def insideSkip (skip : List Bytes) (root : Bytes) : Bool :=
  skip.any fun s => root == s || hasPrefix root (s ++ [slash])

/-- backend.Walk on the tree whose top-level (bucket directory) entries are `top` -/
def walk (c : Cfg) (top : List Tree) : Result :=
  if c.max = 0 then .empty else
  if insideSkip c.skip ((rootOf c.pfx).getD [46]) then .empty else   -- nothing inside an internal directory
  match rootOf c.pfx with
  | none => finish (walkList c [] (init c) top).1          -- path "." is ignored by the callback
  | some root =>
    if root = [46] then finish (walkList c [] (init c) top).1 else
    let elems := splitOn slash root
    if !elems.all validElem then .empty else               -- fs.ValidPath fails: ErrNotExist / ErrInvalid, suppressed
    match descend elems [] top with
    | none => .empty                                       -- ErrNotExist / ENOTDIR, suppressed
    | some (base, t) => finish (walkNode c base (init c) t).1

/-! ### The tree of a key set (used by the driver and the non-vacuity examples)

Keys ending in '/' are explicit directory objects. Keys are assumed FS-representable (no empty
elements, no key being both a file and a directory); on other inputs `treeOf` keeps the first
reading it finds. Whether a directory is an explicit object is NOT stored in the tree: that is
what `getObj (path ++ "/")` answers. -/

def insertNode (t : Tree) : List Tree → List Tree
  | [] => [t]
  | u :: us =>
    if blt t.name u.name then t :: u :: us
    else if t.name = u.name then t :: us
    else u :: insertNode t us

def childrenOf (n : Bytes) (ts : List Tree) : List Tree :=
  match findChild n ts with
  | some (.dir _ cs) => cs
  | _ => []

def insertPath : List Bytes → List Tree → List Tree
  | [], ts => ts
  | [n], ts => if n = [] then ts else
      match findChild n ts with
      | some _ => ts
      | none => insertNode (.file n) ts
  | n :: m :: rest, ts =>
      if m = [] ∧ rest = [] then                           -- "…/n/": explicit directory object
        match findChild n ts with
        | some _ => ts
        | none => insertNode (.dir n []) ts
      else insertNode (.dir n (insertPath (m :: rest) (childrenOf n ts))) ts

def treeOf (keys : List Bytes) : List Tree :=
  keys.foldl (fun ts k => insertPath (splitOn slash k) ts) []

/-! ### Events, keys, well-formedness, order compatibility (executable; used by theorems, the
driver's input classifier and the Open witnesses) -/

mutual
/-- every path `fs.WalkDir` can hand to the callback, in pre-order; directories with the trailing
'/' the callback appends -/
def eventsNode (base : Bytes) : Tree → List Bytes
  | .file n => [base ++ n]
  | .dir n cs => (base ++ n ++ [slash]) :: eventsList (base ++ n ++ [slash]) cs
def eventsList (base : Bytes) : List Tree → List Bytes
  | [] => []
  | t :: ts => eventsNode base t ++ eventsList base ts
end

mutual
/-- the keys stored in the tree, in pre-order: files and directories for which `getObj` answers,
outside the directories whose PATH is in the skip list -/
def keysNode (g : GetObj) (skip : List Bytes) (base : Bytes) : Tree → List Bytes
  | .file n => if (g (base ++ n)).isSome then [base ++ n] else []
  | .dir n cs => if skip.contains (base ++ n) then [] else
      (if (g (base ++ n ++ [slash])).isSome then [base ++ n ++ [slash]] else []) ++
        keysList g skip (base ++ n ++ [slash]) cs
def keysList (g : GetObj) (skip : List Bytes) (base : Bytes) : List Tree → List Bytes
  | [] => []
  | t :: ts => keysNode g skip base t ++ keysList g skip base ts
end

/-- name `m` extends the directory name `n` by a byte that sorts before '/' -/
def badExt (n m : Bytes) : Bool :=
  n.isPrefixOf m && match m.drop n.length with
    | ch :: _ => decide (ch < slash)
    | [] => false

def allNames (p : Bytes → Bool) (ts : List Tree) : Bool := ts.all (fun u => p u.name)

mutual
/-- no directory has a (later) sibling whose name extends the directory's name by a byte < '/' -/
def ocNode : Tree → Bool
  | .file _ => true
  | .dir _ cs => ocList cs
def ocList : List Tree → Bool
  | [] => true
  | t :: ts => ocNode t && (!t.isDir || allNames (fun m => !badExt t.name m) ts) && ocList ts
end

def validName (n : Bytes) : Bool := validElem n && !n.contains slash

mutual
/-- fs.FS contract: valid names, children strictly ascending by name -/
def wfNode : Tree → Bool
  | .file n => validName n
  | .dir n cs => validName n && wfList cs
def wfList : List Tree → Bool
  | [] => true
  | t :: ts => wfNode t && allNames (fun m => blt t.name m) ts && wfList ts
end

mutual
/-- every directory holds at least one key (no "phantom" directories) -/
def populatedNode (g : GetObj) (skip : List Bytes) (base : Bytes) : Tree → Bool
  | .file _ => true
  | .dir n cs => skip.contains (base ++ n) ||
      (!(keysNode g skip base (.dir n cs)).isEmpty && populatedList g skip (base ++ n ++ [slash]) cs)
def populatedList (g : GetObj) (skip : List Bytes) (base : Bytes) : List Tree → Bool
  | [] => true
  | t :: ts => populatedNode g skip base t && populatedList g skip base ts
end

end Vgw.Model.Walk
