/-
  The history of a run of Model.Conc, read off the ghost trace: per request its operation on the
  register, the time of its first step (invocation), the time of its last step (response) and its
  answer. Time = number of steps executed before.
-/
import Vgw.Model.Conc
import Vgw.Spec.Register
namespace Vgw.Model.Conc
open Vgw.Spec.Register

/-- time of request `i`'s first step (the trace is newest first). -/
def invT (i : Nat) : List Ev → Option Nat
  | [] => none
  | e :: tr => match invT i tr with
    | some t => some t
    | none => if e.rid = i then some tr.length else none

/-- time of request `i`'s last step. -/
def retT (i : Nat) : List Ev → Option Nat
  | [] => none
  | e :: tr => if e.rid = i ∧ e.fin = true then some tr.length else retT i tr

def opOf (rq : Req) : Op Inode Bool :=
  match rq.kind with
  | .put | .copy | .mpu => .write (written rq)
  | .delete => .delete
  | .get => .read false
  | .head => .read true

/-- the answer as the register spec sees it; `none` = no answer (CopyObject's InternalError after
    its publication: the write may or may not count). -/
def resOf : Resp → Option (Res ReadResp)
  | .ok => some .ok
  | .noSuchKey => some .missing
  | .read r => some (.value r)
  | .err => none

def evOf (s : State) (i : Nat) (rq : Req) : Event Inode Bool ReadResp :=
  let ans := (s.resp i).bind resOf
  { op := opOf rq
    inv := (invT i s.trace).getD s.trace.length
    ret := if ans.isSome then retT i s.trace else none
    res := ans.getD .garbled }

def histOf (rqs : List Req) (s : State) : List (Event Inode Bool ReadResp) :=
  rqs.mapIdx (fun i rq => evOf s i rq)

end Vgw.Model.Conc
