/-
  Model.ConcVer — concurrent WRITES of one key in a bucket with versioning Enabled
  (backend/posix/posix.go PutObject / CompleteMultipartUpload with `archiveCurrent`, createObjVersion,
  link): the part `Model.Conc` leaves out.

  `Model.Conc` proves that every inode ever published under the key is the complete object of exactly
  one write and is never changed afterwards; this model therefore treats a published object as one
  immutable value (`Obj`: which write, which version id) and models only what versioning adds: per
  write request the atomic steps

      openCur   os.Open of the name                → a descriptor of whatever object is current NOW
      archive   createObjVersion: version id, size, attribute names, attribute values and data of the
                OPENED file are copied into `<versioning-dir>/<bucket>/<hash(key)>/<version id>`
                (temp file + link = replace on an equal id)
      publish   a fresh version id (ULID) is stored on the temp file, link() replaces the name
      ack       the answer carries the new version id

  `Variant.byName` is the REGRESSION model of the code before 54bf489: the size of the archive file
  and the list of attribute names were taken from the NAME (the caller's earlier stat, listxattr by
  path), i.e. from whatever object is current when `archive` runs, while id, values and data came from
  the descriptor.

  Two scheduling disciplines: `step` (the code as it is: nothing serialises the writers of a key) and
  `stepL` (writers serialised between openCur and publish — a per-key lock the code does NOT have;
  used for the partial theorem only).
-/
namespace Vgw.Model.ConcVer

/-- a published object: the write it came from and the version id it carries. -/
structure Obj where
  w   : Nat
  vid : Nat
deriving DecidableEq, Repr, Inhabited

/-- a file in the versioning directory: version id, data and attribute values come from the opened
    object `src`; `shape` is the object whose size / attribute-name list was used. Complete iff they
    are the same object. -/
structure Ver where
  src   : Obj
  shape : Obj
deriving DecidableEq, Repr, Inhabited

def Ver.complete (v : Ver) : Bool := v.src == v.shape

inductive Variant where
  | byFd     -- the code as it is
  | byName   -- before 54bf489
deriving DecidableEq, Repr, Inhabited

inductive Pc where
  | start
  | opened (h : Option Obj)
  | archived (h : Option Obj)
  | published (vid : Nat)
  | done (vid : Nat)
deriving DecidableEq, Repr, Inhabited

structure Req where
  w  : Nat
  pc : Pc := .start
deriving DecidableEq, Repr, Inhabited

structure Sys where
  cur     : Option Obj := none
  arch    : List Ver := []          -- at most one file per version id (replace on an equal id)
  hist    : List Obj := []          -- ghost: every object ever published, newest first
  nextVid : Nat := 1
  reqs    : List Req := []
deriving DecidableEq, Repr, Inhabited

/-- link of the archive temp file: replaces a file of the same version id. -/
def putVer (arch : List Ver) (v : Ver) : List Ver :=
  v :: arch.filter (fun e => e.src.vid != v.src.vid)

def setReq (l : List Req) (i : Nat) (r : Req) : List Req := l.set i r

/-- one atomic step of request `i` (nothing happens when it has finished or does not exist). -/
def step (var : Variant) (s : Sys) (i : Nat) : Sys :=
  match s.reqs[i]? with
  | none => s
  | some r =>
    match r.pc with
    | .start => { s with reqs := setReq s.reqs i { r with pc := .opened s.cur } }
    | .opened h =>
      let arch' := match h with
        | none => s.arch
        | some o =>
          let shape := match var with
            | .byFd => o
            | .byName => (s.cur.getD o)
          putVer s.arch ⟨o, shape⟩
      { s with arch := arch', reqs := setReq s.reqs i { r with pc := .archived h } }
    | .archived _ =>
      let o : Obj := ⟨r.w, s.nextVid⟩
      { s with cur := some o, hist := o :: s.hist, nextVid := s.nextVid + 1,
               reqs := setReq s.reqs i { r with pc := .published s.nextVid } }
    | .published v => { s with reqs := setReq s.reqs i { r with pc := .done v } }
    | .done _ => s

def run (var : Variant) (s : Sys) (sched : List Nat) : Sys := sched.foldl (step var) s

/-- a request is inside the section a per-key lock would protect. -/
def Req.inCS (r : Req) : Bool :=
  match r.pc with
  | .opened _ | .archived _ => true
  | _ => false

/-- serialised writers: `openCur` waits while another request is between openCur and publish. -/
def stepL (var : Variant) (s : Sys) (i : Nat) : Sys :=
  match s.reqs[i]? with
  | some r =>
    match r.pc with
    | .start => if s.reqs.any Req.inCS then s else step var s i
    | _ => step var s i
  | none => s

def runL (var : Variant) (s : Sys) (sched : List Nat) : Sys := sched.foldl (stepL var) s

/-- initial state: the key holds `cur0` (or nothing), nothing archived, writes `ws` waiting. -/
def init (cur0 : Option Obj) (ws : List Nat) : Sys :=
  { cur := cur0, hist := cur0.toList, nextVid := (cur0.map (·.vid + 1)).getD 1,
    reqs := ws.map (fun w => { w := w }) }

/-- version ids a client was told. -/
def acked (s : Sys) : List Nat :=
  s.reqs.filterMap (fun r => match r.pc with | .done v => some v | _ => none)

/-- `GET ?versionId=v`: the current object if it carries `v`, else the archived file of that id. -/
def readVer (s : Sys) (v : Nat) : Option Ver :=
  match s.cur with
  | some o => if o.vid = v then some ⟨o, o⟩ else s.arch.find? (fun e => e.src.vid == v)
  | none => s.arch.find? (fun e => e.src.vid == v)

end Vgw.Model.ConcVer
