/-
  Model of the bucket-policy evaluator and validator (auth/bucket_policy.go,
  bucket_policy_actions.go, bucket_policy_principals.go, bucket_policy_resources.go,
  bucket_policy_effect.go), over an already-decoded policy.

  * Go `map[string]struct{}` (Principals, Actions, Resources) = the list of its keys in iteration
    order.  Lookups (`_, ok := m[k]`) are `List.contains`; `for k := range m` is a traversal of the
    list.  `len(m)` is `List.length`, which is faithful because the decoder (`decode*` below, like the
    real `Add`) never stores a key twice.  Go randomises the iteration order, so every function
    whose result could depend on the order takes the list in the order iterated (only
    `BucketPolicyItem.Validate`'s action loop could; since the fix ade9d47 it `continue`s at `s3:*`
    and Props.C14.validate_order_independent proves the order irrelevant for every document).
  * encoding/json is NOT modelled.  What is modelled of decoding is the decision logic of the
    `UnmarshalJSON` hooks over the generic shape of each member (`Field`: absent / string / array of
    strings / anything else) — empty string or array refused, `Add` validating every action
    (`Action.IsValid`) and resource (`isValidResource`, which strips the ARN prefix).
  * The IAM lookup is a parameter `acct : Bytes → Bool` (does the account exist); IAM failures
    (errors other than ErrNoSuchUser) are not modelled.
  Core-only.
-/
import Vgw.Go.Strings
import Vgw.Model.Glob
namespace Vgw.Model.Policy
open Vgw Vgw.Go.Strings

/-! ### constants -/
def allowLit : Bytes := [65, 108, 108, 111, 119]          -- "Allow"
def denyLit : Bytes := [68, 101, 110, 121]                -- "Deny"
def starLit : Bytes := [42]                               -- "*"
def slashLit : Bytes := [47]                              -- "/"
def allActions : Bytes := [115, 51, 58, 42]               -- "s3:*"
def s3Prefix : Bytes := [115, 51, 58]                     -- "s3:"
def arnPrefix : Bytes := [97, 114, 110, 58, 97, 119, 115, 58, 115, 51, 58, 58, 58]  -- "arn:aws:s3:::"

/-- keys of `supportedActionList` (bucket_policy_actions.go); `s3:*` last -/
def supportedActions : List Bytes := [
    [115, 51, 58, 71, 101, 116, 66, 117, 99, 107, 101, 116, 65, 99, 108],  -- s3:GetBucketAcl
    [115, 51, 58, 67, 114, 101, 97, 116, 101, 66, 117, 99, 107, 101, 116],  -- s3:CreateBucket
    [115, 51, 58, 80, 117, 116, 66, 117, 99, 107, 101, 116, 65, 99, 108],  -- s3:PutBucketAcl
    [115, 51, 58, 68, 101, 108, 101, 116, 101, 66, 117, 99, 107, 101, 116],  -- s3:DeleteBucket
    [115, 51, 58, 80, 117, 116, 66, 117, 99, 107, 101, 116, 86, 101, 114, 115, 105, 111, 110, 105, 110, 103],  -- s3:PutBucketVersioning
    [115, 51, 58, 71, 101, 116, 66, 117, 99, 107, 101, 116, 86, 101, 114, 115, 105, 111, 110, 105, 110, 103],  -- s3:GetBucketVersioning
    [115, 51, 58, 80, 117, 116, 66, 117, 99, 107, 101, 116, 80, 111, 108, 105, 99, 121],  -- s3:PutBucketPolicy
    [115, 51, 58, 71, 101, 116, 66, 117, 99, 107, 101, 116, 80, 111, 108, 105, 99, 121],  -- s3:GetBucketPolicy
    [115, 51, 58, 68, 101, 108, 101, 116, 101, 66, 117, 99, 107, 101, 116, 80, 111, 108, 105, 99, 121],  -- s3:DeleteBucketPolicy
    [115, 51, 58, 65, 98, 111, 114, 116, 77, 117, 108, 116, 105, 112, 97, 114, 116, 85, 112, 108, 111, 97, 100],  -- s3:AbortMultipartUpload
    [115, 51, 58, 76, 105, 115, 116, 77, 117, 108, 116, 105, 112, 97, 114, 116, 85, 112, 108, 111, 97, 100, 80, 97, 114, 116, 115],  -- s3:ListMultipartUploadParts
    [115, 51, 58, 76, 105, 115, 116, 66, 117, 99, 107, 101, 116, 77, 117, 108, 116, 105, 112, 97, 114, 116, 85, 112, 108, 111, 97, 100, 115],  -- s3:ListBucketMultipartUploads
    [115, 51, 58, 80, 117, 116, 79, 98, 106, 101, 99, 116],  -- s3:PutObject
    [115, 51, 58, 71, 101, 116, 79, 98, 106, 101, 99, 116],  -- s3:GetObject
    [115, 51, 58, 71, 101, 116, 79, 98, 106, 101, 99, 116, 86, 101, 114, 115, 105, 111, 110],  -- s3:GetObjectVersion
    [115, 51, 58, 68, 101, 108, 101, 116, 101, 79, 98, 106, 101, 99, 116],  -- s3:DeleteObject
    [115, 51, 58, 71, 101, 116, 79, 98, 106, 101, 99, 116, 65, 99, 108],  -- s3:GetObjectAcl
    [115, 51, 58, 71, 101, 116, 79, 98, 106, 101, 99, 116, 65, 116, 116, 114, 105, 98, 117, 116, 101, 115],  -- s3:GetObjectAttributes
    [115, 51, 58, 80, 117, 116, 79, 98, 106, 101, 99, 116, 65, 99, 108],  -- s3:PutObjectAcl
    [115, 51, 58, 82, 101, 115, 116, 111, 114, 101, 79, 98, 106, 101, 99, 116],  -- s3:RestoreObject
    [115, 51, 58, 71, 101, 116, 66, 117, 99, 107, 101, 116, 84, 97, 103, 103, 105, 110, 103],  -- s3:GetBucketTagging
    [115, 51, 58, 80, 117, 116, 66, 117, 99, 107, 101, 116, 84, 97, 103, 103, 105, 110, 103],  -- s3:PutBucketTagging
    [115, 51, 58, 71, 101, 116, 79, 98, 106, 101, 99, 116, 84, 97, 103, 103, 105, 110, 103],  -- s3:GetObjectTagging
    [115, 51, 58, 80, 117, 116, 79, 98, 106, 101, 99, 116, 84, 97, 103, 103, 105, 110, 103],  -- s3:PutObjectTagging
    [115, 51, 58, 68, 101, 108, 101, 116, 101, 79, 98, 106, 101, 99, 116, 84, 97, 103, 103, 105, 110, 103],  -- s3:DeleteObjectTagging
    [115, 51, 58, 76, 105, 115, 116, 66, 117, 99, 107, 101, 116, 86, 101, 114, 115, 105, 111, 110, 115],  -- s3:ListBucketVersions
    [115, 51, 58, 76, 105, 115, 116, 66, 117, 99, 107, 101, 116],  -- s3:ListBucket
    [115, 51, 58, 80, 117, 116, 66, 117, 99, 107, 101, 116, 79, 98, 106, 101, 99, 116, 76, 111, 99, 107, 67, 111, 110, 102, 105, 103, 117, 114, 97, 116, 105, 111, 110],  -- s3:PutBucketObjectLockConfiguration
    [115, 51, 58, 71, 101, 116, 79, 98, 106, 101, 99, 116, 76, 101, 103, 97, 108, 72, 111, 108, 100],  -- s3:GetObjectLegalHold
    [115, 51, 58, 80, 117, 116, 79, 98, 106, 101, 99, 116, 76, 101, 103, 97, 108, 72, 111, 108, 100],  -- s3:PutObjectLegalHold
    [115, 51, 58, 71, 101, 116, 79, 98, 106, 101, 99, 116, 82, 101, 116, 101, 110, 116, 105, 111, 110],  -- s3:GetObjectRetention
    [115, 51, 58, 80, 117, 116, 79, 98, 106, 101, 99, 116, 82, 101, 116, 101, 110, 116, 105, 111, 110],  -- s3:PutObjectRetention
    [115, 51, 58, 66, 121, 112, 97, 115, 115, 71, 111, 118, 101, 114, 110, 97, 110, 99, 101, 82, 101, 116, 101, 110, 116, 105, 111, 110],  -- s3:BypassGovernanceRetention
    [115, 51, 58, 80, 117, 116, 66, 117, 99, 107, 101, 116, 79, 119, 110, 101, 114, 115, 104, 105, 112, 67, 111, 110, 116, 114, 111, 108, 115],  -- s3:PutBucketOwnershipControls
    [115, 51, 58, 71, 101, 116, 66, 117, 99, 107, 101, 116, 79, 119, 110, 101, 114, 115, 104, 105, 112, 67, 111, 110, 116, 114, 111, 108, 115],  -- s3:GetBucketOwnershipControls
    [115, 51, 58, 80, 117, 116, 66, 117, 99, 107, 101, 116, 67, 79, 82, 83],  -- s3:PutBucketCORS
    [115, 51, 58, 71, 101, 116, 66, 117, 99, 107, 101, 116, 67, 79, 82, 83],  -- s3:GetBucketCORS
    [115, 51, 58, 42]  -- s3:*
  ]

/-- keys of `supportedObjectActionList`; `s3:*` last -/
def objectActions : List Bytes := [
    [115, 51, 58, 65, 98, 111, 114, 116, 77, 117, 108, 116, 105, 112, 97, 114, 116, 85, 112, 108, 111, 97, 100],  -- s3:AbortMultipartUpload
    [115, 51, 58, 76, 105, 115, 116, 77, 117, 108, 116, 105, 112, 97, 114, 116, 85, 112, 108, 111, 97, 100, 80, 97, 114, 116, 115],  -- s3:ListMultipartUploadParts
    [115, 51, 58, 80, 117, 116, 79, 98, 106, 101, 99, 116],  -- s3:PutObject
    [115, 51, 58, 71, 101, 116, 79, 98, 106, 101, 99, 116],  -- s3:GetObject
    [115, 51, 58, 71, 101, 116, 79, 98, 106, 101, 99, 116, 86, 101, 114, 115, 105, 111, 110],  -- s3:GetObjectVersion
    [115, 51, 58, 68, 101, 108, 101, 116, 101, 79, 98, 106, 101, 99, 116],  -- s3:DeleteObject
    [115, 51, 58, 71, 101, 116, 79, 98, 106, 101, 99, 116, 65, 99, 108],  -- s3:GetObjectAcl
    [115, 51, 58, 71, 101, 116, 79, 98, 106, 101, 99, 116, 65, 116, 116, 114, 105, 98, 117, 116, 101, 115],  -- s3:GetObjectAttributes
    [115, 51, 58, 80, 117, 116, 79, 98, 106, 101, 99, 116, 65, 99, 108],  -- s3:PutObjectAcl
    [115, 51, 58, 82, 101, 115, 116, 111, 114, 101, 79, 98, 106, 101, 99, 116],  -- s3:RestoreObject
    [115, 51, 58, 71, 101, 116, 79, 98, 106, 101, 99, 116, 84, 97, 103, 103, 105, 110, 103],  -- s3:GetObjectTagging
    [115, 51, 58, 80, 117, 116, 79, 98, 106, 101, 99, 116, 84, 97, 103, 103, 105, 110, 103],  -- s3:PutObjectTagging
    [115, 51, 58, 68, 101, 108, 101, 116, 101, 79, 98, 106, 101, 99, 116, 84, 97, 103, 103, 105, 110, 103],  -- s3:DeleteObjectTagging
    [115, 51, 58, 71, 101, 116, 79, 98, 106, 101, 99, 116, 76, 101, 103, 97, 108, 72, 111, 108, 100],  -- s3:GetObjectLegalHold
    [115, 51, 58, 80, 117, 116, 79, 98, 106, 101, 99, 116, 76, 101, 103, 97, 108, 72, 111, 108, 100],  -- s3:PutObjectLegalHold
    [115, 51, 58, 71, 101, 116, 79, 98, 106, 101, 99, 116, 82, 101, 116, 101, 110, 116, 105, 111, 110],  -- s3:GetObjectRetention
    [115, 51, 58, 80, 117, 116, 79, 98, 106, 101, 99, 116, 82, 101, 116, 101, 110, 116, 105, 111, 110],  -- s3:PutObjectRetention
    [115, 51, 58, 66, 121, 112, 97, 115, 115, 71, 111, 118, 101, 114, 110, 97, 110, 99, 101, 82, 101, 116, 101, 110, 116, 105, 111, 110],  -- s3:BypassGovernanceRetention
    [115, 51, 58, 42]  -- s3:*
  ]

/-! ### decoded policy -/

structure Stmt where
  effect : Bytes
  principals : List Bytes
  actions : List Bytes
  resources : List Bytes     -- patterns, ARN prefix already stripped (as stored by `Resources.Add`)
  deriving Repr, DecidableEq

abbrev Policy := List Stmt

/-! ### evaluation -/

/-- `Action.WildCardMatch` -/
def wildCardMatch (a act : Bytes) : Bool :=
  if hasSuffix a starLit then hasPrefix act (trimSuffix a starLit) else false

/-- `Actions.FindMatch` -/
def actionsFindMatch (acts : List Bytes) (act : Bytes) : Bool :=
  if acts.contains allActions then true
  else if acts.contains act then true
  else acts.any fun a => hasSuffix a starLit && wildCardMatch a act

/-- `Principals.Contains` -/
def principalsContains (ps : List Bytes) (who : Bytes) : Bool :=
  if ps.contains starLit then true else ps.contains who

/-- `Resources.FindMatch` -/
def resourcesFindMatch (rs : List Bytes) (res : Bytes) : Bool :=
  rs.any fun r => Glob.match r res

/-- `BucketPolicyItem.findMatch` -/
def stmtFindMatch (st : Stmt) (who act res : Bytes) : Bool :=
  principalsContains st.principals who && actionsFindMatch st.actions act &&
    resourcesFindMatch st.resources res

/-- the loop of `BucketPolicy.isAllowed`; `acc` is the local `isAllowed` -/
def isAllowedLoop (who act res : Bytes) : List Stmt → Bool → Bool
  | [], acc => acc
  | st :: rest, acc =>
    if stmtFindMatch st who act res then
      if st.effect = allowLit then isAllowedLoop who act res rest true
      else if st.effect = denyLit then false
      else isAllowedLoop who act res rest acc
    else isAllowedLoop who act res rest acc

/-- `BucketPolicy.isAllowed` -/
def isAllowed (pol : Policy) (who act res : Bytes) : Bool := isAllowedLoop who act res pol false

/-- the resource string built by `VerifyBucketPolicy` -/
def verifyResource (bucket object : Bytes) : Bytes :=
  if object ≠ [] then bucket ++ slashLit ++ object else bucket

/-- `VerifyBucketPolicy` after decoding: `true` = nil error, `false` = AccessDenied -/
def verify (pol : Policy) (access bucket object act : Bytes) : Bool :=
  isAllowed pol access act (verifyResource bucket object)

/-! ### validation of a decoded policy -/

inductive VErr where
  | invalidEffect | invalidPrincipal | invalidResource | resourceMismatch | invalidAction
  | invalidJson | emptyStatement | missingStatement
  | missingPrincipal | missingAction | missingResource | panic
  deriving Repr, DecidableEq

/-- `BucketPolicyAccessType.Validate` -/
def effectValidate (e : Bytes) : Except VErr Unit :=
  if e = allowLit ∨ e = denyLit then .ok () else .error .invalidEffect

/-- `Principals.ToSlice` -/
def toSlice (ps : List Bytes) : List Bytes := ps.filter (· ≠ starLit)

/-- `Principals.Validate` (with `CheckIfAccountsExist`) -/
def principalsValidate (acct : Bytes → Bool) (ps : List Bytes) : Except VErr Unit :=
  if ps.contains starLit then
    if ps.length = 1 then .ok () else .error .invalidPrincipal
  else if ((toSlice ps).filter (fun a => !acct a)).length > 0 then .error .invalidPrincipal
  else .ok ()

/-- `Resources.Validate`: `resource != bucket && !strings.HasPrefix(resource, bucket+"/")` is refused -/
def resourcesValidate (bucket : Bytes) (rs : List Bytes) : Except VErr Unit :=
  if rs.all (fun r => !(r ≠ bucket && !hasPrefix r (bucket ++ slashLit))) then .ok ()
  else .error .invalidResource

/-- `Resources.ContainsObjectPattern` -/
def containsObjectPattern (rs : List Bytes) : Bool :=
  rs.any fun r => r = starLit || containsByte r 47

/-- `Resources.ContainsBucketPattern` -/
def containsBucketPattern (rs : List Bytes) : Bool :=
  rs.any fun r => r = starLit || !containsByte r 47

inductive Kind where
  | all        -- `IsObjectAction` returned nil (`s3:*`)
  | object | bucket
  | panic      -- `a[len(a)-1]` on the empty string
  deriving Repr, DecidableEq

/-- `Action.IsObjectAction` -/
def actionKind (a : Bytes) : Kind :=
  if a = allActions then .all else
  match a.getLast? with
  | none => .panic
  | some c =>
    if c = 42 then
      if objectActions.any (fun act => hasPrefix act (trimSuffix a starLit)) then .object else .bucket
    else if objectActions.contains a then .object else .bucket

/-- the `for action := range bpi.Actions` loop of `BucketPolicyItem.Validate`, over the actions in
the order iterated -/
def kindLoop (objRes bktRes : Bool) : List Bytes → Except VErr Unit
  | [] => .ok ()
  | a :: rest =>
    match actionKind a with
    | .all => kindLoop objRes bktRes rest  -- `continue`
    | .panic => .error .panic
    | .object => if !objRes then .error .resourceMismatch else kindLoop objRes bktRes rest
    | .bucket => if !bktRes then .error .resourceMismatch else kindLoop objRes bktRes rest

/-- `BucketPolicyItem.Validate` -/
def validateStmt (bucket : Bytes) (acct : Bytes → Bool) (st : Stmt) : Except VErr Unit := do
  effectValidate st.effect
  -- an absent member leaves its map nil: `len(m) == 0` → "Missing required field …"
  if st.principals.length = 0 then .error .missingPrincipal
  else if st.actions.length = 0 then .error .missingAction
  else if st.resources.length = 0 then .error .missingResource
  else do
    principalsValidate acct st.principals
    resourcesValidate bucket st.resources
    kindLoop (containsObjectPattern st.resources) (containsBucketPattern st.resources) st.actions

/-- `BucketPolicy.Validate` -/
def validatePolicy (bucket : Bytes) (acct : Bytes → Bool) : Policy → Except VErr Unit
  | [] => .ok ()
  | st :: rest => do
    validateStmt bucket acct st
    validatePolicy bucket acct rest

/-! ### the decision logic of decoding -/

/-- `Action.IsValid` -/
def actionIsValid (a : Bytes) : Bool :=
  if !hasPrefix a s3Prefix then false
  else if a = allActions then true
  else if a.getLast? = some 42 then
    supportedActions.any fun act => hasPrefix act (trimSuffix a starLit)
  else supportedActions.contains a

/-- `isValidResource`: `none` = invalid, `some pattern` = the stored pattern -/
def isValidResource (rc : Bytes) : Option Bytes :=
  if !hasPrefix rc arnPrefix then none else
  let res := trimPrefix rc arnPrefix
  if res = [] then none
  else if hasPrefix res slashLit then none
  else some res

/-- generic shape of one JSON member as the `UnmarshalJSON` hooks see it -/
inductive Field where
  | missing                 -- member absent: the hook is not called, the map stays nil
  | str (s : Bytes)         -- a JSON string (for Principal also `{"AWS": string}`)
  | arr (l : List Bytes)    -- a JSON array of strings (`null` decodes like `[]`)
  | bad                     -- any other JSON value: type error of encoding/json
  deriving Repr, DecidableEq

structure RawStmt where
  effect : Field
  principal : Field
  action : Field
  resource : Field
  deriving Repr, DecidableEq

inductive RawDoc where
  | badJson                          -- not JSON / not starting with `{` / wrong type somewhere outside the hooks
  | noStatement                      -- no `Statement` member (or `null`)
  | stmts (l : List RawStmt)
  deriving Repr, DecidableEq

/-- insert the results of `f` into a fresh map (first error aborts; duplicates collapse) -/
def addAll (f : Bytes → Except VErr Bytes) : List Bytes → Except VErr (List Bytes)
  | [] => .ok []
  | s :: rest => do
    let k ← f s
    let ks ← addAll f rest
    pure (if ks.contains k then ks else k :: ks)

def addAction (s : Bytes) : Except VErr Bytes :=
  if actionIsValid s then .ok s else .error .invalidAction

def addResource (s : Bytes) : Except VErr Bytes :=
  match isValidResource s with
  | some p => .ok p
  | none => .error .invalidResource

/-- the common shape of `Actions.UnmarshalJSON` / `Resources.UnmarshalJSON` / `Principals.UnmarshalJSON` -/
def decodeField (empty : VErr) (add : Bytes → Except VErr Bytes) : Field → Except VErr (List Bytes)
  | .missing => .ok []
  | .bad => .error .invalidJson
  | .str s => if s = [] then .error empty else addAll add [s]
  | .arr l => if l = [] then .error empty else addAll add l

def decodeEffect : Field → Except VErr Bytes
  | .missing => .ok []
  | .str s => .ok s
  | _ => .error .invalidJson

def decodeStmt (r : RawStmt) : Except VErr Stmt := do
  let e ← decodeEffect r.effect
  let ps ← decodeField .invalidPrincipal (fun s => .ok s) r.principal
  let as ← decodeField .invalidAction addAction r.action
  let rs ← decodeField .invalidResource addResource r.resource
  pure ⟨e, ps, as, rs⟩

def decodeStmts : List RawStmt → Except VErr Policy
  | [] => .ok []
  | r :: rest => do
    let st ← decodeStmt r
    let sts ← decodeStmts rest
    pure (st :: sts)

def decodeDoc : RawDoc → Except VErr Policy
  | .badJson => .error .invalidJson
  | .noStatement => .error .missingStatement
  | .stmts l => decodeStmts l

/-- apply an iteration order to every statement's action set -/
def reorder (ord : List Bytes → List Bytes) (pol : Policy) : Policy :=
  pol.map fun st => { st with actions := ord st.actions }

/-- `ValidatePolicyDocument`; `ord` = the order in which Go happens to iterate each action map -/
def validateDocument (ord : List Bytes → List Bytes) (bucket : Bytes) (acct : Bytes → Bool)
    (doc : RawDoc) : Except VErr Unit := do
  let pol ← decodeDoc doc
  if pol.length = 0 then .error .emptyStatement
  else validatePolicy bucket acct (reorder ord pol)

end Vgw.Model.Policy
