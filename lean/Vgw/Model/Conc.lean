/-
  Model.Conc — concurrent requests on ONE key of one bucket of the posix backend, as a small-step
  transition system over an abstract filesystem.

  What is modelled (transcribed from backend/posix/posix.go PutObject / CopyObject (= PutObject on
  the destination, then a stat of it) / CompleteMultipartUpload / DeleteObject / GetObject /
  HeadObject, backend/posix/with_otmpfile.go openTmpFile / link / linkAndReplace / fallbackLink,
  without_otmpfile.go link, backend/common.go MoveFile, backend/meta/xattr.go,
  github.com/pkg/xattr list/get). `Variant` / `codeVariant` name which code the configurations stand
  for: the code as it is, and the regression models (publication by remove-then-link before 4399f3e,
  reads by path before 109ae9c, CopyObject failing on its final stat before 4e82e48):

  * the directory entry of the key (`FS.key : Option Nat`, an inode id) and the table of inodes that
    were ever published under the key (`FS.inodes`, append-only; the id of an inode is its index, so
    ids are in publication order);
  * per request kind and strategy the LIST OF ATOMIC FILESYSTEM STEPS (`Act`) that the backend
    performs on the key, in program order, with the data flow between them (what is remembered from
    a `stat`, which names a `listxattr` returned, …). A request's remaining program is `Local.prog`;
    one `step` pops the head action of ONE request and executes it atomically. The kernel's syscall
    atomicity is the stated assumption.
  * an inode that is not yet published (O_TMPFILE inode, or a CreateTemp file under `.sgwtmp` whose
    random name no request resolves) is reachable only through the file descriptor of the request
    that created it: it lives in that request's `Local.tmp` until the publication step.

  There is no process structure in the state: the posix backend keeps no lock, cache or any other
  in-memory state about objects (struct `Posix` has only configuration fields), so a step reads and
  writes only the filesystem state and the request's own locals — requests served by one process or
  by several processes on the same storage have the same step semantics.

  What the model cannot exhibit: sidecar metadata (attributes keyed by name, not by inode), bucket
  versioning, directory objects, nested keys (MkdirAll / removeParents on parent directories),
  tagging / legal hold / retention headers of PutObject (set by path after publication), errors of
  the kernel other than ENOENT / EEXIST / ERANGE / ENODATA, short reads.
-/
namespace Vgw.Model.Conc

/-- attribute names the object operations use (`user.` xattrs). `umeta k` = `X-Amz-Meta.m<k>`. -/
inductive Attr where
  | umeta (k : Nat) | ctype | cenc | cdisp | clang | cache | expires | etag | tags | checksums
deriving DecidableEq, Repr, Inhabited

abbrev Val := Nat

/-- object data: `len` bytes of the stream identified by `tag`. -/
structure Blob where
  tag : Nat
  len : Nat
deriving DecidableEq, Repr, Inhabited

structure Inode where
  data  : Blob
  attrs : List (Attr × Val)
deriving DecidableEq, Repr, Inhabited

/-- bytes of the name in a `listxattr` answer: `strlen("user." ++ name) + 1` (user metadata keys are
    two characters long in the correspondence runs). -/
def Attr.nameLen : Attr → Nat
  | .umeta _ => 19 | .ctype => 18 | .cenc => 22 | .cdisp => 25 | .clang => 22 | .cache => 19
  | .expires => 13 | .etag => 10 | .tags => 19 | .checksums => 15

def listLen : List (Attr × Val) → Nat
  | [] => 0
  | (a, _) :: l => a.nameLen + listLen l

def getAttr : List (Attr × Val) → Attr → Option Val
  | [], _ => none
  | (b, v) :: l, a => if b = a then some v else getAttr l a

/-- `fsetxattr`: replace or append (the kernel keeps one value per name). -/
def setAttr : List (Attr × Val) → Attr → Val → List (Attr × Val)
  | [], a, v => [(a, v)]
  | (b, w) :: l, a, v => if b = a then (b, v) :: l else (b, w) :: setAttr l a v

/-- user-metadata keys in `listxattr` order. -/
def umetaKeys : List (Attr × Val) → List Nat
  | [] => []
  | (.umeta k, _) :: l => k :: umetaKeys l
  | _ :: l => umetaKeys l

structure FS where
  inodes : List Inode := []
  key    : Option Nat := none
deriving DecidableEq, Repr, Inhabited

def FS.cur (fs : FS) : Option Inode := fs.key.bind (fs.inodes[·]?)

/-- well-formed filesystem state: the key's entry, if any, is the newest inode of the table
    (every publication appends; the initial states are "absent" and "one complete object"). -/
def KeyLast (fs : FS) : Prop := ∀ i, fs.key = some i → i + 1 = fs.inodes.length

/-- how new content is published (backend/posix/with_otmpfile.go link / linkAndReplace /
    fallbackLink, without_otmpfile.go link, backend/common.go MoveFile):
    * `otmp` — the code as it is, O_TMPFILE: lstat of the name (a directory there is removed), linkat
      of the unnamed file into the name; if the name is taken (EEXIST): linkat to a fresh name under
      `.sgwtmp`, then rename over the object;
    * `mktemp` — the code as it is with `--disableotmp` (or no O_TMPFILE support): CreateTemp, lstat,
      rename over the object;
    * `portable` — without_otmpfile.go (non-Linux build): CreateTemp, rename;
    * `otmpOld`, `mktempOld` — REGRESSION variants (the code before commit 4399f3e): the name is
      removed first, then linkat (on EEXIST: remove and retry) resp. rename. Kept so that the check
      recognises the old shape and so that the window it opens stays documented by a witness. -/
inductive Strategy where
  | otmp | mktemp | portable | otmpOld | mktempOld
deriving DecidableEq, Repr, Inhabited

/-- how GetObject/HeadObject read: `byFd` = the code as it is (since 109ae9c): open first, then fstat
    and the attributes through the descriptor; `byPath` = REGRESSION variant: stat, attributes and
    open each by path. -/
inductive ReadMode where
  | byPath | byFd
deriving DecidableEq, Repr, Inhabited

structure Cfg where
  strat : Strategy := .otmp
  rmode : ReadMode := .byFd
  /-- REGRESSION variant (before 4e82e48): CopyObject fails (500) when its stat of the destination
      after the publication finds nothing. -/
  copyStatFatal : Bool := false
deriving DecidableEq, Repr, Inhabited

inductive Kind where
  | put     -- PutObject
  | copy    -- CopyObject from another (quiescent) key: PutObject on the destination, then os.Stat of it
  | mpu     -- CompleteMultipartUpload
  | delete | get | head
deriving DecidableEq, Repr, Inhabited

/-- the payload of a write: data and the attributes in the order the code sets them through the fd. -/
structure Write where
  blob  : Blob := ⟨0, 0⟩
  attrs : List (Attr × Val) := []
deriving DecidableEq, Repr, Inhabited

structure Req where
  kind : Kind
  w    : Write := {}
deriving DecidableEq, Repr, Inhabited

def Kind.isWrite : Kind → Bool
  | .put | .copy | .mpu => true
  | _ => false

def Kind.isRead : Kind → Bool
  | .get | .head => true
  | _ => false

/-- atomic filesystem steps on the key (one syscall each). -/
inductive Act where
  -- writers
  | wstat                      -- os.Stat(name): existing-object-is-directory check, result otherwise unused
  | opentmp                    -- open(O_TMPFILE) / CreateTemp under .sgwtmp, then the body is written through the fd
  | setattr (a : Attr) (v : Val)   -- fsetxattr(fd)
  | unlink                     -- os.Remove(objPath): unlinkat
  | rmdirProbe                 -- os.Remove's second syscall after ENOENT: unlinkat(AT_REMOVEDIR)
  | lstat                      -- os.Rename's Lstat of the destination
  | linkat                     -- (old) linkat(/proc/self/fd/N → key); EEXIST → remove and retry
  | linkatx                    -- linkat(/proc/self/fd/N → key); EEXIST → linkAndReplace (linktmp, rename)
  | rename                     -- renameat(temp → key)
  | linktmp                    -- linkat(/proc/self/fd/N → a fresh name under .sgwtmp)
  | cstat                      -- CopyObject: os.Stat(dstObjdPath) after PutObject returned (LastModified); ENOENT is tolerated
  -- delete
  | dstat | dunlink
  -- readers
  | rstat | listsize | listnames | getmeta (k : Nat) | gethdr (a : Attr) | getetag | gettags | ropen
  | statign                    -- HeadObject: os.Stat inside GetObjectLegalHold / GetObjectRetention, result unused
deriving DecidableEq, Repr, Inhabited

/-- what GetObject / HeadObject hand to the controller. `size` is the Content-Length (from stat),
    `body` the data of the opened inode (GET only): the client receives the first `size` bytes of it,
    or a short body when it is shorter. -/
structure ReadResp where
  size : Nat := 0
  body : Option Blob := none
  etag : Option Val := none
  umeta : List (Nat × Val) := []
  hdrs : List (Attr × Val) := []
  tags : Option Val := none      -- GET: the tag set (x-amz-tagging-count is derived from it)
deriving DecidableEq, Repr, Inhabited

inductive Resp where
  | ok | noSuchKey
  | err                        -- InternalError (regression variant of CopyObject: "stat dst object")
  | read (r : ReadResp)
deriving DecidableEq, Repr, Inhabited

structure Local where
  prog   : List Act
  tmp    : Inode := ⟨⟨0, 0⟩, []⟩       -- writers: the unpublished inode
  fd     : Option Nat := none         -- readers: inode bound by open
  probe  : Nat := 0                   -- readers: size answered by listxattr(path, NULL, 0)
  acc    : ReadResp := {}             -- readers: what was collected so far
  views  : List (Option Nat) := []    -- ghost: the directory entry seen at each access of the key, newest first
  result : Option Resp := none
deriving DecidableEq, Repr, Inhabited

def hdrAttrs : List Attr := [.ctype, .cenc, .cdisp, .clang, .cache, .expires]

def publishProg : Strategy → List Act
  | .otmp => [.lstat, .linkatx]
  | .mktemp => [.lstat, .lstat, .rename]
  | .portable => [.lstat, .rename]
  | .otmpOld => [.unlink, .linkat]
  | .mktempOld => [.unlink, .lstat, .rename]

def readAttrProg : List Act :=
  [.listsize, .listnames] ++ hdrAttrs.map .gethdr ++ [.getetag]

def Attr.isHdr : Attr → Bool
  | .ctype | .cenc | .cdisp | .clang | .cache | .expires => true
  | _ => false

def setProg (l : List (Attr × Val)) : List Act := l.map (fun p => .setattr p.1 p.2)

def program (c : Cfg) (rq : Req) : List Act :=
  match rq.kind with
  | .put => [.wstat, .opentmp] ++ setProg rq.w.attrs ++ publishProg c.strat
  | .copy => [.wstat, .opentmp] ++ setProg rq.w.attrs ++ publishProg c.strat ++ [.cstat]
  -- CompleteMultipartUpload: parts are copied into the temp file, the key is stat'ed (and, in a versioned
  -- bucket, archived), THEN the content headers of the upload, user metadata, tags and the ETag are stored
  -- (since c0bb5f7 / its follow-up; before, the content headers were stored ahead of the stat)
  | .mpu => [.opentmp, .wstat] ++ setProg (rq.w.attrs.filter (·.1.isHdr)) ++ setProg (rq.w.attrs.filter (!·.1.isHdr))
            ++ publishProg c.strat
  | .delete => [.dstat, .dunlink]
  | .get => match c.rmode with
    | .byPath => [.rstat] ++ readAttrProg ++ [.gettags, .ropen]
    | .byFd => [.ropen, .rstat] ++ readAttrProg ++ [.gettags]
  | .head => match c.rmode with
    | .byPath => [.rstat] ++ readAttrProg ++ [.statign, .statign]
    | .byFd => [.ropen, .rstat] ++ readAttrProg ++ [.statign, .statign]

def Act.isMeta : Act → Bool
  | .getmeta _ | .gethdr _ | .listnames => true
  | _ => false

/-- loadObjectMetaData returns the empty record when the listing fails or is empty: the remaining
    attribute reads of that function are skipped. -/
def dropMeta (p : List Act) : List Act := p.filter (fun a => !a.isMeta)

/-- the inode a reading step looks at: the key's current entry, or (fix shape) the opened one. -/
def target (c : Cfg) (fs : FS) (l : Local) : Option Nat :=
  match c.rmode with
  | .byPath => fs.key
  | .byFd => l.fd

def fail (l : Local) : Local := { l with prog := [], result := some .noSuchKey }

/-- one reading step against the inode `t` it resolves to (`none` = ENOENT). -/
def readAct (t : Option Inode) (l : Local) : Act → Local
  | .rstat => match t with
    | none => fail l
    | some ino => { l with acc := { l.acc with size := ino.data.len } }
  | .listsize => match t with
    | none => { l with prog := dropMeta l.prog }
    | some ino =>
      if listLen ino.attrs = 0 then { l with prog := dropMeta l.prog }
      else { l with probe := listLen ino.attrs }
  | .listnames => match t with
    | none => { l with prog := dropMeta l.prog }
    | some ino =>
      if listLen ino.attrs > l.probe + 1 then { l with prog := dropMeta l.prog }   -- ERANGE
      else { l with prog := (umetaKeys ino.attrs).map .getmeta ++ l.prog }
  | .getmeta k => match t.bind (fun ino => getAttr ino.attrs (.umeta k)) with
    | none => l
    | some v => { l with acc := { l.acc with umeta := l.acc.umeta ++ [(k, v)] } }
  | .gethdr a => match t.bind (fun ino => getAttr ino.attrs a) with
    | none => l
    | some v => { l with acc := { l.acc with hdrs := l.acc.hdrs ++ [(a, v)] } }
  | .getetag => { l with acc := { l.acc with etag := t.bind (fun ino => getAttr ino.attrs .etag) } }
  | .gettags => match t with
    | none => fail l
    | some ino => { l with acc := { l.acc with tags := getAttr ino.attrs .tags } }
  | _ => l

/-- execute action `a` of request `rq` (whose remaining program `l.prog` no longer contains `a`). -/
def execAct (c : Cfg) (rq : Req) (fs : FS) (l : Local) (a : Act) : FS × Local :=
  let l := { l with views := fs.key :: l.views }
  match a with
  | .wstat | .lstat | .rmdirProbe | .statign | .linktmp => (fs, l)
  | .opentmp => (fs, { l with tmp := ⟨rq.w.blob, []⟩ })
  | .setattr a v => (fs, { l with tmp := { l.tmp with attrs := setAttr l.tmp.attrs a v } })
  | .unlink => match fs.key with
    | some _ => ({ fs with key := none }, l)
    | none => (fs, { l with prog := .rmdirProbe :: l.prog })
  | .linkat => match fs.key with
    | none => ({ inodes := fs.inodes ++ [l.tmp], key := some fs.inodes.length }, l)
    | some _ => (fs, { l with prog := .unlink :: .linkat :: l.prog })          -- EEXIST
  | .linkatx => match fs.key with
    | none => ({ inodes := fs.inodes ++ [l.tmp], key := some fs.inodes.length }, l)
    | some _ => (fs, { l with prog := .linktmp :: .lstat :: .rename :: l.prog })   -- EEXIST: linkAndReplace
  | .rename => ({ inodes := fs.inodes ++ [l.tmp], key := some fs.inodes.length }, l)
  | .cstat =>
    if c.copyStatFatal = true ∧ fs.key = none then (fs, { l with prog := [], result := some .err }) else (fs, l)
  | .dstat => match fs.key with
    | none => (fs, { l with prog := [], result := some .ok })    -- "AWS returns success if the object does not exist"
    | some _ => (fs, l)
  | .dunlink => match fs.key with
    | some _ => ({ fs with key := none }, l)
    | none => (fs, { l with prog := [.rmdirProbe], result := some .noSuchKey })
  | .ropen => match fs.key with
    | none => (fs, fail l)
    | some i => (fs, { l with fd := some i })
  | a => (fs, readAct ((target c fs l).bind (fs.inodes[·]?)) l a)

/-- the response is computed from request-local state when the program is exhausted. -/
def finalize (rq : Req) (fs : FS) (l : Local) : Local :=
  match l.prog, l.result with
  | [], none =>
    match rq.kind with
    | .get => { l with result := some (.read { l.acc with body := (l.fd.bind (fs.inodes[·]?)).map (·.data) }) }
    | .head => { l with result := some (.read l.acc) }
    | _ => { l with result := some .ok }
  | _, _ => l

/-- ghost record of one executed step. -/
structure Ev where
  rid : Nat
  act : Act
  saw : Option Nat      -- the key's directory entry before the step
  now : Option Nat      -- … and after it
  fin : Bool            -- the request is finished after this step
deriving DecidableEq, Repr, Inhabited

structure State where
  fs    : FS
  reqs  : List (Req × Local)
  trace : List Ev := []          -- ghost, newest first
deriving Repr, Inhabited

def init (c : Cfg) (fs : FS) (rqs : List Req) : State :=
  { fs := fs, reqs := rqs.map (fun rq => (rq, { prog := program c rq })) }

def Local.done (l : Local) : Bool := l.prog.isEmpty

/-- request `i` executes its next step; `none` when there is no such request or it has finished. -/
def step (c : Cfg) (s : State) (i : Nat) : Option State :=
  match s.reqs[i]? with
  | none => none
  | some (rq, l) =>
    match l.prog with
    | [] => none
    | a :: rest =>
      let r := execAct c rq s.fs { l with prog := rest } a
      let l' := finalize rq r.1 r.2
      some { fs := r.1, reqs := s.reqs.set i (rq, l'),
             trace := { rid := i, act := a, saw := s.fs.key, now := r.1.key, fin := l'.done } :: s.trace }

/-- run a schedule (a list of request indices); choices that cannot step are skipped. -/
def run (c : Cfg) (s : State) : List Nat → State
  | [] => s
  | i :: sched => run c ((step c s i).getD s) sched

/-- `Reach c s0 s`: `s` is reachable from `s0` by steps. -/
inductive Reach (c : Cfg) (s0 : State) : State → Prop where
  | refl : Reach c s0 s0
  | step {s s' : State} {i : Nat} : Reach c s0 s → step c s i = some s' → Reach c s0 s'

/-- which code the configurations stand for: `current` = the code as it is; `old` = REGRESSION model:
    publication by remove-then-link (before 4399f3e), GetObject/HeadObject by path (before 109ae9c),
    CopyObject failing on its final stat (before 4e82e48). -/
inductive Variant where
  | old | current
deriving DecidableEq, Repr, Inhabited

/-- the configuration of a variant; `otmp` = the gateway uses O_TMPFILE (default) or not (`--disableotmp`). -/
def Variant.cfg (v : Variant) (otmp : Bool) : Cfg :=
  match v with
  | .old => ⟨if otmp then .otmpOld else .mktempOld, .byPath, true⟩
  | .current => ⟨if otmp then .otmp else .mktemp, .byFd, false⟩

/-- THE variant the code under test has (one constant to switch). -/
def codeVariant : Variant := .current

def State.resp (s : State) (i : Nat) : Option Resp :=
  match s.reqs[i]? with
  | some (_, l) => if l.done then l.result else none
  | none => none

def applySets (l0 : List (Attr × Val)) (sets : List (Attr × Val)) : List (Attr × Val) :=
  sets.foldl (fun l p => setAttr l p.1 p.2) l0

/-- the inode a complete write leaves behind. -/
def inodeOf (w : Write) : Inode := ⟨w.blob, applySets [] w.attrs⟩

/-- the attributes of a write request in the order its program sets them. -/
def Req.sets (rq : Req) : List (Attr × Val) :=
  match rq.kind with
  | .mpu => rq.w.attrs.filter (·.1.isHdr) ++ rq.w.attrs.filter (!·.1.isHdr)
  | _ => rq.w.attrs

/-- the complete object of write request `rq`: its data and all of its attributes. -/
def written (rq : Req) : Inode := ⟨rq.w.blob, applySets [] rq.sets⟩

def hdrsOf : List (Attr × Val) → List Attr → List (Attr × Val)
  | _, [] => []
  | l, a :: as => match getAttr l a with
    | some v => (a, v) :: hdrsOf l as
    | none => hdrsOf l as

def metaOf (l : List (Attr × Val)) : List Nat → List (Nat × Val)
  | [] => []
  | k :: ks => match getAttr l (.umeta k) with
    | some v => (k, v) :: metaOf l ks
    | none => metaOf l ks

/-- what a GET (`head = false`) or HEAD of the object stored in `ino` returns when nothing else runs. -/
def observe (ino : Inode) (head : Bool) : ReadResp :=
  { size := ino.data.len
    body := if head then none else some ino.data
    etag := getAttr ino.attrs .etag
    umeta := metaOf ino.attrs (umetaKeys ino.attrs)
    hdrs := hdrsOf ino.attrs hdrAttrs
    tags := if head then none else getAttr ino.attrs .tags }

end Vgw.Model.Conc
