/-
  C18 — model of the S3-proxy backend's translation layer (backend/s3proxy/s3.go).

  The per-method facts (which request field feeds which field of the SDK input, what is cleared or
  normalised before the call, which SDK output fields are copied into the result, which output
  pointers are dereferenced without a nil test, whether the output is touched before the error is
  tested, how errors leave the method) are GENERATED from the source on every run:
  `Vgw.Gen.ProxyFacts` (extract/proxyfacts). This file is hand-written:

  * the semantics of those facts — `sdkInput` (what reaches the backend for a request) and
    `gwResult` (what reaches the client for a backend answer): "field f reaches the backend iff
    the generated table says so";
  * the specification tables `relevantReq` / `relevantResp`: the request fields the front end
    (s3api/controllers/base.go) really fills in and the property talks about, and the SDK output
    fields the front end renders (status, error code, body, ETag, size, content headers, user
    metadata, tags, listings, multipart);
  * the error mapping `handleError`, the ACL-in-a-bucket-tag logic (`CreateBucket`,
    `GetBucketAcl`, `PutBucketAcl`) and the client-facing bucket tagging calls, transcribed.

  What the model cannot exhibit: the AWS SDK itself (serialisation, retries, checksum and
  aws-chunked middleware, escaping of `x-amz-copy-source`) — trusted; the endpoint behind the proxy.
  Core Lean only (linked into the driver).
-/
import Vgw.Gen.ProxyFacts
import Vgw.Go.Bytes
import Vgw.Go.Encoding
namespace Vgw.Model.Proxy
open Vgw Vgw.Gen.ProxyFacts

/-! ## 1. Requests: what reaches the SDK call -/

/-- The value of one request field as the front end hands it over: absent, or its textual form
(numbers, enumerations, times in their wire spelling; the zero time is the empty string). -/
abbrev Val := Option String
/-- A request / an SDK input / an SDK output / a gateway result: field name ↦ value. -/
abbrev Fields := String → Val

/-- What the wire can tell apart: an empty header or query value is the same as an absent one (the
front end always hands over `&ctx.Get(...)`, so "absent" arrives as the empty string). -/
def wire (v : Val) : Val := if v = some "" then none else v

/-- The assignments a method applies to its request before the call: fields cleared
unconditionally, and the `if input.F != nil && *input.F == <zero> { input.F = nil }` family. For
strings and times the zero value is the empty string (harmless on the wire); for numbers the zero
value is "0" — which the caller may have meant. -/
def normalise (m : Method) (f : String) (v : Val) : Val :=
  if f ∈ m.cleared then none
  else if (f ∈ m.normStr ∨ f ∈ m.normTime) ∧ v = some "" then none
  else if f ∈ m.normInt ∧ v = some "0" then none
  else v

/-- The SDK input of call `c` of method `m` for request `r`. `derive` stands for the computations
the extractor does not look into (a field whose value is not a plain copy of one request field,
e.g. `Expires`: `time.Parse(time.RFC1123, …)`; or a field the method assigns under a condition on
OTHER request fields, `condWrites`): an arbitrary function of the normalised request. -/
def sdkInput (m : Method) (c : Call) (derive : String → Fields → Val) (r : Fields) : Fields :=
  fun f =>
    if c.passthrough then
      (if m.condWrites.contains f then derive f (fun g => normalise m g (r g)) else normalise m f (r f))
    else match c.fields.find? (fun fld => fld.sdk == f) with
      | none => none
      | some fld =>
        match fld.direct, fld.req with
        | true, [src] =>
          if m.condWrites.contains src then derive f (fun g => normalise m g (r g)) else normalise m src (r src)
        | _, _ => derive f (fun g => normalise m g (r g))

/-- The call of a method that carries the client's request (the one named like the method). -/
def primaryCall (m : Method) : Option Call := m.calls.find? (fun c => c.op == m.name)

/-- Decidable criterion: request field `f` of `m` reaches field `sdk` of the primary SDK call
unchanged (up to `wire`). -/
def preservedReq (m : Method) (f sdk : String) : Bool :=
  match primaryCall m with
  | none => false
  | some c =>
    !(m.cleared.contains f) && !(m.normInt.contains f) && !(m.condWrites.contains f) &&
    (if c.passthrough then f == sdk
     else match c.fields.find? (fun fld => fld.sdk == sdk) with
       | none => false
       | some fld => fld.direct && fld.req == [f])

/-! ## 2. Answers: what reaches the client -/

/-- The gateway result of method `m` for SDK output `o`: the output itself when it is handed on,
else the struct literal of the success return. `derive` as above. -/
def gwResult (m : Method) (derive : String → Fields → Val) (o : Fields) : Fields :=
  fun f =>
    if m.outPassthrough then o f
    else match m.outFields.find? (fun fld => fld.res == f) with
      | none => none
      | some fld =>
        match fld.direct, fld.out, fld.req with
        | true, [src], [] => o src
        | _, _, _ => derive f o

/-- Decidable criterion: SDK output field `sdk` is copied to result field `res`. A container copied
whole (`Contents[].Owner`, `CommonPrefixes`, `Versions`) carries its members. -/
def copiedResp (m : Method) (sdk res : String) : Bool :=
  if m.outPassthrough then sdk == res
  else match m.outFields.find? (fun fld => fld.res == res) with
    | none => false
    | some fld => fld.direct && fld.out == [sdk] && fld.req == []

/-! ## 3. The specification tables (hand-written)

`(method, request field, SDK input field)`: the request fields the front end fills in for that
backend call (checked against the regenerated `frontendSets` in Props.C18) and that decide
something the property names. Not listed: `ExpectedBucketOwner`, `RequestPayer`, SSE-C/KMS, grant
headers of objects (the gateway has no object ACLs), `ObjectLock*` of CopyObject /
CreateMultipartUpload (the proxy backend declares object lock unsupported; the PutObject trio is
listed because clearing it turns a refusal into a success — a status). -/
def relevantReq : List (String × String × String) := [
  ("ListBuckets", "Owner", "Owner"), ("ListBuckets", "IsAdmin", "IsAdmin"),
  ("ListBuckets", "ContinuationToken", "ContinuationToken"), ("ListBuckets", "Prefix", "Prefix"),
  ("ListBuckets", "MaxBuckets", "MaxBuckets"),
  ("HeadBucket", "Bucket", "Bucket"),
  ("CreateBucket", "Bucket", "Bucket"), ("CreateBucket", "ObjectOwnership", "ObjectOwnership"),
  ("DeleteBucket", "bucket", "Bucket"),
  ("PutBucketOwnershipControls", "bucket", "Bucket"),
  ("PutBucketOwnershipControls", "ownership", "OwnershipControls.Rules[].ObjectOwnership"),
  ("GetBucketOwnershipControls", "bucket", "Bucket"), ("DeleteBucketOwnershipControls", "bucket", "Bucket"),
  ("PutBucketVersioning", "bucket", "Bucket"), ("PutBucketVersioning", "status", "VersioningConfiguration.Status"),
  ("GetBucketVersioning", "bucket", "Bucket"),
  ("PutBucketPolicy", "bucket", "Bucket"), ("PutBucketPolicy", "policy", "Policy"),
  ("GetBucketPolicy", "bucket", "Bucket"), ("DeleteBucketPolicy", "bucket", "Bucket"),
  -- objects
  ("PutObject", "Bucket", "Bucket"), ("PutObject", "Key", "Key"), ("PutObject", "Body", "Body"),
  ("PutObject", "ContentLength", "ContentLength"), ("PutObject", "ContentType", "ContentType"),
  ("PutObject", "ContentEncoding", "ContentEncoding"), ("PutObject", "ContentDisposition", "ContentDisposition"),
  ("PutObject", "ContentLanguage", "ContentLanguage"), ("PutObject", "CacheControl", "CacheControl"),
  ("PutObject", "Expires", "Expires"), ("PutObject", "Metadata", "Metadata"), ("PutObject", "Tagging", "Tagging"),
  ("PutObject", "ChecksumAlgorithm", "ChecksumAlgorithm"), ("PutObject", "ChecksumCRC32", "ChecksumCRC32"),
  ("PutObject", "ChecksumCRC32C", "ChecksumCRC32C"), ("PutObject", "ChecksumSHA1", "ChecksumSHA1"),
  ("PutObject", "ChecksumSHA256", "ChecksumSHA256"), ("PutObject", "ChecksumCRC64NVME", "ChecksumCRC64NVME"),
  ("PutObject", "ObjectLockMode", "ObjectLockMode"), ("PutObject", "ObjectLockRetainUntilDate", "ObjectLockRetainUntilDate"),
  ("PutObject", "ObjectLockLegalHoldStatus", "ObjectLockLegalHoldStatus"),
  ("HeadObject", "Bucket", "Bucket"), ("HeadObject", "Key", "Key"), ("HeadObject", "VersionId", "VersionId"),
  ("HeadObject", "PartNumber", "PartNumber"), ("HeadObject", "ChecksumMode", "ChecksumMode"),
  ("GetObject", "Bucket", "Bucket"), ("GetObject", "Key", "Key"), ("GetObject", "VersionId", "VersionId"),
  ("GetObject", "Range", "Range"), ("GetObject", "ChecksumMode", "ChecksumMode"),
  ("GetObjectAttributes", "Bucket", "Bucket"), ("GetObjectAttributes", "Key", "Key"),
  ("GetObjectAttributes", "VersionId", "VersionId"), ("GetObjectAttributes", "MaxParts", "MaxParts"),
  ("GetObjectAttributes", "PartNumberMarker", "PartNumberMarker"),
  ("CopyObject", "Bucket", "Bucket"), ("CopyObject", "Key", "Key"), ("CopyObject", "CopySource", "CopySource"),
  ("CopyObject", "ContentType", "ContentType"), ("CopyObject", "ContentEncoding", "ContentEncoding"),
  ("CopyObject", "ContentDisposition", "ContentDisposition"), ("CopyObject", "ContentLanguage", "ContentLanguage"),
  ("CopyObject", "CacheControl", "CacheControl"), ("CopyObject", "Expires", "Expires"),
  ("CopyObject", "Metadata", "Metadata"), ("CopyObject", "MetadataDirective", "MetadataDirective"),
  ("CopyObject", "Tagging", "Tagging"), ("CopyObject", "TaggingDirective", "TaggingDirective"),
  ("CopyObject", "CopySourceIfMatch", "CopySourceIfMatch"), ("CopyObject", "CopySourceIfNoneMatch", "CopySourceIfNoneMatch"),
  ("CopyObject", "CopySourceIfModifiedSince", "CopySourceIfModifiedSince"),
  ("CopyObject", "CopySourceIfUnmodifiedSince", "CopySourceIfUnmodifiedSince"),
  ("CopyObject", "StorageClass", "StorageClass"), ("CopyObject", "ChecksumAlgorithm", "ChecksumAlgorithm"),
  ("DeleteObject", "Bucket", "Bucket"), ("DeleteObject", "Key", "Key"), ("DeleteObject", "VersionId", "VersionId"),
  ("DeleteObjects", "Bucket", "Bucket"), ("DeleteObjects", "Delete", "Delete"),
  ("PutObjectTagging", "bucket", "Bucket"), ("PutObjectTagging", "object", "Key"), ("PutObjectTagging", "tags", "Tagging"),
  ("GetObjectTagging", "bucket", "Bucket"), ("GetObjectTagging", "object", "Key"),
  ("DeleteObjectTagging", "bucket", "Bucket"), ("DeleteObjectTagging", "object", "Key"),
  -- listings
  ("ListObjects", "Bucket", "Bucket"), ("ListObjects", "Prefix", "Prefix"), ("ListObjects", "Marker", "Marker"),
  ("ListObjects", "Delimiter", "Delimiter"), ("ListObjects", "MaxKeys", "MaxKeys"),
  ("ListObjectsV2", "Bucket", "Bucket"), ("ListObjectsV2", "Prefix", "Prefix"),
  ("ListObjectsV2", "ContinuationToken", "ContinuationToken"), ("ListObjectsV2", "Delimiter", "Delimiter"),
  ("ListObjectsV2", "MaxKeys", "MaxKeys"), ("ListObjectsV2", "StartAfter", "StartAfter"),
  ("ListObjectsV2", "FetchOwner", "FetchOwner"),
  ("ListObjectVersions", "Bucket", "Bucket"), ("ListObjectVersions", "Prefix", "Prefix"),
  ("ListObjectVersions", "Delimiter", "Delimiter"), ("ListObjectVersions", "KeyMarker", "KeyMarker"),
  ("ListObjectVersions", "VersionIdMarker", "VersionIdMarker"), ("ListObjectVersions", "MaxKeys", "MaxKeys"),
  -- multipart
  ("CreateMultipartUpload", "Bucket", "Bucket"), ("CreateMultipartUpload", "Key", "Key"),
  ("CreateMultipartUpload", "ContentType", "ContentType"), ("CreateMultipartUpload", "ContentEncoding", "ContentEncoding"),
  ("CreateMultipartUpload", "ContentDisposition", "ContentDisposition"),
  ("CreateMultipartUpload", "ContentLanguage", "ContentLanguage"), ("CreateMultipartUpload", "CacheControl", "CacheControl"),
  ("CreateMultipartUpload", "Expires", "Expires"), ("CreateMultipartUpload", "Metadata", "Metadata"),
  ("CreateMultipartUpload", "Tagging", "Tagging"), ("CreateMultipartUpload", "ChecksumAlgorithm", "ChecksumAlgorithm"),
  ("CreateMultipartUpload", "ChecksumType", "ChecksumType"),
  ("UploadPart", "Bucket", "Bucket"), ("UploadPart", "Key", "Key"), ("UploadPart", "UploadId", "UploadId"),
  ("UploadPart", "PartNumber", "PartNumber"), ("UploadPart", "Body", "Body"), ("UploadPart", "ContentLength", "ContentLength"),
  ("UploadPart", "ChecksumAlgorithm", "ChecksumAlgorithm"), ("UploadPart", "ChecksumCRC32", "ChecksumCRC32"),
  ("UploadPart", "ChecksumCRC32C", "ChecksumCRC32C"), ("UploadPart", "ChecksumSHA1", "ChecksumSHA1"),
  ("UploadPart", "ChecksumSHA256", "ChecksumSHA256"), ("UploadPart", "ChecksumCRC64NVME", "ChecksumCRC64NVME"),
  ("UploadPartCopy", "Bucket", "Bucket"), ("UploadPartCopy", "Key", "Key"), ("UploadPartCopy", "UploadId", "UploadId"),
  ("UploadPartCopy", "PartNumber", "PartNumber"), ("UploadPartCopy", "CopySource", "CopySource"),
  ("UploadPartCopy", "CopySourceRange", "CopySourceRange"),
  ("ListParts", "Bucket", "Bucket"), ("ListParts", "Key", "Key"), ("ListParts", "UploadId", "UploadId"),
  ("ListParts", "PartNumberMarker", "PartNumberMarker"), ("ListParts", "MaxParts", "MaxParts"),
  ("ListMultipartUploads", "Bucket", "Bucket"), ("ListMultipartUploads", "Prefix", "Prefix"),
  ("ListMultipartUploads", "Delimiter", "Delimiter"), ("ListMultipartUploads", "KeyMarker", "KeyMarker"),
  ("ListMultipartUploads", "UploadIdMarker", "UploadIdMarker"), ("ListMultipartUploads", "MaxUploads", "MaxUploads"),
  ("CompleteMultipartUpload", "Bucket", "Bucket"), ("CompleteMultipartUpload", "Key", "Key"),
  ("CompleteMultipartUpload", "UploadId", "UploadId"), ("CompleteMultipartUpload", "MultipartUpload", "MultipartUpload"),
  ("CompleteMultipartUpload", "ChecksumType", "ChecksumType"), ("CompleteMultipartUpload", "ChecksumCRC32", "ChecksumCRC32"),
  ("CompleteMultipartUpload", "ChecksumCRC32C", "ChecksumCRC32C"), ("CompleteMultipartUpload", "ChecksumSHA1", "ChecksumSHA1"),
  ("CompleteMultipartUpload", "ChecksumSHA256", "ChecksumSHA256"), ("CompleteMultipartUpload", "ChecksumCRC64NVME", "ChecksumCRC64NVME"),
  ("CompleteMultipartUpload", "MpuObjectSize", "MpuObjectSize"),
  ("AbortMultipartUpload", "Bucket", "Bucket"), ("AbortMultipartUpload", "Key", "Key"), ("AbortMultipartUpload", "UploadId", "UploadId")]

/-- Request fields the code does NOT hand to the backend as a plain copy (exactly the relevant
entries that fail `preservedReq`; Props.C18 proves the "exactly"). Each is a known finding or an
argued non-issue (see `zeroUnreachable`, `faithfulDerivation`, `emptyBodyRewrite`).
History: the `0 → absent` normalisations of MaxKeys (ListObjects, ListObjectsV2,
ListObjectVersions), MaxParts (ListParts, GetObjectAttributes), MaxUploads and MpuObjectSize were
entries of this list until they were removed from s3.go. -/
def lossyReq : List (String × String) := [
  ("ListBuckets", "Owner"), ("ListBuckets", "IsAdmin"),
  ("PutObject", "Body"),
  ("PutObject", "Expires"), ("PutObject", "ObjectLockMode"), ("PutObject", "ObjectLockRetainUntilDate"),
  ("PutObject", "ObjectLockLegalHoldStatus"),
  ("HeadObject", "PartNumber"),
  ("CopyObject", "Expires"),
  ("PutObjectTagging", "tags"),
  ("CreateMultipartUpload", "Expires"),
  ("UploadPart", "Body")]

/-- `0 → absent` normalisations that cannot lose anything because the front end never hands over
the value 0 for that field: `HeadObject.PartNumber` is validated to 1…10000 (or left nil) in
HeadObject of base.go. -/
def zeroUnreachable : List (String × String) := [("HeadObject", "PartNumber")]

/-- Fields assigned under a condition on another request field (`condWrites` of the table), with
the argument why nothing is lost: `PutObject` / `UploadPart` replace the body by
`bytes.NewReader(nil)` exactly when `ContentLength` is 0 — an empty body by an empty body (the
SDK cannot stream an empty non-seekable body in a form the endpoint accepts). The paired runs
read every uploaded object back and compare the bytes, empty ones included. -/
def emptyBodyRewrite : List (String × String) := [("PutObject", "Body"), ("UploadPart", "Body")]

/-- Computed fields whose computation is transcribed and proved faithful below
(`PutObjectTagging`: the tag map is turned into a TagSet list element by element). -/
def faithfulDerivation : List (String × String) := [("PutObjectTagging", "tags")]

/-- `(method, SDK output field, gateway result field)`: what the backend answered and the front end
renders (XML member or response header) that the property names. Owner display names, dates and
request ids are grey zones of the paired runs and not listed. -/
def relevantResp : List (String × String × String) := [
  ("ListBuckets", "Buckets[].Name", "Buckets.Bucket[].Name"), ("ListBuckets", "Owner.ID", "Owner.ID"),
  ("ListBuckets", "ContinuationToken", "ContinuationToken"), ("ListBuckets", "Prefix", "Prefix"),
  ("GetBucketVersioning", "Status", "Status"),
  ("GetBucketOwnershipControls", "OwnershipControls.Rules[].ObjectOwnership", "result"),
  ("PutObject", "ETag", "ETag"), ("PutObject", "VersionId", "VersionID"),
  ("PutObject", "ChecksumCRC32", "ChecksumCRC32"), ("PutObject", "ChecksumCRC32C", "ChecksumCRC32C"),
  ("PutObject", "ChecksumSHA1", "ChecksumSHA1"), ("PutObject", "ChecksumSHA256", "ChecksumSHA256"),
  ("PutObject", "ChecksumCRC64NVME", "ChecksumCRC64NVME"), ("PutObject", "ChecksumType", "ChecksumType"),
  ("HeadObject", "ETag", "ETag"), ("HeadObject", "ContentLength", "ContentLength"), ("HeadObject", "ContentType", "ContentType"),
  ("HeadObject", "ContentEncoding", "ContentEncoding"), ("HeadObject", "ContentDisposition", "ContentDisposition"),
  ("HeadObject", "ContentLanguage", "ContentLanguage"), ("HeadObject", "CacheControl", "CacheControl"),
  ("HeadObject", "ExpiresString", "ExpiresString"), ("HeadObject", "Metadata", "Metadata"),
  ("HeadObject", "VersionId", "VersionId"), ("HeadObject", "StorageClass", "StorageClass"),
  ("HeadObject", "PartsCount", "PartsCount"),
  ("GetObject", "Body", "Body"), ("GetObject", "ETag", "ETag"), ("GetObject", "ContentLength", "ContentLength"),
  ("GetObject", "ContentType", "ContentType"), ("GetObject", "ContentEncoding", "ContentEncoding"),
  ("GetObject", "ContentDisposition", "ContentDisposition"), ("GetObject", "ContentLanguage", "ContentLanguage"),
  ("GetObject", "CacheControl", "CacheControl"), ("GetObject", "ExpiresString", "ExpiresString"),
  ("GetObject", "Metadata", "Metadata"), ("GetObject", "ContentRange", "ContentRange"),
  ("GetObject", "TagCount", "TagCount"), ("GetObject", "VersionId", "VersionId"), ("GetObject", "StorageClass", "StorageClass"),
  ("GetObjectAttributes", "ETag", "ETag"), ("GetObjectAttributes", "ObjectSize", "ObjectSize"),
  ("GetObjectAttributes", "StorageClass", "StorageClass"), ("GetObjectAttributes", "Checksum", "Checksum"),
  ("GetObjectAttributes", "VersionId", "VersionId"),
  ("CopyObject", "CopyObjectResult", "CopyObjectResult"), ("CopyObject", "VersionId", "VersionId"),
  ("CopyObject", "CopySourceVersionId", "CopySourceVersionId"),
  ("DeleteObject", "DeleteMarker", "DeleteMarker"), ("DeleteObject", "VersionId", "VersionId"),
  ("DeleteObjects", "Deleted", "Deleted"), ("DeleteObjects", "Errors", "Error"),
  -- listings
  ("ListObjects", "Name", "Name"), ("ListObjects", "Prefix", "Prefix"), ("ListObjects", "Marker", "Marker"),
  ("ListObjects", "NextMarker", "NextMarker"), ("ListObjects", "MaxKeys", "MaxKeys"), ("ListObjects", "Delimiter", "Delimiter"),
  ("ListObjects", "IsTruncated", "IsTruncated"), ("ListObjects", "CommonPrefixes", "CommonPrefixes"),
  ("ListObjects", "EncodingType", "EncodingType"),
  ("ListObjects", "Contents[].Key", "Contents[].Key"), ("ListObjects", "Contents[].ETag", "Contents[].ETag"),
  ("ListObjects", "Contents[].Size", "Contents[].Size"), ("ListObjects", "Contents[].StorageClass", "Contents[].StorageClass"),
  ("ListObjects", "Contents[].Owner", "Contents[].Owner"),
  ("ListObjectsV2", "Name", "Name"), ("ListObjectsV2", "Prefix", "Prefix"), ("ListObjectsV2", "StartAfter", "StartAfter"),
  ("ListObjectsV2", "ContinuationToken", "ContinuationToken"), ("ListObjectsV2", "NextContinuationToken", "NextContinuationToken"),
  ("ListObjectsV2", "KeyCount", "KeyCount"), ("ListObjectsV2", "MaxKeys", "MaxKeys"), ("ListObjectsV2", "Delimiter", "Delimiter"),
  ("ListObjectsV2", "IsTruncated", "IsTruncated"), ("ListObjectsV2", "CommonPrefixes", "CommonPrefixes"),
  ("ListObjectsV2", "EncodingType", "EncodingType"),
  ("ListObjectsV2", "Contents[].Key", "Contents[].Key"), ("ListObjectsV2", "Contents[].ETag", "Contents[].ETag"),
  ("ListObjectsV2", "Contents[].Size", "Contents[].Size"), ("ListObjectsV2", "Contents[].StorageClass", "Contents[].StorageClass"),
  ("ListObjectsV2", "Contents[].Owner", "Contents[].Owner"),
  ("ListObjectVersions", "Name", "Name"), ("ListObjectVersions", "Prefix", "Prefix"), ("ListObjectVersions", "Delimiter", "Delimiter"),
  ("ListObjectVersions", "KeyMarker", "KeyMarker"), ("ListObjectVersions", "NextKeyMarker", "NextKeyMarker"),
  ("ListObjectVersions", "NextVersionIdMarker", "NextVersionIdMarker"), ("ListObjectVersions", "MaxKeys", "MaxKeys"),
  ("ListObjectVersions", "IsTruncated", "IsTruncated"), ("ListObjectVersions", "CommonPrefixes", "CommonPrefixes"),
  ("ListObjectVersions", "Versions", "Versions"), ("ListObjectVersions", "DeleteMarkers", "DeleteMarkers"),
  -- multipart
  ("CreateMultipartUpload", "Bucket", "Bucket"), ("CreateMultipartUpload", "Key", "Key"),
  ("CreateMultipartUpload", "UploadId", "UploadId"),
  ("UploadPart", "ETag", "ETag"),
  ("UploadPartCopy", "CopyPartResult.ETag", "ETag"), ("UploadPartCopy", "CopySourceVersionId", "CopySourceVersionId"),
  ("ListParts", "Bucket", "Bucket"), ("ListParts", "Key", "Key"), ("ListParts", "UploadId", "UploadID"),
  ("ListParts", "IsTruncated", "IsTruncated"), ("ListParts", "StorageClass", "StorageClass"),
  ("ListParts", "Parts[].PartNumber", "Parts[].PartNumber"), ("ListParts", "Parts[].ETag", "Parts[].ETag"),
  ("ListParts", "Parts[].Size", "Parts[].Size"),
  ("ListMultipartUploads", "Bucket", "Bucket"), ("ListMultipartUploads", "KeyMarker", "KeyMarker"),
  ("ListMultipartUploads", "UploadIdMarker", "UploadIDMarker"), ("ListMultipartUploads", "NextKeyMarker", "NextKeyMarker"),
  ("ListMultipartUploads", "NextUploadIdMarker", "NextUploadIDMarker"), ("ListMultipartUploads", "Delimiter", "Delimiter"),
  ("ListMultipartUploads", "Prefix", "Prefix"), ("ListMultipartUploads", "IsTruncated", "IsTruncated"),
  ("ListMultipartUploads", "Uploads[].Key", "Uploads[].Key"), ("ListMultipartUploads", "Uploads[].UploadId", "Uploads[].UploadID"),
  ("ListMultipartUploads", "Uploads[].StorageClass", "Uploads[].StorageClass"),
  ("ListMultipartUploads", "CommonPrefixes[].Prefix", "CommonPrefixes[].Prefix"),
  ("CompleteMultipartUpload", "ETag", "ETag"), ("CompleteMultipartUpload", "Key", "Key"),
  ("CompleteMultipartUpload", "Bucket", "Bucket"), ("CompleteMultipartUpload", "VersionId", "VersionId")]

/-- SDK output fields the code does not copy into its result (exactly the relevant entries
failing `copiedResp`): none. History: (PutObject, ChecksumType), (GetObjectAttributes, VersionId),
(ListObjects, EncodingType), (ListObjectsV2, StartAfter), (ListObjectsV2, EncodingType),
(UploadPartCopy, CopySourceVersionId) were entries until s3.go copied them. -/
def droppedResp : List (String × String) := []

/-- Output fields that are computed rather than copied, with the computation transcribed here:
`ListParts`' numeric markers go through `strconv.Atoi`, `ListMultipartUploads.MaxUploads`,
`ListParts.MaxParts` through `int(…)`; `GetBucketVersioning`/`GetBucketPolicy`/tag maps re-wrap
the value. They are not in `relevantResp` by name (the paired runs compare them). -/
def computedResp : List (String × String) := [
  ("ListParts", "PartNumberMarker"), ("ListParts", "NextPartNumberMarker"),
  ("GetBucketPolicy", "Policy"), ("GetObjectTagging", "TagSet"), ("GetBucketAcl", "TagSet")]

/-! ## 4. Panics -/

/-- Does the method body panic for this SDK answer? `present p` = the backend's answer contains
the (optional, pointer-typed) member `p`; `failed` = the SDK call returned an error (then the
output pointer itself is nil). The code dereferences `derefUnguarded` without a test, and — when
`useBeforeErrCheck` — reads the output before looking at the error. -/
def panics (m : Method) (failed : Bool) (present : String → Bool) : Bool :=
  (failed && m.useBeforeErrCheck) || (!failed && m.derefUnguarded.any (fun p => !present p))

/-! ## 5. Errors -/

/-- What an SDK call can fail with, as far as `handleError` looks: a `smithy.APIError` (code,
message), possibly wrapped in an `awshttp.ResponseError` carrying the HTTP status; or anything
else (transport errors, SDK-side parameter validation, …). -/
inductive SdkErr where
  | api (code msg : String) (status : Option Nat)
  | other (text : String)
deriving Repr, DecidableEq

/-- What the gateway front end receives: an `s3err.APIError` (rendered with its own status code) or
a foreign error (rendered as 500 InternalError by the front end). -/
inductive GwErr where
  | api (code desc : String) (status : Nat)
  | foreign (text : String)
deriving Repr, DecidableEq

/-- `handleError` (s3.go:1505) -/
def handleError : SdkErr → GwErr
  | .api code msg (some st) => .api code msg st
  | .api code msg none => .api code msg 0
  | .other t => .foreign t

/-- the shape of `handleError` this transcription was made from (compared with the regenerated
`ProxyFacts.handleError` in Props.C18) -/
def handleErrorShape : ErrFacts :=
  ⟨true, "ae.ErrorCode(…)", "ae.ErrorMessage(…)", true, "re.Response.StatusCode", true⟩

/-! ## 6. The gateway ACL in a reserved bucket tag

The endpoint's tag store of one bucket: `none` = no tag set at all (`NoSuchTagSet`). Tag values are
limited to `maxTagValue` characters by the endpoint (AWS S3 and versitygw: 256). -/

abbrev Tags := List (String × Bytes)

def maxTagValue : Nat := 256

inductive TagErr where
  | noSuchTagSet | invalidTag | badBase64 | notImplemented
deriving Repr, DecidableEq

def aclKeyB : String := aclKey

/-- `base64.StdEncoding.DecodeString` restricted to what the proxy reads back: well-formed
padded input without line breaks. `none` = error. -/
def b64Val (c : UInt8) : Option Nat :=
  if 65 ≤ c ∧ c ≤ 90 then some (c.toNat - 65)
  else if 97 ≤ c ∧ c ≤ 122 then some (c.toNat - 97 + 26)
  else if 48 ≤ c ∧ c ≤ 57 then some (c.toNat - 48 + 52)
  else if c = 43 then some 62 else if c = 47 then some 63 else none

def b64Decode : Bytes → Option Bytes
  | [] => some []
  | [a, b, c, d] =>
    match b64Val a, b64Val b with
    | some x, some y =>
      if c = 61 then
        if d = 61 then some [UInt8.ofNat (x * 4 + y / 16)] else none
      else match b64Val c with
        | none => none
        | some z =>
          if d = 61 then some [UInt8.ofNat (x * 4 + y / 16), UInt8.ofNat (y % 16 * 16 + z / 4)]
          else match b64Val d with
            | none => none
            | some w => some [UInt8.ofNat (x * 4 + y / 16), UInt8.ofNat (y % 16 * 16 + z / 4), UInt8.ofNat (z % 4 * 64 + w)]
    | _, _ => none
  | a :: b :: c :: d :: rest =>
    match b64Val a, b64Val b, b64Val c, b64Val d, b64Decode rest with
    | some x, some y, some z, some w, some tl =>
      some (UInt8.ofNat (x * 4 + y / 16) :: UInt8.ofNat (y % 16 * 16 + z / 4) :: UInt8.ofNat (z % 4 * 64 + w) :: tl)
    | _, _, _, _, _ => none
  | _ => none

/-- the endpoint's PutBucketTagging: refuses a value longer than the limit, else replaces the set -/
def endpointPutTags (t : Tags) : Except TagErr Tags :=
  if t.any (fun kv => kv.2.length > maxTagValue) then .error .invalidTag else .ok t

/-- `GetBucketAcl` (s3.go:1254): the stored ACL bytes; an absent tag set or an absent tag is the
empty ACL. -/
def getBucketAcl (store : Option Tags) : Except TagErr Bytes :=
  match store with
  | none => .ok []
  | some tags =>
    match tags.find? (fun kv => kv.1 == aclKeyB) with
    | none => .ok []
    | some kv =>
      match b64Decode kv.2 with
      | none => .error .badBase64
      | some acl => .ok acl

/-- replace the first tag named `k`, else append (s3.go:1298-1314) -/
def setTag (k : String) (v : Bytes) : Tags → Tags
  | [] => [(k, v)]
  | kv :: rest => if kv.1 == k then (k, v) :: rest else kv :: setTag k v rest

/-- `PutBucketAcl` (s3.go:1290): read the tag set, replace/append the reserved tag, write it back.
Returns the new tag store of the bucket. -/
def putBucketAcl (store : Option Tags) (acl : Bytes) : Except TagErr Tags :=
  match store with
  | none => .error .noSuchTagSet
  | some tags => endpointPutTags (setTag aclKeyB (b64Encode acl) tags)

/-- `CreateBucket` (s3.go:117) after the bucket itself was created at the endpoint: the tag set of
the new bucket. An error here leaves the bucket in place WITHOUT its ACL tag. -/
def createBucketTags (acl : Bytes) : Except TagErr Tags :=
  endpointPutTags [(aclKeyB, b64Encode acl)]

/-! ### client-facing bucket tagging

`clientTagging true` transcribes Get/Put/DeleteBucketTagging of `*S3Proxy` (s3.go: `reservedTags`
splits the endpoint's tag set into the gateway's own tag and the client's tags; a put writes the
client's tags NEXT TO the reserved one, a delete keeps the reserved one, a get shows only the
client's). `clientTagging false` is the behaviour before these methods existed (the embedded
`backend.BackendUnsupported` answers NotImplemented and touches nothing); the harness picks the
variant from the regenerated `unimplemented` list. -/

inductive TagOp where
  | get | put (tags : Tags) | delete
deriving Repr

/-- the answer (client-visible tags, or error) and the new store -/
def clientTagging (impl : Bool) (store : Option Tags) (op : TagOp) : Except TagErr (Option Tags) × Option Tags :=
  if !impl then (.error .notImplemented, store)
  else match op, store with
    | .get, none => (.error .noSuchTagSet, store)
    | .get, some t =>
      let vis := t.filter (fun kv => kv.1 != aclKeyB)
      if vis.isEmpty then (.error .noSuchTagSet, store) else (.ok (some vis), store)
    | .put new, _ =>
      if new.any (fun kv => kv.1 == aclKeyB) then (.error .invalidTag, store)
      else
        let keep := (store.getD []).filter (fun kv => kv.1 == aclKeyB)
        match endpointPutTags (new ++ keep) with
        | .error e => (.error e, store)
        | .ok t => (.ok none, some t)
    | .delete, none => (.ok none, none)
    | .delete, some t =>
      let keep := t.filter (fun kv => kv.1 == aclKeyB)
      (.ok none, if keep.isEmpty then none else some keep)

/-- the naive alternative (hand the client's tag calls straight to the endpoint): a seeded bug the
isolation theorem must reject -/
def naiveTagging (store : Option Tags) (op : TagOp) : Except TagErr (Option Tags) × Option Tags :=
  match op, store with
  | .get, none => (.error .noSuchTagSet, store)
  | .get, some t => (.ok (some t), store)
  | .put new, _ => match endpointPutTags new with
    | .error e => (.error e, store)
    | .ok t => (.ok none, some t)
  | .delete, _ => (.ok none, none)

/-- `PutObjectTagging` (s3.go:1325): the tag map becomes a TagSet list, one entry per map entry.
A Go map with distinct keys = an association list without duplicate keys. -/
def toTagSet (tags : List (String × String)) : List (String × String) := tags.map (fun kv => (kv.1, kv.2))

end Vgw.Model.Proxy
