/-
  C20 — checked transcriptions of the request-path functions that index, slice, dereference or
  allocate from client-derived values.  Every Go operation the run time checks is written with the
  combinators of `Vgw.Go.Panic` (`idx`, `sliceFrom`, `sliceTo`, `deref`, `makeBytes`), so the result
  type `Chk α = Except Panic α` makes the panic an explicit outcome.  Transcribed statement by
  statement from the code as it is (commit cf70120); where a minimal repair is proposed
  (docs/C20-fix-<n>.diff) the model takes a `fixed : Bool` parameter: `false` = the code as it is,
  `true` = the code with the proposed repair.  Which of the two a given source tree corresponds to
  is decided by the tie at run time (extractor expectation + differential runs), never assumed.

  Part 1: pure parsers of header / query values (tied in-process to the exported Go functions).
-/
import Vgw.Go.Panic
import Vgw.Go.StringsIdx
import Vgw.Go.Strconv
import Vgw.Go.TimeCompact
import Vgw.Go.UrlEscape
namespace Vgw.Model.Robust
open Vgw Vgw.Go

/-! ### expectation of the extractor (`extract/panicsites`) for the modelled functions

`(file, function, kind, expression, count, variant)`: the complete multiset of panic-capable
expressions of each modelled function. `variant`: "" = both, "asis" = only the code as it is,
"fixed" = only after the proposed repair.  The harness compares this with the regenerated
inventory on every run: a difference = the code at a modelled site changed = broken tie. -/
structure SiteExp where
  file : String
  func : String
  kind : String
  expr : String
  count : Nat
  variant : String := ""

/-! ### backend/common.go -/

def versionIdLit : Bytes := [63, 118, 101, 114, 115, 105, 111, 110, 73, 100, 61]   -- "?versionId="
def bytesLit : Bytes := [98, 121, 116, 101, 115]                                       -- "bytes"

inductive CopySrc where
  | ok (bucket object versionId : Bytes)
  | invalid                                   -- ErrInvalidCopySource
  deriving Repr, DecidableEq

/-- `x.bind f` with the panic passed through -/
abbrev andThen {α β : Type} (x : Chk α) (f : α → Chk β) : Chk β := x.bind f

/-- the `?versionId=` split of ParseCopySource -/
def copySourceSplit (h1 : Bytes) : Chk (Bytes × Bytes) :=
  let i := lastIndexOf versionIdLit h1
  if i = -1 then .ok (h1, [])
  else
    (sliceTo h1 i).bind fun a =>                          -- copySourceHeader[:i]
    (sliceFrom h1 (i + 11)).bind fun b =>                 -- copySourceHeader[i+11:]
    .ok (a, b)

def copySourceFinish (p : Bytes × Bytes) : CopySrc :=
  match cutByte 47 p.1 with                               -- strings.Cut(copySource, "/")
  | some (b, o) => .ok b o p.2
  | none => .invalid

/-- backend.ParseCopySource -/
def parseCopySource (h : Bytes) : Chk CopySrc :=
  (idx h 0).bind fun c0 =>                                -- copySourceHeader[0]
  (if c0 = 47 then sliceFrom h 1 else .ok h).bind fun h1 =>   -- copySourceHeader[1:]
  (copySourceSplit h1).map copySourceFinish

def copySourceSites : List SiteExp := [
  ⟨"backend/common.go", "ParseCopySource", "index", "copySourceHeader[0]", 1, ""⟩,
  ⟨"backend/common.go", "ParseCopySource", "slice", "copySourceHeader[1:]", 1, ""⟩,
  ⟨"backend/common.go", "ParseCopySource", "slice", "copySourceHeader[:i]", 1, ""⟩,
  ⟨"backend/common.go", "ParseCopySource", "slice", "copySourceHeader[i+11:]", 1, ""⟩]

/-- insertion into a Go map kept as an association list (later value wins, first position kept) -/
def mapSet (m : List (Bytes × Bytes)) (k v : Bytes) : List (Bytes × Bytes) :=
  match m with
  | [] => [(k, v)]
  | (k', v') :: rest => if k' = k then (k, v) :: rest else (k', v') :: mapSet rest k v

def objectTagsLoop : List Bytes → List (Bytes × Bytes) → Chk (Option (List (Bytes × Bytes)))
  | [], acc => .ok (some acc)
  | prt :: rest, acc =>
    let p := splitOn 61 prt                               -- strings.Split(prt, "=")
    if p.length ≠ 2 then .ok none else
    (idx p 0).bind fun k0 =>
    match queryUnescape k0 with                           -- url.QueryUnescape(p[0])
    | none => .ok none
    | some key =>
      (idx p 1).bind fun v0 =>
      match queryUnescape v0 with                         -- url.QueryUnescape(p[1])
      | none => .ok none
      | some value =>
        if key.length > 128 ∨ value.length > 256 then .ok none else   -- limits on the DECODED strings
        objectTagsLoop rest (mapSet acc key value)

/-- backend.ParseObjectTags (x-amz-tagging: the tag set as URL query parameters, keys and values
percent-decoded): `none` = ErrInvalidTag; the map as an association list -/
def parseObjectTags (t : Bytes) : Chk (Option (List (Bytes × Bytes))) :=
  if t = [] then .ok (some []) else objectTagsLoop (splitOn 38 t) []

def objectTagsSites : List SiteExp := [
  ⟨"backend/common.go", "ParseObjectTags", "index", "p[0]", 1, ""⟩,
  ⟨"backend/common.go", "ParseObjectTags", "index", "p[1]", 1, ""⟩]

inductive RangeRes where
  | ok (start length : Int)
  | invalid                                   -- errInvalidCopySourceRange
  | exceeding                                 -- CreateExceedingRangeErr
  deriving Repr, DecidableEq

/-- tail of ParseCopySourceRange once `startOffset` is known -/
def copyRangeEnd (size startOffset : Int) (bRange : List Bytes) : Chk RangeRes :=
  if startOffset ≥ size then .ok .exceeding else
  (idx bRange 1).bind fun b =>
  if b = [] then .ok (.ok startOffset (size - startOffset)) else
  (idx bRange 1).bind fun b' =>
  match parseInt64 b' with
  | none => .ok .invalid
  | some endOffset =>
    if endOffset < startOffset then .ok .invalid else
    if endOffset ≥ size then .ok .exceeding else
    .ok (.ok startOffset (endOffset - startOffset + 1))

/-- backend.ParseCopySourceRange -/
def parseCopySourceRange (size : Int) (r : Bytes) : Chk RangeRes :=
  if r = [] then .ok (.ok 0 size) else
  let rangeKv := splitOn 61 r
  if rangeKv.length ≠ 2 then .ok .invalid else
  (idx rangeKv 0).bind fun unit =>
  if unit ≠ bytesLit then .ok .invalid else
  (idx rangeKv 1).bind fun spec =>
  let bRange := splitOn 45 spec
  if bRange.length ≠ 2 then .ok .invalid else
  (idx bRange 0).bind fun a =>
  match parseInt64 a with
  | none => .ok .invalid
  | some startOffset => copyRangeEnd size startOffset bRange

def copySourceRangeSites : List SiteExp := [
  ⟨"backend/common.go", "ParseCopySourceRange", "index", "rangeKv[0]", 1, ""⟩,
  ⟨"backend/common.go", "ParseCopySourceRange", "index", "rangeKv[1]", 1, ""⟩,
  ⟨"backend/common.go", "ParseCopySourceRange", "index", "bRange[0]", 1, ""⟩,
  ⟨"backend/common.go", "ParseCopySourceRange", "index", "bRange[1]", 2, ""⟩]

/-- result of backend.ParseGetObjectRange in the shape of `Model.Range.Parse` -/
structure GetRange where
  start : Int
  length : Int
  valid : Bool
  err : Bool
  deriving Repr, DecidableEq

def getRangeEnd (size startOffset : Int) (bRange : List Bytes) : Chk GetRange :=
  if startOffset ≥ size then .ok ⟨0, 0, false, true⟩ else
  (idx bRange 1).bind fun b =>
  if b = [] then .ok ⟨startOffset, size - startOffset, true, false⟩ else
  (idx bRange 1).bind fun b' =>
  match parseInt64 b' with
  | none => .ok ⟨0, size, false, false⟩
  | some endOffset =>
    if endOffset < startOffset then .ok ⟨0, size, false, false⟩ else
    if endOffset ≥ size then .ok ⟨startOffset, size - startOffset, true, false⟩ else
    .ok ⟨startOffset, endOffset - startOffset + 1, true, false⟩

/-- backend.ParseGetObjectRange, with every index checked (Model.Range.parseGetObjectRange is the
same function written with list patterns; `Props.C20.getObjectRange_refines` ties the two). -/
def parseGetObjectRange (size : Int) (r : Bytes) : Chk GetRange :=
  if r = [] then .ok ⟨0, size, false, false⟩ else
  let rangeKv := splitOn 61 r
  if rangeKv.length ≠ 2 then .ok ⟨0, size, false, false⟩ else
  (idx rangeKv 0).bind fun unit =>
  if unit ≠ bytesLit then .ok ⟨0, size, false, false⟩ else
  (idx rangeKv 1).bind fun spec =>
  let bRange := splitOn 45 spec
  if bRange.length ≠ 2 then .ok ⟨0, size, false, false⟩ else
  (idx bRange 0).bind fun a =>
  match parseInt64 a with
  | none => .ok ⟨0, size, false, false⟩
  | some startOffset => getRangeEnd size startOffset bRange

def getObjectRangeSites : List SiteExp := [
  ⟨"backend/common.go", "ParseGetObjectRange", "index", "rangeKv[0]", 1, ""⟩,
  ⟨"backend/common.go", "ParseGetObjectRange", "index", "rangeKv[1]", 1, ""⟩,
  ⟨"backend/common.go", "ParseGetObjectRange", "index", "bRange[0]", 1, ""⟩,
  ⟨"backend/common.go", "ParseGetObjectRange", "index", "bRange[1]", 2, ""⟩]

/-! ### s3api/utils/auth-reader.go: ParseAuthorization -/

structure AuthData where
  access : Bytes
  region : Bytes
  signedHeaders : Bytes
  signature : Bytes
  date : Bytes
  deriving Repr, DecidableEq

inductive AuthErr where
  | missingFields | sigVersion | credMalformed | invalidQueryParams | incorrService | terminationStr | dateMismatch
  | malformedDate | invalidSigAlgo | regionMismatch | malformedExpires | negativeExpires | maximumExpires | expired
  deriving Repr, DecidableEq

def algoLit : Bytes := [65, 87, 83, 52, 45, 72, 77, 65, 67, 45, 83, 72, 65, 50, 53, 54]   -- "AWS4-HMAC-SHA256"
def credentialLit : Bytes := [67, 114, 101, 100, 101, 110, 116, 105, 97, 108]             -- "Credential"
def signedHeadersLit : Bytes := [83, 105, 103, 110, 101, 100, 72, 101, 97, 100, 101, 114, 115]  -- "SignedHeaders"
def signatureLit : Bytes := [83, 105, 103, 110, 97, 116, 117, 114, 101]                  -- "Signature"
def s3Lit : Bytes := [115, 51]                                                            -- "s3"
def aws4RequestLit : Bytes := [97, 119, 115, 52, 95, 114, 101, 113, 117, 101, 115, 116]  -- "aws4_request"

/-- `a[i] = v` -/
def setIdx {α : Type} (a : List α) (i : Int) (v : α) : Chk (List α) :=
  if 0 ≤ i ∧ i.toNat < a.length then .ok (a.set i.toNat v) else .error (.index i a.length)

/-- `for i, el := range authParts { if strings.Contains(el, " ") { authParts[i] = removeSpace(el) } }`
(`rs` = removeSpace; the slice is the one being ranged over, `i` its own index) -/
def stripLoop (rs : Bytes → Bytes) : List Bytes → Int → List Bytes → Chk (List Bytes)
  | [], _, cur => .ok cur
  | el :: rest, i, cur =>
    (if el.contains 32 then setIdx cur i (rs el) else .ok cur).bind fun cur' =>
    stripLoop rs rest (i + 1) cur'

structure Cred where
  access : Bytes := []
  region : Bytes := []
  signedHeaders : Bytes := []
  signature : Bytes := []
  date : Bytes := []

/-- the `case "Credential":` arm: the credential scope, or the error -/
def credScope (value : Bytes) : Chk (Except AuthErr (Bytes × Bytes × Bytes)) :=
  let creds := splitOn 47 value                          -- strings.Split(value, "/")
  if creds.length ≠ 5 then .ok (.error .credMalformed) else
  (idx creds 3).bind fun c3 =>
  if c3 ≠ s3Lit then .ok (.error .incorrService) else
  (idx creds 4).bind fun c4 =>
  if c4 ≠ aws4RequestLit then .ok (.error .terminationStr) else
  (idx creds 1).bind fun c1 =>
  if !Time.parseYMD c1 then .ok (.error .dateMismatch) else
  (idx creds 0).bind fun a =>
  (idx creds 1).bind fun d =>
  (idx creds 2).bind fun r =>
  .ok (.ok (a, d, r))

def kvLoop : List Bytes → Cred → Chk (Except AuthErr Cred)
  | [], c => .ok (.ok c)
  | kv :: rest, c =>
    let keyValue := splitOn 61 kv                          -- strings.Split(kv, "=")
    if keyValue.length ≠ 2 then
      if credentialLit.isPrefixOf kv then .ok (.error .credMalformed)
      else if signedHeadersLit.isPrefixOf kv then .ok (.error .invalidQueryParams)
      else .ok (.error .missingFields)
    else
    (idx keyValue 0).bind fun k0 =>
    (idx keyValue 1).bind fun v0 =>
    let key := trimSpace k0
    let value := trimSpace v0
    if key = credentialLit then
      (credScope value).bind fun s =>
      match s with
      | .error e => .ok (.error e)
      | .ok (a, d, r) => kvLoop rest { c with access := a, date := d, region := r }
    else if key = signedHeadersLit then kvLoop rest { c with signedHeaders := value }
    else if key = signatureLit then kvLoop rest { c with signature := value }
    else kvLoop rest c

/-- ParseAuthorization after the white-space loop -/
def parseAuthParts (authParts : List Bytes) : Chk (Except AuthErr AuthData) :=
  if authParts.length < 2 then .ok (.error .missingFields) else
  (idx authParts 0).bind fun algo =>
  if algo ≠ algoLit then .ok (.error .sigVersion) else
  (idx authParts 1).bind fun kvData =>
  let kvPairs := splitOn 44 kvData                         -- strings.Split(kvData, ",")
  if kvPairs.length < 3 then .ok (.error .missingFields) else
  (kvLoop kvPairs {}).bind fun r =>
  match r with
  | .error e => .ok (.error e)
  | .ok c => .ok (.ok ⟨c.access, c.region, c.signedHeaders, c.signature, c.date⟩)

/-- utils.ParseAuthorization; `rs` is `removeSpace` (any function: it only produces the string the
rest of the parse works on) -/
def parseAuthorization (rs : Bytes → Bytes) (authorization : Bytes) : Chk (Except AuthErr AuthData) :=
  let authParts0 := splitN2 32 authorization               -- strings.SplitN(authorization, " ", 2)
  (stripLoop rs authParts0 0 authParts0).bind parseAuthParts

def parseAuthorizationSites : List SiteExp := [
  ⟨"s3api/utils/auth-reader.go", "ParseAuthorization", "index", "authParts[i]", 1, ""⟩,
  ⟨"s3api/utils/auth-reader.go", "ParseAuthorization", "index", "authParts[0]", 1, ""⟩,
  ⟨"s3api/utils/auth-reader.go", "ParseAuthorization", "index", "authParts[1]", 1, ""⟩,
  ⟨"s3api/utils/auth-reader.go", "ParseAuthorization", "index", "keyValue[0]", 1, ""⟩,
  ⟨"s3api/utils/auth-reader.go", "ParseAuthorization", "index", "keyValue[1]", 1, ""⟩,
  ⟨"s3api/utils/auth-reader.go", "ParseAuthorization", "index", "creds[3]", 1, ""⟩,
  ⟨"s3api/utils/auth-reader.go", "ParseAuthorization", "index", "creds[4]", 1, ""⟩,
  ⟨"s3api/utils/auth-reader.go", "ParseAuthorization", "index", "creds[1]", 2, ""⟩,
  ⟨"s3api/utils/auth-reader.go", "ParseAuthorization", "index", "creds[0]", 1, ""⟩,
  ⟨"s3api/utils/auth-reader.go", "ParseAuthorization", "index", "creds[2]", 1, ""⟩]

/-! ### s3api/utils/presign-auth-reader.go: ParsePresignedURIParts, validateExpiration -/

structure PresignQuery where
  algo : Bytes            -- X-Amz-Algorithm
  cred : Bytes            -- X-Amz-Credential
  date : Bytes            -- X-Amz-Date
  signature : Bytes       -- X-Amz-Signature
  signedHdrs : Bytes      -- X-Amz-SignedHeaders
  expires : Bytes         -- X-Amz-Expires

/-- validateExpiration; `passed` = whole seconds between the request date and now (environment) -/
def validateExpiration (str : Bytes) (passed : Int) : Option AuthErr :=
  if str = [] then some .invalidQueryParams else
  match parseInt64 str with
  | none => some .malformedExpires
  | some exp =>
    if exp < 0 then some .negativeExpires
    else if exp > 604800 then some .maximumExpires
    else if passed > exp then some .expired
    else none

/-- ParsePresignedURIParts from the date test on (`creds` has five fields here) -/
def presignedTail (q : PresignQuery) (creds : List Bytes) (region : Bytes) (passed : Int) : Chk (Except AuthErr AuthData) :=
  if q.date = [] then .ok (.error .invalidQueryParams) else
  if !Time.parseCompact q.date then .ok (.error .malformedDate) else
  (sliceTo q.date 8).bind fun d8 =>                        -- date[:8]
  (idx creds 1).bind fun c1' =>
  if d8 ≠ c1' then .ok (.error .dateMismatch) else
  (idx creds 2).bind fun c2 =>
  if region ≠ c2 then .ok (.error .regionMismatch) else
  if q.signature = [] then .ok (.error .invalidQueryParams) else
  if q.signedHdrs = [] then .ok (.error .invalidQueryParams) else
  match validateExpiration q.expires passed with
  | some e => .ok (.error e)
  | none =>
    (idx creds 0).bind fun a =>
    (idx creds 2).bind fun r =>
    .ok (.ok ⟨a, r, q.signedHdrs, q.signature, q.date⟩)

/-- utils.ParsePresignedURIParts as a function of the six query values, the configured region and
the age of the request -/
def parsePresigned (q : PresignQuery) (region : Bytes) (passed : Int) : Chk (Except AuthErr AuthData) :=
  if q.algo = [] then .ok (.error .invalidQueryParams) else
  if q.algo ≠ algoLit then .ok (.error .invalidSigAlgo) else
  if q.cred = [] then .ok (.error .invalidQueryParams) else
  let creds := splitOn 47 q.cred
  if creds.length ≠ 5 then .ok (.error .credMalformed) else
  (idx creds 3).bind fun c3 =>
  if c3 ≠ s3Lit then .ok (.error .incorrService) else
  (idx creds 4).bind fun c4 =>
  if c4 ≠ aws4RequestLit then .ok (.error .terminationStr) else
  (idx creds 1).bind fun c1 =>
  if !Time.parseYMD c1 then .ok (.error .dateMismatch) else
  presignedTail q creds region passed

def parsePresignedSites : List SiteExp := [
  ⟨"s3api/utils/presign-auth-reader.go", "ParsePresignedURIParts", "index", "creds[3]", 1, ""⟩,
  ⟨"s3api/utils/presign-auth-reader.go", "ParsePresignedURIParts", "index", "creds[4]", 1, ""⟩,
  ⟨"s3api/utils/presign-auth-reader.go", "ParsePresignedURIParts", "index", "creds[1]", 2, ""⟩,
  ⟨"s3api/utils/presign-auth-reader.go", "ParsePresignedURIParts", "slice", "date[:8]", 1, ""⟩,
  ⟨"s3api/utils/presign-auth-reader.go", "ParsePresignedURIParts", "index", "creds[2]", 3, ""⟩,
  ⟨"s3api/utils/presign-auth-reader.go", "ParsePresignedURIParts", "index", "creds[0]", 1, ""⟩]

/-! ### s3api/middlewares/authentication.go: the date test of VerifyV4Signature -/

inductive V4Date where
  | missing | malformed | mismatch | proceed
  deriving Repr, DecidableEq

/-- X-Amz-Date handling of VerifyV4Signature: `date` the header, `credDate` the date of the
credential scope (already validated by ParseAuthorization) -/
def v4Date (date credDate : Bytes) : Chk V4Date :=
  if date = [] then .ok .missing else
  if !Time.parseCompact date then .ok .malformed else
  (sliceTo date 8).bind fun d8 =>                          -- date[:8]
  if d8 ≠ credDate then .ok .mismatch else .ok .proceed

def v4DateSites : List SiteExp := [
  ⟨"s3api/middlewares/authentication.go", "VerifyV4Signature", "slice", "date[:8]", 1, ""⟩,
  ⟨"s3api/middlewares/authentication.go", "VerifyV4Signature", "slice", "hashedPayload[:]", 1, ""⟩]

end Vgw.Model.Robust
