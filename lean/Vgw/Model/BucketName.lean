/-
  Model of utils.IsValidBucketName (s3api/utils/utils.go): length 3..63,
  regexp `^[a-z0-9][a-z0-9.-]+[a-z0-9]$`, no two adjacent periods, and not
  `^(?:[0-9]{1,3}\.){3}[0-9]{1,3}$`. The two regular expressions are transcribed by hand into the
  predicates they denote (Go's regexp engine is trusted).
-/
import Vgw.Go.Strconv
namespace Vgw.Model.BucketName
open Vgw

def isLowerAlnum (c : UInt8) : Bool := (97 ≤ c && c ≤ 122) || (48 ≤ c && c ≤ 57)
def isNameChar (c : UInt8) : Bool := isLowerAlnum c || c == 46 || c == 45

/-- `^[a-z0-9][a-z0-9.-]+[a-z0-9]$` -/
def matchesNameRe : Bytes → Bool
  | c :: rest =>
    isLowerAlnum c &&
      (match rest.getLast? with
       | some l => isLowerAlnum l && !rest.dropLast.isEmpty && rest.dropLast.all isNameChar
       | none => false)
  | [] => false

def isOctetShape (f : Bytes) : Bool := 1 ≤ f.length && f.length ≤ 3 && f.all isDigit

/-- `^(?:[0-9]{1,3}\.){3}[0-9]{1,3}$` -/
def matchesIpRe (s : Bytes) : Bool :=
  match splitOn 46 s with
  | [a, b, c, d] => isOctetShape a && isOctetShape b && isOctetShape c && isOctetShape d
  | _ => false

def hasDoubleDot : Bytes → Bool
  | 46 :: 46 :: _ => true
  | _ :: rest => hasDoubleDot rest
  | [] => false

def isValidBucketName (s : Bytes) : Bool :=
  if s.length < 3 || s.length > 63 then false else
  if !matchesNameRe s then false else
  if hasDoubleDot s then false else
  if matchesIpRe s then false else true

end Vgw.Model.BucketName
