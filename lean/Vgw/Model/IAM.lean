/-
  Model of the account store of versitygw: `auth/iam_internal.go` (file `users.json` below
  `--iam-dir`, guarded by a process-local RW mutex) wrapped by `auth/iam_cache.go` (in-memory
  write-through cache with expiry), as one gateway process runs them.

  Every API call (CreateAccount, GetUserAccount, UpdateUserAccount, DeleteUserAccount,
  ListUserAccounts) is a short PROGRAM OF ATOMIC STEPS (`PC`) transcribed from the two files;
  `stepAt` performs the next step of one in-flight call, `run` executes a schedule (`List Act`):
  any interleaving of steps of any number of concurrent calls, clock advances and runs of the
  cache's pruning goroutine.  A step whose mutex is not available is a stutter (the goroutine
  stays blocked).  Executable, total, core-only.

  `Variant.current` is /repo as it is (since 6f25651: every account change INVALIDATES the cache
  entry and bumps a generation counter; the miss path stores what it fetched only if the
  generation is still the one it saw before fetching); `cache := false` is `--iam-cache-disable`
  (auth.New hands out the file service itself).  `Variant.oldWriteThrough` is the code BEFORE
  6f25651 (write-through cache, entry of CreateAccount built from Access/Secret/Role only); it is
  kept as a REGRESSION MODEL only: the harness compares with it when its probes find that
  behaviour again (a reverted fix), so that the failing schedules are explained; nothing is
  claimed about the current code through it.

  Ghost state (`committed`, `log`) is written by the steps that decide a mutation (under the
  write lock) and never read by a step; it only serves the statements in Props/C17.lean.

  What the model does not exhibit: the give-up after 300 retries (30 s) of the retry loops in
  readIAMData/storeIAM when `users.json` is absent (the model stutters there; the state is
  unreachable inside one process: `Props.C17.reader_sees_complete_image`); I/O errors of the
  file system; JSON (de)serialisation (the file image is the decoded map; access keys are assumed
  to survive a JSON round trip, i.e. valid UTF-8); other gateway processes writing the same file;
  a crash in the middle of storeIAM; writer preference of sync.RWMutex (the model admits more
  schedules than the runtime, which is sound for the safety statements proved).
-/
import Vgw.Go.StrOrder
import Vgw.Model.Gw.Types
namespace Vgw.Model.IAM
open Vgw
open Vgw.Model.Gw (Account Role)

/-- auth.MutableProps: nil pointer = `none` -/
structure Props where
  secret : Option Bytes := none
  uid : Option Int := none
  gid : Option Int := none
  deriving Repr, DecidableEq, BEq

/-- auth.updateAcc (iam.go 64-74) -/
def updateAcc (a : Account) (p : Props) : Account :=
  let a := match p.secret with | some s => { a with secret := s } | none => a
  let a := match p.gid with | some g => { a with gid := g } | none => a
  match p.uid with | some u => { a with uid := u } | none => a

/-- the decoded image of `users.json`: `iAMConfig.AccessAccounts`, a map keyed by access.
Used only through `find`/`put`/`del`. -/
abbrev Store := List Account

def Store.find (s : Store) (k : Bytes) : Option Account := List.find? (fun a => a.access == k) s
def Store.del (s : Store) (k : Bytes) : Store := List.filter (fun a => a.access != k) s
def Store.put (s : Store) (a : Account) : Store := a :: Store.del s a.access

def insertAcct (a : Account) : List Account → List Account
  | [] => [a]
  | b :: rest => if blt b.access a.access then b :: insertAcct a rest else a :: b :: rest

/-- ListUserAccounts: `sort.Strings(keys)`, then one entry per key -/
def sortAccts (l : List Account) : List Account := l.foldr insertAcct []

/-- the revision of the code that is modelled -/
structure Variant where
  /-- false = `--iam-cache-disable` -/
  cache : Bool := true
  /-- account changes drop the cache entry and bump a generation; the miss path only stores
  what it fetched if the generation is still the one it saw before fetching (iam_cache.go
  invalidate / setIfCurrent).  `false`: the write-through cache of the code before 6f25651
  (regression model) -/
  invalidate : Bool := true
  /-- regression model only: its CreateAccount copies UserID/GroupID into the cache entry -/
  copyIds : Bool := false
  deriving Repr, DecidableEq

/-- /repo as it is -/
def Variant.current : Variant := {}

/-- /repo with the cache disabled (`--iam-cache-disable`) -/
def Variant.cacheDisabled : Variant := { cache := false }

/-- REGRESSION MODEL: the code before 6f25651 (write-through cache) -/
def Variant.oldWriteThrough : Variant := { invalidate := false }

structure Cfg where
  root : Account
  /-- cache entry lifetime, in clock units -/
  ttl : Nat
  deriving Repr

/-! ### the cache (`icache`) -/

structure Entry where
  key : Bytes
  val : Account
  exp : Nat
  deriving Repr, DecidableEq

abbrev Items := List Entry

def Items.find (it : Items) (k : Bytes) : Option Entry := List.find? (fun e => e.key == k) it
def Items.del (it : Items) (k : Bytes) : Items := List.filter (fun e => e.key != k) it
/-- icache.set -/
def Items.set (it : Items) (k : Bytes) (v : Account) (exp : Nat) : Items := ⟨k, v, exp⟩ :: Items.del it k
/-- icache.get: found and `exp.After(now)` -/
def Items.get (it : Items) (now : Nat) (k : Bytes) : Option Account :=
  match Items.find it k with
  | some e => if now < e.exp then some e.val else none
  | none => none
/-- icache.update: merges into the entry when one is in the map — expired or not — and refreshes
its expiry -/
def Items.update (it : Items) (k : Bytes) (p : Props) (exp : Nat) : Items :=
  List.map (fun e => if e.key == k then ⟨e.key, updateAcc e.val p, exp⟩ else e) it
/-- one pass of gcCache: drops the entries with `now.After(exp)` -/
def Items.gc (it : Items) (now : Nat) : Items := List.filter (fun e => !(decide (e.exp < now))) it

/-! ### calls -/

inductive Op where
  | create (a : Account)
  | get (k : Bytes)
  | update (k : Bytes) (p : Props)
  | delete (k : Bytes)
  | list
  deriving Repr, DecidableEq

inductive Res where
  | ok
  | acct (a : Account)
  | userExists
  | noSuchUser
  | accts (l : List Account)
  deriving Repr, DecidableEq

def Op.key : Op → Bytes
  | .create a => a.access
  | .get k => k
  | .update k _ => k
  | .delete k => k
  | .list => []

def Op.isMut : Op → Bool
  | .create _ | .update _ _ | .delete _ => true
  | _ => false

/-- the `UpdateAcctFunc` closures of CreateAccount / UpdateUserAccount / DeleteUserAccount
(iam_internal.go 82-100, 132-152, 161-175) on the decoded image -/
def mutate (b : Store) : Op → Except Res Store
  | .create a => if (b.find a.access).isSome then .error .userExists else .ok (b.put a)
  | .update k p =>
    match b.find k with
    | none => .error .noSuchUser
    | some acc => .ok (b.put (updateAcc acc p))
  | .delete k => .ok (b.del k)
  | _ => .ok b

/-- where a call stands; the constructor arguments are the goroutine's local variables -/
inductive PC where
  | start
  /- mutations, inside IAMServiceInternal (write lock held from mLocked to mRenamed/mFailed) -/
  | mLocked                    -- s.Lock() done
  | mRead (b : Store)          -- storeIAM: os.ReadFile(fname)
  | mRemoved (b : Store)       -- os.Remove(fname)
  | mBackedUp (b : Store)      -- os.WriteFile(backup, b)
  | mTemp (b' : Store)         -- update(b) = b'; writeTempFile: CreateTemp + Write
  | mRenamed                   -- os.Rename(temp, fname) (+ deferred os.Remove(temp): ENOENT)
  | mFailed (e : Res)          -- update(b) failed: os.WriteFile(fname, datacopy)
  | mCache                     -- s.Unlock(); service returned nil; IAMCache's own step is next
  /- GetUserAccount -/
  | gMiss (g : Nat)            -- iamcache.get: not found or expired (g: generation seen)
  | gRLocked (g : Nat)         -- s.RLock()
  | gGot (r : Option Account) (g : Nat)   -- getIAM + map lookup
  | gFetched (a : Account) (g : Nat)      -- s.RUnlock(); service returned a   <- the yield point
  /- ListUserAccounts -/
  | lRLocked
  | lGot (s : Store)
  | done (r : Res)
  deriving Repr, DecidableEq

structure Call where
  op : Op
  pc : PC
  deriving Repr, DecidableEq

structure LogEntry where
  id : Nat
  op : Op
  res : Res
  deriving Repr, DecidableEq

structure State where
  /-- users.json (`none`: removed) -/
  main : Option Store := some []
  /-- users.json.backup -/
  backup : Option Store := none
  /-- the temp file of writeTempFile -/
  temp : Option Store := none
  items : Items := []
  /-- generation counter of the cache (`icache.gen`) -/
  gen : Nat := 0
  now : Nat := 0
  /-- holder of the write lock of IAMServiceInternal (index into `calls`) -/
  writer : Option Nat := none
  /-- holders of the read lock -/
  readers : List Nat := []
  calls : List Call := []
  /-- ghost: the last complete image that was renamed into place -/
  committed : Store := []
  /-- ghost: the mutations in the order in which they were decided under the write lock -/
  log : List LogEntry := []
  deriving Repr

def State.setCall (σ : State) (i : Nat) (c : Call) : State := { σ with calls := σ.calls.set i c }

/-- regression model: what the OLD CreateAccount put into the cache (the entry was built field by
field from Access, Secret, Role) -/
def entryOf (v : Variant) (a : Account) : Account :=
  if v.copyIds then a else { access := a.access, secret := a.secret, role := a.role }

/-- IAMCache's own step after the service acknowledged a mutation: `c.iamcache.invalidate(key)`
in CreateAccount / DeleteUserAccount / UpdateUserAccount (the `match` below it is the write-through
of the regression model) -/
def cacheStep (v : Variant) (cfg : Cfg) (σ : State) (op : Op) : State :=
  if !v.cache then σ else
  if v.invalidate then { σ with items := σ.items.del op.key, gen := σ.gen + 1 } else
  match op with
  | .create a => { σ with items := σ.items.set a.access (entryOf v a) (σ.now + cfg.ttl) }
  | .update k p => { σ with items := σ.items.update k p (σ.now + cfg.ttl) }
  | .delete k => { σ with items := σ.items.del k }
  | _ => σ

/-- the next atomic step of call `i` (which is `c`) -/
def stepCall (v : Variant) (cfg : Cfg) (σ : State) (i : Nat) (c : Call) : State :=
  match c.pc with
  | .start =>
    match c.op with
    | .get k =>
      -- iam_cache.go 159: c.iamcache.get(access)
      match (if v.cache then σ.items.get σ.now k else none) with
      | some a => σ.setCall i { c with pc := .done (.acct a) }
      | none => σ.setCall i { c with pc := .gMiss σ.gen }
    | .list =>
      -- iam_internal.go 180: s.RLock()
      if σ.writer.isNone then { σ with readers := i :: σ.readers }.setCall i { c with pc := .lRLocked } else σ
    | .create a =>
      -- iam_internal.go 75: the root account's access is refused before the lock
      if a.access == cfg.root.access then
        { σ with log := σ.log ++ [LogEntry.mk i c.op .userExists] }.setCall i { c with pc := .done .userExists } else
      if σ.writer.isNone && σ.readers.isEmpty then { σ with writer := some i }.setCall i { c with pc := .mLocked } else σ
    | _ =>
      if σ.writer.isNone && σ.readers.isEmpty then { σ with writer := some i }.setCall i { c with pc := .mLocked } else σ
  | .mLocked =>
    match σ.main with
    | some b => σ.setCall i { c with pc := .mRead b }
    | none => σ              -- retry loop of storeIAM
  | .mRead b => { σ with main := none }.setCall i { c with pc := .mRemoved b }
  | .mRemoved b => { σ with backup := some b }.setCall i { c with pc := .mBackedUp b }
  | .mBackedUp b =>
    match mutate b c.op with
    | .error e => { σ with main := some b, log := σ.log ++ [LogEntry.mk i c.op e] }.setCall i { c with pc := .mFailed e }
    | .ok b' => { σ with temp := some b' }.setCall i { c with pc := .mTemp b' }
  | .mTemp b' =>
    { σ with main := some b', temp := none, committed := b', log := σ.log ++ [LogEntry.mk i c.op .ok] }.setCall i { c with pc := .mRenamed }
  | .mRenamed => { σ with writer := none }.setCall i { c with pc := .mCache }
  | .mFailed e => { σ with writer := none }.setCall i { c with pc := .done e }
  | .mCache => (cacheStep v cfg σ c.op).setCall i { c with pc := .done .ok }
  | .gMiss g =>
    -- iam_internal.go 106: the root account is answered without lock or file
    if c.op.key == cfg.root.access then σ.setCall i { c with pc := .gFetched cfg.root g } else
    if σ.writer.isNone then { σ with readers := i :: σ.readers }.setCall i { c with pc := .gRLocked g } else σ
  | .gRLocked g =>
    match σ.main with
    | some s => σ.setCall i { c with pc := .gGot (s.find c.op.key) g }
    | none => σ              -- retry loop of readIAMData
  | .gGot r g =>
    let σ' := { σ with readers := σ.readers.filter (· != i) }
    match r with
    | none => σ'.setCall i { c with pc := .done .noSuchUser }
    | some a => σ'.setCall i { c with pc := .gFetched a g }
  | .gFetched a g =>
    -- c.iamcache.setIfCurrent(strings.Clone(access), a, gen)
    let σ' := if v.cache && (!v.invalidate || g == σ.gen)
      then { σ with items := σ.items.set c.op.key a (σ.now + cfg.ttl) } else σ
    σ'.setCall i { c with pc := .done (.acct a) }
  | .lRLocked =>
    match σ.main with
    | some s => σ.setCall i { c with pc := .lGot s }
    | none => σ
  | .lGot s => { σ with readers := σ.readers.filter (· != i) }.setCall i { c with pc := .done (.accts (sortAccts s)) }
  | .done _ => σ

def stepAt (v : Variant) (cfg : Cfg) (σ : State) (i : Nat) : State :=
  match σ.calls[i]? with
  | some c => stepCall v cfg σ i c
  | none => σ

/-- one event of a schedule -/
inductive Act where
  | invoke (op : Op)      -- a request handler enters the IAM service; the call gets index `calls.length`
  | step (i : Nat)        -- call i performs its next atomic step (stutter when blocked or finished)
  | tick (n : Nat)        -- time passes
  | gc                    -- the pruning goroutine runs once
  deriving Repr, DecidableEq

def act (v : Variant) (cfg : Cfg) (σ : State) : Act → State
  | .invoke op => { σ with calls := σ.calls ++ [⟨op, .start⟩] }
  | .step i => stepAt v cfg σ i
  | .tick n => { σ with now := σ.now + n }
  | .gc => { σ with items := σ.items.gc σ.now }

def run (v : Variant) (cfg : Cfg) (σ : State) (acts : List Act) : State := acts.foldl (act v cfg) σ

/-- a gateway that has just started on the store image `s` -/
def init (s : Store) (now : Nat := 0) : State := { main := some s, committed := s, now := now }

/-- outcome of call `i`, once it has returned -/
def State.result (σ : State) (i : Nat) : Option Res :=
  match σ.calls[i]? with
  | some ⟨_, .done r⟩ => some r
  | _ => none

/-! ### one call at a time -/

def stepN (v : Variant) (cfg : Cfg) (σ : State) (i : Nat) : Nat → State
  | 0 => σ
  | n + 1 => stepN v cfg (stepAt v cfg σ i) i n

/-- no call needs more than 9 steps -/
def fuel : Nat := 10

/-- a call that runs alone from invocation to return -/
def call (v : Variant) (cfg : Cfg) (σ : State) (op : Op) : State :=
  stepN v cfg (act v cfg σ (.invoke op)) σ.calls.length fuel

/-- sequential history: calls one after the other, with clock advances and pruning in between -/
inductive SeqAct where
  | call (op : Op)
  | tick (n : Nat)
  | gc
  deriving Repr, DecidableEq

/-- results of the calls of a sequential history, in order (`none`: did not return — impossible,
see `Props.C17.call_returns`) -/
def seqRun (v : Variant) (cfg : Cfg) : State → List SeqAct → List (Option Res)
  | _, [] => []
  | σ, .call op :: rest => (call v cfg σ op).result σ.calls.length :: seqRun v cfg (call v cfg σ op) rest
  | σ, .tick n :: rest => seqRun v cfg (act v cfg σ (.tick n)) rest
  | σ, .gc :: rest => seqRun v cfg (act v cfg σ .gc) rest

end Vgw.Model.IAM
