/-
  Model of backend.ParseGetObjectRange (backend/common.go), of the range part of
  posix.GetObject (backend/posix/posix.go: contentRange / section reader / ContentLength) and of
  the status choice in S3ApiController.GetActions (s3api/controllers/base.go).
-/
import Vgw.Go.Strconv
namespace Vgw.Model.Range
open Vgw

structure Parse where
  start : Int
  length : Int
  valid : Bool
  err : Bool          -- ErrInvalidRange
  deriving Repr, DecidableEq

def bytesLit : Bytes := [98, 121, 116, 101, 115]   -- "bytes"

/-- backend.ParseGetObjectRange, statement by statement. -/
def parseGetObjectRange (size : Int) (r : Bytes) : Parse :=
  if r = [] then ⟨0, size, false, false⟩ else
  match splitOn 61 r with                       -- strings.Split(acceptRange, "=")
  | [unit, spec] =>
    if unit ≠ bytesLit then ⟨0, size, false, false⟩ else
    match splitOn 45 spec with                  -- strings.Split(rangeKv[1], "-")
    | [a, b] =>
      match parseInt64 a with
      | none => ⟨0, size, false, false⟩
      | some startOffset =>
        if startOffset ≥ size then ⟨0, 0, false, true⟩ else
        if b = [] then ⟨startOffset, size - startOffset, true, false⟩ else
        match parseInt64 b with
        | none => ⟨0, size, false, false⟩
        | some endOffset =>
          if endOffset < startOffset then ⟨0, size, false, false⟩ else
          if endOffset ≥ size then ⟨startOffset, size - startOffset, true, false⟩ else
          ⟨startOffset, endOffset - startOffset + 1, true, false⟩
    | _ => ⟨0, size, false, false⟩
  | _ => ⟨0, size, false, false⟩

/-- What GET answers for a regular-file object of `size` bytes and Range header `r`. -/
structure Resp where
  status : Nat                       -- 200 | 206 | 416
  bodyOff : Int                      -- body = object[bodyOff, bodyOff+bodyLen)
  bodyLen : Int
  contentLength : Int
  contentRange : Option (Int × Int × Int)   -- "bytes a-b/size"
  deriving Repr, DecidableEq

/-- posix.GetObject + controller: parse; 416 on error; Content-Range only when valid;
body through a section reader of (start, length); ContentLength = length;
status 206 exactly when a Content-Range is being returned. -/
def respond (size : Int) (r : Bytes) : Resp :=
  let p := parseGetObjectRange size r
  if p.err then ⟨416, 0, 0, 0, none⟩ else
  let cr := if p.valid then some (p.start, p.start + p.length - 1, size) else none
  let status := if r ≠ [] ∧ p.valid then 206 else 200
  ⟨status, p.start, p.length, p.length, cr⟩

end Vgw.Model.Range
