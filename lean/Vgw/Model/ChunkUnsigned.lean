/-
  Model of the UNSIGNED aws-chunked reader (STREAMING-UNSIGNED-PAYLOAD-TRAILER):
  s3api/utils/unsigned-chunk-reader.go as of /repo commit cf70120 (`NewUnsignedChunkReader`, `UnsignedChunkReader.Read`,
  `extractChunkSize`, `readAndSkip`, `readTrailer`, `validateChecksum`), statement by statement.

  Conventions
  * The reader sits on `bufio.NewReader(r)`.  bufio is a TRUSTED PARAMETER: it delivers the bytes of
    the underlying stream in order, blocks until the requested delimiter / byte count is there, and
    reports `io.EOF` only when the stream has ended.  Consequently one `Read(p)` is a function of the
    reader's state, the not-yet-consumed rest of the stream (`State.input`) and `len(p)` only — the
    fragmentation of the underlying reads cannot be observed, and the model does not take it.
  * `ucr.offset` is 0 on entry to every `Read` that follows a `Read` which returned a nil error
    (every such path resets it) and `io.Copy`/`io.ReadAll` never call `Read` again after a non-nil
    error; the model keeps it as the length of the local output `acc`.
  * The trailing-checksum hash is the parameter `Cfg.csum`; the `hash.Hash` fed through the
    `io.TeeReader` is modelled by the list of bytes written (`hashAcc`).
  * `extractChunkSize` rejects sizes below 0 and above `maxUnsignedChunkSize` (5 GiB), so
    `make([]byte, chunkSize)` cannot panic any more; the model has no panic outcome left.
  * The chunk loop runs on fuel; `read` supplies `input.length + 1`, one iteration consumes at least
    the `\n` of a size line, and `Status.fuel` is never produced (`Props.C12.unsigned_fuel_suffices`).
-/
import Vgw.Go.Encoding
namespace Vgw.Model.ChunkUnsigned
open Vgw

inductive Err where
  | malformed        -- errMalformedEncoding
  | unexpectedEOF    -- io.ErrUnexpectedEOF
  | badDigest        -- "actual checksum: …, expected checksum: …"
  deriving DecidableEq, Repr

inductive Status where
  | nil | eof | err (e : Err) | fuel
  deriving DecidableEq, Repr

structure Out where
  out : Bytes
  status : Status
  deriving DecidableEq, Repr

structure Cfg where
  csum : Bytes → Bytes       -- hasher of `checksumType` (raw digest)
  trailer : Bytes            -- string(checksumType), e.g. "x-amz-checksum-crc32"

structure State where
  input : Bytes              -- what bufio will still deliver
  stash : Bytes := []
  hashAcc : Bytes := []
  deriving DecidableEq, Repr

def init (stream : Bytes) : State := { input := stream }

def maxUnsignedChunkSize : Int := 5368709120   -- 5 * 1024 * 1024 * 1024

/-- `ucr.reader.ReadString('\n')`: the line including the `\n` and the rest; `none` = error (EOF). -/
def readLine : Bytes → Option (Bytes × Bytes)
  | [] => none
  | b :: cur =>
    if b = 10 then some ([10], cur)
    else match readLine cur with
      | some (l, r) => some (b :: l, r)
      | none => none

/-- `extractChunkSize` -/
def extractChunkSize (input : Bytes) : Option (Int × Bytes) :=
  match readLine input with
  | none => none
  | some (line, rest) =>
    match parseIntHex64 (trimSpace line) with
    | none => none
    | some v => if v < 0 ∨ v > maxUnsignedChunkSize then none else some (v, rest)

/-- `ucr.readAndSkip(data...)`: EOF becomes io.ErrUnexpectedEOF -/
def skipBytes (data input : Bytes) : Except Err Bytes :=
  match readAndSkip data input with
  | .ok r => .ok r
  | .error .eof => .error .unexpectedEOF
  | .error .mismatch => .error .malformed

/-- `strings.Split(s, ":")` has exactly two parts -/
def splitColon2 (s : Bytes) : Option (Bytes × Bytes) :=
  match splitOn 58 s with
  | [a, b] => some (a, b)
  | _ => none

/-- `readTrailer` + `validateChecksum` -/
def readTrailer (cfg : Cfg) (st : State) : State × Status :=
  match readUntil 13 st.input with
  | none => ({ st with input := [] }, .err .unexpectedEOF)
  | some (buf, rest) =>
    -- io.ReadFull(ucr.reader, tmp[:3])
    if rest.length < 3 then ({ st with input := [] }, .err .unexpectedEOF) else
    if rest.take 3 ≠ [10, 13, 10] then ({ st with input := rest.drop 3 }, .err .malformed) else
    let st := { st with input := rest.drop 3 }
    match splitColon2 (trimSpace buf) with
    | none => (st, .err .malformed)
    | some (name, value) =>
      if name ≠ cfg.trailer then (st, .err .malformed) else
      if b64Encode (cfg.csum st.hashAcc) ≠ value then (st, .err .badDigest) else (st, .eof)

/-- the `for` loop of `Read` and what follows it; `acc` = `p[:ucr.offset]` -/
def loop (cfg : Cfg) (cap : Nat) : Nat → State → Bytes → State × Out
  | 0, st, _ => (st, ⟨[], .fuel⟩)
  | fuel + 1, st, acc =>
    match extractChunkSize st.input with
    | none => (st, ⟨[], .err .malformed⟩)
    | some (chunkSize, rest) =>
      let st := { st with input := rest }
      if chunkSize == 0 then
        let (st, s) := readTrailer cfg st
        match s with
        | .eof => (st, ⟨acc, .eof⟩)                 -- return ucr.offset, io.EOF
        | s => (st, ⟨[], s⟩)
      else
        -- payload := make([]byte, chunkSize); io.ReadFull(rdr, payload): io.EOF becomes io.ErrUnexpectedEOF
        if st.input.length < chunkSize.toNat then
          ({ st with input := [], hashAcc := st.hashAcc ++ st.input }, ⟨[], .err .unexpectedEOF⟩)
        else
        let payload := st.input.take chunkSize.toNat
        let st := { st with input := st.input.drop chunkSize.toNat, hashAcc := st.hashAcc ++ payload }
        match skipBytes [13, 10] st.input with
        | .error e => (st, ⟨[], .err e⟩)
        | .ok rest =>
          let st := { st with input := rest }
          let n := min (cap - acc.length) payload.length         -- copy(p[ucr.offset:], payload)
          let acc := acc ++ payload.take n
          if n < payload.length then
            ({ st with stash := payload.drop n }, ⟨acc, .nil⟩)
          else loop cfg cap fuel st acc

/-- `(*UnsignedChunkReader).Read(p)` with `len(p) = cap`. -/
def read (cfg : Cfg) (st : State) (cap : Nat) : State × Out :=
  if st.stash ≠ [] then
    let n := min cap st.stash.length                -- copy(p, ucr.stash)
    if n < st.stash.length then
      ({ st with stash := st.stash.drop n }, ⟨st.stash.take n, .nil⟩)
    else
      -- NB: ucr.stash is not cleared here; it is overwritten or irrelevant on every way out
      loop cfg cap (st.input.length + 1) st (st.stash.take n)
  else loop cfg cap (st.input.length + 1) st []

/-- io.Copy / io.ReadAll: `caps i` is the buffer size of the i-th `Read`; stops at the first non-nil
error; `.nil` as final status means "fuel used up" (only possible with zero-sized buffers). -/
def runFrom (cfg : Cfg) (caps : Nat → Nat) : Nat → Nat → State → Bytes → Bytes × Status
  | 0, _, _, acc => (acc, .nil)
  | fuel + 1, i, st, acc =>
    let (st, o) := read cfg st (caps i)
    match o.status with
    | .nil => runFrom cfg caps fuel (i + 1) st (acc ++ o.out)
    | s => (acc ++ o.out, s)

/-- the stream arrives in `frags` (irrelevant by the bufio assumption — only their concatenation
matters); every read with a non-empty buffer either ends the run or hands out at least one byte or
consumes at least one size line, so `2·|stream| + 2` reads suffice. -/
def run (cfg : Cfg) (frags : List Bytes) (caps : Nat → Nat) : Bytes × Status :=
  let s := frags.flatten
  runFrom cfg caps (2 * s.length + 2) 0 (init s) []

end Vgw.Model.ChunkUnsigned
