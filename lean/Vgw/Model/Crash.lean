/-
  Model.Crash — the posix backend's mutating requests as LISTS OF FILESYSTEM STEPS over an abstract
  file system, the crash (process kill) between any two steps, and the view the S3 API shows after
  a restart.  Property C11.

  Transcribed from /repo:
    backend/posix/posix.go        PutObject, CopyObject (dst ≠ src), CompleteMultipartUpload, UploadPart,
                                  DeleteObject (no versionId), createObjVersion, deleteNullVersionIdObject,
                                  removeParents, PutObjectTagging; GetObject/HeadObject/fileToObj/
                                  fileToObjVersions/ListMultipartUploads/ListParts/isBucketEmpty (the view)
    backend/posix/with_otmpfile.go openTmpFile, openMkTemp, link, fallbackLink
    backend/mkdir.go              MkdirAll
    backend/meta/xattr.go, backend/meta/sidecar.go  StoreAttribute, RetrieveAttribute, ListAttributes,
                                  DeleteAttribute, DeleteAttributes

  One step = one successful mutating system call below the storage directories (failed calls such as
  the ENOENT of `os.Remove` on a new key change nothing and are not steps).  A process kill loses the
  unnamed (O_TMPFILE) inodes and nothing else: the page cache survives, so every completed system call
  is in the post-crash state (power loss / fsync ordering is outside C11).

  What the model cannot exhibit: the order of attribute copies that follow `listxattr`/`readdir` order
  (the plan lists them in one representative order; the harness feeds the executed order back);
  several `write` calls for one body (one `write` step); the EXDEV copy fallback of `MoveFile`
  (needs two file systems); `chown` (the gateway runs without the chuid / chgid options); concurrent requests.

  Values (object bodies, attribute values) are opaque tokens: the theorems hold for all of them.
  Core Lean only.
-/
namespace Vgw.Model.Crash

abbrev Val := String
abbrev Attrs := List (String × Val)
/-- A path is its list of components; the first component names the area:
    `R` storage root, `V` versioning directory, `S` sidecar directory, `SV` the part of the sidecar directory
    that mirrors the (absolute path of the) versioning directory. -/
abbrev Path := List String

inductive Node where
  | file (data : Val) (attrs : Attrs)
  | dir (attrs : Attrs)
deriving DecidableEq, Repr, Inhabited

def Node.attrs : Node → Attrs
  | .file _ a => a
  | .dir a => a

def Node.withAttrs : Node → Attrs → Node
  | .file d _, a => .file d a
  | .dir _, a => .dir a

def Node.isFile : Node → Bool
  | .file .. => true
  | .dir _ => false

def Node.isDir : Node → Bool
  | .file .. => false
  | .dir _ => true

def aget (a : Attrs) (k : String) : Option Val := (a.find? (fun e => e.1 == k)).map (·.2)
def adel (a : Attrs) (k : String) : Attrs := a.filter (fun e => !(e.1 == k))
def aset (a : Attrs) (k : String) (v : Val) : Attrs := adel a k ++ [(k, v)]

/-- The file system: named entries, and the unnamed temp inodes held open by the running request. -/
structure FS where
  ents : List (Path × Node) := []
  anon : List (Nat × Node) := []
deriving Repr, Inhabited

def FS.get (fs : FS) (p : Path) : Option Node := (fs.ents.find? (fun e => e.1 == p)).map (·.2)
def FS.del (fs : FS) (p : Path) : FS := { fs with ents := fs.ents.filter (fun e => !(e.1 == p)) }
def FS.put (fs : FS) (p : Path) (n : Node) : FS := { fs with ents := (p, n) :: (fs.del p).ents }
def FS.aget (fs : FS) (id : Nat) : Option Node := (fs.anon.find? (fun e => e.1 == id)).map (·.2)
def FS.aput (fs : FS) (id : Nat) (n : Node) : FS :=
  { fs with anon := (id, n) :: fs.anon.filter (fun e => !(e.1 == id)) }

def FS.isDir (fs : FS) (p : Path) : Bool := match fs.get p with | some (.dir _) => true | _ => false
def FS.isFile (fs : FS) (p : Path) : Bool := match fs.get p with | some (.file ..) => true | _ => false

/-- entries directly below `p` -/
def FS.children (fs : FS) (p : Path) : List (Path × Node) :=
  fs.ents.filter (fun e => e.1.length == p.length + 1 && p.isPrefixOf e.1)

/-- A file reference of a step: an unnamed inode (through its descriptor) or a name. -/
inductive Ref where
  | anon (id : Nat)
  | path (p : Path)
deriving DecidableEq, Repr, Inhabited

def FS.rget (fs : FS) : Ref → Option Node
  | .anon id => fs.aget id
  | .path p => fs.get p

def FS.rput (fs : FS) : Ref → Node → FS
  | .anon id, n => fs.aput id n
  | .path p, n => fs.put p n

/-- The step vocabulary (= the canonical projection of the traced system calls). -/
inductive Step where
  | otmp (id : Nat) (dir : Path)           -- openat(dir, O_TMPFILE)
  | creat (p : Path)                       -- openat(p, O_CREAT|O_EXCL) / (O_CREAT|O_TRUNC): empty regular file
  | falloc (r : Ref)                       -- fallocate(fd, 0, 0, size)
  | write (r : Ref) (v : Val)              -- write / copy_file_range … until the whole body is there
  | setx (r : Ref) (a : String) (v : Val)  -- fsetxattr / setxattr
  | rmx (p : Path) (a : String)            -- removexattr
  | mkdir (p : Path)
  | unlink (p : Path)
  | rmdir (p : Path)
  | link (id : Nat) (p : Path)             -- linkat(/proc/self/fd/N → p)
  | rename (s d : Path)
  | chmod (r : Ref)                        -- fchmod of the named temp file
deriving DecidableEq, Repr, Inhabited

def apply (s : Step) (fs : FS) : FS :=
  match s with
  | .otmp id _ => fs.aput id (.file "" [])
  | .creat p =>
    match fs.get p with
    | some (.file _ a) => fs.put p (.file "" a)
    | some (.dir _) => fs
    | none => fs.put p (.file "" [])
  | .falloc _ => fs
  | .chmod _ => fs
  | .write r v =>
    match fs.rget r with
    | some (.file _ a) => fs.rput r (.file v a)
    | _ => fs
  | .setx r a v =>
    match fs.rget r with
    | some n => fs.rput r (n.withAttrs (aset n.attrs a v))
    | none => fs
  | .rmx p a =>
    match fs.get p with
    | some n => fs.put p (n.withAttrs (adel n.attrs a))
    | none => fs
  | .mkdir p => if (fs.get p).isSome then fs else fs.put p (.dir [])
  | .unlink p => if fs.isFile p then fs.del p else fs
  | .rmdir p => if fs.isDir p then fs.del p else fs
  | .link id p =>
    match fs.aget id with
    | some n => if (fs.get p).isSome then fs else fs.put p n
    | none => fs
  | .rename s d =>
    match fs.get s with
    | some n => (fs.del s).put d n
    | none => fs

def run (steps : List Step) (fs : FS) : FS := steps.foldl (fun fs s => apply s fs) fs

/-- SIGKILL: descriptors are closed, unnamed inodes vanish, every name stays. -/
def crash (fs : FS) : FS := { fs with anon := [] }

/-- the state a restarted gateway finds after a kill on entry to step `n+1` -/
def crashAt (n : Nat) (steps : List Step) (fs : FS) : FS := crash (run (steps.take n) fs)

/-! ## Configuration and requests -/

inductive VStatus where
  | off | enabled | suspended
deriving DecidableEq, Repr, Inhabited

structure Cfg where
  otmp : Bool := true        -- O_TMPFILE strategy (false = --disableotmp: named temp + rename)
  sidecar : Bool := false    -- metadata store: sidecar files (true) or xattrs (false)
  verDir : Bool := false     -- a versioning directory is configured
  vstatus : VStatus := .off  -- versioning status of the bucket
  bucket : String := "b"
  -- variants of the backend (both false = the unchanged code)
  atomicReplace : Bool := false  -- docs/C11-fix-1.diff applied: tmpfile.link replaces by rename, never removes first
  tagsFirst : Bool := false      -- docs/C11-fix-2.diff applied: PutObject writes the tags onto the temp file
  lock : Bool := false           -- the bucket was created with object lock: legal hold is part of what the API shows
  holdFirst : Bool := false      -- docs/C11-fix-3.diff applied: PutObject writes legal hold / retention onto the temp file
  copyTagsFirst : Bool := false  -- docs/C05-fix-4.diff applied: CopyObject hands the source's tags to PutObject (temp file)
deriving DecidableEq, Repr, Inhabited

inductive Op where
  | put | copy | delete | uploadPart | complete
deriving DecidableEq, Repr, Inhabited

structure Req where
  op : Op := .put
  key : Path := []                 -- key components (file key: no trailing slash)
  data : Val := "new"              -- put / uploadPart: the body
  falloc : Bool := true            -- declared length > 0
  metaKeys : List String := []     -- put: x-amz-meta-* names
  ctype : Bool := false            -- put: Content-Type supplied
  tags : Bool := false             -- put: x-amz-tagging supplied
  hold : Bool := false             -- put / copy: x-amz-object-lock-legal-hold: ON (object-lock bucket)
  src : Path := []                 -- copy: source key
  upload : String := ""            -- uploadPart / complete
  partNo : String := "1"
  parts : List String := []        -- complete: part numbers in order
  tmp : String := "TMP"            -- name os.CreateTemp picks (fresh)
  newVid : Val := "new"            -- the version id ulid.Make() returns
deriving Repr, Inhabited

def bucketPath (cfg : Cfg) : Path := ["R", cfg.bucket]
def objPath (cfg : Cfg) (key : Path) : Path := bucketPath cfg ++ key
def tmpDir (cfg : Cfg) : Path := bucketPath cfg ++ [".sgwtmp"]
def keyHash (key : Path) : String := "#" ++ "%".intercalate key
/-- genObjVersionKey: sum[:2]/sum[2:4]/sum[4:6]/sum -/
def hashDirs (key : Path) : Path := let h := keyHash key; [h ++ ".2", h ++ ".4", h ++ ".6", h]
def verBucket (cfg : Cfg) : Path := ["V", cfg.bucket]
def verDirOf (cfg : Cfg) (key : Path) : Path := verBucket cfg ++ hashDirs key
def mpObjDir (cfg : Cfg) (key : Path) : Path := tmpDir cfg ++ ["multipart", keyHash key]
def mpDir (cfg : Cfg) (key : Path) (upload : String) : Path := mpObjDir cfg key ++ [upload]

/-- sidecar: `<sidecar>/<bucket>/<object>/meta` -/
def sideOf : Path → Path
  | "R" :: rest => "S" :: rest ++ ["meta"]
  | "V" :: rest => "SV" :: rest ++ ["meta"]
  | p => "S" :: "?" :: p ++ ["meta"]

/-! ## Metadata store -/

def readAttr (cfg : Cfg) (fs : FS) (obj : Path) (a : String) : Option Val :=
  if cfg.sidecar then
    match fs.get (sideOf obj ++ [a]) with
    | some (.file d _) => some d
    | _ => none
  else (fs.get obj).bind (fun n => aget n.attrs a)

def listAttrs (cfg : Cfg) (fs : FS) (obj : Path) : List String :=
  if cfg.sidecar then ((fs.children (sideOf obj)).filterMap (fun e => e.1.getLast?)).mergeSort (fun a b => decide (a ≤ b))  -- os.ReadDir: sorted by name
  else match fs.get obj with
    | some n => n.attrs.map (·.1)
    | none => []

/-- backend.MkdirAll / os.MkdirAll: one mkdir per missing prefix, top down (area roots exist). -/
def mkdirAll (fs : FS) (p : Path) : List Step :=
  (((List.range (p.length + 1)).map (fun i => p.take i)).filter (fun q => decide (2 ≤ q.length) && (fs.get q).isNone)).map Step.mkdir

/-- StoreAttribute. xattr store: on the reference (the open temp file or the name). Sidecar store: by NAME of
    the final object, whatever file is open: MkdirAll(meta dir), then os.WriteFile = create/truncate + write. -/
def storeAttr (cfg : Cfg) (fs : FS) (r : Ref) (obj : Path) (a : String) (v : Val) : List Step :=
  if cfg.sidecar then
    let md := sideOf obj
    -- an empty value is written with no write call at all
    mkdirAll fs md ++ [.creat (md ++ [a])] ++ (if v == "" then [] else [.write (.path (md ++ [a])) v])
  else [.setx r a v]

def storeAttrs (cfg : Cfg) (fs : FS) (r : Ref) (obj : Path) : List (String × Val) → List Step
  | [] => []
  | (a, v) :: rest =>
    let s := storeAttr cfg fs r obj a v
    s ++ storeAttrs cfg (run s fs) r obj rest

/-- DeleteAttribute -/
def deleteAttr (cfg : Cfg) (fs : FS) (obj : Path) (a : String) : List Step :=
  if cfg.sidecar then
    (if fs.isFile (sideOf obj ++ [a]) then [.unlink (sideOf obj ++ [a])] else [])
  else match (fs.get obj).bind (fun n => aget n.attrs a) with
    | some _ => [.rmx obj a]
    | none => []

/-- DeleteAttributes: nothing for xattrs; sidecar: os.RemoveAll(meta dir). -/
def deleteAttrs (cfg : Cfg) (fs : FS) (obj : Path) : List Step :=
  if cfg.sidecar then
    let md := sideOf obj
    if fs.isDir md then ((fs.children md).map (fun e => Step.unlink e.1)) ++ [.rmdir md] else []
  else []

/-! ## Temp files and publication (with_otmpfile.go) -/

/-- openTmpFile: O_TMPFILE in `dir` when enabled and `dir` exists; otherwise openMkTemp:
    MkdirAll(dir) + CreateTemp.  Then the best-effort fallocate. -/
def openTmp (cfg : Cfg) (fs : FS) (id : Nat) (dir : Path) (falloc : Bool) (name : String) : Ref × List Step :=
  if cfg.otmp && fs.isDir dir then
    (.anon id, [.otmp id dir] ++ (if falloc then [.falloc (.anon id)] else []))
  else
    let t := dir ++ [name]
    (.path t, mkdirAll fs dir ++ [.creat t] ++ (if falloc then [.falloc (.path t)] else []))

/-- os.Remove(objPath) -/
def rmAt (fs : FS) (obj : Path) : List Step :=
  match fs.get obj with
  | some (.file ..) => [.unlink obj]
  | some (.dir _) => [.rmdir obj]
  | none => []

/-- tmpfile.link: os.Remove(objPath) — in BOTH strategies — then MkdirAll(parent), then linkat, or
    fchmod + rename for a named temp file. -/
def publish (fs : FS) (r : Ref) (obj : Path) : List Step :=
  let rm := rmAt fs obj
  let mk := mkdirAll (run rm fs) obj.dropLast
  rm ++ mk ++ (match r with
    | .anon id => [.link id obj]
    | .path t => [.chmod (.path t), .rename t obj])

/-- (tmpfile.link with docs/C11-fix-1.diff) MkdirAll(parent); only an (empty) directory in the object's place is
    removed; a new name is linked directly; an existing object is replaced by linking the inode next to the other
    temp files (`tdir`) and renaming it over the object; the named temp file is simply renamed. -/
def rmDirAt (fs : FS) (obj : Path) : List Step :=
  match fs.get obj with
  | some (.dir _) => [.rmdir obj]
  | _ => []

def publishR (fs : FS) (r : Ref) (obj : Path) (tdir : Path) (name : String) : List Step :=
  let mk := mkdirAll fs obj.dropLast
  let rm := rmDirAt fs obj
  mk ++ rm ++ (match r with
    | .anon id => if fs.isFile obj then [.link id (tdir ++ [name]), .rename (tdir ++ [name]) obj] else [.link id obj]
    | .path t => [.chmod (.path t), .rename t obj])

/-- the publication routine of the configured variant -/
def publishC (cfg : Cfg) (fs : FS) (r : Ref) (obj : Path) (tdir : Path) (name : String) : List Step :=
  if cfg.atomicReplace then publishR fs r obj tdir name else publish fs r obj

/-- createObjVersion: copy the current object (data, then every attribute) into the versioning directory
    under its version id, through a temp file of its own. -/
def archive (cfg : Cfg) (rq : Req) (fs : FS) (key : Path) : List Step :=
  let obj := objPath cfg key
  match fs.get obj with
  | some (.file data _) =>
    let vid := (readAttr cfg fs obj "version-id").getD "null"
    let attrs := (listAttrs cfg fs obj).filterMap (fun a => (readAttr cfg fs obj a).map (fun v => (a, v)))
    let vdir := verDirOf cfg key
    let vpath := vdir ++ [vid]
    let o := openTmp cfg fs 1 (verBucket cfg ++ [".sgwtmp"]) (data != "") (rq.tmp ++ "v")
    let s12 := o.2 ++ [.write o.1 data]
    let fs2 := run s12 fs
    let s3 := mkdirAll fs2 vdir
    let fs3 := run s3 fs2
    let s4 := storeAttrs cfg fs3 o.1 vpath attrs
    s12 ++ s3 ++ s4 ++ publishC cfg (run s4 fs3) o.1 vpath (verBucket cfg ++ [".sgwtmp"]) (rq.tmp ++ "v")
  | _ => []

/-- deleteNullVersionIdObject -/
def deleteNullVersion (cfg : Cfg) (fs : FS) (key : Path) : List Step :=
  let p := verDirOf cfg key ++ ["null"]
  -- os.Remove(versionPath), then meta.DeleteAttributes(versionDir, "null") (sidecar: the attribute directory)
  if fs.isFile p then [.unlink p] ++ deleteAttrs cfg fs p else []

/-! ## The requests -/

structure PutSpec where
  data : Val
  falloc : Bool
  attrs : List (String × Val)   -- user metadata, checksums, etag, content-type: in the order of the code
  postAttrs : List (String × Val) -- written by NAME after publication (tags; legal hold, retention alike)
  tailAttrs : List (String × Val) := [] -- written onto the temp file after the version id (tags with fix-2)

/-- PutObject for a file key, up to (not including) the publication: temp file, body, archive copy of the
    current version, parent directories, attributes. -/
def prePut (cfg : Cfg) (rq : Req) (fs : FS) (key : Path) (sp : PutSpec) : List Step :=
  let obj := objPath cfg key
  let archiveCurrent := cfg.verDir && cfg.vstatus != .off && fs.isFile obj &&
    (if cfg.vstatus == .suspended then ((readAttr cfg fs obj "version-id").getD "") != "" else true)
  let o := openTmp cfg fs 0 (tmpDir cfg) sp.falloc rq.tmp
  let s1 := o.2 ++ [.write o.1 sp.data]
  let fs1 := run s1 fs
  let s2 := if archiveCurrent then archive cfg rq fs1 key else []
  let fs2 := run s2 fs1
  let s3 := mkdirAll fs2 obj.dropLast
  let fs3 := run s3 fs2
  let s4 := if cfg.vstatus == .suspended then deleteNullVersion cfg fs3 key else []
  let fs4 := run s4 fs3
  let s5 := deleteAttrs cfg fs4 obj
  let fs5 := run s5 fs4
  let vidAttr : List (String × Val) := if cfg.verDir && cfg.vstatus == .enabled then [("version-id", rq.newVid)] else []
  let s6 := storeAttrs cfg fs5 o.1 obj (sp.attrs ++ vidAttr ++ sp.tailAttrs)
  s1 ++ s2 ++ s3 ++ s4 ++ s5 ++ s6

/-- PutObject for a file key: preparation, publication (tmpfile.link), then the attributes written by name. -/
def planPutSpec (cfg : Cfg) (rq : Req) (fs : FS) (key : Path) (sp : PutSpec) : List Step :=
  let obj := objPath cfg key
  if !fs.isDir (bucketPath cfg) || fs.isDir obj then [] else
  let pre := prePut cfg rq fs key sp
  let fs6 := run pre fs
  let s7 := publishC cfg fs6 (openTmp cfg fs 0 (tmpDir cfg) sp.falloc rq.tmp).1 obj (tmpDir cfg) rq.tmp
  let s8 := storeAttrs cfg (run s7 fs6) (.path obj) obj sp.postAttrs
  pre ++ s7 ++ s8

/-- PutObject sets the legal hold (PutObjectLegalHold; retention alike) by NAME after the publication — or, with
    docs/C11-fix-3.diff (`holdFirst`), onto the temp file after the tags. -/
def holdAttr (rq : Req) : List (String × Val) := if rq.hold then [("object-legal-hold", "new")] else []

def putSpecOf (cfg : Cfg) (rq : Req) : PutSpec :=
  let tg : List (String × Val) := if rq.tags then [("X-Amz-Tagging", "new")] else []
  { data := rq.data, falloc := rq.falloc,
    attrs := rq.metaKeys.map (fun k => ("X-Amz-Meta." ++ k, "new")) ++ [("checksums", "new"), ("etag", "new")] ++
             (if rq.ctype then [("content-type", "new")] else []),
    postAttrs := (if cfg.tagsFirst then [] else tg) ++ (if cfg.holdFirst then [] else holdAttr rq),
    tailAttrs := (if cfg.tagsFirst then tg else []) ++ (if cfg.holdFirst then holdAttr rq else []) }

def planPut (cfg : Cfg) (rq : Req) (fs : FS) : List Step := planPutSpec cfg rq fs rq.key (putSpecOf cfg rq)

def isMetaAttr (a : String) : Bool := "X-Amz-Meta.".isPrefixOf a

/-- CopyObject, destination ≠ source, directives COPY: PutObject fed from the source's data and attributes
    (new checksums and ETag). The source's tags: stored by name on the destination after PutObject returned
    (before docs/C05-fix-4.diff), or handed to PutObject, which writes them onto the temp file after the version
    id like its own tags (`copyTagsFirst`). -/
def planCopy (cfg : Cfg) (rq : Req) (fs : FS) : List Step :=
  let src := objPath cfg rq.src
  match fs.get src with
  | some (.file data _) =>
    if cfg.verDir && (readAttr cfg fs src "delete-marker").isSome then [] else
    let metas := (listAttrs cfg fs src).filter isMetaAttr |>.filterMap (fun a => (readAttr cfg fs src a).map (fun v => (a, v)))
    let ct := match readAttr cfg fs src "content-type" with | some v => if v != "" then [("content-type", v)] else [] | none => []
    let tg : List (String × Val) := match readAttr cfg fs src "X-Amz-Tagging" with
      | some v => [("X-Amz-Tagging", v)]
      | none => []
    let sp : PutSpec := ⟨data, data != "", metas ++ [("checksums", "new"), ("etag", "new")] ++ ct,
      (if cfg.copyTagsFirst then [] else tg) ++ (if cfg.holdFirst then [] else holdAttr rq),
      (if cfg.copyTagsFirst then tg else []) ++ (if cfg.holdFirst then holdAttr rq else [])⟩
    planPutSpec cfg rq fs rq.key sp
  | _ => []

/-- removeParents: prune the empty parents that were not put explicitly (no etag), bottom up. -/
def removeParents (cfg : Cfg) (fs : FS) (area : Path) : Path → Nat → List Step
  | _, 0 => []
  | rel, fuel + 1 =>
    let parent := rel.dropLast
    if parent.isEmpty then [] else
    let p := area ++ parent
    if (readAttr cfg fs p "etag").isSome then [] else
    if fs.isDir p && (fs.children p).isEmpty then
      .rmdir p :: removeParents cfg (apply (.rmdir p) fs) area parent fuel
    else []

/-- DeleteObject without versionId. -/
def planDelete (cfg : Cfg) (rq : Req) (fs : FS) : List Step :=
  let obj := objPath cfg rq.key
  if !fs.isDir (bucketPath cfg) then [] else
  if cfg.verDir && cfg.vstatus != .off then
    -- the current version becomes a delete marker (the file stays)
    if !fs.isFile obj then [] else
    let vid := (readAttr cfg fs obj "version-id").getD "null"
    let s1 := if cfg.vstatus == .enabled || vid != "null" then archive cfg rq fs rq.key else []
    let fs1 := run s1 fs
    let s2 := storeAttr cfg fs1 (.path obj) obj "delete-marker" ""
    let fs2 := run s2 fs1
    if cfg.vstatus == .enabled then
      s1 ++ s2 ++ storeAttr cfg fs2 (.path obj) obj "version-id" rq.newVid
    else
      let s3 := deleteNullVersion cfg fs2 rq.key
      let fs3 := run s3 fs2
      s1 ++ s2 ++ s3 ++ deleteAttr cfg fs3 obj "version-id"
  else
    if !fs.isFile obj then [] else
    let s1 := [Step.unlink obj]
    let fs1 := run s1 fs
    let s2 := deleteAttrs cfg fs1 obj
    let fs2 := run s2 fs1
    s1 ++ s2 ++ removeParents cfg fs2 (bucketPath cfg) rq.key rq.key.length

/-- UploadPart up to the publication of the part -/
def preUploadPart (cfg : Cfg) (rq : Req) (fs : FS) : List Step :=
  let od := mpObjDir cfg rq.key
  let part := mpDir cfg rq.key rq.upload ++ [rq.partNo]
  let o := openTmp cfg fs 0 od rq.falloc rq.tmp
  let s1 := o.2 ++ [.write o.1 rq.data]
  s1 ++ storeAttr cfg (run s1 fs) o.1 part "etag" "new"

/-- UploadPart -/
def planUploadPart (cfg : Cfg) (rq : Req) (fs : FS) : List Step :=
  let od := mpObjDir cfg rq.key
  let mp := mpDir cfg rq.key rq.upload
  if !fs.isDir mp then [] else
  let pre := preUploadPart cfg rq fs
  pre ++ publishC cfg (run pre fs) (openTmp cfg fs 0 od rq.falloc rq.tmp).1 (mp ++ [rq.partNo]) (tmpDir cfg) rq.tmp

def joinData (ds : List Val) : Val := "+".intercalate ds

def partDatas (cfg : Cfg) (rq : Req) (fs : FS) : List Val :=
  rq.parts.filterMap (fun n => match fs.get (mpDir cfg rq.key rq.upload ++ [n]) with | some (.file d _) => some d | _ => none)

/-- CompleteMultipartUpload up to the publication: assemble the parts in a temp file, copy the upload's
    attributes, archive the current version. -/
def preComplete (cfg : Cfg) (rq : Req) (fs : FS) : List Step :=
  let obj := objPath cfg rq.key
  let mp := mpDir cfg rq.key rq.upload
  let o := openTmp cfg fs 0 (tmpDir cfg) false rq.tmp
  let s1 := o.2 ++ [.write o.1 (joinData (partDatas cfg rq fs))]
  let fs1 := run s1 fs
  let up (a : String) : List (String × Val) := match readAttr cfg fs mp a with | some v => [(a, v)] | none => []
  let ct := match readAttr cfg fs mp "content-type" with | some v => if v != "" then [("content-type", v)] else [] | none => []
  -- since 73b52f0: parent directories, then the archive of the replaced object, then (sidecar) the removal of
  -- the key's by-name attributes, and only then the attributes of the new object, content headers first
  let s3 := mkdirAll fs1 obj.dropLast
  let fs3 := run s3 fs1
  let ven := cfg.verDir && cfg.vstatus == .enabled
  let s4 := if ven && fs3.isFile obj then archive cfg rq fs3 rq.key else []
  let fs4 := run s4 fs3
  let s5 := deleteAttrs cfg fs4 obj
  let fs5 := run s5 fs4
  let metas := (listAttrs cfg fs mp).filter isMetaAttr |>.filterMap (fun a => (readAttr cfg fs mp a).map (fun v => (a, v)))
  let rest := ct ++ (if ven then [("version-id", rq.newVid)] else []) ++ metas ++ up "X-Amz-Tagging" ++ up "object-legal-hold" ++
              up "object-retention" ++ [("etag", "new")]
  s1 ++ s3 ++ s4 ++ s5 ++ storeAttrs cfg fs5 o.1 obj rest

/-- os.RemoveAll(upload dir), os.Remove(object dir) -/
def cleanupUpload (cfg : Cfg) (rq : Req) (fs : FS) : List Step :=
  let od := mpObjDir cfg rq.key
  let mp := mpDir cfg rq.key rq.upload
  let s7 := ((fs.children mp).map (fun e => Step.unlink e.1)) ++ [.rmdir mp]
  s7 ++ (if ((run s7 fs).children od).isEmpty then [Step.rmdir od] else [])

/-- CompleteMultipartUpload -/
def planComplete (cfg : Cfg) (rq : Req) (fs : FS) : List Step :=
  let obj := objPath cfg rq.key
  let mp := mpDir cfg rq.key rq.upload
  if !fs.isDir mp || fs.isDir obj then [] else
  if (partDatas cfg rq fs).length != rq.parts.length then [] else
  let pre := preComplete cfg rq fs
  let fs5 := run pre fs
  let s6 := publishC cfg fs5 (openTmp cfg fs 0 (tmpDir cfg) false rq.tmp).1 obj (tmpDir cfg) rq.tmp
  pre ++ s6 ++ cleanupUpload cfg rq (run s6 fs5)

def plan (cfg : Cfg) (rq : Req) (fs : FS) : List Step :=
  match rq.op with
  | .put => planPut cfg rq fs
  | .copy => planCopy cfg rq fs
  | .delete => planDelete cfg rq fs
  | .uploadPart => planUploadPart cfg rq fs
  | .complete => planComplete cfg rq fs

/-! ## The API view after restart -/

structure ObjView where
  data : Val
  etag : Option Val
  ctype : Option Val
  umeta : List (String × Val)
  vid : Option Val          -- none: no versioning directory configured
  tags : Option Val
  hold : Option Val         -- GetObjectLegalHold
deriving DecidableEq, Repr, Inhabited

/-- GetObject / HeadObject / GetObjectTagging / GetObjectLegalHold of the current version of a file key. -/
def view (cfg : Cfg) (fs : FS) (key : Path) : Option ObjView :=
  let obj := objPath cfg key
  match fs.get obj with
  | some (.file data _) =>
    if cfg.verDir && (readAttr cfg fs obj "delete-marker").isSome then none else
    some { data := data
           etag := (readAttr cfg fs obj "etag").filter (· != "")
           ctype := (readAttr cfg fs obj "content-type").filter (· != "")
           umeta := (listAttrs cfg fs obj).filter isMetaAttr |>.filterMap (fun a => (readAttr cfg fs obj a).map (fun v => (a, v)))
           vid := if cfg.verDir then some ((readAttr cfg fs obj "version-id").getD "null") else none
           tags := readAttr cfg fs obj "X-Amz-Tagging"
           hold := (readAttr cfg fs obj "object-legal-hold").filter (· != "") }
  | _ => none

/-- ListObjectsV2 entry of the key: `some etag` when listed. Listings skip `.sgwtmp`. -/
def listed (cfg : Cfg) (fs : FS) (key : Path) : Option (Option Val) :=
  if key.head? == some ".sgwtmp" then none else
  let obj := objPath cfg key
  match fs.get obj with
  | some (.file ..) =>
    if (readAttr cfg fs obj "delete-marker").isSome then none
    else if readAttr cfg fs obj "checksums" == some "" then none   -- retrieveChecksums fails on an empty value: ErrSkipObj
    else some (readAttr cfg fs obj "etag")
  | _ => none

/-- GetObject answers 500 when the stored tag set does not parse (an attribute file truncated by
    `os.WriteFile` and not yet written: sidecar store only). -/
def getBroken (cfg : Cfg) (fs : FS) (key : Path) : Bool :=
  (view cfg fs key).isSome && readAttr cfg fs (objPath cfg key) "X-Amz-Tagging" == some ""

structure VerView where
  vid : Val
  latest : Bool
  marker : Bool
  etag : Option Val
deriving DecidableEq, Repr, Inhabited

/-- ListObjectVersions entries of the key: the walk visits the live file, then its archive directory. -/
def versions (cfg : Cfg) (fs : FS) (key : Path) : List VerView :=
  let obj := objPath cfg key
  match fs.get obj with
  | some (.file ..) =>
    let live : VerView := { vid := (readAttr cfg fs obj "version-id").getD "null", latest := true,
                            marker := (readAttr cfg fs obj "delete-marker").isSome, etag := readAttr cfg fs obj "etag" }
    let arch := if cfg.verDir then
        (fs.children (verDirOf cfg key)).filterMap (fun e => match e.2, e.1.getLast? with
          | .file .., some name => some { vid := name, latest := false, marker := (readAttr cfg fs e.1 "delete-marker").isSome,
                                          etag := readAttr cfg fs e.1 "etag" : VerView }
          | _, _ => none)
      else []
    live :: arch
  | _ => []

/-- ListMultipartUploads: upload ids of the key. -/
def uploads (cfg : Cfg) (fs : FS) (key : Path) : List String :=
  if (readAttr cfg fs (mpObjDir cfg key) "objname").isNone then [] else
  (fs.children (mpObjDir cfg key)).filterMap (fun e => match e.2 with | .dir _ => e.1.getLast? | _ => none)

/-- ListParts: (part number, etag) -/
def partsOf (cfg : Cfg) (fs : FS) (key : Path) (upload : String) : Option (List (String × Option Val)) :=
  let mp := mpDir cfg key upload
  if !fs.isDir mp then none else
  some ((fs.children mp).filterMap (fun e => match e.2, e.1.getLast? with
    | .file .., some n => some (n, readAttr cfg fs e.1 "etag")
    | _, _ => none))

def hasFileBelow (fs : FS) (p : Path) : Bool := fs.ents.any (fun e => p.isPrefixOf e.1 && e.2.isFile)

/-- Directories (outside `.sgwtmp`) without any file below them and without an etag of their own: nothing
    in the API shows them, DeleteObject of the keys never prunes them, `isBucketEmpty` counts them. -/
def strayDirs (cfg : Cfg) (fs : FS) (area : Path) : List Path :=
  (fs.ents.filter (fun e => area.isPrefixOf e.1 && e.1.length > area.length && e.2.isDir &&
      ((e.1.drop area.length).head? != some ".sgwtmp") &&
      !hasFileBelow fs e.1 && (readAttr cfg fs e.1 "etag").isNone)).map (·.1)

/-- ListObjectVersions answers 500 when the checksums of a live, non-marker object do not parse
    (sidecar attribute file created but not yet written). -/
def versionsBroken (cfg : Cfg) (fs : FS) (key : Path) : Bool :=
  let obj := objPath cfg key
  fs.isFile obj && (readAttr cfg fs obj "delete-marker").isNone && readAttr cfg fs obj "checksums" == some ""

/-- Archived versions whose key has no live file: the versions walk only visits live files, so nothing lists
    them and nothing deletes them. -/
def orphanVersions (cfg : Cfg) (fs : FS) : List Path :=
  let liveDirs := (fs.ents.filter (fun e => (bucketPath cfg).isPrefixOf e.1 && e.2.isFile &&
      (e.1.drop 2).head? != some ".sgwtmp")).map (fun e => verDirOf cfg (e.1.drop 2))
  (fs.ents.filter (fun e => (verBucket cfg).isPrefixOf e.1 && e.2.isFile && (e.1.drop 2).head? != some ".sgwtmp" &&
      !liveDirs.contains e.1.dropLast)).map (·.1)

/-- DeleteBucket after every listed key, version and upload has been deleted through the API:
    refused iff a stray directory is left below the bucket or its versioning directory. -/
def blocked (cfg : Cfg) (fs : FS) : Bool :=
  !(strayDirs cfg fs (bucketPath cfg)).isEmpty || (cfg.verDir && !(strayDirs cfg fs (verBucket cfg)).isEmpty) ||
  (cfg.verDir && !(orphanVersions cfg fs).isEmpty) ||
  -- a live object the versions listing chokes on (500), or whose version id reads as empty, cannot be deleted by version
  (cfg.verDir && cfg.vstatus != .off &&
    fs.ents.any (fun e => (bucketPath cfg).isPrefixOf e.1 && e.2.isFile && (e.1.drop 2).head? != some ".sgwtmp" &&
      (versionsBroken cfg fs (e.1.drop 2) || readAttr cfg fs e.1 "version-id" == some ""))) ||
  (!(cfg.verDir && cfg.vstatus != .off) &&
    fs.ents.any (fun e => (bucketPath cfg).isPrefixOf e.1 && e.2.isFile && (e.1.drop 2).head? != some ".sgwtmp" &&
      (listed cfg fs (e.1.drop 2)).isNone))

end Vgw.Model.Crash
