/-
  Access decisions of the gateway model: auth.VerifyAccess / verifyACL / VerifyBucketPolicy /
  IsAdminOrOwner / MayCreateBucket (auth/acl.go, auth/bucket_policy*.go).
-/
import Vgw.Model.Gw.Types
namespace Vgw.Model.Gw
open Vgw

/-- resource glob: `*` any run of bytes, `?` exactly one byte (declarative form; the two-pointer
matcher of the code is tied to this in C14). -/
def globF : Nat → Bytes → Bytes → Bool
  | 0, _, _ => false
  | _ + 1, [], [] => true
  | _ + 1, [], _ :: _ => false
  | n + 1, 42 :: p, [] => globF n p []
  | n + 1, 42 :: p, c :: s => globF n p (c :: s) || globF n (42 :: p) s
  | n + 1, 63 :: p, _ :: s => globF n p s
  | _ + 1, _ :: _, [] => false
  | n + 1, a :: p, c :: s => a == c && globF n p s

/-- fuel = |pattern| + |subject| + 1 always suffices (each step consumes a byte of one of them) -/
def glob (p s : Bytes) : Bool := globF (p.length + s.length + 1) p s

def star : Bytes := [42]
def s3All : Bytes := [115, 51, 58, 42]   -- "s3:*"

/-- Actions.FindMatch: exact, `s3:*`, or a trailing-`*` prefix -/
def actionMatch (acts : List Bytes) (a : Bytes) : Bool :=
  acts.any fun x =>
    x == s3All || x == a ||
      (match x.getLast? with
       | some 42 => (x.dropLast).isPrefixOf a
       | _ => false)

def principalMatch (ps : List Bytes) (who : Bytes) : Bool :=
  ps.contains star || ps.contains who

def stmtMatch (st : Stmt) (who act res : Bytes) : Bool :=
  principalMatch st.principals who && actionMatch st.actions act && st.resources.any (glob · res)

/-- BucketPolicy.isAllowed: some Allow matches and no Deny matches -/
def policyAllows (p : Policy) (who act res : Bytes) : Bool :=
  p.stmts.any (fun st => st.allow && stmtMatch st who act res) &&
  !p.stmts.any (fun st => !st.allow && stmtMatch st who act res)

def allUsers : Bytes := Bytes.ofString "all-users"

/-- verifyACL -/
def aclGrants (acl : ACL) (who : Bytes) (perm : Perm) : Bool :=
  acl.grantees.any fun g =>
    (g.access == who && !g.group && (g.perm == perm || g.perm == .fullControl)) ||
    (g.group && g.access == allUsers && g.perm == perm)

/-- the resolved caller -/
structure Who where
  access : Bytes
  isRoot : Bool
  role : Role
  deriving Repr, DecidableEq

def Perm.isWrite : Perm → Bool
  | .write | .writeAcp => true
  | _ => false

def resourceOf (bucket object : Bytes) : Bytes :=
  if object.isEmpty then bucket else bucket ++ [47] ++ object

/-- auth.VerifyAccess. `none` = access granted, `some code` = refused. -/
def verifyAccess (cfg : Cfg) (b : Bucket) (w : Who) (perm : Perm) (action : Bytes) (object : Bytes) : Option String :=
  if cfg.readonly && perm.isWrite then some "AccessDenied" else
  if w.isRoot then none else
  if w.role == .admin then none else
  match b.policy with
  | some p => if policyAllows p w.access action (resourceOf b.name object) then none else some "AccessDenied"
  | none => if aclGrants b.acl w.access perm then none else some "AccessDenied"

/-- auth.IsAdminOrOwner -/
def isAdminOrOwner (w : Who) (acl : ACL) : Bool :=
  w.access == acl.owner || w.isRoot || w.role == .admin

end Vgw.Model.Gw
