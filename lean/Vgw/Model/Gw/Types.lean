/-
  Abstract state, requests and responses of the gateway model (`Model.Gw`): the S3 API of
  versitygw over the posix backend, at the level at which the properties C01–C03, C08–C10, C15,
  C16, C19 talk about it.  Executable, total, core-only.
-/
import Vgw.Go.Bytes
namespace Vgw.Model.Gw
open Vgw

/-- Object data as a list of segments of harness-generated pseudo-random streams: segment
`(seed, off, len)` stands for bytes `f(seed, off) … f(seed, off+len-1)`. Concatenation and
slicing are computable without ever materialising the bytes. -/
structure Seg where
  seed : Nat
  off : Nat
  len : Nat
  deriving Repr, DecidableEq, BEq

abbrev Data := List Seg

def Data.size (d : Data) : Nat := d.foldl (fun a s => a + s.len) 0

/-- drop empty segments and merge contiguous ones (canonical form) -/
def Data.norm : Data → Data
  | [] => []
  | s :: rest =>
    if s.len = 0 then Data.norm rest else
    match Data.norm rest with
    | t :: ts => if t.seed = s.seed ∧ t.off = s.off + s.len then ⟨s.seed, s.off, s.len + t.len⟩ :: ts else s :: t :: ts
    | [] => [s]

/-- bytes [start, start+len) of `d` -/
def Data.slice : Data → Nat → Nat → Data
  | [], _, _ => []
  | s :: rest, start, len =>
    if len = 0 then [] else
    if start ≥ s.len then Data.slice rest (start - s.len) len else
    let take := min len (s.len - start)
    ⟨s.seed, s.off + start, take⟩ :: Data.slice rest 0 (len - take)

inductive Role where | admin | userplus | user
  deriving Repr, DecidableEq, BEq

structure Account where
  access : Bytes
  secret : Bytes
  role : Role
  uid : Int := 0
  gid : Int := 0
  deriving Repr, DecidableEq, BEq

inductive Perm where | fullControl | write | writeAcp | read | readAcp
  deriving Repr, DecidableEq, BEq

structure Grantee where
  access : Bytes
  perm : Perm
  group : Bool          -- Type = Group (only "all-users"), else CanonicalUser
  deriving Repr, DecidableEq, BEq

structure ACL where
  owner : Bytes
  grantees : List Grantee
  deriving Repr, DecidableEq, BEq

structure Stmt where
  allow : Bool
  principals : List Bytes     -- "*" or access ids
  actions : List Bytes        -- "s3:GetObject", "s3:*", "s3:Get*"
  resources : List Bytes      -- ARN already stripped of "arn:aws:s3:::"
  deriving Repr, DecidableEq, BEq

structure Policy where
  docId : Nat                 -- identifies the JSON document the client sent
  stmts : List Stmt
  deriving Repr, DecidableEq, BEq

inductive LockMode where | governance | compliance
  deriving Repr, DecidableEq, BEq

structure Retention where
  mode : LockMode
  untilT : Int                -- seconds since epoch
  deriving Repr, DecidableEq, BEq

abbrev KVs := List (Bytes × Bytes)

/-- one version of an object (or a delete marker) -/
structure Ver where
  vid : Bytes                 -- "" = null version
  marker : Bool := false
  data : Data := []
  etag : Bytes := []
  ctype : Bytes := []
  umeta : KVs := []            -- user metadata, keys lower-case, sorted
  hdrs : KVs := []            -- content-encoding/-language/-disposition, cache-control, expires; sorted
  tags : Option KVs := none   -- sorted
  hold : Bool := false
  holdSet : Bool := false     -- a legal-hold status was ever written for this version
  retention : Option Retention := none
  deriving Repr, DecidableEq, BEq

structure Part where
  num : Nat
  data : Data
  etag : Bytes
  deriving Repr, DecidableEq, BEq

structure Upload where
  key : Bytes
  id : Bytes
  ctype : Bytes := []
  umeta : KVs := []
  hdrs : KVs := []
  tags : Option KVs := none
  parts : List Part := []     -- sorted by part number
  deriving Repr, DecidableEq, BEq

inductive VStatus where | unset | enabled | suspended
  deriving Repr, DecidableEq, BEq

inductive Ownership where | bucketOwnerEnforced | bucketOwnerPreferred | objectWriter
  deriving Repr, DecidableEq, BEq

structure LockCfg where
  enabled : Bool
  defMode : Option LockMode := none
  defDays : Nat := 0          -- default retention in days
  createdAt : Int := 0        -- when the configuration was stored
  deriving Repr, DecidableEq, BEq

structure Bucket where
  name : Bytes
  acl : ACL
  policy : Option Policy := none
  tags : Option KVs := none
  ownership : Option Ownership := none
  versioning : VStatus := .unset
  lock : Option LockCfg := none
  objects : List (Bytes × List Ver) := []   -- key ↦ versions, newest first; sorted by key; no empty stacks
  uploads : List Upload := []
  deriving Repr, DecidableEq, BEq

structure State where
  buckets : List Bucket := []   -- sorted by name
  accounts : List Account := []
  deriving Repr, DecidableEq, BEq

structure Cfg where
  readonly : Bool := false
  versioning : Bool := false    -- gateway started with --versioning-dir
  rootAccess : Bytes := []
  eventFilter : Option (List (String × Bool)) := none   -- --event-filter file (none = every event)
  deriving Repr, DecidableEq, BEq

/-- who sends the request, as established (or not) by SigV4 -/
inductive Caller where
  | unauthentic                -- no valid proof for an existing account (any credential defect)
  | root
  | acct (access : Bytes)      -- looked up in `State.accounts`
  deriving Repr, DecidableEq, BEq

/-- a notification record handed to the event sender -/
structure Event where
  name : String
  bucket : Bytes
  key : Bytes
  size : Nat := 0
  etag : Bytes := []
  deriving Repr, DecidableEq, BEq

/-- canonical response: S3 error code ("" = success) and the observable fields -/
structure Resp where
  code : String := ""
  fields : List (String × String) := []
  events : List Event := []   -- notifications handed to the event sender
  deriving Repr, DecidableEq, BEq

def Resp.ok (r : Resp) : Bool := r.code = ""

end Vgw.Model.Gw
