/-
  `step` — one request against the gateway model.

  Mirrors, per operation: the middleware chain of s3api/server.go (authentication → ACL parser),
  the branch of s3api/controllers/base.go that serves the operation (validation, access check,
  lock check, in source order) and the posix backend method it reaches, abstracted to the state of
  `Types.lean`.
-/
import Vgw.Model.Gw.Access
namespace Vgw.Model.Gw
open Vgw

/-! ### finite-map helpers over sorted association lists -/

def bytesLt (a b : Bytes) : Bool := compare a b == .lt

def findBucket (s : State) (name : Bytes) : Option Bucket := s.buckets.find? (·.name == name)

def insertBucket (bs : List Bucket) (b : Bucket) : List Bucket :=
  match bs with
  | [] => [b]
  | x :: xs => if x.name == b.name then b :: xs else if bytesLt b.name x.name then b :: x :: xs else x :: insertBucket xs b

def setBucket (s : State) (b : Bucket) : State := { s with buckets := insertBucket s.buckets b }
def removeBucket (s : State) (name : Bytes) : State := { s with buckets := s.buckets.filter (·.name != name) }

def kvInsert {α} (m : List (Bytes × α)) (k : Bytes) (v : α) : List (Bytes × α) :=
  match m with
  | [] => [(k, v)]
  | (k', v') :: xs => if k' == k then (k, v) :: xs else if bytesLt k k' then (k, v) :: (k', v') :: xs else (k', v') :: kvInsert xs k v

def kvErase {α} (m : List (Bytes × α)) (k : Bytes) : List (Bytes × α) := m.filter (·.1 != k)
def kvFind {α} (m : List (Bytes × α)) (k : Bytes) : Option α := (m.find? (·.1 == k)).map (·.2)

def Bucket.versions (b : Bucket) (k : Bytes) : List Ver := (kvFind b.objects k).getD []
def Bucket.setVersions (b : Bucket) (k : Bytes) (vs : List Ver) : Bucket :=
  if vs.isEmpty then { b with objects := kvErase b.objects k } else { b with objects := kvInsert b.objects k vs }

/-! ### requests -/

structure PutSpec where
  data : Data := []
  etag : Bytes := []            -- hex MD5 of the body, quoted, supplied by the environment
  ctype : Bytes := []
  umeta : KVs := []
  hdrs : KVs := []
  tags : Option KVs := none
  hold : Bool := false
  retention : Option Retention := none
  deriving Repr, DecidableEq

inductive CannedAcl where | none | private_ | publicRead | publicReadWrite
  deriving Repr, DecidableEq

inductive Op where
  -- buckets
  | createBucket (b : Bytes) (acl : CannedAcl) (own : Option Ownership) (lock : Bool) (validName : Bool)
  | deleteBucket (b : Bytes)
  | headBucket (b : Bytes)
  | listBuckets (pfx token : Bytes) (max : Nat)
  | putBucketPolicy (b : Bytes) (p : Policy) (valid : Bool)
  | getBucketPolicy (b : Bytes)
  | deleteBucketPolicy (b : Bytes)
  | putBucketAcl (b : Bytes) (acl : CannedAcl)
  /-- PutBucketAcl with `x-amz-grant-*` headers: the (permission, account) pairs in header order FULL_CONTROL,
  READ, READ_ACP, WRITE, WRITE_ACP, within one header in the order given, repetitions within one header
  dropped (auth.UpdateACL / splitUnique); all accounts exist -/
  | putBucketAclGrants (b : Bytes) (grants : List (Perm × Bytes))
  | getBucketAcl (b : Bytes)
  | putBucketTagging (b : Bytes) (tags : KVs)
  | getBucketTagging (b : Bytes)
  | deleteBucketTagging (b : Bytes)
  | putOwnership (b : Bytes) (o : Ownership)
  | getOwnership (b : Bytes)
  | deleteOwnership (b : Bytes)
  | putVersioning (b : Bytes) (enabled : Bool)
  | getVersioning (b : Bytes)
  -- objects
  | putObject (b k : Bytes) (p : PutSpec) (newVid : Bytes)
  | getObject (b k vid : Bytes)
  | headObject (b k vid : Bytes)
  | deleteObject (b k vid : Bytes) (bypass : Bool) (newVid : Bytes)
  | deleteObjects (b : Bytes) (keys : List (Bytes × Bytes)) (bypass : Bool) (newVids : List Bytes)
  | copyObject (sb sk svid b k : Bytes) (replace : Option PutSpec) (newVid : Bytes)
  | putObjectTagging (b k : Bytes) (tags : KVs)
  | getObjectTagging (b k : Bytes)
  | deleteObjectTagging (b k : Bytes)
  | listVersions (b : Bytes)
  -- object lock
  | putLockConfig (b : Bytes) (enabled : Bool) (defMode : Option LockMode) (defDays : Nat)
  | getLockConfig (b : Bytes)
  | putRetention (b k vid : Bytes) (r : Retention) (bypass : Bool)
  | getRetention (b k vid : Bytes)
  | putLegalHold (b k vid : Bytes) (on : Bool)
  | getLegalHold (b k vid : Bytes)
  -- multipart
  | createUpload (b k : Bytes) (p : PutSpec) (newId : Bytes)
  | uploadPart (b k id : Bytes) (num : Nat) (data : Data) (etag : Bytes)
  | uploadPartCopy (b k id : Bytes) (num : Nat) (sb sk svid : Bytes) (range : Option (Nat × Nat)) (etag : Bytes)
  | listParts (b k id : Bytes)
  | listUploads (b : Bytes)
  | completeUpload (b k id : Bytes) (parts : List (Nat × Bytes)) (mpEtag : Bytes) (newVid : Bytes)
  | abortUpload (b k id : Bytes)
  deriving Repr, DecidableEq

structure Req where
  caller : Caller
  op : Op
  now : Int := 0
  deriving Repr, DecidableEq

/-! ### rendering of observable fields -/

def hx (b : Bytes) : String := Bytes.toHexArg b

def showData (d : Data) : String :=
  let n := d.norm
  if n.isEmpty then "-" else ",".intercalate (n.map fun s => s!"{s.seed}:{s.off}:{s.len}")

def showKVs (m : KVs) : String :=
  if m.isEmpty then "-" else ",".intercalate (m.map fun (k, v) => hx k ++ ":" ++ hx v)

def showPerm : Perm → String
  | .fullControl => "FULL_CONTROL" | .write => "WRITE" | .writeAcp => "WRITE_ACP" | .read => "READ" | .readAcp => "READ_ACP"

def showAcl (a : ACL) : String :=
  hx a.owner ++ "|" ++ ",".intercalate (a.grantees.map fun g => hx g.access ++ ":" ++ showPerm g.perm ++ ":" ++ (if g.group then "g" else "u"))

def showOwnership : Ownership → String
  | .bucketOwnerEnforced => "BucketOwnerEnforced" | .bucketOwnerPreferred => "BucketOwnerPreferred" | .objectWriter => "ObjectWriter"

/-- an error answer; never a success (an empty code would read as one) -/
def errR (code : String) : Resp := { code := if code = "" then "InternalError" else code }

theorem errR_code_ne (c : String) : (errR c).code ≠ "" := by
  unfold errR; split <;> simp_all
def okR (fields : List (String × String) := []) (events : List Event := []) : Resp := { fields := fields, events := events }

/-! ### authentication and the ACL-parser middleware -/

def resolve (cfg : Cfg) (s : State) : Caller → Option Who
  | .unauthentic => none
  | .root => some ⟨cfg.rootAccess, true, .admin⟩
  | .acct a => (s.accounts.find? (·.access == a)).map fun acc => ⟨acc.access, false, acc.role⟩

/-- every bucket/object operation other than CreateBucket first loads the bucket ACL -/
def withBucket (s : State) (b : Bytes) (k : Bucket → State × Resp) : State × Resp :=
  match findBucket s b with
  | none => (s, errR "NoSuchBucket")
  | some bk => k bk

def guarded (chk : Option String) (s : State) (k : Unit → State × Resp) : State × Resp :=
  match chk with
  | some code => (s, errR code)
  | none => k ()

/-- the loop of posix.ListBuckets over the (name-sorted) buckets -/
def listBucketsLoop (w : Who) (pfx token : Bytes) (max : Nat) : List Bucket → List Bytes → List Bytes × Bytes
  | [], acc => (acc, [])
  | bk :: rest, acc =>
    if !pfx.isPrefixOf bk.name then listBucketsLoop w pfx token max rest acc else
    if acc.length == max then (acc, acc.getLast?.getD []) else
    if !bytesLt token bk.name then listBucketsLoop w pfx token max rest acc else
    if w.role == .admin || bk.acl.owner == w.access then listBucketsLoop w pfx token max rest (acc ++ [bk.name])
    else listBucketsLoop w pfx token max rest acc

def cannedGrantees (owner : Bytes) : CannedAcl → List Grantee
  | .none | .private_ => [⟨owner, .fullControl, false⟩]
  | .publicRead => [⟨owner, .fullControl, false⟩, ⟨allUsers, .read, true⟩]
  | .publicReadWrite => [⟨owner, .fullControl, false⟩, ⟨allUsers, .read, true⟩, ⟨allUsers, .write, true⟩]

/-! ### object helpers -/

def actPutObject := Bytes.ofString "s3:PutObject"
def actGetObject := Bytes.ofString "s3:GetObject"
def actGetObjectVersion := Bytes.ofString "s3:GetObjectVersion"
def actDeleteObject := Bytes.ofString "s3:DeleteObject"
def actListBucket := Bytes.ofString "s3:ListBucket"
def actDeleteBucket := Bytes.ofString "s3:DeleteBucket"
def actPutBucketPolicy := Bytes.ofString "s3:PutBucketPolicy"
def actGetBucketPolicy := Bytes.ofString "s3:GetBucketPolicy"
def actDeleteBucketPolicy := Bytes.ofString "s3:DeleteBucketPolicy"
def actPutBucketAcl := Bytes.ofString "s3:PutBucketAcl"
def actGetBucketAcl := Bytes.ofString "s3:GetBucketAcl"
def actPutBucketTagging := Bytes.ofString "s3:PutBucketTagging"
def actGetBucketTagging := Bytes.ofString "s3:GetBucketTagging"
def actPutObjectTagging := Bytes.ofString "s3:PutObjectTagging"
def actGetObjectTagging := Bytes.ofString "s3:GetObjectTagging"
def actDeleteObjectTagging := Bytes.ofString "s3:DeleteObjectTagging"
def actPutOwnership := Bytes.ofString "s3:PutBucketOwnershipControls"
def actGetOwnership := Bytes.ofString "s3:GetBucketOwnershipControls"
def actPutVersioning := Bytes.ofString "s3:PutBucketVersioning"
def actGetVersioning := Bytes.ofString "s3:GetBucketVersioning"

def isDirKey (k : Bytes) : Bool := k.getLast? == some 47

/-- the version a plain GET/HEAD sees: the newest, unless it is a delete marker -/
def currentVer (vs : List Ver) : Option Ver :=
  match vs with
  | v :: _ => if v.marker then none else some v
  | [] => none

def nullVid : Bytes := Bytes.ofString "null"

/-- how a version id is written on the wire: the null version of a bucket that has (had)
versioning reads "null" -/
def wireVid (v : Bytes) : Bytes := if v.isEmpty then nullVid else v

/-- request-side version id → internal ("null" names the null version) -/
def reqVid (v : Bytes) : Bytes := if v == nullVid then [] else v

def findVer (vs : List Ver) (vid : Bytes) : Option Ver := vs.find? (·.vid == reqVid vid)

def actBypass := Bytes.ofString "s3:BypassGovernanceRetention"

/-- does the bucket policy give the caller s3:BypassGovernanceRetention on this object? -/
def bypassGranted (b : Bucket) (w : Who) (k : Bytes) : Bool :=
  match b.policy with
  | some p => policyAllows p w.access actBypass (resourceOf b.name k)
  | none => false

/-- is this version protected against the caller at time `now`? (auth.CheckObjectAccess for one
version) -/
def verLocked (b : Bucket) (w : Who) (now : Int) (bypass : Bool) (k : Bytes) (v : Ver) : Bool :=
  let bypassOk := bypass && bypassGranted b w k
  let retentionLocks := match v.retention with
    | some r => decide (now < r.untilT) && (match r.mode with
        | .compliance => true
        | .governance => !bypassOk)
    | none => false
  retentionLocks || v.hold

/-- bucket default retention window (the gateway applies it from the moment the configuration
was stored, to every object of the bucket) -/
def defaultLocks (b : Bucket) (w : Who) (now : Int) (bypass : Bool) (k : Bytes) : Bool :=
  match b.lock with
  | some cfg =>
    match cfg.defMode with
    | some m =>
      decide (now < cfg.createdAt + (cfg.defDays : Int) * 86400) &&
        (match m with
         | .compliance => true
         | .governance => !(bypass && bypassGranted b w k))
    | none => false
  | none => false

/-- auth.CheckObjectAccess for the version addressed by (k, vid) ("" = current) -/
def lockCheck (b : Bucket) (w : Who) (now : Int) (bypass : Bool) (k vid : Bytes) : Option String :=
  match b.lock with
  | none => none
  | some cfg =>
    if !cfg.enabled then none else
    let target := if vid.isEmpty then (b.versions k).head? else findVer (b.versions k) vid
    match target with
    | none => if !vid.isEmpty && !(b.versions k).isEmpty then some "InvalidArgument" else none
    | some v => if verLocked b w now bypass k v || defaultLocks b w now bypass k then some "InvalidRequest" else none

def verFields (reqV : Bytes) (v : Ver) (withBody : Bool) : List (String × String) :=
  (if withBody then [("body", showData v.data)] else []) ++
  [("size", toString v.data.size), ("etag", hx v.etag),
   ("ctype", hx (if v.ctype.isEmpty then Bytes.ofString "binary/octet-stream" else v.ctype)), ("meta", showKVs v.umeta),
   ("hdrs", showKVs v.hdrs)] ++
  (if withBody then [("tagcount", toString (v.tags.getD []).length)] else []) ++
  [("vid", hx (if reqV.isEmpty then v.vid else wireVid v.vid))]

def mkVer (p : PutSpec) (vid : Bytes) : Ver :=
  { vid := vid, data := p.data.norm, etag := p.etag, ctype := p.ctype, umeta := p.umeta, hdrs := p.hdrs, tags := p.tags,
    hold := p.hold, holdSet := p.hold, retention := p.retention }

/-- posix.PutObject on the version stack of one key -/
def putVersions (cfg : Cfg) (b : Bucket) (vs : List Ver) (p : PutSpec) (newVid : Bytes) : List Ver × Bytes :=
  if cfg.versioning && b.versioning == .enabled then (mkVer p newVid :: vs, newVid)
  else if cfg.versioning && b.versioning == .suspended then (mkVer p [] :: vs.filter (·.vid != []), Bytes.ofString "null")
  else ([mkVer p []], [])

def evt (name : String) (b k : Bytes) (size : Nat := 0) (etag : Bytes := []) : Event := ⟨name, b, k, size, etag⟩

/-- A delete marker is the file of the version it replaces, flagged: it keeps that version's
lock attributes (legal hold, retention). -/
def markerOf (vs : List Ver) (vid : Bytes) : Ver :=
  match vs with
  | v :: _ => { vid := vid, marker := true, hold := v.hold, holdSet := v.holdSet, retention := v.retention }
  | [] => { vid := vid, marker := true }

/-- posix.DeleteObject on one key; returns the new bucket and the answer (`deletemarker`, `vid`) -/
def deleteOne (cfg : Cfg) (bk : Bucket) (k vid newVid : Bytes) : Bucket × Resp :=
  let vs := bk.versions k
  if cfg.versioning && bk.versioning != .unset && !isDirKey k then
    if vid.isEmpty then
      if vs.isEmpty then (bk, okR [("deletemarker", "false"), ("vid", hx [])])
      else if bk.versioning == .enabled then
        (bk.setVersions k (markerOf vs newVid :: vs), okR [("deletemarker", "true"), ("vid", hx newVid)])
      else
        -- suspended: the null delete marker replaces the null version (wherever it is); a current
        -- version with an id is archived first
        (bk.setVersions k (markerOf vs [] :: vs.filter (·.vid != [])),
         okR [("deletemarker", "true"), ("vid", hx nullVid)])
    else
      match findVer vs vid with
      | none => (bk, errR "InvalidArgument")
      | some v => (bk.setVersions k (vs.eraseP (·.vid == v.vid)), okR [("deletemarker", toString v.marker), ("vid", hx vid)])
  else
    (bk.setVersions k [], okR [("deletemarker", "false"), ("vid", hx [])])

/-- the object a completed upload produces: the chosen parts concatenated in listed order, the
multipart ETag (supplied by the environment), the metadata given at initiation -/
def assembled (up : Upload) (chosen : List Part) (mpEtag : Bytes) : PutSpec :=
  { data := chosen.flatMap (fun (p : Part) => p.data), etag := mpEtag, ctype := up.ctype, umeta := up.umeta, hdrs := up.hdrs, tags := up.tags }

/-- posix.CompleteMultipartUpload on the version stack: a new version when versioning is
enabled, otherwise the current version is replaced (the code has no suspended-state handling) -/
def completeVersions (cfg : Cfg) (b : Bucket) (vs : List Ver) (p : PutSpec) (newVid : Bytes) : List Ver × Bytes :=
  if cfg.versioning && b.versioning == .enabled then (mkVer p newVid :: vs, newVid)
  else (mkVer p [] :: (if cfg.versioning && b.versioning == .suspended then vs.drop 1 else []), [])

def actListVersions := Bytes.ofString "s3:ListBucketVersions"
def actListParts := Bytes.ofString "s3:ListMultipartUploadParts"
def actListUploads := Bytes.ofString "s3:ListBucketMultipartUploads"
def actAbortUpload := Bytes.ofString "s3:AbortMultipartUpload"

def minPartSize : Nat := 5 * 1024 * 1024
def openEnd : Nat := 4611686018427387904

def insertPart (ps : List Part) (p : Part) : List Part :=
  match ps with
  | [] => [p]
  | q :: qs => if q.num == p.num then p :: qs else if p.num < q.num then p :: q :: qs else q :: insertPart qs p

/-- posix.CompleteMultipartUpload's validation loop: part numbers ≥ 1 and strictly ascending,
each listed part uploaded, every part but the last at least `minPartSize` bytes, ETag equal to
the stored one. Returns the chosen parts in order. -/
def validateParts (stored : List Part) : List (Nat × Bytes) → Nat → Except String (List Part)
  | [], _ => .ok []
  | (num, etag) :: rest, prev =>
    if num < 1 then .error "InvalidArgument" else
    if num ≤ prev then .error "InvalidPartOrder" else
    match stored.find? (·.num == num) with
    | none => .error "InvalidPart"
    | some p =>
      if !rest.isEmpty && p.data.size < minPartSize then .error "EntityTooSmall" else
      if p.etag != etag then .error "InvalidPart" else
      match validateParts stored rest num with
      | .error e => .error e
      | .ok ps => .ok (p :: ps)

def actPutLockCfg := Bytes.ofString "s3:PutBucketObjectLockConfiguration"
def actGetLockCfg := Bytes.ofString "s3:GetBucketObjectLockConfiguration"
def actPutRetention := Bytes.ofString "s3:PutObjectRetention"
def actGetRetention := Bytes.ofString "s3:GetObjectRetention"
def actPutLegalHold := Bytes.ofString "s3:PutObjectLegalHold"
def actGetLegalHold := Bytes.ofString "s3:GetObjectLegalHold"

/-- common prologue of the per-version lock operations (posix Put/GetObjectRetention/LegalHold):
the object must exist, the bucket must have object lock enabled, the version must exist.
The continuation gets the version, the versions after it and the versions before it. -/
def withLockedVersion (cfg : Cfg) (s : State) (bk : Bucket) (k vid : Bytes)
    (f : Ver → List Ver → List Ver → State × Resp) : State × Resp :=
  let vs := bk.versions k
  if vs.isEmpty then (s, errR "NoSuchKey") else
  if !((bk.lock.map (·.enabled)).getD false) then (s, errR "InvalidRequest") else
  if vid.isEmpty then
    match vs with
    | v :: rest => f v rest []
    | [] => (s, errR "NoSuchKey")
  else if !cfg.versioning then (s, errR "InvalidArgument")
  else
    let pre := vs.takeWhile (·.vid != reqVid vid)
    match vs.dropWhile (·.vid != reqVid vid) with
    | v :: rest => f v rest pre
    | [] => (s, errR "InvalidArgument")

/-! ### the step function -/

def handle (cfg : Cfg) (s : State) (w : Who) (now : Int) : Op → State × Resp
  | .createBucket b acl own lock validName =>
    -- ACL-parser middleware: MayCreateBucket, then the read-only refusal
    if !w.isRoot && w.role == .user then (s, errR "AccessDenied") else
    if cfg.readonly then (s, errR "AccessDenied") else
    if !validName then (s, errR "InvalidBucketName") else
    let ownership := own.getD .bucketOwnerEnforced
    if acl != .none && ownership == .bucketOwnerEnforced then (s, errR "InvalidBucketAclWithObjectOwnership") else
    match findBucket s b with
    | some ex => if ex.acl.owner == w.access then (s, errR "BucketAlreadyOwnedByYou") else (s, errR "BucketAlreadyExists")
    | none =>
      let bk : Bucket := { name := b, acl := ⟨w.access, cannedGrantees w.access acl⟩, ownership := some ownership,
                           versioning := if lock && cfg.versioning then .enabled else .unset,
                           lock := if lock then some { enabled := true } else none }
      (setBucket s bk, okR)
  | .deleteBucket b => withBucket s b fun bk =>
    guarded (verifyAccess cfg bk w .write actDeleteBucket []) s fun _ =>
    if !bk.objects.isEmpty || !bk.uploads.isEmpty then
      (s, errR "BucketNotEmpty")
    else (removeBucket s b, okR)
  | .headBucket b => withBucket s b fun bk =>
    guarded (verifyAccess cfg bk w .read actListBucket []) s fun _ => (s, okR)
  | .listBuckets pfx token max =>
    -- posix.ListBuckets: names ascending, prefix filter, stop when the page is full (the token
    -- is the last name on the page), skip names up to the continuation token, owner filter
    if max < 1 || max > 10000 then (s, errR "InvalidArgument") else
    let (page, tok) := listBucketsLoop w pfx token max s.buckets []
    (s, okR [("buckets", ",".intercalate (page.map hx)), ("token", hx tok)])
  | .putBucketPolicy b p valid => withBucket s b fun bk =>
    guarded (verifyAccess cfg bk w .write actPutBucketPolicy []) s fun _ =>
    if !valid then (s, errR "MalformedPolicy") else
    (setBucket s { bk with policy := some p }, okR)
  | .getBucketPolicy b => withBucket s b fun bk =>
    guarded (verifyAccess cfg bk w .read actGetBucketPolicy []) s fun _ =>
    match bk.policy with
    | none => (s, errR "NoSuchBucketPolicy")
    | some p => (s, okR [("policy", toString p.docId)])
  | .deleteBucketPolicy b => withBucket s b fun bk =>
    guarded (verifyAccess cfg bk w .write actDeleteBucketPolicy []) s fun _ =>
    (setBucket s { bk with policy := none }, okR)
  | .putBucketAcl b acl => withBucket s b fun bk =>
    if bk.ownership == some .bucketOwnerEnforced then (s, errR "AccessControlListNotSupported") else
    guarded (verifyAccess cfg bk w .writeAcp actPutBucketAcl []) s fun _ =>
    if acl == .none then (s, errR "MissingSecurityHeader") else
    (setBucket s { bk with acl := ⟨bk.acl.owner, cannedGrantees bk.acl.owner acl⟩ }, okR)
  | .putBucketAclGrants b gs => withBucket s b fun bk =>
    if bk.ownership == some .bucketOwnerEnforced then (s, errR "AccessControlListNotSupported") else
    guarded (verifyAccess cfg bk w .writeAcp actPutBucketAcl []) s fun _ =>
    (setBucket s { bk with acl := ⟨bk.acl.owner, ⟨bk.acl.owner, .fullControl, false⟩ :: gs.map fun (p, a) => ⟨a, p, false⟩⟩ }, okR)
  | .getBucketAcl b => withBucket s b fun bk =>
    guarded (verifyAccess cfg bk w .readAcp actGetBucketAcl []) s fun _ =>
    (s, okR [("acl", showAcl bk.acl)])
  | .putBucketTagging b tags => withBucket s b fun bk =>
    guarded (verifyAccess cfg bk w .write actPutBucketTagging []) s fun _ =>
    (setBucket s { bk with tags := some tags }, okR)
  | .getBucketTagging b => withBucket s b fun bk =>
    guarded (verifyAccess cfg bk w .read actGetBucketTagging []) s fun _ =>
    match bk.tags with
    | none => (s, errR "NoSuchTagSet")
    | some t => (s, okR [("tags", showKVs t)])
  | .deleteBucketTagging b => withBucket s b fun bk =>
    guarded (verifyAccess cfg bk w .write actPutBucketTagging []) s fun _ =>
    (setBucket s { bk with tags := none }, okR)
  | .putOwnership b o => withBucket s b fun bk =>
    guarded (verifyAccess cfg bk w .write actPutOwnership []) s fun _ =>
    (setBucket s { bk with ownership := some o }, okR)
  | .getOwnership b => withBucket s b fun bk =>
    guarded (verifyAccess cfg bk w .read actGetOwnership []) s fun _ =>
    match bk.ownership with
    | none => (s, errR "OwnershipControlsNotFoundError")
    | some o => (s, okR [("ownership", showOwnership o)])
  | .deleteOwnership b => withBucket s b fun bk =>
    guarded (verifyAccess cfg bk w .write actPutOwnership []) s fun _ =>
    (setBucket s { bk with ownership := none }, okR)
  | .putVersioning b enabled => withBucket s b fun bk =>
    guarded (verifyAccess cfg bk w .write actPutVersioning []) s fun _ =>
    if !cfg.versioning then (s, errR "VersioningNotConfigured") else
    if !enabled && (bk.lock.map (·.enabled)).getD false then (s, errR "InvalidBucketState") else
    (setBucket s { bk with versioning := if enabled then .enabled else .suspended }, okR)
  | .getVersioning b => withBucket s b fun bk =>
    guarded (verifyAccess cfg bk w .read actGetVersioning []) s fun _ =>
    if !isAdminOrOwner w bk.acl then (s, errR "AccessDenied") else
    if !cfg.versioning then (s, errR "VersioningNotConfigured") else
    (s, okR [("status", match bk.versioning with | .unset => "" | .enabled => "Enabled" | .suspended => "Suspended")])
  | .putObject b k p newVid => withBucket s b fun bk =>
    guarded (verifyAccess cfg bk w .write actPutObject k) s fun _ =>
    guarded (lockCheck bk w now true k []) s fun _ =>
    let (vs, vid) := putVersions cfg bk (bk.versions k) p newVid
    (setBucket s (bk.setVersions k vs), okR [("etag", hx p.etag), ("vid", hx vid)] [evt "s3:ObjectCreated:Put" b k p.data.size p.etag])
  | .getObject b k vid => withBucket s b fun bk =>
    guarded (verifyAccess cfg bk w .read (if vid.isEmpty then actGetObject else actGetObjectVersion) k) s fun _ =>
    if vid.isEmpty then
      match currentVer (bk.versions k) with
      | none => (s, errR "NoSuchKey")
      | some v => (s, okR (verFields vid v true))
    else if !cfg.versioning then (s, errR "InvalidArgument")
    else if (bk.versions k).isEmpty then (s, errR "NoSuchKey")
    else match findVer (bk.versions k) vid with
      | none => (s, errR "InvalidArgument")
      | some v => if v.marker then (s, errR "MethodNotAllowed") else (s, okR (verFields vid v true))
  | .headObject b k vid => withBucket s b fun bk =>
    guarded (verifyAccess cfg bk w .read actGetObject k) s fun _ =>
    if vid.isEmpty then
      match currentVer (bk.versions k) with
      | none => (s, errR "NotFound")
      | some v => (s, okR (verFields vid v false))
    else if !cfg.versioning then (s, errR "InvalidArgument")
    else if (bk.versions k).isEmpty then (s, errR "NotFound")
    else match findVer (bk.versions k) vid with
      | none => (s, errR "InvalidArgument")
      | some v => if v.marker then (s, errR "MethodNotAllowed") else (s, okR (verFields vid v false))
  | .deleteObject b k vid bypass newVid => withBucket s b fun bk =>
    guarded (verifyAccess cfg bk w .write actDeleteObject k) s fun _ =>
    guarded (lockCheck bk w now bypass k vid) s fun _ =>
    let (bk', r) := deleteOne cfg bk k vid newVid
    (setBucket s bk', { r with events := if r.code == "" then [evt "s3:ObjectRemoved:Delete" b k] else [] })
  | .deleteObjects b keys bypass newVids => withBucket s b fun bk =>
    -- the access decision is taken for every key of the batch (bucket-level when the list is empty)
    guarded ((if keys.isEmpty then [[]] else keys.map (·.1)).findSome? fun k => verifyAccess cfg bk w .write actDeleteObject k) s fun _ =>
    guarded (keys.findSome? fun (k, v) => lockCheck bk w now bypass k v) s fun _ =>
    let (bk', out, _) := keys.foldl (fun (acc : Bucket × List (Bytes × String) × List Bytes) (kv : Bytes × Bytes) =>
        let (cur, out, vids) := acc
        let nv := vids.head?.getD []
        let (cur', r) := deleteOne cfg cur kv.1 kv.2 nv
        let usedMarker := r.fields.any (fun f => f.1 == "deletemarker" && f.2 == "true") && kv.2.isEmpty
        (cur', out ++ [(kv.1, r.code)], if usedMarker then vids.drop 1 else vids))
      (bk, [], newVids)
    (setBucket s bk', okR [("deleted", ",".intercalate (out.map fun (k, c) => if c == "" then hx k else hx k ++ "!" ++ c))]
      ((out.filter (·.2 == "")).map fun (k, _) => evt "s3:ObjectRemoved:DeleteObjects" b k))
  | .copyObject sb sk svid b k replace newVid => withBucket s b fun bk =>
    -- VerifyObjectCopyAccess: read-only refusal, root/admin shortcut, then destination, then source
    let chk : Option String :=
      if cfg.readonly then some "AccessDenied" else
      if w.isRoot || w.role == .admin then none else
      match verifyAccess cfg bk w .write actPutObject k with
      | some e => some e
      | none =>
        match findBucket s sb with
        | none => some "NoSuchBucket"
        | some sbk => verifyAccess cfg sbk w .read actGetObject sk
    guarded chk s fun _ =>
    guarded (lockCheck bk w now true k []) s fun _ =>
    match findBucket s sb with
    | none => (s, errR "NoSuchBucket")
    | some sbk =>
      let srcVer : Except String Ver :=
        if svid.isEmpty then
          match currentVer (sbk.versions sk) with
          | none => .error (if (sbk.versions sk).isEmpty && cfg.versioning && sbk.versioning == .enabled then "NoSuchVersion" else "NoSuchKey")
          | some v => .ok v
        else if !(cfg.versioning && sbk.versioning == .enabled) then .error "InvalidArgument"
        else if (sbk.versions sk).isEmpty then .error "NoSuchKey"
        else match findVer (sbk.versions sk) svid with
          | none => .error "NoSuchVersion"
          | some v => if v.marker then .error "NoSuchKey" else .ok v
      match srcVer with
      | .error e => (s, errR e)
      | .ok src =>
        if sb == b && sk == k && (svid.isEmpty || (sbk.versions sk).head?.map (·.vid) == some (reqVid svid)) && replace.isNone then (s, errR "InvalidRequest") else
        let spec : PutSpec := match replace with
          | some r => { r with data := src.data, etag := src.etag, tags := if r.tags.isSome then r.tags else src.tags }
          | none => { data := src.data, etag := src.etag, ctype := src.ctype, umeta := src.umeta, hdrs := src.hdrs, tags := src.tags }
        let (vs, vid) := putVersions cfg bk (bk.versions k) spec newVid
        (setBucket s (bk.setVersions k vs), okR [("etag", hx src.etag), ("vid", hx vid)] [evt "s3:ObjectCreated:Copy" b k src.data.size src.etag])
  | .putObjectTagging b k tags => withBucket s b fun bk =>
    guarded (verifyAccess cfg bk w .write actPutObjectTagging k) s fun _ =>
    match bk.versions k with
    | v :: rest => (setBucket s (bk.setVersions k ({ v with tags := some tags } :: rest)), okR [] [evt "s3:ObjectTagging:Put" b k])
    | [] => (s, errR "NoSuchKey")
  | .getObjectTagging b k => withBucket s b fun bk =>
    guarded (verifyAccess cfg bk w .read actGetObjectTagging k) s fun _ =>
    match bk.versions k with
    | v :: _ =>
      match v.tags with
      | some t => (s, okR [("tags", showKVs t)])
      | none => (s, errR "NoSuchTagSet")
    | [] => (s, errR "NoSuchKey")
  | .deleteObjectTagging b k => withBucket s b fun bk =>
    guarded (verifyAccess cfg bk w .write actDeleteObjectTagging k) s fun _ =>
    match bk.versions k with
    | v :: rest => (setBucket s (bk.setVersions k ({ v with tags := none } :: rest)), okR [] [evt "s3:ObjectTagging:Delete" b k])
    | [] => (s, errR "NoSuchKey")
  | .listVersions b => withBucket s b fun bk =>
    guarded (verifyAccess cfg bk w .read actListVersions []) s fun _ =>
    (s, okR [("versions", ",".intercalate (bk.objects.flatMap fun (k, vs) =>
      (vs.zipIdx.map fun (v, i) => s!"{hx k}:{hx (wireVid v.vid)}:{if i == 0 then "L" else "-"}:{if v.marker then "M" else "V"}:{if v.marker then "-" else hx v.etag}:{if v.marker then 0 else v.data.size}")))])
  | .putLockConfig b enabled defMode defDays => withBucket s b fun bk =>
    guarded (verifyAccess cfg bk w .write actPutLockCfg []) s fun _ =>
    if !enabled then (s, errR "MalformedXML") else
    match bk.lock with
    | none => (s, errR "InvalidBucketState")
    | some old =>
      if !old.enabled then (s, errR "InvalidBucketState") else
      (setBucket s { bk with lock := some { enabled := true, defMode := defMode, defDays := defDays, createdAt := now } }, okR)
  | .getLockConfig b => withBucket s b fun bk =>
    guarded (verifyAccess cfg bk w .read actGetLockCfg []) s fun _ =>
    match bk.lock with
    | none => (s, errR "ObjectLockConfigurationNotFoundError")
    | some c => (s, okR [("enabled", toString c.enabled), ("mode", match c.defMode with | none => "-" | some .governance => "GOVERNANCE" | some .compliance => "COMPLIANCE"),
                         ("days", toString c.defDays)])
  | .putRetention b k vid r bypass => withBucket s b fun bk =>
    guarded (verifyAccess cfg bk w .write actPutRetention k) s fun _ =>
    if decide (r.untilT < now) then (s, errR "InvalidRequest") else
    withLockedVersion cfg s bk k vid fun v rest pre =>
      let bypassOk := bypass && bypassGranted bk w k
      match v.retention with
      | some old =>
        if old.mode == .compliance || !bypassOk then (s, errR "MethodNotAllowed")
        else (setBucket s (bk.setVersions k (pre ++ { v with retention := some r } :: rest)), okR)
      | none => (setBucket s (bk.setVersions k (pre ++ { v with retention := some r } :: rest)), okR)
  | .getRetention b k vid => withBucket s b fun bk =>
    guarded (verifyAccess cfg bk w .read actGetRetention k) s fun _ =>
    withLockedVersion cfg s bk k vid fun v _ _ =>
      match v.retention with
      | none => (s, errR "NoSuchObjectLockConfiguration")
      | some r => (s, okR [("mode", match r.mode with | .governance => "GOVERNANCE" | .compliance => "COMPLIANCE"), ("until", toString r.untilT)])
  | .putLegalHold b k vid on => withBucket s b fun bk =>
    guarded (verifyAccess cfg bk w .write actPutLegalHold k) s fun _ =>
    withLockedVersion cfg s bk k vid fun v rest pre =>
      (setBucket s (bk.setVersions k (pre ++ { v with hold := on, holdSet := true } :: rest)), okR)
  | .getLegalHold b k vid => withBucket s b fun bk =>
    guarded (verifyAccess cfg bk w .read actGetLegalHold k) s fun _ =>
    withLockedVersion cfg s bk k vid fun v _ _ =>
      if !v.holdSet then (s, errR "NoSuchObjectLockConfiguration") else (s, okR [("hold", if v.hold then "ON" else "OFF")])
  | .createUpload b k p newId => withBucket s b fun bk =>
    guarded (verifyAccess cfg bk w .write actPutObject k) s fun _ =>
    -- lock headers on a bucket without object lock: refused (posix.CreateMultipartUpload removes what it had created)
    guarded (if (p.hold || p.retention.isSome) && !((bk.lock.map (·.enabled)).getD false)
             then some "InvalidRequest" else none) s fun _ =>
    let up : Upload := { key := k, id := newId, ctype := p.ctype, umeta := p.umeta, hdrs := p.hdrs, tags := p.tags }
    (setBucket s { bk with uploads := bk.uploads ++ [up] }, okR [("key", hx k), ("uploadid", hx newId)])
  | .uploadPart b k id num data etag => withBucket s b fun bk =>
    guarded (verifyAccess cfg bk w .write actPutObject k) s fun _ =>
    match bk.uploads.find? (fun u => u.key == k && u.id == id) with
    | none => (s, errR "NoSuchUpload")
    | some up =>
      let up' := { up with parts := insertPart up.parts ⟨num, data.norm, etag⟩ }
      (setBucket s { bk with uploads := bk.uploads.map fun u => if u.key == k && u.id == id then up' else u }, okR [("etag", hx etag)])
  | .uploadPartCopy b k id num sb sk svid range etag => withBucket s b fun bk =>
    let chk : Option String :=
      if cfg.readonly then some "AccessDenied" else
      if w.isRoot || w.role == .admin then none else
      match verifyAccess cfg bk w .write actPutObject k with
      | some e => some e
      | none =>
        match findBucket s sb with
        | none => some "NoSuchBucket"
        | some sbk => verifyAccess cfg sbk w .read actGetObject sk
    guarded chk s fun _ =>
    match bk.uploads.find? (fun u => u.key == k && u.id == id) with
    | none => (s, errR "NoSuchUpload")
    | some up =>
      match findBucket s sb with
      | none => (s, errR "NoSuchBucket")
      | some sbk =>
        -- the source is resolved as for CopyObject (a delete marker reads as a missing key)
        let src : Except String Ver :=
          if svid.isEmpty then
            match currentVer (sbk.versions sk) with
            | none => .error (if (sbk.versions sk).isEmpty && cfg.versioning && sbk.versioning == .enabled then "NoSuchVersion" else "NoSuchKey")
            | some v => .ok v
          else if !(cfg.versioning && sbk.versioning == .enabled) then .error "InvalidArgument"
          else if (sbk.versions sk).isEmpty then .error "NoSuchKey"
          else match findVer (sbk.versions sk) svid with
            | none => .error "NoSuchVersion"
            | some v => if v.marker then .error "NoSuchKey" else .ok v
        match src with
        | .error e => (s, errR e)
        | .ok v =>
          let size := v.data.size
          let sliced : Except String Data := match range with
            | none => .ok v.data
            | some (a, e0) =>
              -- `e0 = openEnd` stands for the open form `bytes=a-`
              let e := if e0 == openEnd then size - 1 else e0
              if a ≥ size || e ≥ size || e < a then .error "InvalidArgument" else .ok (v.data.slice a (e - a + 1))
          match sliced with
          | .error e => (s, errR e)
          | .ok d =>
            let up' := { up with parts := insertPart up.parts ⟨num, d.norm, etag⟩ }
            (setBucket s { bk with uploads := bk.uploads.map fun u => if u.key == k && u.id == id then up' else u }, okR [("etag", hx etag)])
  | .listParts b k id => withBucket s b fun bk =>
    guarded (verifyAccess cfg bk w .read actListParts k) s fun _ =>
    match bk.uploads.find? (fun u => u.key == k && u.id == id) with
    | none => (s, errR "NoSuchUpload")
    | some up => (s, okR [("parts", ",".intercalate (up.parts.map fun p => s!"{p.num}:{p.data.size}:{hx p.etag}"))])
  | .listUploads b => withBucket s b fun bk =>
    guarded (verifyAccess cfg bk w .read actListUploads []) s fun _ =>
    (s, okR [("uploads", ",".intercalate (bk.uploads.map fun u => hx u.key ++ ":" ++ hx u.id))])
  | .completeUpload b k id parts mpEtag newVid => withBucket s b fun bk =>
    guarded (verifyAccess cfg bk w .write actPutObject k) s fun _ =>
    guarded (lockCheck bk w now true k []) s fun _ =>
    match bk.uploads.find? (fun u => u.key == k && u.id == id) with
    | none => (s, errR "NoSuchUpload")
    | some up =>
      match validateParts up.parts parts 0 with
      | .error e => (s, errR e)
      | .ok chosen =>
        let (vs, vid) := completeVersions cfg bk (bk.versions k) (assembled up chosen mpEtag) newVid
        let bk' := { (bk.setVersions k vs) with uploads := bk.uploads.filter fun u => !(u.key == k && u.id == id) }
        (setBucket s bk', okR [("etag", hx mpEtag), ("vid", hx vid)] [evt "s3:ObjectCreated:CompleteMultipartUpload" b k (Data.size (chosen.flatMap fun (p : Part) => p.data)) mpEtag])
  | .abortUpload b k id => withBucket s b fun bk =>
    guarded (verifyAccess cfg bk w .write actAbortUpload k) s fun _ =>
    match bk.uploads.find? (fun u => u.key == k && u.id == id) with
    | none => (s, errR "NoSuchUpload")
    | some _ => (setBucket s { bk with uploads := bk.uploads.filter fun u => !(u.key == k && u.id == id) }, okR)

/-- s3event.EventFilter.Filter: the exact name decides if listed, else its `…:*` wildcard if
listed, else the event is dropped; without a filter file every event passes -/
def filterPass (f : Option (List (String × Bool))) (name : String) : Bool :=
  match f with
  | none => true
  | some m =>
    match m.find? (·.1 == name) with
    | some (_, v) => v
    | none =>
      let wild := ":".intercalate ((name.splitOn ":").dropLast ++ ["*"])
      match m.find? (·.1 == wild) with
      | some (_, v) => v
      | none => false

/-- SendResponse / SendXMLResponse hand a record to the event sender only on the success path,
and the sender applies the filter -/
def finish (cfg : Cfg) (x : State × Resp) : State × Resp :=
  (x.1, { x.2 with events := if x.2.code = "" then x.2.events.filter (fun e => filterPass cfg.eventFilter e.name) else [] })

@[simp] theorem finish_fst (cfg : Cfg) (x : State × Resp) : (finish cfg x).1 = x.1 := rfl
@[simp] theorem finish_code (cfg : Cfg) (x : State × Resp) : (finish cfg x).2.code = x.2.code := rfl
@[simp] theorem finish_fields (cfg : Cfg) (x : State × Resp) : (finish cfg x).2.fields = x.2.fields := rfl

/-- One request: authentication first; a request without a valid SigV4 proof for an existing
account is refused before anything else happens. -/
def step (cfg : Cfg) (s : State) (r : Req) : State × Resp :=
  match resolve cfg s r.caller with
  | none => (s, errR "AccessDenied")     -- canonical class of all 403/400 authentication refusals
  | some w => finish cfg (handle cfg s w r.now r.op)

end Vgw.Model.Gw
