/-
  Model of the SIGNED aws-chunked reader: s3api/utils/signed-chunk-reader.go as of /repo commit
  cf70120 (`NewSignedChunkReader`, `ChunkReader.Read`, `parseAndRemoveChunkInfo`,
  `parseChunkHeaderBytes`, `handleRdrErr`/`stashAndSkipHeader`, `checkSignature`, `verifyChecksum`,
  `verifyTrailerSignature`), transcribed statement by statement.

  Conventions
  * SHA-256, HMAC-SHA256 and the trailing-checksum hash are PARAMETERS (`Cfg.sha`, `Cfg.hmac`,
    `Cfg.csum`).  An incremental `hash.Hash` is modelled by the list of bytes written since the last
    `Reset` (`chunkAcc`, `csumAcc`); `Sum` applies the parameter to that list.
  * One `Read(p)` = `read cfg st frag isEOF cap`: `frag` are the `n` bytes the underlying reader put
    into `p` (so `frag.length ≤ cap`; `cap` has no other influence on this reader), `isEOF` says
    whether it returned `io.EOF` together with them.
  * `cr.stash` is a byte list, `[]` = nil: since cf70120 the header buffer is never modified in
    place, so a nil and an empty non-nil stash behave alike.  `bufio.NewReader(bytes.NewReader(header))`
    is a cursor over `header`.
  * `copy(p, p[bufOffset:n])` is modelled on the byte list; where the Go code can panic (slice bounds)
    the outcome is `Status.panic` (`Props.C12.signed_no_panic`: unreachable).
  * `parseAndRemoveChunkInfo` is recursive on a strict suffix of its buffer; the model recurses on
    fuel, `read` supplies `frag.length + 1` and `Status.fuel` is never produced (`Props.C12.signed_fuel_suffices`).
-/
import Vgw.Go.Encoding
namespace Vgw.Model.ChunkSigned
open Vgw

/-- error classes (what the caller of `Read` can tell apart) -/
inductive Err where
  | sigMismatch      -- s3err.ErrSignatureDoesNotMatch
  | badDigest        -- s3err.GetChecksumBadDigestErr
  | invalidFormat    -- errInvalidChunkFormat
  | malformed        -- errMalformedEncoding
  | badTrailer       -- s3err.GetInvalidTrailingChecksumHeaderErr
  | unexpectedEOF    -- io.ErrUnexpectedEOF
  deriving DecidableEq, Repr

inductive Status where
  | nil              -- (n, nil)
  | eof              -- (n, io.EOF)
  | err (e : Err)    -- (n, err)
  | panic
  | fuel             -- model artefact, never produced
  deriving DecidableEq, Repr

/-- result of one `Read`: the bytes `p[:n]` and the error value -/
structure Out where
  out : Bytes
  status : Status
  deriving DecidableEq, Repr

structure Cfg where
  sha : Bytes → Bytes              -- sha256 (raw digest)
  hmac : Bytes → Bytes → Bytes     -- hmac256(key, data)
  csum : Bytes → Bytes             -- trailing checksum algorithm (raw digest)
  signingKey : Bytes               -- getSigningKey(secret, region, date)
  amzDate : Bytes                  -- date.Format("20060102T150405Z")
  scope : Bytes                    -- "<yyyymmdd>/<region>/s3/aws4_request"
  trailer : Bytes                  -- cr.trailer ("" = none)
  csumLen : Nat                    -- checksumLengths[algo]

structure State where
  prevSig : Bytes
  parsedSig : Bytes := []
  chunkDataLeft : Int := 0
  trailerSig : Bytes := []
  parsedChecksum : Bytes := []
  stash : Bytes := []              -- [] = nil
  chunkAcc : Bytes := []           -- written to chunkHash since the last Reset
  csumAcc : Bytes := []            -- written to checksumHash
  isEOF : Bool := false
  isFirstHeader : Bool := true
  deriving DecidableEq, Repr

/-- `getSigningKey(secret, region, date)`; `yyyymmdd` = `date.Format("20060102")` -/
def getSigningKey (hmac : Bytes → Bytes → Bytes) (secret region yyyymmdd : Bytes) : Bytes :=
  let dateKey := hmac ([65, 87, 83, 52] ++ secret) yyyymmdd                       -- "AWS4" + secret
  let dateRegionKey := hmac dateKey region
  let dateRegionServiceKey := hmac dateRegionKey [115, 51]                        -- "s3"
  hmac dateRegionServiceKey [97, 119, 115, 52, 95, 114, 101, 113, 117, 101, 115, 116]   -- "aws4_request"

/-- `<yyyymmdd>/<region>/s3/aws4_request` -/
def credentialScope (region yyyymmdd : Bytes) : Bytes :=
  yyyymmdd ++ [47] ++ region ++ [47, 115, 51, 47] ++ [97, 119, 115, 52, 95, 114, 101, 113, 117, 101, 115, 116]

/-- `NewSignedChunkReader`; `seedSig` = `authdata.Signature`. -/
def init (seedSig : Bytes) : State := { prevSig := seedSig }

def zeroLenSig : Bytes := [101, 51, 98, 48, 99, 52, 52, 50, 57, 56, 102, 99, 49, 99, 49, 52, 57, 97, 102, 98, 102, 52,
  99, 56, 57, 57, 54, 102, 98, 57, 50, 52, 50, 55, 97, 101, 52, 49, 101, 52, 54, 52, 57, 98, 57, 51, 52, 99, 97,
  52, 57, 53, 57, 57, 49, 98, 55, 56, 53, 50, 98, 56, 53, 53]
def streamPayloadAlgo : Bytes := [65, 87, 83, 52, 45, 72, 77, 65, 67, 45, 83, 72, 65, 50, 53, 54, 45, 80, 65, 89, 76, 79, 65, 68]
def streamPayloadTrailerAlgo : Bytes := [65, 87, 83, 52, 45, 72, 77, 65, 67, 45, 83, 72, 65, 50, 53, 54, 45, 84, 82, 65, 73, 76, 69, 82]
def chunkSignatureLit : Bytes := [99, 104, 117, 110, 107, 45, 115, 105, 103, 110, 97, 116, 117, 114, 101, 61]
def trailerSignatureHeader : Bytes := [120, 45, 97, 109, 122, 45, 116, 114, 97, 105, 108, 101, 114, 45, 115, 105, 103, 110, 97, 116, 117, 114, 101]
def maxHeaderSize : Nat := 1024

/-- `getStringToSignPrefix(algo)` -/
def stringToSignPrefix (cfg : Cfg) (algo : Bytes) : Bytes :=
  algo ++ [10] ++ cfg.amzDate ++ [10] ++ cfg.scope

/-- `getChunkStringToSign` -/
def chunkStringToSign (cfg : Cfg) (st : State) : Bytes :=
  stringToSignPrefix cfg streamPayloadAlgo ++ [10] ++ st.prevSig ++ [10] ++ zeroLenSig ++ [10] ++
    hexEncode (cfg.sha st.chunkAcc)

/-- `getTrailerChunkStringToSign` -/
def trailerStringToSign (cfg : Cfg) (st : State) : Bytes :=
  let trailer := cfg.trailer ++ [58] ++ st.parsedChecksum ++ [10]
  stringToSignPrefix cfg streamPayloadTrailerAlgo ++ [10] ++ st.prevSig ++ [10] ++ hexEncode (cfg.sha trailer)

/-- `checkSignature` -/
def checkSignature (cfg : Cfg) (st : State) : Except Err State :=
  let sigstr := chunkStringToSign cfg st
  let st := { st with chunkAcc := [] }
  let st := { st with prevSig := hexEncode (cfg.hmac cfg.signingKey sigstr) }
  if st.prevSig ≠ st.parsedSig then .error .sigMismatch
  else .ok { st with parsedSig := [] }

/-- `verifyChecksum` -/
def verifyChecksum (cfg : Cfg) (st : State) : Except Err Unit :=
  if b64Encode (cfg.csum st.csumAcc) ≠ st.parsedChecksum then .error .badDigest else .ok ()

/-- `verifyTrailerSignature` -/
def verifyTrailerSignature (cfg : Cfg) (st : State) : Except Err Unit :=
  if hexEncode (cfg.hmac cfg.signingKey (trailerStringToSign cfg st)) ≠ st.trailerSig then .error .sigMismatch
  else .ok ()

/-- `IsValidChecksum(checksum, algo)` -/
def isValidChecksum (cfg : Cfg) (c : Bytes) : Bool := b64DecodedLen c == some cfg.csumLen

/-- `chunkHash.Write(d)` (+ `checksumHash.Write(d)` when a trailer is expected) -/
def hashWrite (cfg : Cfg) (st : State) (d : Bytes) : State :=
  { st with chunkAcc := st.chunkAcc ++ d,
            csumAcc := if cfg.trailer ≠ [] then st.csumAcc ++ d else st.csumAcc }

/-! ### parseChunkHeaderBytes -/

/-- what the cursor part of `parseChunkHeaderBytes` can end in -/
inductive PErr where
  | rd (e : RdErr)     -- goes through `handleRdrErr`
  | fail (e : Err)     -- returned directly
  deriving DecidableEq, Repr

structure Parsed where
  chunkSize : Int
  sig : Bytes
  trailerSig : Bytes := []
  checksum : Bytes := []
  deriving DecidableEq, Repr

/-- the trailer part of the final chunk: from "read and parse the final chunk trailer and checksum"
to the assignment of `cr.trailerSig` / `cr.parsedChecksum` -/
def parseTrailer (cfg : Cfg) (sig cur : Bytes) : Except PErr (Parsed × Bytes) :=
  match readAndSkip [10] cur with
  | .error e => .error (.rd e)
  | .ok cur =>
  match readUntil 58 cur with                         -- readAndTrim(rdr, ':')
  | none => .error (.rd .eof)
  | some (trailer, cur) =>
  if trailer ≠ cfg.trailer then .error (.fail .invalidFormat) else
  match readUntil 13 cur with                         -- the checksum, up to '\r'
  | none => .error (.rd .eof)
  | some (checksum, cur) =>
  if !isValidChecksum cfg checksum then .error (.fail .badTrailer) else
  match readAndSkip [10] cur with
  | .error e => .error (.rd e)
  | .ok cur =>
  match readUntil 58 cur with
  | none => .error (.rd .eof)
  | some (trailerSigPrefix, cur) =>
  if trailerSigPrefix ≠ trailerSignatureHeader then .error (.fail .invalidFormat) else
  match readUntil 13 cur with
  | none => .error (.rd .eof)
  | some (trailerSig, cur) =>
  .ok ({ chunkSize := 0, sig := sig, trailerSig := trailerSig, checksum := checksum }, cur)

/-- the statements of `parseChunkHeaderBytes` from "read and parse the chunk size" to the last
`readAndSkip`, on the cursor; also returns the cursor position reached (what `rdr` has not consumed) -/
def parseCore (cfg : Cfg) (cur : Bytes) : Except PErr (Parsed × Bytes) :=
  match readUntil 59 cur with                         -- readAndTrim(rdr, ';')
  | none => .error (.rd .eof)
  | some (chunkSizeStr, cur) =>
  match parseIntHex64 chunkSizeStr with
  | none => .error (.fail .invalidFormat)
  | some chunkSize =>
  if chunkSize < 0 then .error (.fail .invalidFormat) else
  match readAndSkip chunkSignatureLit cur with
  | .error e => .error (.rd e)
  | .ok cur =>
  match readUntil 13 cur with                         -- the signature, up to '\r'
  | none => .error (.rd .eof)
  | some (sig, cur) =>
  if chunkSize = 0 then
    if cfg.trailer ≠ [] then
      match parseTrailer cfg sig cur with
      | .error e => .error e
      | .ok (r, cur) =>
        match readAndSkip [10, 13, 10] cur with       -- "\r\n\r\n" is followed after the last chunk
        | .error e => .error (.rd e)
        | .ok cur => .ok (r, cur)
    else
      match readAndSkip [10, 13, 10] cur with
      | .error e => .error (.rd e)
      | .ok cur => .ok ({ chunkSize := 0, sig := sig }, cur)
  else
    match readAndSkip [10] cur with
    | .error e => .error (.rd e)
    | .ok cur => .ok ({ chunkSize := chunkSize, sig := sig }, cur)

inductive HdrRes where
  | chunk (chunkSize : Int) (sig : Bytes) (bufOffset : Int)
  | skip                       -- errskipHeader
  | fail (e : Err)
  deriving DecidableEq, Repr

/-- `handleRdrErr(err, header)` (with `stashAndSkipHeader`) -/
def handleRdrErr (st : State) (e : RdErr) (header : Bytes) : State × HdrRes :=
  match e with
  | .eof => if st.isEOF then (st, .fail .invalidFormat) else ({ st with stash := header }, .skip)
  | .mismatch => (st, .fail .malformed)

/-- the cursor part of `parseChunkHeaderBytes` on the whole `header`: the CRLF that precedes every
header but the first, then `parseCore`; returns what the cursor has not consumed -/
def parseHeader (cfg : Cfg) (first : Bool) (header : Bytes) : Except PErr (Parsed × Bytes) :=
  if first then parseCore cfg header
  else
    -- After the first chunk each chunk header should start with "\r\n"
    match readAndSkip [13, 10] header with
    | .error e => .error (.rd e)
    | .ok cur => parseCore cfg cur

/-- `parseChunkHeaderBytes(p[:n], &n)`: new state and result (`bufOffset` relative to `p`). -/
def parseChunkHeaderBytes (cfg : Cfg) (st : State) (p : Bytes) : State × HdrRes :=
  let stashLen := st.stash.length
  if stashLen > maxHeaderSize then (st, .fail .invalidFormat) else
  let header := st.stash ++ p                      -- tmp (or p itself when the stash is nil)
  let st := { st with stash := [] }
  let skip : Nat := if st.isFirstHeader then 0 else 2
  match parseHeader cfg st.isFirstHeader header with
  | .error (.rd e) => handleRdrErr st e header
  | .error (.fail e) => (st, .fail e)
  | .ok (r, _) =>
    if r.chunkSize = 0 then
      let st := if cfg.trailer ≠ [] then { st with trailerSig := r.trailerSig, parsedChecksum := r.checksum } else st
      (st, .chunk 0 r.sig 0)
    else
      let ind := indexCRLF (header.drop skip) + skip        -- bytes.Index(header[skip:], "\r\n") + skip
      (({ st with isFirstHeader := false } : State), .chunk r.chunkSize r.sig (ind + 2 - stashLen))

/-! ### parseAndRemoveChunkInfo -/

def intMax : Int := 9223372036854775807

/-- the `chunkSize == 0` branch of `parseAndRemoveChunkInfo`: "If we hit the final chunk, calculate
and validate the final chunk signature and finish reading" -/
def finalChunk (cfg : Cfg) (st : State) : State × Out :=
  let st := { st with chunkAcc := [] }                       -- cr.chunkHash.Reset()
  match checkSignature cfg st with
  | .error e => (st, ⟨[], .err e⟩)
  | .ok st =>
    if cfg.trailer ≠ [] then
      match verifyChecksum cfg st with
      | .error e => (st, ⟨[], .err e⟩)
      | .ok _ =>
        match verifyTrailerSignature cfg st with
        | .error e => (st, ⟨[], .err e⟩)
        | .ok _ => (st, ⟨[], .eof⟩)
    else (st, ⟨[], .eof⟩)

/-- `return n + int(chunkSize), err` after the recursive call (with the `math.MaxInt` guard) -/
def joinRec (chunkSize : Int) (d : Bytes) (r : State × Out) : State × Out :=
  match r.2.status with
  | .panic => (r.1, ⟨[], .panic⟩)
  | .fuel => (r.1, ⟨[], .fuel⟩)
  | s =>
    if chunkSize + (r.2.out.length : Int) > intMax then (r.1, ⟨[], .err .sigMismatch⟩)
    else (r.1, ⟨d ++ r.2.out, s⟩)

/-- `(n + k, err)` from `(n, err)`: the `k` bytes `d` stay in front of what the callee left in the
buffer (nothing is handed out after a panic) -/
def prepend (d : Bytes) (r : State × Out) : State × Out :=
  match r.2.status with
  | .panic => (r.1, ⟨[], .panic⟩)
  | .fuel => (r.1, ⟨[], .fuel⟩)
  | s => (r.1, ⟨d ++ r.2.out, s⟩)

/-- `parseAndRemoveChunkInfo(p)` from `parseChunkHeaderBytes` on; `rec` = the recursive call -/
def parBody (cfg : Cfg) (rec : State → Bytes → State × Out) (st : State) (p : Bytes) : State × Out :=
  match parseChunkHeaderBytes cfg st p with
  | (st, .skip) => ({ st with chunkDataLeft := 0 }, ⟨[], .nil⟩)
  | (st, .fail e) => (st, ⟨[], .err e⟩)
  | (st, .chunk chunkSize sig bufOffset) =>
    -- `if sig == "" { return 0, ErrSignatureDoesNotMatch }` (repo fix 7242bc4)
    if sig = [] then (st, ⟨[], .err .sigMismatch⟩) else
    let st := { st with parsedSig := sig }
    if chunkSize == 0 then finalChunk cfg st
    else
      -- copy(p, p[bufOffset:n]); n -= bufOffset
      if bufOffset < 0 ∨ (p.length : Int) < bufOffset then (st, ⟨[], .panic⟩) else
      let data := p.drop bufOffset.toNat
      if (data.length : Int) > chunkSize then
        if chunkSize < 0 then (st, ⟨[], .panic⟩) else           -- p[:chunkSize]
        let d := data.take chunkSize.toNat
        let st := hashWrite cfg { st with chunkDataLeft := 0 } d
        joinRec chunkSize d (rec st (data.drop chunkSize.toNat))
      else
        let st := hashWrite cfg { st with chunkDataLeft := chunkSize - data.length } data
        (st, ⟨data, .nil⟩)

/-- one activation of `parseAndRemoveChunkInfo(p)`: the pending signature check, then `parBody` -/
def parStep (cfg : Cfg) (rec : State → Bytes → State × Out) (st : State) (p : Bytes) : State × Out :=
  let checked : Except Err State := if st.parsedSig ≠ [] then checkSignature cfg st else .ok st
  match checked with
  | .error e => (st, ⟨[], .err e⟩)
  | .ok st => parBody cfg rec st p

/-- `parseAndRemoveChunkInfo(p)`: new state, and `(p[:n], err)` as the caller sees them. -/
def parseAndRemove (cfg : Cfg) : Nat → State → Bytes → State × Out
  | 0, st, _ => (st, ⟨[], .fuel⟩)
  | fuel + 1, st, p => parStep cfg (parseAndRemove cfg fuel) st p

/-- `(*ChunkReader).Read(p)` where the underlying reader delivered `frag` (and `io.EOF` iff `isEOF`).
`cap = len(p)`; the reader itself never looks at it. -/
def read (cfg : Cfg) (st : State) (frag : Bytes) (isEOF : Bool) (_cap : Nat) : State × Out :=
  let n : Int := frag.length
  let st := { st with isEOF := isEOF }
  if st.chunkDataLeft < n then
    let chunkSize := st.chunkDataLeft
    if chunkSize < 0 then (st, ⟨[], .panic⟩) else               -- p[chunkSize:n]
    let d := frag.take chunkSize.toNat
    let st := if chunkSize > 0 then hashWrite cfg st d else st
    prepend d (parseAndRemove cfg (frag.length + 1) st (frag.drop chunkSize.toNat))
  else
    let st := hashWrite cfg { st with chunkDataLeft := st.chunkDataLeft - n } frag
    -- the stream may only end with the final (zero-sized) chunk
    (st, ⟨frag, if isEOF then .err .unexpectedEOF else .nil⟩)

/-! ### io.Copy / io.ReadAll over a fragmenting underlying reader -/

/-- Feed the deliveries `(fragment, came-with-io.EOF)` to successive `Read` calls, appending what
each returns, until one returns a non-nil error; when the deliveries are used up the underlying
reader answers `(0, io.EOF)`. Result: all bytes handed to the consumer, and the final error. -/
def runFrom (cfg : Cfg) : State → List (Bytes × Bool) → Bytes → Bytes × Status
  | st, [], acc =>
    let (_, o) := read cfg st [] true 0
    match o.status with
    | .panic => ([], .panic)
    | .fuel => ([], .fuel)
    | s => (acc ++ o.out, s)
  | st, (f, e) :: ds, acc =>
    let (st, o) := read cfg st f e f.length
    match o.status with
    | .nil => runFrom cfg st ds (acc ++ o.out)
    | .panic => ([], .panic)                    -- the process is gone: no object
    | .fuel => ([], .fuel)
    | s => (acc ++ o.out, s)

def run (cfg : Cfg) (seedSig : Bytes) (ds : List (Bytes × Bool)) : Bytes × Status :=
  runFrom cfg (init seedSig) ds []

/-- The harness's fragmenting `io.Reader`: the stream is cut into `frags` (empty ones are skipped);
a `Read(p)` delivers `min(len p, rest of the current fragment)` bytes and, when `eofWith` is set,
`io.EOF` together with the very last bytes.  `caps` = destination buffer sizes, used cyclically
(a size 0 is read as 1); `fuel` bounds the number of reads (each one delivers at least one byte). -/
def deliveriesAux (eofWith : Bool) (caps : List Nat) : Nat → Nat → List Bytes → List (Bytes × Bool)
  | 0, _, _ => []
  | _, _, [] => []
  | fuel + 1, i, f :: fs =>
    let cap := max 1 (caps.getD (i % max 1 caps.length) 1)
    let d := f.take cap
    let rest := f.drop cap
    let remaining := if rest.isEmpty then fs else rest :: fs
    (d, eofWith && remaining.isEmpty) :: deliveriesAux eofWith caps fuel (i + 1) remaining

def deliveries (eofWith : Bool) (caps : List Nat) (frags : List Bytes) : List (Bytes × Bool) :=
  let fs := frags.filter (fun f => !f.isEmpty)
  deliveriesAux eofWith caps (fs.flatten.length + 1) 0 fs

/-- cut `s` at the (ascending) positions `cuts` -/
def cutAt (s : Bytes) : List Nat → Nat → List Bytes
  | [], _ => [s]
  | c :: cs, off => s.take (c - off) :: cutAt (s.drop (c - off)) cs (max c off)

end Vgw.Model.ChunkSigned
