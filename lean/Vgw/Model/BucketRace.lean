/-
  The race clause of C16: DeleteBucket against concurrent uploads and CreateBucket on the same bucket
  (backend/posix/posix.go DeleteBucket / isBucketEmpty, PutObject / CompleteMultipartUpload up to the
  publication in with_otmpfile.go link(), backend/mkdir.go MkdirAll, CreateBucket).

  The bucket is seen as the posix backend sees it: a directory that exists or not, the published entries
  in it, and the gateway's temporary directory inside it.  Every request is a short program of atomic
  filesystem steps; `run` executes any interleaving (a schedule = which request moves next).  The kernel
  makes each step atomic: that is the assumption.
-/
import Vgw.Go.Bytes
namespace Vgw.Model.BucketRace
open Vgw

structure FS where
  exists_ : Bool := true          -- the bucket directory
  entries : List Nat := []        -- published objects (keys)
  tmpDir : Bool := false          -- <bucket>/.sgwtmp
  deriving Repr, DecidableEq

inductive Outcome where | running | ok | noSuchBucket | notEmpty | exists_
  deriving Repr, DecidableEq

/-- which DeleteBucket is modelled: the pinned code removed the tree recursively and uploads re-created a
missing bucket directory; the repaired code uses rmdir and never creates a bucket directory in MkdirAll -/
inductive Variant where | pinned | repaired
  deriving Repr, DecidableEq

inductive Req where
  | delete (pc : Nat) (out : Outcome)
  | upload (key : Nat) (pc : Nat) (out : Outcome)
  | create (pc : Nat) (out : Outcome)
  deriving Repr, DecidableEq

def Req.out : Req → Outcome
  | .delete _ o | .upload _ _ o | .create _ o => o

/-- one atomic step of one request -/
def stepReq (v : Variant) (fs : FS) : Req → FS × Req
  -- DeleteBucket: 0 emptiness check (ReadDir), 1 remove the temp dir, 2 remove the bucket
  | .delete 0 .running =>
    if !fs.exists_ then (fs, .delete 0 .noSuchBucket)
    else if fs.entries ≠ [] then (fs, .delete 0 .notEmpty)
    else (fs, .delete 1 .running)
  | .delete 1 .running =>
    match v with
    | .pinned => (fs, .delete 2 .running)                       -- os.RemoveAll(bucket) does both at once (step 2)
    | .repaired => ({ fs with tmpDir := false }, .delete 2 .running)
  | .delete 2 .running =>
    match v with
    | .pinned => ({ exists_ := false, entries := [], tmpDir := false }, .delete 3 .ok)
    | .repaired =>
      if !fs.exists_ then (fs, .delete 3 .noSuchBucket)
      else if fs.entries ≠ [] || fs.tmpDir then (fs, .delete 3 .notEmpty)   -- rmdir: ENOTEMPTY
      else ({ fs with exists_ := false }, .delete 3 .ok)
  -- upload (PutObject / CompleteMultipartUpload): 0 stat bucket, 1 temp file (MkdirAll of the temp dir),
  -- 2 publication (MkdirAll of the parent, linkat / rename)
  | .upload k 0 .running =>
    if !fs.exists_ then (fs, .upload k 0 .noSuchBucket) else (fs, .upload k 1 .running)
  | .upload k 1 .running =>
    if fs.exists_ then ({ fs with tmpDir := true }, .upload k 2 .running)
    else match v with
      | .pinned => ({ fs with exists_ := true, tmpDir := true }, .upload k 2 .running)   -- MkdirAll re-creates the bucket
      | .repaired => (fs, .upload k 1 .noSuchBucket)
  | .upload k 2 .running =>
    if fs.exists_ then ({ fs with entries := k :: fs.entries.filter (· ≠ k) }, .upload k 3 .ok)
    else match v with
      | .pinned => ({ fs with exists_ := true, entries := [k] }, .upload k 3 .ok)
      | .repaired => (fs, .upload k 2 .noSuchBucket)
  -- CreateBucket: mkdir is the existence test
  | .create 0 .running =>
    if fs.exists_ then (fs, .create 1 .exists_) else ({ exists_ := true, entries := [], tmpDir := false }, .create 1 .ok)
  | r => (fs, r)    -- finished requests do not move

structure Sys where
  fs : FS
  reqs : List Req
  deriving Repr, DecidableEq

def setNth : List Req → Nat → Req → List Req
  | [], _, _ => []
  | _ :: rs, 0, r => r :: rs
  | x :: rs, n + 1, r => x :: setNth rs n r

/-- the request with index `i` makes its next step (an index out of range: nothing happens) -/
def step (v : Variant) (s : Sys) (i : Nat) : Sys :=
  match s.reqs[i]? with
  | none => s
  | some r => let (fs', r') := stepReq v s.fs r; { fs := fs', reqs := setNth s.reqs i r' }

def run (v : Variant) (s : Sys) (sched : List Nat) : Sys := sched.foldl (step v) s

/-- keys of the acknowledged uploads -/
def ackKey : Req → Option Nat
  | .upload k _ .ok => some k
  | _ => none

def acked (rs : List Req) : List Nat := rs.filterMap ackKey

def deleted (rs : List Req) : Bool := rs.any fun | .delete _ .ok => true | _ => false

end Vgw.Model.BucketRace
