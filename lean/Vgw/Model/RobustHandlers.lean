/-
  C20, part 2: the index / slice / dereference / allocation sites inside middlewares, handlers and
  posix methods, with the client-derived values they work on as parameters (the decoded XML
  structure, the query values, the directory listing).  `fixed : Bool` selects between the code as
  it is (`false`) and the code with the proposed minimal repair docs/C20-fix-<n>.diff (`true`).
-/
import Vgw.Model.Robust
import Vgw.Go.Path
import Vgw.Go.StrOrder
namespace Vgw.Model.Robust
open Vgw Vgw.Go

/-! ### s3api/middlewares/url-decoder.go + acl-parser.go (fix 1) -/

/-- the path part of isPathConfined -/
def pathPartConfined (path : Bytes) : Bool :=
  if path = [] ∨ path = [47] then true else
  let p := if (([47] : Bytes).isPrefixOf path) then path.drop 1 else path      -- strings.TrimPrefix(path, "/")
  match cutByte 47 p with
  | some (bucket, key) =>
    Path.isPathComponentValid bucket && (key = [] || Path.isObjectNameValid key)
  | none => Path.isPathComponentValid p

/-- DecodeURL: the path handed to the rest of the chain (`ctx.Path(unescp)`), or `none` = refused
with InvalidURI.  `unescp` is the percent-decoded request target path. -/
def decodeURL (fixed : Bool) (unescp : Bytes) : Option Bytes :=
  if fixed && !(([47] : Bytes).isPrefixOf unescp) then none          -- fix 1: origin form only
  else if !pathPartConfined unescp then none
  else some unescp

/-- AclParser: `pathParts := strings.Split(path, "/"); bucket := pathParts[1]` -/
def aclParserBucket (path : Bytes) : Chk Bytes := idx (splitOn 47 path) 1

/-- DecodeURL followed by AclParser on an authenticated request -/
def decodeThenAclParser (fixed : Bool) (unescp : Bytes) : Chk (Option Bytes) :=
  match decodeURL fixed unescp with
  | none => .ok none
  | some p => (aclParserBucket p).map some

def aclParserSites : List SiteExp := [
  ⟨"s3api/middlewares/acl-parser.go", "AclParser", "index", "pathParts[1]", 1, ""⟩,
  ⟨"s3api/middlewares/acl-parser.go", "AclParser", "type-assert", "ctx.Locals(\"isRoot\").(bool)", 1, ""⟩,
  ⟨"s3api/middlewares/acl-parser.go", "AclParser", "type-assert", "ctx.Locals(\"account\").(auth.Account)", 1, ""⟩,
  ⟨"s3api/middlewares/acl-parser.go", "AclParser", "type-assert", "ctx.Locals(\"rootAccess\").(string)", 1, ""⟩]

/-- the X-Amz-Copy-Source part of isPathConfined (after url.QueryUnescape and TrimPrefix "/") -/
def copySourceConfined (src : Bytes) : Chk Bool :=
  let i := lastIndexOf versionIdLit src
  if i ≠ -1 then
    (sliceFrom src (i + 11)).bind fun v =>                 -- src[i+len("?versionId="):]
    if !Path.isPathComponentValid v then .ok false else
    (sliceTo src i).bind fun s =>                          -- src[:i]
    .ok (Path.isObjectNameValid s)
  else .ok (Path.isObjectNameValid src)

def isPathConfinedSites : List SiteExp := [
  ⟨"s3api/middlewares/url-decoder.go", "isPathConfined", "slice", "src[i+len(\"?versionId=\"):]", 1, ""⟩,
  ⟨"s3api/middlewares/url-decoder.go", "isPathConfined", "slice", "src[:i]", 1, ""⟩]

/-! ### s3api/controllers/base.go: `path[len(path)-1:] == "/" && key[len(key)-1:] != "/"` -/

/-- GetActions / PutActions / DeleteActions / HeadObject / CreateActions: restore the trailing slash
of the key (`&&` evaluates the key slice only when the path ends in "/") -/
def trailingSlashFix (path key : Bytes) : Chk Bytes :=
  (sliceFrom path ((path.length : Int) - 1)).bind fun pl =>          -- path[len(path)-1:]
  if pl = [47] then
    (sliceFrom key ((key.length : Int) - 1)).bind fun kl =>          -- key[len(key)-1:]
    if kl ≠ [47] then .ok (key ++ [47]) else .ok key
  else .ok key

/-- utils.IsBigDataAction: `len(pathParts) < 3 || pathParts[2] == ""` (the test on the method and
the query flags around it cannot panic) -/
def bigDataHasKey (path : Bytes) : Chk Bool :=
  let pathParts := splitOn 47 path
  if pathParts.length < 3 then .ok false else
  (idx pathParts 2).bind fun k => .ok (k ≠ [])

def isBigDataSites : List SiteExp := [
  ⟨"s3api/utils/utils.go", "IsBigDataAction", "index", "pathParts[2]", 1, ""⟩]

/-! ### PutBucketOwnershipControls (fix 2) -/

/-- `true` = the request goes on to VerifyAccess / the backend, `false` = MalformedXML.
`rules` = the ObjectOwnership values of the decoded `<Rule>` elements, `valid` = utils.IsValidOwnership -/
def putOwnershipControls (fixed : Bool) (valid : Bytes → Bool) (rules : List Bytes) : Chk Bool :=
  let rulesCount := rules.length
  if fixed then
    if rulesCount ≠ 1 then .ok false else
    (idx rules 0).bind fun r0 =>
    if !valid r0 then .ok false else
    (idx rules 0).bind fun _ => .ok true
  else
    (idx rules 0).bind fun r0 =>                           -- ownershipControls.Rules[0] BEFORE the count is tested
    let isValidOwnership := valid r0
    if rulesCount ≠ 1 ∨ !isValidOwnership then .ok false else
    (idx rules 0).bind fun _ => .ok true

/-! ### auth/acl.go: AccessControlPolicy.Validate (fix 4) and the PutObjectAcl loop (fix 5) -/

structure Grt where
  type : Bytes
  id : Bytes
  deriving Repr, DecidableEq

structure Grant where
  grantee : Option Grt          -- *Grt: nil when the <Grant> has no <Grantee>
  permission : Bytes
  deriving Repr, DecidableEq

def canonicalUserLit : Bytes := [67, 97, 110, 111, 110, 105, 99, 97, 108, 85, 115, 101, 114]   -- "CanonicalUser"
def groupLit : Bytes := [71, 114, 111, 117, 112]                                                  -- "Group"

def permissions : List Bytes := [
  [70, 85, 76, 76, 95, 67, 79, 78, 84, 82, 79, 76],   -- FULL_CONTROL
  [82, 69, 65, 68],                                     -- READ
  [82, 69, 65, 68, 95, 65, 67, 80],                     -- READ_ACP
  [87, 82, 73, 84, 69],                                 -- WRITE
  [87, 82, 73, 84, 69, 95, 65, 67, 80]]                 -- WRITE_ACP

/-- `(g *Grt).isValid()`: the receiver is dereferenced by `g.Type` -/
def grtIsValid (g : Option Grt) : Chk Bool :=
  (deref g).bind fun g =>
  if g.type ≠ canonicalUserLit ∧ g.type ≠ groupLit then .ok false else
  if g.id = [] then .ok false else .ok true

/-- `(g *Grant).isValid()` -/
def grantIsValid (fixed : Bool) (g : Grant) : Chk Bool :=
  if !(permissions.contains g.permission) then .ok false else
  if fixed && g.grantee.isNone then .ok false else         -- fix 4: `g.Grantee != nil &&`
  grtIsValid g.grantee

/-- `(acl *AccessControlList).isValid()` -/
def aclIsValid (fixed : Bool) : List Grant → Chk Bool
  | [] => .ok true
  | g :: rest => (grantIsValid fixed g).bind fun v => if !v then .ok false else aclIsValid fixed rest

/-- `(acp *AccessControlPolicy).Validate()`: `true` = nil error. `owner` = Owner (nil | ID nil | ID) -/
def acpValidate (fixed : Bool) (grants : List Grant) (owner : Option (Option Bytes)) : Chk Bool :=
  (aclIsValid fixed grants).bind fun v =>
  if !v then .ok false else
  match owner with
  | none => .ok false
  | some none => .ok false
  | some (some id) => if id = [] then .ok false else .ok true

def aclValidateSites : List SiteExp := [
  ⟨"auth/acl.go", "Grant.isValid", "field-of-optional", "g.Grantee.isValid", 1, ""⟩,
  ⟨"auth/acl.go", "AccessControlPolicy.Validate", "field-of-optional", "acp.Owner.ID", 2, ""⟩,
  ⟨"auth/acl.go", "AccessControlPolicy.Validate", "deref", "*acp.Owner.ID", 1, ""⟩]

/-- PutObjectAcl with a body: `for _, grt := range …Grants { … ID: &grt.Grantee.ID, Type: grt.Grantee.Type … }`;
`some n` = n grants converted, `none` = refused with MalformedACL (only with fix 5) -/
def putObjectAclGrants (fixed : Bool) : List Grant → Chk (Option Nat)
  | [] => .ok (some 0)
  | g :: rest =>
    if fixed && g.grantee.isNone then .ok none else
    (deref g.grantee).bind fun _ =>                        -- &grt.Grantee.ID
    (putObjectAclGrants fixed rest).map fun r => r.map (· + 1)

/-! ### backend/backend.go: BackendUnsupported.SelectObjectContent (fix 6) -/

/-- `progress != nil && *progress.Enabled`; `progress` = RequestProgress (nil | Enabled nil | Enabled) -/
def selectProgressEnabled (fixed : Bool) (progress : Option (Option Bool)) : Chk Bool :=
  match progress with
  | none => .ok false
  | some enabled =>
    if fixed && enabled.isNone then .ok false else deref enabled

def selectSites : List SiteExp := [
  ⟨"backend/backend.go", "BackendUnsupported.SelectObjectContent", "deref", "*progress.Enabled", 1, ""⟩]

/-! ### backend/posix/posix.go: ListMultipartUploads paging (fix 3) -/

structure Upload where
  key : Bytes
  uploadId : Bytes
  deriving Repr, DecidableEq

structure UploadsPage where
  uploads : List Upload
  truncated : Bool
  nextKey : Bytes
  nextUploadId : Bytes
  deriving Repr, DecidableEq

/-- the loop `for i := keyMarkerInd + 1; i < len(uploads); i++`; `fuel` = iterations left -/
def uploadsLoop (fixed : Bool) (uploads : List Upload) (maxUploads : Int) (keyMarker uploadIdMarker : Bytes) :
    Nat → Int → List Upload → Chk UploadsPage
  | 0, _, res => .ok ⟨res, false, [], []⟩
  | fuel + 1, i, res =>
    if ¬ (i < uploads.length) then .ok ⟨res, false, [], []⟩ else
    if maxUploads = 0 then .ok ⟨res, false, [], []⟩ else
    (idx uploads i).bind fun u =>                          -- uploads[i]
    if keyMarker ≠ [] ∧ uploadIdMarker ≠ [] ∧ blt u.uploadId uploadIdMarker then
      uploadsLoop fixed uploads maxUploads keyMarker uploadIdMarker fuel (i + 1) res
    else if i ≠ (uploads.length : Int) - 1 ∧ (res.length : Int) = maxUploads then
      let j : Int := if fixed then (res.length : Int) - 1 else i - 1   -- resultUpds[len(resultUpds)-1] | resultUpds[i-1]
      (idx res j).bind fun a =>
      (idx res j).bind fun b =>
      .ok ⟨res, true, a.key, b.uploadId⟩
    else
      (idx uploads i).bind fun u' =>
      uploadsLoop fixed uploads maxUploads keyMarker uploadIdMarker fuel (i + 1) (res ++ [u'])

/-- the paging part of posix.ListMultipartUploads: `uploads` after the stable sort by key,
`keyMarkerInd` as computed by the collection loop (−1 = marker absent or not found) -/
def listMultipartUploadsPage (fixed : Bool) (uploads : List Upload) (keyMarkerInd maxUploads : Int)
    (keyMarker uploadIdMarker : Bytes) : Chk UploadsPage :=
  uploadsLoop fixed uploads maxUploads keyMarker uploadIdMarker uploads.length (keyMarkerInd + 1) []

def listMultipartUploadsSites : List SiteExp := [
  ⟨"backend/posix/posix.go", "Posix.ListMultipartUploads", "index", "uploads[i]", 3, ""⟩,
  ⟨"backend/posix/posix.go", "Posix.ListMultipartUploads", "index", "uploads[j]", 1, ""⟩,
  ⟨"backend/posix/posix.go", "Posix.ListMultipartUploads", "index", "resultUpds[i-1]", 2, "asis"⟩,
  ⟨"backend/posix/posix.go", "Posix.ListMultipartUploads", "index", "resultUpds[len(resultUpds)-1]", 2, "fixed"⟩,
  ⟨"backend/posix/posix.go", "Posix.ListMultipartUploads", "deref", "*mpu.Bucket", 1, ""⟩,
  ⟨"backend/posix/posix.go", "Posix.ListMultipartUploads", "deref", "*mpu.Delimiter", 1, ""⟩,
  ⟨"backend/posix/posix.go", "Posix.ListMultipartUploads", "deref", "*mpu.Prefix", 2, ""⟩,
  ⟨"backend/posix/posix.go", "Posix.ListMultipartUploads", "deref", "*mpu.KeyMarker", 1, ""⟩,
  ⟨"backend/posix/posix.go", "Posix.ListMultipartUploads", "deref", "*mpu.UploadIdMarker", 1, ""⟩,
  ⟨"backend/posix/posix.go", "Posix.ListMultipartUploads", "deref", "*mpu.MaxUploads", 1, ""⟩]

/-! ### backend/posix/posix.go: ListParts paging -/

/-- `if maxParts > 0 && len(parts) > maxParts { parts = parts[:maxParts] }` then
`parts[len(parts)-1].PartNumber`: (page, truncated, next marker) over the sorted part numbers -/
def listPartsPage (parts : List Int) (maxParts : Int) : Chk (List Int × Bool × Int) :=
  (if maxParts > 0 ∧ (parts.length : Int) > maxParts then sliceTo parts maxParts else .ok parts).bind fun page =>
  (if page.length ≠ 0 then idx page ((page.length : Int) - 1) else .ok 0).bind fun next =>
  .ok (page, parts.length ≠ page.length, next)

/-! ### ListBuckets: the controller's guard and the paging of posix.ListBuckets -/

/-- controller: max-buckets query → MaxBuckets, `none` = InvalidMaxBuckets -/
def maxBucketsOf (q : Bytes) : Option Int :=
  if q = [] then some 10000 else
  match parseInt64 q with
  | none => none
  | some n => if n < 1 ∨ n > 10000 then none else some n      -- ParseInt(…, 10, 32) then the range test

/-- posix.ListBuckets over the names that pass the prefix/owner filter, in directory order:
(names, continuation token) -/
def listBucketsLoop (maxBuckets : Int) (token : Bytes) : List Bytes → List Bytes → Chk (List Bytes × Bytes)
  | [], acc => .ok (acc, [])
  | name :: rest, acc =>
    if (acc.length : Int) = maxBuckets then
      (idx acc ((acc.length : Int) - 1)).bind fun last => .ok (acc, last)     -- buckets[len(buckets)-1]
    else if ble name token then listBucketsLoop maxBuckets token rest acc
    else listBucketsLoop maxBuckets token rest (acc ++ [name])

def listBucketsSites : List SiteExp := [
  ⟨"backend/posix/posix.go", "Posix.ListBuckets", "index", "buckets[len(buckets)-1]", 1, ""⟩]

/-! ### CompleteMultipartUpload: validation of the client's part list -/

structure CPart where
  partNumber : Option Int        -- *int32
  etag : Option Bytes            -- *string
  deriving Repr, DecidableEq

inductive CompleteErr where
  | invalidPart | invalidPartNumber | invalidPartOrder | entityTooSmall
  deriving Repr, DecidableEq

/-- the loop `for i, part := range parts` of posix.CompleteMultipartUpload. `stored n` = (size, etag)
of part file `n` if it exists (what Lstat / the etag attribute return) -/
def completeLoop (stored : Int → Option (Int × Bytes)) (parts : List CPart) (last : Int) (minPart : Int) :
    List CPart → Int → Int → Int → Chk (Except CompleteErr Int)
  | [], _, _, total => .ok (.ok total)
  | part :: rest, i, prev, total =>
    match part.partNumber with
    | none => .ok (.error .invalidPart)
    | some _ =>
      (deref part.partNumber).bind fun pn =>               -- *part.PartNumber
      if pn < 1 then .ok (.error .invalidPartNumber) else
      if pn ≤ prev then .ok (.error .invalidPartOrder) else
      match stored pn with
      | none => .ok (.error .invalidPart)
      | some (size, etag) =>
        if i < last ∧ size < minPart then .ok (.error .entityTooSmall) else
        (idx parts i).bind fun pi =>                       -- parts[i].ETag
        match pi.etag with
        | none => .ok (.error .invalidPart)
        | some _ =>
          (idx parts i).bind fun pi' =>
          (deref pi'.etag).bind fun e =>                   -- *parts[i].ETag
          if etag ≠ e then .ok (.error .invalidPart) else
          completeLoop stored parts last minPart rest (i + 1) pn (total + size)

def completeParts (stored : Int → Option (Int × Bytes)) (parts : List CPart) (minPart : Int) : Chk (Except CompleteErr Int) :=
  completeLoop stored parts ((parts.length : Int) - 1) minPart parts 0 0 0

/-! ### one-byte attributes: bucket versioning and object legal hold -/

/-- controller + posix.PutBucketVersioning: the attribute value stored for a Status the controller
lets through (`none` = refused with MalformedXML) -/
def versioningAttr (status : Bytes) : Option Bytes :=
  if status = [69, 110, 97, 98, 108, 101, 100] then some [1]                       -- "Enabled"
  else if status = [83, 117, 115, 112, 101, 110, 100, 101, 100] then some [0]      -- "Suspended"
  else none

/-- posix.GetBucketVersioning on the stored attribute: `switch vData[0]` -/
def versioningOf (vData : Bytes) : Chk (Option Bool) :=
  (idx vData 0).bind fun b => if b = 1 then .ok (some true) else if b = 0 then .ok (some false) else .ok none

/-- posix.PutObjectLegalHold: `[]byte{1}` / `[]byte{0}` -/
def legalHoldAttr (status : Bool) : Bytes := if status then [1] else [0]

/-- posix.GetObjectLegalHold: `data[0] == 1` -/
def legalHoldOf (data : Bytes) : Chk Bool := (idx data 0).bind fun b => .ok (b = 1)

def attrSites : List SiteExp := [
  ⟨"backend/posix/posix.go", "Posix.GetBucketVersioning", "index", "vData[0]", 1, ""⟩,
  ⟨"backend/posix/posix.go", "Posix.GetObjectLegalHold", "index", "data[0]", 1, ""⟩]

/-! ### s3api/utils/unsigned-chunk-reader.go: chunk size → allocation (fix 7) -/

/-- largest chunk the reader is willing to buffer: 5 GiB -/
def maxUnsignedChunkSize : Int := 5368709120

def hexVal (c : UInt8) : Option Nat :=
  if 48 ≤ c ∧ c ≤ 57 then some (c.toNat - 48)
  else if 97 ≤ c ∧ c ≤ 102 then some (c.toNat - 87)
  else if 65 ≤ c ∧ c ≤ 70 then some (c.toNat - 55)
  else none

def hexDigits : Bytes → Nat → Option Nat
  | [], acc => some acc
  | c :: cs, acc => match hexVal c with
    | some v => hexDigits cs (acc * 16 + v)
    | none => none

/-- `strconv.ParseInt(line, 16, 64)`: sign, hex digits, int64 range -/
def parseHexInt64 (s : Bytes) : Option Int :=
  match s with
  | [] => none
  | c :: rest =>
    if c = 43 then
      match rest with
      | [] => none
      | _ => match hexDigits rest 0 with
        | some n => if (n : Int) ≤ int64Max then some n else none
        | none => none
    else if c = 45 then
      match rest with
      | [] => none
      | _ => match hexDigits rest 0 with
        | some n => if (n : Int) ≤ int64Max + 1 then some (-(n : Int)) else none
        | none => none
    else match hexDigits s 0 with
      | some n => if (n : Int) ≤ int64Max then some n else none
      | none => none

/-- extractChunkSize on the line read from the wire (without its terminator, white space trimmed):
`none` = errMalformedEncoding -/
def extractChunkSize (line : Bytes) : Option Int :=
  match parseHexInt64 (trimSpace line) with
  | none => none
  | some n => if n < 0 ∨ n > maxUnsignedChunkSize then none else some n

/-- bytes allocated for a chunk of announced size `chunkSize` of which `arrived` bytes really come
before the stream ends: `make([]byte, chunkSize)` as it is; a buffer that grows (doubling) with
the arrived bytes with fix 7 (bytes.Buffer: at most twice what was written, plus the minimum) -/
def chunkAlloc (fixed : Bool) (chunkSize : Int) (arrived : Nat) : Chk Nat :=
  if fixed then .ok (2 * (min arrived chunkSize.toNat) + 512)
  else makeBytes chunkSize

def unsignedChunkSites : List SiteExp := [
  ⟨"s3api/utils/unsigned-chunk-reader.go", "UnsignedChunkReader.Read", "make", "make([]byte, chunkSize)", 1, "asis"⟩]

/-! ### the copy-source header in PutActions, and the guard in front of ParseCopySource -/

/-- `if len(copySource) > 0 && copySource[0] == '/' { copySource = copySource[1:] }` -/
def controllerCopySource (hdr : Bytes) : Chk Bytes :=
  if hdr.length > 0 then
    (idx hdr 0).bind fun c => if c = 47 then sliceFrom hdr 1 else .ok hdr
  else .ok hdr

/-- PutActions → CopyObject / UploadPartCopy → backend.ParseCopySource: the copy branches are taken
only for `copySource != ""`; `none` = not a copy request -/
def copySourceOfRequest (hdr : Bytes) : Chk (Option CopySrc) :=
  (controllerCopySource hdr).bind fun cs =>
  if cs = [] then .ok none else (parseCopySource cs).map some

def putActionsCopySites : List SiteExp := [
  ⟨"s3api/controllers/base.go", "S3ApiController.PutActions", "index", "copySource[0]", 1, ""⟩,
  ⟨"s3api/controllers/base.go", "S3ApiController.PutActions", "slice", "copySource[1:]", 1, ""⟩]

/-! ### auth/bucket_policy*.go: first byte of the document, last byte of an action -/

def s3ColonLit : Bytes := [115, 51, 58]          -- "s3:"
def allActionsLit : Bytes := [115, 51, 58, 42]   -- "s3:*"

/-- ValidatePolicyDocument: `len(policyBin) == 0 || policyBin[0] != '{'` (`true` = malformed) -/
def policyFirstCharBad (bin : Bytes) : Chk Bool :=
  if bin.length = 0 then .ok true else (idx bin 0).bind fun c => .ok (c ≠ 123)

/-- Action.IsValid (`true` = nil error); `supported` / `prefixSupported` = membership in
supportedActionList / some supported action has this prefix -/
def actionIsValid (supported prefixSupported : Bytes → Bool) (a : Bytes) : Chk Bool :=
  if !(s3ColonLit.isPrefixOf a) then .ok false else
  if a = allActionsLit then .ok true else
  (idx a ((a.length : Int) - 1)).bind fun c =>           -- a[len(a)-1]
  if c = 42 then .ok (prefixSupported (a.take (a.length - 1))) else .ok (supported a)

/-- Action.IsObjectAction (`none` = nil pointer = wildcard) -/
def isObjectAction (objSupported objPrefixSupported : Bytes → Bool) (a : Bytes) : Chk (Option Bool) :=
  if a = allActionsLit then .ok none else
  (idx a ((a.length : Int) - 1)).bind fun c =>           -- a[len(a)-1]
  if c = 42 then .ok (some (objPrefixSupported (a.take (a.length - 1)))) else .ok (some (objSupported a))

def policySites : List SiteExp := [
  ⟨"auth/bucket_policy.go", "ValidatePolicyDocument", "index", "policyBin[0]", 1, ""⟩,
  ⟨"auth/bucket_policy_actions.go", "Action.IsValid", "index", "a[len(a)-1]", 1, ""⟩,
  ⟨"auth/bucket_policy_actions.go", "Action.IsObjectAction", "index", "a[len(a)-1]", 1, ""⟩]

/-! ### backend/walk.go: the root directory derived from the prefix -/

/-- `if strings.Contains(prefix, "/") { idx := strings.LastIndex(prefix, "/"); if idx > 0 { root = prefix[:idx] } }`;
`none` = "." -/
def walkRoot (pfx : Bytes) : Chk (Option Bytes) :=
  if pfx.contains 47 then
    let i := lastIndexOf [47] pfx
    if i > 0 then (sliceTo pfx i).map some else .ok none
  else .ok none

def walkSites : List SiteExp := [
  ⟨"backend/walk.go", "Walk", "slice", "prefix[:idx]", 1, ""⟩]

/-! ### unsigned chunk reader: a size line is read ONCE per loop iteration, the end of the stream is an error -/

/-- `bufio.Reader.ReadString('\n')` on what is left of the stream: the line with its delimiter and the
rest; `none` = the stream ends before a delimiter (ReadString returns io.EOF with whatever it read,
extractChunkSize treats every error as errMalformedEncoding) -/
def readLine : Bytes → Option (Bytes × Bytes)
  | [] => none
  | c :: s =>
    if c = 10 then some ([10], s)
    else match readLine s with
      | some (l, r) => some (c :: l, r)
      | none => none

/-- extractChunkSize as a function of the remaining stream: the accepted size and what remains behind
the line; `none` = errMalformedEncoding (bad line, or end of stream: there is no retry) -/
def extractChunkSizeOf (s : Bytes) : Option (Int × Bytes) :=
  match readLine s with
  | none => none
  | some (l, rest) =>
    match extractChunkSize l with
    | none => none
    | some n => some (n, rest)

/-! ### the other allocations whose size is computed (not `len`/`cap` of a value already in memory) -/

/-- utils.escapePath: `required := len(s) + 2*hexCount`, `make([]byte, required)` when it exceeds the
64-byte stack buffer (`esc` = shouldEscape) -/
def escapeRequired (esc : UInt8 → Bool) (s : Bytes) : Nat := s.length + 2 * (s.filter esc).length

/-- signed chunk reader, parseChunkHeaderBytes: `make([]byte, stashLen+len(header))` after the test
`stashLen > maxHeaderSize` (`none` = errInvalidChunkFormat) -/
def maxHeaderSize : Nat := 1024
def stashAlloc (stashLen headerLen : Nat) : Option Nat :=
  if stashLen > maxHeaderSize then none else some (stashLen + headerLen)

/-- SendXMLResponse: `make([]byte, 0, msglen)` after the test `msglen > maxXMLBodyLen` (`none` = 500) -/
def maxXMLBodyLen : Nat := 4194304
def xmlResponseAlloc (hdrLen bodyLen : Nat) : Option Nat :=
  if hdrLen + bodyLen > maxXMLBodyLen then none else some (hdrLen + bodyLen)

def computedAllocSites : List SiteExp := [
  ⟨"s3api/utils/utils.go", "escapePath", "make", "make([]byte, required)", 1, ""⟩,
  ⟨"s3api/utils/signed-chunk-reader.go", "ChunkReader.parseChunkHeaderBytes", "make", "make([]byte, stashLen+len(header))", 1, ""⟩,
  ⟨"s3api/controllers/base.go", "SendXMLResponse", "make", "make([]byte, 0, msglen)", 1, ""⟩]

/-! ### expectations for the sites modelled inside the large handler functions -/

def handlerInnerSites : List SiteExp := [
  ⟨"s3api/controllers/base.go", "S3ApiController.GetActions", "slice", "path[len(path)-1:]", 1, ""⟩,
  ⟨"s3api/controllers/base.go", "S3ApiController.GetActions", "slice", "key[len(key)-1:]", 1, ""⟩,
  ⟨"s3api/controllers/base.go", "S3ApiController.PutActions", "slice", "path[len(path)-1:]", 1, ""⟩,
  ⟨"s3api/controllers/base.go", "S3ApiController.PutActions", "slice", "keyStart[len(keyStart)-1:]", 1, ""⟩,
  ⟨"s3api/controllers/base.go", "S3ApiController.DeleteActions", "slice", "path[len(path)-1:]", 1, ""⟩,
  ⟨"s3api/controllers/base.go", "S3ApiController.DeleteActions", "slice", "key[len(key)-1:]", 1, ""⟩,
  ⟨"s3api/controllers/base.go", "S3ApiController.HeadObject", "slice", "path[len(path)-1:]", 1, ""⟩,
  ⟨"s3api/controllers/base.go", "S3ApiController.HeadObject", "slice", "key[len(key)-1:]", 1, ""⟩,
  ⟨"s3api/controllers/base.go", "S3ApiController.CreateActions", "slice", "path[len(path)-1:]", 1, ""⟩,
  ⟨"s3api/controllers/base.go", "S3ApiController.CreateActions", "slice", "key[len(key)-1:]", 1, ""⟩,
  ⟨"s3api/controllers/base.go", "S3ApiController.PutBucketActions", "index", "ownershipControls.Rules[0]", 2, ""⟩,
  ⟨"s3api/controllers/base.go", "S3ApiController.PutActions", "field-of-optional", "grt.Grantee.ID", 1, ""⟩,
  ⟨"s3api/controllers/base.go", "S3ApiController.PutActions", "field-of-optional", "grt.Grantee.Type", 1, ""⟩,
  ⟨"backend/posix/posix.go", "Posix.ListParts", "slice", "parts[:maxParts]", 1, ""⟩,
  ⟨"backend/posix/posix.go", "Posix.ListParts", "index", "parts[len(parts)-1]", 1, ""⟩,
  ⟨"backend/posix/posix.go", "Posix.CompleteMultipartUpload", "deref", "*part.PartNumber", 7, ""⟩,
  ⟨"backend/posix/posix.go", "Posix.CompleteMultipartUpload", "index", "parts[i]", 2, ""⟩,
  ⟨"backend/posix/posix.go", "Posix.CompleteMultipartUpload", "deref", "*parts[i].ETag", 1, ""⟩]

/-- functions whose expectation above is the COMPLETE multiset of their panic-capable expressions:
any further site appearing in them is a change of modelled code -/
def completeFuncs : List (String × String) := [
  ("backend/common.go", "ParseCopySource"), ("backend/common.go", "ParseObjectTags"),
  ("backend/common.go", "ParseCopySourceRange"), ("backend/common.go", "ParseGetObjectRange"),
  ("s3api/utils/auth-reader.go", "ParseAuthorization"), ("s3api/utils/presign-auth-reader.go", "ParsePresignedURIParts"),
  ("s3api/middlewares/url-decoder.go", "isPathConfined"), ("s3api/utils/utils.go", "IsBigDataAction"),
  ("s3api/middlewares/acl-parser.go", "AclParser"),
  ("auth/acl.go", "Grant.isValid"), ("auth/acl.go", "AccessControlPolicy.Validate"),
  ("backend/backend.go", "BackendUnsupported.SelectObjectContent"),
  ("backend/posix/posix.go", "Posix.ListMultipartUploads"), ("backend/posix/posix.go", "Posix.ListBuckets"),
  ("backend/posix/posix.go", "Posix.GetBucketVersioning"), ("backend/posix/posix.go", "Posix.GetObjectLegalHold"),
  ("auth/bucket_policy.go", "ValidatePolicyDocument"), ("auth/bucket_policy_actions.go", "Action.IsValid"),
  ("auth/bucket_policy_actions.go", "Action.IsObjectAction")]

/-- all expectations of part 2 -/
def handlerSites : List SiteExp :=
  aclParserSites ++ isPathConfinedSites ++ isBigDataSites ++ aclValidateSites ++ selectSites ++
  listMultipartUploadsSites ++ listBucketsSites ++ attrSites ++ unsignedChunkSites ++
  putActionsCopySites ++ policySites ++ walkSites ++ handlerInnerSites ++ computedAllocSites

/-- all expectations of part 1 -/
def parserSites : List SiteExp :=
  copySourceSites ++ objectTagsSites ++ copySourceRangeSites ++ getObjectRangeSites ++
  parseAuthorizationSites ++ parsePresignedSites ++ v4DateSites

end Vgw.Model.Robust
