/-
  Model of `Resources.Match` (auth/bucket_policy_resources.go): the two-pointer wildcard matcher
  with backtracking to the last `*`, transcribed statement by statement.

      pIdx, sIdx := 0, 0 ; starIdx, matchIdx := -1, 0
      for sIdx < len(input) {
        if pIdx < len(pattern) && pattern[pIdx] == '*' { starIdx = pIdx; matchIdx = sIdx; pIdx++ }
        else if pIdx < len(pattern) && (pattern[pIdx] == '?' || pattern[pIdx] == input[sIdx]) { sIdx++; pIdx++ }
        else if starIdx != -1 { pIdx = starIdx + 1; matchIdx++; sIdx = matchIdx }
        else { return false }
      }
      for pIdx < len(pattern) && pattern[pIdx] == '*' { pIdx++ }
      return pIdx == len(pattern)

  Go strings are indexed by byte (`pattern[i]` under the guard `i < len` is written `p[i]? = some _`);
  `starIdx = -1` is `none`.  The wildcard test comes first (since the fix 4562263), so a `*` in the
  pattern is a wildcard also when the subject has a literal `*` at that place.  Core-only.
-/
import Vgw.Go.Bytes
namespace Vgw.Model.Glob
open Vgw

def star : UInt8 := 42    -- '*'
def qmark : UInt8 := 63   -- '?'

/-- The first loop.  State: `pi = pIdx`, `si = sIdx`, `st = starIdx` (`none` = -1), `mi = matchIdx`.
Result: `none` = `return false` inside the loop, `some pIdx` = the loop ended with that `pIdx`.
The argument `h : mi ≤ si` is the loop invariant that makes the explicit measure
`(len s - mi, (len s - si) + (len p - pi))` decrease lexicographically. -/
def loop (p s : Bytes) (pi si : Nat) (st : Option Nat) (mi : Nat) (h : mi ≤ si) : Option Nat :=
  if hs : si < s.length then
    if hq : pi < p.length ∧ p[pi]? = some star then
      loop p s (pi + 1) si (some pi) si (by omega)
    else if hp : pi < p.length ∧ (p[pi]? = some qmark ∨ p[pi]? = some s[si]) then
      loop p s (pi + 1) (si + 1) st mi (by omega)
    else
      match st with
      | some k => loop p s (k + 1) (mi + 1) (some k) (mi + 1) (by omega)
      | none => none
  else some pi
termination_by (s.length - mi, (s.length - si) + (p.length - pi))
decreasing_by
  · -- new star: matchIdx := sIdx ≥ matchIdx
    rcases Nat.lt_or_eq_of_le h with hlt | heq
    · apply Prod.Lex.left; omega
    · subst heq
      apply Prod.Lex.right'
      · omega
      · omega
  · -- literal / `?` step: second component decreases
    apply Prod.Lex.right'
    · omega
    · omega
  · -- backtrack: matchIdx increases
    apply Prod.Lex.left; omega

/-- The second loop: skip trailing stars. -/
def skipStars (p : Bytes) (pi : Nat) : Nat :=
  if h : pi < p.length ∧ p[pi]? = some star then skipStars p (pi + 1) else pi
termination_by p.length - pi

/-- `Resources.Match(pattern, input)`. -/
def «match» (p s : Bytes) : Bool :=
  match loop p s 0 0 none 0 (Nat.le_refl 0) with
  | none => false
  | some pi => skipStars p pi == p.length

end Vgw.Model.Glob
