/-
  Serialisation of account changes: the ghost log records every change at the step that decides
  it under the write lock; the committed image is the replay of the log (each change applied to
  the image its predecessor left, none lost), every returned change is in the log exactly once
  with the answer it returned, the log only grows.
-/
import Vgw.Lemmas.IAMPending
namespace Vgw.Model.IAM
open Vgw
open Vgw.Model.Gw (Account Role)

/-- apply the logged changes one after the other, checking the logged answers -/
def replay (cfg : Cfg) : Store → List LogEntry → Option Store
  | s, [] => some s
  | s, e :: rest =>
    match mutateR cfg s e.op with
    | .ok s' => if e.res = .ok then replay cfg s' rest else none
    | .error r => if e.res = r then replay cfg s rest else none

theorem replay_append (cfg : Cfg) (s : Store) (l : List LogEntry) (e : LogEntry) :
    replay cfg s (l ++ [e]) = (replay cfg s l).bind (fun s' => replay cfg s' [e]) := by
  induction l generalizing s with
  | nil => simp [replay]
  | cons x rest ih =>
    simp only [List.cons_append, replay]
    split
    · split
      · exact ih _
      · rfl
    · split
      · exact ih _
      · rfl

/-- the answer of a mutation, once it is decided -/
def decided : PC → Option Res
  | .mRenamed | .mCache => some .ok
  | .mFailed e => some e
  | .done r => some r
  | _ => none

def ownLog (i : Nat) (c : Call) : List LogEntry :=
  if c.op.isMut = true then (match decided c.pc with | some r => [⟨i, c.op, r⟩] | none => []) else []

structure SInv (cfg : Cfg) (s0 : Store) (σ : State) : Prop where
  rep : replay cfg s0 σ.log = some σ.committed
  ids : ∀ e ∈ σ.log, e.id < σ.calls.length
  muts : ∀ e ∈ σ.log, e.op.isMut = true
  own : ∀ (i : Nat) (c : Call), σ.calls[i]? = some c → σ.log.filter (fun e => e.id == i) = ownLog i c

/-- a step that does not decide anything -/
theorem SInv.frame {cfg : Cfg} {s0 : Store} {σ σ₁ : State} {i : Nat} {c : Call} {pc' : PC} (h : SInv cfg s0 σ)
    (hi : σ.calls[i]? = some c)
    (hlog : σ₁.log = σ.log) (hc : σ₁.committed = σ.committed) (hcalls : σ₁.calls = σ.calls)
    (hd : c.op.isMut = true → decided pc' = decided c.pc) :
    SInv cfg s0 (σ₁.setCall i ⟨c.op, pc'⟩) := by
  refine ⟨by simp only [State.setCall, hlog, hc]; exact h.rep, ?_, by simp only [State.setCall, hlog]; exact h.muts, ?_⟩
  · intro e he
    simp only [State.setCall, hlog, hcalls, List.length_set] at he ⊢
    exact h.ids e he
  · intro j cj hj
    simp only [State.setCall, hcalls, List.getElem?_set] at hj
    simp only [State.setCall, hlog]
    by_cases hij : i = j
    · simp only [hij, if_true] at hj
      split at hj
      · cases hj
        rw [← hij, h.own i c hi]
        unfold ownLog
        by_cases hm : c.op.isMut = true
        · rw [if_pos hm, if_pos hm, hd hm]
        · rw [if_neg hm, if_neg hm]
      · cases hj
    · simp only [hij, if_false] at hj; exact h.own j cj hj

/-- the step that decides mutation i: one entry is appended -/
theorem SInv.decide {cfg : Cfg} {s0 : Store} {σ σ₁ : State} {i : Nat} {c : Call} {pc' : PC} {r : Res} (h : SInv cfg s0 σ)
    (hi : σ.calls[i]? = some c)
    (hlog : σ₁.log = σ.log ++ [⟨i, c.op, r⟩]) (hcalls : σ₁.calls = σ.calls)
    (hm : c.op.isMut = true) (hd0 : decided c.pc = none) (hd1 : decided pc' = some r)
    (hstep : replay cfg σ.committed [⟨i, c.op, r⟩] = some σ₁.committed) :
    SInv cfg s0 (σ₁.setCall i ⟨c.op, pc'⟩) := by
  have hlt := (List.getElem?_eq_some_iff.mp hi).1
  refine ⟨?_, ?_, ?_, ?_⟩
  · simp only [State.setCall, hlog]
    rw [replay_append, h.rep]; exact hstep
  · intro e he
    simp only [State.setCall, hlog, hcalls, List.length_set, List.mem_append, List.mem_singleton] at he ⊢
    rcases he with he | he
    · exact h.ids e he
    · subst he; exact hlt
  · intro e he
    simp only [State.setCall, hlog, List.mem_append, List.mem_singleton] at he
    rcases he with he | he
    · exact h.muts e he
    · subst he; exact hm
  · intro j cj hj
    simp only [State.setCall, hcalls, List.getElem?_set] at hj
    simp only [State.setCall, hlog, List.filter_append]
    by_cases hij : i = j
    · simp only [hij, if_true] at hj
      split at hj
      · cases hj
        rw [← hij, h.own i c hi]
        simp [ownLog, hm, hd0, hd1]
      · cases hj
    · simp only [hij, if_false] at hj
      rw [h.own j cj hj]
      simp [hij]

theorem SInv.stepCall {v : Variant} {cfg : Cfg} {s0 : Store} {σ : State} {i : Nat} {c : Call}
    (hW : Wf cfg σ) (hT : TInv cfg σ) (h : SInv cfg s0 σ) (hi : σ.calls[i]? = some c) :
    SInv cfg s0 (stepCall v cfg σ i c) := by
  have hL := (hW.l.calls i c hi).pc
  unfold PcL at hL
  have hTc := hT i c hi
  have hcs := cacheStep_frame v cfg σ c.op
  unfold Model.IAM.stepCall
  split
  · -- start
    rename_i hpc
    split
    · rename_i k hop
      have hnm : ¬ c.op.isMut = true := by rw [hop]; simp [Op.isMut]
      split
      · exact h.frame hi rfl rfl rfl (fun hm => absurd hm hnm)
      · exact h.frame hi rfl rfl rfl (fun hm => absurd hm hnm)
    · rename_i hop
      have hnm : ¬ c.op.isMut = true := by rw [hop]; simp [Op.isMut]
      split
      · exact h.frame (σ₁ := { σ with readers := i :: σ.readers }) hi rfl rfl rfl (fun hm => absurd hm hnm)
      · exact h
    · rename_i a hop
      split
      · rename_i hroot
        have hroot : a.access = cfg.root.access := by simpa using hroot
        refine h.decide (σ₁ := { σ with log := σ.log ++ [LogEntry.mk i c.op .userExists] }) (r := .userExists) hi rfl rfl
          (by rw [hop]; rfl) (by rw [hpc]; rfl) rfl ?_
        simp [replay, mutateR, hop, hroot]
      · split
        · exact h.frame (σ₁ := { σ with writer := some i }) hi rfl rfl rfl (fun _ => by rw [hpc]; rfl)
        · exact h
    · split
      · exact h.frame (σ₁ := { σ with writer := some i }) hi rfl rfl rfl (fun _ => by rw [hpc]; rfl)
      · exact h
  · rename_i hpc
    split
    · exact h.frame hi rfl rfl rfl (fun _ => by rw [hpc]; rfl)
    · exact h
  · rename_i b hpc
    exact h.frame (σ₁ := { σ with main := none }) hi rfl rfl rfl (fun _ => by rw [hpc]; rfl)
  · rename_i b hpc
    exact h.frame (σ₁ := { σ with backup := some b }) hi rfl rfl rfl (fun _ => by rw [hpc]; rfl)
  · -- mBackedUp: the decision
    rename_i b hpc
    rw [hpc] at hL
    have hmT := hTc.1 (Or.inl (by rw [hpc]; rfl))
    have hmR : mutateR cfg σ.committed c.op = mutate σ.committed c.op := by
      cases hop : c.op with
      | create a => simp [mutateR, hmT.2 a hop]
      | _ => rfl
    split
    · rename_i e he
      refine h.decide (σ₁ := { σ with main := some b, log := σ.log ++ [LogEntry.mk i c.op e] }) (r := e) hi rfl rfl
        hmT.1 (by rw [hpc]; rfl) rfl ?_
      rw [hL.1] at he
      simp [replay, hmR, he]
    · rename_i b' _
      exact h.frame (σ₁ := { σ with temp := some b' }) hi rfl rfl rfl (fun _ => by rw [hpc]; rfl)
  · -- mTemp: the rename
    rename_i b' hpc
    rw [hpc] at hL
    have hmT := hTc.1 (Or.inl (by rw [hpc]; rfl))
    have hmR : mutateR cfg σ.committed c.op = mutate σ.committed c.op := by
      cases hop : c.op with
      | create a => simp [mutateR, hmT.2 a hop]
      | _ => rfl
    refine h.decide (σ₁ := { σ with main := some b', temp := none, committed := b', log := σ.log ++ [LogEntry.mk i c.op .ok] })
      (r := .ok) hi rfl rfl hmT.1 (by rw [hpc]; rfl) rfl ?_
    simp [replay, hmR, hL.1]
  · rename_i hpc
    exact h.frame (σ₁ := { σ with writer := none }) hi rfl rfl rfl (fun _ => by rw [hpc]; rfl)
  · rename_i e hpc
    exact h.frame (σ₁ := { σ with writer := none }) hi rfl rfl rfl (fun _ => by rw [hpc]; rfl)
  · rename_i hpc
    exact h.frame (σ₁ := cacheStep v cfg σ c.op) hi hcs.2.2.2.2.2.2.2.1 hcs.2.2.2.2.2.1 hcs.2.2.2.2.2.2.1 (fun _ => by rw [hpc]; rfl)
  · -- gMiss
    rename_i g hpc
    split
    · exact h.frame hi rfl rfl rfl (fun _ => by rw [hpc]; rfl)
    · split
      · exact h.frame (σ₁ := { σ with readers := i :: σ.readers }) hi rfl rfl rfl (fun _ => by rw [hpc]; rfl)
      · exact h
  · rename_i g hpc
    split
    · exact h.frame hi rfl rfl rfl (fun _ => by rw [hpc]; rfl)
    · exact h
  · -- gGot: a lookup
    rename_i r g hpc
    have hnm : ¬ c.op.isMut = true := by
      obtain ⟨k, hk⟩ := hTc.2.2 (by rw [hpc]; rfl); rw [hk]; simp [Op.isMut]
    split
    · exact h.frame (σ₁ := { σ with readers := _ }) hi rfl rfl rfl (fun hm => absurd hm hnm)
    · exact h.frame (σ₁ := { σ with readers := _ }) hi rfl rfl rfl (fun hm => absurd hm hnm)
  · rename_i a g hpc
    have hnm : ¬ c.op.isMut = true := by
      obtain ⟨k, hk⟩ := hTc.2.2 (by rw [hpc]; rfl); rw [hk]; simp [Op.isMut]
    split
    · exact h.frame (σ₁ := { σ with items := _ }) hi rfl rfl rfl (fun hm => absurd hm hnm)
    · exact h.frame hi rfl rfl rfl (fun hm => absurd hm hnm)
  · rename_i hpc
    split
    · exact h.frame hi rfl rfl rfl (fun _ => by rw [hpc]; rfl)
    · exact h
  · rename_i s hpc
    have hnm : ¬ c.op.isMut = true := by
      rw [hTc.2.1 (by rw [hpc]; rfl)]; simp [Op.isMut]
    exact h.frame (σ₁ := { σ with readers := _ }) hi rfl rfl rfl (fun hm => absurd hm hnm)
  · exact h

end Vgw.Model.IAM
