/-
  Assembly: from "the emissions are the specified entries" (Good) and ascending event paths to
  `finish (run …) = Spec.result …`.
-/
import Vgw.Lemmas.WalkRefine
namespace Vgw.Model.Walk
open Vgw Vgw.Spec.List

/-! ### visible events are a sublist of all events -/

mutual
theorem visNode_epath_sublist (c : Cfg) : ∀ (t : Tree) (b : Bytes),
    ((visNode c b t).map Ev.epath).Sublist (eventsNode b t)
  | .file n, b => by simp [visNode, eventsNode, Ev.epath]
  | .dir n cs, b => by
    simp only [visNode, eventsNode, List.map_cons]
    have he : Ev.epath ⟨b ++ n, n, true, cs.isEmpty⟩ = b ++ n ++ [slash] := by simp [Ev.epath]
    rw [he]
    apply List.Sublist.cons₂
    split
    · exact visList_epath_sublist c cs _
    · simp
theorem visList_epath_sublist (c : Cfg) : ∀ (ts : List Tree) (b : Bytes),
    ((visList c b ts).map Ev.epath).Sublist (eventsList b ts)
  | [], _ => by simp [visList, eventsList]
  | t :: ts, b => by
    simp only [visList, eventsList, List.map_append]
    exact List.Sublist.append (visNode_epath_sublist c t b) (visList_epath_sublist c ts b)
end

/-! ### observation format -/

theorem cpsOf_map_toEntry : ∀ l : List Em, cpsOf (l.map toEntry) = emCps l
  | [] => rfl
  | .obj o mk :: l => by
    have := cpsOf_map_toEntry l
    simp only [cpsOf, emCps, List.map_cons, toEntry, List.filterMap_cons] at this ⊢
    exact this
  | .cp n :: l => by
    have := cpsOf_map_toEntry l
    simp only [cpsOf, emCps, List.map_cons, toEntry, List.filterMap_cons] at this ⊢
    rw [this]

theorem objsOf_map_toEntry (g : GetObj) : ∀ l : List Em,
    (∀ em ∈ l, ∀ o mk, em = .obj o mk → g o.key = some (o.size, o.etag)) →
    objsOf g (l.map toEntry) = emObjs l
  | [], _ => rfl
  | .obj o mk :: l, h => by
    have ih := objsOf_map_toEntry g l (fun em hem => h em (by simp [hem]))
    have hg := h (.obj o mk) (by simp) o mk rfl
    simp only [objsOf, emObjs, List.map_cons, toEntry, List.filterMap_cons, hg, Option.map_some] at ih ⊢
    rw [ih]
  | .cp n :: l, h => by
    have ih := objsOf_map_toEntry g l (fun em hem => h em (by simp [hem]))
    simp only [objsOf, emObjs, List.map_cons, toEntry, List.filterMap_cons] at ih ⊢
    exact ih

theorem lastMk_eq_lastName (l : List Em) (h : ∀ em ∈ l, em.mk = em.name) : lastMk l = lastName (l.map toEntry) := by
  unfold lastMk lastName
  rw [List.getLast?_map]
  cases hl : l.getLast? with
  | none => rfl
  | some em =>
    have hm : em ∈ l := List.mem_of_getLast? hl
    simp [h em hm, Em.name]

theorem emCps_sublist_names : ∀ l : List Em, (emCps l).Sublist (l.map Em.name)
  | [] => by simp [emCps]
  | .obj o mk :: l => by
    have := emCps_sublist_names l
    simp only [emCps, List.filterMap_cons, List.map_cons] at this ⊢
    exact List.Sublist.cons _ this
  | .cp n :: l => by
    have := emCps_sublist_names l
    simp only [emCps, List.filterMap_cons, List.map_cons] at this ⊢
    exact List.Sublist.cons₂ _ this

/-! ### the generic assembly -/

theorem finish_of_good (c : Cfg) (N : Nat) (hN : 0 < N) (hmax : c.max = (N : Int))
    (vis : List Ev) (K evp : List Bytes)
    (hgood : Good c K (emsOf c vis) evp)
    (hsorted : evp.Pairwise (fun a b => blt a b = true))
    (hvsub : (vis.map Ev.epath).Sublist evp) :
    finish (run c (init c) vis) = Spec.List.result c.getObj K c.pfx c.delim c.marker N := by
  -- (L2) freeze pastMarker, (L3) closed form
  have hrun : run c (init c) vis = runA c (init c) (vis.map (act0 c)) := by
    rw [run_eq_run0 c vis (init c) (List.Pairwise.sublist hvsub hsorted) (Or.inl rfl), run0_eq_runA]
  have hE : ems (vis.map (act0 c)) = emsOf c vis := rfl
  have hnames : ((emsOf c vis).map Em.name).Pairwise (fun a b => blt a b = true) :=
    List.Pairwise.sublist hgood.names hsorted
  have hcpsorted : ∀ n, (emCps ((emsOf c vis).take n)).Pairwise (fun a b => blt a b = true) := by
    intro n
    exact List.Pairwise.sublist ((emCps_sublist_names _).trans ((List.take_sublist n _).map _)) hnames
  have hnd : ((init c).cps ++ emCps (ems (vis.map (act0 c)))).Nodup := by
    rw [hE]
    show ([] ++ emCps (emsOf c vis)).Nodup
    rw [List.nil_append]
    have := List.Pairwise.sublist (emCps_sublist_names (emsOf c vis)) hnames
    exact this.imp (fun {a b} hab => blt_ne a b hab)
  have hcl := runA_closed c N hmax (vis.map (act0 c)) (init c) rfl (by simp [init]) (by simp [init]; omega) hnd
  rw [hE] at hcl
  have hn : N - ((init c).objects.length + (init c).cps.length) = N := by simp [init]
  rw [hn] at hcl
  -- the emissions are the specified entries
  have hent : (emsOf c vis).map toEntry = entries K c.pfx c.delim c.marker := by
    apply sorted_ext
    · rw [List.pairwise_map]
      rw [List.pairwise_map] at hnames
      exact hnames
    · exact entries_sorted K _ _ _
    · intro x
      rw [mem_entries]
      constructor
      · intro hx
        obtain ⟨em, hem, rfl⟩ := List.mem_map.1 hx
        obtain ⟨k, hk, hp, ha, he, _⟩ := hgood.sound em hem
        exact ⟨k, hk, hp, ha, he⟩
      · rintro ⟨k, hk, hp, ha, rfl⟩
        obtain ⟨em, hem, he⟩ := hgood.complete k hk hp ha
        exact List.mem_map.2 ⟨em, hem, he⟩
  have hmeta : ∀ em ∈ emsOf c vis, ∀ o mk, em = .obj o mk → c.getObj o.key = some (o.size, o.etag) := by
    intro em hem o mk he
    obtain ⟨k, _, _, _, _, hm⟩ := hgood.sound em hem
    obtain ⟨_, h2, h3⟩ := hm o mk he
    rw [h2]; exact h3
  have hmk : ∀ em ∈ emsOf c vis, em.mk = em.name := by
    intro em hem
    cases em with
    | cp n => rfl
    | obj o mk =>
      obtain ⟨k, _, _, _, _, hm⟩ := hgood.sound _ hem
      obtain ⟨h1, h2, _⟩ := hm o mk rfl
      simp [Em.mk, Em.name, toEntry, Entry.name, h1, h2]
  have hlen : (entries K c.pfx c.delim c.marker).length = (emsOf c vis).length := by
    rw [← hent]; simp
  have htake : ∀ n, (entries K c.pfx c.delim c.marker).take n = ((emsOf c vis).take n).map toEntry := by
    intro n; rw [← hent, List.map_take]
  -- compare the two results field by field
  rw [hrun]
  have hobj : ∀ n, emObjs ((emsOf c vis).take n) = objsOf c.getObj ((entries K c.pfx c.delim c.marker).take n) := by
    intro n
    rw [htake, objsOf_map_toEntry c.getObj _ (fun em hem => hmeta em (List.mem_of_mem_take hem))]
  have hcp : ∀ n, sortDedup (emCps ((emsOf c vis).take n)) = cpsOf ((entries K c.pfx c.delim c.marker).take n) := by
    intro n
    rw [sortDedup_of_sorted _ (hcpsorted n), htake, cpsOf_map_toEntry]
  have hN0 : ¬ N = 0 := by omega
  have hL : finish (runA c (init c) (vis.map (act0 c))) =
      ⟨emObjs ((emsOf c vis).take N), sortDedup (emCps ((emsOf c vis).take N)),
        decide (N < (emsOf c vis).length),
        if N < (emsOf c vis).length then lastMk ((emsOf c vis).take N) else []⟩ := by
    have e1 := hcl.objects
    have e2 := hcl.cps
    have e3 := hcl.truncated
    have e4 := hcl.newMarker
    rw [if_neg hN0] at e4
    unfold finish
    rw [e1, e2, e3, e4]
    by_cases ht : N < (emsOf c vis).length
    · simp only [ht, decide_true, if_true]
      rw [if_pos (by omega)]
      simp [init]
    · simp only [ht, decide_false, Bool.false_eq_true, if_false]
      simp [init]
  have hR : Spec.List.result c.getObj K c.pfx c.delim c.marker N =
      if (entries K c.pfx c.delim c.marker).length > N then
        ⟨objsOf c.getObj ((entries K c.pfx c.delim c.marker).take N), cpsOf ((entries K c.pfx c.delim c.marker).take N),
          true, lastName ((entries K c.pfx c.delim c.marker).take N)⟩
      else ⟨objsOf c.getObj (entries K c.pfx c.delim c.marker), cpsOf (entries K c.pfx c.delim c.marker), false, []⟩ := by
    unfold Spec.List.result Spec.List.list
    rw [if_neg hN0]
    dsimp only
    split <;> rfl
  rw [hL, hR]
  by_cases ht : N < (emsOf c vis).length
  · have ht' : (entries K c.pfx c.delim c.marker).length > N := by rw [hlen]; exact ht
    rw [if_pos ht', if_pos ht]
    rw [hobj, hcp, lastMk_eq_lastName _ (fun em hem => hmk em (List.mem_of_mem_take hem)), ← htake]
    simp [ht]
  · have ht' : ¬ (entries K c.pfx c.delim c.marker).length > N := by rw [hlen]; exact ht
    rw [if_neg ht', if_neg ht]
    have hall : (entries K c.pfx c.delim c.marker).take N = entries K c.pfx c.delim c.marker :=
      List.take_of_length_le (by omega)
    rw [hobj, hcp, hall]
    simp [ht]

end Vgw.Model.Walk
