/-
  Soundness of the executable form of the side condition `QuietRun` (Model/IAMQuiet.lean; used by
  the driver to label real schedules, and by the non-vacuity examples).
-/
import Vgw.Lemmas.IAMList
namespace Vgw.Model.IAM
open Vgw
open Vgw.Model.Gw (Account Role)

theorem quietAtB_sound {v : Variant} {σ : State} {i : Nat} {c : Call} (h : quietAtB v σ i c = true) : QuietAt v σ i c := by
  simp only [quietAtB, Bool.and_eq_true] at h
  refine ⟨?_, ?_⟩
  · intro j cj hji hj hk
    have hlt := (List.getElem?_eq_some_iff.mp hj).1
    have := (List.all_eq_true.mp h.1) j (List.mem_range.mpr hlt)
    rw [hj] at this
    simp only [Bool.or_eq_true, beq_iff_eq, bne_iff_ne, ne_eq, Bool.and_eq_true, Bool.not_eq_true'] at this
    rcases this with (h1 | h1) | h1
    · exact absurd h1 hji
    · exact absurd hk h1
    · refine ⟨h1.1, ?_⟩
      intro a g hpc; rw [hpc] at h1; simp [isFetched] at h1
  · intro a ha
    have := h.2
    rw [ha] at this
    simpa using this

theorem quietStepB_sound {v : Variant} {σ : State} {a : Act} (h : quietStepB v σ a = true) : QuietStep v σ a := by
  cases a with
  | step i =>
    intro c b' hi hpc
    simp only [quietStepB, hi, hpc, isTemp, Bool.not_true, Bool.false_or] at h
    exact quietAtB_sound h
  | _ => trivial

theorem quietRunB_sound {v : Variant} {cfg : Cfg} {σ : State} {acts : List Act} (h : quietRunB v cfg σ acts = true) :
    QuietRun v cfg σ acts := by
  induction acts generalizing σ with
  | nil => trivial
  | cons a rest ih =>
    simp only [quietRunB, Bool.and_eq_true] at h
    exact ⟨quietStepB_sound h.1, ih h.2⟩

/-- executable form of `NoMut` -/
def noMutB (σ : State) (k : Bytes) : Bool :=
  σ.calls.all fun c => !(c.op.isMut && c.op.key == k) || isDone c.pc

theorem noMutB_sound {σ : State} {k : Bytes} (h : noMutB σ k = true) : NoMut σ k := by
  intro j c hj hm hk
  have hmem : c ∈ σ.calls := List.mem_of_getElem? hj
  have := (List.all_eq_true.mp h) c hmem
  simpa [hm, hk] using this

end Vgw.Model.IAM
