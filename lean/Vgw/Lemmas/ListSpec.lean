/-
  Spec-level lemmas about Spec.List: the roll-up name is monotone in the key, entry names are
  strictly ascending, membership in `entries`, restarting from a returned name.
-/
import Vgw.Lemmas.Cut
import Vgw.Spec.List
namespace Vgw.Spec.List
open Vgw

/-! ### the roll-up of a suffix -/

/-- the part of `s` (= key − prefix) that names its entry -/
def rn (D s : Bytes) : Bytes :=
  match cut D s with
  | some x => x ++ D
  | none => s

theorem rn_prefix (D s : Bytes) : rn D s <+: s := by
  unfold rn
  cases h : cut D s with
  | none => exact List.prefix_refl _
  | some x => exact (cut_some_spec D s x h).1

theorem ble_append_left (p a b : Bytes) : ble (p ++ a) (p ++ b) = ble a b := by
  unfold ble; rw [blt_append_left]

theorem rn_mono (D s1 s2 : Bytes) (h : ble s1 s2 = true) : ble (rn D s1) (rn D s2) = true := by
  have hcontra : blt s2 s1 = true → False := by
    intro h'; unfold ble at h; simp [h'] at h
  unfold rn
  cases h1 : cut D s1 with
  | some x1 =>
    obtain ⟨⟨t1, ht1⟩, hmin1⟩ := cut_some_spec D s1 x1 h1
    cases h2 : cut D s2 with
    | some x2 =>
      obtain ⟨⟨t2, ht2⟩, _⟩ := cut_some_spec D s2 x2 h2
      simp only
      cases hb : ble (x1 ++ D) (x2 ++ D) with
      | true => rfl
      | false =>
        exfalso
        have hlt := (not_ble _ _).1 hb
        by_cases hp : x2 ++ D <+: x1 ++ D
        · have hle := hmin1 x2 (hp.trans ⟨t1, ht1⟩)
          have hl2 := hp.length_le
          have heq : x2 ++ D = x1 ++ D := hp.eq_of_length (by simp at hl2 ⊢; omega)
          rw [heq, blt_irrefl] at hlt; cases hlt
        · have := blt_append_of_not_prefix _ _ hlt hp t2 t1
          rw [ht2, ht1] at this
          exact hcontra this
    | none =>
      simp only
      exact ble_trans _ _ _ (ble_of_prefix _ _ ⟨t1, ht1⟩) h
  | none =>
    cases h2 : cut D s2 with
    | some x2 =>
      obtain ⟨⟨t2, ht2⟩, _⟩ := cut_some_spec D s2 x2 h2
      simp only
      cases hb : ble s1 (x2 ++ D) with
      | true => rfl
      | false =>
        exfalso
        have hlt := (not_ble _ _).1 hb
        by_cases hp : x2 ++ D <+: s1
        · exact cut_none_spec D s1 h1 x2 hp
        · have := blt_append_of_not_prefix _ _ hlt hp t2 []
          rw [ht2] at this
          simp only [List.append_nil] at this
          exact hcontra this
    | none => exact h

/-! ### `entry` on keys carrying the prefix -/

theorem entry_nil (P k : Bytes) : entry P [] k = .obj k := by simp [entry]

theorem entry_append_some (P D s x : Bytes) (hD : D ≠ []) (h : cut D s = some x) :
    entry P D (P ++ s) = .cp (P ++ x ++ D) := by
  simp [entry, hD, h]

theorem entry_append_none (P D s : Bytes) (h : cut D s = none) : entry P D (P ++ s) = .obj (P ++ s) := by
  by_cases hD : D = []
  · subst hD; simp [entry]
  · simp [entry, hD, h]

theorem name_entry_append (P D s : Bytes) (hD : D ≠ []) : (entry P D (P ++ s)).name = P ++ rn D s := by
  unfold rn
  cases h : cut D s with
  | none => simp [entry_append_none P D s h, Entry.name]
  | some x => simp [entry_append_some P D s x hD h, Entry.name]

/-- the name of an entry is a prefix of every key that rolls up into it -/
theorem name_entry_prefix (P D k : Bytes) (hP : P <+: k) : (entry P D k).name <+: k := by
  obtain ⟨s, rfl⟩ := hP
  by_cases hD : D = []
  · subst hD; simp [entry_nil, Entry.name]
  · rw [name_entry_append P D s hD]
    exact (List.prefix_append_right_inj P).2 (rn_prefix D s)

/-- **the entry name is (weakly) monotone in the key** -/
theorem name_entry_mono (P D k1 k2 : Bytes) (h1 : P <+: k1) (h2 : P <+: k2) (h : ble k1 k2 = true) :
    ble (entry P D k1).name (entry P D k2).name = true := by
  obtain ⟨s1, rfl⟩ := h1
  obtain ⟨s2, rfl⟩ := h2
  by_cases hD : D = []
  · subst hD; simpa [entry_nil, Entry.name] using h
  · rw [name_entry_append P D s1 hD, name_entry_append P D s2 hD, ble_append_left]
    rw [ble_append_left] at h
    exact rn_mono D s1 s2 h

/-- entries are determined by their names -/
theorem entry_eq_of_name_eq (P D k1 k2 : Bytes) (h1 : P <+: k1) (h2 : P <+: k2)
    (h : (entry P D k1).name = (entry P D k2).name) : entry P D k1 = entry P D k2 := by
  obtain ⟨s1, rfl⟩ := h1
  obtain ⟨s2, rfl⟩ := h2
  by_cases hD : D = []
  · subst hD; simpa [entry_nil, Entry.name] using h
  · cases c1 : cut D s1 with
    | none =>
      cases c2 : cut D s2 with
      | none =>
        rw [entry_append_none P D s1 c1, entry_append_none P D s2 c2] at h ⊢
        simpa [Entry.name] using h
      | some x2 =>
        rw [entry_append_none P D s1 c1, entry_append_some P D s2 x2 hD c2] at h
        simp [Entry.name] at h
        exact absurd (by rw [h]; exact List.prefix_refl _) (cut_none_spec D s1 c1 x2)
    | some x1 =>
      cases c2 : cut D s2 with
      | none =>
        rw [entry_append_some P D s1 x1 hD c1, entry_append_none P D s2 c2] at h
        simp [Entry.name] at h
        exact absurd (by rw [← h]; exact List.prefix_refl _) (cut_none_spec D s2 c2 x1)
      | some x2 =>
        rw [entry_append_some P D s1 x1 hD c1, entry_append_some P D s2 x2 hD c2] at h ⊢
        simpa [Entry.name] using h

/-- an object entry is its key -/
theorem entry_obj_eq (P D k k' : Bytes) (hP : P <+: k) (h : entry P D k = .obj k') : k' = k := by
  obtain ⟨s, rfl⟩ := hP
  by_cases hD : D = []
  · subst hD; simp [entry_nil] at h; exact h.symm
  · cases c : cut D s with
    | none => rw [entry_append_none P D s c] at h; simp at h; exact h.symm
    | some x => rw [entry_append_some P D s x hD c] at h; simp at h

/-! ### common-prefix names -/

theorem isCPName_of_cut (P D s x : Bytes) (hD : D ≠ []) (h : cut D s = some x) :
    isCPName P D (P ++ x ++ D) = true := by
  obtain ⟨⟨t, ht⟩, _⟩ := cut_some_spec D s x h
  have hs : cut D (x ++ D) = some x := cut_self D x t (by rw [ht]; exact h)
  unfold isCPName
  have hp : P.isPrefixOf (P ++ x ++ D) = true := (isPrefixOf_iff _ _).2 ⟨x ++ D, by simp⟩
  have hdrop : (P ++ x ++ D).drop P.length = x ++ D := by simp [List.append_assoc]
  simp [hD, hs]

theorem isCPName_spec (P D M : Bytes) (h : isCPName P D M = true) :
    D ≠ [] ∧ ∃ x, M = P ++ x ++ D ∧ cut D (x ++ D) = some x := by
  unfold isCPName at h
  simp only [Bool.and_eq_true, decide_eq_true_eq] at h
  obtain ⟨⟨hD, hp⟩, hm⟩ := h
  refine ⟨by simpa using hD, ?_⟩
  obtain ⟨s, rfl⟩ := (isPrefixOf_iff _ _).1 hp
  simp only [List.drop_left'] at hm
  cases hc : cut D s with
  | none => simp [hc] at hm
  | some x =>
    simp only [hc, beq_iff_eq] at hm
    have hs : s = x ++ D := by
      have := List.append_cancel_left (by simpa [List.append_assoc] using hm : P ++ s = P ++ (x ++ D))
      exact this
    refine ⟨x, hm, ?_⟩
    rw [← hs]; exact hc

theorem isCPName_entry_obj (P D k : Bytes) (hP : P <+: k) (h : entry P D k = .obj k) : isCPName P D k = false := by
  cases hc : isCPName P D k with
  | false => rfl
  | true =>
    exfalso
    obtain ⟨hD, x, hk, hcut⟩ := isCPName_spec P D k hc
    have : entry P D k = .cp (P ++ x ++ D) := by
      rw [hk, List.append_assoc]
      have := entry_append_some P D (x ++ D) x hD hcut
      simpa [List.append_assoc] using this
    rw [this] at h; simp at h

/-! ### `after` -/

theorem after_iff (P D M k : Bytes) : after P D M k = true ↔
    M = [] ∨ (blt M k = true ∧ ¬ (isCPName P D M = true ∧ M <+: k)) := by
  unfold after
  rw [← isPrefixOf_iff]
  by_cases hM : M = []
  · simp [hM]
  · have : (M == []) = false := by simpa using hM
    rw [this]
    cases isCPName P D M <;> cases M.isPrefixOf k <;> simp [hM]

/-- once a key is after the marker, all larger keys are -/
theorem after_upward (P D M k0 k : Bytes) (h0 : after P D M k0 = true) (h : blt k0 k = true) :
    after P D M k = true := by
  rw [after_iff] at h0 ⊢
  rcases h0 with hM | ⟨h1, h2⟩
  · exact Or.inl hM
  · right
    refine ⟨blt_trans _ _ _ h1 h, ?_⟩
    rintro ⟨hcp, ⟨r, hr⟩⟩
    apply h2
    exact ⟨hcp, prefix_of_between M k0 r (ble_of_blt _ _ h1) (by rw [hr]; exact h)⟩

/-- restarting after the name of `k0`'s entry selects exactly the keys whose entry name is larger -/
theorem after_name_iff (P D k0 k : Bytes) (h0 : P <+: k0) (hk : P <+: k) (hne : k0 ≠ []) :
    after P D (entry P D k0).name k = true ↔ blt (entry P D k0).name (entry P D k).name = true := by
  have mono := name_entry_mono P D
  -- contrapositive of monotonicity
  have lt_of_name_lt : blt (entry P D k0).name (entry P D k).name = true → blt k0 k = true := by
    intro hlt
    rcases blt_trichotomy k0 k with h | h | h
    · exact h
    · subst h; rw [blt_irrefl] at hlt; cases hlt
    · have := mono k k0 hk h0 (ble_of_blt _ _ h)
      unfold ble at this; simp [hlt] at this
  obtain ⟨s0, rfl⟩ := h0
  by_cases hobj : entry P D (P ++ s0) = .obj (P ++ s0)
  · -- object entry: its name is the key, which is not a common-prefix name
    have hcp := isCPName_entry_obj P D (P ++ s0) (List.prefix_append _ _) hobj
    have hnm : (entry P D (P ++ s0)).name = P ++ s0 := by rw [hobj]; rfl
    rw [after_iff, hnm]
    constructor
    · rintro (he | ⟨hlt, _⟩)
      · exact absurd he hne
      · have hle := mono (P ++ s0) k (List.prefix_append _ _) hk (ble_of_blt _ _ hlt)
        rw [hnm] at hle
        rcases (ble_iff _ _).1 hle with e | e
        · exfalso
          have he := entry_eq_of_name_eq P D (P ++ s0) k (List.prefix_append _ _) hk (by rw [hnm]; exact e)
          rw [hobj] at he
          have := entry_obj_eq P D k (P ++ s0) hk he.symm
          rw [this, blt_irrefl] at hlt; cases hlt
        · exact e
    · intro hlt
      right
      refine ⟨lt_of_name_lt (by rw [hnm]; exact hlt), ?_⟩
      rw [hcp]; simp
  · -- common-prefix entry
    have hD : D ≠ [] := by
      intro hD; subst hD; exact hobj (entry_nil _ _)
    cases hc : cut D s0 with
    | none => exact absurd (entry_append_none P D s0 hc) hobj
    | some x =>
      have hent := entry_append_some P D s0 x hD hc
      have hnm : (entry P D (P ++ s0)).name = P ++ x ++ D := by rw [hent]; rfl
      obtain ⟨⟨t, ht⟩, _⟩ := cut_some_spec D s0 x hc
      have hcpn := isCPName_of_cut P D s0 x hD hc
      have hk0eq : P ++ x ++ D ++ t = P ++ s0 := by rw [← ht]; simp [List.append_assoc]
      have hcne : P ++ x ++ D ≠ [] := by
        intro h; simp at h; exact hD h.2.2
      rw [after_iff, hnm]
      constructor
      · rintro (he | ⟨hlt, hnp⟩)
        · exact absurd he hcne
        · have hnp' : ¬ (P ++ x ++ D) <+: k := fun hp => hnp ⟨hcpn, hp⟩
          -- k is above every key rolled up into the common prefix, in particular above k0
          have hk0 : blt (P ++ s0) k = true := by
            have := blt_append_of_blt_not_prefix (P ++ x ++ D) k hlt hnp' t
            rw [hk0eq] at this
            exact this
          have hle := mono (P ++ s0) k (List.prefix_append _ _) hk (ble_of_blt _ _ hk0)
          rw [hnm] at hle
          rcases (ble_iff _ _).1 hle with e | e
          · exfalso
            apply hnp'
            rw [e]; exact name_entry_prefix P D k hk
          · exact e
      · intro hlt
        right
        have hk0 := lt_of_name_lt (by rw [hnm]; exact hlt)
        refine ⟨blt_of_ble_of_blt _ _ _ (ble_of_prefix _ _ ⟨t, hk0eq⟩) hk0, ?_⟩
        rintro ⟨_, ⟨t', ht'⟩⟩
        obtain ⟨s, rfl⟩ := hk
        have hs : s = x ++ D ++ t' := by
          have : P ++ s = P ++ (x ++ D ++ t') := by rw [← ht']; simp [List.append_assoc]
          exact List.append_cancel_left this
        have hcs : cut D s = some x := by
          rw [hs]; exact cut_stable D x t t' (by rw [ht]; exact hc)
        rw [entry_append_some P D s x hD hcs] at hlt
        simp [Entry.name, blt_irrefl] at hlt

/-! ### `dedupAdjacent` -/

theorem mem_dedupAdjacent {α : Type} [DecidableEq α] : ∀ (l : List α) (x : α), x ∈ dedupAdjacent l ↔ x ∈ l
  | [], _ => by simp [dedupAdjacent]
  | [_], _ => by simp [dedupAdjacent]
  | e :: f :: r, x => by
    unfold dedupAdjacent
    split
    · rename_i h; subst h
      rw [mem_dedupAdjacent (e :: r) x]; simp
    · simp only [List.mem_cons]
      rw [mem_dedupAdjacent (f :: r) x]; simp

/-- weakly ascending names + "equal names ⇒ equal entries" ⇒ strictly ascending after dedup -/
theorem dedupAdjacent_sorted : ∀ (l : List Entry),
    l.Pairwise (fun a b => ble a.name b.name = true) →
    (∀ a ∈ l, ∀ b ∈ l, a.name = b.name → a = b) →
    (dedupAdjacent l).Pairwise (fun a b => blt a.name b.name = true)
  | [], _, _ => by simp [dedupAdjacent]
  | [_], _, _ => by simp [dedupAdjacent]
  | e :: f :: r, hs, hinj => by
    have hs' := List.pairwise_cons.1 hs
    have ih := dedupAdjacent_sorted (f :: r) hs'.2 (fun a ha b hb => hinj a (by simp [ha]) b (by simp [hb]))
    unfold dedupAdjacent
    split
    · exact ih
    · rename_i hne
      refine List.pairwise_cons.2 ⟨?_, ih⟩
      intro y hy
      rw [mem_dedupAdjacent] at hy
      have hef : blt e.name f.name = true := by
        rcases (ble_iff _ _).1 (hs'.1 f (by simp)) with h | h
        · exact absurd (hinj e (by simp) f (by simp) h) hne
        · exact h
      rcases List.mem_cons.1 hy with rfl | hy
      · exact hef
      · have hs'' := List.pairwise_cons.1 hs'.2
        exact blt_of_blt_of_ble _ _ _ hef (hs''.1 y hy)

/-! ### `entries` -/

theorem mem_selected (K : List Bytes) (P D M k : Bytes) :
    k ∈ selected K P D M ↔ k ∈ K ∧ P <+: k ∧ after P D M k = true := by
  unfold selected
  simp [mem_sortDedup, isPrefixOf_iff]

theorem selected_sorted (K : List Bytes) (P D M : Bytes) :
    (selected K P D M).Pairwise (fun a b => blt a b = true) :=
  (sortDedup_sorted K).filter _

/-- **membership**: an entry is listed iff some key after the marker with the prefix maps to it -/
theorem mem_entries (K : List Bytes) (P D M : Bytes) (e : Entry) :
    e ∈ entries K P D M ↔ ∃ k, k ∈ K ∧ P <+: k ∧ after P D M k = true ∧ entry P D k = e := by
  unfold entries
  rw [mem_dedupAdjacent]
  simp only [List.mem_map, mem_selected]
  constructor
  · rintro ⟨k, ⟨h1, h2, h3⟩, h4⟩; exact ⟨k, h1, h2, h3, h4⟩
  · rintro ⟨k, h1, h2, h3, h4⟩; exact ⟨k, ⟨h1, h2, h3⟩, h4⟩

theorem pairwise_name_mono (P D : Bytes) : ∀ l : List Bytes, l.Pairwise (fun a b => blt a b = true) →
    (∀ k ∈ l, P <+: k) → l.Pairwise (fun a b => ble (entry P D a).name (entry P D b).name = true)
  | [], _, _ => List.Pairwise.nil
  | a :: l, hs, hall => by
    have hs' := List.pairwise_cons.1 hs
    refine List.pairwise_cons.2 ⟨?_, pairwise_name_mono P D l hs'.2 (fun k hk => hall k (by simp [hk]))⟩
    intro b hb
    exact name_entry_mono P D a b (hall a (by simp)) (hall b (by simp [hb])) (ble_of_blt _ _ (hs'.1 b hb))

/-- **entry names are strictly ascending** (any delimiter, any marker) -/
theorem entries_sorted (K : List Bytes) (P D M : Bytes) :
    (entries K P D M).Pairwise (fun a b => blt a.name b.name = true) := by
  unfold entries
  apply dedupAdjacent_sorted
  · rw [List.pairwise_map]
    exact pairwise_name_mono P D _ (selected_sorted K P D M)
      (fun k hk => ((mem_selected K P D M k).1 hk).2.1)
  · intro a ha b hb hab
    simp only [List.mem_map, mem_selected] at ha hb
    obtain ⟨ka, ⟨_, hpa, _⟩, rfl⟩ := ha
    obtain ⟨kb, ⟨_, hpb, _⟩, rfl⟩ := hb
    exact entry_eq_of_name_eq P D ka kb hpa hpb hab

/-- two strictly ascending lists with the same members are equal -/
theorem sorted_ext : ∀ (l1 l2 : List Entry),
    l1.Pairwise (fun a b => blt a.name b.name = true) →
    l2.Pairwise (fun a b => blt a.name b.name = true) →
    (∀ x, x ∈ l1 ↔ x ∈ l2) → l1 = l2
  | [], [], _, _, _ => rfl
  | [], b :: _, _, _, h => by have := (h b).2 (by simp); simp at this
  | a :: _, [], _, _, h => by have := (h a).1 (by simp); simp at this
  | a :: t1, b :: t2, h1, h2, h => by
    have h1' := List.pairwise_cons.1 h1
    have h2' := List.pairwise_cons.1 h2
    have hab : a = b := by
      apply Classical.byContradiction
      intro hne
      have ha : a ∈ t2 := by
        have := (h a).1 (by simp); simp at this
        rcases this with e | e
        · exact absurd e hne
        · exact e
      have hb : b ∈ t1 := by
        have := (h b).2 (by simp); simp at this
        rcases this with e | e
        · exact absurd e.symm hne
        · exact e
      have x1 := h1'.1 b hb
      have x2 := h2'.1 a ha
      rw [blt_asymm _ _ x1] at x2; cases x2
    subst hab
    have : t1 = t2 := by
      apply sorted_ext t1 t2 h1'.2 h2'.2
      intro x
      constructor
      · intro hx
        have := (h x).1 (by simp [hx]); simp at this
        rcases this with e | e
        · subst e; have := h1'.1 x hx; rw [blt_irrefl] at this; cases this
        · exact e
      · intro hx
        have := (h x).2 (by simp [hx]); simp at this
        rcases this with e | e
        · subst e; have := h2'.1 x hx; rw [blt_irrefl] at this; cases this
        · exact e
    rw [this]

/-- **restart**: listing again after the name of a listed entry gives exactly the later entries -/
theorem entries_restart (K : List Bytes) (P D M : Bytes) (hK : [] ∉ K) (e : Entry)
    (he : e ∈ entries K P D M) :
    entries K P D e.name = (entries K P D M).filter (fun f => blt e.name f.name) := by
  obtain ⟨k0, hk0K, hk0P, hk0A, rfl⟩ := (mem_entries K P D M e).1 he
  have hk0ne : k0 ≠ [] := fun h => hK (h ▸ hk0K)
  apply sorted_ext
  · exact entries_sorted K P D _
  · exact (entries_sorted K P D M).filter _
  · intro f
    rw [List.mem_filter, mem_entries, mem_entries]
    constructor
    · rintro ⟨k, hkK, hkP, hkA, rfl⟩
      have hlt := (after_name_iff P D k0 k hk0P hkP hk0ne).1 hkA
      refine ⟨⟨k, hkK, hkP, ?_, rfl⟩, hlt⟩
      -- k0 < k, and k0 is after M
      have hk0k : blt k0 k = true := by
        rcases blt_trichotomy k0 k with h | h | h
        · exact h
        · subst h; rw [blt_irrefl] at hlt; cases hlt
        · have := name_entry_mono P D k k0 hkP hk0P (ble_of_blt _ _ h)
          unfold ble at this; simp [hlt] at this
      exact after_upward P D M k0 k hk0A hk0k
    · rintro ⟨⟨k, hkK, hkP, _, rfl⟩, hlt⟩
      exact ⟨k, hkK, hkP, (after_name_iff P D k0 k hk0P hkP hk0ne).2 hlt, rfl⟩

/-- in a strictly ascending list, the elements above the last of the first `n` are the rest -/
theorem filter_gt_last_take (l : List Entry) (hs : l.Pairwise (fun a b => blt a.name b.name = true))
    (n : Nat) (hn : 0 < n) (hl : n ≤ l.length) :
    l.filter (fun f => blt (lastName (l.take n)) f.name) = l.drop n := by
  have hsplit : l = l.take n ++ l.drop n := (List.take_append_drop n l).symm
  have hne : l.take n ≠ [] := by
    intro h
    have := congrArg List.length h
    rw [List.length_take, List.length_nil] at this
    omega
  obtain ⟨init, lst, hil⟩ : ∃ init lst, l.take n = init ++ [lst] :=
    ⟨(l.take n).dropLast, (l.take n).getLast hne, (List.dropLast_concat_getLast hne).symm⟩
  have hlast : lastName (l.take n) = lst.name := by
    unfold lastName; rw [hil]; simp
  rw [hlast]
  have hs2 : (init ++ [lst] ++ l.drop n).Pairwise (fun a b => blt a.name b.name = true) := by
    rw [← hil, ← hsplit]; exact hs
  rw [List.pairwise_append] at hs2
  obtain ⟨hs3, _, hcross⟩ := hs2
  rw [List.pairwise_append] at hs3
  obtain ⟨_, _, hinit⟩ := hs3
  conv => lhs; rw [hsplit, hil]
  rw [List.filter_append, List.filter_append]
  have e1 : init.filter (fun f => blt lst.name f.name) = [] := by
    rw [List.filter_eq_nil_iff]
    intro a ha
    have := hinit a ha lst (by simp)
    simp [blt_asymm _ _ this]
  have e2 : [lst].filter (fun f => blt lst.name f.name) = [] := by
    simp [blt_irrefl]
  have e3 : (l.drop n).filter (fun f => blt lst.name f.name) = l.drop n := by
    rw [List.filter_eq_self]
    intro a ha
    exact hcross lst (by simp) a ha
  rw [e1, e2, e3]; simp

end Vgw.Spec.List
