import Vgw.Lemmas.CrashOthers
/-
  Lemmas.CrashAtomic — the class of requests for which the unchanged backend IS crash-atomic (xattr store):
  at most one step of the plan writes something the key's view reads.
-/
namespace Vgw.Model.Crash

attribute [local irreducible] publish publishR publishC storeAttrs storeAttr mkdirAll openTmp archive deleteAttrs deleteAttr
  deleteNullVersion removeParents planPutSpec prePut preUploadPart preComplete cleanupUpload

/-- paths beside the object: temp area, versioning area, proper ancestors of the object -/
def Aside (cfg : Cfg) (key : Path) (q : Path) : Prop :=
  tmpDir cfg <+: q ∨ ["V"] <+: q ∨ (q <+: objPath cfg key ∧ q ≠ objPath cfg key)

/-- a well-formed file key: not empty, not below `.sgwtmp` -/
def KeyOK (key : Path) : Prop := key ≠ [] ∧ key.head? ≠ some ".sgwtmp"

theorem aside_not_read {cfg : Cfg} {key q : Path} (h : Aside cfg key q) (hk : KeyOK key) : reads cfg key q = false := by
  obtain ⟨hk1, hk2⟩ := hk
  simp only [reads, Bool.or_eq_false_iff, beq_eq_false_iff_ne, ne_eq]
  rw [sideOf_obj, objPath_eq]
  rw [Bool.eq_false_iff, ne_eq, List.isPrefixOf_iff_prefix]
  rcases h with h | h | ⟨h, hne⟩
  · rw [tmpDir_eq] at h
    refine ⟨fun hq => ?_, fun hs => absurd (heads_eq_of_prefixes h hs) (by decide)⟩
    subst hq
    have h1 : [".sgwtmp"] <+: key := (List.prefix_cons_inj cfg.bucket).mp ((List.prefix_cons_inj "R").mp h)
    cases key with
    | nil => exact hk1 rfl
    | cons x t => rw [List.cons_prefix_cons] at h1; exact hk2 (by simp [h1.1])
  · refine ⟨fun hq => ?_, fun hs => absurd (heads_eq_of_prefixes h hs) (by decide)⟩
    subst hq; exact absurd (List.cons_prefix_cons.mp h).1 (by decide)
  · rw [objPath_eq] at h hne
    exact ⟨hne, fun hs => absurd (List.cons_prefix_cons.mp (hs.trans h)).1 (by decide)⟩

theorem silent_of_aside {cfg : Cfg} {key : Path} {l : List Step} (h : WritesIn (Aside cfg key) l) (hk : KeyOK key) :
    ∀ s ∈ l, s.silent (reads cfg key) = true := by
  intro s hs
  simp only [Step.silent, List.all_eq_true, Bool.not_eq_eq_eq_not, Bool.not_true]
  intro q hq
  exact aside_not_read (h s hs q hq) hk

theorem countP_zero_of_silent {P : Path → Bool} {l : List Step} (h : ∀ s ∈ l, s.silent P = true) :
    l.countP (fun s => !s.silent P) = 0 := by
  rw [List.countP_eq_zero]
  intro s hs; simp [h s hs]

/-! ### xattr store: where the preparations write -/

theorem aside_tmp {cfg : Cfg} {key q : Path} (h : tmpDir cfg <+: q) : Aside cfg key q := Or.inl h
theorem aside_V {cfg : Cfg} {key q : Path} (h : ["V"] <+: q) : Aside cfg key q := Or.inr (Or.inl h)

theorem aside_above_obj {cfg : Cfg} {key q : Path} (h : q <+: (objPath cfg key).dropLast) (hk : key ≠ []) : Aside cfg key q := by
  refine Or.inr (Or.inr ⟨h.trans (List.dropLast_prefix _), fun he => ?_⟩)
  have h1 := h.length_le
  rw [he, List.length_dropLast, objPath_eq] at h1
  simp at h1
  omega

theorem aside_near_tmp {cfg : Cfg} {key q dir : Path} (hd : tmpDir cfg <+: dir) (hk : KeyOK key)
    (h : (q <+: dir ∧ 2 ≤ q.length) ∨ dir <+: q) : Aside cfg key q := by
  rcases h with ⟨h1, h2⟩ | h
  · rcases List.prefix_or_prefix_of_prefix hd h1 with h3 | h3
    · exact aside_tmp h3
    · by_cases hq3 : q.length = 3
      · have : q = tmpDir cfg := h3.eq_of_length (by simp [tmpDir_eq, hq3])
        exact aside_tmp (this ▸ List.prefix_refl _)
      · have hq : q.length ≤ 2 := by have := h3.length_le; simp [tmpDir_eq] at this; omega
        have hb : bucketPath cfg <+: tmpDir cfg := List.prefix_append _ _
        have h4 : q <+: bucketPath cfg := List.prefix_of_prefix_length_le h3 hb (by simpa [bucketPath] using hq)
        refine Or.inr (Or.inr ⟨h4.trans (List.prefix_append _ _), fun he => ?_⟩)
        have := h4.length_le
        rw [he, objPath_eq] at this
        obtain ⟨hk1, _⟩ := hk
        cases key with
        | nil => exact hk1 rfl
        | cons x t => simp [bucketPath] at this
  · exact aside_tmp (hd.trans h)

theorem aside_near_V {cfg : Cfg} {key q rest : Path}
    (h : (q <+: "V" :: rest ∧ 2 ≤ q.length) ∨ "V" :: rest <+: q) : Aside cfg key q := by
  rcases h with ⟨h1, h2⟩ | h
  · exact aside_V (head_prefix_of_prefix h1 (by omega))
  · exact aside_V ((List.cons_prefix_cons.mpr ⟨rfl, List.nil_prefix⟩ : ["V"] <+: "V" :: rest).trans h)

theorem writes_storeAttrs_xattr (cfg : Cfg) (hs : cfg.sidecar = false) (r : Ref) (obj : Path) (kvs : List (String × Val)) (fs : FS) :
    WritesIn (fun q => q ∈ r.paths) (storeAttrs cfg fs r obj kvs) := by
  induction kvs generalizing fs with
  | nil => unfold storeAttrs; exact WritesIn.nil _
  | cons kv rest ih =>
    obtain ⟨a, v⟩ := kv
    unfold storeAttrs
    refine WritesIn.append ?_ (ih _)
    unfold storeAttr
    simp only [hs, Bool.false_eq_true, ↓reduceIte]
    intro s hs' q hq
    simp only [List.mem_singleton] at hs'; subst hs'
    simpa [Step.writes] using hq

theorem deleteAttrs_xattr (cfg : Cfg) (hs : cfg.sidecar = false) (fs : FS) (obj : Path) : deleteAttrs cfg fs obj = [] := by
  unfold deleteAttrs; simp [hs]

theorem writes_archive_xattr (cfg : Cfg) (hs : cfg.sidecar = false) (rq : Req) (key : Path) (fs : FS) :
    WritesIn (fun q => ["V"] <+: q) (archive cfg rq fs key) := by
  unfold archive
  dsimp only
  split
  · have hvb : verBucket cfg ++ [".sgwtmp"] = "V" :: [cfg.bucket, ".sgwtmp"] := rfl
    have hvp : ∀ vid : String, verDirOf cfg key ++ [vid] = "V" :: (cfg.bucket :: hashDirs key ++ [vid]) := fun _ => rfl
    have hvd : verDirOf cfg key = "V" :: (cfg.bucket :: hashDirs key) := rfl
    have hV : ∀ {q rest : Path}, ((q <+: "V" :: rest ∧ 2 ≤ q.length) ∨ "V" :: rest <+: q) → ["V"] <+: q := by
      intro q rest h
      rcases h with ⟨h1, h2⟩ | h
      · exact head_prefix_of_prefix h1 (by omega)
      · exact (List.cons_prefix_cons.mpr ⟨rfl, List.nil_prefix⟩ : ["V"] <+: "V" :: rest).trans h
    repeat' apply WritesIn.append
    · exact (writes_openTmp cfg fs 1 _ _ _).mono (fun q h => by rw [hvb] at h; exact hV h)
    · intro s hs' q hq
      simp only [List.mem_singleton] at hs'; subst hs'
      have := ref_openTmp cfg fs 1 (verBucket cfg ++ [".sgwtmp"]) _ _ q (by simpa [Step.writes] using hq)
      rw [hvb] at this
      exact hV (Or.inr this)
    · exact (writes_mkdirAll _ _).mono (fun q h => by rw [hvd] at h; exact hV (Or.inl h))
    · refine (writes_storeAttrs_xattr cfg hs _ _ _ _).mono (fun q h => ?_)
      have := ref_openTmp cfg fs 1 (verBucket cfg ++ [".sgwtmp"]) _ _ q h
      rw [hvb] at this
      exact hV (Or.inr this)
    · refine (writes_publishC cfg _ _ _ _ _).mono (fun q h => ?_)
      rcases h with h | h | h | h
      · subst h; rw [hvp]; exact ⟨_, rfl⟩
      · rw [hvp] at h; exact hV (Or.inl h)
      · have := ref_openTmp cfg fs 1 (verBucket cfg ++ [".sgwtmp"]) _ _ q h
        rw [hvb] at this
        exact hV (Or.inr this)
      · subst h; exact ⟨_, rfl⟩
  · exact WritesIn.nil _

theorem writes_deleteNullVersion (cfg : Cfg) (hs : cfg.sidecar = false) (key : Path) (fs : FS) :
    WritesIn (fun q => ["V"] <+: q) (deleteNullVersion cfg fs key) := by
  unfold deleteNullVersion
  dsimp only
  rw [deleteAttrs_xattr cfg hs, List.append_nil]
  refine WritesIn.ite ?_ (WritesIn.nil _)
  intro s hs q hq
  simp only [List.mem_singleton] at hs; subst hs
  simp only [Step.writes, List.mem_singleton] at hq; subst hq
  exact ⟨_, rfl⟩

theorem aside_prePut (cfg : Cfg) (hs : cfg.sidecar = false) (rq : Req) (key : Path) (hk : KeyOK key) (fs : FS) (sp : PutSpec) :
    WritesIn (Aside cfg key) (prePut cfg rq fs key sp) := by
  unfold prePut
  dsimp only
  rw [deleteAttrs_xattr cfg hs]
  repeat' apply WritesIn.append
  · exact (writes_openTmp cfg fs 0 _ _ _).mono (fun q h => aside_near_tmp (List.prefix_refl _) hk h)
  · intro s hs' q hq
    simp only [List.mem_singleton] at hs'; subst hs'
    exact aside_tmp (ref_openTmp cfg fs 0 _ _ _ q (by simpa [Step.writes] using hq))
  · exact WritesIn.ite ((writes_archive_xattr cfg hs rq key _).mono (fun q h => aside_V h)) (WritesIn.nil _)
  · exact (writes_mkdirAll _ _).mono (fun q h => aside_above_obj h.1 hk.1)
  · exact WritesIn.ite ((writes_deleteNullVersion cfg hs key _).mono (fun q h => aside_V h)) (WritesIn.nil _)
  · exact WritesIn.nil _
  · exact (writes_storeAttrs_xattr cfg hs _ _ _ _).mono (fun q h => aside_tmp (ref_openTmp cfg fs 0 _ _ _ q h))

/-! ### publication of a name that does not exist yet: one non-silent step -/

theorem publish_absent (fs : FS) (r : Ref) (obj : Path) (h : fs.get obj = none) :
    publish fs r obj = mkdirAll fs obj.dropLast ++ (match r with
      | .anon id => [.link id obj]
      | .path t => [.chmod (.path t), .rename t obj]) := by
  unfold publish rmAt
  simp only [h, run_nil, List.nil_append]
  cases r <;> rfl

theorem publishC_absent (cfg : Cfg) (fs : FS) (r : Ref) (obj tdir : Path) (name : String) (h : fs.get obj = none) :
    publishC cfg fs r obj tdir name = mkdirAll fs obj.dropLast ++ (match r with
      | .anon id => [.link id obj]
      | .path t => [.chmod (.path t), .rename t obj]) := by
  unfold publishC
  split
  · unfold publishR rmDirAt
    simp only [h, FS.isFile, List.append_nil, Bool.false_eq_true, ↓reduceIte]
    cases r <;> rfl
  · exact publish_absent fs r obj h

theorem countP_final (cfg : Cfg) (key : Path) (r : Ref) :
    (match r with
      | .anon id => [Step.link id (objPath cfg key)]
      | .path t => [Step.chmod (.path t), Step.rename t (objPath cfg key)]).countP (fun s : Step => !s.silent (reads cfg key)) ≤ 1 := by
  cases r with
  | anon id => exact List.countP_le_length
  | path t =>
    show List.countP _ [Step.chmod (Ref.path t), Step.rename t (objPath cfg key)] ≤ 1
    rw [List.countP_cons_of_neg (by simp [Step.silent, Step.writes])]
    exact List.countP_le_length

theorem countP_publish_absent (cfg : Cfg) (key : Path) (hk : KeyOK key) (fs : FS) (r : Ref) (tdir : Path) (name : String)
    (h : fs.get (objPath cfg key) = none) :
    (publishC cfg fs r (objPath cfg key) tdir name).countP (fun s => !s.silent (reads cfg key)) ≤ 1 := by
  rw [publishC_absent cfg fs r _ tdir name h, List.countP_append,
    countP_zero_of_silent (silent_of_aside ((writes_mkdirAll _ _).mono (fun q h => aside_above_obj h.1 hk.1)) hk),
    Nat.zero_add]
  exact countP_final cfg key r

/-- With docs/C11-fix-1.diff (`atomicReplace`) the publication has one non-silent step also when the object exists:
    the new inode gets a name below the temp directory, then ONE rename replaces the object. -/
theorem countP_publishR (cfg : Cfg) (har : cfg.atomicReplace = true) (key : Path) (hk : KeyOK key) (fs : FS) (r : Ref)
    (tdir : Path) (name : String) (htd : tmpDir cfg <+: tdir) (hnd : fs.isDir (objPath cfg key) = false) :
    (publishC cfg fs r (objPath cfg key) tdir name).countP (fun s => !s.silent (reads cfg key)) ≤ 1 := by
  unfold publishC
  simp only [har, ↓reduceIte]
  unfold publishR
  dsimp only
  have hrm : rmDirAt fs (objPath cfg key) = [] := by
    unfold rmDirAt
    unfold FS.isDir at hnd
    split <;> simp_all
  rw [hrm, List.append_nil, List.countP_append,
    countP_zero_of_silent (silent_of_aside ((writes_mkdirAll _ _).mono (fun q h => aside_above_obj h.1 hk.1)) hk),
    Nat.zero_add]
  cases r with
  | path t => exact countP_final cfg key (.path t)
  | anon id =>
    dsimp only
    split
    · have hsil : (Step.link id (tdir ++ [name])).silent (reads cfg key) = true := by
        simp only [Step.silent, Step.writes, List.all_cons, List.all_nil, Bool.and_true, Bool.not_eq_eq_eq_not, Bool.not_true]
        exact aside_not_read (aside_tmp (htd.trans (List.prefix_append _ _))) hk
      rw [List.countP_cons_of_neg (by simp [hsil])]
      exact List.countP_le_length
    · exact List.countP_le_length

theorem get_of_silent (cfg : Cfg) (key : Path) (l : List Step) (fs : FS) (h : ∀ s ∈ l, s.silent (reads cfg key) = true) :
    (run l fs).get (objPath cfg key) = fs.get (objPath cfg key) := by
  rw [← FS.get_restrict (reads cfg key) (run l fs) (reads_obj cfg key), run_restrict _ l fs h,
    FS.get_restrict (reads cfg key) fs (reads_obj cfg key)]

/-- PutObject / CopyObject onto a key that does not exist, nothing written by name afterwards, xattr store. -/
theorem countP_planPutSpec_new (cfg : Cfg) (hs : cfg.sidecar = false) (rq : Req) (key : Path) (hk : KeyOK key) (fs : FS)
    (sp : PutSpec) (hpost : sp.postAttrs = []) (habs : fs.get (objPath cfg key) = none) :
    (planPutSpec cfg rq fs key sp).countP (fun s => !s.silent (reads cfg key)) ≤ 1 := by
  unfold planPutSpec
  dsimp only
  split
  · simp
  · have hpre := silent_of_aside (aside_prePut cfg hs rq key hk fs sp) hk
    have hget : (run (prePut cfg rq fs key sp) fs).get (objPath cfg key) = none := by
      rw [get_of_silent cfg key _ fs hpre, habs]
    rw [hpost]
    have hnil : ∀ fs' : FS, storeAttrs cfg fs' (.path (objPath cfg key)) (objPath cfg key) [] = [] := by
      intro fs'; unfold storeAttrs; rfl
    rw [hnil, List.append_nil, List.countP_append, countP_zero_of_silent hpre, Nat.zero_add]
    exact countP_publish_absent cfg key hk _ _ _ _ hget

/-! ### DeleteObject in an unversioned bucket (xattr store) -/

theorem writes_removeParents_aside (cfg : Cfg) (key : Path) (fs : FS) (rel : Path) (fuel : Nat) (hrel : rel <+: key) :
    WritesIn (Aside cfg key) (removeParents cfg fs (bucketPath cfg) rel fuel) := by
  induction fuel generalizing fs rel with
  | zero => unfold removeParents; exact WritesIn.nil _
  | succ fuel ih =>
    unfold removeParents
    dsimp only
    split
    · exact WritesIn.nil _
    · rename_i hne
      refine WritesIn.ite (WritesIn.nil _) (WritesIn.ite ?_ (WritesIn.nil _))
      have hp : rel.dropLast <+: key := (List.dropLast_prefix rel).trans hrel
      intro s hs q hq
      rcases List.mem_cons.mp hs with rfl | hs
      · simp only [Step.writes, List.mem_singleton] at hq; subst hq
        refine Or.inr (Or.inr ⟨(List.prefix_append_right_inj _).mpr hp, fun he => ?_⟩)
        have h1 : (bucketPath cfg ++ rel.dropLast).length = (objPath cfg key).length := by rw [he]
        have h2 := hrel.length_le
        have h3 : rel ≠ [] := by
          intro h0; apply hne; rw [h0]; rfl
        have h4 : 0 < rel.length := List.length_pos_iff.mpr h3
        simp only [objPath, List.length_append, List.length_dropLast] at h1
        omega
      · exact ih _ _ hp s hs q hq

theorem countP_planDelete_unversioned (cfg : Cfg) (hs : cfg.sidecar = false) (hv : (cfg.verDir && cfg.vstatus != .off) = false)
    (rq : Req) (hk : KeyOK rq.key) (fs : FS) :
    (planDelete cfg rq fs).countP (fun s => !s.silent (reads cfg rq.key)) ≤ 1 := by
  unfold planDelete
  dsimp only
  simp only [hv, Bool.false_eq_true, ↓reduceIte]
  split
  · simp
  · split
    · simp
    · rw [deleteAttrs_xattr cfg hs, List.append_nil, List.countP_append,
        countP_zero_of_silent (silent_of_aside (writes_removeParents_aside cfg rq.key _ _ _ (List.prefix_refl _)) hk)]
      exact List.countP_le_length

/-! ### UploadPart never touches the key's view -/

theorem aside_planUploadPart (cfg : Cfg) (hs : cfg.sidecar = false) (rq : Req) (hk : KeyOK rq.key) (fs : FS) :
    WritesIn (Aside cfg rq.key) (planUploadPart cfg rq fs) := by
  unfold planUploadPart
  dsimp only
  refine WritesIn.ite (WritesIn.nil _) ?_
  have hod := tmpDir_prefix_mpObjDir cfg rq.key
  have hpart : mpDir cfg rq.key rq.upload ++ [rq.partNo] = tmpDir cfg ++ (["multipart", keyHash rq.key, rq.upload, rq.partNo]) := rfl
  have hpp : tmpDir cfg <+: mpDir cfg rq.key rq.upload ++ [rq.partNo] := hpart ▸ List.prefix_append _ _
  apply WritesIn.append
  · unfold preUploadPart
    dsimp only
    repeat' apply WritesIn.append
    · exact (writes_openTmp cfg fs 0 _ _ _).mono (fun q h => aside_near_tmp hod hk h)
    · intro s hs' q hq
      simp only [List.mem_singleton] at hs'; subst hs'
      exact aside_tmp (hod.trans (ref_openTmp cfg fs 0 _ _ _ q (by simpa [Step.writes] using hq)))
    · unfold storeAttr
      simp only [hs, Bool.false_eq_true, ↓reduceIte]
      intro s hs' q hq
      simp only [List.mem_singleton] at hs'; subst hs'
      exact aside_tmp (hod.trans (ref_openTmp cfg fs 0 _ _ _ q (by simpa [Step.writes] using hq)))
  · refine (writes_publishC cfg _ _ _ _ _).mono (fun q h => ?_)
    rcases h with h | h | h | h
    · exact aside_tmp (h ▸ hpp)
    · exact aside_near_tmp hpp hk (Or.inl h)
    · exact aside_tmp (hod.trans (ref_openTmp cfg fs 0 _ _ _ q h))
    · exact aside_tmp (h ▸ List.prefix_append _ _)

/-! ### CompleteMultipartUpload onto a key that does not exist (xattr store) -/

theorem aside_preComplete (cfg : Cfg) (hs : cfg.sidecar = false) (rq : Req) (hk : KeyOK rq.key) (fs : FS) :
    WritesIn (Aside cfg rq.key) (preComplete cfg rq fs) := by
  unfold preComplete
  dsimp only
  have hstore : ∀ (fs' : FS) (kvs : List (String × Val)),
      WritesIn (Aside cfg rq.key) (storeAttrs cfg fs' (openTmp cfg fs 0 (tmpDir cfg) false rq.tmp).1 (objPath cfg rq.key) kvs) :=
    fun fs' kvs => (writes_storeAttrs_xattr cfg hs _ _ _ _).mono (fun q h => aside_tmp (ref_openTmp cfg fs 0 _ _ _ q h))
  repeat' apply WritesIn.append
  · exact (writes_openTmp cfg fs 0 _ _ _).mono (fun q h => aside_near_tmp (List.prefix_refl _) hk h)
  · intro s hs' q hq
    simp only [List.mem_singleton] at hs'; subst hs'
    exact aside_tmp (ref_openTmp cfg fs 0 _ _ _ q (by simpa [Step.writes] using hq))
  · exact (writes_mkdirAll _ _).mono (fun q h => aside_above_obj h.1 hk.1)
  · exact WritesIn.ite ((writes_archive_xattr cfg hs rq rq.key _).mono (fun q h => aside_V h)) (WritesIn.nil _)
  · rw [deleteAttrs_xattr cfg hs]; exact WritesIn.nil _
  · exact hstore _ _

theorem aside_cleanupUpload (cfg : Cfg) (rq : Req) (fs : FS) : WritesIn (Aside cfg rq.key) (cleanupUpload cfg rq fs) := by
  unfold cleanupUpload
  dsimp only
  repeat' apply WritesIn.append
  · intro s hs q hq
    simp only [List.mem_map] at hs
    obtain ⟨e, he, rfl⟩ := hs
    simp only [Step.writes, List.mem_singleton] at hq; subst hq
    exact aside_tmp ((tmpDir_prefix_mpDir cfg rq.key rq.upload).trans (prefix_of_mem_children he))
  · intro s hs q hq
    simp only [List.mem_singleton] at hs; subst hs
    simp only [Step.writes, List.mem_singleton] at hq; subst hq
    exact aside_tmp (tmpDir_prefix_mpDir cfg rq.key rq.upload)
  · refine WritesIn.ite ?_ (WritesIn.nil _)
    intro s hs q hq
    simp only [List.mem_singleton] at hs; subst hs
    simp only [Step.writes, List.mem_singleton] at hq; subst hq
    exact aside_tmp (tmpDir_prefix_mpObjDir cfg rq.key)

theorem countP_planComplete_new (cfg : Cfg) (hs : cfg.sidecar = false) (rq : Req) (hk : KeyOK rq.key) (fs : FS)
    (habs : fs.get (objPath cfg rq.key) = none) :
    (planComplete cfg rq fs).countP (fun s => !s.silent (reads cfg rq.key)) ≤ 1 := by
  unfold planComplete
  dsimp only
  split
  · simp
  · split
    · simp
    · have hpre := silent_of_aside (aside_preComplete cfg hs rq hk fs) hk
      have hget : (run (preComplete cfg rq fs) fs).get (objPath cfg rq.key) = none := by
        rw [get_of_silent cfg rq.key _ fs hpre, habs]
      rw [List.countP_append, List.countP_append, countP_zero_of_silent hpre, Nat.zero_add,
        countP_zero_of_silent (silent_of_aside (aside_cleanupUpload cfg rq _) hk), Nat.add_zero]
      exact countP_publish_absent cfg rq.key hk _ _ _ _ hget

/-! ### with docs/C11-fix-1.diff: overwrites are atomic as well -/

theorem countP_planPutSpec_fixed (cfg : Cfg) (hs : cfg.sidecar = false) (har : cfg.atomicReplace = true) (rq : Req) (key : Path)
    (hk : KeyOK key) (fs : FS) (sp : PutSpec) (hpost : sp.postAttrs = []) :
    (planPutSpec cfg rq fs key sp).countP (fun s => !s.silent (reads cfg key)) ≤ 1 := by
  unfold planPutSpec
  dsimp only
  split
  · simp
  · rename_i hc
    have hpre := silent_of_aside (aside_prePut cfg hs rq key hk fs sp) hk
    have hnd : (run (prePut cfg rq fs key sp) fs).isDir (objPath cfg key) = false := by
      unfold FS.isDir
      rw [get_of_silent cfg key _ fs hpre]
      simp only [Bool.or_eq_true, Bool.not_eq_eq_eq_not, Bool.not_true, not_or, Bool.not_eq_true] at hc
      have := hc.2
      unfold FS.isDir at this
      exact this
    rw [hpost]
    have hnil : ∀ fs' : FS, storeAttrs cfg fs' (.path (objPath cfg key)) (objPath cfg key) [] = [] := by
      intro fs'; unfold storeAttrs; rfl
    rw [hnil, List.append_nil, List.countP_append, countP_zero_of_silent hpre, Nat.zero_add]
    exact countP_publishR cfg har key hk _ _ _ _ (List.prefix_refl _) hnd

theorem countP_planComplete_fixed (cfg : Cfg) (hs : cfg.sidecar = false) (har : cfg.atomicReplace = true) (rq : Req)
    (hk : KeyOK rq.key) (fs : FS) :
    (planComplete cfg rq fs).countP (fun s => !s.silent (reads cfg rq.key)) ≤ 1 := by
  unfold planComplete
  dsimp only
  split
  · simp
  · rename_i hc
    split
    · simp
    · have hpre := silent_of_aside (aside_preComplete cfg hs rq hk fs) hk
      have hnd : (run (preComplete cfg rq fs) fs).isDir (objPath cfg rq.key) = false := by
        unfold FS.isDir
        rw [get_of_silent cfg rq.key _ fs hpre]
        simp only [Bool.or_eq_true, Bool.not_eq_eq_eq_not, Bool.not_true, not_or, Bool.not_eq_true] at hc
        have := hc.2
        unfold FS.isDir at this
        exact this
      rw [List.countP_append, List.countP_append, countP_zero_of_silent hpre, Nat.zero_add,
        countP_zero_of_silent (silent_of_aside (aside_cleanupUpload cfg rq _) hk), Nat.add_zero]
      exact countP_publishR cfg har rq.key hk _ _ _ _ (List.prefix_refl _) hnd

end Vgw.Model.Crash
