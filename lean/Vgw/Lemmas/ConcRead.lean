/-
  Lemmas about Model.Conc, part 2: what readers see — the opened file is one published inode, views
  are only ever the key's current entry (the newest inode), the inode table only grows.
-/
import Vgw.Lemmas.Conc
namespace Vgw.Model.Conc

theorem Reach.trans {c : Cfg} {s0 s1 s2 : State} (h1 : Reach c s0 s1) (h2 : Reach c s1 s2) : Reach c s0 s2 := by
  induction h2 with
  | refl => exact h1
  | step _ hs ih => exact Reach.step ih hs

theorem readAct_views (t : Option Inode) (l : Local) (a : Act) : (readAct t l a).views = l.views := by
  cases a <;> simp only [readAct] <;> (repeat' split) <;> simp [fail]

theorem readAct_fd (t : Option Inode) (l : Local) (a : Act) : (readAct t l a).fd = l.fd := by
  cases a <;> simp only [readAct] <;> (repeat' split) <;> simp [fail]

theorem readAct_body (t : Option Inode) (l : Local) (a : Act) : (readAct t l a).acc.body = l.acc.body := by
  cases a <;> simp only [readAct] <;> (repeat' split) <;> simp [fail]

/-- every step records the key's current directory entry in the request's views. -/
theorem execAct_views (c : Cfg) (rq : Req) (fs : FS) (l : Local) (a : Act) :
    (execAct c rq fs l a).2.views = fs.key :: l.views := by
  cases a <;> simp only [execAct] <;> (try split) <;> simp [fail, readAct_views]

theorem execAct_body (c : Cfg) (rq : Req) (fs : FS) (l : Local) (a : Act) :
    (execAct c rq fs l a).2.acc.body = l.acc.body := by
  cases a <;> simp only [execAct] <;> (try split) <;> simp [fail, readAct_body]

/-- the open binds the key's current entry; nothing else changes the descriptor. -/
theorem execAct_fd (c : Cfg) (rq : Req) (fs : FS) (l : Local) (a : Act) :
    (execAct c rq fs l a).2.fd = l.fd ∨ (a = .ropen ∧ (execAct c rq fs l a).2.fd = fs.key ∧ fs.key ≠ none) := by
  cases a <;> simp only [execAct] <;> (try split) <;> simp_all [fail, readAct_fd]

theorem readAct_result (t : Option Inode) (l : Local) (a : Act) :
    (readAct t l a).result = l.result ∨ (readAct t l a).result = some .noSuchKey := by
  cases a <;> simp only [readAct] <;> (repeat' split) <;> simp [fail]

/-- a step itself never produces a read answer (that is `finalize`'s job). -/
theorem execAct_result (c : Cfg) (rq : Req) (fs : FS) (l : Local) (a : Act) :
    (execAct c rq fs l a).2.result = l.result ∨ ∃ r, (execAct c rq fs l a).2.result = some r ∧ ∀ x, r ≠ .read x := by
  have rd : ∀ (t : Option Inode) (l' : Local) (b : Act), l'.result = l.result →
      (readAct t l' b).result = l.result ∨ ∃ r, (readAct t l' b).result = some r ∧ ∀ x, r ≠ .read x := by
    intro t l' b hl
    rcases readAct_result t l' b with h | h
    · left; rw [h, hl]
    · right; exact ⟨.noSuchKey, h, by intro x hx; cases hx⟩
  cases a with
  | cstat => simp only [execAct]; split
             · right; exact ⟨.err, rfl, by intro x hx; cases hx⟩
             · left; rfl
  | dstat => simp only [execAct]; split
             · right; exact ⟨.ok, rfl, by intro x hx; cases hx⟩
             · left; rfl
  | dunlink => simp only [execAct]; split
               · left; rfl
               · right; exact ⟨.noSuchKey, rfl, by intro x hx; cases hx⟩
  | ropen => simp only [execAct]; split
             · right; exact ⟨.noSuchKey, rfl, by intro x hx; cases hx⟩
             · left; rfl
  | unlink => simp only [execAct]; split <;> (left; rfl)
  | linkat => simp only [execAct]; split <;> (left; rfl)
  | linkatx => simp only [execAct]; split <;> (left; rfl)
  | rstat => simp only [execAct]; exact rd _ _ _ rfl
  | listsize => simp only [execAct]; exact rd _ _ _ rfl
  | listnames => simp only [execAct]; exact rd _ _ _ rfl
  | getmeta k => simp only [execAct]; exact rd _ _ _ rfl
  | gethdr x => simp only [execAct]; exact rd _ _ _ rfl
  | getetag => simp only [execAct]; exact rd _ _ _ rfl
  | gettags => simp only [execAct]; exact rd _ _ _ rfl
  | _ => left; rfl

theorem execAct_inodes_mono (c : Cfg) (rq : Req) (fs : FS) (l : Local) (a : Act) :
    ∃ ext, (execAct c rq fs l a).1.inodes = fs.inodes ++ ext := by
  rcases execAct_fs c rq fs l a with e | e | ⟨_, e⟩
  · exact ⟨[], by rw [e]; simp⟩
  · exact ⟨[], by rw [e]; simp⟩
  · exact ⟨[l.tmp], by rw [e]⟩

theorem step_inodes_mono {c : Cfg} {s s' : State} {i : Nat} (h : step c s i = some s') :
    ∃ ext, s'.fs.inodes = s.fs.inodes ++ ext := by
  obtain ⟨rq, l, a, rest, _, _, hfs, _, _⟩ := step_spec h
  rw [hfs]; exact execAct_inodes_mono ..

theorem reach_inodes_mono {c : Cfg} {s s' : State} (h : Reach c s s') : ∃ ext, s'.fs.inodes = s.fs.inodes ++ ext := by
  induction h with
  | refl => exact ⟨[], by simp⟩
  | step _ hs ih =>
    obtain ⟨e1, h1⟩ := ih
    obtain ⟨e2, h2⟩ := step_inodes_mono hs
    exact ⟨e1 ++ e2, by rw [h2, h1, List.append_assoc]⟩

/-! ### answers: the body is the data of one published inode -/

def BodyInv (s : State) : Prop :=
  ∀ p ∈ s.reqs, p.2.acc.body = none ∧
    ∀ r b, p.2.result = some (.read r) → r.body = some b → ∃ ino ∈ s.fs.inodes, b = ino.data

theorem finalize_body (rq : Req) (fs : FS) (l : Local) (hacc : l.acc.body = none)
    (hres : ∀ r b, l.result = some (.read r) → r.body = some b → ∃ ino ∈ fs.inodes, b = ino.data) :
    (finalize rq fs l).acc.body = none ∧
    ∀ r b, (finalize rq fs l).result = some (.read r) → r.body = some b → ∃ ino ∈ fs.inodes, b = ino.data := by
  unfold finalize
  split
  · split
    · refine ⟨hacc, ?_⟩
      intro r b hr hb
      simp only [Option.some.injEq, Resp.read.injEq] at hr
      subst hr
      simp only [Option.map_eq_some_iff] at hb
      obtain ⟨ino, hi, rfl⟩ := hb
      cases hfd : l.fd with
      | none => simp [hfd] at hi
      | some k =>
        simp only [hfd, Option.bind_some] at hi
        exact ⟨ino, List.mem_of_getElem? hi, rfl⟩
    · refine ⟨hacc, ?_⟩
      intro r b hr hb
      simp only [Option.some.injEq, Resp.read.injEq] at hr
      subst hr
      rw [hacc] at hb; cases hb
    · refine ⟨hacc, ?_⟩
      intro r b hr; cases hr
  · exact ⟨hacc, hres⟩

theorem BodyInv_init (c : Cfg) (fs0 : FS) (rqs : List Req) : BodyInv (init c fs0 rqs) := by
  intro p hp
  simp only [init, List.mem_map] at hp
  obtain ⟨rq, _, rfl⟩ := hp
  exact ⟨rfl, by intro r b h; cases h⟩

theorem BodyInv_step {c : Cfg} {s s' : State} {i : Nat} (g : BodyInv s) (h : step c s i = some s') : BodyInv s' := by
  obtain ⟨rq, l, a, rest, hr, hp, hfs, hreqs, _⟩ := step_spec h
  obtain ⟨ext, hext⟩ := step_inodes_mono h
  have hmem : (rq, l) ∈ s.reqs := List.mem_of_getElem? hr
  intro p hpm
  rw [hreqs] at hpm
  rcases List.mem_or_eq_of_mem_set hpm with hold | rfl
  · obtain ⟨h1, h2⟩ := g p hold
    refine ⟨h1, ?_⟩
    intro r b hr hb
    obtain ⟨ino, hi, e⟩ := h2 r b hr hb
    exact ⟨ino, by rw [hext]; exact List.mem_append_left _ hi, e⟩
  · obtain ⟨h1, h2⟩ := g _ hmem
    apply finalize_body
    · rw [execAct_body]; exact h1
    · intro r b hr hb
      rcases execAct_result c rq s.fs { l with prog := rest } a with e | ⟨r', e, hne⟩
      · rw [e] at hr
        obtain ⟨ino, hi, e⟩ := h2 r b hr hb
        exact ⟨ino, by rw [hext]; exact List.mem_append_left _ hi, e⟩
      · rw [e] at hr; simp only [Option.some.injEq] at hr; exact absurd hr (hne r)

theorem BodyInv_reach {c : Cfg} {fs0 : FS} {rqs : List Req} {s : State} (h : Reach c (init c fs0 rqs) s) : BodyInv s := by
  induction h with
  | refl => exact BodyInv_init c fs0 rqs
  | step _ hs ih => exact BodyInv_step ih hs


/-! ### freshness: a reader only ever sees the key's current entry, which is the newest inode -/

def FreshInv (n0 i : Nat) (s : State) : Prop :=
  n0 ≤ s.fs.inodes.length ∧ ∀ rq l, s.reqs[i]? = some (rq, l) → ∀ v, some v ∈ l.views → n0 ≤ v + 1

theorem FreshInv_step {c : Cfg} {s s' : State} {n0 i j : Nat} (hk : KeyLast s.fs) (g : FreshInv n0 i s)
    (h : step c s j = some s') : FreshInv n0 i s' := by
  obtain ⟨rq, l, a, rest, hr, hp, hfs, hreqs, _⟩ := step_spec h
  obtain ⟨ext, hext⟩ := step_inodes_mono h
  refine ⟨by rw [hext, List.length_append]; have := g.1; omega, ?_⟩
  intro rq' l' hi v hv
  rw [hreqs] at hi
  by_cases hji : j = i
  · subst hji
    have hlt : j < s.reqs.length := (List.getElem?_eq_some_iff.1 hr).1
    rw [List.getElem?_set_self hlt] at hi
    simp only [Option.some.injEq, Prod.mk.injEq] at hi
    obtain ⟨rfl, rfl⟩ := hi
    rw [finalize_views, execAct_views] at hv
    simp only [List.mem_cons] at hv
    rcases hv with hv | hv
    · have := hk v hv.symm; have := g.1; omega
    · exact g.2 rq l hr v hv
  · rw [List.getElem?_set_ne hji] at hi
    exact g.2 rq' l' hi v hv

/-! ### what a step can put into the program -/

theorem readAct_prog_sub (t : Option Inode) (l : Local) (a : Act) :
    ∀ b ∈ (readAct t l a).prog, b ∈ l.prog ∨ (a = .listnames ∧ ∃ k, b = .getmeta k) := by
  intro b hb
  rcases (readAct_shape t l a).2 with h | h | h | ⟨ha, ks, h⟩
  · rw [h] at hb; cases hb
  · rw [h] at hb; exact Or.inl hb
  · rw [h, dropMeta_eq] at hb; exact Or.inl (List.mem_filter.1 hb).1
  · rw [h] at hb
    rcases List.mem_append.1 hb with hm | hm
    · obtain ⟨k, _, rfl⟩ := List.mem_map.1 hm
      exact Or.inr ⟨ha, k, rfl⟩
    · exact Or.inl hm

/-- the acts a step can leave in the program: the rest of it, and the insertions of `os.Remove`
    (rmdir probe), of the EEXIST retry of `linkat`, and of the listing (one getxattr per name). -/
theorem execAct_prog_sub (c : Cfg) (rq : Req) (fs : FS) (l : Local) (a : Act) :
    ∀ b ∈ (execAct c rq fs l a).2.prog,
      b ∈ l.prog ∨ (b = .rmdirProbe ∧ (a = .unlink ∨ a = .dunlink)) ∨ (a = .linkat ∧ (b = .unlink ∨ b = .linkat)) ∨
      (a = .listnames ∧ ∃ k, b = .getmeta k) ∨ (a = .linkatx ∧ (b = .linktmp ∨ b = .lstat ∨ b = .rename)) := by
  intro b hb
  have rd : ∀ (t : Option Inode) (l' : Local) (x : Act), l'.prog = l.prog → b ∈ (readAct t l' x).prog →
      b ∈ l.prog ∨ (x = .listnames ∧ ∃ k, b = .getmeta k) := by
    intro t l' x hl hx
    have := readAct_prog_sub t l' x b hx
    rwa [hl] at this
  cases a with
  | unlink => simp only [execAct] at hb; split at hb
              · exact Or.inl hb
              · simp only [List.mem_cons] at hb; rcases hb with rfl | hb
                · exact Or.inr (Or.inl ⟨rfl, Or.inl rfl⟩)
                · exact Or.inl hb
  | linkat => simp only [execAct] at hb; split at hb
              · exact Or.inl hb
              · simp only [List.mem_cons] at hb; rcases hb with rfl | rfl | hb
                · exact Or.inr (Or.inr (Or.inl ⟨rfl, Or.inl rfl⟩))
                · exact Or.inr (Or.inr (Or.inl ⟨rfl, Or.inr rfl⟩))
                · exact Or.inl hb
  | linkatx => simp only [execAct] at hb; split at hb
               · exact Or.inl hb
               · simp only [List.mem_cons] at hb; rcases hb with rfl | rfl | rfl | hb
                 · exact Or.inr (Or.inr (Or.inr (Or.inr ⟨rfl, Or.inl rfl⟩)))
                 · exact Or.inr (Or.inr (Or.inr (Or.inr ⟨rfl, Or.inr (Or.inl rfl)⟩)))
                 · exact Or.inr (Or.inr (Or.inr (Or.inr ⟨rfl, Or.inr (Or.inr rfl)⟩)))
                 · exact Or.inl hb
  | cstat => simp only [execAct] at hb; split at hb
             · cases hb
             · exact Or.inl hb
  | dstat => simp only [execAct] at hb; split at hb
             · cases hb
             · exact Or.inl hb
  | dunlink => simp only [execAct] at hb; split at hb
               · exact Or.inl hb
               · simp only [List.mem_cons, List.not_mem_nil, or_false] at hb; exact Or.inr (Or.inl ⟨hb, Or.inr rfl⟩)
  | ropen => simp only [execAct] at hb; split at hb
             · simp [fail] at hb
             · exact Or.inl hb
  | rstat => simp only [execAct] at hb; rcases rd _ { l with views := fs.key :: l.views } _ rfl hb with h | ⟨h, _⟩
             · exact Or.inl h
             · cases h
  | listsize => simp only [execAct] at hb; rcases rd _ { l with views := fs.key :: l.views } _ rfl hb with h | ⟨h, _⟩
                · exact Or.inl h
                · cases h
  | listnames => simp only [execAct] at hb; rcases rd _ { l with views := fs.key :: l.views } _ rfl hb with h | h
                 · exact Or.inl h
                 · exact Or.inr (Or.inr (Or.inr (Or.inl h)))
  | getmeta k => simp only [execAct] at hb; rcases rd _ { l with views := fs.key :: l.views } _ rfl hb with h | ⟨h, _⟩
                 · exact Or.inl h
                 · cases h
  | gethdr x => simp only [execAct] at hb; rcases rd _ { l with views := fs.key :: l.views } _ rfl hb with h | ⟨h, _⟩
                · exact Or.inl h
                · cases h
  | getetag => simp only [execAct] at hb; rcases rd _ { l with views := fs.key :: l.views } _ rfl hb with h | ⟨h, _⟩
               · exact Or.inl h
               · cases h
  | gettags => simp only [execAct] at hb; rcases rd _ { l with views := fs.key :: l.views } _ rfl hb with h | ⟨h, _⟩
               · exact Or.inl h
               · cases h
  | _ => exact Or.inl hb


/-! ### never missing (for the strategies that publish by rename only) -/

def Act.isReadAct : Act → Bool
  | .rstat | .listsize | .listnames | .getmeta _ | .gethdr _ | .getetag | .gettags | .ropen | .statign => true
  | _ => false

/-- steps that can take the key's directory entry away. -/
def Act.removes : Act → Bool
  | .unlink | .dunlink | .linkat => true
  | _ => false

theorem execAct_key_none (c : Cfg) (rq : Req) (fs : FS) (l : Local) (a : Act)
    (h : (execAct c rq fs l a).1.key = none) : fs.key = none ∨ a.removes = true := by
  cases a <;> simp only [execAct] at h <;> (try split at h) <;> simp_all [Act.removes]

theorem readAct_some_result (ino : Inode) (l : Local) (a : Act) : (readAct (some ino) l a).result = l.result := by
  cases a <;> simp only [readAct] <;> (repeat' split) <;> simp

structure NMInv (c : Cfg) (s : State) : Prop where
  key : s.fs.key ≠ none
  norem : ∀ p ∈ s.reqs, ∀ a ∈ p.2.prog, a.removes = false
  rd : ∀ p ∈ s.reqs, p.1.kind.isRead = true →
        (∀ a ∈ p.2.prog, a.isReadAct = true) ∧ p.2.result ≠ some .noSuchKey ∧
        (c.rmode = .byFd → p.2.prog = program c p.1 ∨ ∃ k, p.2.fd = some k ∧ k < s.fs.inodes.length)

/-- the publication strategies that never take the name away: the code as it is (`otmp`, `mktemp`)
    and the non-Linux build (`portable`). -/
def renameOnlyStrat (st : Strategy) : Prop := st = .otmp ∨ st = .mktemp ∨ st = .portable

theorem program_norem (c : Cfg) (rq : Req) (hs : renameOnlyStrat c.strat) (hd : rq.kind ≠ .delete) :
    ∀ a ∈ program c rq, a.removes = false := by
  intro a ha
  have hpub : ∀ x ∈ publishProg c.strat, x.removes = false := by
    rcases hs with h | h | h <;> rw [h] <;> simp [publishProg, Act.removes]
  have hset : ∀ (l : List (Attr × Val)), ∀ x ∈ setProg l, x.removes = false := by
    intro l x hx; simp only [setProg, List.mem_map] at hx; obtain ⟨_, _, rfl⟩ := hx; rfl
  cases hk : rq.kind with
  | delete => exact absurd hk hd
  | put =>
    simp only [program, hk, List.mem_append, List.mem_cons, List.not_mem_nil, or_false] at ha
    rcases ha with (((rfl | rfl) | h) | h)
    · rfl
    · rfl
    · exact hset _ a h
    · exact hpub a h
  | copy =>
    simp only [program, hk, List.mem_append, List.mem_cons, List.not_mem_nil, or_false] at ha
    rcases ha with ((((rfl | rfl) | h) | h) | rfl)
    · rfl
    · rfl
    · exact hset _ a h
    · exact hpub a h
    · rfl
  | mpu =>
    simp only [program, hk, List.mem_append, List.mem_cons, List.not_mem_nil, or_false] at ha
    rcases ha with ((((rfl | rfl) | h) | h) | h)
    · rfl
    · rfl
    · exact hset _ a h
    · exact hset _ a h
    · exact hpub a h
  | get =>
    have : (program c rq).all (fun x => !x.removes) = true := by
      cases hm : c.rmode <;> simp only [program, hk, hm] <;> rfl
    have := List.all_eq_true.1 this a ha; simpa using this
  | head =>
    have : (program c rq).all (fun x => !x.removes) = true := by
      cases hm : c.rmode <;> simp only [program, hk, hm] <;> rfl
    have := List.all_eq_true.1 this a ha; simpa using this

theorem program_readActs (c : Cfg) (rq : Req) (hr : rq.kind.isRead = true) : ∀ a ∈ program c rq, a.isReadAct = true := by
  intro a ha
  have : (program c rq).all Act.isReadAct = true := by
    cases hk : rq.kind <;> simp [hk, Kind.isRead] at hr <;>
      (cases hm : c.rmode <;> simp only [program, hk, hm] <;> rfl)
  exact List.all_eq_true.1 this a ha

end Vgw.Model.Conc
