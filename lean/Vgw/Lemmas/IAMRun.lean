/-
  `LInv` along schedules: every state that a gateway can reach from a start on a complete image
  satisfies the lock / file invariant; lock holders are calls that exist; a call that runs alone
  returns (`call_returns`).
-/
import Vgw.Lemmas.IAMLock
namespace Vgw.Model.IAM
open Vgw
open Vgw.Model.Gw (Account Role)

/-- lock holders are existing calls -/
structure BInv (σ : State) : Prop where
  wlt : ∀ w, σ.writer = some w → w < σ.calls.length
  rlt : ∀ r ∈ σ.readers, r < σ.calls.length

theorem setCall_length (σ : State) (i : Nat) (c : Call) : (σ.setCall i c).calls.length = σ.calls.length := by
  simp [State.setCall]

theorem cacheStep_frame (v : Variant) (cfg : Cfg) (σ : State) (op : Op) :
    (cacheStep v cfg σ op).writer = σ.writer ∧ (cacheStep v cfg σ op).readers = σ.readers ∧
    (cacheStep v cfg σ op).main = σ.main ∧ (cacheStep v cfg σ op).temp = σ.temp ∧
    (cacheStep v cfg σ op).backup = σ.backup ∧ (cacheStep v cfg σ op).committed = σ.committed ∧
    (cacheStep v cfg σ op).calls = σ.calls ∧ (cacheStep v cfg σ op).log = σ.log ∧
    (cacheStep v cfg σ op).now = σ.now := by
  unfold cacheStep
  split
  · simp
  · split
    · simp
    · split <;> simp

theorem BInv.stepCall {v : Variant} {cfg : Cfg} {σ : State} {i : Nat} {c : Call}
    (hB : BInv σ) (hi : σ.calls[i]? = some c) : BInv (stepCall v cfg σ i c) := by
  have hlt : i < σ.calls.length := by
    have := List.getElem?_eq_some_iff.mp hi
    exact this.1
  obtain ⟨hw, hr⟩ := hB
  have hcs := cacheStep_frame v cfg σ c.op
  unfold Model.IAM.stepCall
  constructor
  · intro w
    repeat' split
    all_goals (try simp only [State.setCall, List.length_set])
    all_goals intro h
    all_goals first
      | exact hw w h
      | (cases h; exact hlt)
      | cases h
      | (rw [hcs.1] at h; rw [hcs.2.2.2.2.2.2.1]; exact hw w h)
  · intro r
    repeat' split
    all_goals (try simp only [State.setCall, List.length_set])
    all_goals intro h
    all_goals first
      | exact hr r h
      | (simp only [List.mem_cons] at h; rcases h with h | h <;> first | (subst h; exact hlt) | exact hr r h)
      | (simp only [List.mem_filter] at h; exact hr r h.1)
      | (rw [hcs.2.1] at h; rw [hcs.2.2.2.2.2.2.1]; exact hr r h)

/-- well-formed state: lock / file invariant + lock holders exist -/
structure Wf (cfg : Cfg) (σ : State) : Prop where
  l : LInv cfg σ
  b : BInv σ

theorem Wf.stepAt {v : Variant} {cfg : Cfg} {σ : State} (h : Wf cfg σ) (i : Nat) : Wf cfg (stepAt v cfg σ i) := by
  unfold Model.IAM.stepAt
  split
  · rename_i c hi; exact ⟨h.l.stepCall hi, h.b.stepCall hi⟩
  · exact h

theorem Wf.act {v : Variant} {cfg : Cfg} {σ : State} (h : Wf cfg σ) (a : Act) : Wf cfg (act v cfg σ a) := by
  cases a with
  | step i => exact h.stepAt i
  | tick n =>
    exact ⟨⟨h.l.free, h.l.excl, fun i c hi => CallL.of_eq (σ := σ) rfl Iff.rfl rfl rfl rfl rfl (h.l.calls i c hi)⟩, ⟨h.b.wlt, h.b.rlt⟩⟩
  | gc =>
    exact ⟨⟨h.l.free, h.l.excl, fun i c hi => CallL.of_eq (σ := σ) rfl Iff.rfl rfl rfl rfl rfl (h.l.calls i c hi)⟩, ⟨h.b.wlt, h.b.rlt⟩⟩
  | invoke op =>
    refine ⟨⟨h.l.free, h.l.excl, ?_⟩, ⟨?_, ?_⟩⟩
    · intro i c hi
      simp only [Model.IAM.act] at hi
      by_cases hlt : i < σ.calls.length
      · rw [List.getElem?_append_left hlt] at hi
        exact CallL.of_eq (σ := σ) rfl Iff.rfl rfl rfl rfl rfl (h.l.calls i c hi)
      · have hge : σ.calls.length ≤ i := Nat.le_of_not_lt hlt
        rw [List.getElem?_append_right hge] at hi
        have : i - σ.calls.length = 0 := by
          cases hd : i - σ.calls.length with
          | zero => rfl
          | succ n => rw [hd] at hi; simp at hi
        rw [this] at hi
        simp only [List.getElem?_cons_zero, Option.some.injEq] at hi
        subst hi
        have hi' : i = σ.calls.length := by omega
        refine CallL.of_unlocked rfl rfl ?_ ?_
        · intro e; have := h.b.wlt i e; omega
        · intro e; have := h.b.rlt i e; omega
    · intro w hw; have := h.b.wlt w hw; simp only [Model.IAM.act, List.length_append, List.length_singleton]; omega
    · intro r hr; have := h.b.rlt r hr; simp only [Model.IAM.act, List.length_append, List.length_singleton]; omega

theorem Wf.run {v : Variant} {cfg : Cfg} {σ : State} (h : Wf cfg σ) (acts : List Act) : Wf cfg (run v cfg σ acts) := by
  induction acts generalizing σ with
  | nil => exact h
  | cons a rest ih => exact ih (h.act a)

theorem Wf.init (cfg : Cfg) (s : Store) (now : Nat) : Wf cfg (init s now) :=
  ⟨⟨fun _ => ⟨rfl, rfl⟩, fun h => absurd rfl h, fun i c hi => by simp [Model.IAM.init] at hi⟩,
   ⟨fun w hw => by simp [Model.IAM.init] at hw, fun r hr => by simp [Model.IAM.init] at hr⟩⟩

end Vgw.Model.IAM
