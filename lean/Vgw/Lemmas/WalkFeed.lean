/-
  (L3) Closed form of the fold of the callback's state updates: with `max = N ≥ 1`, starting from
  the empty state, the result holds the first `N` emissions, `truncated` iff there are more, and
  `newMarker` = the marker recorded with the N-th emission.
-/
import Vgw.Lemmas.Walk
namespace Vgw.Model.Walk
open Vgw

/-- what an invocation adds to the listing -/
inductive Em where
  | obj (o : Obj) (mk : Bytes)
  | cp (name : Bytes)
  deriving Repr, DecidableEq

def Act.em? : Act → Option Em
  | .obj o mk _ => some (.obj o mk)
  | .cp n _ => some (.cp n)
  | _ => none

def Em.mk : Em → Bytes
  | .obj _ mk => mk
  | .cp n => n

def emObjs (l : List Em) : List Obj := l.filterMap fun | .obj o _ => some o | .cp _ => none
def emCps (l : List Em) : List Bytes := l.filterMap fun | .obj _ _ => none | .cp n => some n
def lastMk (l : List Em) : Bytes := (l.getLast?.map Em.mk).getD []

def ems (acts : List Act) : List Em := acts.filterMap Act.em?

def stepA (c : Cfg) (s : St) (a : Act) : St := if s.truncated then s else (apply c s a).1
def runA (c : Cfg) (s : St) (acts : List Act) : St := acts.foldl (stepA c) s

theorem run0_eq_runA (c : Cfg) (s : St) (evs : List Ev) : run0 c s evs = runA c s (evs.map (act0 c)) := by
  unfold run0 runA
  rw [List.foldl_map]
  rfl

theorem runA_cons (c : Cfg) (s : St) (a : Act) (l : List Act) : runA c s (a :: l) = runA c (stepA c s a) l := rfl

theorem runA_truncated (c : Cfg) : ∀ (l : List Act) (s : St), s.truncated = true → runA c s l = s
  | [], _, _ => rfl
  | a :: l, s, h => by
    rw [runA_cons]
    have : stepA c s a = s := by simp [stepA, h]
    rw [this]; exact runA_truncated c l s h

theorem lastMk_cons (e : Em) (l : List Em) (h : l ≠ []) : lastMk (e :: l) = lastMk l := by
  unfold lastMk
  rw [List.getLast?_cons_of_ne_nil h]

theorem setInsert_not_mem (k : Bytes) (m : List Bytes) (h : k ∉ m) : setInsert k m = m ++ [k] := by
  unfold setInsert
  simp [h]

structure Closed (s r : St) (E : List Em) (n : Nat) : Prop where
  objects : r.objects = s.objects ++ emObjs (E.take n)
  cps : r.cps = s.cps ++ emCps (E.take n)
  truncated : r.truncated = decide (n < E.length)
  newMarker : r.newMarker = if n = 0 then s.newMarker else if n ≤ E.length then lastMk (E.take n) else s.newMarker

theorem runA_closed (c : Cfg) (N : Nat) (hmax : c.max = (N : Int)) : ∀ (acts : List Act) (s : St),
    s.truncated = false →
    s.objects.length + s.cps.length ≤ N →
    (s.pastMax = true ↔ s.objects.length + s.cps.length = N) →
    (s.cps ++ emCps (ems acts)).Nodup →
    Closed s (runA c s acts) (ems acts) (N - (s.objects.length + s.cps.length))
  | [], s, ht, _, _, _ => by
    refine ⟨by simp [runA, ems, emObjs], by simp [runA, ems, emCps], by simp [runA, ems, ht], ?_⟩
    show s.newMarker = _
    split
    · rfl
    · split
      · rename_i h1 h2; simp [ems] at h2; omega
      · rfl
  | a :: acts, s, ht, hle, hpm, hnd => by
    rw [runA_cons]
    have hstep : stepA c s a = (apply c s a).1 := by simp [stepA, ht]
    rw [hstep]
    cases a with
    | ret r =>
      have he : ems (Act.ret r :: acts) = ems acts := rfl
      rw [he] at hnd ⊢
      exact runA_closed c N hmax acts s ht hle hpm hnd
    | past r =>
      have he : ems (Act.past r :: acts) = ems acts := rfl
      rw [he] at hnd ⊢
      rw [apply_past_eq]
      have := runA_closed c N hmax acts { s with pastMarker := true } ht hle hpm hnd
      exact ⟨this.objects, this.cps, this.truncated, this.newMarker⟩
    | obj o mk r =>
      have he : ems (Act.obj o mk r :: acts) = .obj o mk :: ems acts := rfl
      rw [he] at hnd ⊢
      rw [apply_obj_eq]
      by_cases hp : s.pastMax = true
      · have hcnt := hpm.1 hp
        rw [if_pos hp]
        rw [runA_truncated c acts _ rfl]
        have hn : N - (s.objects.length + s.cps.length) = 0 := by omega
        rw [hn]
        exact ⟨by simp [emObjs], by simp [emCps], by simp, by simp⟩
      · rw [if_neg hp]
        have hlt : s.objects.length + s.cps.length < N := by
          have : ¬ (s.objects.length + s.cps.length = N) := fun h => hp (hpm.2 h)
          omega
        generalize hs1 : ({ s with objects := s.objects ++ [o] } : St) = s1
        have hs1o : s1.objects = s.objects ++ [o] := by rw [← hs1]
        have hs1c : s1.cps = s.cps := by rw [← hs1]
        have hs1t : s1.truncated = false := by rw [← hs1]; exact ht
        have hs1p : s1.pastMax = false := by rw [← hs1]; simpa using hp
        have hs1m : s1.newMarker = s.newMarker := by rw [← hs1]
        have hcnt1 : s1.objects.length + s1.cps.length = s.objects.length + s.cps.length + 1 := by
          rw [hs1o, hs1c]; simp; omega
        by_cases hfull : s.objects.length + s.cps.length + 1 = N
        · -- the page is full now
          have hb : bump c s1 mk = { s1 with newMarker := mk, pastMax := true } := by
            unfold bump; rw [hcnt1, hmax, hfull]; simp
          rw [hb]
          have ih := runA_closed c N hmax acts { s1 with newMarker := mk, pastMax := true } hs1t
            (by show s1.objects.length + s1.cps.length ≤ N; omega)
            (by show (true = true ↔ s1.objects.length + s1.cps.length = N); simp; omega)
            (by show (s1.cps ++ emCps (ems acts)).Nodup; rw [hs1c]; simpa [emCps] using hnd)
          have hn' : N - (s1.objects.length + s1.cps.length) = 0 := by omega
          have hn : N - (s.objects.length + s.cps.length) = 1 := by omega
          have io := ih.objects; have ic := ih.cps; have it := ih.truncated; have im := ih.newMarker
          simp only [hn'] at io ic it im
          rw [hn]
          refine ⟨?_, ?_, ?_, ?_⟩
          · rw [io]; simp [hs1o, emObjs]
          · rw [ic]; simp [hs1c, emCps]
          · rw [it]; simp
          · rw [im]; simp [lastMk, Em.mk]
        · have hb : bump c s1 mk = s1 := by
            unfold bump; rw [hcnt1, hmax]
            have : ¬ ((s.objects.length + s.cps.length + 1 : Nat) : Int) = (N : Int) := by omega
            rw [if_neg this]
          rw [hb]
          have ih := runA_closed c N hmax acts s1 hs1t (by omega)
            (by rw [hs1p]; simp; omega)
            (by rw [hs1c]; simpa [emCps] using hnd)
          obtain ⟨n', hn'⟩ : ∃ n', N - (s1.objects.length + s1.cps.length) = n' + 1 := ⟨N - (s1.objects.length + s1.cps.length) - 1, by omega⟩
          have hn : N - (s.objects.length + s.cps.length) = n' + 2 := by omega
          have io := ih.objects; have ic := ih.cps; have it := ih.truncated; have im := ih.newMarker
          rw [hn'] at io ic it im
          rw [hn]
          refine ⟨?_, ?_, ?_, ?_⟩
          · rw [io]; simp [hs1o, emObjs]
          · rw [ic]; simp [hs1c, emCps]
          · rw [it]; simp only [List.length_cons, decide_eq_decide]; omega
          · rw [im, hs1m]
            by_cases hl : n' + 1 ≤ (ems acts).length
            · have : (ems acts).take (n' + 1) ≠ [] := by
                intro h
                have := congrArg List.length h
                rw [List.length_take, List.length_nil] at this; omega
              rw [if_neg (by omega), if_pos hl, if_neg (by omega), if_pos (by simp only [List.length_cons]; omega),
                List.take_succ_cons, lastMk_cons _ _ this]
            · rw [if_neg (by omega), if_neg hl, if_neg (by omega), if_neg (by simp only [List.length_cons]; omega)]
    | cp name r =>
      have he : ems (Act.cp name r :: acts) = .cp name :: ems acts := rfl
      rw [he] at hnd ⊢
      rw [apply_cp_eq]
      have hnotin : name ∉ s.cps := by
        have := List.nodup_append.1 hnd
        intro hm
        exact this.2.2 name hm name (by simp [emCps]) rfl
      by_cases hp : s.pastMax = true
      · have hcnt := hpm.1 hp
        rw [if_pos hp]
        rw [runA_truncated c acts _ rfl]
        have hn : N - (s.objects.length + s.cps.length) = 0 := by omega
        rw [hn]
        exact ⟨by simp [emObjs], by simp [emCps], by simp, by simp⟩
      · rw [if_neg hp]
        have hlt : s.objects.length + s.cps.length < N := by
          have : ¬ (s.objects.length + s.cps.length = N) := fun h => hp (hpm.2 h)
          omega
        rw [setInsert_not_mem name s.cps hnotin]
        generalize hs1 : ({ s with cps := s.cps ++ [name] } : St) = s1
        have hs1o : s1.objects = s.objects := by rw [← hs1]
        have hs1c : s1.cps = s.cps ++ [name] := by rw [← hs1]
        have hs1t : s1.truncated = false := by rw [← hs1]; exact ht
        have hs1p : s1.pastMax = false := by rw [← hs1]; simpa using hp
        have hs1m : s1.newMarker = s.newMarker := by rw [← hs1]
        have hcnt1 : s1.objects.length + s1.cps.length = s.objects.length + s.cps.length + 1 := by
          rw [hs1o, hs1c]; simp; omega
        have hnd1 : (s1.cps ++ emCps (ems acts)).Nodup := by
          rw [hs1c]; simpa [emCps, List.append_assoc] using hnd
        by_cases hfull : s.objects.length + s.cps.length + 1 = N
        · have hb : bump c s1 name = { s1 with newMarker := name, pastMax := true } := by
            unfold bump; rw [hcnt1, hmax, hfull]; simp
          rw [hb]
          have ih := runA_closed c N hmax acts { s1 with newMarker := name, pastMax := true } hs1t
            (by show s1.objects.length + s1.cps.length ≤ N; omega)
            (by show (true = true ↔ s1.objects.length + s1.cps.length = N); simp; omega)
            (by show (s1.cps ++ emCps (ems acts)).Nodup; exact hnd1)
          have hn' : N - (s1.objects.length + s1.cps.length) = 0 := by omega
          have hn : N - (s.objects.length + s.cps.length) = 1 := by omega
          have io := ih.objects; have ic := ih.cps; have it := ih.truncated; have im := ih.newMarker
          simp only [hn'] at io ic it im
          rw [hn]
          refine ⟨?_, ?_, ?_, ?_⟩
          · rw [io]; simp [hs1o, emObjs]
          · rw [ic]; simp [hs1c, emCps]
          · rw [it]; simp
          · rw [im]; simp [lastMk, Em.mk]
        · have hb : bump c s1 name = s1 := by
            unfold bump; rw [hcnt1, hmax]
            have : ¬ ((s.objects.length + s.cps.length + 1 : Nat) : Int) = (N : Int) := by omega
            rw [if_neg this]
          rw [hb]
          have ih := runA_closed c N hmax acts s1 hs1t (by omega)
            (by rw [hs1p]; simp; omega) hnd1
          obtain ⟨n', hn'⟩ : ∃ n', N - (s1.objects.length + s1.cps.length) = n' + 1 := ⟨N - (s1.objects.length + s1.cps.length) - 1, by omega⟩
          have hn : N - (s.objects.length + s.cps.length) = n' + 2 := by omega
          have io := ih.objects; have ic := ih.cps; have it := ih.truncated; have im := ih.newMarker
          rw [hn'] at io ic it im
          rw [hn]
          refine ⟨?_, ?_, ?_, ?_⟩
          · rw [io]; simp [hs1o, emObjs]
          · rw [ic]; simp [hs1c, emCps]
          · rw [it]; simp only [List.length_cons, decide_eq_decide]; omega
          · rw [im, hs1m]
            by_cases hl : n' + 1 ≤ (ems acts).length
            · have : (ems acts).take (n' + 1) ≠ [] := by
                intro h
                have := congrArg List.length h
                rw [List.length_take, List.length_nil] at this; omega
              rw [if_neg (by omega), if_pos hl, if_neg (by omega), if_pos (by simp only [List.length_cons]; omega),
                List.take_succ_cons, lastMk_cons _ _ this]
            · rw [if_neg (by omega), if_neg hl, if_neg (by omega), if_neg (by simp only [List.length_cons]; omega)]

end Vgw.Model.Walk
