/-
  Lemmas about Model.Conc, part 5: the `byFd` reader (open first, then everything through the
  descriptor) answers exactly `observe` of the inode it opened.
-/
import Vgw.Lemmas.ConcSolo
namespace Vgw.Model.Conc

/-- views are ghost: erase them. -/
def Local.nv (l : Local) : Local := { l with views := [] }

theorem readAct_nv (t : Option Inode) (l : Local) (a : Act) : (readAct t l a).nv = readAct t l.nv a := by
  cases a <;> simp only [readAct, Local.nv] <;> (repeat' split) <;> (try simp_all [fail]) <;> (try omega)

def SoloOK (ino : Inode) (head : Bool) (l : Local) : Prop :=
  ∃ n, (soloRun ino n l.nv).prog = [] ∧ (soloRun ino n l.nv).acc = accOf ino head

theorem soloRun_nil (ino : Inode) (n : Nat) (l : Local) (h : l.prog = []) : soloRun ino n l = l := by
  induction n with
  | zero => rfl
  | succ n ih => simp only [soloRun, soloStep, h]; exact ih

def readKindHead (rq : Req) : Bool := rq.kind == .head

/-- state of a `byFd` reader. -/
inductive FdState (c : Cfg) (fs : FS) (rq : Req) (l : Local) : Prop where
  | fresh : l.prog = program c rq → l.acc = {} → l.result = none → l.fd = none → FdState c fs rq l
  | running (k : Nat) (ino : Inode) : l.fd = some k → fs.inodes[k]? = some ino → l.result = none →
      .ropen ∉ l.prog → (∀ a ∈ l.prog, a.isReadAct = true) → l.prog ≠ [] → SoloOK ino (readKindHead rq) l → FdState c fs rq l
  | answered (k : Nat) (ino : Inode) : l.fd = some k → fs.inodes[k]? = some ino → l.prog = [] →
      l.result = some (.read (observe ino (readKindHead rq))) → FdState c fs rq l
  | failed : l.prog = [] → l.result = some .noSuchKey → l.fd = none → FdState c fs rq l

def FdInv (c : Cfg) (s : State) : Prop :=
  ∀ p ∈ s.reqs, p.1.kind.isRead = true → FdState c s.fs p.1 p.2

theorem program_byFd (c : Cfg) (rq : Req) (hr : rq.kind.isRead = true) (hm : c.rmode = .byFd) :
    program c rq = .ropen :: afterOpen (readKindHead rq) := by
  cases hk : rq.kind <;> simp [hk, Kind.isRead] at hr <;>
    simp [program, hk, hm, afterOpen, readTail, readKindHead]

theorem afterOpen_readActs (head : Bool) : ∀ a ∈ afterOpen head, a.isReadAct = true ∧ a ≠ .ropen := by
  intro a ha
  have h1 : (afterOpen head).all (fun a => a.isReadAct && a != .ropen) = true := by cases head <;> rfl
  have := List.all_eq_true.1 h1 a ha
  simp only [Bool.and_eq_true, bne_iff_ne, ne_eq] at this
  exact this

theorem afterOpen_ne_nil (head : Bool) : afterOpen head ≠ [] := by cases head <;> simp [afterOpen]

theorem FdState_mono {c : Cfg} {fs fs' : FS} {rq : Req} {l : Local} (h : FdState c fs rq l)
    (ext : List Inode) (he : fs'.inodes = fs.inodes ++ ext) : FdState c fs' rq l := by
  have up : ∀ (k : Nat) (ino : Inode), fs.inodes[k]? = some ino → fs'.inodes[k]? = some ino := by
    intro k ino hk
    rw [he, List.getElem?_append_left]; exact hk
    exact (List.getElem?_eq_some_iff.1 hk).1
  cases h with
  | fresh a b c d => exact .fresh a b c d
  | running k ino a b c d e f g => exact .running k ino a (up k ino b) c d e f g
  | answered k ino a b c d => exact .answered k ino a (up k ino b) c d
  | failed a b c => exact .failed a b c

theorem FdInv_init (c : Cfg) (fs0 : FS) (rqs : List Req) : FdInv c (init c fs0 rqs) := by
  intro p hp _
  simp only [init, List.mem_map] at hp
  obtain ⟨rq, _, rfl⟩ := hp
  exact .fresh rfl rfl rfl rfl


/-- a reading step of a `byFd` reader (not the open) against its descriptor's inode is a solo step. -/
theorem execAct_byFd_read (c : Cfg) (rq : Req) (fs : FS) (l : Local) (a : Act) (rest : List Act) (k : Nat) (ino : Inode)
    (hm : c.rmode = .byFd) (hfd : l.fd = some k) (hino : fs.inodes[k]? = some ino)
    (ha : a.isReadAct = true) (hne : a ≠ .ropen) (hp : l.prog = a :: rest) :
    (execAct c rq fs { l with prog := rest } a).1 = fs ∧
    (execAct c rq fs { l with prog := rest } a).2.nv = soloStep ino l.nv := by
  have ht : ((target c fs { l with prog := rest, views := fs.key :: l.views }).bind (fs.inodes[·]?)) = some ino := by
    simp [target, hm, hfd, hino]
  have hs : soloStep ino l.nv = readAct (some ino) { l.nv with prog := rest } a := by
    exact soloStep_cons ino l.nv a rest (by simp [Local.nv, hp])
  rw [hs]
  cases a with
  | ropen => exact absurd rfl hne
  | statign => exact ⟨rfl, by simp [execAct, Local.nv, readAct]⟩
  | rstat => simp only [execAct, ht]; exact ⟨trivial, by rw [readAct_nv]; rfl⟩
  | listsize => simp only [execAct, ht]; exact ⟨trivial, by rw [readAct_nv]; rfl⟩
  | listnames => simp only [execAct, ht]; exact ⟨trivial, by rw [readAct_nv]; rfl⟩
  | getmeta x => simp only [execAct, ht]; exact ⟨trivial, by rw [readAct_nv]; rfl⟩
  | gethdr x => simp only [execAct, ht]; exact ⟨trivial, by rw [readAct_nv]; rfl⟩
  | getetag => simp only [execAct, ht]; exact ⟨trivial, by rw [readAct_nv]; rfl⟩
  | gettags => simp only [execAct, ht]; exact ⟨trivial, by rw [readAct_nv]; rfl⟩
  | _ => simp [Act.isReadAct] at ha

theorem SoloOK_step {ino : Inode} {head : Bool} {l l' : Local} {a : Act} {rest : List Act} (h : SoloOK ino head l) (hp : l.prog = a :: rest)
    (hl' : l'.nv = soloStep ino l.nv) : SoloOK ino head l' := by
  obtain ⟨n, h1, h2⟩ := h
  cases n with
  | zero => simp [soloRun, Local.nv, hp] at h1
  | succ n =>
    refine ⟨n, ?_, ?_⟩
    · rw [hl']; exact h1
    · rw [hl']; exact h2

theorem nv_acc (l : Local) : l.nv.acc = l.acc := rfl
theorem nv_prog (l : Local) : l.nv.prog = l.prog := rfl

theorem FdInv_step {c : Cfg} {s s' : State} {i : Nat} (hm : c.rmode = .byFd) (hk : KeyLast s.fs) (g : FdInv c s)
    (h : step c s i = some s') : FdInv c s' := by
  obtain ⟨rq, l, a, rest, hr, hp, hfs, hreqs, _⟩ := step_spec h
  obtain ⟨ext, hext⟩ := step_inodes_mono h
  have hmem : (rq, l) ∈ s.reqs := List.mem_of_getElem? hr
  intro p hpm hrd
  rw [hreqs] at hpm
  rcases List.mem_or_eq_of_mem_set hpm with hold | rfl
  · exact FdState_mono (g p hold hrd) ext hext
  · have st := g _ hmem hrd
    simp only at hrd ⊢
    have hprog := program_byFd c rq hrd hm
    cases st with
    | failed a1 _ _ => rw [a1] at hp; cases hp
    | answered _ _ _ _ a1 _ => rw [a1] at hp; cases hp
    | fresh a1 a2 a3 a4 =>
      -- the first step is the open
      rw [a1, hprog] at hp
      simp only [List.cons.injEq] at hp
      obtain ⟨rfl, rfl⟩ := hp
      cases hkey : s.fs.key with
      | none =>
        have e : execAct c rq s.fs { l with prog := afterOpen (readKindHead rq) } .ropen =
            (s.fs, fail { l with prog := afterOpen (readKindHead rq), views := s.fs.key :: l.views }) := by
          simp [execAct, hkey]
        rw [e]
        have hf : s'.fs = s.fs := by rw [hfs, e]
        refine .failed ?_ ?_ ?_
        · rw [finalize_prog]; rfl
        · unfold finalize; simp [fail]
        · rw [finalize_fd]; exact a4
      | some k =>
        have hlt : k < s.fs.inodes.length := by have := hk k hkey; omega
        have e : execAct c rq s.fs { l with prog := afterOpen (readKindHead rq) } .ropen =
            (s.fs, { l with prog := afterOpen (readKindHead rq), views := s.fs.key :: l.views, fd := some k }) := by
          simp [execAct, hkey]
        rw [e]
        have hf : s'.fs = s.fs := by rw [hfs, e]
        have hne := afterOpen_ne_nil (readKindHead rq)
        have hfin : ∀ l0 : Local, l0.prog = afterOpen (readKindHead rq) → finalize rq s'.fs l0 = l0 := by
          intro l0 h0
          unfold finalize
          cases hq : l0.prog with
          | nil => rw [h0] at hq; exact absurd hq hne
          | cons _ _ => rfl
        rw [hfin _ rfl]
        refine .running k (s.fs.inodes[k]) rfl (by rw [hf]; exact List.getElem?_eq_getElem hlt) a3 ?_ ?_ hne ?_
        · intro hmem'; exact (afterOpen_readActs _ _ hmem').2 rfl
        · intro b hb; exact (afterOpen_readActs _ _ hb).1
        · obtain ⟨n, h1, h2, _, _⟩ := solo_eval (s.fs.inodes[k]) (readKindHead rq)
            ({ l with prog := afterOpen (readKindHead rq), views := s.fs.key :: l.views, fd := some k } : Local).nv rfl a2
          exact ⟨n, h1, h2⟩
    | running k ino a1 a2 a3 a4 a5 a6 a7 =>
      have ha_read : a.isReadAct = true := a5 a (by rw [hp]; exact List.mem_cons_self)
      have ha_ne : a ≠ .ropen := by intro e; apply a4; rw [hp, e]; exact List.mem_cons_self
      obtain ⟨e1, e2⟩ := execAct_byFd_read c rq s.fs l a rest k ino hm a1 a2 ha_read ha_ne hp
      have hf : s'.fs = s.fs := by rw [hfs, e1]
      obtain ⟨l1, hl1⟩ : ∃ l1, l1 = (execAct c rq s.fs { l with prog := rest } a).2 := ⟨_, rfl⟩
      rw [← hl1] at e2 ⊢
      have hfd1 : l1.fd = some k := by
        rcases execAct_fd c rq s.fs { l with prog := rest } a with e | ⟨e, _⟩
        · rw [hl1, e]; exact a1
        · exact absurd e ha_ne
      have hres1 : l1.result = none := by
        have : l1.nv.result = (soloStep ino l.nv).result := by rw [e2]
        rw [soloStep_cons _ _ _ _ (by simp [Local.nv, hp] : l.nv.prog = a :: rest), readAct_some_result] at this
        have a3' : l.result = none := a3
        simpa [Local.nv, a3'] using this
      have hsolo1 : SoloOK ino (readKindHead rq) l1 := SoloOK_step a7 hp e2
      have hsub : ∀ b ∈ l1.prog, b ∈ rest ∨ ∃ x, b = .getmeta x := by
        intro b hb
        rcases execAct_prog_sub c rq s.fs { l with prog := rest } a b (by rw [← hl1]; exact hb) with h1 | ⟨_, h2 | h2⟩ | ⟨h3, _⟩ | ⟨_, x, rfl⟩ | ⟨h5, _⟩
        · exact Or.inl h1
        · rw [h2] at ha_read; cases ha_read
        · rw [h2] at ha_read; cases ha_read
        · rw [h3] at ha_read; cases ha_read
        · exact Or.inr ⟨x, rfl⟩
        · rw [h5] at ha_read; cases ha_read
      have hino' : s'.fs.inodes[k]? = some ino := by rw [hf]; exact a2
      by_cases hnil : l1.prog = []
      · -- the last step: the answer is computed from what was collected
        obtain ⟨n, h1, h2⟩ := hsolo1
        rw [soloRun_nil _ _ _ (by rw [nv_prog]; exact hnil), nv_acc] at h2
        refine .answered k ino (by rw [finalize_fd]; exact hfd1) hino' (by rw [finalize_prog]; exact hnil) ?_
        unfold finalize
        rw [hnil, hres1]
        cases hkind : rq.kind <;> simp [hkind, Kind.isRead] at hrd
        · simp only [hfd1, Option.bind_some, hino', Option.map_some, h2]
          simp [accOf, observe, readKindHead, hkind]
        · simp only [h2]; simp [accOf, observe, readKindHead, hkind]
      · have hfin : finalize rq s'.fs l1 = l1 := by
          unfold finalize
          cases hq : l1.prog with
          | nil => exact absurd hq hnil
          | cons _ _ => rfl
        rw [hfin]
        refine .running k ino hfd1 hino' hres1 ?_ ?_ hnil hsolo1
        · intro hmem'
          rcases hsub _ hmem' with h1 | ⟨x, h1⟩
          · apply a4; rw [hp]; exact List.mem_cons_of_mem _ h1
          · cases h1
        · intro b hb
          rcases hsub b hb with h1 | ⟨x, rfl⟩
          · exact a5 b (by rw [hp]; exact List.mem_cons_of_mem _ h1)
          · rfl

theorem FdInv_reach {c : Cfg} {fs0 : FS} {rqs : List Req} {s : State} (hm : c.rmode = .byFd) (h0 : KeyLast fs0)
    (h : Reach c (init c fs0 rqs) s) : FdInv c s ∧ GInv fs0 rqs s := by
  induction h with
  | refl => exact ⟨FdInv_init c fs0 rqs, GInv_init c fs0 rqs h0⟩
  | step _ hs ih => exact ⟨FdInv_step hm ih.2.last ih.1 hs, GInv_step ih.2 hs⟩


/-! ### only readers get read answers -/

def ResKindInv (s : State) : Prop := ∀ p ∈ s.reqs, ∀ r, p.2.result = some (.read r) → p.1.kind.isRead = true

theorem finalize_read_kind (rq : Req) (fs : FS) (l : Local) (r : ReadResp)
    (h : (finalize rq fs l).result = some (.read r)) : l.result = some (.read r) ∨ rq.kind.isRead = true := by
  unfold finalize at h
  split at h
  · cases hk : rq.kind <;> simp [hk] at h <;> simp [Kind.isRead]
  · exact Or.inl h

theorem ResKindInv_reach {c : Cfg} {fs0 : FS} {rqs : List Req} {s : State} (h : Reach c (init c fs0 rqs) s) : ResKindInv s := by
  induction h with
  | refl =>
    intro p hp r hr
    simp only [init, List.mem_map] at hp
    obtain ⟨rq, _, rfl⟩ := hp
    cases hr
  | step _ hs ih =>
    obtain ⟨rq, l, a, rest, hr, hp, hfs, hreqs, _⟩ := step_spec hs
    intro p hpm r hres
    rw [hreqs] at hpm
    rcases List.mem_or_eq_of_mem_set hpm with hold | rfl
    · exact ih p hold r hres
    · rcases finalize_read_kind _ _ _ _ hres with h1 | h1
      · rcases execAct_result c rq _ { l with prog := rest } a with e | ⟨r', e, hne⟩
        · rw [e] at h1; exact ih (rq, l) (List.mem_of_getElem? hr) r h1
        · rw [e] at h1; simp only [Option.some.injEq] at h1; exact absurd h1 (hne r)
      · exact h1

end Vgw.Model.Conc
