import Vgw.Lemmas.CrashView
/-
  Lemmas.CrashPlan — where the plans write.  Every step of every plan writes only paths "owned" by the
  request's key: temp areas, the versioning area, the key's own entry and its ancestors, the key's sidecar
  entries and their ancestors.  Owned paths of one key are never read by the view of an unrelated key.
-/
namespace Vgw.Model.Crash

/-- the paths a request on `key` may write -/
def Owned (cfg : Cfg) (key : Path) (q : Path) : Prop :=
  tmpDir cfg <+: q ∨ ["V"] <+: q ∨ ["SV"] <+: q ∨ ["S", cfg.bucket, ".sgwtmp"] <+: q ∨
  q <+: objPath cfg key ∨ q <+: sideOf (objPath cfg key) ∨ sideOf (objPath cfg key) <+: q

/-- a generic description of where a list of steps writes -/
def WritesIn (S : Path → Prop) (l : List Step) : Prop := ∀ s ∈ l, ∀ q ∈ s.writes, S q

/-- every step of the list writes only owned paths -/
abbrev WritesOwned (cfg : Cfg) (key : Path) (l : List Step) : Prop := WritesIn (Owned cfg key) l

theorem WritesOwned.nil (cfg : Cfg) (key : Path) : WritesOwned cfg key [] := by
  intro s hs; cases hs

theorem WritesOwned.append {cfg : Cfg} {key : Path} {a b : List Step}
    (ha : WritesOwned cfg key a) (hb : WritesOwned cfg key b) : WritesOwned cfg key (a ++ b) := by
  intro s hs
  rcases List.mem_append.mp hs with h | h
  · exact ha s h
  · exact hb s h

theorem WritesOwned.ite {cfg : Cfg} {key : Path} {c : Prop} [Decidable c] {a b : List Step}
    (ha : WritesOwned cfg key a) (hb : WritesOwned cfg key b) : WritesOwned cfg key (if c then a else b) := by
  split <;> assumption

theorem WritesIn.append {S : Path → Prop} {a b : List Step} (ha : WritesIn S a) (hb : WritesIn S b) : WritesIn S (a ++ b) := by
  intro s hs
  rcases List.mem_append.mp hs with h | h
  · exact ha s h
  · exact hb s h

theorem WritesIn.mono {S T : Path → Prop} {l : List Step} (h : WritesIn S l) (hST : ∀ q, S q → T q) : WritesIn T l :=
  fun s hs q hq => hST q (h s hs q hq)

theorem WritesIn.nil (S : Path → Prop) : WritesIn S [] := by intro s hs; cases hs

theorem WritesIn.ite {S : Path → Prop} {c : Prop} [Decidable c] {a b : List Step}
    (ha : WritesIn S a) (hb : WritesIn S b) : WritesIn S (if c then a else b) := by
  split <;> assumption

/-! ### generators -/

theorem writes_mkdirAll (fs : FS) (p : Path) : WritesIn (fun q => q <+: p ∧ 2 ≤ q.length) (mkdirAll fs p) := by
  intro s hs q hq
  simp only [mkdirAll, List.mem_map, List.mem_filter, List.mem_range, Bool.and_eq_true, decide_eq_true_eq] at hs
  obtain ⟨x, ⟨⟨i, _, rfl⟩, hlen, _⟩, rfl⟩ := hs
  simp only [Step.writes, List.mem_singleton] at hq
  subst hq
  exact ⟨List.take_prefix i p, hlen⟩

theorem head_prefix_of_prefix {a : String} {p' q : Path} (h : q <+: a :: p') (hl : 1 ≤ q.length) : [a] <+: q := by
  cases q with
  | nil => simp at hl
  | cons b t =>
    rw [List.cons_prefix_cons] at h
    rw [h.1]
    exact List.cons_prefix_cons.mpr ⟨rfl, List.nil_prefix⟩

theorem writes_openTmp (cfg : Cfg) (fs : FS) (id : Nat) (dir : Path) (fa : Bool) (name : String) :
    WritesIn (fun q => (q <+: dir ∧ 2 ≤ q.length) ∨ dir <+: q) (openTmp cfg fs id dir fa name).2 := by
  unfold openTmp
  split
  · intro s hs q hq
    simp only [List.mem_append, List.mem_singleton] at hs
    rcases hs with rfl | hs
    · simp [Step.writes] at hq
    · split at hs
      · simp only [List.mem_singleton] at hs; subst hs; simp [Step.writes] at hq
      · cases hs
  · apply WritesIn.append
    · apply WritesIn.append
      · exact (writes_mkdirAll fs dir).mono (fun q h => Or.inl h)
      · intro s hs q hq
        simp only [List.mem_singleton] at hs; subst hs
        simp only [Step.writes, List.mem_singleton] at hq; subst hq
        exact Or.inr (List.prefix_append _ _)
    · intro s hs q hq
      split at hs
      · simp only [List.mem_singleton] at hs; subst hs; simp [Step.writes] at hq
      · cases hs

/-- where the reference returned by openTmp points -/
theorem ref_openTmp (cfg : Cfg) (fs : FS) (id : Nat) (dir : Path) (fa : Bool) (name : String) :
    ∀ q ∈ (openTmp cfg fs id dir fa name).1.paths, dir <+: q := by
  unfold openTmp
  split
  · intro q hq; simp [Ref.paths] at hq
  · intro q hq
    simp only [Ref.paths, List.mem_singleton] at hq; subst hq
    exact List.prefix_append _ _

theorem writes_storeAttr (cfg : Cfg) (fs : FS) (r : Ref) (obj : Path) (a : String) (v : Val) :
    WritesIn (fun q => q ∈ r.paths ∨ (q <+: sideOf obj ∧ 2 ≤ q.length) ∨ sideOf obj <+: q) (storeAttr cfg fs r obj a v) := by
  unfold storeAttr
  split
  · apply WritesIn.append
    · apply WritesIn.append
      · exact (writes_mkdirAll fs _).mono (fun q h => Or.inr (Or.inl h))
      · intro s hs q hq
        simp only [List.mem_singleton] at hs; subst hs
        simp only [Step.writes, List.mem_singleton] at hq; subst hq
        exact Or.inr (Or.inr (List.prefix_append _ _))
    · intro s hs q hq
      split at hs
      · cases hs
      · simp only [List.mem_singleton] at hs; subst hs
        simp only [Step.writes, Ref.paths, List.mem_singleton] at hq; subst hq
        exact Or.inr (Or.inr (List.prefix_append _ _))
  · intro s hs q hq
    simp only [List.mem_singleton] at hs; subst hs
    exact Or.inl (by simpa [Step.writes] using hq)

theorem writes_storeAttrs (cfg : Cfg) (r : Ref) (obj : Path) (kvs : List (String × Val)) (fs : FS) :
    WritesIn (fun q => q ∈ r.paths ∨ (q <+: sideOf obj ∧ 2 ≤ q.length) ∨ sideOf obj <+: q) (storeAttrs cfg fs r obj kvs) := by
  induction kvs generalizing fs with
  | nil => exact WritesIn.nil _
  | cons kv rest ih =>
    obtain ⟨a, v⟩ := kv
    unfold storeAttrs
    exact WritesIn.append (writes_storeAttr cfg fs r obj a v) (ih _)

theorem writes_deleteAttr (cfg : Cfg) (fs : FS) (obj : Path) (a : String) :
    WritesIn (fun q => q = obj ∨ sideOf obj <+: q) (deleteAttr cfg fs obj a) := by
  unfold deleteAttr
  split
  · split
    · intro s hs q hq
      simp only [List.mem_singleton] at hs; subst hs
      simp only [Step.writes, List.mem_singleton] at hq; subst hq
      exact Or.inr (List.prefix_append _ _)
    · exact WritesIn.nil _
  · split
    · intro s hs q hq
      simp only [List.mem_singleton] at hs; subst hs
      simp only [Step.writes, List.mem_singleton] at hq
      exact Or.inl hq
    · exact WritesIn.nil _

theorem prefix_of_mem_children {fs : FS} {p : Path} {e : Path × Node} (h : e ∈ fs.children p) : p <+: e.1 := by
  simp only [FS.children, List.mem_filter, Bool.and_eq_true] at h
  exact List.isPrefixOf_iff_prefix.mp h.2.2

theorem writes_deleteAttrs (cfg : Cfg) (fs : FS) (obj : Path) :
    WritesIn (fun q => sideOf obj <+: q) (deleteAttrs cfg fs obj) := by
  unfold deleteAttrs
  split
  · dsimp only
    split
    · apply WritesIn.append
      · intro s hs q hq
        simp only [List.mem_map] at hs
        obtain ⟨e, he, rfl⟩ := hs
        simp only [Step.writes, List.mem_singleton] at hq; subst hq
        exact prefix_of_mem_children he
      · intro s hs q hq
        simp only [List.mem_singleton] at hs; subst hs
        simp only [Step.writes, List.mem_singleton] at hq; subst hq
        exact List.prefix_refl _
    · exact WritesIn.nil _
  · exact WritesIn.nil _

theorem writes_publish (fs : FS) (r : Ref) (obj : Path) :
    WritesIn (fun q => q = obj ∨ (q <+: obj ∧ 2 ≤ q.length) ∨ q ∈ r.paths) (publish fs r obj) := by
  unfold publish
  apply WritesIn.append
  · apply WritesIn.append
    · intro s hs q hq
      unfold rmAt at hs
      split at hs
      · simp only [List.mem_singleton] at hs; subst hs
        exact Or.inl (by simpa [Step.writes] using hq)
      · simp only [List.mem_singleton] at hs; subst hs
        exact Or.inl (by simpa [Step.writes] using hq)
      · cases hs
    · exact (writes_mkdirAll _ _).mono (fun q h => Or.inr (Or.inl ⟨h.1.trans (List.dropLast_prefix obj), h.2⟩))
  · intro s hs q hq
    split at hs
    · simp only [List.mem_singleton] at hs; subst hs
      exact Or.inl (by simpa [Step.writes] using hq)
    · simp only [List.mem_cons, List.not_mem_nil, or_false] at hs
      rcases hs with rfl | rfl
      · simp [Step.writes] at hq
      · simp only [Step.writes, List.mem_cons, List.not_mem_nil, or_false] at hq
        rcases hq with rfl | rfl
        · exact Or.inr (Or.inr (by simp [Ref.paths]))
        · exact Or.inl rfl

theorem writes_publishR (fs : FS) (r : Ref) (obj tdir : Path) (name : String) :
    WritesIn (fun q => q = obj ∨ (q <+: obj ∧ 2 ≤ q.length) ∨ q ∈ r.paths ∨ q = tdir ++ [name]) (publishR fs r obj tdir name) := by
  unfold publishR
  apply WritesIn.append
  · apply WritesIn.append
    · exact (writes_mkdirAll _ _).mono (fun q h => Or.inr (Or.inl ⟨h.1.trans (List.dropLast_prefix obj), h.2⟩))
    · intro s hs q hq
      unfold rmDirAt at hs
      split at hs
      · simp only [List.mem_singleton] at hs; subst hs
        exact Or.inl (by simpa [Step.writes] using hq)
      · cases hs
  · intro s hs q hq
    split at hs
    · split at hs
      · simp only [List.mem_cons, List.not_mem_nil, or_false] at hs
        rcases hs with rfl | rfl
        · simp only [Step.writes, List.mem_singleton] at hq
          exact Or.inr (Or.inr (Or.inr hq))
        · simp only [Step.writes, List.mem_cons, List.not_mem_nil, or_false] at hq
          rcases hq with rfl | rfl
          · exact Or.inr (Or.inr (Or.inr rfl))
          · exact Or.inl rfl
      · simp only [List.mem_singleton] at hs; subst hs
        exact Or.inl (by simpa [Step.writes] using hq)
    · simp only [List.mem_cons, List.not_mem_nil, or_false] at hs
      rcases hs with rfl | rfl
      · simp [Step.writes] at hq
      · simp only [Step.writes, List.mem_cons, List.not_mem_nil, or_false] at hq
        rcases hq with rfl | rfl
        · exact Or.inr (Or.inr (Or.inl (by simp [Ref.paths])))
        · exact Or.inl rfl

theorem writes_publishC (cfg : Cfg) (fs : FS) (r : Ref) (obj tdir : Path) (name : String) :
    WritesIn (fun q => q = obj ∨ (q <+: obj ∧ 2 ≤ q.length) ∨ q ∈ r.paths ∨ q = tdir ++ [name]) (publishC cfg fs r obj tdir name) := by
  unfold publishC
  split
  · exact writes_publishR fs r obj tdir name
  · exact (writes_publish fs r obj).mono (fun q h => by
      rcases h with h | h | h
      · exact Or.inl h
      · exact Or.inr (Or.inl h)
      · exact Or.inr (Or.inr (Or.inl h)))

/-! ### owned paths -/

theorem objPath_eq (cfg : Cfg) (key : Path) : objPath cfg key = "R" :: cfg.bucket :: key := rfl
theorem tmpDir_eq (cfg : Cfg) : tmpDir cfg = ["R", cfg.bucket, ".sgwtmp"] := rfl
theorem sideOf_obj (cfg : Cfg) (key : Path) : sideOf (objPath cfg key) = "S" :: cfg.bucket :: (key ++ ["meta"]) := rfl

theorem WritesOwned.of {cfg : Cfg} {key : Path} {S : Path → Prop} {l : List Step}
    (h : WritesIn S l) (hS : ∀ q, S q → Owned cfg key q) : WritesOwned cfg key l := h.mono hS

theorem owned_prefix_obj {cfg : Cfg} {key q : Path} (h : q <+: objPath cfg key) : Owned cfg key q :=
  Or.inr (Or.inr (Or.inr (Or.inr (Or.inl h))))

theorem owned_tmp {cfg : Cfg} {key q : Path} (h : tmpDir cfg <+: q) : Owned cfg key q := Or.inl h
theorem owned_V {cfg : Cfg} {key q : Path} (h : ["V"] <+: q) : Owned cfg key q := Or.inr (Or.inl h)
theorem owned_SV {cfg : Cfg} {key q : Path} (h : ["SV"] <+: q) : Owned cfg key q := Or.inr (Or.inr (Or.inl h))
theorem owned_Stmp {cfg : Cfg} {key q : Path} (h : ["S", cfg.bucket, ".sgwtmp"] <+: q) : Owned cfg key q :=
  Or.inr (Or.inr (Or.inr (Or.inl h)))
theorem owned_side_up {cfg : Cfg} {key q : Path} (h : q <+: sideOf (objPath cfg key)) : Owned cfg key q :=
  Or.inr (Or.inr (Or.inr (Or.inr (Or.inr (Or.inl h)))))
theorem owned_side_down {cfg : Cfg} {key q : Path} (h : sideOf (objPath cfg key) <+: q) : Owned cfg key q :=
  Or.inr (Or.inr (Or.inr (Or.inr (Or.inr (Or.inr h)))))

/-- an ancestor (of length ≥ 2) of a directory below the temp directory is owned -/
theorem owned_above_tmp {cfg : Cfg} {key q dir : Path} (hd : tmpDir cfg <+: dir) (h : q <+: dir) (hl : 2 ≤ q.length) :
    Owned cfg key q := by
  rcases List.prefix_or_prefix_of_prefix hd h with h1 | h1
  · exact owned_tmp h1
  · -- q is a prefix of R/b/.sgwtmp of length ≥ 2
    by_cases h3 : q.length = 3
    · have : q = tmpDir cfg := h1.eq_of_length (by simp [tmpDir_eq, h3])
      exact owned_tmp (this ▸ List.prefix_refl _)
    · apply owned_prefix_obj
      have hq : q.length ≤ 2 := by
        have := h1.length_le; simp [tmpDir_eq] at this; omega
      have hb : bucketPath cfg <+: tmpDir cfg := List.prefix_append _ _
      have : q <+: bucketPath cfg := List.prefix_of_prefix_length_le h1 hb (by simpa [bucketPath] using hq)
      exact this.trans (List.prefix_append _ _)

theorem owned_near_dir_tmp {cfg : Cfg} {key q dir : Path} (hd : tmpDir cfg <+: dir)
    (h : (q <+: dir ∧ 2 ≤ q.length) ∨ dir <+: q) : Owned cfg key q := by
  rcases h with ⟨h1, h2⟩ | h
  · exact owned_above_tmp hd h1 h2
  · exact owned_tmp (hd.trans h)

theorem owned_near_dir_V {cfg : Cfg} {key q : Path} {rest : Path}
    (h : (q <+: "V" :: rest ∧ 2 ≤ q.length) ∨ "V" :: rest <+: q) : Owned cfg key q := by
  rcases h with ⟨h1, h2⟩ | h
  · exact owned_V (head_prefix_of_prefix h1 (by omega))
  · exact owned_V ((List.cons_prefix_cons.mpr ⟨rfl, List.nil_prefix⟩ : ["V"] <+: "V" :: rest).trans h)

/-- sidecar entries of an object of the key's own: its meta directory, what is below, and the directories above -/
theorem owned_side_obj {cfg : Cfg} {key q : Path}
    (h : (q <+: sideOf (objPath cfg key) ∧ 2 ≤ q.length) ∨ sideOf (objPath cfg key) <+: q) : Owned cfg key q := by
  rcases h with ⟨h1, _⟩ | h
  · exact owned_side_up h1
  · exact owned_side_down h

/-- sidecar entries of a version file -/
theorem owned_side_V {cfg : Cfg} {key q : Path} {rest : Path}
    (h : (q <+: sideOf ("V" :: rest) ∧ 2 ≤ q.length) ∨ sideOf ("V" :: rest) <+: q) : Owned cfg key q := by
  have hs : sideOf ("V" :: rest) = "SV" :: (rest ++ ["meta"]) := rfl
  rw [hs] at h
  rcases h with ⟨h1, h2⟩ | h
  · exact owned_SV (head_prefix_of_prefix h1 (by omega))
  · exact owned_SV ((List.cons_prefix_cons.mpr ⟨rfl, List.nil_prefix⟩ : ["SV"] <+: "SV" :: (rest ++ ["meta"])).trans h)

/-- sidecar entries of something below the temp directory (upload directories, parts) -/
theorem owned_side_tmp {cfg : Cfg} {key q : Path} {rest : Path}
    (h : (q <+: sideOf (tmpDir cfg ++ rest) ∧ 2 ≤ q.length) ∨ sideOf (tmpDir cfg ++ rest) <+: q) : Owned cfg key q := by
  have hs : sideOf (tmpDir cfg ++ rest) = ["S", cfg.bucket, ".sgwtmp"] ++ (rest ++ ["meta"]) := rfl
  rw [hs] at h
  have hp : ["S", cfg.bucket, ".sgwtmp"] <+: ["S", cfg.bucket, ".sgwtmp"] ++ (rest ++ ["meta"]) := List.prefix_append _ _
  rcases h with ⟨h1, h2⟩ | h
  · rcases List.prefix_or_prefix_of_prefix hp h1 with h3 | h3
    · exact owned_Stmp h3
    · by_cases hq3 : q.length = 3
      · have : q = ["S", cfg.bucket, ".sgwtmp"] := h3.eq_of_length (by simp [hq3])
        exact owned_Stmp (this ▸ List.prefix_refl _)
      · apply owned_side_up
        have hq : q.length ≤ 2 := by have := h3.length_le; simp at this; omega
        have hb : ["S", cfg.bucket] <+: ["S", cfg.bucket, ".sgwtmp"] := ⟨[".sgwtmp"], rfl⟩
        have h4 : q <+: ["S", cfg.bucket] := List.prefix_of_prefix_length_le h3 hb (by simpa using hq)
        rw [sideOf_obj]
        exact h4.trans ⟨key ++ ["meta"], rfl⟩
  · exact owned_Stmp (hp.trans h)

end Vgw.Model.Crash
