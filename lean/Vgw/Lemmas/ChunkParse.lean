/-
  Locality of the header parser of Model.ChunkSigned: what `parseCore` answers depends only on the
  bytes it consumes — more input behind them changes nothing (`_fwd`), and the consumed bytes alone
  give the same answer (`_shape`).  This is what makes the signed reader independent of how the
  stream is cut into reads.
-/
import Vgw.Lemmas.Chunked
namespace Vgw.Lemmas.ChunkParse
open Vgw Vgw.Model Vgw.Model.ChunkSigned

/-! ### cursor primitives -/

theorem readUntil_shape (d : UInt8) : ∀ (X a r : Bytes), readUntil d X = some (a, r) → X = a ++ d :: r ∧ d ∉ a := by
  intro X
  induction X with
  | nil => intro a r h; simp [readUntil] at h
  | cons b cur ih =>
    intro a r h
    unfold readUntil at h
    split at h
    · rename_i hb; simp at h; obtain ⟨rfl, rfl⟩ := h; simp [hb]
    · rename_i hb
      split at h
      · rename_i a' r' heq
        simp at h; obtain ⟨rfl, rfl⟩ := h
        obtain ⟨h1, h2⟩ := ih a' r' heq
        refine ⟨by rw [h1]; simp, ?_⟩
        simp only [List.mem_cons, not_or]
        exact ⟨fun e => hb e.symm, h2⟩
      · simp at h

theorem readUntil_fwd (d : UInt8) (X a r g : Bytes) (h : readUntil d X = some (a, r)) :
    readUntil d (X ++ g) = some (a, r ++ g) := by
  obtain ⟨h1, h2⟩ := readUntil_shape d X a r h
  rw [h1]
  simp only [List.append_assoc, List.cons_append]
  exact readUntil_append d a (r ++ g) h2

theorem readAndSkip_shape : ∀ (lit X r : Bytes), readAndSkip lit X = .ok r → X = lit ++ r := by
  intro lit
  induction lit with
  | nil => intro X r h; simp [readAndSkip] at h; simp [h]
  | cons c cs ih =>
    intro X r h
    cases X with
    | nil => simp [readAndSkip] at h
    | cons b X =>
      unfold readAndSkip at h
      split at h
      · rename_i hb; rw [ih X r h, hb]; simp
      · simp at h

theorem readAndSkip_fwd (lit X r g : Bytes) (h : readAndSkip lit X = .ok r) :
    readAndSkip lit (X ++ g) = .ok (r ++ g) := by
  rw [readAndSkip_shape lit X r h, List.append_assoc]
  exact readAndSkip_append lit (r ++ g)

theorem readAndSkip_fwd_mismatch : ∀ (lit X g : Bytes), readAndSkip lit X = .error .mismatch →
    readAndSkip lit (X ++ g) = .error .mismatch := by
  intro lit
  induction lit with
  | nil => intro X g h; simp [readAndSkip] at h
  | cons c cs ih =>
    intro X g h
    cases X with
    | nil => simp [readAndSkip] at h
    | cons b X =>
      unfold readAndSkip at h
      simp only [List.cons_append]
      unfold readAndSkip
      split
      · rename_i hb; rw [if_pos hb] at h; exact ih X g h
      · rfl

/-! ### unconditional forms for rewriting -/

theorem readUntil_fwd' (d : UInt8) (X g : Bytes) (h : (readUntil d X).isSome) :
    readUntil d (X ++ g) = (readUntil d X).map fun ar => (ar.1, ar.2 ++ g) := by
  cases hr : readUntil d X with
  | none => simp [hr] at h
  | some ar => obtain ⟨a, r⟩ := ar; simp [readUntil_fwd d X a r g hr]

theorem readAndSkip_fwd' (lit X g : Bytes) (h : (readAndSkip lit X).toOption.isSome) :
    readAndSkip lit (X ++ g) = (readAndSkip lit X).map (· ++ g) := by
  cases hr : readAndSkip lit X with
  | error e => simp [hr, Except.toOption] at h
  | ok r => simp [readAndSkip_fwd lit X r g hr, Except.map]

/-! ### parseTrailer / parseCore: more input behind a successful parse changes nothing -/

theorem parseTrailer_fwd_ok (cfg : Cfg) (sig X g : Bytes) (r : Parsed) (rest : Bytes)
    (h : parseTrailer cfg sig X = .ok (r, rest)) : parseTrailer cfg sig (X ++ g) = .ok (r, rest ++ g) := by
  unfold parseTrailer at h ⊢
  cases h1 : readAndSkip [10] X with
  | error e => simp [h1] at h
  | ok c1 =>
  simp only [h1] at h
  rw [readAndSkip_fwd _ _ _ g h1]
  cases h2 : readUntil 58 c1 with
  | none => simp [h2] at h
  | some ar =>
  obtain ⟨a2, c2⟩ := ar
  simp only [h2] at h
  simp only [readUntil_fwd _ _ _ _ g h2]
  split at h
  · simp at h
  · rename_i ht
    rw [if_neg ht]
    cases h3 : readUntil 13 c2 with
    | none => simp [h3] at h
    | some ar =>
    obtain ⟨a3, c3⟩ := ar
    simp only [h3] at h
    simp only [readUntil_fwd _ _ _ _ g h3]
    split at h
    · simp at h
    · rename_i hv
      rw [if_neg hv]
      cases h4 : readAndSkip [10] c3 with
      | error e => simp [h4] at h
      | ok c4 =>
      simp only [h4] at h
      simp only [readAndSkip_fwd _ _ _ g h4]
      cases h5 : readUntil 58 c4 with
      | none => simp [h5] at h
      | some ar =>
      obtain ⟨a5, c5⟩ := ar
      simp only [h5] at h
      simp only [readUntil_fwd _ _ _ _ g h5]
      split at h
      · simp at h
      · rename_i hp
        rw [if_neg hp]
        cases h6 : readUntil 13 c5 with
        | none => simp [h6] at h
        | some ar =>
        obtain ⟨a6, c6⟩ := ar
        simp only [h6] at h
        simp only [readUntil_fwd _ _ _ _ g h6]
        simp at h ⊢
        obtain ⟨rfl, rfl⟩ := h
        simp

theorem parseCore_fwd_ok (cfg : Cfg) (X g : Bytes) (r : Parsed) (rest : Bytes)
    (h : parseCore cfg X = .ok (r, rest)) : parseCore cfg (X ++ g) = .ok (r, rest ++ g) := by
  unfold parseCore at h ⊢
  cases h1 : readUntil 59 X with
  | none => simp [h1] at h
  | some ar =>
  obtain ⟨a1, c1⟩ := ar
  simp only [h1] at h
  simp only [readUntil_fwd _ _ _ _ g h1]
  cases h2 : parseIntHex64 a1 with
  | none => simp [h2] at h
  | some v =>
  simp only [h2] at h ⊢
  split at h
  · simp at h
  · rename_i hneg
    rw [if_neg hneg]
    cases h3 : readAndSkip chunkSignatureLit c1 with
    | error e => simp [h3] at h
    | ok c3 =>
    simp only [h3] at h
    simp only [readAndSkip_fwd _ _ _ g h3]
    cases h4 : readUntil 13 c3 with
    | none => simp [h4] at h
    | some ar =>
    obtain ⟨a4, c4⟩ := ar
    simp only [h4] at h
    simp only [readUntil_fwd _ _ _ _ g h4]
    split at h
    · rename_i hz
      rw [if_pos hz]
      split at h
      · rename_i htr
        rw [if_pos htr]
        cases h5 : parseTrailer cfg a4 c4 with
        | error e => simp [h5] at h
        | ok rc =>
        obtain ⟨r5, c5⟩ := rc
        simp only [h5] at h
        simp only [parseTrailer_fwd_ok cfg a4 c4 g r5 c5 h5]
        cases h6 : readAndSkip [10, 13, 10] c5 with
        | error e => simp [h6] at h
        | ok c6 =>
        simp only [h6] at h
        simp only [readAndSkip_fwd _ _ _ g h6]
        simp at h ⊢
        obtain ⟨rfl, rfl⟩ := h
        simp
      · rename_i htr
        rw [if_neg htr]
        cases h6 : readAndSkip [10, 13, 10] c4 with
        | error e => simp [h6] at h
        | ok c6 =>
        simp only [h6] at h
        simp only [readAndSkip_fwd _ _ _ g h6]
        simp at h ⊢
        obtain ⟨rfl, rfl⟩ := h
        simp
    · rename_i hz
      rw [if_neg hz]
      cases h6 : readAndSkip [10] c4 with
      | error e => simp [h6] at h
      | ok c6 =>
      simp only [h6] at h
      simp only [readAndSkip_fwd _ _ _ g h6]
      simp at h ⊢
      obtain ⟨rfl, rfl⟩ := h
      simp

/-! ### definite errors persist -/

theorem readAndSkip_cases (lit X : Bytes) :
    (∃ r, readAndSkip lit X = .ok r) ∨ readAndSkip lit X = .error .eof ∨ readAndSkip lit X = .error .mismatch := by
  cases h : readAndSkip lit X with
  | ok r => exact Or.inl ⟨r, rfl⟩
  | error e => cases e <;> simp

/-- a parse error other than "ran out of input" -/
def Definite : PErr → Prop
  | .rd .eof => False
  | _ => True

theorem parseTrailer_fwd_err (cfg : Cfg) (sig X g : Bytes) (e : PErr) (hd : Definite e)
    (h : parseTrailer cfg sig X = .error e) : parseTrailer cfg sig (X ++ g) = .error e := by
  unfold parseTrailer at h ⊢
  rcases readAndSkip_cases [10] X with ⟨c1, h1⟩ | h1 | h1
  rotate_left
  · simp [h1] at h; subst h; exact absurd hd (by simp [Definite])
  · simp [h1] at h; subst h; simp [readAndSkip_fwd_mismatch _ _ g h1]
  simp only [h1] at h
  rw [readAndSkip_fwd _ _ _ g h1]
  cases h2 : readUntil 58 c1 with
  | none => simp [h2] at h; subst h; exact absurd hd (by simp [Definite])
  | some ar =>
  obtain ⟨a2, c2⟩ := ar
  simp only [h2] at h
  simp only [readUntil_fwd _ _ _ _ g h2]
  split at h
  · rename_i ht; rw [if_pos ht]; exact h
  · rename_i ht
    rw [if_neg ht]
    cases h3 : readUntil 13 c2 with
    | none => simp [h3] at h; subst h; exact absurd hd (by simp [Definite])
    | some ar =>
    obtain ⟨a3, c3⟩ := ar
    simp only [h3] at h
    simp only [readUntil_fwd _ _ _ _ g h3]
    split at h
    · rename_i hv; rw [if_pos hv]; exact h
    · rename_i hv
      rw [if_neg hv]
      rcases readAndSkip_cases [10] c3 with ⟨c4, h4⟩ | h4 | h4
      rotate_left
      · simp [h4] at h; subst h; exact absurd hd (by simp [Definite])
      · simp [h4] at h; subst h; simp [readAndSkip_fwd_mismatch _ _ g h4]
      simp only [h4] at h
      simp only [readAndSkip_fwd _ _ _ g h4]
      cases h5 : readUntil 58 c4 with
      | none => simp [h5] at h; subst h; exact absurd hd (by simp [Definite])
      | some ar =>
      obtain ⟨a5, c5⟩ := ar
      simp only [h5] at h
      simp only [readUntil_fwd _ _ _ _ g h5]
      split at h
      · rename_i hp; rw [if_pos hp]; exact h
      · rename_i hp
        rw [if_neg hp]
        cases h6 : readUntil 13 c5 with
        | none => simp [h6] at h; subst h; exact absurd hd (by simp [Definite])
        | some ar =>
        obtain ⟨a6, c6⟩ := ar
        simp [h6] at h

theorem parseCore_fwd_err (cfg : Cfg) (X g : Bytes) (e : PErr) (hd : Definite e)
    (h : parseCore cfg X = .error e) : parseCore cfg (X ++ g) = .error e := by
  unfold parseCore at h ⊢
  cases h1 : readUntil 59 X with
  | none => simp [h1] at h; subst h; exact absurd hd (by simp [Definite])
  | some ar =>
  obtain ⟨a1, c1⟩ := ar
  simp only [h1] at h
  simp only [readUntil_fwd _ _ _ _ g h1]
  cases h2 : parseIntHex64 a1 with
  | none => simp [h2] at h ⊢; exact h
  | some v =>
  simp only [h2] at h ⊢
  split at h
  · rename_i hneg; rw [if_pos hneg]; exact h
  · rename_i hneg
    rw [if_neg hneg]
    rcases readAndSkip_cases chunkSignatureLit c1 with ⟨c3, h3⟩ | h3 | h3
    rotate_left
    · simp [h3] at h; subst h; exact absurd hd (by simp [Definite])
    · simp [h3] at h; subst h; simp [readAndSkip_fwd_mismatch _ _ g h3]
    simp only [h3] at h
    simp only [readAndSkip_fwd _ _ _ g h3]
    cases h4 : readUntil 13 c3 with
    | none => simp [h4] at h; subst h; exact absurd hd (by simp [Definite])
    | some ar =>
    obtain ⟨a4, c4⟩ := ar
    simp only [h4] at h
    simp only [readUntil_fwd _ _ _ _ g h4]
    split at h
    · rename_i hz
      rw [if_pos hz]
      split at h
      · rename_i htr
        rw [if_pos htr]
        cases h5 : parseTrailer cfg a4 c4 with
        | error e5 =>
          simp only [h5] at h
          have : e5 = e := by simpa using h
          subst this
          simp [parseTrailer_fwd_err cfg a4 c4 g e5 hd h5]
        | ok rc =>
        obtain ⟨r5, c5⟩ := rc
        simp only [h5] at h
        simp only [parseTrailer_fwd_ok cfg a4 c4 g r5 c5 h5]
        rcases readAndSkip_cases [10, 13, 10] c5 with ⟨c6, h6⟩ | h6 | h6
        · simp [h6] at h
        · simp [h6] at h; subst h; exact absurd hd (by simp [Definite])
        · simp [h6] at h; subst h; simp [readAndSkip_fwd_mismatch _ _ g h6]
      · rename_i htr
        rw [if_neg htr]
        rcases readAndSkip_cases [10, 13, 10] c4 with ⟨c6, h6⟩ | h6 | h6
        · simp [h6] at h
        · simp [h6] at h; subst h; exact absurd hd (by simp [Definite])
        · simp [h6] at h; subst h; simp [readAndSkip_fwd_mismatch _ _ g h6]
    · rename_i hz
      rw [if_neg hz]
      rcases readAndSkip_cases [10] c4 with ⟨c6, h6⟩ | h6 | h6
      · simp [h6] at h
      · simp [h6] at h; subst h; exact absurd hd (by simp [Definite])
      · simp [h6] at h; subst h; simp [readAndSkip_fwd_mismatch _ _ g h6]

/-! ### the consumed bytes alone give the same answer -/

theorem parseTrailer_shape (cfg : Cfg) (sig X : Bytes) (r : Parsed) (rest : Bytes)
    (h : parseTrailer cfg sig X = .ok (r, rest)) :
    ∃ C, X = C ++ rest ∧ parseTrailer cfg sig C = .ok (r, []) := by
  unfold parseTrailer at h
  cases h1 : readAndSkip [10] X with
  | error e => simp [h1] at h
  | ok c1 =>
  simp only [h1] at h
  cases h2 : readUntil 58 c1 with
  | none => simp [h2] at h
  | some ar =>
  obtain ⟨a2, c2⟩ := ar
  simp only [h2] at h
  split at h
  · simp at h
  · rename_i ht
    cases h3 : readUntil 13 c2 with
    | none => simp [h3] at h
    | some ar =>
    obtain ⟨a3, c3⟩ := ar
    simp only [h3] at h
    split at h
    · simp at h
    · rename_i hv
      cases h4 : readAndSkip [10] c3 with
      | error e => simp [h4] at h
      | ok c4 =>
      simp only [h4] at h
      cases h5 : readUntil 58 c4 with
      | none => simp [h5] at h
      | some ar =>
      obtain ⟨a5, c5⟩ := ar
      simp only [h5] at h
      split at h
      · simp at h
      · rename_i hp
        cases h6 : readUntil 13 c5 with
        | none => simp [h6] at h
        | some ar =>
        obtain ⟨a6, c6⟩ := ar
        simp only [h6] at h
        simp at h
        obtain ⟨rfl, rfl⟩ := h
        have e1 := readAndSkip_shape _ _ _ h1
        obtain ⟨e2, n2⟩ := readUntil_shape _ _ _ _ h2
        obtain ⟨e3, n3⟩ := readUntil_shape _ _ _ _ h3
        have e4 := readAndSkip_shape _ _ _ h4
        obtain ⟨e5, n5⟩ := readUntil_shape _ _ _ _ h5
        obtain ⟨e6, n6⟩ := readUntil_shape _ _ _ _ h6
        refine ⟨[10] ++ (a2 ++ 58 :: (a3 ++ 13 :: ([10] ++ (a5 ++ 58 :: (a6 ++ 13 :: []))))), ?_, ?_⟩
        · rw [e1, e2, e3, e4, e5, e6]; simp
        · unfold parseTrailer
          simp only [readAndSkip_append, readUntil_append 58 a2 _ n2, readUntil_append 13 a3 _ n3,
            readUntil_append 58 a5 _ n5, readUntil_append 13 a6 _ n6]
          simp [ht, hv, hp]

theorem parseIntHex64_no_cr (s : Bytes) (v : Int) (h : parseIntHex64 s = some v) : (13 : UInt8) ∉ s := by
  have key : ∀ t : Bytes, ∀ n, parseHexDigits t = some n → (13 : UInt8) ∉ t := by
    intro t n ht
    exact isHex_not_mem (n := n) ht 13 not_hex_13
  unfold parseIntHex64 at h
  cases s with
  | nil => simp at h
  | cons c rest =>
    simp only at h
    split at h
    · rename_i hc
      cases hp : parseHexDigits rest with
      | none => simp [hp] at h
      | some n =>
        have := key rest n hp
        simp only [List.mem_cons, not_or]
        exact ⟨by rw [hc]; decide, this⟩
    · split at h
      · rename_i hc
        cases hp : parseHexDigits rest with
        | none => simp [hp] at h
        | some n =>
          have := key rest n hp
          simp only [List.mem_cons, not_or]
          exact ⟨by rw [hc]; decide, this⟩
      · cases hp : parseHexDigits (c :: rest) with
        | none => simp [hp] at h
        | some n => exact key _ n hp

/-- **Shape of a successful header parse**: the input is the consumed bytes `C` followed by the
cursor rest; `C` alone parses to the same result; and the header of a data chunk is `A CRLF` with no
CR inside `A`. -/
theorem parseCore_shape (cfg : Cfg) (X : Bytes) (r : Parsed) (rest : Bytes)
    (h : parseCore cfg X = .ok (r, rest)) :
    ∃ C, X = C ++ rest ∧ parseCore cfg C = .ok (r, []) ∧ 0 ≤ r.chunkSize ∧
      (r.chunkSize ≠ 0 → ∃ A, C = A ++ [13, 10] ∧ (13 : UInt8) ∉ A) := by
  unfold parseCore at h
  cases h1 : readUntil 59 X with
  | none => simp [h1] at h
  | some ar =>
  obtain ⟨a1, c1⟩ := ar
  simp only [h1] at h
  cases h2 : parseIntHex64 a1 with
  | none => simp [h2] at h
  | some v =>
  simp only [h2] at h
  split at h
  · simp at h
  · rename_i hneg
    cases h3 : readAndSkip chunkSignatureLit c1 with
    | error e => simp [h3] at h
    | ok c3 =>
    simp only [h3] at h
    cases h4 : readUntil 13 c3 with
    | none => simp [h4] at h
    | some ar =>
    obtain ⟨a4, c4⟩ := ar
    simp only [h4] at h
    obtain ⟨e1, n1⟩ := readUntil_shape _ _ _ _ h1
    have e3 := readAndSkip_shape _ _ _ h3
    obtain ⟨e4, n4⟩ := readUntil_shape _ _ _ _ h4
    split at h
    · rename_i hz
      split at h
      · rename_i htr
        cases h5 : parseTrailer cfg a4 c4 with
        | error e => simp [h5] at h
        | ok rc =>
        obtain ⟨r5, c5⟩ := rc
        simp only [h5] at h
        cases h6 : readAndSkip [10, 13, 10] c5 with
        | error e => simp [h6] at h
        | ok c6 =>
        simp only [h6] at h
        simp at h
        obtain ⟨rfl, rfl⟩ := h
        obtain ⟨C5, e5, p5⟩ := parseTrailer_shape cfg a4 c4 r5 c5 h5
        have e6 := readAndSkip_shape _ _ _ h6
        have hr5 : r5.chunkSize = 0 := by
          unfold parseTrailer at p5
          repeat' split at p5
          all_goals first | (simp at p5; done) | (simp at p5; rw [← p5.1])
        refine ⟨a1 ++ 59 :: (chunkSignatureLit ++ (a4 ++ 13 :: (C5 ++ [10, 13, 10]))), ?_, ?_, by omega, ?_⟩
        · rw [e1, e3, e4, e5, e6]; simp
        · unfold parseCore
          simp only [readUntil_append 59 a1 _ n1, h2, readAndSkip_append, readUntil_append 13 a4 _ n4]
          rw [if_neg hneg, if_pos hz, if_pos htr]
          have := parseTrailer_fwd_ok cfg a4 C5 [10, 13, 10] r5 [] p5
          simp only [this]
          simp [readAndSkip]
        · intro hne; exact absurd hr5 hne
      · rename_i htr
        cases h6 : readAndSkip [10, 13, 10] c4 with
        | error e => simp [h6] at h
        | ok c6 =>
        simp only [h6] at h
        simp at h
        obtain ⟨rfl, rfl⟩ := h
        have e6 := readAndSkip_shape _ _ _ h6
        refine ⟨a1 ++ 59 :: (chunkSignatureLit ++ (a4 ++ 13 :: [10, 13, 10])), ?_, ?_, by simp, ?_⟩
        · rw [e1, e3, e4, e6]; simp
        · unfold parseCore
          simp only [readUntil_append 59 a1 _ n1, h2, readAndSkip_append, readUntil_append 13 a4 _ n4]
          rw [if_neg hneg, if_pos hz, if_neg htr]
          simp [readAndSkip]
        · intro hne; simp at hne
    · rename_i hz
      cases h6 : readAndSkip [10] c4 with
      | error e => simp [h6] at h
      | ok c6 =>
      simp only [h6] at h
      simp at h
      obtain ⟨rfl, rfl⟩ := h
      have e6 := readAndSkip_shape _ _ _ h6
      refine ⟨a1 ++ 59 :: (chunkSignatureLit ++ (a4 ++ [13, 10])), ?_, ?_, by simp; omega, ?_⟩
      · rw [e1, e3, e4, e6]; simp
      · unfold parseCore
        have : a1 ++ 59 :: (chunkSignatureLit ++ (a4 ++ [13, 10])) = a1 ++ 59 :: (chunkSignatureLit ++ (a4 ++ 13 :: [10])) := by simp
        rw [this]
        simp only [readUntil_append 59 a1 _ n1, h2, readAndSkip_append, readUntil_append 13 a4 _ n4]
        rw [if_neg hneg, if_neg hz]
        simp [readAndSkip]
      · intro _
        refine ⟨a1 ++ 59 :: (chunkSignatureLit ++ a4), by simp, ?_⟩
        simp only [List.mem_append, List.mem_cons, not_or]
        exact ⟨parseIntHex64_no_cr a1 v h2, by decide, by decide, n4⟩

/-! ### the same for `parseHeader` (CRLF skip + `parseCore`) -/

def skipOf (first : Bool) : Nat := if first then 0 else 2

theorem parseHeader_fwd_ok (cfg : Cfg) (first : Bool) (H g : Bytes) (r : Parsed) (rest : Bytes)
    (h : parseHeader cfg first H = .ok (r, rest)) : parseHeader cfg first (H ++ g) = .ok (r, rest ++ g) := by
  unfold parseHeader at h ⊢
  cases first with
  | true => simpa using parseCore_fwd_ok cfg H g r rest (by simpa using h)
  | false =>
    simp only [Bool.false_eq_true, if_false] at h ⊢
    cases h1 : readAndSkip [13, 10] H with
    | error e => simp [h1] at h
    | ok cur =>
      simp only [h1] at h
      simp only [readAndSkip_fwd _ _ _ g h1]
      exact parseCore_fwd_ok cfg cur g r rest h

theorem parseHeader_fwd_err (cfg : Cfg) (first : Bool) (H g : Bytes) (e : PErr) (hd : Definite e)
    (h : parseHeader cfg first H = .error e) : parseHeader cfg first (H ++ g) = .error e := by
  unfold parseHeader at h ⊢
  cases first with
  | true => simpa using parseCore_fwd_err cfg H g e hd (by simpa using h)
  | false =>
    simp only [Bool.false_eq_true, if_false] at h ⊢
    rcases readAndSkip_cases [13, 10] H with ⟨cur, h1⟩ | h1 | h1
    · simp only [h1] at h
      simp only [readAndSkip_fwd _ _ _ g h1]
      exact parseCore_fwd_err cfg cur g e hd h
    · simp [h1] at h; subst h; exact absurd hd (by simp [Definite])
    · simp [h1] at h; subst h; simp [readAndSkip_fwd_mismatch _ _ g h1]

theorem parseHeader_shape (cfg : Cfg) (first : Bool) (H : Bytes) (r : Parsed) (rest : Bytes)
    (h : parseHeader cfg first H = .ok (r, rest)) :
    ∃ C, H = C ++ rest ∧ parseHeader cfg first C = .ok (r, []) ∧ 0 ≤ r.chunkSize ∧
      (r.chunkSize ≠ 0 → indexCRLF (H.drop (skipOf first)) + (skipOf first : Nat) + 2 = (C.length : Int)) := by
  unfold parseHeader at h
  cases first with
  | true =>
    simp only [if_true] at h
    obtain ⟨C, e, pc, h0, hA⟩ := parseCore_shape cfg H r rest h
    refine ⟨C, e, by simpa [parseHeader] using pc, h0, ?_⟩
    intro hne
    obtain ⟨A, rfl, hn⟩ := hA hne
    subst e
    simp only [skipOf, if_true, List.drop_zero]
    have : A ++ [13, 10] ++ rest = A ++ 13 :: 10 :: rest := by simp
    rw [this, indexCRLF_append A rest hn]
    simp
  | false =>
    simp only [Bool.false_eq_true, if_false] at h
    cases h1 : readAndSkip [13, 10] H with
    | error e => simp [h1] at h
    | ok cur =>
      simp only [h1] at h
      have e1 := readAndSkip_shape _ _ _ h1
      obtain ⟨C, e, pc, h0, hA⟩ := parseCore_shape cfg cur r rest h
      refine ⟨[13, 10] ++ C, by rw [e1, e]; simp, ?_, h0, ?_⟩
      · unfold parseHeader
        simp only [Bool.false_eq_true, if_false, readAndSkip_append]
        exact pc
      · intro hne
        obtain ⟨A, rfl, hn⟩ := hA hne
        subst e
        subst e1
        simp only [skipOf, Bool.false_eq_true, if_false]
        have : ([13, 10] ++ (A ++ [13, 10] ++ rest)).drop 2 = A ++ 13 :: 10 :: rest := by simp
        rw [this, indexCRLF_append A rest hn]
        simp
        omega

/-- a header that was incomplete and is complete after more input: the parse ends inside the new input -/
theorem parseHeader_needMore_then_ok (cfg : Cfg) (first : Bool) (H g : Bytes) (r : Parsed) (rest : Bytes)
    (h1 : parseHeader cfg first H = .error (.rd .eof)) (h2 : parseHeader cfg first (H ++ g) = .ok (r, rest)) :
    rest.length < g.length := by
  obtain ⟨C, e, pc, _, _⟩ := parseHeader_shape cfg first (H ++ g) r rest h2
  by_cases hle : C.length ≤ H.length
  · -- then C is a prefix of H and H alone would have parsed
    have hl := congrArg List.length e
    simp only [List.length_append] at hl
    obtain ⟨X', hX⟩ : ∃ X', H = C ++ X' := by
      refine ⟨H.drop C.length, ?_⟩
      have h3 : (H ++ g).take C.length = C := by rw [e]; simp
      rw [List.take_append_of_le_length hle] at h3
      conv => lhs; rw [← List.take_append_drop C.length H]
      rw [h3]
    have := parseHeader_fwd_ok cfg first C X' r [] pc
    rw [← hX, h1] at this
    simp at this
  · have hl := congrArg List.length e
    simp only [List.length_append] at hl
    omega

end Vgw.Lemmas.ChunkParse
