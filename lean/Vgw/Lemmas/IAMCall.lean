/-
  `call_spec`: a call that runs alone, from a state in which every call has returned, answers what
  the plain map answers and leaves the committed image as the map prescribes.
-/
import Vgw.Lemmas.IAMSeq
namespace Vgw.Model.IAM
open Vgw
open Vgw.Model.Gw (Account Role)

/-- what a listing holds in its hands while the image is `s` -/
def ListPc (s : Store) : PC → Prop
  | .lGot s' => s' = s
  | .done r => r = .accts (sortAccts s)
  | _ => True

theorem listpc_step {v : Variant} {cfg : Cfg} {σ : State} {i : Nat} {c c' : Call}
    (hW : Wf cfg σ) (hT : TInv cfg σ) (hi : σ.calls[i]? = some c) (hop : c.op = .list)
    (hl : ListPc σ.committed c.pc) (hc' : (stepCall v cfg σ i c).calls[i]? = some c') :
    ListPc σ.committed c'.pc := by
  have hlt : i < σ.calls.length := (List.getElem?_eq_some_iff.mp hi).1
  have hTc := hT i c hi
  have hnm : c.op.isMut = false := by rw [hop]; rfl
  have hW' : Wf cfg (stepCall v cfg σ i c) := ⟨hW.l.stepCall hi, hW.b.stepCall hi⟩
  have hL' := (hW'.l.calls i c' hc').pc
  have hcm : (stepCall v cfg σ i c).committed = σ.committed := by
    rcases stepCall_committed v cfg σ i c with he | ⟨b', hpc, _⟩
    · exact he
    · have := (hTc.1 (Or.inl (by rw [hpc]; rfl))).1; rw [hnm] at this; cases this
  obtain ⟨pc', hcalls⟩ := stepCall_calls v cfg σ i c hi
  have hc'' : c' = ⟨c.op, pc'⟩ := by
    rw [hcalls, List.getElem?_set] at hc'; simp [hlt] at hc'; exact hc'.symm
  -- the only step that produces an answer is lGot → done
  cases hpc' : c'.pc with
  | lGot s =>
    unfold PcL at hL'; rw [hpc'] at hL'
    simp only [ListPc]; rw [← hcm]; exact hL'
  | done r =>
    unfold Model.IAM.stepCall at hc'
    split at hc'
    · rename_i hpc
      split at hc'
      · rename_i k hk; rw [hop] at hk; cases hk
      · split at hc'
        · simp only [State.setCall, List.getElem?_set, hlt] at hc'; simp at hc'; subst hc'; cases hpc'
        · rw [hi] at hc'; cases hc'; rw [hpc] at hpc'; cases hpc'
      · rename_i a hk; rw [hop] at hk; cases hk
      · split at hc'
        · simp only [State.setCall, List.getElem?_set, hlt] at hc'; simp at hc'; subst hc'; cases hpc'
        · rw [hi] at hc'; cases hc'; rw [hpc] at hpc'; cases hpc'
    · rename_i hpc; have := (hTc.1 (Or.inl (by rw [hpc]; rfl))).1; rw [hnm] at this; cases this
    · rename_i b hpc; have := (hTc.1 (Or.inl (by rw [hpc]; rfl))).1; rw [hnm] at this; cases this
    · rename_i b hpc; have := (hTc.1 (Or.inl (by rw [hpc]; rfl))).1; rw [hnm] at this; cases this
    · rename_i b hpc; have := (hTc.1 (Or.inl (by rw [hpc]; rfl))).1; rw [hnm] at this; cases this
    · rename_i b hpc; have := (hTc.1 (Or.inl (by rw [hpc]; rfl))).1; rw [hnm] at this; cases this
    · rename_i hpc; have := (hTc.1 (Or.inl (by rw [hpc]; rfl))).1; rw [hnm] at this; cases this
    · rename_i e hpc; have := (hTc.1 (Or.inl (by rw [hpc]; rfl))).1; rw [hnm] at this; cases this
    · rename_i hpc; have := (hTc.1 (Or.inr (by rw [hpc]; rfl))).1; rw [hnm] at this; cases this
    · rename_i g hpc; obtain ⟨k, hk⟩ := hTc.2.2 (by rw [hpc]; rfl); rw [hop] at hk; cases hk
    · rename_i g hpc; obtain ⟨k, hk⟩ := hTc.2.2 (by rw [hpc]; rfl); rw [hop] at hk; cases hk
    · rename_i r' g hpc; obtain ⟨k, hk⟩ := hTc.2.2 (by rw [hpc]; rfl); rw [hop] at hk; cases hk
    · rename_i a g hpc; obtain ⟨k, hk⟩ := hTc.2.2 (by rw [hpc]; rfl); rw [hop] at hk; cases hk
    · -- lRLocked
      rename_i hpc
      split at hc'
      · simp only [State.setCall, List.getElem?_set, hlt] at hc'; simp at hc'; subst hc'; cases hpc'
      · rw [hi] at hc'; cases hc'; rw [hpc] at hpc'; cases hpc'
    · -- lGot s → done
      rename_i s hpc
      rw [hpc] at hl; simp only [ListPc] at hl
      simp only [State.setCall, List.getElem?_set, hlt] at hc'; simp at hc'; subst hc'
      simp only at hpc'; cases hpc'
      simp only [ListPc, hl]
    · -- done
      rename_i r' hpc
      rw [hi] at hc'; cases hc'; rw [hpc] at hl; rw [hpc] at hpc'; cases hpc'; exact hl
  | _ => trivial

theorem list_stepN {v : Variant} {cfg : Cfg} (m : Nat) : ∀ {σ : State} {n : Nat} {c : Call},
    Wf cfg σ → TInv cfg σ → σ.calls[n]? = some c → c.op = .list → ListPc σ.committed c.pc →
    (stepN v cfg σ n m).committed = σ.committed ∧
    ∀ c', (stepN v cfg σ n m).calls[n]? = some c' → ListPc σ.committed c'.pc := by
  induction m with
  | zero => intro σ n c _ _ hi _ hl; exact ⟨rfl, fun c' hc' => by simp only [stepN] at hc'; rw [hi] at hc'; cases hc'; exact hl⟩
  | succ m ih =>
    intro σ n c hW hT hi hop hl
    simp only [stepN]
    obtain ⟨pc', hpc'⟩ := stepAt_op v cfg σ n c hi
    have hstep : Model.IAM.stepAt v cfg σ n = stepCall v cfg σ n c := by simp [Model.IAM.stepAt, hi]
    have hcm : (Model.IAM.stepAt v cfg σ n).committed = σ.committed := by
      rw [hstep]
      rcases stepCall_committed v cfg σ n c with he | ⟨b', hpc, _⟩
      · exact he
      · have := ((hT n c hi).1 (Or.inl (by rw [hpc]; rfl))).1; rw [hop] at this; cases this
    have hl' : ListPc σ.committed pc' := by
      have := listpc_step (v := v) hW hT hi hop hl (c' := ⟨c.op, pc'⟩) (by rw [← hstep]; exact hpc')
      exact this
    have hT' : TInv cfg (Model.IAM.stepAt v cfg σ n) := hT.act (v := v) (.step n)
    have := ih (hW.stepAt (v := v) n) hT' hpc' hop (by rw [hcm]; exact hl')
    rw [hcm] at this
    exact this

theorem run_steps_log (v : Variant) (cfg : Cfg) (n m : Nat) : ∀ σ : State,
    ∃ l, (run v cfg σ (List.replicate m (.step n))).log = σ.log ++ l ∧ ∀ e ∈ l, e.id = n := by
  induction m with
  | zero => intro σ; exact ⟨[], by simp [Model.IAM.run], by simp⟩
  | succ m ih =>
    intro σ
    obtain ⟨l1, h1, h1'⟩ := act_log v cfg σ (.step n)
    obtain ⟨l2, h2, h2'⟩ := ih (act v cfg σ (.step n))
    refine ⟨l1 ++ l2, ?_, ?_⟩
    · simp only [List.replicate_succ, Model.IAM.run, List.foldl_cons] at h2 ⊢
      rw [h2, h1, List.append_assoc]
    · intro e he
      rcases List.mem_append.mp he with he | he
      · exact h1' e he n rfl
      · exact h2' e he

/-- one call, alone: its answer and its effect are the plain map's -/
theorem call_spec {v : Variant} {cfg : Cfg} {s0 : Store} {σ : State} (hF : FullInv v cfg s0 σ) (hQ : Quiescent σ)
    (op : Op) (hc : NeedsQuiet v → ∀ a, op = .create a → entryOf v a = a) :
    ∃ r, (call v cfg σ op).result σ.calls.length = some r ∧
      callSpec cfg σ.committed op (call v cfg σ op).committed r ∧
      FullInv v cfg s0 (call v cfg σ op) ∧ Quiescent (call v cfg σ op) := by
  obtain ⟨r, hres, hQ', hW', hlen⟩ := call_returns_aux (v := v) hF.inv.wf hQ op
  have hrun := call_eq_run v cfg σ op
  -- the invariants along the call
  have hquiet : NeedsQuiet v → QuietRun v cfg σ (.invoke op :: List.replicate fuel (.step σ.calls.length)) := by
    intro hn
    refine ⟨trivial, ?_⟩
    exact quietRun_alone (c := ⟨op, .start⟩) fuel (alone_invoke hQ op) (by simp [Model.IAM.act]) (hc hn)
  have hF' : FullInv v cfg s0 (call v cfg σ op) := by rw [hrun]; exact hF.run _ hquiet
  refine ⟨r, by simp [State.result, hres], ?_, hF', hQ'⟩
  -- the log of the call
  have hlog : ∃ l, (call v cfg σ op).log = σ.log ++ l ∧ ∀ e ∈ l, e.id = σ.calls.length := by
    rw [hrun]
    simp only [Model.IAM.run, List.foldl_cons]
    obtain ⟨l, h1, h2⟩ := run_steps_log v cfg σ.calls.length fuel (act v cfg σ (.invoke op))
    simp only [Model.IAM.run] at h1
    exact ⟨l, by rw [h1]; simp [Model.IAM.act], h2⟩
  obtain ⟨l, hl1, hl2⟩ := hlog
  have hown := hF'.ser.own σ.calls.length _ hres
  rw [hl1, List.filter_append] at hown
  have hold : List.filter (fun e => e.id == σ.calls.length) σ.log = [] := by
    rw [List.filter_eq_nil_iff]
    intro e he
    have := hF.ser.ids e he
    simp; omega
  have hnew : List.filter (fun e => e.id == σ.calls.length) l = l := by
    rw [List.filter_eq_self]
    intro e he; simp [hl2 e he]
  rw [hold, hnew, List.nil_append] at hown
  have hrep := hF'.ser.rep
  rw [hl1, replay_append', hF.ser.rep] at hrep
  simp only [Option.bind_some] at hrep
  rw [hown] at hrep
  cases op with
  | create a =>
    simp only [ownLog, Op.isMut, if_true, decided] at hrep
    have hsp := mutateR_spec cfg σ.committed (.create a) rfl
    rcases replay_single hrep with ⟨hm, hr⟩ | ⟨hm, hs⟩
    · rw [hm] at hsp; simp only [callSpec]; rw [hsp, hr]
    · rw [hm] at hsp; simp only [callSpec]; rw [hsp, hs]
  | update k p =>
    simp only [ownLog, Op.isMut, if_true, decided] at hrep
    have hsp := mutateR_spec cfg σ.committed (.update k p) rfl
    rcases replay_single hrep with ⟨hm, hr⟩ | ⟨hm, hs⟩
    · rw [hm] at hsp; simp only [callSpec]; rw [hsp, hr]
    · rw [hm] at hsp; simp only [callSpec]; rw [hsp, hs]
  | delete k =>
    simp only [ownLog, Op.isMut, if_true, decided] at hrep
    have hsp := mutateR_spec cfg σ.committed (.delete k) rfl
    rcases replay_single hrep with ⟨hm, hr⟩ | ⟨hm, hs⟩
    · rw [hm] at hsp; simp only [callSpec]; rw [hsp, hr]
    · rw [hm] at hsp; simp only [callSpec]; rw [hsp, hs]
  | get k =>
    simp only [ownLog, Op.isMut] at hrep
    simp only [Bool.false_eq_true, if_false, replay, Option.some.injEq] at hrep
    have hA := After.start hF.inv (quiescent_noMut hQ k)
    have hA' := hA.run (.invoke (.get k) :: List.replicate fuel (.step σ.calls.length)) hquiet
      (by
        intro op' hmem hm
        simp only [List.mem_cons, List.mem_replicate] at hmem
        rcases hmem with h | ⟨_, h⟩
        · cases h; cases hm
        · cases h) (Nat.le_refl _)
    rw [← hrun] at hA'
    have := hA'.newok σ.calls.length _ (Nat.le_refl _) hres rfl
    simp only [NewPc] at this
    simp only [callSpec, Spec.IAM.apply, ← hrep, ← look_eq_spec]
    rw [this]
    cases look cfg σ.committed k <;> rfl
  | list =>
    simp only [ownLog, Op.isMut] at hrep
    simp only [Bool.false_eq_true, if_false, replay, Option.some.injEq] at hrep
    have hW0 : Wf cfg (act v cfg σ (.invoke .list)) := hF.inv.wf.act _
    have hT0 : TInv cfg (act v cfg σ (.invoke .list)) := hF.inv.typ.act _
    have hn : (act v cfg σ (.invoke .list)).calls[σ.calls.length]? = some ⟨.list, .start⟩ := by
      simp [Model.IAM.act]
    have := (list_stepN (v := v) fuel hW0 hT0 hn rfl trivial).2 _ hres
    simp only [ListPc, Model.IAM.act] at this
    exact ⟨hrep.symm, this⟩

end Vgw.Model.IAM
