/-
  C18 — base64 round trip (`b64Decode (b64Encode x) = some x`, for every byte string) and the
  tag-store helpers of the ACL-in-a-tag logic.
-/
import Vgw.Model.Proxy
import Vgw.Lemmas.Chunked
namespace Vgw.Lemmas.ProxyAcl
open Vgw Vgw.Model.Proxy

/-! ### base64 -/

theorem b64Val_char : ∀ n : Fin 64, b64Val (b64Char n.val) = some n.val := by decide

theorem b64Val_char' (n : Nat) (h : n < 64) : b64Val (b64Char n) = some n :=
  b64Val_char ⟨n, h⟩

theorem b64Char_ne_pad : ∀ n : Fin 64, b64Char n.val ≠ 61 := by decide

theorem b64Char_ne_pad' (n : Nat) (h : n < 64) : b64Char n ≠ 61 := b64Char_ne_pad ⟨n, h⟩

theorem ofNat_toNat (a : UInt8) : UInt8.ofNat a.toNat = a := by
  cases a; simp [UInt8.ofNat, UInt8.toNat]

private theorem byte1 (a b : UInt8) :
    UInt8.ofNat (a.toNat / 4 * 4 + (a.toNat % 4 * 16 + b.toNat / 16) / 16) = a := by
  have ha : a.toNat < 256 := a.toNat_lt
  have hb : b.toNat < 256 := b.toNat_lt
  have : a.toNat / 4 * 4 + (a.toNat % 4 * 16 + b.toNat / 16) / 16 = a.toNat := by omega
  rw [this]; exact ofNat_toNat a

private theorem byte1' (a : UInt8) :
    UInt8.ofNat (a.toNat / 4 * 4 + (a.toNat % 4 * 16) / 16) = a := by
  have ha : a.toNat < 256 := a.toNat_lt
  have : a.toNat / 4 * 4 + (a.toNat % 4 * 16) / 16 = a.toNat := by omega
  rw [this]; exact ofNat_toNat a

private theorem byte2 (a b c : UInt8) :
    UInt8.ofNat ((a.toNat % 4 * 16 + b.toNat / 16) % 16 * 16 + (b.toNat % 16 * 4 + c.toNat / 64) / 4) = b := by
  have ha : a.toNat < 256 := a.toNat_lt
  have hb : b.toNat < 256 := b.toNat_lt
  have hc : c.toNat < 256 := c.toNat_lt
  have : (a.toNat % 4 * 16 + b.toNat / 16) % 16 * 16 + (b.toNat % 16 * 4 + c.toNat / 64) / 4 = b.toNat := by omega
  rw [this]; exact ofNat_toNat b

private theorem byte2' (a b : UInt8) :
    UInt8.ofNat ((a.toNat % 4 * 16 + b.toNat / 16) % 16 * 16 + (b.toNat % 16 * 4) / 4) = b := by
  have ha : a.toNat < 256 := a.toNat_lt
  have hb : b.toNat < 256 := b.toNat_lt
  have : (a.toNat % 4 * 16 + b.toNat / 16) % 16 * 16 + (b.toNat % 16 * 4) / 4 = b.toNat := by omega
  rw [this]; exact ofNat_toNat b

private theorem byte3 (b c : UInt8) :
    UInt8.ofNat ((b.toNat % 16 * 4 + c.toNat / 64) % 4 * 64 + c.toNat % 64) = c := by
  have hb : b.toNat < 256 := b.toNat_lt
  have hc : c.toNat < 256 := c.toNat_lt
  have : (b.toNat % 16 * 4 + c.toNat / 64) % 4 * 64 + c.toNat % 64 = c.toNat := by omega
  rw [this]; exact ofNat_toNat c

/-- `base64.StdEncoding`: decoding what was encoded gives the bytes back, for every byte string. -/
theorem b64_roundtrip : ∀ x : Bytes, b64Decode (b64Encode x) = some x
  | [] => rfl
  | [a] => by
    have ha : a.toNat < 256 := a.toNat_lt
    simp only [b64Encode, b64Decode, b64Val_char' (a.toNat / 4) (by omega), b64Val_char' (a.toNat % 4 * 16) (by omega),
      if_true, byte1']
  | [a, b] => by
    have ha : a.toNat < 256 := a.toNat_lt
    have hb : b.toNat < 256 := b.toNat_lt
    have h3 : b64Char (b.toNat % 16 * 4) ≠ 61 := b64Char_ne_pad' _ (by omega)
    simp only [b64Encode, b64Decode, b64Val_char' (a.toNat / 4) (by omega),
      b64Val_char' (a.toNat % 4 * 16 + b.toNat / 16) (by omega),
      b64Val_char' (b.toNat % 16 * 4) (by omega), h3, if_false, if_true, byte1, byte2']
  | a :: b :: c :: rest => by
    have ih := b64_roundtrip rest
    have ha : a.toNat < 256 := a.toNat_lt
    have hb : b.toNat < 256 := b.toNat_lt
    have hc : c.toNat < 256 := c.toNat_lt
    have v1 := b64Val_char' (a.toNat / 4) (by omega)
    have v2 := b64Val_char' (a.toNat % 4 * 16 + b.toNat / 16) (by omega)
    have v3 := b64Val_char' (b.toNat % 16 * 4 + c.toNat / 64) (by omega)
    have v4 := b64Val_char' (c.toNat % 64) (by omega)
    have p3 : b64Char (b.toNat % 16 * 4 + c.toNat / 64) ≠ 61 := b64Char_ne_pad' _ (by omega)
    have p4 : b64Char (c.toNat % 64) ≠ 61 := b64Char_ne_pad' _ (by omega)
    simp only [b64Encode]
    cases hr : b64Encode rest with
    | nil =>
      have : rest = [] := (Vgw.b64Encode_eq_nil rest).mp hr
      subst this
      simp only [b64Decode, v1, v2, v3, v4, p3, p4, if_false, byte1, byte2, byte3]
    | cons e es =>
      rw [hr] at ih
      simp only [b64Decode, v1, v2, v3, v4, ih, byte1, byte2, byte3]

/-- length of the encoding: 4 characters per started group of 3 bytes -/
theorem b64Encode_length : ∀ x : Bytes, (b64Encode x).length = (x.length + 2) / 3 * 4
  | [] => rfl
  | [_] => by simp [b64Encode]
  | [_, _] => by simp [b64Encode]
  | a :: b :: c :: rest => by
    have ih := b64Encode_length rest
    simp only [b64Encode, List.length_cons, ih]; omega

/-! ### tag store -/

theorem find_setTag (k : String) (v : Bytes) (t : Tags) :
    (setTag k v t).find? (fun kv => kv.1 == k) = some (k, v) := by
  induction t with
  | nil => simp [setTag]
  | cons kv rest ih =>
    unfold setTag
    by_cases h : (kv.1 == k) = true
    · simp [h]
    · have h' : (kv.1 == k) = false := by simpa using h
      simp only [h', Bool.false_eq_true, if_false, List.find?_cons]
      exact ih

theorem find_setTag_other (k k' : String) (v : Bytes) (t : Tags) (h : k' ≠ k) :
    (setTag k v t).find? (fun kv => kv.1 == k') = t.find? (fun kv => kv.1 == k') := by
  induction t with
  | nil => simp [setTag, h.symm]
  | cons kv rest ih =>
    unfold setTag
    by_cases hk : (kv.1 == k) = true
    · have e : kv.1 = k := by simpa using hk
      have hkk : (k == k') = false := by simpa using h.symm
      rw [if_pos hk]
      simp only [List.find?_cons, e, hkk]
    · have h' : (kv.1 == k) = false := by simpa using hk
      simp only [h', Bool.false_eq_true, if_false, List.find?_cons]
      rw [ih]

/-- the tags not named `k` are exactly those of before, in order -/
theorem filter_setTag (k : String) (v : Bytes) (t : Tags) :
    (setTag k v t).filter (fun kv => kv.1 != k) = t.filter (fun kv => kv.1 != k) := by
  induction t with
  | nil => simp [setTag]
  | cons kv rest ih =>
    unfold setTag
    by_cases hk : (kv.1 == k) = true
    · have e : kv.1 = k := by simpa using hk
      rw [if_pos hk]
      simp [e]
    · have h' : (kv.1 == k) = false := by simpa using hk
      simp only [h', Bool.false_eq_true, if_false, List.filter_cons]
      rw [ih]

end Vgw.Lemmas.ProxyAcl
