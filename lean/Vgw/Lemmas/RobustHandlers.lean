/-
  Helper lemmas for C20, part 2: middlewares, handlers, posix paging loops, attributes, allocation.
-/
import Vgw.Lemmas.Robust
import Vgw.Model.Walk
namespace Vgw.Model.Robust
open Vgw Vgw.Go


theorem splitOn_length_ge_two (sep : UInt8) (s : Bytes) (h : sep ∈ s) : 2 ≤ (splitOn sep s).length := by
  induction s with
  | nil => simp at h
  | cons c cs ih =>
    unfold splitOn
    split
    · have := splitOn_ne_nil sep cs
      cases hs : splitOn sep cs with
      | nil => exact absurd hs this
      | cons f fs => simp
    · rename_i hne
      have hm : sep ∈ cs := by
        simp at h
        rcases h with h | h
        · exact absurd h.symm hne
        · exact h
      have := ih hm
      cases hs : splitOn sep cs with
      | nil => rw [hs] at this; simp at this
      | cons f fs => rw [hs] at this; simpa using this

theorem aclParser_no_panic_iff (path : Bytes) : noPanic (aclParserBucket path) = true ↔ (47 : UInt8) ∈ path := by
  unfold aclParserBucket
  rw [idx_isOk_iff]
  constructor
  · intro ⟨_, h⟩
    refine Decidable.byContradiction fun hn => ?_
    rw [splitOn_of_not_mem 47 path hn] at h
    simp at h
  · intro h
    have := splitOn_length_ge_two 47 path h
    omega

theorem decodeURL_fixed_slash (u p : Bytes) (h : decodeURL true u = some p) : (47 : UInt8) ∈ p := by
  unfold decodeURL at h
  split at h
  · simp at h
  · rename_i hpre
    split at h
    · simp at h
    · simp at h; subst h
      simp at hpre
      cases u with
      | nil => simp at hpre
      | cons c t =>
        have : (47 : UInt8) = c := by simpa [List.isPrefixOf] using hpre
        subst this; simp

theorem no_panic_aclParser_fixed (u : Bytes) : noPanic (decodeThenAclParser true u) = true := by
  unfold decodeThenAclParser
  split
  · rfl
  · rename_i p hp
    rw [noPanic_map]
    exact (aclParser_no_panic_iff p).mpr (decodeURL_fixed_slash u p hp)

theorem no_panic_copySourceConfined (src : Bytes) : noPanic (copySourceConfined src) = true := by
  unfold copySourceConfined
  simp only
  split
  · rename_i hi
    have hge := lastIndexOf_ge versionIdLit src
    have h0 : 0 ≤ lastIndexOf versionIdLit src := by omega
    have hb := lastIndexOf_bound versionIdLit src h0
    have hl : versionIdLit.length = 11 := rfl
    rw [sliceFrom_ok _ _ (by omega) (by omega), sliceTo_ok _ _ h0 (by omega)]
    simp only [Except.bind]
    split <;> rfl
  · rfl

theorem no_panic_trailingSlashFix (path key : Bytes) (hp : path ≠ []) (hk : key ≠ []) :
    noPanic (trailingSlashFix path key) = true := by
  unfold trailingSlashFix
  have hpl : 0 < path.length := List.length_pos_iff.mpr hp
  have hkl : 0 < key.length := List.length_pos_iff.mpr hk
  rw [sliceFrom_ok _ _ (by omega) (by omega)]
  simp only [Except.bind]
  split
  · rw [sliceFrom_ok _ _ (by omega) (by omega)]
    simp only
    split <;> rfl
  · rfl

theorem no_panic_bigDataHasKey (path : Bytes) : noPanic (bigDataHasKey path) = true := by
  unfold bigDataHasKey
  simp only
  split
  · rfl
  · rename_i h
    obtain ⟨x, hx⟩ := idx_ok_of (splitOn 47 path) 2 (by omega) (by omega)
    rw [hx]; rfl

theorem no_panic_putOwnershipControls_fixed (valid : Bytes → Bool) (rules : List Bytes) :
    noPanic (putOwnershipControls true valid rules) = true := by
  unfold putOwnershipControls
  simp only [if_true]
  split
  · rfl
  · rename_i h
    match rules, h with
    | [r], _ => simp only [idx_zero_cons, Except.bind]; split <;> rfl
    | [], h => simp at h
    | _ :: _ :: _, h => simp at h

theorem putOwnershipControls_asis_panics_iff (valid : Bytes → Bool) (rules : List Bytes) :
    noPanic (putOwnershipControls false valid rules) = false ↔ rules = [] := by
  unfold putOwnershipControls
  cases rules with
  | nil => simp [idx, Except.bind]
  | cons r t =>
    simp only [idx_zero_cons, Except.bind]
    simp
    split <;> rfl


theorem no_panic_grtIsValid_some (g : Grt) : noPanic (grtIsValid (some g)) = true := by
  unfold grtIsValid
  simp only [deref, Except.bind]
  repeat' split
  all_goals rfl

theorem no_panic_grantIsValid_fixed (g : Grant) : noPanic (grantIsValid true g) = true := by
  unfold grantIsValid
  split
  · rfl
  · cases hg : g.grantee with
    | none => simp
    | some x => simp; exact no_panic_grtIsValid_some x

theorem no_panic_grantIsValid_of_some (fixed : Bool) (g : Grant) (h : g.grantee.isSome = true) :
    noPanic (grantIsValid fixed g) = true := by
  unfold grantIsValid
  split
  · rfl
  · cases hg : g.grantee with
    | none => rw [hg] at h; simp at h
    | some x => simp; exact no_panic_grtIsValid_some x

theorem no_panic_aclIsValid_fixed (l : List Grant) : noPanic (aclIsValid true l) = true := by
  induction l with
  | nil => rfl
  | cons g rest ih =>
    unfold aclIsValid
    have := no_panic_grantIsValid_fixed g
    cases hv : grantIsValid true g with
    | error e => rw [hv] at this; simp at this
    | ok v =>
      simp only [Except.bind]
      split
      · rfl
      · exact ih

theorem no_panic_aclIsValid_of_grantees (fixed : Bool) (l : List Grant) (h : ∀ g ∈ l, g.grantee.isSome = true) :
    noPanic (aclIsValid fixed l) = true := by
  induction l with
  | nil => rfl
  | cons g rest ih =>
    unfold aclIsValid
    have := no_panic_grantIsValid_of_some fixed g (h g (by simp))
    cases hv : grantIsValid fixed g with
    | error e => rw [hv] at this; simp at this
    | ok v =>
      simp only [Except.bind]
      split
      · rfl
      · exact ih (fun g' hg' => h g' (by simp [hg']))

theorem no_panic_acpValidate_fixed (grants : List Grant) (owner : Option (Option Bytes)) :
    noPanic (acpValidate true grants owner) = true := by
  unfold acpValidate
  have := no_panic_aclIsValid_fixed grants
  cases hv : aclIsValid true grants with
  | error e => rw [hv] at this; simp at this
  | ok v =>
    simp only [Except.bind]
    repeat' split
    all_goals rfl

theorem no_panic_acpValidate_of_grantees (fixed : Bool) (grants : List Grant) (owner : Option (Option Bytes))
    (h : ∀ g ∈ grants, g.grantee.isSome = true) : noPanic (acpValidate fixed grants owner) = true := by
  unfold acpValidate
  have := no_panic_aclIsValid_of_grantees fixed grants h
  cases hv : aclIsValid fixed grants with
  | error e => rw [hv] at this; simp at this
  | ok v =>
    simp only [Except.bind]
    repeat' split
    all_goals rfl

theorem no_panic_putObjectAclGrants_fixed (l : List Grant) : noPanic (putObjectAclGrants true l) = true := by
  induction l with
  | nil => rfl
  | cons g rest ih =>
    unfold putObjectAclGrants
    cases hg : g.grantee with
    | none => simp
    | some x => simp [deref, Except.bind, noPanic_map]; exact ih

theorem putObjectAclGrants_asis_iff (l : List Grant) :
    noPanic (putObjectAclGrants false l) = true ↔ ∀ g ∈ l, g.grantee.isSome = true := by
  induction l with
  | nil => simp [putObjectAclGrants]
  | cons g rest ih =>
    unfold putObjectAclGrants
    cases hg : g.grantee with
    | none => simp [deref, Except.bind, hg]
    | some x => simp [deref, Except.bind, noPanic_map, hg]; exact ih

theorem no_panic_selectProgress_fixed (p : Option (Option Bool)) : noPanic (selectProgressEnabled true p) = true := by
  unfold selectProgressEnabled
  match p with
  | none => rfl
  | some none => rfl
  | some (some b) => rfl

theorem selectProgress_asis_panics_iff (p : Option (Option Bool)) :
    noPanic (selectProgressEnabled false p) = false ↔ p = some none := by
  match p with
  | none => simp [selectProgressEnabled]
  | some none => simp [selectProgressEnabled, deref]
  | some (some b) => simp [selectProgressEnabled, deref]

theorem no_panic_listPartsPage (parts : List Int) (maxParts : Int) : noPanic (listPartsPage parts maxParts) = true := by
  unfold listPartsPage
  have h1 : ∃ page, (if maxParts > 0 ∧ (parts.length : Int) > maxParts then sliceTo parts maxParts else .ok parts) = .ok page := by
    split
    · rename_i h
      exact ⟨_, sliceTo_ok _ _ (by omega) (by omega)⟩
    · exact ⟨_, rfl⟩
  obtain ⟨page, hp⟩ := h1
  rw [hp]
  have h2 : ∃ nx, (if page.length ≠ 0 then idx page ((page.length : Int) - 1) else .ok 0) = .ok nx := by
    by_cases h : page.length ≠ 0
    · rw [if_pos h]
      exact idx_ok_of page ((page.length : Int) - 1) (by omega) (by omega)
    · rw [if_neg h]; exact ⟨_, rfl⟩
  obtain ⟨nx, hn⟩ := h2
  simp only [Except.bind, hn]
  rfl

theorem maxBucketsOf_range (q : Bytes) (n : Int) (h : maxBucketsOf q = some n) : 1 ≤ n ∧ n ≤ 10000 := by
  unfold maxBucketsOf at h
  split at h
  · simp at h; omega
  · split at h
    · simp at h
    · split at h
      · simp at h
      · simp at h; omega

theorem no_panic_listBucketsLoop (maxBuckets : Int) (hm : 1 ≤ maxBuckets) (token : Bytes) (names : List Bytes) :
    ∀ acc, noPanic (listBucketsLoop maxBuckets token names acc) = true := by
  induction names with
  | nil => intro acc; rfl
  | cons name rest ih =>
    intro acc
    unfold listBucketsLoop
    split
    · rename_i h
      obtain ⟨x, hx⟩ := idx_ok_of acc ((acc.length : Int) - 1) (by omega) (by omega)
      rw [hx]; rfl
    · split
      · exact ih _
      · exact ih _

theorem no_panic_completeLoop (stored : Int → Option (Int × Bytes)) (parts : List CPart) (last minPart : Int) :
    ∀ (l : List CPart) (i prev total : Int), 0 ≤ i → i + l.length ≤ parts.length →
      noPanic (completeLoop stored parts last minPart l i prev total) = true := by
  intro l
  induction l with
  | nil => intro i prev total _ _; rfl
  | cons part rest ih =>
    intro i prev total h0 hlen
    simp at hlen
    unfold completeLoop
    cases hpn : part.partNumber with
    | none => rfl
    | some pn =>
      simp only [deref, Except.bind]
      split
      · rfl
      · split
        · rfl
        · split
          · rfl
          · split
            · rfl
            · obtain ⟨x, hx⟩ := idx_ok_of parts i h0 (by omega)
              rw [hx]
              simp only
              cases he : x.etag with
              | none => rfl
              | some e =>
                simp only
                split
                · rfl
                · exact ih _ _ _ (by omega) (by omega)

theorem no_panic_completeParts (stored : Int → Option (Int × Bytes)) (parts : List CPart) (minPart : Int) :
    noPanic (completeParts stored parts minPart) = true :=
  no_panic_completeLoop stored parts _ minPart parts 0 0 0 (by omega) (by omega)

theorem no_panic_versioning_roundtrip (status v : Bytes) (h : versioningAttr status = some v) :
    noPanic (versioningOf v) = true := by
  unfold versioningAttr at h
  split at h
  · simp at h; subst h; rfl
  · split at h
    · simp at h; subst h; rfl
    · simp at h

theorem no_panic_legalHold_roundtrip (status : Bool) : noPanic (legalHoldOf (legalHoldAttr status)) = true := by
  cases status <;> rfl

theorem extractChunkSize_range (line : Bytes) (n : Int) (h : extractChunkSize line = some n) :
    0 ≤ n ∧ n ≤ maxUnsignedChunkSize := by
  unfold extractChunkSize at h
  split at h
  · simp at h
  · split at h
    · simp at h
    · simp at h; omega

theorem alloc_bounded_unsignedChunk (line : Bytes) (n : Int) (arrived : Nat) (h : extractChunkSize line = some n) :
    ∃ m, chunkAlloc false n arrived = .ok m ∧ (m : Int) ≤ maxUnsignedChunkSize := by
  have ⟨h0, h1⟩ := extractChunkSize_range line n h
  unfold chunkAlloc makeBytes
  simp only [Bool.false_eq_true, if_false]
  have : n ≤ maxAlloc := by unfold maxAlloc; unfold maxUnsignedChunkSize at h1; omega
  rw [if_pos ⟨h0, this⟩]
  exact ⟨_, rfl, by omega⟩

theorem alloc_bounded_unsignedChunk_fixed (n : Int) (arrived : Nat) :
    ∃ m, chunkAlloc true n arrived = .ok m ∧ m ≤ 2 * arrived + 512 := by
  unfold chunkAlloc
  simp only [if_true]
  exact ⟨_, rfl, by have := Nat.min_le_left arrived n.toNat; omega⟩


theorem no_panic_uploadsLoop (fixed : Bool) (uploads : List Upload) (maxUploads : Int) (keyMarker uploadIdMarker : Bytes) :
    ∀ (fuel : Nat) (i : Int) (res : List Upload), 0 ≤ i →
      (fixed = true ∨ (keyMarker = [] ∧ i = res.length)) →
      noPanic (uploadsLoop fixed uploads maxUploads keyMarker uploadIdMarker fuel i res) = true := by
  intro fuel
  induction fuel with
  | zero => intro i res _ _; rfl
  | succ fuel ih =>
    intro i res h0 hinv
    unfold uploadsLoop
    split
    · rfl
    · rename_i hlt
      have hlt' : i < uploads.length := by omega
      split
      · rfl
      · rename_i hmax
        obtain ⟨u, hu⟩ := idx_ok_of uploads i h0 hlt'
        rw [hu]
        simp only [Except.bind]
        split
        · rename_i hskip
          apply ih _ _ (by omega)
          rcases hinv with hf | ⟨hk, _⟩
          · exact Or.inl hf
          · exact absurd hk hskip.1
        · split
          · rename_i htr
            have hj : ∃ a, idx res (if fixed = true then (res.length : Int) - 1 else i - 1) = .ok a := by
              rcases hinv with hf | ⟨_, hi⟩
              · rw [if_pos hf]; exact idx_ok_of _ _ (by omega) (by omega)
              · split
                · exact idx_ok_of _ _ (by omega) (by omega)
                · exact idx_ok_of _ _ (by omega) (by omega)
            obtain ⟨a, ha⟩ := hj
            simp only [ha]
            rfl
          · apply ih _ _ (by omega)
            rcases hinv with hf | ⟨hk, hi⟩
            · exact Or.inl hf
            · exact Or.inr ⟨hk, by simp; omega⟩

theorem no_panic_listMultipartUploads_fixed (uploads : List Upload) (keyMarkerInd maxUploads : Int)
    (keyMarker uploadIdMarker : Bytes) (h : -1 ≤ keyMarkerInd) :
    noPanic (listMultipartUploadsPage true uploads keyMarkerInd maxUploads keyMarker uploadIdMarker) = true :=
  no_panic_uploadsLoop true uploads maxUploads keyMarker uploadIdMarker _ _ [] (by omega) (Or.inl rfl)

theorem no_panic_listMultipartUploads_asis_no_key_marker (uploads : List Upload) (maxUploads : Int) (uploadIdMarker : Bytes) :
    noPanic (listMultipartUploadsPage false uploads (-1) maxUploads [] uploadIdMarker) = true :=
  no_panic_uploadsLoop false uploads maxUploads [] uploadIdMarker _ _ [] (by omega) (Or.inr ⟨rfl, by simp⟩)

def u (k : UInt8) : Upload := ⟨[k], [k]⟩
/-- four uploads, key-marker = the first key, max-uploads = 1 -/
theorem listMultipartUploads_asis_witness :
    noPanic (listMultipartUploadsPage false [u 97, u 98, u 99, u 100] 0 1 [97] []) = false := by decide



theorem no_panic_copySourceOfRequest (hdr : Bytes) : noPanic (copySourceOfRequest hdr) = true := by
  unfold copySourceOfRequest controllerCopySource
  cases hdr with
  | nil => rfl
  | cons c t =>
    simp only [List.length_cons, idx_zero_cons, Except.bind]
    have hpos : (t.length + 1 > 0) := by omega
    rw [if_pos hpos]
    by_cases hc : c = 47
    · simp only [if_pos hc]
      rw [sliceFrom_ok _ 1 (by omega) (by simp; omega)]
      simp only
      split
      · rfl
      · rename_i hne
        rw [noPanic_map]; exact no_panic_parseCopySource _ hne
    · simp only [if_neg hc]
      split
      · rfl
      · rename_i hne
        rw [noPanic_map]; exact no_panic_parseCopySource _ hne

theorem no_panic_policyFirstCharBad (bin : Bytes) : noPanic (policyFirstCharBad bin) = true := by
  unfold policyFirstCharBad
  split
  · rfl
  · rename_i h
    obtain ⟨x, hx⟩ := idx_ok_of bin 0 (by omega) (by omega)
    rw [hx]; rfl

theorem prefix_len (a : Bytes) (h : s3ColonLit.isPrefixOf a = true) : 3 ≤ a.length := by
  have := (List.isPrefixOf_iff_prefix.mp h).length_le
  simpa [s3ColonLit] using this

theorem no_panic_actionIsValid (sup psup : Bytes → Bool) (a : Bytes) : noPanic (actionIsValid sup psup a) = true := by
  unfold actionIsValid
  split
  · rfl
  · rename_i h
    have hl := prefix_len a (by simpa using h)
    split
    · rfl
    · obtain ⟨x, hx⟩ := idx_ok_of a ((a.length : Int) - 1) (by omega) (by omega)
      rw [hx]; simp only [Except.bind]; split <;> rfl

/-- IsObjectAction is only ever called on actions that passed IsValid (Actions.Add) -/
theorem no_panic_isObjectAction_of_valid (sup psup osup opsup : Bytes → Bool) (a : Bytes)
    (h : actionIsValid sup psup a = .ok true) : noPanic (isObjectAction osup opsup a) = true := by
  unfold actionIsValid at h
  split at h
  · simp at h
  · rename_i hp
    have hl := prefix_len a (by simpa using hp)
    unfold isObjectAction
    split
    · rfl
    · obtain ⟨x, hx⟩ := idx_ok_of a ((a.length : Int) - 1) (by omega) (by omega)
      rw [hx]; simp only [Except.bind]; split <;> rfl

theorem isObjectAction_empty_panics (osup opsup : Bytes → Bool) : noPanic (isObjectAction osup opsup []) = false := by
  unfold isObjectAction
  simp [allActionsLit, idx, Except.bind]

theorem lastIndexOf_single (c : UInt8) (s : Bytes) :
    lastIndexOf [c] s = match lastIndexByte c s with | some i => (i : Int) | none => -1 := by
  induction s with
  | nil => simp [lastIndexOf, lastIndexByte]
  | cons x xs ih =>
    unfold lastIndexOf lastIndexByte
    simp only
    rw [ih]
    cases h : lastIndexByte c xs with
    | some i => simp
    | none =>
      simp
      by_cases hx : x = c
      · subst hx; simp
      · have : ¬ c = x := fun e => hx e.symm
        simp [hx, this]

theorem walkRoot_refines (pfx : Bytes) : walkRoot pfx = .ok (Vgw.Model.Walk.rootOf pfx) := by
  unfold walkRoot Vgw.Model.Walk.rootOf
  have hs : Vgw.Model.Walk.slash = 47 := rfl
  rw [hs]
  by_cases hc : pfx.contains 47 = true
  · rw [if_pos hc]
    simp only
    rw [lastIndexOf_single]
    cases h : lastIndexByte 47 pfx with
    | none => simp
    | some i =>
      cases i with
      | zero => simp
      | succ k =>
        simp only
        have hb : (k + 1 : Nat) + 1 ≤ pfx.length := by
          have := lastIndexOf_bound [47] pfx (by rw [lastIndexOf_single, h]; simp; omega)
          rw [lastIndexOf_single, h] at this
          simp at this; omega
        rw [if_pos (by omega)]
        rw [sliceTo_ok _ _ (by omega) (by omega)]
        simp [Except.map]
  · rw [if_neg hc]
    have : lastIndexByte 47 pfx = none := by
      have hn : (47 : UInt8) ∉ pfx := by simpa using hc
      clear hc
      induction pfx with
      | nil => rfl
      | cons x xs ih =>
        simp at hn
        unfold lastIndexByte
        rw [ih hn.2]
        simp; exact fun e => hn.1 e.symm
    rw [this]

end Vgw.Model.Robust
