/-
  Lemmas about Model.ChunkSigned on rendered (valid) streams: header parsing and the two core
  inductions — `par_chunks` (parseAndRemoveChunkInfo on the whole rest of a valid stream from a
  chunk boundary on: the payload, then a clean EOF) and `par_prefix` (on a proper prefix of it: no
  error, and at most one header's worth of bytes in the stash).
-/
import Vgw.Lemmas.ChunkMerge
namespace Vgw.Lemmas.ChunkSigned
open Vgw Vgw.Spec.Chunked Vgw.Model

/-- the reader configuration that belongs to the spec parameters -/
def signedCfg (P : Params) (tr : Bool) (csumLen : Nat) : ChunkSigned.Cfg :=
  { sha := P.sha, hmac := P.hmac, csum := P.csum, signingKey := P.key, amzDate := P.amzDate, scope := P.scope,
    trailer := if tr then P.trailerName else [], csumLen := csumLen }

/-- side conditions on the hash family / trailer name under which the signed reader can work at all -/
structure SignedHyps (P : Params) (tr : Bool) (csumLen : Nat) : Prop where
  hmac_ne : ∀ k m, P.hmac k m ≠ []
  name_ne : P.trailerName ≠ []
  name_colon : (58 : UInt8) ∉ P.trailerName
  csum_len : ∀ x, (P.csum x).length = csumLen
  /-- every chunk header of a valid stream (with the CRLF in front of it and, for the final chunk,
  the trailer behind it) fits the 1024 bytes the reader is willing to stash -/
  hdr_small : ∀ prev d acc, 2 + maxSizeDigits + sigIntro.length + (chunkSig P prev d).length + 2 +
    (P.trailerName.length + 1 + (checksumB64 P acc).length + 2 + trailerSigIntro.length +
      (trailerSig P (chunkSig P prev d) acc).length + 2) + 2 ≤ ChunkSigned.maxHeaderSize

theorem sigIntro_eq : sigIntro = 59 :: ChunkSigned.chunkSignatureLit := by decide
theorem trailerSigIntro_eq : trailerSigIntro = ChunkSigned.trailerSignatureHeader ++ [58] := by decide

theorem chunkSig_ne_nil {P : Params} (hne : ∀ k m, P.hmac k m ≠ []) (prev d : Bytes) : chunkSig P prev d ≠ [] :=
  hexEncode_ne_nil _ (hne _ _)

theorem chunkSig_no_cr (P : Params) (prev d : Bytes) : (13 : UInt8) ∉ chunkSig P prev d :=
  hexEncode_not_mem _ 13 (Or.inl (by decide))

theorem trailerSig_no_cr (P : Params) (prev d : Bytes) : (13 : UInt8) ∉ trailerSig P prev d :=
  hexEncode_not_mem _ 13 (Or.inl (by decide))

theorem parseCore_chunk (cfg : ChunkSigned.Cfg) (h sig rest : Bytes) (n : Nat) (hh : IsHex h n) (hn0 : n ≠ 0)
    (hnb : n ≤ chunkBound) (hsig : (13 : UInt8) ∉ sig) :
    ChunkSigned.parseCore cfg (h ++ sigIntro ++ sig ++ crlf ++ rest) = .ok ({ chunkSize := n, sig := sig }, rest) := by
  have e : h ++ sigIntro ++ sig ++ crlf ++ rest =
      h ++ 59 :: (ChunkSigned.chunkSignatureLit ++ (sig ++ 13 :: ([10] ++ rest))) := by
    simp [sigIntro_eq, crlf]
  rw [e]
  unfold ChunkSigned.parseCore
  rw [readUntil_append 59 h _ (isHex_not_mem hh 59 not_hex_59)]
  simp only [parseIntHex64_of_isHex hh hnb, readAndSkip_append, readUntil_append 13 sig _ hsig]
  have hn0' : ¬ ((n : Int) = 0) := by omega
  have hnn : ¬ ((n : Int) < 0) := by omega
  simp [readAndSkip, hnn]
  intro h0; exact absurd h0 hn0

/-- what follows the final chunk's signature line -/
def finalTail (P : Params) (tr : Bool) (sig acc : Bytes) : Bytes :=
  (if tr then P.trailerName ++ [58] ++ checksumB64 P acc ++ crlf ++ trailerSigIntro ++ trailerSig P sig acc ++ crlf
   else []) ++ crlf

theorem parseCore_final (P : Params) (tr : Bool) (L : Nat) (H : SignedHyps P tr L) (hz sig acc : Bytes)
    (hh : IsHex hz 0) (hsig : (13 : UInt8) ∉ sig) :
    ChunkSigned.parseCore (signedCfg P tr L) (hz ++ sigIntro ++ sig ++ crlf ++ finalTail P tr sig acc) =
      .ok (ChunkSigned.Parsed.mk 0 sig (if tr then trailerSig P sig acc else [])
            (if tr then checksumB64 P acc else []), []) := by
  cases tr with
  | false =>
    have e : hz ++ sigIntro ++ sig ++ crlf ++ finalTail P false sig acc =
        hz ++ 59 :: (ChunkSigned.chunkSignatureLit ++ (sig ++ 13 :: ([10, 13, 10] ++ []))) := by
      simp [sigIntro_eq, crlf, finalTail]
    rw [e]
    unfold ChunkSigned.parseCore
    rw [readUntil_append 59 hz _ (isHex_not_mem hh 59 not_hex_59)]
    simp only [parseIntHex64_of_isHex hh (by unfold chunkBound; omega), readAndSkip_append,
      readUntil_append 13 sig _ hsig]
    simp [signedCfg]
  | true =>
    have e : hz ++ sigIntro ++ sig ++ crlf ++ finalTail P true sig acc =
        hz ++ 59 :: (ChunkSigned.chunkSignatureLit ++ (sig ++ 13 :: ([10] ++ (P.trailerName ++ 58 ::
          (checksumB64 P acc ++ 13 :: ([10] ++ (ChunkSigned.trailerSignatureHeader ++ 58 ::
            (trailerSig P sig acc ++ 13 :: ([10, 13, 10] ++ []))))))))) := by
      simp [sigIntro_eq, crlf, finalTail, trailerSigIntro_eq]
    rw [e]
    unfold ChunkSigned.parseCore
    rw [readUntil_append 59 hz _ (isHex_not_mem hh 59 not_hex_59)]
    simp only [parseIntHex64_of_isHex hh (by unfold chunkBound; omega), readAndSkip_append,
      readUntil_append 13 sig _ hsig]
    have hcs : (13 : UInt8) ∉ checksumB64 P acc := b64Encode_not_mem _ 13 (by decide) (by decide)
    have hvalid : ChunkSigned.isValidChecksum (signedCfg P true L) (checksumB64 P acc) = true := by
      simp [ChunkSigned.isValidChecksum, checksumB64, b64DecodedLen_encode, H.csum_len, signedCfg]
    have h58 : (58 : UInt8) ∉ ChunkSigned.trailerSignatureHeader := by decide
    unfold ChunkSigned.parseTrailer
    simp only [readAndSkip_append, readUntil_append 58 P.trailerName _ H.name_colon,
      readUntil_append 13 _ _ hcs, readUntil_append 58 _ _ h58, readUntil_append 13 _ _ (trailerSig_no_cr P sig acc),
      hvalid]
    simp [signedCfg, H.name_ne, readAndSkip]

theorem payloadAlgo_eq : payloadAlgo = ChunkSigned.streamPayloadAlgo := by decide
theorem trailerAlgo_eq : trailerAlgo = ChunkSigned.streamPayloadTrailerAlgo := by decide
theorem emptyHashHex_eq : emptyHashHex = ChunkSigned.zeroLenSig := by decide

theorem checkSignature_ok (P : Params) (tr : Bool) (L : Nat) (st : ChunkSigned.State)
    (h : st.parsedSig = chunkSig P st.prevSig st.chunkAcc) :
    ChunkSigned.checkSignature (signedCfg P tr L) st =
      .ok { st with chunkAcc := [], prevSig := st.parsedSig, parsedSig := [] } := by
  have e : hexEncode ((signedCfg P tr L).hmac (signedCfg P tr L).signingKey
      (ChunkSigned.chunkStringToSign (signedCfg P tr L) st)) = st.parsedSig := by
    rw [h]
    simp [chunkSig, ChunkSigned.chunkStringToSign, ChunkSigned.stringToSignPrefix, signedCfg, payloadAlgo_eq,
      emptyHashHex_eq]
  unfold ChunkSigned.checkSignature
  simp only [e]
  simp


open Vgw.Lemmas.ChunkParse Vgw.Lemmas.ChunkMerge

def preOf (first : Bool) : Bytes := if first then [] else [13, 10]

/-- `parseHeader` on `[CRLF] header rest` when `parseCore` consumes exactly `header` -/
theorem parseHeader_of_core (cfg : ChunkSigned.Cfg) (first : Bool) (X rest : Bytes) (r : ChunkSigned.Parsed)
    (h : ChunkSigned.parseCore cfg (X ++ rest) = .ok (r, rest)) :
    ChunkSigned.parseHeader cfg first (preOf first ++ X ++ rest) = .ok (r, rest) := by
  unfold ChunkSigned.parseHeader preOf
  cases first with
  | true => simpa using h
  | false =>
    simp only [Bool.false_eq_true, if_false, List.append_assoc]
    rw [readAndSkip_append]
    exact h

/-- a proper prefix of a complete header is an incomplete header -/
theorem parseHeader_prefix_needMore (cfg : ChunkSigned.Cfg) (first : Bool) (A F X : Bytes) (r : ChunkSigned.Parsed)
    (h : ChunkSigned.parseHeader cfg first A = .ok (r, [])) (hF : F ++ X = A) (hX : X ≠ []) :
    ChunkSigned.parseHeader cfg first F = .error (.rd .eof) := by
  cases hp : ChunkSigned.parseHeader cfg first F with
  | ok rr =>
    obtain ⟨r', rest'⟩ := rr
    have := parseHeader_fwd_ok cfg first F X r' rest' hp
    rw [hF, h] at this
    simp at this
    exact absurd this.2.2 hX
  | error pe =>
    cases pe with
    | rd x =>
      cases x with
      | eof => rfl
      | mismatch =>
        have := parseHeader_fwd_err cfg first F X _ (by simp [Definite]) hp
        rw [hF, h] at this; simp at this
    | fail x =>
      have := parseHeader_fwd_err cfg first F X _ (by simp [Definite]) hp
      rw [hF, h] at this; simp at this

/-- header of a data chunk at a chunk boundary (nothing stashed) -/
theorem hdr_chunk (cfg : ChunkSigned.Cfg) (st : ChunkSigned.State) (hdr rest sig : Bytes) (n : Int)
    (hst : st.stash = [])
    (hcore : ChunkSigned.parseCore cfg (hdr ++ 13 :: 10 :: rest) = .ok ({ chunkSize := n, sig := sig }, rest))
    (hn0 : n ≠ 0) (h13 : (13 : UInt8) ∉ hdr) :
    ChunkSigned.parseChunkHeaderBytes cfg st (preOf st.isFirstHeader ++ (hdr ++ 13 :: 10 :: rest)) =
      ({ st with isFirstHeader := false }, .chunk n sig (((preOf st.isFirstHeader).length + hdr.length + 2 : Nat) : Int)) := by
  have hph := parseHeader_of_core cfg st.isFirstHeader (hdr ++ [13, 10]) rest _ (by simpa using hcore)
  unfold ChunkSigned.parseChunkHeaderBytes
  simp only [hst, List.length_nil, ChunkSigned.maxHeaderSize, List.nil_append]
  have e : preOf st.isFirstHeader ++ (hdr ++ 13 :: 10 :: rest) = preOf st.isFirstHeader ++ (hdr ++ [13, 10]) ++ rest := by simp
  rw [e, hph]
  have hdrop : List.drop (if st.isFirstHeader = true then 0 else 2) (preOf st.isFirstHeader ++ (hdr ++ [13, 10]) ++ rest) =
      hdr ++ 13 :: 10 :: rest := by
    unfold preOf; cases st.isFirstHeader <;> simp
  simp only [hn0, if_false, hdrop, indexCRLF_append _ _ h13]
  unfold preOf
  cases st with
  | mk a b c d e f g h i j =>
    simp only at hst
    subst hst
    cases j <;> simp <;> omega

/-- the final chunk header at a chunk boundary -/
theorem hdr_final (cfg : ChunkSigned.Cfg) (st : ChunkSigned.State) (X : Bytes) (r : ChunkSigned.Parsed)
    (hst : st.stash = []) (hcore : ChunkSigned.parseCore cfg X = .ok (r, [])) (hr : r.chunkSize = 0) :
    ChunkSigned.parseChunkHeaderBytes cfg st (preOf st.isFirstHeader ++ X) =
      (if cfg.trailer ≠ [] then { st with trailerSig := r.trailerSig, parsedChecksum := r.checksum } else st,
        .chunk 0 r.sig 0) := by
  have hph := parseHeader_of_core cfg st.isFirstHeader X [] r (by simpa using hcore)
  simp only [List.append_nil] at hph
  unfold ChunkSigned.parseChunkHeaderBytes
  simp only [hst, List.length_nil, ChunkSigned.maxHeaderSize, List.nil_append]
  rw [hph]
  cases st with
  | mk a b c d e f g h i j =>
    simp only at hst
    subst hst
    simp [hr]

/-- a proper prefix of a header at a chunk boundary: everything goes to the stash -/
theorem hdr_incomplete (cfg : ChunkSigned.Cfg) (st : ChunkSigned.State) (A F X : Bytes) (r : ChunkSigned.Parsed)
    (hst : st.stash = []) (he : st.isEOF = false)
    (h : ChunkSigned.parseHeader cfg st.isFirstHeader A = .ok (r, [])) (hF : F ++ X = A) (hX : X ≠ []) :
    ChunkSigned.parseChunkHeaderBytes cfg st F = ({ st with stash := F }, .skip) := by
  have hn := parseHeader_prefix_needMore cfg st.isFirstHeader A F X r h hF hX
  have := hdr_needMore cfg st F (by simp [hst, ChunkSigned.maxHeaderSize]) he (by simpa [hst] using hn)
  simpa [hst] using this

theorem par_unfold_final (cfg : ChunkSigned.Cfg) (fuel : Nat) (st st1 st2 st3 : ChunkSigned.State)
    (p sig : Bytes) (off : Int)
    (hchk : (if st.parsedSig ≠ [] then ChunkSigned.checkSignature cfg st else .ok st) = .ok st1)
    (hhdr : ChunkSigned.parseChunkHeaderBytes cfg st1 p = (st2, .chunk 0 sig off)) (hne : sig ≠ [])
    (hsig : ChunkSigned.checkSignature cfg { st2 with parsedSig := sig, chunkAcc := [] } = .ok st3)
    (hver : cfg.trailer ≠ [] → ChunkSigned.verifyChecksum cfg st3 = .ok () ∧
      ChunkSigned.verifyTrailerSignature cfg st3 = .ok ()) :
    ChunkSigned.parseAndRemove cfg (fuel + 1) st p = (st3, ⟨[], .eof⟩) := by
  rw [ChunkSigned.parseAndRemove]
  unfold ChunkSigned.parStep
  simp only [hchk]
  unfold ChunkSigned.parBody
  rw [hhdr]
  simp only [if_neg hne, show ((0 : Int) == 0) = true from rfl, if_true, ChunkSigned.finalChunk, hsig]
  by_cases ht : cfg.trailer = []
  · simp [ht]
  · simp [ht, (hver ht).1, (hver ht).2]

theorem par_unfold_cont (cfg : ChunkSigned.Cfg) (fuel : Nat) (st st1 st2 : ChunkSigned.State)
    (p sig : Bytes) (n off : Int)
    (hchk : (if st.parsedSig ≠ [] then ChunkSigned.checkSignature cfg st else .ok st) = .ok st1)
    (hhdr : ChunkSigned.parseChunkHeaderBytes cfg st1 p = (st2, .chunk n sig off)) (hne : sig ≠ []) (hn0 : n ≠ 0) :
    ChunkSigned.parseAndRemove cfg (fuel + 1) st p =
      cont cfg (ChunkSigned.parseAndRemove cfg fuel) { st2 with parsedSig := sig } n off p := by
  rw [ChunkSigned.parseAndRemove]
  unfold ChunkSigned.parStep
  simp only [hchk]
  exact parBody_chunk cfg _ st1 st2 p sig n off hhdr hne hn0

/-- `cont` when the buffer ends inside (or at the end of) the chunk data -/
theorem cont_data (cfg : ChunkSigned.Cfg) (K : ChunkSigned.State → Bytes → Res) (sL : ChunkSigned.State)
    (hdrLen : Nat) (n : Nat) (hdr data : Bytes) (hl : hdr.length = hdrLen) (hle : data.length ≤ n) :
    cont cfg K sL n (hdrLen : Int) (hdr ++ data) =
      (ChunkSigned.hashWrite cfg { sL with chunkDataLeft := (n : Int) - data.length } data, ⟨data, .nil⟩) := by
  unfold cont
  have c1 : ¬ (((hdrLen : Nat) : Int) < 0 ∨ (((hdr ++ data).length : Nat) : Int) < (hdrLen : Int)) := by
    simp only [List.length_append]; omega
  have hd : List.drop (hdrLen : Int).toNat (hdr ++ data) = data := by
    rw [Int.toNat_natCast, ← hl]; simp
  have c2 : ¬ ((data.length : Int) > (n : Int)) := by omega
  simp only [c1, if_false, hd, c2]

/-- `cont` when the chunk ends inside the buffer and the recursive call ends well -/
theorem cont_rec (cfg : ChunkSigned.Cfg) (K : ChunkSigned.State → Bytes → Res) (sL st4 : ChunkSigned.State)
    (hdrLen : Nat) (hdr d more out : Bytes) (s : ChunkSigned.Status) (hl : hdr.length = hdrLen) (hmore : more ≠ [])
    (hrec : K (ChunkSigned.hashWrite cfg { sL with chunkDataLeft := 0 } d) more = (st4, ⟨out, s⟩))
    (hs : s = .nil ∨ s = .eof)
    (hsum : (d.length : Int) + (out.length : Int) ≤ ChunkSigned.intMax) :
    cont cfg K sL (d.length : Int) (hdrLen : Int) (hdr ++ (d ++ more)) = (st4, ⟨d ++ out, s⟩) := by
  unfold cont
  have hmlen : 0 < more.length := List.length_pos_iff.2 hmore
  have c1 : ¬ (((hdrLen : Nat) : Int) < 0 ∨ (((hdr ++ (d ++ more)).length : Nat) : Int) < (hdrLen : Int)) := by
    simp only [List.length_append]; omega
  have hd : List.drop (hdrLen : Int).toNat (hdr ++ (d ++ more)) = d ++ more := by
    rw [Int.toNat_natCast, ← hl]; simp
  have c2 : (((d ++ more).length : Nat) : Int) > (d.length : Int) := by simp only [List.length_append]; omega
  have c3 : ¬ ((d.length : Int) < 0) := by omega
  have hd' : List.drop hdrLen (hdr ++ (d ++ more)) = d ++ more := by rw [← hl]; simp
  simp only [c1, if_false, Int.toNat_natCast, hd', c2, if_true, c3, List.take_left, List.drop_left]
  rw [hrec, joinRec_eq_prepend _ _ _ (by simpa using (by omega : ¬ ((d.length : Int) + (out.length : Int) > ChunkSigned.intMax)))]
  unfold ChunkSigned.prepend
  rcases hs with rfl | rfl <;> rfl

theorem entry_check (P : Params) (tr : Bool) (L : Nat) (H : SignedHyps P tr L) (st : ChunkSigned.State)
    (hfirst : st.isFirstHeader = true → st.parsedSig = [] ∧ st.chunkAcc = [])
    (hnext : st.isFirstHeader = false → st.parsedSig = chunkSig P st.prevSig st.chunkAcc) :
    ∃ st1, (if st.parsedSig ≠ [] then ChunkSigned.checkSignature (signedCfg P tr L) st else .ok st) = .ok st1 ∧
      st1.prevSig = (if st.isFirstHeader then st.prevSig else st.parsedSig) ∧ st1.chunkAcc = [] ∧
      st1.parsedSig = [] ∧ st1.stash = st.stash ∧ st1.isFirstHeader = st.isFirstHeader ∧ st1.csumAcc = st.csumAcc ∧
      st1.isEOF = st.isEOF := by
  cases hf : st.isFirstHeader with
  | true =>
    obtain ⟨h1, h2⟩ := hfirst hf
    exact ⟨st, by simp [h1], by simp, h2, h1, rfl, hf, rfl, rfl⟩
  | false =>
    have h := hnext hf
    have hne : st.parsedSig ≠ [] := by rw [h]; exact chunkSig_ne_nil H.hmac_ne _ _
    refine ⟨{ st with chunkAcc := [], prevSig := st.parsedSig, parsedSig := [] }, ?_, ?_⟩
    · rw [if_pos hne, checkSignature_ok P tr L st h]
    · simp [hf]

theorem payloadOf_cons (h d : Bytes) (cs : List Chunk) : payloadOf ((h, d) :: cs) = d ++ payloadOf cs := by
  simp [payloadOf]

theorem verifyTrailer_ok (P : Params) (L : Nat) (st : ChunkSigned.State) (acc : Bytes)
    (h1 : st.parsedChecksum = checksumB64 P acc) (h2 : st.trailerSig = trailerSig P st.prevSig acc) :
    ChunkSigned.verifyTrailerSignature (signedCfg P true L) st = .ok () := by
  have : hexEncode ((signedCfg P true L).hmac (signedCfg P true L).signingKey
      (ChunkSigned.trailerStringToSign (signedCfg P true L) st)) = trailerSig P st.prevSig acc := by
    simp [trailerSig, ChunkSigned.trailerStringToSign, ChunkSigned.stringToSignPrefix, signedCfg, trailerAlgo_eq, h1]
  simp [ChunkSigned.verifyTrailerSignature, this, h2]

theorem verifyChecksum_ok (P : Params) (L : Nat) (st : ChunkSigned.State) (acc : Bytes)
    (h1 : st.parsedChecksum = checksumB64 P acc) (h2 : st.csumAcc = acc) :
    ChunkSigned.verifyChecksum (signedCfg P true L) st = .ok () := by
  simp [ChunkSigned.verifyChecksum, h1, h2, checksumB64, signedCfg]


theorem split_prefix (F G Hd T : Bytes) (h : F ++ G = Hd ++ T) :
    (F.length < Hd.length ∧ ∃ X, X ≠ [] ∧ F ++ X = Hd) ∨ (∃ F', F = Hd ++ F' ∧ F' ++ G = T) := by
  rcases List.append_eq_append_iff.1 h with ⟨a, h1, h2⟩ | ⟨c, h1, h2⟩
  · -- Hd = F ++ a
    by_cases ha : a = []
    · subst ha; right; exact ⟨[], by simp [h1], by simpa using h2⟩
    · left
      refine ⟨?_, a, ha, h1.symm⟩
      have := List.length_pos_iff.2 ha
      rw [h1]; simp; omega
  · right; exact ⟨c, h1, h2.symm⟩

/-- the hypotheses under which `parseAndRemoveChunkInfo` stands at a chunk boundary of a valid stream -/
structure AtBoundary (P : Params) (tr : Bool) (st : ChunkSigned.State) (acc : Bytes) : Prop where
  stash : st.stash = []
  first : st.isFirstHeader = true → st.parsedSig = [] ∧ st.chunkAcc = []
  next : st.isFirstHeader = false → st.parsedSig = chunkSig P st.prevSig st.chunkAcc
  csum : tr = true → st.csumAcc = acc

def prevOf (st : ChunkSigned.State) : Bytes := if st.isFirstHeader then st.prevSig else st.parsedSig

/-- **The core induction**: `parseAndRemoveChunkInfo` on the whole rest of a valid signed stream
(from a chunk boundary on) yields the rest of the payload and a clean EOF. -/
theorem par_chunks (P : Params) (tr : Bool) (L : Nat) (H : SignedHyps P tr L) :
    ∀ (cs : List Chunk) (hz : Bytes) (st : ChunkSigned.State) (acc : Bytes) (fuel : Nat),
      (∀ c ∈ cs, IsHex c.1 c.2.length ∧ c.2 ≠ []) → IsHex hz 0 → (payloadOf cs).length ≤ chunkBound →
      cs.length < fuel → AtBoundary P tr st acc →
      ∃ st', ChunkSigned.parseAndRemove (signedCfg P tr L) fuel st
        (preOf st.isFirstHeader ++ renderSigned P tr (prevOf st) acc cs hz) = (st', ⟨payloadOf cs, .eof⟩) := by
  intro cs
  induction cs with
  | nil =>
    intro hz st acc fuel _ hhz _ hfuel hb
    obtain ⟨fuel, rfl⟩ : ∃ f, fuel = f + 1 := ⟨fuel - 1, by omega⟩
    obtain ⟨st1, hchk, hprev, hca, hps, hstash, hfh, hcsum, _⟩ := entry_check P tr L H st hb.first hb.next
    generalize hprevdef : prevOf st = prev at *
    have hprev' : st1.prevSig = prev := by rw [hprev, ← hprevdef]; rfl
    have hcore := parseCore_final P tr L H hz (chunkSig P prev []) acc hhz (chunkSig_no_cr P prev [])
    have hhdr := hdr_final (signedCfg P tr L) st1 _ _ (hstash.trans hb.stash) hcore rfl
    have hstream : preOf st.isFirstHeader ++ renderSigned P tr prev acc [] hz =
        preOf st1.isFirstHeader ++
          (hz ++ sigIntro ++ chunkSig P prev [] ++ crlf ++ finalTail P tr (chunkSig P prev []) acc) := by
      simp [renderSigned, finalTail, hfh, crlf]
    rw [hstream]
    have hsig := checkSignature_ok P tr L
      { (if (signedCfg P tr L).trailer ≠ [] then
          { st1 with trailerSig := (if tr = true then trailerSig P (chunkSig P prev []) acc else []),
                     parsedChecksum := (if tr = true then checksumB64 P acc else []) }
         else st1) with parsedSig := chunkSig P prev [], chunkAcc := [] }
      (by cases tr <;> simp [signedCfg, hprev', H.name_ne])
    refine ⟨_, par_unfold_final _ fuel st st1 _ _ _ _ 0 hchk hhdr (chunkSig_ne_nil H.hmac_ne _ _) hsig ?_⟩
    intro ht
    cases tr with
    | false => simp [signedCfg] at ht
    | true =>
      have hne : (signedCfg P true L).trailer ≠ [] := ht
      constructor
      · apply verifyChecksum_ok P L _ acc <;> simp [hne, hcsum, hb.csum rfl]
      · apply verifyTrailer_ok P L _ acc <;> simp [hne]
  | cons c cs ih =>
    obtain ⟨h, d⟩ := c
    intro hz st acc fuel hwf hhz hbound hfuel hb
    obtain ⟨fuel, rfl⟩ : ∃ f, fuel = f + 1 := ⟨fuel - 1, by omega⟩
    obtain ⟨st1, hchk, hprev, hca, hps, hstash, hfh, hcsum, _⟩ := entry_check P tr L H st hb.first hb.next
    generalize hprevdef : prevOf st = prev at *
    have hprev' : st1.prevSig = prev := by rw [hprev, ← hprevdef]; rfl
    have hhd := (hwf (h, d) (by simp)).1
    have hdne := (hwf (h, d) (by simp)).2
    simp only at hhd hdne
    rw [payloadOf_cons] at hbound ⊢
    simp only [List.length_append] at hbound
    have hdpos : d.length ≠ 0 := fun e => hdne (List.length_eq_zero_iff.1 e)
    let sig := chunkSig P prev d
    let R := renderSigned P tr sig (acc ++ d) cs hz
    have hcore := parseCore_chunk (signedCfg P tr L) h sig (d ++ crlf ++ R) d.length hhd hdpos (by omega)
      (chunkSig_no_cr P prev d)
    have h13 : (13 : UInt8) ∉ h ++ sigIntro ++ sig := by
      simp only [List.mem_append, not_or]
      exact ⟨⟨isHex_not_mem hhd 13 not_hex_13, by decide⟩, chunkSig_no_cr P prev d⟩
    have hX : h ++ sigIntro ++ sig ++ crlf ++ (d ++ crlf ++ R) = (h ++ sigIntro ++ sig) ++ 13 :: 10 :: (d ++ crlf ++ R) := by
      simp [crlf]
    rw [hX] at hcore
    have hn0 : ((d.length : Nat) : Int) ≠ 0 := by omega
    have hhdr := hdr_chunk (signedCfg P tr L) st1 _ _ sig _ (hstash.trans hb.stash) hcore hn0 h13
    have hstream : preOf st.isFirstHeader ++ renderSigned P tr prev acc ((h, d) :: cs) hz =
        preOf st1.isFirstHeader ++ ((h ++ sigIntro ++ sig) ++ 13 :: 10 :: (d ++ crlf ++ R)) := by
      simp [renderSigned, hfh, crlf, R, sig]
    rw [hstream, par_unfold_cont _ fuel st st1 _ _ sig _ _ hchk hhdr (chunkSig_ne_nil H.hmac_ne _ _) hn0]
    -- the recursive call
    obtain ⟨st4, hr⟩ := ih hz
      (ChunkSigned.hashWrite (signedCfg P tr L) { ({ st1 with isFirstHeader := false } : ChunkSigned.State) with
        parsedSig := sig, chunkDataLeft := 0 } d)
      (acc ++ d) fuel (fun c hc => hwf c (by simp [hc])) hhz (by omega) (by simp at hfuel; omega)
      ⟨by simp [ChunkSigned.hashWrite, hstash, hb.stash], by intro h; simp [ChunkSigned.hashWrite] at h,
        by intro _; simp [ChunkSigned.hashWrite, hprev', hca, sig],
        by intro ht; simp [ChunkSigned.hashWrite, signedCfg, ht, H.name_ne, hcsum, hb.csum ht]⟩
    have hr' : ChunkSigned.parseAndRemove (signedCfg P tr L) fuel
        (ChunkSigned.hashWrite (signedCfg P tr L) { ({ ({ st1 with isFirstHeader := false } : ChunkSigned.State) with
          parsedSig := sig } : ChunkSigned.State) with chunkDataLeft := 0 } d) (crlf ++ R) = (st4, ⟨payloadOf cs, .eof⟩) := by
      simpa [prevOf, preOf, ChunkSigned.hashWrite, crlf, R, sig] using hr
    refine ⟨st4, ?_⟩
    have e2 : preOf st1.isFirstHeader ++ ((h ++ sigIntro ++ sig) ++ 13 :: 10 :: (d ++ crlf ++ R)) =
        (preOf st1.isFirstHeader ++ (h ++ sigIntro ++ sig) ++ [13, 10]) ++ (d ++ (crlf ++ R)) := by simp
    rw [e2]
    exact cont_rec _ _ _ st4 _ _ d (crlf ++ R) (payloadOf cs) .eof (by simp; omega) (by simp [crlf]) hr' (Or.inr rfl)
      (by unfold ChunkSigned.intMax; unfold chunkBound at hbound; omega)

theorem preOf_length_le (b : Bool) : (preOf b).length ≤ 2 := by cases b <;> simp [preOf]

/-- **The prefix induction**: `parseAndRemoveChunkInfo` on a proper prefix of the rest of a valid
signed stream (from a chunk boundary on) ends without error, and what it leaves in the stash is a
proper prefix of one chunk header — at most 1024 bytes. -/
theorem par_prefix (P : Params) (tr : Bool) (L : Nat) (H : SignedHyps P tr L) :
    ∀ (cs : List Chunk) (hz : Bytes) (st : ChunkSigned.State) (acc : Bytes) (fuel : Nat) (F G : Bytes),
      (∀ c ∈ cs, IsHex c.1 c.2.length ∧ c.2 ≠ []) → IsHex hz 0 →
      (∀ c ∈ cs, c.1.length ≤ maxSizeDigits) → hz.length ≤ maxSizeDigits →
      (payloadOf cs).length ≤ chunkBound → cs.length < fuel → AtBoundary P tr st acc → st.isEOF = false →
      G ≠ [] → F ++ G = preOf st.isFirstHeader ++ renderSigned P tr (prevOf st) acc cs hz →
      (F.length : Int) ≤ ChunkSigned.intMax →
      ∃ st' o, ChunkSigned.parseAndRemove (signedCfg P tr L) fuel st F = (st', ⟨o, .nil⟩) ∧
        st'.stash.length ≤ ChunkSigned.maxHeaderSize := by
  intro cs
  induction cs with
  | nil =>
    intro hz st acc fuel F G _ hhz _ hhzl _ hfuel hb hE hG hFG _
    obtain ⟨fuel, rfl⟩ : ∃ f, fuel = f + 1 := ⟨fuel - 1, by omega⟩
    obtain ⟨st1, hchk, hprev, hca, hps, hstash, hfh, hcsum, hE1⟩ := entry_check P tr L H st hb.first hb.next
    generalize hprevdef : prevOf st = prev at *
    have hcore := parseCore_final P tr L H hz (chunkSig P prev []) acc hhz (chunkSig_no_cr P prev [])
    have hph := parseHeader_of_core (signedCfg P tr L) st1.isFirstHeader
      (hz ++ sigIntro ++ chunkSig P prev [] ++ crlf ++ finalTail P tr (chunkSig P prev []) acc) [] _
      (by rw [List.append_nil]; exact hcore)
    rw [List.append_nil] at hph
    have hstream : preOf st.isFirstHeader ++ renderSigned P tr prev acc [] hz =
        preOf st1.isFirstHeader ++
          (hz ++ sigIntro ++ chunkSig P prev [] ++ crlf ++ finalTail P tr (chunkSig P prev []) acc) := by
      simp [renderSigned, finalTail, hfh, crlf]
    rw [hstream] at hFG
    have hinc := hdr_incomplete (signedCfg P tr L) st1 _ F G _ (hstash.trans hb.stash) (hE1.trans hE) hph hFG hG
    refine ⟨{ ({ st1 with stash := F } : ChunkSigned.State) with chunkDataLeft := 0 }, [], ?_, ?_⟩
    · rw [ChunkSigned.parseAndRemove]
      unfold ChunkSigned.parStep
      simp only [hchk]
      unfold ChunkSigned.parBody
      rw [hinc]
    · simp only
      have hl := congrArg List.length hFG
      have hs := H.hdr_small prev [] acc
      have hp := preOf_length_le st1.isFirstHeader
      have hGl := List.length_pos_iff.2 hG
      simp only [List.length_append, finalTail, crlf, List.length_cons, List.length_nil] at hl
      split at hl <;> simp only [List.length_append, List.length_cons, List.length_nil] at hl <;> omega
  | cons c cs ih =>
    obtain ⟨h, d⟩ := c
    intro hz st acc fuel F G hwf hhz hdig hhzl hbound hfuel hb hE hG hFG hFmax
    obtain ⟨fuel, rfl⟩ : ∃ f, fuel = f + 1 := ⟨fuel - 1, by omega⟩
    obtain ⟨st1, hchk, hprev, hca, hps, hstash, hfh, hcsum, hE1⟩ := entry_check P tr L H st hb.first hb.next
    generalize hprevdef : prevOf st = prev at *
    have hprev' : st1.prevSig = prev := by rw [hprev, ← hprevdef]; rfl
    have hhd := (hwf (h, d) (by simp)).1
    have hdne := (hwf (h, d) (by simp)).2
    have hhl := hdig (h, d) (by simp)
    simp only at hhd hdne hhl
    rw [payloadOf_cons] at hbound
    simp only [List.length_append] at hbound
    have hdpos : d.length ≠ 0 := fun e => hdne (List.length_eq_zero_iff.1 e)
    let sig := chunkSig P prev d
    let R := renderSigned P tr sig (acc ++ d) cs hz
    have h13 : (13 : UInt8) ∉ h ++ sigIntro ++ sig := by
      simp only [List.mem_append, not_or]
      exact ⟨⟨isHex_not_mem hhd 13 not_hex_13, by decide⟩, chunkSig_no_cr P prev d⟩
    have hn0 : ((d.length : Nat) : Int) ≠ 0 := by omega
    have hcoreR : ∀ rest : Bytes, ChunkSigned.parseCore (signedCfg P tr L) ((h ++ sigIntro ++ sig) ++ 13 :: 10 :: rest) =
        .ok ({ chunkSize := d.length, sig := sig }, rest) := by
      intro rest
      have := parseCore_chunk (signedCfg P tr L) h sig rest d.length hhd hdpos (by omega) (chunkSig_no_cr P prev d)
      simpa [crlf] using this
    -- the complete header, with the CRLF in front of it
    let Hd := preOf st1.isFirstHeader ++ (h ++ sigIntro ++ sig) ++ [13, 10]
    have hHdlen : Hd.length ≤ ChunkSigned.maxHeaderSize := by
      have hs := H.hdr_small prev d acc
      have hp := preOf_length_le st1.isFirstHeader
      simp only [Hd, List.length_append, List.length_cons, List.length_nil]
      show _ ≤ ChunkSigned.maxHeaderSize
      have : (chunkSig P prev d).length = sig.length := rfl
      omega
    have hstream : preOf st.isFirstHeader ++ renderSigned P tr prev acc ((h, d) :: cs) hz = Hd ++ (d ++ (crlf ++ R)) := by
      simp [renderSigned, hfh, crlf, R, sig, Hd]
    rw [hstream] at hFG
    rcases split_prefix F G Hd _ hFG with ⟨hlt, X, hXne, hFX⟩ | ⟨F', hF, hF'G⟩
    · -- F ends inside the header
      have hph := parseHeader_of_core (signedCfg P tr L) st1.isFirstHeader ((h ++ sigIntro ++ sig) ++ [13, 10]) [] _
        (by simpa using hcoreR [])
      simp only [List.append_nil] at hph
      have hinc := hdr_incomplete (signedCfg P tr L) st1 Hd F X _ (hstash.trans hb.stash) (hE1.trans hE)
        (by simpa [Hd] using hph) hFX hXne
      refine ⟨{ ({ st1 with stash := F } : ChunkSigned.State) with chunkDataLeft := 0 }, [], ?_, ?_⟩
      · rw [ChunkSigned.parseAndRemove]
        unfold ChunkSigned.parStep
        simp only [hchk]
        unfold ChunkSigned.parBody
        rw [hinc]
      · simp only; omega
    · -- F covers the header
      subst hF
      have hhdr := hdr_chunk (signedCfg P tr L) st1 _ F' sig _ (hstash.trans hb.stash) (hcoreR F') hn0 h13
      have e2 : Hd ++ F' = preOf st1.isFirstHeader ++ ((h ++ sigIntro ++ sig) ++ 13 :: 10 :: F') := by simp [Hd]
      rw [e2, par_unfold_cont _ fuel st st1 _ _ sig _ _ hchk hhdr (chunkSig_ne_nil H.hmac_ne _ _) hn0, ← e2]
      have hHdl : Hd.length = (preOf st1.isFirstHeader).length + (h ++ sigIntro ++ sig).length + 2 := by
        simp [Hd]; omega
      by_cases hle : F'.length ≤ d.length
      · -- … and ends inside the chunk data
        rw [cont_data _ _ _ _ d.length Hd F' hHdl hle]
        exact ⟨_, _, rfl, by simp [ChunkSigned.hashWrite, hstash, hb.stash]⟩
      · -- … and goes on behind the chunk data
        have hsplit := split_prefix F' G d (crlf ++ R) hF'G
        rcases hsplit with ⟨hlt, _⟩ | ⟨F'', hF'', hF''G⟩
        · omega
        · subst hF''
          have hF''ne : F'' ≠ [] := by
            intro e; subst e; simp at hle
          have hFl : (F''.length : Int) ≤ ChunkSigned.intMax := by
            simp only [List.length_append] at hFmax; omega
          obtain ⟨st4, o, hr, hsl⟩ := ih hz
            (ChunkSigned.hashWrite (signedCfg P tr L) { ({ st1 with isFirstHeader := false } : ChunkSigned.State) with
              parsedSig := sig, chunkDataLeft := 0 } d)
            (acc ++ d) fuel F'' G (fun c hc => hwf c (by simp [hc])) hhz (fun c hc => hdig c (by simp [hc])) hhzl
            (by omega) (by simp at hfuel; omega)
            ⟨by simp [ChunkSigned.hashWrite, hstash, hb.stash], by intro h; simp [ChunkSigned.hashWrite] at h,
              by intro _; simp [ChunkSigned.hashWrite, hprev', hca, sig],
              by intro ht; simp [ChunkSigned.hashWrite, signedCfg, ht, H.name_ne, hcsum, hb.csum ht]⟩
            (by simp [ChunkSigned.hashWrite, hE1, hE]) hG
            (by simpa [prevOf, preOf, ChunkSigned.hashWrite, crlf, R, sig] using hF''G) hFl
          have hr' : ChunkSigned.parseAndRemove (signedCfg P tr L) fuel
              (ChunkSigned.hashWrite (signedCfg P tr L) { ({ ({ st1 with isFirstHeader := false } : ChunkSigned.State) with
                parsedSig := sig } : ChunkSigned.State) with chunkDataLeft := 0 } d) F'' = (st4, ⟨o, .nil⟩) := hr
          have hol := par_out_le (signedCfg P tr L) fuel
            (ChunkSigned.hashWrite (signedCfg P tr L) { ({ st1 with isFirstHeader := false } : ChunkSigned.State) with
              parsedSig := sig, chunkDataLeft := 0 } d) F''
          rw [hr] at hol
          simp only at hol
          refine ⟨st4, d ++ o, ?_, hsl⟩
          exact cont_rec _ _ _ st4 _ Hd d F'' o .nil hHdl hF''ne hr' (Or.inl rfl)
            (by simp only [List.length_append] at hFmax; omega)

theorem renderSigned_length (P : Params) (tr : Bool) (cs : List Chunk) :
    ∀ (prev acc hz : Bytes), cs.length + 2 ≤ (renderSigned P tr prev acc cs hz).length := by
  induction cs with
  | nil => intro prev acc hz; simp [renderSigned, crlf]; omega
  | cons c cs ih =>
    intro prev acc hz
    obtain ⟨h, d⟩ := c
    have := ih (chunkSig P prev d) (acc ++ d) hz
    simp [renderSigned, crlf] at this ⊢
    omega

def variantOf (tr : Bool) : Variant := if tr then .signedTrailer else .signed

theorem render_variantOf (P : Params) (tr : Bool) (cs : List Chunk) (hz : Bytes) :
    render P (variantOf tr) cs hz = renderSigned P tr P.seedSig [] cs hz := by
  cases tr <;> rfl

theorem init_boundary (P : Params) (tr : Bool) (e : Bool) :
    AtBoundary P tr (setE e (ChunkSigned.init P.seedSig)) [] :=
  ⟨rfl, fun _ => ⟨rfl, rfl⟩, fun h => by simp [setE, ChunkSigned.init] at h, fun _ => rfl⟩

/-- `Read` on the whole stream at once -/
theorem read_whole (P : Params) (tr : Bool) (L : Nat) (H : SignedHyps P tr L) (cs : List Chunk) (hz : Bytes)
    (hwf : WF cs hz) (eof : Bool) (cap : Nat) :
    ∃ st', ChunkSigned.read (signedCfg P tr L) (ChunkSigned.init P.seedSig)
      (renderSigned P tr P.seedSig [] cs hz) eof cap = (st', ⟨payloadOf cs, .eof⟩) := by
  have hlen := renderSigned_length P tr cs P.seedSig [] hz
  obtain ⟨st', h⟩ := par_chunks P tr L H cs hz (setE eof (ChunkSigned.init P.seedSig)) []
    ((renderSigned P tr P.seedSig [] cs hz).length + 1) hwf.1 hwf.2.1 hwf.2.2.1 (by omega) (init_boundary P tr eof)
  refine ⟨st', ?_⟩
  rw [read_hdr _ _ _ eof cap (by simp [ChunkSigned.init]) (by simp [ChunkSigned.init]; omega)]
  simp only [ChunkSigned.init, Int.toNat_zero, List.take_zero, List.drop_zero, Int.lt_irrefl, gt_iff_lt, if_false]
  have h' : ChunkSigned.parseAndRemove (signedCfg P tr L) ((renderSigned P tr P.seedSig [] cs hz).length + 1)
      (setE eof { prevSig := P.seedSig }) (renderSigned P tr P.seedSig [] cs hz) = (st', ⟨payloadOf cs, .eof⟩) := by
    simpa [preOf, prevOf, setE, ChunkSigned.init] using h
  rw [h']
  rfl

/-- `Read` on a proper, non-empty prefix of the stream: no error, and a stash within the limit -/
theorem read_prefix (P : Params) (tr : Bool) (L : Nat) (H : SignedHyps P tr L) (cs : List Chunk) (hz : Bytes)
    (hwf : WF cs hz) (F G : Bytes) (hF : F ≠ []) (hG : G ≠ []) (hFG : F ++ G = renderSigned P tr P.seedSig [] cs hz)
    (hmax : (F.length : Int) ≤ ChunkSigned.intMax) (cap : Nat) :
    (ChunkSigned.read (signedCfg P tr L) (ChunkSigned.init P.seedSig) F false cap).2.status = .nil ∧
    (ChunkSigned.read (signedCfg P tr L) (ChunkSigned.init P.seedSig) F false cap).1.stash.length ≤
      ChunkSigned.maxHeaderSize := by
  have hlen := renderSigned_length P tr cs P.seedSig [] hz
  have hFl : 0 < F.length := List.length_pos_iff.2 hF
  have hl := congrArg List.length hFG
  simp only [List.length_append] at hl
  obtain ⟨st', o, h, hs⟩ := par_prefix P tr L H cs hz (setE false (ChunkSigned.init P.seedSig)) [] (F.length + cs.length + 1) F G
    hwf.1 hwf.2.1 hwf.2.2.2.1 hwf.2.2.2.2 hwf.2.2.1 (by omega) (init_boundary P tr false) rfl hG
    (by simpa [preOf, prevOf, setE, ChunkSigned.init] using hFG) hmax
  rw [read_hdr _ _ _ false cap (by simp [ChunkSigned.init]) (by simp [ChunkSigned.init]; omega)]
  simp only [ChunkSigned.init, Int.toNat_zero, List.take_zero, List.drop_zero, Int.lt_irrefl, gt_iff_lt, if_false]
  have h' : ChunkSigned.parseAndRemove (signedCfg P tr L) (F.length + 1)
      (setE false { prevSig := P.seedSig }) F = (st', ⟨o, .nil⟩) := by
    rw [par_fuel _ (F.length + 1) (F.length + cs.length + 1) _ F (by omega) (by omega)]
    simpa [setE, ChunkSigned.init] using h
  rw [h']
  exact ⟨rfl, hs⟩

end Vgw.Lemmas.ChunkSigned
