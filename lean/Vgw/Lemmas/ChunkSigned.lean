/-
  Lemmas about Model.ChunkSigned on rendered (valid) streams: header parsing, the in-place buffer
  surgery, and the core induction `par_chunks` (parseAndRemoveChunkInfo on the whole rest of a valid
  stream from a chunk boundary on).
-/
import Vgw.Lemmas.Chunked
namespace Vgw.Lemmas.ChunkSigned
open Vgw Vgw.Spec.Chunked Vgw.Model

/-- the reader configuration that belongs to the spec parameters -/
def signedCfg (P : Params) (tr : Bool) (csumLen : Nat) : ChunkSigned.Cfg :=
  { sha := P.sha, hmac := P.hmac, csum := P.csum, signingKey := P.key, amzDate := P.amzDate, scope := P.scope,
    trailer := if tr then P.trailerName else [], csumLen := csumLen }

/-- side conditions on the hash family / trailer name under which the signed reader can work at all -/
structure SignedHyps (P : Params) (tr : Bool) (csumLen : Nat) : Prop where
  hmac_ne : ∀ k m, P.hmac k m ≠ []
  name_ne : P.trailerName ≠ []
  name_colon : (58 : UInt8) ∉ P.trailerName
  csum_len : ∀ x, (P.csum x).length = csumLen

theorem sigIntro_eq : sigIntro = 59 :: ChunkSigned.chunkSignatureLit := by decide
theorem trailerSigIntro_eq : trailerSigIntro = ChunkSigned.trailerSignatureHeader ++ [58] := by decide

theorem chunkSig_ne_nil {P : Params} (hne : ∀ k m, P.hmac k m ≠ []) (prev d : Bytes) : chunkSig P prev d ≠ [] :=
  hexEncode_ne_nil _ (hne _ _)

theorem chunkSig_no_cr (P : Params) (prev d : Bytes) : (13 : UInt8) ∉ chunkSig P prev d :=
  hexEncode_not_mem _ 13 (Or.inl (by decide))

theorem trailerSig_no_cr (P : Params) (prev d : Bytes) : (13 : UInt8) ∉ trailerSig P prev d :=
  hexEncode_not_mem _ 13 (Or.inl (by decide))

theorem parseCore_chunk (cfg : ChunkSigned.Cfg) (h sig rest : Bytes) (n : Nat) (hh : IsHex h n) (hn0 : n ≠ 0)
    (hnb : n ≤ chunkBound) (hsig : (13 : UInt8) ∉ sig) :
    ChunkSigned.parseCore cfg (h ++ sigIntro ++ sig ++ crlf ++ rest) = .ok { chunkSize := n, sig := sig } := by
  have e : h ++ sigIntro ++ sig ++ crlf ++ rest =
      h ++ 59 :: (ChunkSigned.chunkSignatureLit ++ (sig ++ 13 :: ([10] ++ rest))) := by
    simp [sigIntro_eq, crlf]
  rw [e]
  unfold ChunkSigned.parseCore
  rw [readUntil_append 59 h _ (isHex_not_mem hh 59 not_hex_59)]
  simp only [parseIntHex64_of_isHex hh hnb, readAndSkip_append, readUntil_append 13 sig _ hsig]
  simp [readAndSkip]
  intro h0; exact absurd h0 hn0

/-- what follows the final chunk's signature line -/
def finalTail (P : Params) (tr : Bool) (sig acc : Bytes) : Bytes :=
  (if tr then P.trailerName ++ [58] ++ checksumB64 P acc ++ crlf ++ trailerSigIntro ++ trailerSig P sig acc ++ crlf
   else []) ++ crlf

theorem parseCore_final (P : Params) (tr : Bool) (L : Nat) (H : SignedHyps P tr L) (hz sig acc : Bytes)
    (hh : IsHex hz 0) (hsig : (13 : UInt8) ∉ sig) :
    ChunkSigned.parseCore (signedCfg P tr L) (hz ++ sigIntro ++ sig ++ crlf ++ finalTail P tr sig acc) =
      .ok { chunkSize := 0, sig := sig,
            trailerSig := if tr then trailerSig P sig acc else [],
            checksum := if tr then checksumB64 P acc else [] } := by
  cases tr with
  | false =>
    have e : hz ++ sigIntro ++ sig ++ crlf ++ finalTail P false sig acc =
        hz ++ 59 :: (ChunkSigned.chunkSignatureLit ++ (sig ++ 13 :: ([10, 13, 10] ++ []))) := by
      simp [sigIntro_eq, crlf, finalTail]
    rw [e]
    unfold ChunkSigned.parseCore
    rw [readUntil_append 59 hz _ (isHex_not_mem hh 59 not_hex_59)]
    simp only [parseIntHex64_of_isHex hh (by unfold chunkBound; omega), readAndSkip_append,
      readUntil_append 13 sig _ hsig]
    simp [signedCfg]
  | true =>
    have e : hz ++ sigIntro ++ sig ++ crlf ++ finalTail P true sig acc =
        hz ++ 59 :: (ChunkSigned.chunkSignatureLit ++ (sig ++ 13 :: ([10] ++ (P.trailerName ++ 58 ::
          (checksumB64 P acc ++ 13 :: ([10] ++ (ChunkSigned.trailerSignatureHeader ++ 58 ::
            (trailerSig P sig acc ++ 13 :: ([10, 13, 10] ++ []))))))))) := by
      simp [sigIntro_eq, crlf, finalTail, trailerSigIntro_eq]
    rw [e]
    unfold ChunkSigned.parseCore
    rw [readUntil_append 59 hz _ (isHex_not_mem hh 59 not_hex_59)]
    simp only [parseIntHex64_of_isHex hh (by unfold chunkBound; omega), readAndSkip_append,
      readUntil_append 13 sig _ hsig]
    have hcs : (13 : UInt8) ∉ checksumB64 P acc := b64Encode_not_mem _ 13 (by decide) (by decide)
    have hvalid : ChunkSigned.isValidChecksum (signedCfg P true L) (checksumB64 P acc) = true := by
      simp [ChunkSigned.isValidChecksum, checksumB64, b64DecodedLen_encode, H.csum_len, signedCfg]
    have h58 : (58 : UInt8) ∉ ChunkSigned.trailerSignatureHeader := by decide
    unfold ChunkSigned.parseTrailer
    simp only [readAndSkip_append, readUntil_append 58 P.trailerName _ H.name_colon,
      readUntil_append 13 _ _ hcs, readUntil_append 58 _ _ h58, readUntil_append 13 _ _ (trailerSig_no_cr P sig acc),
      hvalid]
    simp [signedCfg, H.name_ne, readAndSkip]

theorem payloadAlgo_eq : payloadAlgo = ChunkSigned.streamPayloadAlgo := by decide
theorem trailerAlgo_eq : trailerAlgo = ChunkSigned.streamPayloadTrailerAlgo := by decide
theorem emptyHashHex_eq : emptyHashHex = ChunkSigned.zeroLenSig := by decide

theorem checkSignature_ok (P : Params) (tr : Bool) (L : Nat) (st : ChunkSigned.State)
    (h : st.parsedSig = chunkSig P st.prevSig st.chunkAcc) :
    ChunkSigned.checkSignature (signedCfg P tr L) st =
      .ok { st with chunkAcc := [], prevSig := st.parsedSig, parsedSig := [] } := by
  have e : hexEncode ((signedCfg P tr L).hmac (signedCfg P tr L).signingKey
      (ChunkSigned.chunkStringToSign (signedCfg P tr L) st)) = st.parsedSig := by
    rw [h]
    simp [chunkSig, ChunkSigned.chunkStringToSign, ChunkSigned.stringToSignPrefix, signedCfg, payloadAlgo_eq,
      emptyHashHex_eq]
  unfold ChunkSigned.checkSignature
  simp only [e]
  simp

theorem shift2_crlf (X : Bytes) : ∃ g, ChunkSigned.shift2 (13 :: 10 :: X) = X ++ g := by
  exact ⟨(13 :: 10 :: X).drop ((13 :: 10 :: X).length - 2), by simp [ChunkSigned.shift2]⟩

theorem state_stash_none (st : ChunkSigned.State) (h : st.stash = none) : { st with stash := none } = st := by
  cases st; simp_all

/-- first header, data chunk -/
theorem header_chunk_first (cfg : ChunkSigned.Cfg) (st : ChunkSigned.State) (hdr rest sig : Bytes) (n : Int)
    (hst : st.stash = none) (hf : st.isFirstHeader = true)
    (hcore : ChunkSigned.parseCore cfg (hdr ++ 13 :: 10 :: rest) = .ok { chunkSize := n, sig := sig })
    (hn0 : n ≠ 0) (h13 : (13 : UInt8) ∉ hdr) :
    ChunkSigned.parseChunkHeaderBytes cfg st (hdr ++ 13 :: 10 :: rest) =
      ({ st with isFirstHeader := false }, hdr ++ 13 :: 10 :: rest, ((hdr ++ 13 :: 10 :: rest).length : Int),
        .chunk n sig ((hdr.length : Int) + 2)) := by
  unfold ChunkSigned.parseChunkHeaderBytes
  simp only [hst, Option.getD_none, List.length_nil, ChunkSigned.maxHeaderSize, hf]
  simp only [ChunkSigned.finishHeader, hcore, hn0, indexCRLF_append _ _ h13]
  simp

/-- later header, data chunk: the buffer is shifted by two, two stale bytes `g` stay behind -/
theorem header_chunk_next (cfg : ChunkSigned.Cfg) (st : ChunkSigned.State) (hdr rest sig : Bytes) (n : Int)
    (hst : st.stash = none) (hf : st.isFirstHeader = false)
    (hcore : ChunkSigned.parseCore cfg (hdr ++ 13 :: 10 :: rest) = .ok { chunkSize := n, sig := sig })
    (hn0 : n ≠ 0) (h13 : (13 : UInt8) ∉ hdr) :
    ∃ g, ChunkSigned.parseChunkHeaderBytes cfg st (13 :: 10 :: (hdr ++ 13 :: 10 :: rest)) =
      ({ st with isFirstHeader := false }, hdr ++ 13 :: 10 :: (rest ++ g),
        ((hdr ++ 13 :: 10 :: rest).length : Int), .chunk n sig ((hdr.length : Int) + 2)) := by
  obtain ⟨g, hg⟩ := shift2_crlf (hdr ++ 13 :: 10 :: rest)
  refine ⟨g, ?_⟩
  unfold ChunkSigned.parseChunkHeaderBytes
  simp only [hst, Option.getD_none, List.length_nil, ChunkSigned.maxHeaderSize, hf]
  have : readAndSkip [13, 10] (13 :: 10 :: (hdr ++ 13 :: 10 :: rest)) = .ok (hdr ++ 13 :: 10 :: rest) :=
    readAndSkip_append [13, 10] _
  simp only [this, hg]
  have hXg : hdr ++ 13 :: 10 :: rest ++ g = hdr ++ 13 :: 10 :: (rest ++ g) := by simp
  simp only [ChunkSigned.finishHeader, hcore, hn0, hXg, indexCRLF_append _ _ h13]
  simp
  omega

/-- final chunk header, first or later: result and state -/
theorem header_final (cfg : ChunkSigned.Cfg) (st : ChunkSigned.State) (X : Bytes) (r : ChunkSigned.Parsed)
    (hst : st.stash = none) (hcore : ChunkSigned.parseCore cfg X = .ok r) (hr : r.chunkSize = 0) :
    ∃ p' n', ChunkSigned.parseChunkHeaderBytes cfg st ((if st.isFirstHeader then [] else [13, 10]) ++ X) =
      (if cfg.trailer ≠ [] then { st with trailerSig := r.trailerSig, parsedChecksum := r.checksum } else st,
        p', n', .chunk 0 r.sig 0) := by
  cases hf : st.isFirstHeader with
  | true =>
    refine ⟨X, (X.length : Int), ?_⟩
    unfold ChunkSigned.parseChunkHeaderBytes
    simp only [hst, Option.getD_none, List.length_nil, ChunkSigned.maxHeaderSize, hf]
    simp only [ChunkSigned.finishHeader]
    simp [hcore, hr]
    cases st; simp_all
  | false =>
    obtain ⟨g, hg⟩ := shift2_crlf X
    refine ⟨X ++ g, (X.length : Int), ?_⟩
    unfold ChunkSigned.parseChunkHeaderBytes
    simp only [hst, Option.getD_none, List.length_nil, ChunkSigned.maxHeaderSize, hf]
    have : readAndSkip [13, 10] (13 :: 10 :: X) = .ok X := readAndSkip_append [13, 10] _
    simp only [ChunkSigned.finishHeader]
    simp [this, hg, hcore, hr]
    refine ⟨?_, by omega⟩
    cases st; simp_all


/-- one unfolding of `parseAndRemoveChunkInfo` at a data chunk that is followed by more bytes, when
the recursive call ends in a clean EOF -/
theorem par_unfold_chunk (cfg : ChunkSigned.Cfg) (fuel : Nat) (st st1 st2 st4 : ChunkSigned.State)
    (p p' data sig out : Bytes) (n' off : Int) (n : Nat)
    (hchk : (if st.parsedSig ≠ [] then ChunkSigned.checkSignature cfg st else .ok st) = .ok st1)
    (hhdr : ChunkSigned.parseChunkHeaderBytes cfg st1 p = (st2, p', n', .chunk n sig off))
    (hn0 : n ≠ 0) (hoff0 : 0 ≤ off) (hoff : off ≤ n')
    (hdata : (p'.drop off.toNat).take (n' - off).toNat = data) (hlen : n' - off = data.length)
    (hmore : n < data.length)
    (hrec : ChunkSigned.parseAndRemove cfg fuel
      (ChunkSigned.hashWrite cfg { st2 with parsedSig := sig, chunkDataLeft := 0 } (data.take n)) (data.drop n) =
        (st4, ⟨out, .eof⟩))
    (hsum : (n : Int) + (out.length : Int) ≤ ChunkSigned.intMax) :
    ChunkSigned.parseAndRemove cfg (fuel + 1) st p = (st4, ⟨data.take n ++ out, .eof⟩) := by
  rw [ChunkSigned.parseAndRemove]
  simp only [hchk, hhdr]
  have h1 : ¬ ((n : Int) == 0) = true := by simp; omega
  have h2 : ¬ (off < 0 ∨ n' < off) := by omega
  have h3 : n' - off > (n : Int) := by omega
  have h4 : ¬ ((n : Int) < 0) := by omega
  have h5 : ¬ ((n : Int) + (out.length : Int) > ChunkSigned.intMax) := by omega
  simp only [h1, h2, hdata, h3, h4]
  simp [hrec, h5, ChunkSigned.joinRec]

/-- one unfolding of `parseAndRemoveChunkInfo` at the final chunk when all verifications succeed -/
theorem par_unfold_final (cfg : ChunkSigned.Cfg) (fuel : Nat) (st st1 st2 st3 : ChunkSigned.State)
    (p p' sig : Bytes) (n' : Int)
    (hchk : (if st.parsedSig ≠ [] then ChunkSigned.checkSignature cfg st else .ok st) = .ok st1)
    (hhdr : ChunkSigned.parseChunkHeaderBytes cfg st1 p = (st2, p', n', .chunk 0 sig 0))
    (hsig : ChunkSigned.checkSignature cfg { st2 with parsedSig := sig, chunkAcc := [] } = .ok st3)
    (hver : cfg.trailer ≠ [] → ChunkSigned.verifyChecksum cfg st3 = .ok () ∧
      ChunkSigned.verifyTrailerSignature cfg st3 = .ok ()) :
    ChunkSigned.parseAndRemove cfg (fuel + 1) st p = (st3, ⟨[], .eof⟩) := by
  rw [ChunkSigned.parseAndRemove]
  simp only [hchk, hhdr]
  simp only [show ((0 : Int) == 0) = true from rfl, if_true, ChunkSigned.finalChunk, hsig]
  by_cases ht : cfg.trailer = []
  · simp [ht]
  · simp [ht, (hver ht).1, (hver ht).2]

/-- the pending signature check at the entry of `parseAndRemoveChunkInfo` -/
theorem entry_check (P : Params) (tr : Bool) (L : Nat) (H : SignedHyps P tr L) (st : ChunkSigned.State)
    (hfirst : st.isFirstHeader = true → st.parsedSig = [] ∧ st.chunkAcc = [])
    (hnext : st.isFirstHeader = false → st.parsedSig = chunkSig P st.prevSig st.chunkAcc) :
    ∃ st1, (if st.parsedSig ≠ [] then ChunkSigned.checkSignature (signedCfg P tr L) st else .ok st) = .ok st1 ∧
      st1.prevSig = (if st.isFirstHeader then st.prevSig else st.parsedSig) ∧ st1.chunkAcc = [] ∧
      st1.parsedSig = [] ∧ st1.stash = st.stash ∧ st1.isFirstHeader = st.isFirstHeader ∧ st1.csumAcc = st.csumAcc := by
  cases hf : st.isFirstHeader with
  | true =>
    obtain ⟨h1, h2⟩ := hfirst hf
    exact ⟨st, by simp [h1], by simp, h2, h1, rfl, hf, rfl⟩
  | false =>
    have h := hnext hf
    have hne : st.parsedSig ≠ [] := by rw [h]; exact chunkSig_ne_nil H.hmac_ne _ _
    refine ⟨{ st with chunkAcc := [], prevSig := st.parsedSig, parsedSig := [] }, ?_, ?_⟩
    · rw [if_pos hne, checkSignature_ok P tr L st h]
    · simp [hf]

theorem payloadOf_cons (h d : Bytes) (cs : List Chunk) : payloadOf ((h, d) :: cs) = d ++ payloadOf cs := by
  simp [payloadOf]

theorem verifyTrailer_ok (P : Params) (L : Nat) (st : ChunkSigned.State) (acc : Bytes)
    (h1 : st.parsedChecksum = checksumB64 P acc) (h2 : st.trailerSig = trailerSig P st.prevSig acc) :
    ChunkSigned.verifyTrailerSignature (signedCfg P true L) st = .ok () := by
  have : hexEncode ((signedCfg P true L).hmac (signedCfg P true L).signingKey
      (ChunkSigned.trailerStringToSign (signedCfg P true L) st)) = trailerSig P st.prevSig acc := by
    simp [trailerSig, ChunkSigned.trailerStringToSign, ChunkSigned.stringToSignPrefix, signedCfg, trailerAlgo_eq, h1]
  simp [ChunkSigned.verifyTrailerSignature, this, h2]

theorem verifyChecksum_ok (P : Params) (L : Nat) (st : ChunkSigned.State) (acc : Bytes)
    (h1 : st.parsedChecksum = checksumB64 P acc) (h2 : st.csumAcc = acc) :
    ChunkSigned.verifyChecksum (signedCfg P true L) st = .ok () := by
  simp [ChunkSigned.verifyChecksum, h1, h2, checksumB64, signedCfg]

/-- **The core induction**: `parseAndRemoveChunkInfo` on the whole rest of a valid signed stream
(from a chunk boundary on) yields the rest of the payload and a clean EOF. -/
theorem par_chunks (P : Params) (tr : Bool) (L : Nat) (H : SignedHyps P tr L) :
    ∀ (cs : List Chunk) (hz : Bytes) (st : ChunkSigned.State) (acc : Bytes) (fuel : Nat),
      (∀ c ∈ cs, IsHex c.1 c.2.length ∧ c.2 ≠ []) → IsHex hz 0 → (payloadOf cs).length ≤ chunkBound →
      cs.length < fuel → st.stash = none →
      (st.isFirstHeader = true → st.parsedSig = [] ∧ st.chunkAcc = []) →
      (st.isFirstHeader = false → st.parsedSig = chunkSig P st.prevSig st.chunkAcc) →
      (tr = true → st.csumAcc = acc) →
      ∃ st', ChunkSigned.parseAndRemove (signedCfg P tr L) fuel st
        ((if st.isFirstHeader then [] else crlf) ++
          renderSigned P tr (if st.isFirstHeader then st.prevSig else st.parsedSig) acc cs hz) =
        (st', ⟨payloadOf cs, .eof⟩) := by
  intro cs
  induction cs with
  | nil =>
    intro hz st acc fuel _ hhz _ hfuel hst hfirst hnext hacc
    obtain ⟨fuel, rfl⟩ : ∃ f, fuel = f + 1 := ⟨fuel - 1, by omega⟩
    obtain ⟨st1, hchk, hprev, hca, hps, hstash, hfh, hcsum⟩ := entry_check P tr L H st hfirst hnext
    generalize hprevdef : (if st.isFirstHeader then st.prevSig else st.parsedSig) = prev at *
    have hcore := parseCore_final P tr L H hz (chunkSig P prev []) acc hhz (chunkSig_no_cr P prev [])
    obtain ⟨p', n', hhdr⟩ := header_final (signedCfg P tr L) st1 _ _ (hstash.trans hst) hcore rfl
    have hstream : (if st.isFirstHeader then [] else crlf) ++ renderSigned P tr prev acc [] hz =
        (if st1.isFirstHeader then [] else [13, 10]) ++
          (hz ++ sigIntro ++ chunkSig P prev [] ++ crlf ++ finalTail P tr (chunkSig P prev []) acc) := by
      simp [renderSigned, finalTail, hfh, crlf]
    rw [hstream]
    have hsig := checkSignature_ok P tr L
      { (if (signedCfg P tr L).trailer ≠ [] then
          { st1 with trailerSig := (if tr = true then trailerSig P (chunkSig P prev []) acc else []),
                     parsedChecksum := (if tr = true then checksumB64 P acc else []) }
         else st1) with parsedSig := chunkSig P prev [], chunkAcc := [] }
      (by cases tr <;> simp [signedCfg, hprev, H.name_ne])
    refine ⟨_, par_unfold_final _ fuel st st1 _ _ _ p' _ n' hchk hhdr hsig ?_⟩
    intro ht
    cases tr with
    | false => simp [signedCfg] at ht
    | true =>
      have hne : (signedCfg P true L).trailer ≠ [] := ht
      constructor
      · apply verifyChecksum_ok P L _ acc <;> simp [hne, hcsum, hacc rfl]
      · apply verifyTrailer_ok P L _ acc <;> simp [hne]
  | cons c cs ih =>
    obtain ⟨h, d⟩ := c
    intro hz st acc fuel hwf hhz hbound hfuel hst hfirst hnext hacc
    obtain ⟨fuel, rfl⟩ : ∃ f, fuel = f + 1 := ⟨fuel - 1, by omega⟩
    obtain ⟨st1, hchk, hprev, hca, hps, hstash, hfh, hcsum⟩ := entry_check P tr L H st hfirst hnext
    generalize hprevdef : (if st.isFirstHeader then st.prevSig else st.parsedSig) = prev at *
    have hhd := (hwf (h, d) (by simp)).1
    have hdne := (hwf (h, d) (by simp)).2
    simp only at hhd hdne
    rw [payloadOf_cons] at hbound ⊢
    simp only [List.length_append] at hbound
    have hdpos : d.length ≠ 0 := by
      intro e; exact hdne (List.length_eq_zero_iff.1 e)
    let sig := chunkSig P prev d
    let R := renderSigned P tr sig (acc ++ d) cs hz
    have hcore := parseCore_chunk (signedCfg P tr L) h sig (d ++ crlf ++ R) d.length hhd hdpos (by omega)
      (chunkSig_no_cr P prev d)
    have h13 : (13 : UInt8) ∉ h ++ sigIntro ++ sig := by
      simp only [List.mem_append, not_or]
      exact ⟨⟨isHex_not_mem hhd 13 not_hex_13, by decide⟩, chunkSig_no_cr P prev d⟩
    have hX : h ++ sigIntro ++ sig ++ crlf ++ (d ++ crlf ++ R) = (h ++ sigIntro ++ sig) ++ 13 :: 10 :: (d ++ crlf ++ R) := by
      simp [crlf]
    rw [hX] at hcore
    have hn0 : ((d.length : Nat) : Int) ≠ 0 := by omega
    -- the recursive call
    have hrec : ∀ st2 : ChunkSigned.State, st2.stash = none → st2.isFirstHeader = false → st2.prevSig = prev →
        st2.chunkAcc = [] → st2.csumAcc = st.csumAcc →
        ∃ st4, ChunkSigned.parseAndRemove (signedCfg P tr L) fuel
          (ChunkSigned.hashWrite (signedCfg P tr L) { st2 with parsedSig := sig, chunkDataLeft := 0 } d)
          (crlf ++ R) = (st4, ⟨payloadOf cs, .eof⟩) := by
      intro st2 h1 h2 h3 h4 h5
      have := ih hz (ChunkSigned.hashWrite (signedCfg P tr L) { st2 with parsedSig := sig, chunkDataLeft := 0 } d)
        (acc ++ d) fuel (fun c hc => hwf c (by simp [hc])) hhz (by omega) (by simp at hfuel; omega)
        (by simp [ChunkSigned.hashWrite, h1]) (by simp [ChunkSigned.hashWrite, h2])
        (by intro _; simp [ChunkSigned.hashWrite, h3, h4, sig])
        (by intro ht; simp [ChunkSigned.hashWrite, signedCfg, ht, H.name_ne, h5, hacc ht])
      simpa [ChunkSigned.hashWrite, h2, R, sig] using this
    have hdata1 : ∀ g : Bytes, List.take ((((h ++ sigIntro ++ sig) ++ 13 :: 10 :: (d ++ crlf ++ R)).length : Int) -
          (((h ++ sigIntro ++ sig).length : Int) + 2)).toNat
        (List.drop (((h ++ sigIntro ++ sig).length : Int) + 2).toNat ((h ++ sigIntro ++ sig) ++ 13 :: 10 :: ((d ++ crlf ++ R) ++ g))) =
        d ++ crlf ++ R := by
      intro g
      have e1 : (((h ++ sigIntro ++ sig).length : Int) + 2).toNat = (h ++ sigIntro ++ sig).length + 2 := by omega
      have e2 : ((((h ++ sigIntro ++ sig) ++ 13 :: 10 :: (d ++ crlf ++ R)).length : Int) -
          (((h ++ sigIntro ++ sig).length : Int) + 2)).toNat = (d ++ crlf ++ R).length := by
        simp only [List.length_append, List.length_cons]; omega
      rw [e1, e2]
      have : (h ++ sigIntro ++ sig) ++ 13 :: 10 :: ((d ++ crlf ++ R) ++ g) =
          ((h ++ sigIntro ++ sig) ++ [13, 10]) ++ ((d ++ crlf ++ R) ++ g) := by simp
      rw [this, List.drop_left' (by simp; omega), List.take_left' rfl]
    have htake : (d ++ crlf ++ R).take d.length = d := by simp
    have hdrop : (d ++ crlf ++ R).drop d.length = crlf ++ R := by simp
    have hmore : d.length < (d ++ crlf ++ R).length := by simp [crlf]
    have hstream : (if st.isFirstHeader then [] else crlf) ++ renderSigned P tr prev acc ((h, d) :: cs) hz =
        (if st1.isFirstHeader then [] else [13, 10]) ++
          ((h ++ sigIntro ++ sig) ++ 13 :: 10 :: (d ++ crlf ++ R)) := by
      simp [renderSigned, hfh, crlf, R, sig]
    rw [hstream]
    cases hf1 : st1.isFirstHeader with
    | true =>
      have hhdr := header_chunk_first (signedCfg P tr L) st1 _ _ sig _ (hstash.trans hst) hf1 hcore hn0 h13
      obtain ⟨st4, hr⟩ := hrec { st1 with isFirstHeader := false } (by simp [hstash, hst]) rfl hprev hca hcsum
      refine ⟨st4, ?_⟩
      have := par_unfold_chunk (signedCfg P tr L) fuel st st1 _ st4 _ _ (d ++ crlf ++ R) sig (payloadOf cs) _ _ d.length
        hchk hhdr hdpos (by omega) (by simp only [List.length_append, List.length_cons]; omega)
        (by have := hdata1 []; simpa using this)
        (by simp only [List.length_append, List.length_cons, crlf]; omega) hmore
        (by rw [htake, hdrop]; exact hr)
        (by unfold ChunkSigned.intMax; unfold chunkBound at hbound; omega)
      simpa [htake] using this
    | false =>
      obtain ⟨g, hhdr⟩ := header_chunk_next (signedCfg P tr L) st1 _ _ sig _ (hstash.trans hst) hf1 hcore hn0 h13
      obtain ⟨st4, hr⟩ := hrec { st1 with isFirstHeader := false } (by simp [hstash, hst]) rfl hprev hca hcsum
      refine ⟨st4, ?_⟩
      have := par_unfold_chunk (signedCfg P tr L) fuel st st1 _ st4 _ _ (d ++ crlf ++ R) sig (payloadOf cs) _ _ d.length
        hchk hhdr hdpos (by omega) (by simp only [List.length_append, List.length_cons]; omega)
        (hdata1 g)
        (by simp only [List.length_append, List.length_cons, crlf]; omega) hmore
        (by rw [htake, hdrop]; exact hr)
        (by unfold ChunkSigned.intMax; unfold chunkBound at hbound; omega)
      simpa [htake] using this

theorem renderSigned_length (P : Params) (tr : Bool) (cs : List Chunk) :
    ∀ (prev acc hz : Bytes), cs.length + 2 ≤ (renderSigned P tr prev acc cs hz).length := by
  induction cs with
  | nil => intro prev acc hz; simp [renderSigned, crlf]; omega
  | cons c cs ih =>
    intro prev acc hz
    obtain ⟨h, d⟩ := c
    have := ih (chunkSig P prev d) (acc ++ d) hz
    simp [renderSigned, crlf] at this ⊢
    omega

def variantOf (tr : Bool) : Variant := if tr then .signedTrailer else .signed

theorem render_variantOf (P : Params) (tr : Bool) (cs : List Chunk) (hz : Bytes) :
    render P (variantOf tr) cs hz = renderSigned P tr P.seedSig [] cs hz := by
  cases tr <;> rfl

/-- `Read` on the whole stream at once -/
theorem read_whole (P : Params) (tr : Bool) (L : Nat) (H : SignedHyps P tr L) (cs : List Chunk) (hz : Bytes)
    (hwf : WF cs hz) (eof : Bool) (cap : Nat) :
    ∃ st', ChunkSigned.read (signedCfg P tr L) (ChunkSigned.init P.seedSig)
      (renderSigned P tr P.seedSig [] cs hz) eof cap = (st', ⟨payloadOf cs, .eof⟩) := by
  have hlen := renderSigned_length P tr cs P.seedSig [] hz
  obtain ⟨st', h⟩ := par_chunks P tr L H cs hz { ChunkSigned.init P.seedSig with isEOF := eof } []
    ((renderSigned P tr P.seedSig [] cs hz).length + 1) hwf.1 hwf.2.1 hwf.2.2 (by omega) rfl
    (by intro _; exact ⟨rfl, rfl⟩) (by intro h; simp [ChunkSigned.init] at h) (by intro _; rfl)
  refine ⟨st', ?_⟩
  simp only [ChunkSigned.init, if_true, List.nil_append] at h
  unfold ChunkSigned.read
  have hpos : (0 : Int) < ((renderSigned P tr P.seedSig [] cs hz).length : Int) := by omega
  simp only [ChunkSigned.init, hpos, if_true]
  simp [h]

end Vgw.Lemmas.ChunkSigned
