/-
  Lemmas about Model.Conc, part 3: with the strategies that publish by rename only and no DELETE
  among the requests, an existing key is never seen missing.
-/
import Vgw.Lemmas.ConcRead
namespace Vgw.Model.Conc

theorem NMInv_init (c : Cfg) (fs0 : FS) (rqs : List Req) (hs : renameOnlyStrat c.strat) (hk : fs0.key ≠ none)
    (hd : ∀ rq ∈ rqs, rq.kind ≠ .delete) : NMInv c (init c fs0 rqs) where
  key := hk
  norem := by
    intro p hp
    simp only [init, List.mem_map] at hp
    obtain ⟨rq, hrq, rfl⟩ := hp
    exact program_norem c rq hs (hd rq hrq)
  rd := by
    intro p hp hr
    simp only [init, List.mem_map] at hp
    obtain ⟨rq, hrq, rfl⟩ := hp
    exact ⟨program_readActs c rq hr, by simp, fun _ => Or.inl rfl⟩

theorem program_byFd_head (c : Cfg) (rq : Req) (hr : rq.kind.isRead = true) (hm : c.rmode = .byFd) :
    ∃ rest, program c rq = .ropen :: rest := by
  cases hk : rq.kind <;> simp [hk, Kind.isRead] at hr <;> simp [program, hk, hm]

theorem finalize_result_ne (rq : Req) (fs : FS) (l : Local) (h : l.result ≠ some .noSuchKey) (hr : rq.kind.isRead = true) :
    (finalize rq fs l).result ≠ some .noSuchKey := by
  unfold finalize
  split
  · cases hk : rq.kind <;> simp [hk, Kind.isRead] at hr <;> simp
  · exact h

theorem finalize_result_other (rq : Req) (fs : FS) (l : Local) :
    (finalize rq fs l).result = l.result ∨ l.result = none := by
  unfold finalize
  split
  · right; assumption
  · left; rfl

theorem NMInv_step {c : Cfg} {s s' : State} {i : Nat} (hk : KeyLast s.fs) (g : NMInv c s)
    (h : step c s i = some s') : NMInv c s' := by
  obtain ⟨rq, l, a, rest, hr, hp, hfs, hreqs, _⟩ := step_spec h
  obtain ⟨ext, hext⟩ := step_inodes_mono h
  have hmem : (rq, l) ∈ s.reqs := List.mem_of_getElem? hr
  have ha_norem : a.removes = false := g.norem _ hmem a (by rw [hp]; exact List.mem_cons_self)
  obtain ⟨k0, hk0⟩ := Option.ne_none_iff_exists'.1 g.key
  have hk0lt : k0 < s.fs.inodes.length := by have := hk k0 hk0; omega
  have hlen : s.fs.inodes.length ≤ s'.fs.inodes.length := by rw [hext, List.length_append]; omega
  -- the acts left in the stepping request's program
  have hsub : ∀ b ∈ (execAct c rq s.fs { l with prog := rest } a).2.prog,
      b ∈ rest ∨ (∃ k, b = .getmeta k ∧ a = .listnames) ∨ (a = .linkatx ∧ (b = .linktmp ∨ b = .lstat ∨ b = .rename)) := by
    intro b hb
    rcases execAct_prog_sub c rq s.fs { l with prog := rest } a b hb with h1 | ⟨_, h2 | h2⟩ | ⟨h3, _⟩ | ⟨h4, k, rfl⟩ | ⟨h5, h6⟩
    · exact Or.inl h1
    · rw [h2] at ha_norem; cases ha_norem
    · rw [h2] at ha_norem; cases ha_norem
    · rw [h3] at ha_norem; cases ha_norem
    · exact Or.inr (Or.inl ⟨k, rfl, h4⟩)
    · exact Or.inr (Or.inr ⟨h5, h6⟩)
  refine ⟨?_, ?_, ?_⟩
  · intro hnone
    rw [hfs] at hnone
    rcases execAct_key_none c rq s.fs _ a hnone with h1 | h1
    · exact g.key h1
    · rw [h1] at ha_norem; cases ha_norem
  · intro p hpm b hb
    rw [hreqs] at hpm
    rcases List.mem_or_eq_of_mem_set hpm with hold | rfl
    · exact g.norem p hold b hb
    · rw [finalize_prog] at hb
      rcases hsub b hb with h1 | ⟨k, rfl, _⟩ | ⟨_, h6 | h6 | h6⟩
      · exact g.norem _ hmem b (by rw [hp]; exact List.mem_cons_of_mem _ h1)
      · rfl
      · rw [h6]; rfl
      · rw [h6]; rfl
      · rw [h6]; rfl
  · intro p hpm hrd
    rw [hreqs] at hpm
    rcases List.mem_or_eq_of_mem_set hpm with hold | rfl
    · obtain ⟨h1, h2, h3⟩ := g.rd p hold hrd
      refine ⟨h1, h2, ?_⟩
      intro hm
      rcases h3 hm with e | ⟨k, e, hlt⟩
      · exact Or.inl e
      · exact Or.inr ⟨k, e, by omega⟩
    · obtain ⟨h1, h2, h3⟩ := g.rd _ hmem hrd
      have ha_read : a.isReadAct = true := h1 a (by rw [hp]; exact List.mem_cons_self)
      -- the inode the step resolves to
      have htarget : c.rmode = .byFd → a ≠ .ropen → ∃ k, l.fd = some k ∧ k < s.fs.inodes.length := by
        intro hm hne
        rcases h3 hm with e | e
        · obtain ⟨rest', hr'⟩ := program_byFd_head c rq hrd hm
          rw [e, hr'] at hp
          simp only [List.cons.injEq] at hp
          exact absurd hp.1.symm hne
        · exact e
      have hsome : a ≠ .ropen → ∃ ino,
          ((target c s.fs { l with prog := rest, views := s.fs.key :: l.views }).bind (s.fs.inodes[·]?)) = some ino := by
        intro hne
        cases hm : c.rmode with
        | byPath =>
          simp only [target, hm, hk0, Option.bind_some]
          exact ⟨s.fs.inodes[k0], List.getElem?_eq_getElem hk0lt⟩
        | byFd =>
          obtain ⟨k, hfd, hlt⟩ := htarget hm hne
          simp only [target, hm, hfd, Option.bind_some]
          exact ⟨s.fs.inodes[k], List.getElem?_eq_getElem hlt⟩
      have hres : (execAct c rq s.fs { l with prog := rest } a).2.result = l.result := by
        cases a with
        | ropen => simp only [execAct, hk0]
        | statign => rfl
        | rstat => obtain ⟨ino, e⟩ := hsome (by simp); simp only [execAct, e, readAct_some_result]
        | listsize => obtain ⟨ino, e⟩ := hsome (by simp); simp only [execAct, e, readAct_some_result]
        | listnames => obtain ⟨ino, e⟩ := hsome (by simp); simp only [execAct, e, readAct_some_result]
        | getmeta k => obtain ⟨ino, e⟩ := hsome (by simp); simp only [execAct, e, readAct_some_result]
        | gethdr x => obtain ⟨ino, e⟩ := hsome (by simp); simp only [execAct, e, readAct_some_result]
        | getetag => obtain ⟨ino, e⟩ := hsome (by simp); simp only [execAct, e, readAct_some_result]
        | gettags => obtain ⟨ino, e⟩ := hsome (by simp); simp only [execAct, e, readAct_some_result]
        | _ => simp [Act.isReadAct] at ha_read
      refine ⟨?_, ?_, ?_⟩
      · intro b hb
        rw [finalize_prog] at hb
        rcases hsub b hb with h1' | ⟨k, rfl, _⟩ | ⟨h5, _⟩
        · exact h1 b (by rw [hp]; exact List.mem_cons_of_mem _ h1')
        · rfl
        · rw [h5] at ha_read; cases ha_read
      · apply finalize_result_ne _ _ _ _ hrd
        rw [hres]; exact h2
      · intro hm
        right
        rw [finalize_fd]
        rcases execAct_fd c rq s.fs { l with prog := rest } a with e | ⟨_, e, _⟩
        · by_cases hro : a = .ropen
          · subst hro
            simp only [execAct, hk0]
            exact ⟨k0, rfl, by omega⟩
          · obtain ⟨k, hfd, hlt⟩ := htarget hm hro
            exact ⟨k, by rw [e]; exact hfd, by omega⟩
        · exact ⟨k0, by rw [e]; exact hk0, by omega⟩

theorem NMInv_reach {c : Cfg} {fs0 : FS} {rqs : List Req} {s : State} (hs : renameOnlyStrat c.strat)
    (h0 : KeyLast fs0) (hk : fs0.key ≠ none) (hd : ∀ rq ∈ rqs, rq.kind ≠ .delete)
    (h : Reach c (init c fs0 rqs) s) : NMInv c s ∧ GInv fs0 rqs s := by
  induction h with
  | refl => exact ⟨NMInv_init c fs0 rqs hs hk hd, GInv_init c fs0 rqs h0⟩
  | step _ hs' ih => exact ⟨NMInv_step ih.2.last ih.1 hs', GInv_step ih.2 hs'⟩

end Vgw.Model.Conc
