/-
  The cache discipline of each revision as one predicate (`CInv`), along schedules; the side
  condition of the write-through revisions as a predicate on schedules (`QuietRun`); what the
  discipline gives for a key that nobody is changing (`coh_of_cinv`).
-/
import Vgw.Lemmas.IAMCacheW
namespace Vgw.Model.IAM
open Vgw
open Vgw.Model.Gw (Account Role)

/-- the committed image changes at the rename step only -/
theorem stepCall_committed (v : Variant) (cfg : Cfg) (σ : State) (i : Nat) (c : Call) :
    (stepCall v cfg σ i c).committed = σ.committed ∨
    ∃ b', c.pc = .mTemp b' ∧ (stepCall v cfg σ i c).committed = b' := by
  have hcs := (cacheStep_frame v cfg σ c.op).2.2.2.2.2.1
  unfold Model.IAM.stepCall
  repeat' split
  all_goals first
    | (left; rfl)
    | (left; simp only [State.setCall]; exact hcs)
    | (right; exact ⟨_, by assumption, rfl⟩)

/-- with the cache disabled nothing ever enters it -/
theorem stepCall_items_off (v : Variant) (cfg : Cfg) (σ : State) (i : Nat) (c : Call) (hv : v.cache = false) :
    (stepCall v cfg σ i c).items = σ.items := by
  unfold Model.IAM.stepCall
  repeat' split
  all_goals first
    | rfl
    | (simp only [State.setCall, Model.IAM.cacheStep, hv]; rfl)
    | (simp_all; done)

structure CInvOff (cfg : Cfg) (σ : State) : Prop where
  rootFree : σ.committed.find cfg.root.access = none
  empty : σ.items = []

theorem CInvOff.stepCall {v : Variant} {cfg : Cfg} {σ : State} {i : Nat} {c : Call} (hv : v.cache = false)
    (hW : Wf cfg σ) (hT : TInv cfg σ) (h : CInvOff cfg σ) (hi : σ.calls[i]? = some c) :
    CInvOff cfg (stepCall v cfg σ i c) := by
  refine ⟨?_, by rw [stepCall_items_off v cfg σ i c hv]; exact h.empty⟩
  rcases stepCall_committed v cfg σ i c with he | ⟨b', hpc, he⟩
  · rw [he]; exact h.rootFree
  · rw [he]
    have hL := (hW.l.calls i c hi).pc
    unfold PcL at hL
    rw [hpc] at hL
    exact mutate_absent hL.1 h.rootFree ((hT i c hi).1 (Or.inl (by rw [hpc]; rfl))).2

/-- the cache discipline of the revision -/
def CInv (v : Variant) (cfg : Cfg) (σ : State) : Prop :=
  if v.cache = true then (if v.invalidate = true then CInvI cfg σ else CInvW v cfg σ) else CInvOff cfg σ

theorem CInv.rootFree {v : Variant} {cfg : Cfg} {σ : State} (h : CInv v cfg σ) : σ.committed.find cfg.root.access = none := by
  unfold CInv at h
  split at h
  · split at h
    · exact h.rootFree
    · exact h.rootFree
  · exact h.rootFree

/-- side condition of one event of a schedule (only renames matter, and only for write-through) -/
def QuietStep (v : Variant) (σ : State) : Act → Prop
  | .step i => ∀ (c : Call) (b' : Store), σ.calls[i]? = some c → c.pc = .mTemp b' → QuietAt v σ i c
  | _ => True

def QuietRun (v : Variant) (cfg : Cfg) : State → List Act → Prop
  | _, [] => True
  | σ, a :: rest => QuietStep v σ a ∧ QuietRun v cfg (act v cfg σ a) rest

/-- the side condition is needed by the write-through revisions only -/
def NeedsQuiet (v : Variant) : Prop := v.cache = true ∧ v.invalidate = false

theorem CInv.act {v : Variant} {cfg : Cfg} {σ : State} (hW : Wf cfg σ) (hT : TInv cfg σ) (h : CInv v cfg σ)
    (a : Act) (hq : NeedsQuiet v → QuietStep v σ a) : CInv v cfg (act v cfg σ a) := by
  unfold CInv at h ⊢
  by_cases hvc : v.cache = true
  · rw [if_pos hvc] at h ⊢
    by_cases hvi : v.invalidate = true
    · rw [if_pos hvi] at h ⊢
      exact h.act hvc hvi hW hT a
    · rw [if_neg hvi] at h ⊢
      have hvi : v.invalidate = false := by simpa using hvi
      have hq := hq ⟨hvc, hvi⟩
      cases a with
      | step i =>
        simp only [Model.IAM.act, Model.IAM.stepAt]
        split
        · rename_i c hi
          exact h.stepCall hvc hvi hW hT hi (fun b' hpc => hq c b' hi hpc)
        · exact h
      | tick n => exact ⟨h.rootFree, h.coh, h.guar, h.fet⟩
      | gc =>
        refine ⟨h.rootFree, ?_, ?_, h.fet⟩
        · intro k hk e he hek; exact h.coh k hk e (Items.mem_gc he) hek
        · intro j c hj hp; exact Guar.mono_items (fun e he => Items.mem_gc he) (h.guar j c hj hp)
      | invoke op =>
        refine ⟨h.rootFree, ?_, ?_, ?_⟩
        · intro k hk
          simp only [Model.IAM.act] at hk ⊢
          rw [pending_append] at hk
          exact h.coh k hk
        · intro j cj hj hp
          simp only [Model.IAM.act] at hj ⊢
          by_cases hlt : j < σ.calls.length
          · rw [List.getElem?_append_left hlt] at hj; exact h.guar j cj hj hp
          · rw [List.getElem?_append_right (by omega)] at hj
            cases hd : j - σ.calls.length with
            | zero => rw [hd] at hj; simp at hj; subst hj; cases hp
            | succ n => rw [hd] at hj; simp at hj
        · intro j cj a g hj hpc
          simp only [Model.IAM.act] at hj ⊢
          by_cases hlt : j < σ.calls.length
          · rw [List.getElem?_append_left hlt] at hj; exact h.fet j cj a g hj hpc
          · rw [List.getElem?_append_right (by omega)] at hj
            cases hd : j - σ.calls.length with
            | zero => rw [hd] at hj; simp at hj; subst hj; cases hpc
            | succ n => rw [hd] at hj; simp at hj
  · rw [if_neg hvc] at h ⊢
    have hvc : v.cache = false := by simpa using hvc
    cases a with
    | step i =>
      simp only [Model.IAM.act, Model.IAM.stepAt]
      split
      · rename_i c hi; exact h.stepCall hvc hW hT hi
      · exact h
    | tick n => exact ⟨h.rootFree, h.empty⟩
    | gc => exact ⟨h.rootFree, by simp [Model.IAM.act, h.empty, Items.gc]⟩
    | invoke op => exact ⟨h.rootFree, h.empty⟩

theorem CInv.init (v : Variant) (cfg : Cfg) (s : Store) (now : Nat) (hr : s.find cfg.root.access = none) :
    CInv v cfg (Model.IAM.init s now) := by
  have hnp : ∀ k, ¬ Pending (Model.IAM.init s now).calls k := by
    rintro k ⟨j, c, hj, _, _⟩; simp [Model.IAM.init] at hj
  unfold CInv
  split
  · split
    · exact ⟨hr, fun e he => by simp [Model.IAM.init] at he, fun i c a g hi => by simp [Model.IAM.init] at hi,
        fun i c hi => by simp [Model.IAM.init] at hi⟩
    · exact ⟨hr, fun k _ e he => by simp [Model.IAM.init] at he, fun j c hj => by simp [Model.IAM.init] at hj,
        fun i c a g hi => by simp [Model.IAM.init] at hi⟩
  · exact ⟨hr, rfl⟩

/-- everything that holds in every reachable state -/
structure Inv (v : Variant) (cfg : Cfg) (σ : State) : Prop where
  wf : Wf cfg σ
  typ : TInv cfg σ
  cache : CInv v cfg σ

theorem Inv.act {v : Variant} {cfg : Cfg} {σ : State} (h : Inv v cfg σ) (a : Act)
    (hq : NeedsQuiet v → QuietStep v σ a) : Inv v cfg (act v cfg σ a) :=
  ⟨h.wf.act a, h.typ.act a, h.cache.act h.wf h.typ a hq⟩

theorem Inv.run {v : Variant} {cfg : Cfg} {σ : State} (h : Inv v cfg σ) (acts : List Act)
    (hq : NeedsQuiet v → QuietRun v cfg σ acts) : Inv v cfg (run v cfg σ acts) := by
  induction acts generalizing σ with
  | nil => exact h
  | cons a rest ih =>
    exact ih (h.act a (fun hn => (hq hn).1)) (fun hn => (hq hn).2)

theorem Inv.init (v : Variant) (cfg : Cfg) (s : Store) (now : Nat) (hr : s.find cfg.root.access = none) :
    Inv v cfg (Model.IAM.init s now) :=
  ⟨Wf.init cfg s now, fun i c hi => by simp [Model.IAM.init] at hi, CInv.init v cfg s now hr⟩

theorem run_append (v : Variant) (cfg : Cfg) (σ : State) (a b : List Act) :
    run v cfg σ (a ++ b) = run v cfg (run v cfg σ a) b := by
  simp [Model.IAM.run, List.foldl_append]

theorem quietRun_append {v : Variant} {cfg : Cfg} {σ : State} {a b : List Act} :
    QuietRun v cfg σ (a ++ b) ↔ QuietRun v cfg σ a ∧ QuietRun v cfg (run v cfg σ a) b := by
  induction a generalizing σ with
  | nil => simp [QuietRun, Model.IAM.run]
  | cons x rest ih =>
    simp only [List.cons_append, QuietRun, ih, Model.IAM.run, List.foldl_cons]
    exact and_assoc.symm

/-- no change of key k is in flight -/
def NoMut (σ : State) (k : Bytes) : Prop :=
  ∀ (j : Nat) (c : Call), σ.calls[j]? = some c → c.op.isMut = true → c.op.key = k → isDone c.pc = true

theorem not_pending_of_noMut {cfg : Cfg} {σ : State} {k : Bytes} (hT : TInv cfg σ) (hN : NoMut σ k) :
    ¬ Pending σ.calls k := by
  rintro ⟨j, c, hj, hp, hk⟩
  have hm := ((hT j c hj).1 (Or.inr hp)).1
  have := hN j c hj hm hk
  cases hpc : c.pc <;> simp_all [pend, isDone]

/-- for a key that nobody is changing the cache agrees with the store (all entries, expired or not) -/
theorem coh_of_inv {v : Variant} {cfg : Cfg} {σ : State} {k : Bytes} (h : Inv v cfg σ) (hN : NoMut σ k) :
    Coh cfg σ.committed σ.items k := by
  have hnp := not_pending_of_noMut h.typ hN
  have hc := h.cache
  unfold CInv at hc
  split at hc
  · split at hc
    · intro e he hek
      rcases hc.ent e he with h1 | h1
      · rw [← hek]; exact h1
      · rw [hek] at h1; exact absurd h1 hnp
    · exact hc.coh k hnp
  · intro e he; rw [hc.empty] at he; cases he

end Vgw.Model.IAM
