/-
  Progress: a call that runs while every other call has returned is never blocked and returns
  within `fuel` steps (`call_returns`).  Steps only ever touch the stepping call's own record.
-/
import Vgw.Lemmas.IAMRun
namespace Vgw.Model.IAM
open Vgw
open Vgw.Model.Gw (Account Role)

def rank : PC → Nat
  | .start => 9
  | .mLocked => 8 | .mRead _ => 7 | .mRemoved _ => 6 | .mBackedUp _ => 5 | .mTemp _ => 4
  | .mRenamed => 3 | .mFailed _ => 2 | .mCache => 1
  | .gMiss _ => 5 | .gRLocked _ => 4 | .gGot _ _ => 3 | .gFetched _ _ => 1
  | .lRLocked => 2 | .lGot _ => 1
  | .done _ => 0

def isDone : PC → Bool
  | .done _ => true
  | _ => false

/-- a step changes no call record but the stepping call's, and never its `op` -/
theorem stepCall_calls (v : Variant) (cfg : Cfg) (σ : State) (i : Nat) (c : Call) (hi : σ.calls[i]? = some c) :
    ∃ pc', (stepCall v cfg σ i c).calls = σ.calls.set i ⟨c.op, pc'⟩ := by
  have hself : σ.calls = σ.calls.set i ⟨c.op, c.pc⟩ := by
    have := List.getElem?_eq_some_iff.mp hi
    obtain ⟨hlt, he⟩ := this
    have : (⟨c.op, c.pc⟩ : Call) = σ.calls[i] := by rw [he]
    rw [this, List.set_getElem_self]
  have hcs := (cacheStep_frame v cfg σ c.op).2.2.2.2.2.2.1
  unfold Model.IAM.stepCall
  repeat' split
  all_goals first
    | exact ⟨_, rfl⟩
    | exact ⟨c.pc, hself⟩
    | (refine ⟨.done .ok, ?_⟩; simp only [State.setCall]; rw [hcs])

theorem stepAt_other (v : Variant) (cfg : Cfg) (σ : State) (i j : Nat) (hij : j ≠ i) :
    (stepAt v cfg σ i).calls[j]? = σ.calls[j]? := by
  unfold Model.IAM.stepAt
  split
  · rename_i c hi
    obtain ⟨pc', h⟩ := stepCall_calls v cfg σ i c hi
    rw [h, List.getElem?_set]
    have : ¬ i = j := fun e => hij e.symm
    simp [this]
  · rfl

theorem stepAt_length (v : Variant) (cfg : Cfg) (σ : State) (i : Nat) :
    (stepAt v cfg σ i).calls.length = σ.calls.length := by
  unfold Model.IAM.stepAt
  split
  · rename_i c hi
    obtain ⟨pc', h⟩ := stepCall_calls v cfg σ i c hi
    rw [h]; simp
  · rfl

theorem stepAt_op (v : Variant) (cfg : Cfg) (σ : State) (i : Nat) (c : Call) (hi : σ.calls[i]? = some c) :
    ∃ pc', (stepAt v cfg σ i).calls[i]? = some ⟨c.op, pc'⟩ := by
  unfold Model.IAM.stepAt
  rw [hi]
  obtain ⟨pc', h⟩ := stepCall_calls v cfg σ i c hi
  refine ⟨pc', ?_⟩
  simp only
  rw [h, List.getElem?_set]
  have := (List.getElem?_eq_some_iff.mp hi).1
  simp [this]

/-- every call but `n` has returned -/
def Alone (σ : State) (n : Nat) : Prop := ∀ j c, j ≠ n → σ.calls[j]? = some c → isDone c.pc = true

theorem Alone.writer {cfg : Cfg} {σ : State} {n : Nat} (hA : Alone σ n) (hW : Wf cfg σ) :
    σ.writer = none ∨ σ.writer = some n := by
  cases hw : σ.writer with
  | none => exact Or.inl rfl
  | some w =>
    right
    by_cases hwn : w = n
    · rw [hwn]
    · have hlt := hW.b.wlt w hw
      have hc := hW.l.calls w σ.calls[w] (by simp [hlt])
      have hd := hA w _ hwn (by simp [hlt] : σ.calls[w]? = some σ.calls[w])
      have := hc.w.mpr hw
      cases hpc : σ.calls[w].pc <;> simp_all [isDone, inW]

theorem Alone.readers {cfg : Cfg} {σ : State} {n : Nat} (hA : Alone σ n) (hW : Wf cfg σ) :
    ∀ r ∈ σ.readers, r = n := by
  intro r hr
  by_cases hrn : r = n
  · exact hrn
  · have hlt := hW.b.rlt r hr
    have hc := hW.l.calls r σ.calls[r] (by simp [hlt])
    have hd := hA r _ hrn (by simp [hlt] : σ.calls[r]? = some σ.calls[r])
    have := hc.r.mpr hr
    cases hpc : σ.calls[r].pc <;> simp_all [isDone, inR]

/-- alone, a call that has not returned moves on -/
theorem stepCall_rank {v : Variant} {cfg : Cfg} {σ : State} {n : Nat} {c : Call}
    (hW : Wf cfg σ) (hA : Alone σ n) (hi : σ.calls[n]? = some c) (hnd : isDone c.pc = false) :
    ∀ c', (stepCall v cfg σ n c).calls[n]? = some c' → rank c'.pc < rank c.pc := by
  have hlt : n < σ.calls.length := (List.getElem?_eq_some_iff.mp hi).1
  have hc := hW.l.calls n c hi
  have hwr := hA.writer hW
  have hrd := hA.readers hW
  have hcs := (cacheStep_frame v cfg σ c.op).2.2.2.2.2.2.1
  -- the locks are free unless this call holds them
  have hfreeW : inW c.pc = false → σ.writer = none := by
    intro h
    rcases hwr with h' | h'
    · exact h'
    · have := hc.w.mpr h'; rw [h] at this; cases this
  have hfreeR : inR c.pc = false → σ.readers = [] := by
    intro h
    cases hr : σ.readers with
    | nil => rfl
    | cons r rest =>
      have hrn : r = n := hrd r (by simp [hr])
      have : n ∈ σ.readers := by rw [hr, hrn]; simp
      have := hc.r.mpr this; rw [h] at this; cases this
  have hmainW : σ.writer = none → σ.main = some σ.committed := fun h => (hW.l.free h).1
  intro c' hc'
  unfold Model.IAM.stepCall at hc'
  have hp := hc.pc
  unfold PcL at hp
  split at hc'
  · -- start
    rename_i hpc
    have hw0 := hfreeW (by simp [hpc, inW])
    have hr0 := hfreeR (by simp [hpc, inR])
    rw [hpc]
    split at hc'
    · split at hc' <;> (simp only [State.setCall, List.getElem?_set, hlt] at hc'; simp at hc'; subst hc'; simp [rank])
    · simp only [hw0, Option.isNone_none, if_true, State.setCall, List.getElem?_set, hlt] at hc'
      simp at hc'; subst hc'; simp [rank]
    · split at hc'
      · simp only [State.setCall, List.getElem?_set, hlt] at hc'; simp at hc'; subst hc'; simp [rank]
      · simp only [hw0, hr0, Option.isNone_none, List.isEmpty_nil, Bool.and_self, if_true, State.setCall, List.getElem?_set, hlt] at hc'
        simp at hc'; subst hc'; simp [rank]
    · simp only [hw0, hr0, Option.isNone_none, List.isEmpty_nil, Bool.and_self, if_true, State.setCall, List.getElem?_set, hlt] at hc'
      simp at hc'; subst hc'; simp [rank]
  · -- mLocked
    rename_i hpc
    rw [hpc] at hp ⊢
    simp only [hp.1, State.setCall, List.getElem?_set, hlt] at hc'
    simp at hc'; subst hc'; simp [rank]
  · rename_i b hpc; rw [hpc]
    simp only [State.setCall, List.getElem?_set, hlt] at hc'; simp at hc'; subst hc'; simp [rank]
  · rename_i b hpc; rw [hpc]
    simp only [State.setCall, List.getElem?_set, hlt] at hc'; simp at hc'; subst hc'; simp [rank]
  · rename_i b hpc; rw [hpc]
    split at hc' <;> (simp only [State.setCall, List.getElem?_set, hlt] at hc'; simp at hc'; subst hc'; simp [rank])
  · rename_i b hpc; rw [hpc]
    simp only [State.setCall, List.getElem?_set, hlt] at hc'; simp at hc'; subst hc'; simp [rank]
  · rename_i hpc; rw [hpc]
    simp only [State.setCall, List.getElem?_set, hlt] at hc'; simp at hc'; subst hc'; simp [rank]
  · rename_i e hpc; rw [hpc]
    simp only [State.setCall, List.getElem?_set, hlt] at hc'; simp at hc'; subst hc'; simp [rank]
  · -- mCache
    rename_i hpc; rw [hpc]
    simp only [State.setCall, hcs, List.getElem?_set, hlt] at hc'; simp at hc'; subst hc'; simp [rank]
  · -- gMiss
    rename_i g hpc
    have hw0 := hfreeW (by simp [hpc, inW])
    rw [hpc]
    split at hc'
    · simp only [State.setCall, List.getElem?_set, hlt] at hc'; simp at hc'; subst hc'; simp [rank]
    · simp only [hw0, Option.isNone_none, if_true, State.setCall, List.getElem?_set, hlt] at hc'
      simp at hc'; subst hc'; simp [rank]
  · -- gRLocked
    rename_i g hpc
    have hw0 : σ.writer = none := by
      have : n ∈ σ.readers := hc.r.mp (by simp [hpc, inR])
      cases hw : σ.writer with
      | none => rfl
      | some w => have := hW.l.excl (by simp [hw]); simp_all
    rw [hpc]
    simp only [hmainW hw0, State.setCall, List.getElem?_set, hlt] at hc'
    simp at hc'; subst hc'; simp [rank]
  · -- gGot
    rename_i r g hpc; rw [hpc]
    split at hc' <;> (simp only [State.setCall, List.getElem?_set, hlt] at hc'; simp at hc'; subst hc'; simp [rank])
  · -- gFetched
    rename_i a g hpc; rw [hpc]
    split at hc' <;> (simp only [State.setCall, List.getElem?_set, hlt] at hc'; simp at hc'; subst hc'; simp [rank])
  · -- lRLocked
    rename_i hpc
    have hw0 : σ.writer = none := by
      have : n ∈ σ.readers := hc.r.mp (by simp [hpc, inR])
      cases hw : σ.writer with
      | none => rfl
      | some w => have := hW.l.excl (by simp [hw]); simp_all
    rw [hpc]
    simp only [hmainW hw0, State.setCall, List.getElem?_set, hlt] at hc'
    simp at hc'; subst hc'; simp [rank]
  · rename_i s hpc; rw [hpc]
    simp only [State.setCall, List.getElem?_set, hlt] at hc'; simp at hc'; subst hc'; simp [rank]
  · rename_i r hpc; rw [hpc] at hnd; simp [isDone] at hnd

theorem stepAt_done (v : Variant) (cfg : Cfg) (σ : State) (n : Nat) (c : Call)
    (hi : σ.calls[n]? = some c) (hd : isDone c.pc = true) : stepAt v cfg σ n = σ := by
  unfold Model.IAM.stepAt
  rw [hi]
  simp only
  unfold Model.IAM.stepCall
  cases hpc : c.pc <;> simp_all [isDone]

theorem rank_zero {pc : PC} (h : rank pc = 0) : isDone pc = true := by
  cases pc <;> simp_all [rank, isDone]

theorem Alone.stepAt {v : Variant} {cfg : Cfg} {σ : State} {n : Nat} (hA : Alone σ n) :
    Alone (stepAt v cfg σ n) n := by
  intro j c hj hc
  rw [stepAt_other v cfg σ n j hj] at hc
  exact hA j c hj hc

/-- alone, a call returns within `rank` steps; the other calls are not touched -/
theorem stepN_returns {v : Variant} {cfg : Cfg} (m : Nat) : ∀ {σ : State} {n : Nat} {c : Call},
    Wf cfg σ → Alone σ n → σ.calls[n]? = some c → rank c.pc ≤ m →
    ∃ r, (stepN v cfg σ n m).calls[n]? = some ⟨c.op, .done r⟩ ∧ Alone (stepN v cfg σ n m) n ∧
      Wf cfg (stepN v cfg σ n m) := by
  induction m with
  | zero =>
    intro σ n c hW hA hi hr
    have hd := rank_zero (Nat.le_zero.mp hr)
    cases hpc : c.pc with
    | done r =>
      refine ⟨r, ?_, hA, hW⟩
      simp only [stepN]
      rw [hi, ← hpc]
    | _ => rw [hpc] at hd; simp [isDone] at hd
  | succ m ih =>
    intro σ n c hW hA hi hr
    simp only [stepN]
    by_cases hd : isDone c.pc = true
    · rw [stepAt_done v cfg σ n c hi hd]
      have : rank c.pc ≤ m := by cases hpc : c.pc <;> simp_all [isDone, rank]
      exact ih hW hA hi this
    · have hd : isDone c.pc = false := by simpa using hd
      obtain ⟨pc', hpc'⟩ := stepAt_op v cfg σ n c hi
      have hlt : rank pc' < rank c.pc := by
        have := stepCall_rank (v := v) hW hA hi hd ⟨c.op, pc'⟩
        apply this
        have h2 := hpc'
        unfold Model.IAM.stepAt at h2
        rw [hi] at h2
        exact h2
      have := ih (hW.stepAt n) (hA.stepAt (v := v) (cfg := cfg)) hpc' (by simp only; omega)
      exact this

/-- every call has returned -/
def Quiescent (σ : State) : Prop := ∀ (j : Nat) (c : Call), σ.calls[j]? = some c → isDone c.pc = true

theorem call_returns_aux {v : Variant} {cfg : Cfg} {σ : State} (hW : Wf cfg σ) (hQ : Quiescent σ) (op : Op) :
    ∃ r, (call v cfg σ op).calls[σ.calls.length]? = some ⟨op, .done r⟩ ∧
      Quiescent (call v cfg σ op) ∧ Wf cfg (call v cfg σ op) ∧
      (call v cfg σ op).calls.length = σ.calls.length + 1 := by
  unfold Model.IAM.call
  have hW0 : Wf cfg (act v cfg σ (.invoke op)) := hW.act _
  have hn : (act v cfg σ (.invoke op)).calls[σ.calls.length]? = some ⟨op, .start⟩ := by
    simp [Model.IAM.act]
  have hA : Alone (act v cfg σ (.invoke op)) σ.calls.length := by
    intro j c hj hc
    simp only [Model.IAM.act] at hc
    by_cases hlt : j < σ.calls.length
    · rw [List.getElem?_append_left hlt] at hc; exact hQ j c hc
    · have : σ.calls.length + 1 ≤ j := by omega
      rw [List.getElem?_eq_none (by simp; omega)] at hc; cases hc
  obtain ⟨r, h1, h2, h3⟩ := stepN_returns (v := v) fuel hW0 hA hn (by simp [rank, fuel])
  refine ⟨r, h1, ?_, h3, ?_⟩
  · intro j c hc
    by_cases hj : j = σ.calls.length
    · subst hj; rw [h1] at hc; cases hc; rfl
    · exact h2 j c hj hc
  · have : ∀ m (τ : State), (stepN v cfg τ σ.calls.length m).calls.length = τ.calls.length := by
      intro m
      induction m with
      | zero => intro τ; rfl
      | succ m ih => intro τ; simp only [stepN]; rw [ih, stepAt_length]
    rw [this]; simp [Model.IAM.act]

end Vgw.Model.IAM
