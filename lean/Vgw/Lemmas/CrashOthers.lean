import Vgw.Lemmas.CrashOwned
/-
  Lemmas.CrashOthers — paths owned by one key are never read by the view of an unrelated key; hence no
  prefix of any plan changes what the API shows for unrelated keys.
-/
namespace Vgw.Model.Crash

/-- Two file keys neither of which is a path-prefix of the other (`a/b` and `a/b/c` are related: the first
    must be a file, the second needs it to be a directory), the second not being a name below `.sgwtmp`. -/
def Unrelated (key k' : Path) : Prop := ¬ key <+: k' ∧ ¬ k' <+: key ∧ k'.head? ≠ some ".sgwtmp"

theorem heads_eq_of_prefixes {a b : String} {x y q : Path} (h1 : a :: x <+: q) (h2 : b :: y <+: q) : a = b := by
  cases q with
  | nil => exact absurd h1.length_le (by simp)
  | cons c t =>
    rw [List.cons_prefix_cons] at h1 h2
    rw [h1.1, h2.1]

theorem prefix_of_snoc_prefix_snoc {a b : Path} {m m' : String} (h : a ++ [m] <+: b ++ [m']) : a <+: b := by
  have h1 : a <+: b ++ [m'] := (List.prefix_append a [m]).trans h
  have h2 : b <+: b ++ [m'] := List.prefix_append b [m']
  have hl : a.length ≤ b.length := by
    have := h.length_le; simp at this; omega
  exact List.prefix_of_prefix_length_le h1 h2 hl

theorem owned_not_read {cfg : Cfg} {key k' q : Path} (h : Owned cfg key q) (hu : Unrelated key k') :
    reads cfg k' q = false := by
  obtain ⟨hu1, hu2, hu3⟩ := hu
  have hk' : k' ≠ [] := fun h0 => hu2 (h0 ▸ List.nil_prefix)
  simp only [reads, Bool.or_eq_false_iff, beq_eq_false_iff_ne, ne_eq]
  rw [sideOf_obj, objPath_eq]
  have hside : ¬ ("S" :: cfg.bucket :: (k' ++ ["meta"])).isPrefixOf q = true ↔ ¬ ("S" :: cfg.bucket :: (k' ++ ["meta"])) <+: q := by
    rw [List.isPrefixOf_iff_prefix]
  rw [Bool.eq_false_iff, ne_eq, hside]
  rcases h with h | h | h | h | h | h | h
  · -- below the temp directory
    rw [tmpDir_eq] at h
    refine ⟨fun hq => ?_, fun hs => ?_⟩
    · subst hq
      have h1 : [".sgwtmp"] <+: k' := by
        have := (List.prefix_cons_inj "R").mp h
        exact (List.prefix_cons_inj cfg.bucket).mp this
      cases k' with
      | nil => exact hk' rfl
      | cons x t =>
        rw [List.cons_prefix_cons] at h1
        exact hu3 (by simp [h1.1])
    · exact absurd (heads_eq_of_prefixes h hs) (by decide)
  · refine ⟨fun hq => ?_, fun hs => ?_⟩
    · subst hq; exact absurd (List.cons_prefix_cons.mp h).1 (by decide)
    · exact absurd (heads_eq_of_prefixes h hs) (by decide)
  · refine ⟨fun hq => ?_, fun hs => ?_⟩
    · subst hq; exact absurd (List.cons_prefix_cons.mp h).1 (by decide)
    · exact absurd (heads_eq_of_prefixes h hs) (by decide)
  · -- sidecar entries of the temp directory
    refine ⟨fun hq => ?_, fun hs => ?_⟩
    · subst hq; exact absurd (List.cons_prefix_cons.mp h).1 (by decide)
    · cases k' with
      | nil => exact hk' rfl
      | cons x t =>
        rcases List.prefix_or_prefix_of_prefix h hs with h1 | h1
        · have := (List.prefix_cons_inj cfg.bucket).mp ((List.prefix_cons_inj "S").mp h1)
          rw [List.cons_append, List.cons_prefix_cons] at this
          exact hu3 (by simp [this.1])
        · have := (List.prefix_cons_inj cfg.bucket).mp ((List.prefix_cons_inj "S").mp h1)
          rw [List.cons_append, List.cons_prefix_cons] at this
          exact hu3 (by simp [this.1])
  · -- the object and its ancestors
    rw [objPath_eq] at h
    refine ⟨fun hq => ?_, fun hs => ?_⟩
    · subst hq
      exact hu2 ((List.prefix_cons_inj cfg.bucket).mp ((List.prefix_cons_inj "R").mp h))
    · exact absurd (List.cons_prefix_cons.mp (hs.trans h)).1 (by decide)
  · -- the key's sidecar directory and the directories above it
    rw [sideOf_obj] at h
    refine ⟨fun hq => ?_, fun hs => ?_⟩
    · subst hq; exact absurd (List.cons_prefix_cons.mp h).1 (by decide)
    · have := (List.prefix_cons_inj cfg.bucket).mp ((List.prefix_cons_inj "S").mp (hs.trans h))
      exact hu2 (prefix_of_snoc_prefix_snoc this)
  · -- below the key's sidecar directory
    rw [sideOf_obj] at h
    refine ⟨fun hq => ?_, fun hs => ?_⟩
    · subst hq; exact absurd (List.cons_prefix_cons.mp h).1 (by decide)
    · rcases List.prefix_or_prefix_of_prefix h hs with h1 | h1
      · have := (List.prefix_cons_inj cfg.bucket).mp ((List.prefix_cons_inj "S").mp h1)
        exact hu1 (prefix_of_snoc_prefix_snoc this)
      · have := (List.prefix_cons_inj cfg.bucket).mp ((List.prefix_cons_inj "S").mp h1)
        exact hu2 (prefix_of_snoc_prefix_snoc this)

/-- every step that writes only owned paths of `key` is silent on what an unrelated key's view reads -/
theorem silent_of_owned {cfg : Cfg} {key k' : Path} {l : List Step} (h : WritesOwned cfg key l) (hu : Unrelated key k') :
    ∀ s ∈ l, s.silent (reads cfg k') = true := by
  intro s hs
  simp only [Step.silent, List.all_eq_true, Bool.not_eq_eq_eq_not, Bool.not_true]
  intro q hq
  exact owned_not_read (h s hs q hq) hu

end Vgw.Model.Crash
