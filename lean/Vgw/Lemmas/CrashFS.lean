import Vgw.Model.Crash
/-
  Lemmas.CrashFS — algebra of the abstract file system of Model.Crash: lookups after updates, the
  restriction of a file system to a set of paths, the frame property of steps (a step changes only the
  paths it writes), and the generic atomicity lemma for step lists with at most one non-silent step.
-/
namespace Vgw.Model.Crash

/-! ### lookups -/

theorem find?_congr' {α : Type} {l : List α} {p q : α → Bool} (h : ∀ e ∈ l, p e = q e) : l.find? p = l.find? q := by
  induction l with
  | nil => rfl
  | cons a t ih =>
    simp only [List.find?_cons, h a List.mem_cons_self]
    rw [ih (fun e he => h e (List.mem_cons_of_mem _ he))]

theorem FS.get_put_self (fs : FS) (p : Path) (n : Node) : (fs.put p n).get p = some n := by
  simp [FS.get, FS.put]

theorem FS.get_del_self (fs : FS) (p : Path) : (fs.del p).get p = none := by
  simp only [FS.get, FS.del, Option.map_eq_none_iff, List.find?_eq_none, List.mem_filter]
  intro e he
  simp_all

theorem FS.get_del_ne (fs : FS) {p q : Path} (h : q ≠ p) : (fs.del p).get q = fs.get q := by
  simp only [FS.get, FS.del, List.find?_filter]
  congr 1
  apply find?_congr'
  intro e _
  by_cases hq : e.1 = q
  · subst hq; simp [h]
  · simp [hq]

theorem FS.get_put_ne (fs : FS) {p q : Path} (n : Node) (h : q ≠ p) : (fs.put p n).get q = fs.get q := by
  have : (fs.put p n).get q = (fs.del p).get q := by
    simp only [FS.get, FS.put]
    rw [List.find?_cons_of_neg]
    simpa using fun hpq => h hpq.symm
  rw [this, FS.get_del_ne fs h]

/-! ### restriction to a set of paths -/

/-- the named entries whose path satisfies `P` (unnamed inodes dropped) -/
def FS.restrict (P : Path → Bool) (fs : FS) : FS := { ents := fs.ents.filter (fun e => P e.1), anon := [] }

theorem FS.restrict_crash (P : Path → Bool) (fs : FS) : (crash fs).restrict P = fs.restrict P := rfl

theorem FS.get_restrict (P : Path → Bool) (fs : FS) {q : Path} (h : P q = true) : (fs.restrict P).get q = fs.get q := by
  simp only [FS.get, FS.restrict, List.find?_filter]
  congr 1
  apply find?_congr'
  intro e _
  by_cases hq : e.1 = q
  · subst hq; simp [h]
  · simp [hq]

theorem FS.children_restrict (P : Path → Bool) (fs : FS) (p : Path)
    (h : ∀ q : Path, (q.length == p.length + 1 && p.isPrefixOf q) = true → P q = true) :
    (fs.restrict P).children p = fs.children p := by
  simp only [FS.children, FS.restrict, List.filter_filter]
  apply List.filter_congr
  intro e _
  by_cases hc : (e.1.length == p.length + 1 && p.isPrefixOf e.1) = true
  · rw [hc, h e.1 hc]; rfl
  · simp only [Bool.not_eq_true] at hc; rw [hc]; rfl

theorem FS.isDir_restrict (P : Path → Bool) (fs : FS) {q : Path} (h : P q = true) : (fs.restrict P).isDir q = fs.isDir q := by
  simp [FS.isDir, FS.get_restrict P fs h]

theorem FS.isFile_restrict (P : Path → Bool) (fs : FS) {q : Path} (h : P q = true) : (fs.restrict P).isFile q = fs.isFile q := by
  simp [FS.isFile, FS.get_restrict P fs h]

theorem FS.restrict_put (P : Path → Bool) (fs : FS) {p : Path} (n : Node) (h : P p = false) :
    (fs.put p n).restrict P = fs.restrict P := by
  simp only [FS.restrict, FS.put, FS.del, FS.mk.injEq, and_true]
  rw [List.filter_cons_of_neg (by simpa using h), List.filter_filter]
  apply List.filter_congr
  intro e _
  by_cases he : e.1 = p
  · rw [he, h]; simp
  · simp [he]

theorem FS.restrict_del (P : Path → Bool) (fs : FS) {p : Path} (h : P p = false) :
    (fs.del p).restrict P = fs.restrict P := by
  simp only [FS.restrict, FS.del, FS.mk.injEq, and_true, List.filter_filter]
  apply List.filter_congr
  intro e _
  by_cases he : e.1 = p
  · rw [he, h]; simp
  · simp [he]

theorem FS.restrict_aput (P : Path → Bool) (fs : FS) (id : Nat) (n : Node) : (fs.aput id n).restrict P = fs.restrict P := rfl

/-! ### the write set of a step and the frame property -/

def Ref.paths : Ref → List Path
  | .anon _ => []
  | .path p => [p]

/-- the named paths a step can change -/
def Step.writes : Step → List Path
  | .otmp _ _ => []
  | .creat p => [p]
  | .falloc _ => []
  | .chmod _ => []
  | .write r _ => r.paths
  | .setx r _ _ => r.paths
  | .rmx p _ => [p]
  | .mkdir p => [p]
  | .unlink p => [p]
  | .rmdir p => [p]
  | .link _ p => [p]
  | .rename s d => [s, d]

/-- a step that writes no path of `P` -/
def Step.silent (P : Path → Bool) (s : Step) : Bool := s.writes.all (fun q => !P q)

theorem FS.restrict_rput (P : Path → Bool) (fs : FS) (r : Ref) (n : Node) (h : ∀ q ∈ r.paths, P q = false) :
    (fs.rput r n).restrict P = fs.restrict P := by
  cases r with
  | anon id => rfl
  | path p => exact FS.restrict_put P fs n (h p (by simp [Ref.paths]))

theorem apply_restrict (P : Path → Bool) (s : Step) (fs : FS) (h : s.silent P = true) :
    (apply s fs).restrict P = fs.restrict P := by
  simp only [Step.silent, List.all_eq_true, Bool.not_eq_eq_eq_not, Bool.not_true] at h
  cases s with
  | otmp id d => rfl
  | creat p =>
    have hp := h p (by simp [Step.writes])
    simp only [apply]
    split <;> first | rfl | exact FS.restrict_put P fs _ hp
  | falloc r => rfl
  | chmod r => rfl
  | write r v =>
    simp only [apply]
    split
    · exact FS.restrict_rput P fs r _ (fun q hq => h q (by simpa [Step.writes] using hq))
    · rfl
  | setx r a v =>
    simp only [apply]
    split
    · exact FS.restrict_rput P fs r _ (fun q hq => h q (by simpa [Step.writes] using hq))
    · rfl
  | rmx p a =>
    have hp := h p (by simp [Step.writes])
    simp only [apply]
    split
    · exact FS.restrict_put P fs _ hp
    · rfl
  | mkdir p =>
    have hp := h p (by simp [Step.writes])
    simp only [apply]
    split
    · rfl
    · exact FS.restrict_put P fs _ hp
  | unlink p =>
    have hp := h p (by simp [Step.writes])
    simp only [apply]
    split
    · exact FS.restrict_del P fs hp
    · rfl
  | rmdir p =>
    have hp := h p (by simp [Step.writes])
    simp only [apply]
    split
    · exact FS.restrict_del P fs hp
    · rfl
  | link id p =>
    have hp := h p (by simp [Step.writes])
    simp only [apply]
    split
    · split
      · rfl
      · exact FS.restrict_put P fs _ hp
    · rfl
  | rename s d =>
    have hs := h s (by simp [Step.writes])
    have hd := h d (by simp [Step.writes])
    simp only [apply]
    split
    · rw [FS.restrict_put P _ _ hd, FS.restrict_del P fs hs]
    · rfl

theorem run_nil (fs : FS) : run [] fs = fs := rfl
theorem run_cons (s : Step) (l : List Step) (fs : FS) : run (s :: l) fs = run l (apply s fs) := rfl
theorem run_append (a b : List Step) (fs : FS) : run (a ++ b) fs = run b (run a fs) := by
  simp [run, List.foldl_append]

theorem run_restrict (P : Path → Bool) (l : List Step) (fs : FS) (h : ∀ s ∈ l, s.silent P = true) :
    (run l fs).restrict P = fs.restrict P := by
  induction l generalizing fs with
  | nil => rfl
  | cons s t ih =>
    rw [run_cons, ih (apply s fs) (fun x hx => h x (List.mem_cons_of_mem _ hx)),
      apply_restrict P s fs (h s List.mem_cons_self)]

/-- Generic atomicity: when at most one step of a list writes inside `P`, every prefix of the list leaves the
    `P`-part of the file system either as it was or as the whole list leaves it. -/
theorem atomic_of_countP (P : Path → Bool) (l : List Step) (fs : FS)
    (h : l.countP (fun s => !s.silent P) ≤ 1) (n : Nat) :
    (run (l.take n) fs).restrict P = fs.restrict P ∨ (run (l.take n) fs).restrict P = (run l fs).restrict P := by
  induction l generalizing fs n with
  | nil => left; simp [run_nil]
  | cons s t ih =>
    cases n with
    | zero => left; simp [run_nil]
    | succ n =>
      rw [List.take_succ_cons, run_cons, run_cons]
      by_cases hs : s.silent P = true
      · have ht : t.countP (fun s => !s.silent P) ≤ 1 := by
          rw [List.countP_cons_of_neg (by simp [hs])] at h; exact h
        rcases ih (apply s fs) ht n with h1 | h1
        · left; rw [h1, apply_restrict P s fs hs]
        · right; exact h1
      · have ht : t.countP (fun s => !s.silent P) = 0 := by
          rw [List.countP_cons_of_pos (by simpa using hs)] at h; omega
        have hall : ∀ x ∈ t, x.silent P = true := by
          intro x hx
          have := List.countP_eq_zero.mp ht x hx
          simpa using this
        right
        rw [run_restrict P (t.take n) _ (fun x hx => hall x (List.mem_of_mem_take hx)),
          run_restrict P t _ hall]

end Vgw.Model.Crash
