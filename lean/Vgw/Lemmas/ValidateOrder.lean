/-
  C14: the set of outcomes of ValidatePolicyDocument over all map iteration orders is spanned by two
  orders — `s3:*` first (most permissive) and `s3:*` last (least permissive).  This is what the
  driver reports to the harness as the set of admissible observations.
-/
import Vgw.Lemmas.ValidateDoc
namespace Vgw.Lemmas.Validate
open Vgw Vgw.Go.Strings Vgw.Model.Policy Vgw.Spec.Policy Vgw.Lemmas.Policy

theorem actionKind_all_iff (a : Bytes) : actionKind a = .all ↔ a = allActions := by
  constructor
  · intro h
    by_cases e : a = allActions
    · exact e
    · exfalso
      unfold actionKind at h
      rw [if_neg e] at h
      split at h
      · cases h
      · split at h
        · split at h <;> cases h
        · split at h <;> cases h
  · intro e; rw [e]; exact actionKind_all

/-- without `s3:*` the loop succeeds iff every action passes: independent of the order -/
theorem kindLoop_ok_iff_noall (o b : Bool) (l : List Bytes) (h : allActions ∉ l) :
    kindLoop o b l = .ok () ↔ ∀ a ∈ l, StepOKb o b a := by
  constructor
  · intro hk
    exact kindLoop_ok_inv' o b l hk (fun a ha e => h ((actionKind_all_iff a).1 e ▸ ha))
  · exact kindLoop_ok_of' o b l

theorem kindLoop_append_noall (o b : Bool) (xs ys : List Bytes) (h : allActions ∉ xs)
    (hk : kindLoop o b (xs ++ ys) = .ok ()) : ∀ a ∈ xs, StepOKb o b a := by
  induction xs with
  | nil => intro a ha; cases ha
  | cons x rest ih =>
    have hx : actionKind x ≠ .all := fun e => h ((actionKind_all_iff x).1 e ▸ List.mem_cons_self)
    rw [List.cons_append, kindLoop] at hk
    cases hkx : actionKind x with
    | all => exact absurd hkx hx
    | panic => rw [hkx] at hk; cases hk
    | object =>
      rw [hkx] at hk
      cases o with
      | false => cases hk
      | true =>
        intro a ha
        rcases List.mem_cons.1 ha with rfl | ha
        · exact Or.inr (Or.inl ⟨hkx, rfl⟩)
        · exact ih (fun hm => h (List.mem_cons_of_mem _ hm)) hk a ha
    | bucket =>
      rw [hkx] at hk
      cases b with
      | false => cases hk
      | true =>
        intro a ha
        rcases List.mem_cons.1 ha with rfl | ha
        · exact Or.inr (Or.inr ⟨hkx, rfl⟩)
        · exact ih (fun hm => h (List.mem_cons_of_mem _ hm)) hk a ha

theorem mem_filter_ne (l : List Bytes) (a : Bytes) :
    a ∈ l.filter (· ≠ allActions) ↔ a ∈ l ∧ a ≠ allActions := by
  rw [List.mem_filter]; simp

/-- `s3:*` first is the most permissive order -/
theorem kindLoop_allFirst (o b : Bool) (ord : List Bytes → List Bytes) (hord : OrdOK ord)
    (l : List Bytes) (h : kindLoop o b (ord l) = .ok ()) : kindLoop o b (allFirst l) = .ok () := by
  by_cases hall : allActions ∈ l
  · unfold allFirst
    have : allActions ∈ l.filter (· = allActions) := by rw [List.mem_filter]; simp [hall]
    cases hf : l.filter (· = allActions) with
    | nil => rw [hf] at this; cases this
    | cons x t =>
      have hx : x ∈ l.filter (· = allActions) := by rw [hf]; simp
      rw [List.mem_filter] at hx
      have hxe : x = allActions := by simpa using hx.2
      rw [List.cons_append, kindLoop, hxe, actionKind_all]
  · have hno : allActions ∉ ord l := fun hm => hall ((hord l _).1 hm)
    have hsteps := (kindLoop_ok_iff_noall o b (ord l) hno).1 h
    apply kindLoop_ok_of'
    intro a ha
    unfold allFirst at ha
    rw [List.mem_append, List.mem_filter, List.mem_filter] at ha
    have : a ∈ l := by rcases ha with ha | ha <;> exact ha.1
    exact hsteps a ((hord l a).2 this)

/-- `s3:*` last is the least permissive order -/
theorem kindLoop_allLast (o b : Bool) (ord : List Bytes → List Bytes) (hord : OrdOK ord)
    (l : List Bytes) (h : kindLoop o b (allLast l) = .ok ()) : kindLoop o b (ord l) = .ok () := by
  unfold allLast at h
  have hno : allActions ∉ l.filter (· ≠ allActions) := fun hm => ((mem_filter_ne l _).1 hm).2 rfl
  have hsteps := kindLoop_append_noall o b _ _ hno h
  apply kindLoop_ok_of'
  intro a ha
  have hal := (hord l a).1 ha
  by_cases e : a = allActions
  · left; rw [e]; exact actionKind_all
  · exact hsteps a ((mem_filter_ne l a).2 ⟨hal, e⟩)

theorem validateStmt_order (bucket : Bytes) (acct : Bytes → Bool) (st : Stmt) (f g : List Bytes → List Bytes)
    (hfg : ∀ o b, kindLoop o b (f st.actions) = .ok () → kindLoop o b (g st.actions) = .ok ())
    (h : validateStmt bucket acct { st with actions := f st.actions } = .ok ()) :
    validateStmt bucket acct { st with actions := g st.actions } = .ok () := by
  rw [validateStmt_ok_iff] at h ⊢
  exact ⟨h.1, h.2.1, h.2.2.1, hfg _ _ h.2.2.2⟩

theorem validatePolicy_order (bucket : Bytes) (acct : Bytes → Bool) (pol : Policy) (f g : List Bytes → List Bytes)
    (hfg : ∀ o b l, kindLoop o b (f l) = .ok () → kindLoop o b (g l) = .ok ())
    (h : validatePolicy bucket acct (reorder f pol) = .ok ()) :
    validatePolicy bucket acct (reorder g pol) = .ok () := by
  induction pol with
  | nil => rfl
  | cons st rest ih =>
    rw [reorder_cons, validatePolicy_cons] at h ⊢
    exact ⟨validateStmt_order bucket acct st f g (fun o b => hfg o b _) h.1, ih h.2⟩

theorem validateDocument_order (bucket : Bytes) (acct : Bytes → Bool) (doc : RawDoc) (f g : List Bytes → List Bytes)
    (hfg : ∀ o b l, kindLoop o b (f l) = .ok () → kindLoop o b (g l) = .ok ())
    (h : validateDocument f bucket acct doc = .ok ()) : validateDocument g bucket acct doc = .ok () := by
  rw [validateDocument_ok_iff] at h ⊢
  obtain ⟨pol, hd, hl, hv⟩ := h
  exact ⟨pol, hd, hl, validatePolicy_order bucket acct pol f g hfg hv⟩

end Vgw.Lemmas.Validate
