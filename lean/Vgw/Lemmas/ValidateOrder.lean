/-
  C14: ValidatePolicyDocument does not depend on the order in which Go iterates the action maps
  (since the fix ade9d47 the action/resource-kind loop `continue`s at `s3:*` instead of `break`ing).
-/
import Vgw.Lemmas.ValidateDoc
namespace Vgw.Lemmas.Validate
open Vgw Vgw.Go.Strings Vgw.Model.Policy Vgw.Spec.Policy Vgw.Lemmas.Policy

theorem actionKind_ne_panic (a : Bytes) (hv : actionIsValid a = true) : actionKind a ≠ .panic := by
  by_cases hall : a = allActions
  · rw [hall, actionKind_all]; intro e; cases e
  · have hnil : a ≠ [] := by intro e; rw [e, actionIsValid_nil] at hv; cases hv
    rcases actionKind_cases a hall hnil with ⟨h, _⟩ | ⟨h, _⟩ <;> rw [h] <;> intro e <;> cases e

/-- two traversals of the same set of (non-empty) actions end alike -/
theorem kindLoop_order (o b : Bool) (l1 l2 : List Bytes) (hmem : ∀ a, a ∈ l1 ↔ a ∈ l2)
    (hnp : ∀ a ∈ l1, actionKind a ≠ .panic) : kindLoop o b l1 = kindLoop o b l2 := by
  have hnp2 : ∀ a ∈ l2, actionKind a ≠ .panic := fun a ha => hnp a ((hmem a).2 ha)
  have hiff : kindLoop o b l1 = .ok () ↔ kindLoop o b l2 = .ok () := by
    rw [kindLoop_ok_iff', kindLoop_ok_iff']
    exact ⟨fun h a ha => h a ((hmem a).2 ha), fun h a ha => h a ((hmem a).1 ha)⟩
  rcases kindLoop_cases o b l1 hnp with h1 | h1 <;> rcases kindLoop_cases o b l2 hnp2 with h2 | h2
  · rw [h1, h2]
  · have := hiff.1 h1; rw [h2] at this; cases this
  · have := hiff.2 h2; rw [h1] at this; cases this
  · rw [h1, h2]

theorem decodeStmt_actions_valid (r : RawStmt) (st : Stmt) (h : decodeStmt r = .ok st) :
    ∀ a ∈ st.actions, actionIsValid a = true := by
  obtain ⟨_, _, hda, _⟩ := (decodeStmt_ok_iff r st).1 h
  rcases decodeField_ok _ _ _ _ hda with ⟨_, he⟩ | ⟨l, _, hadd, _⟩
  · intro a ha; rw [he] at ha; cases ha
  · obtain ⟨_, hmem, _⟩ := addAll_ok _ l _ hadd
    intro a ha
    obtain ⟨x, _, hx⟩ := (hmem a).1 ha
    obtain ⟨hv, e⟩ := (addAction_ok_iff x a).1 hx
    rw [e]; exact hv

theorem decodeStmts_actions_valid (l : List RawStmt) (pol : Policy) (h : decodeStmts l = .ok pol) :
    ∀ st ∈ pol, ∀ a ∈ st.actions, actionIsValid a = true := by
  induction l generalizing pol with
  | nil => rw [decodeStmts] at h; cases h; intro st hst; cases hst
  | cons r rest ih =>
    obtain ⟨st, sts, h1, h2, rfl⟩ := (decodeStmts_cons r rest pol).1 h
    intro x hx
    rcases List.mem_cons.1 hx with rfl | hx
    · exact decodeStmt_actions_valid r _ h1
    · exact ih sts h2 x hx

theorem validateStmt_order (bucket : Bytes) (acct : Bytes → Bool) (st : Stmt)
    (f g : List Bytes → List Bytes) (hf : OrdOK f) (hg : OrdOK g)
    (hv : ∀ a ∈ st.actions, actionIsValid a = true) :
    validateStmt bucket acct { st with actions := f st.actions } =
      validateStmt bucket acct { st with actions := g st.actions } := by
  have hk := kindLoop_order (containsObjectPattern st.resources) (containsBucketPattern st.resources)
    (f st.actions) (g st.actions) (fun a => by rw [hf, hg])
    (fun a ha => actionKind_ne_panic a (hv a ((hf _ a).1 ha)))
  have hlen : ((f st.actions).length = 0) = ((g st.actions).length = 0) := by
    apply propext
    rw [List.length_eq_zero_iff, List.length_eq_zero_iff]
    have a := ord_ne_nil f hf st.actions
    have b := ord_ne_nil g hg st.actions
    by_cases e : st.actions = []
    · have hfe : f st.actions = [] := by
        by_cases h : f st.actions = []
        · exact h
        · exact absurd e (a.1 h)
      have hge : g st.actions = [] := by
        by_cases h : g st.actions = []
        · exact h
        · exact absurd e (b.1 h)
      simp [hfe, hge]
    · simp [a.2 e, b.2 e]
  unfold validateStmt
  dsimp only
  rw [hk]
  simp only [hlen]

theorem validatePolicy_order (bucket : Bytes) (acct : Bytes → Bool) (pol : Policy)
    (f g : List Bytes → List Bytes) (hf : OrdOK f) (hg : OrdOK g)
    (hv : ∀ st ∈ pol, ∀ a ∈ st.actions, actionIsValid a = true) :
    validatePolicy bucket acct (reorder f pol) = validatePolicy bucket acct (reorder g pol) := by
  induction pol with
  | nil => rfl
  | cons st rest ih =>
    rw [reorder_cons, reorder_cons, validatePolicy, validatePolicy,
      validateStmt_order bucket acct st f g hf hg (hv st (by simp)),
      ih (fun x hx => hv x (by simp [hx]))]

theorem validateDocument_order (bucket : Bytes) (acct : Bytes → Bool) (doc : RawDoc)
    (f g : List Bytes → List Bytes) (hf : OrdOK f) (hg : OrdOK g) :
    validateDocument f bucket acct doc = validateDocument g bucket acct doc := by
  unfold validateDocument
  cases hd : decodeDoc doc with
  | error e => rfl
  | ok pol =>
    simp only [bind, Except.bind]
    by_cases hl : pol.length = 0
    · rw [if_pos hl, if_pos hl]
    · rw [if_neg hl, if_neg hl]
      apply validatePolicy_order bucket acct pol f g hf hg
      cases doc with
      | badJson => cases hd
      | noStatement => cases hd
      | stmts l => exact decodeStmts_actions_valid l pol hd

end Vgw.Lemmas.Validate
