import Vgw.Lemmas.CrashFS
/-
  Lemmas.CrashView — what the API view of a key reads: the object's own entry and (sidecar store) the
  entries below its sidecar meta directory.  The view of a key is a function of the file system
  restricted to that set; hence steps that are silent on it cannot change the view.
-/
namespace Vgw.Model.Crash

/-- the paths the view of `key` depends on -/
def reads (cfg : Cfg) (key : Path) (q : Path) : Bool :=
  q == objPath cfg key || (sideOf (objPath cfg key)).isPrefixOf q

theorem isPrefixOf_append_self (a b : Path) : a.isPrefixOf (a ++ b) = true := by
  induction a with
  | nil => simp [List.isPrefixOf]
  | cons x t ih => simp [ih]

theorem reads_obj (cfg : Cfg) (key : Path) : reads cfg key (objPath cfg key) = true := by simp [reads]

theorem reads_side (cfg : Cfg) (key : Path) (a : String) : reads cfg key (sideOf (objPath cfg key) ++ [a]) = true := by
  simp [reads, isPrefixOf_append_self]

section
variable (P : Path → Bool) (cfg : Cfg) (fs : FS) (obj : Path)
variable (hobj : P obj = true) (hside : ∀ q : Path, (sideOf obj).isPrefixOf q = true → P q = true)
include hobj hside

theorem readAttr_restrict (a : String) : readAttr cfg (fs.restrict P) obj a = readAttr cfg fs obj a := by
  unfold readAttr
  rw [FS.get_restrict P fs hobj, FS.get_restrict P fs (hside _ (isPrefixOf_append_self _ _))]

theorem listAttrs_restrict : listAttrs cfg (fs.restrict P) obj = listAttrs cfg fs obj := by
  unfold listAttrs
  rw [FS.get_restrict P fs hobj, FS.children_restrict P fs (sideOf obj)]
  intro q hq
  simp only [Bool.and_eq_true] at hq
  exact hside q hq.2

end

theorem view_restrict (cfg : Cfg) (fs : FS) (key : Path) :
    view cfg (fs.restrict (reads cfg key)) key = view cfg fs key := by
  have hobj := reads_obj cfg key
  have hside : ∀ q : Path, (sideOf (objPath cfg key)).isPrefixOf q = true → reads cfg key q = true := by
    intro q hq; simp [reads, hq]
  unfold view
  simp only [readAttr_restrict (reads cfg key) cfg fs (objPath cfg key) hobj hside,
    listAttrs_restrict (reads cfg key) cfg fs (objPath cfg key) hobj hside,
    FS.get_restrict (reads cfg key) fs hobj]

theorem listed_restrict (cfg : Cfg) (fs : FS) (key : Path) :
    listed cfg (fs.restrict (reads cfg key)) key = listed cfg fs key := by
  have hobj := reads_obj cfg key
  have hside : ∀ q : Path, (sideOf (objPath cfg key)).isPrefixOf q = true → reads cfg key q = true := by
    intro q hq; simp [reads, hq]
  unfold listed
  simp only [readAttr_restrict (reads cfg key) cfg fs (objPath cfg key) hobj hside,
    FS.get_restrict (reads cfg key) fs hobj]

/-- A list of steps that are all silent on what `key`'s view reads leaves that view alone — also across a kill. -/
theorem view_of_silent (cfg : Cfg) (key : Path) (l : List Step) (fs : FS)
    (h : ∀ s ∈ l, s.silent (reads cfg key) = true) :
    view cfg (crash (run l fs)) key = view cfg fs key := by
  rw [← view_restrict, FS.restrict_crash, run_restrict _ l fs h, view_restrict]

theorem listed_of_silent (cfg : Cfg) (key : Path) (l : List Step) (fs : FS)
    (h : ∀ s ∈ l, s.silent (reads cfg key) = true) :
    listed cfg (crash (run l fs)) key = listed cfg fs key := by
  rw [← listed_restrict, FS.restrict_crash, run_restrict _ l fs h, listed_restrict]

/-- A kill loses nothing the API reads: the view after a kill is the view of the state reached. -/
theorem view_crash (cfg : Cfg) (fs : FS) (key : Path) : view cfg (crash fs) key = view cfg fs key := by
  rw [← view_restrict, FS.restrict_crash, view_restrict]

theorem listed_crash (cfg : Cfg) (fs : FS) (key : Path) : listed cfg (crash fs) key = listed cfg fs key := by
  rw [← listed_restrict, FS.restrict_crash, listed_restrict]

/-- Atomicity of the view from the counting criterion. -/
theorem view_atomic_of_countP (cfg : Cfg) (key : Path) (l : List Step) (fs : FS)
    (h : l.countP (fun s => !s.silent (reads cfg key)) ≤ 1) (n : Nat) :
    view cfg (crashAt n l fs) key = view cfg fs key ∨ view cfg (crashAt n l fs) key = view cfg (run l fs) key := by
  unfold crashAt
  rcases atomic_of_countP (reads cfg key) l fs h n with h1 | h1
  · left; rw [← view_restrict, FS.restrict_crash, h1, view_restrict]
  · right; rw [← view_restrict, FS.restrict_crash, h1, view_restrict]

theorem listed_atomic_of_countP (cfg : Cfg) (key : Path) (l : List Step) (fs : FS)
    (h : l.countP (fun s => !s.silent (reads cfg key)) ≤ 1) (n : Nat) :
    listed cfg (crashAt n l fs) key = listed cfg fs key ∨ listed cfg (crashAt n l fs) key = listed cfg (run l fs) key := by
  unfold crashAt
  rcases atomic_of_countP (reads cfg key) l fs h n with h1 | h1
  · left; rw [← listed_restrict, FS.restrict_crash, h1, listed_restrict]
  · right; rw [← listed_restrict, FS.restrict_crash, h1, listed_restrict]

end Vgw.Model.Crash
