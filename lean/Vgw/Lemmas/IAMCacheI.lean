/-
  Cache invariant of the current code (`Variant.invalidate`): every cache entry, and every
  value a lookup has fetched and may still store, is either what the store says now, or is
  doomed — a change of that key is still to be followed by its invalidation, or the generation
  has moved on.  Holds along every schedule, without side conditions.
-/
import Vgw.Lemmas.IAMPending
namespace Vgw.Model.IAM
open Vgw
open Vgw.Model.Gw (Account Role)

/-- the cache generation a lookup saw before fetching -/
def gOf : PC → Nat
  | .gMiss g | .gRLocked g | .gGot _ g | .gFetched _ g => g
  | _ => 0

structure CInvI (cfg : Cfg) (σ : State) : Prop where
  rootFree : σ.committed.find cfg.root.access = none
  ent : ∀ e ∈ σ.items, look cfg σ.committed e.key = some e.val ∨ Pending σ.calls e.key
  fet : ∀ (i : Nat) (c : Call) (a : Account) (g : Nat), σ.calls[i]? = some c → c.pc = .gFetched a g →
    look cfg σ.committed c.op.key = some a ∨ g < σ.gen ∨ Pending σ.calls c.op.key
  gen : ∀ (i : Nat) (c : Call), σ.calls[i]? = some c → gOf c.pc ≤ σ.gen

/-- a step that changes neither cache nor committed image, and keeps the call's pending status -/
theorem CInvI.frame {cfg : Cfg} {σ σ₁ : State} {i : Nat} {c : Call} {pc' : PC} (h : CInvI cfg σ)
    (hi : σ.calls[i]? = some c)
    (hit : σ₁.items = σ.items) (hg : σ₁.gen = σ.gen) (hc : σ₁.committed = σ.committed) (hcalls : σ₁.calls = σ.calls)
    (hp : pend pc' = pend c.pc)
    (hf : ∀ a g, pc' = .gFetched a g → look cfg σ.committed c.op.key = some a ∨ g < σ.gen ∨ Pending σ.calls c.op.key)
    (hgo : gOf pc' ≤ σ.gen) : CInvI cfg (σ₁.setCall i ⟨c.op, pc'⟩) := by
  have hlt := (List.getElem?_eq_some_iff.mp hi).1
  have hP : ∀ k, Pending (σ₁.setCall i ⟨c.op, pc'⟩).calls k ↔ Pending σ.calls k := by
    intro k; simp only [State.setCall, hcalls]; exact pending_set_same hi rfl hp
  refine ⟨by simp only [State.setCall, hc]; exact h.rootFree, ?_, ?_, ?_⟩
  · intro e he
    simp only [State.setCall, hit] at he
    rw [hP]; simp only [State.setCall, hc]; exact h.ent e he
  · intro j cj a g hj hpc
    rw [hP]
    simp only [State.setCall, hcalls, List.getElem?_set] at hj
    simp only [State.setCall, hc, hg]
    by_cases hij : i = j
    · simp only [hij, if_true] at hj
      split at hj
      · cases hj; exact hf a g hpc
      · cases hj
    · simp only [hij, if_false] at hj; exact h.fet j cj a g hj hpc
  · intro j cj hj
    simp only [State.setCall, hcalls, List.getElem?_set] at hj
    simp only [State.setCall, hg]
    by_cases hij : i = j
    · simp only [hij, if_true] at hj
      split at hj
      · cases hj; exact hgo
      · cases hj
    · simp only [hij, if_false] at hj; exact h.gen j cj hj

/-- the rename: the store now says b' -/
theorem CInvI.commit {cfg : Cfg} {σ σ₁ : State} {i : Nat} {c : Call} {b' : Store} (h : CInvI cfg σ)
    (hi : σ.calls[i]? = some c) (hT : PcT cfg c) (hpc : c.pc = .mTemp b') (hm : mutate σ.committed c.op = .ok b')
    (hit : σ₁.items = σ.items) (hg : σ₁.gen = σ.gen) (hc : σ₁.committed = b') (hcalls : σ₁.calls = σ.calls) :
    CInvI cfg (σ₁.setCall i ⟨c.op, .mRenamed⟩) := by
  have hlt := (List.getElem?_eq_some_iff.mp hi).1
  have hnp : pend c.pc = false := by rw [hpc]; rfl
  have hnew : Pending (σ₁.setCall i ⟨c.op, .mRenamed⟩).calls c.op.key := by
    simp only [State.setCall, hcalls]; exact pending_set_new (c' := ⟨c.op, .mRenamed⟩) hi rfl
  have hmono : ∀ k, Pending σ.calls k → Pending (σ₁.setCall i ⟨c.op, .mRenamed⟩).calls k := by
    intro k hk; simp only [State.setCall, hcalls]; exact pending_set_mono hi hnp hk
  have hlook : ∀ k, k ≠ c.op.key → look cfg b' k = look cfg σ.committed k := by
    intro k hk; simp only [look]; rw [mutate_frame hm hk]
  have hTc := hT.1 (Or.inl (by rw [hpc]; rfl))
  refine ⟨?_, ?_, ?_, ?_⟩
  · simp only [State.setCall, hc]
    exact mutate_absent hm h.rootFree hTc.2
  · intro e he
    simp only [State.setCall, hit] at he
    by_cases hk : e.key = c.op.key
    · right; rw [hk]; exact hnew
    · rcases h.ent e he with h1 | h1
      · left; simp only [State.setCall, hc]; rw [hlook _ hk]; exact h1
      · right; exact hmono _ h1
  · intro j cj a g hj hpcj
    simp only [State.setCall, hcalls, List.getElem?_set] at hj
    by_cases hij : i = j
    · simp only [hij, if_true] at hj
      split at hj
      · cases hj; cases hpcj
      · cases hj
    · simp only [hij, if_false] at hj
      by_cases hk : cj.op.key = c.op.key
      · right; right; rw [hk]; exact hnew
      · rcases h.fet j cj a g hj hpcj with h1 | h1 | h1
        · left; simp only [State.setCall, hc]; rw [hlook _ hk]; exact h1
        · right; left; simp only [State.setCall, hg]; exact h1
        · right; right; exact hmono _ h1
  · intro j cj hj
    simp only [State.setCall, hcalls, List.getElem?_set] at hj
    simp only [State.setCall, hg]
    by_cases hij : i = j
    · simp only [hij, if_true] at hj
      split at hj
      · cases hj; simp [gOf]
      · cases hj
    · simp only [hij, if_false] at hj; exact h.gen j cj hj

/-- IAMCache's step after a change: drop the entry, bump the generation -/
theorem CInvI.invalidate {cfg : Cfg} {σ : State} {i : Nat} {c : Call} (h : CInvI cfg σ)
    (hi : σ.calls[i]? = some c) :
    CInvI cfg ({ σ with items := σ.items.del c.op.key, gen := σ.gen + 1 }.setCall i ⟨c.op, .done .ok⟩) := by
  have hlt := (List.getElem?_eq_some_iff.mp hi).1
  have hkeep : ∀ k, k ≠ c.op.key → Pending σ.calls k → Pending (σ.calls.set i ⟨c.op, .done .ok⟩) k := by
    intro k hk hp; exact (pending_set_other (c' := ⟨c.op, .done .ok⟩) hi rfl hk).mpr hp
  refine ⟨h.rootFree, ?_, ?_, ?_⟩
  · intro e he
    simp only [State.setCall] at he
    obtain ⟨he, hk⟩ := Items.mem_del.mp he
    rcases h.ent e he with h1 | h1
    · left; exact h1
    · right; exact hkeep _ hk h1
  · intro j cj a g hj hpcj
    simp only [State.setCall, List.getElem?_set] at hj
    by_cases hij : i = j
    · simp only [hij, if_true] at hj
      split at hj
      · cases hj; cases hpcj
      · cases hj
    · simp only [hij, if_false] at hj
      right; left
      have := h.gen j cj hj
      rw [hpcj] at this
      simp only [gOf] at this
      simp only [State.setCall]; omega
  · intro j cj hj
    simp only [State.setCall, List.getElem?_set] at hj
    simp only [State.setCall]
    by_cases hij : i = j
    · simp only [hij, if_true] at hj
      split at hj
      · cases hj; simp [gOf]
      · cases hj
    · simp only [hij, if_false] at hj; have := h.gen j cj hj; omega

/-- the miss path's cache.set, guarded by the generation -/
theorem CInvI.set {cfg : Cfg} {σ : State} {i : Nat} {c : Call} {a : Account} {g x : Nat} (h : CInvI cfg σ)
    (hi : σ.calls[i]? = some c) (hpc : c.pc = .gFetched a g) (hgen : g = σ.gen) :
    CInvI cfg ({ σ with items := σ.items.set c.op.key a x }.setCall i ⟨c.op, .done (.acct a)⟩) := by
  have hlt := (List.getElem?_eq_some_iff.mp hi).1
  have hnp : pend c.pc = false := by rw [hpc]; rfl
  have hP : ∀ k, Pending (σ.calls.set i ⟨c.op, .done (.acct a)⟩) k ↔ Pending σ.calls k :=
    fun k => pending_set_same hi rfl (by rw [hnp]; rfl)
  refine ⟨h.rootFree, ?_, ?_, ?_⟩
  · intro e he
    simp only [State.setCall] at he ⊢
    rw [hP]
    rcases Items.mem_set.mp he with he | ⟨he, _⟩
    · subst he
      rcases h.fet i c a g hi hpc with h1 | h1 | h1
      · left; exact h1
      · omega
      · right; exact h1
    · exact h.ent e he
  · intro j cj a' g' hj hpcj
    simp only [State.setCall, List.getElem?_set] at hj
    simp only [State.setCall]
    rw [hP]
    by_cases hij : i = j
    · simp only [hij, if_true] at hj
      split at hj
      · cases hj; cases hpcj
      · cases hj
    · simp only [hij, if_false] at hj; exact h.fet j cj a' g' hj hpcj
  · intro j cj hj
    simp only [State.setCall, List.getElem?_set] at hj
    simp only [State.setCall]
    by_cases hij : i = j
    · simp only [hij, if_true] at hj
      split at hj
      · cases hj; simp [gOf]
      · cases hj
    · simp only [hij, if_false] at hj; exact h.gen j cj hj

theorem look_root (cfg : Cfg) (s : Store) {k : Bytes} (h : (k == cfg.root.access) = true) :
    look cfg s k = some cfg.root := by
  have : k = cfg.root.access := by simpa using h
  simp [look, this]

theorem look_nonroot (cfg : Cfg) (s : Store) {k : Bytes} (h : k ≠ cfg.root.access) : look cfg s k = s.find k := by
  simp [look, h]

theorem CInvI.stepCall {v : Variant} {cfg : Cfg} {σ : State} {i : Nat} {c : Call}
    (hvc : v.cache = true) (hvi : v.invalidate = true)
    (hW : Wf cfg σ) (hT : TInv cfg σ) (h : CInvI cfg σ) (hi : σ.calls[i]? = some c) :
    CInvI cfg (stepCall v cfg σ i c) := by
  have hL := (hW.l.calls i c hi).pc
  unfold PcL at hL
  have hgc := h.gen i c hi
  unfold Model.IAM.stepCall
  split
  · -- start
    rename_i hpc
    split
    · split
      · exact h.frame hi rfl rfl rfl rfl (by rw [hpc]; rfl) (by intro a g e; cases e) (Nat.zero_le _)
      · exact h.frame hi rfl rfl rfl rfl (by rw [hpc]; rfl) (by intro a g e; cases e) (Nat.le_refl _)
    · split
      · exact h.frame (σ₁ := { σ with readers := i :: σ.readers }) hi rfl rfl rfl rfl (by rw [hpc]; rfl) (by intro a g e; cases e) (Nat.zero_le _)
      · exact h
    · split
      · exact h.frame (σ₁ := { σ with log := _ }) hi rfl rfl rfl rfl (by rw [hpc]; rfl) (by intro a g e; cases e) (Nat.zero_le _)
      · split
        · exact h.frame (σ₁ := { σ with writer := some i }) hi rfl rfl rfl rfl (by rw [hpc]; rfl) (by intro a g e; cases e) (Nat.zero_le _)
        · exact h
    · split
      · exact h.frame (σ₁ := { σ with writer := some i }) hi rfl rfl rfl rfl (by rw [hpc]; rfl) (by intro a g e; cases e) (Nat.zero_le _)
      · exact h
  · rename_i hpc
    split
    · exact h.frame hi rfl rfl rfl rfl (by rw [hpc]; rfl) (by intro a g e; cases e) (Nat.zero_le _)
    · exact h
  · rename_i b hpc
    exact h.frame (σ₁ := { σ with main := none }) hi rfl rfl rfl rfl (by rw [hpc]; rfl) (by intro a g e; cases e) (Nat.zero_le _)
  · rename_i b hpc
    exact h.frame (σ₁ := { σ with backup := some b }) hi rfl rfl rfl rfl (by rw [hpc]; rfl) (by intro a g e; cases e) (Nat.zero_le _)
  · rename_i b hpc
    split
    · exact h.frame (σ₁ := { σ with main := some b, log := _ }) hi rfl rfl rfl rfl (by rw [hpc]; rfl) (by intro a g e; cases e) (Nat.zero_le _)
    · rename_i b' _
      exact h.frame (σ₁ := { σ with temp := some b' }) hi rfl rfl rfl rfl (by rw [hpc]; rfl) (by intro a g e; cases e) (Nat.zero_le _)
  · -- mTemp: the rename
    rename_i b' hpc
    rw [hpc] at hL
    exact h.commit (σ₁ := { σ with main := some b', temp := none, committed := b', log := _ }) hi (hT i c hi) hpc hL.1 rfl rfl rfl rfl
  · rename_i hpc
    exact h.frame (σ₁ := { σ with writer := none }) hi rfl rfl rfl rfl (by rw [hpc]; rfl) (by intro a g e; cases e) (Nat.zero_le _)
  · rename_i e hpc
    exact h.frame (σ₁ := { σ with writer := none }) hi rfl rfl rfl rfl (by rw [hpc]; rfl) (by intro a g e; cases e) (Nat.zero_le _)
  · -- mCache
    rename_i hpc
    have : cacheStep v cfg σ c.op = { σ with items := σ.items.del c.op.key, gen := σ.gen + 1 } := by
      simp [cacheStep, hvc, hvi]
    rw [this]
    exact h.invalidate hi
  · -- gMiss
    rename_i g hpc
    rw [hpc] at hgc; simp only [gOf] at hgc
    split
    · rename_i hroot
      exact h.frame hi rfl rfl rfl rfl (by rw [hpc]; rfl)
        (by intro a g' e; cases e; exact Or.inl (look_root cfg _ hroot)) hgc
    · split
      · exact h.frame (σ₁ := { σ with readers := i :: σ.readers }) hi rfl rfl rfl rfl (by rw [hpc]; rfl) (by intro a g e; cases e) hgc
      · exact h
  · -- gRLocked
    rename_i g hpc
    rw [hpc] at hgc; simp only [gOf] at hgc
    split
    · exact h.frame hi rfl rfl rfl rfl (by rw [hpc]; rfl) (by intro a g e; cases e) hgc
    · exact h
  · -- gGot
    rename_i r g hpc
    rw [hpc] at hgc hL; simp only [gOf] at hgc
    split
    · exact h.frame (σ₁ := { σ with readers := _ }) hi rfl rfl rfl rfl (by rw [hpc]; rfl) (by intro a g e; cases e) (Nat.zero_le _)
    · rename_i a
      refine h.frame (σ₁ := { σ with readers := _ }) hi rfl rfl rfl rfl (by rw [hpc]; rfl) ?_ hgc
      intro a' g' e; cases e
      left; rw [look_nonroot cfg _ hL.1]; exact hL.2.symm
  · -- gFetched
    rename_i a g hpc
    split
    · rename_i hcond
      simp only [hvc, hvi, Bool.not_true, Bool.false_or, Bool.true_and, beq_iff_eq] at hcond
      exact h.set hi hpc hcond
    · exact h.frame hi rfl rfl rfl rfl (by rw [hpc]; rfl) (by intro a g e; cases e) (Nat.zero_le _)
  · rename_i hpc
    split
    · exact h.frame hi rfl rfl rfl rfl (by rw [hpc]; rfl) (by intro a g e; cases e) (Nat.zero_le _)
    · exact h
  · rename_i s hpc
    exact h.frame (σ₁ := { σ with readers := _ }) hi rfl rfl rfl rfl (by rw [hpc]; rfl) (by intro a g e; cases e) (Nat.zero_le _)
  · exact h

theorem CInvI.act {v : Variant} {cfg : Cfg} {σ : State} (hvc : v.cache = true) (hvi : v.invalidate = true)
    (hW : Wf cfg σ) (hT : TInv cfg σ) (h : CInvI cfg σ) (a : Act) : CInvI cfg (act v cfg σ a) := by
  cases a with
  | step i =>
    simp only [Model.IAM.act, Model.IAM.stepAt]
    split
    · rename_i c hi; exact h.stepCall hvc hvi hW hT hi
    · exact h
  | tick n => exact ⟨h.rootFree, h.ent, h.fet, h.gen⟩
  | gc =>
    exact ⟨h.rootFree, fun e he => h.ent e (Items.mem_gc he), h.fet, h.gen⟩
  | invoke op =>
    refine ⟨h.rootFree, ?_, ?_, ?_⟩
    · intro e he
      simp only [Model.IAM.act]; rw [pending_append]; exact h.ent e he
    · intro j cj a g hj hpc
      simp only [Model.IAM.act] at hj ⊢
      rw [pending_append]
      by_cases hlt : j < σ.calls.length
      · rw [List.getElem?_append_left hlt] at hj; exact h.fet j cj a g hj hpc
      · rw [List.getElem?_append_right (by omega)] at hj
        cases hd : j - σ.calls.length with
        | zero => rw [hd] at hj; simp at hj; subst hj; cases hpc
        | succ n => rw [hd] at hj; simp at hj
    · intro j cj hj
      simp only [Model.IAM.act] at hj ⊢
      by_cases hlt : j < σ.calls.length
      · rw [List.getElem?_append_left hlt] at hj; exact h.gen j cj hj
      · rw [List.getElem?_append_right (by omega)] at hj
        cases hd : j - σ.calls.length with
        | zero => rw [hd] at hj; simp at hj; subst hj; simp [gOf]
        | succ n => rw [hd] at hj; simp at hj

end Vgw.Model.IAM
