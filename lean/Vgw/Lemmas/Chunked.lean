/-
  Helper lemmas for C12: the cursor primitives on rendered streams, hex spelling, bytes.Index.
-/
import Vgw.Spec.Chunked
import Vgw.Model.ChunkSigned
import Vgw.Model.ChunkUnsigned
namespace Vgw
open Vgw.Spec.Chunked

theorem readAndSkip_append (lit r : Bytes) : readAndSkip lit (lit ++ r) = .ok r := by
  induction lit with
  | nil => simp [readAndSkip]
  | cons c cs ih => simp [readAndSkip, ih]

theorem readUntil_append (d : UInt8) (a r : Bytes) (h : d ∉ a) :
    readUntil d (a ++ d :: r) = some (a, r) := by
  induction a with
  | nil => simp [readUntil]
  | cons c cs ih =>
    simp at h
    have hne : c ≠ d := fun e => h.1 e.symm
    simp [readUntil, hne, ih h.2]

theorem hexDigitsVal_all (s : Bytes) : ∀ (acc n : Nat), hexDigitsVal s acc = some n → ∀ c ∈ s, isHexDigit c = true := by
  induction s with
  | nil => intro _ _ _ c hc; simp at hc
  | cons b bs ih =>
    intro acc n h c hc
    unfold hexDigitsVal at h
    cases hb : hexDigitVal b with
    | none => simp [hb] at h
    | some d =>
      simp [hb] at h
      simp at hc
      rcases hc with rfl | hc
      · simp [isHexDigit, hb]
      · exact ih _ _ h c hc

theorem isHex_all {h : Bytes} {n : Nat} (hh : IsHex h n) : ∀ c ∈ h, isHexDigit c = true := by
  unfold IsHex parseHexDigits at hh
  cases h with
  | nil => simp at hh
  | cons b bs => exact hexDigitsVal_all _ _ _ hh

theorem isHex_ne_nil {h : Bytes} {n : Nat} (hh : IsHex h n) : h ≠ [] := by
  intro e; subst e; simp [IsHex, parseHexDigits] at hh

theorem not_hex_59 : isHexDigit 59 = false := by decide
theorem not_hex_13 : isHexDigit 13 = false := by decide
theorem not_hex_10 : isHexDigit 10 = false := by decide
theorem not_hex_43 : isHexDigit 43 = false := by decide
theorem not_hex_45 : isHexDigit 45 = false := by decide

theorem isHex_not_mem {h : Bytes} {n : Nat} (hh : IsHex h n) (c : UInt8) (hc : isHexDigit c = false) : c ∉ h := by
  intro hm
  have := isHex_all hh c hm
  simp [hc] at this

theorem parseIntHex64_of_isHex {h : Bytes} {n : Nat} (hh : IsHex h n) (hn : n ≤ chunkBound) :
    parseIntHex64 h = some (n : Int) := by
  cases h with
  | nil => simp [IsHex, parseHexDigits] at hh
  | cons b bs =>
    have h43 : b ≠ 43 := by
      intro e; subst e
      exact isHex_not_mem hh 43 not_hex_43 (by simp)
    have h45 : b ≠ 45 := by
      intro e; subst e
      exact isHex_not_mem hh 45 not_hex_45 (by simp)
    unfold IsHex at hh
    unfold parseIntHex64
    simp only [h43, h45, if_false, hh]
    have : (n : Int) ≤ int64Max := by
      unfold int64Max; unfold chunkBound at hn; omega
    simp [this]

/-! ### hexEncode produces lower-case hex digits only -/

theorem hexNibble_range (n : Nat) (h : n < 16) :
    (48 ≤ hexNibble n ∧ hexNibble n ≤ 57) ∨ (97 ≤ hexNibble n ∧ hexNibble n ≤ 102) := by
  have : n = 0 ∨ n = 1 ∨ n = 2 ∨ n = 3 ∨ n = 4 ∨ n = 5 ∨ n = 6 ∨ n = 7 ∨ n = 8 ∨ n = 9 ∨ n = 10 ∨
      n = 11 ∨ n = 12 ∨ n = 13 ∨ n = 14 ∨ n = 15 := by omega
  rcases this with h | h | h | h | h | h | h | h | h | h | h | h | h | h | h | h <;> subst h <;> decide

theorem hexEncode_range (b : Bytes) : ∀ c ∈ hexEncode b, (48 ≤ c ∧ c ≤ 57) ∨ (97 ≤ c ∧ c ≤ 102) := by
  induction b with
  | nil => intro c hc; simp [hexEncode] at hc
  | cons x xs ih =>
    intro c hc
    simp [hexEncode] at hc
    rcases hc with rfl | rfl | hc
    · exact hexNibble_range _ (by have := x.toNat_lt; omega)
    · exact hexNibble_range _ (by omega)
    · exact ih c hc

theorem hexEncode_not_mem (b : Bytes) (c : UInt8) (hc : c < 48 ∨ (57 < c ∧ c < 97) ∨ 102 < c) : c ∉ hexEncode b := by
  intro hm
  have := hexEncode_range b c hm
  rcases this with ⟨h1, h2⟩ | ⟨h1, h2⟩ <;> rcases hc with h | ⟨h, h'⟩ | h <;>
    simp only [UInt8.le_iff_toNat_le, UInt8.lt_iff_toNat_lt, UInt8.reduceToNat] at * <;> omega

theorem hexEncode_ne_nil (b : Bytes) (h : b ≠ []) : hexEncode b ≠ [] := by
  cases b with
  | nil => exact absurd rfl h
  | cons x xs => simp [hexEncode]

/-! ### bytes.Index(s, "\r\n") -/

theorem indexCRLFAux_append (a r : Bytes) (i : Nat) (h : (13 : UInt8) ∉ a) :
    indexCRLFAux (a ++ 13 :: 10 :: r) i = ((i + a.length : Nat) : Int) := by
  induction a generalizing i with
  | nil => simp [indexCRLFAux]
  | cons c cs ih =>
    simp at h
    have hne : c ≠ 13 := fun e => h.1 e.symm
    cases cs with
    | nil =>
      simp [indexCRLFAux, hne]
    | cons d ds =>
      have := ih (i + 1) h.2
      simp [indexCRLFAux, hne] at this ⊢
      rw [this]; omega

theorem indexCRLF_append (a r : Bytes) (h : (13 : UInt8) ∉ a) :
    indexCRLF (a ++ 13 :: 10 :: r) = (a.length : Int) := by
  simp [indexCRLF, indexCRLFAux_append a r 0 h]

end Vgw

/-! ### base64 -/
namespace Vgw

theorem b64Char_isB64 : ∀ n : Fin 64, isB64 (b64Char n.val) = true := by decide
theorem b64Char_ne_pad : ∀ n : Fin 64, (b64Char n.val == 61) = false := by decide

theorem b64Char_ok (n : Nat) (h : n < 64) : isB64 (b64Char n) = true ∧ (b64Char n == 61) = false :=
  ⟨b64Char_isB64 ⟨n, h⟩, b64Char_ne_pad ⟨n, h⟩⟩

theorem b64Encode_chars (x : Bytes) : ∀ c ∈ b64Encode x, isB64 c = true ∨ c = 61 := by
  fun_induction b64Encode x with
  | case1 => intro c hc; simp at hc
  | case2 a x =>
    intro c hc
    have := a.toNat_lt
    simp at hc
    rcases hc with rfl | rfl | rfl
    · exact Or.inl (b64Char_ok _ (by omega)).1
    · exact Or.inl (b64Char_ok _ (by omega)).1
    · exact Or.inr rfl
  | case3 a b x y =>
    intro c hc
    have := a.toNat_lt; have := b.toNat_lt
    simp at hc
    rcases hc with rfl | rfl | rfl | rfl
    · exact Or.inl (b64Char_ok _ (by omega)).1
    · exact Or.inl (b64Char_ok _ (by omega)).1
    · exact Or.inl (b64Char_ok _ (by omega)).1
    · exact Or.inr rfl
  | case4 a b c rest x y z ih =>
    intro d hd
    have := a.toNat_lt; have := b.toNat_lt; have := c.toNat_lt
    simp at hd
    rcases hd with rfl | rfl | rfl | rfl | hd
    · exact Or.inl (b64Char_ok _ (by omega)).1
    · exact Or.inl (b64Char_ok _ (by omega)).1
    · exact Or.inl (b64Char_ok _ (by omega)).1
    · exact Or.inl (b64Char_ok _ (by omega)).1
    · exact ih d hd

theorem b64Encode_not_mem (x : Bytes) (c : UInt8) (h1 : isB64 c = false) (h2 : c ≠ 61) : c ∉ b64Encode x := by
  intro hm
  rcases b64Encode_chars x c hm with h | h
  · simp [h1] at h
  · exact h2 h

theorem b64Encode_eq_nil (x : Bytes) : b64Encode x = [] ↔ x = [] := by
  constructor
  · intro h
    match x, h with
    | [], _ => rfl
    | [_], h => simp [b64Encode] at h
    | [_, _], h => simp [b64Encode] at h
    | _ :: _ :: _ :: _, h => simp [b64Encode] at h
  · rintro rfl; rfl

theorem b64LenAux_encode (x : Bytes) : b64LenAux (b64Encode x) = some x.length := by
  fun_induction b64Encode x with
  | case1 => rfl
  | case2 a x =>
    have := a.toNat_lt
    simp [b64LenAux, (b64Char_ok (x / 4) (by omega)).1, (b64Char_ok (x % 4 * 16) (by omega)).1]
  | case3 a b x y =>
    have := a.toNat_lt; have := b.toNat_lt
    simp [b64LenAux, (b64Char_ok (x / 4) (by omega)).1, (b64Char_ok (x % 4 * 16 + y / 16) (by omega)).1,
      (b64Char_ok (y % 16 * 4) (by omega))]
  | case4 a b c rest x y z ih =>
    have := a.toNat_lt; have := b.toNat_lt; have := c.toNat_lt
    have h1 := b64Char_ok (x / 4) (by omega)
    have h2 := b64Char_ok (x % 4 * 16 + y / 16) (by omega)
    have h3 := b64Char_ok (y % 16 * 4 + z / 64) (by omega)
    have h4 := b64Char_ok (z % 64) (by omega)
    cases hr : b64Encode rest with
    | nil =>
      have := (b64Encode_eq_nil rest).1 hr
      subst this
      simp [b64LenAux, h1, h2, h3, h4]
    | cons e es =>
      rw [hr] at ih
      simp [b64LenAux, h1, h2, h3, h4, ih]

theorem b64DecodedLen_encode (x : Bytes) : b64DecodedLen (b64Encode x) = some x.length := by
  unfold b64DecodedLen
  have : (b64Encode x).filter (fun c => c != 10 && c != 13) = b64Encode x := by
    apply List.filter_eq_self.2
    intro c hc
    rcases b64Encode_chars x c hc with h | h
    · have h10 : c ≠ 10 := by intro e; subst e; simp [isB64] at h
      have h13 : c ≠ 13 := by intro e; subst e; simp [isB64] at h
      simp [h10, h13]
    · subst h; decide
  rw [this, b64LenAux_encode]

end Vgw
