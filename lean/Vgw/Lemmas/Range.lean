import Vgw.Spec.Range
namespace Vgw
open Vgw.Model.Range Vgw.Spec.Range

theorem digitsVal_digits : ∀ (s : Bytes) (acc n : Nat), digitsVal s acc = some n → ∀ c ∈ s, isDigit c = true
  | [], _, _, _ => by simp
  | c :: cs, acc, n, h => by
    unfold digitsVal at h
    split at h
    · rename_i hd
      intro x hx
      simp at hx
      rcases hx with rfl | hx
      · exact hd
      · exact digitsVal_digits cs _ n h x hx
    · simp at h

theorem parseDigits_digits (s : Bytes) (n : Nat) (h : parseDigits s = some n) :
    s ≠ [] ∧ ∀ c ∈ s, isDigit c = true := by
  cases s with
  | nil => simp [parseDigits] at h
  | cons c cs => exact ⟨by simp, digitsVal_digits _ 0 n (by simpa [parseDigits] using h)⟩

theorem isDigit_ne {c : UInt8} (h : isDigit c = true) : c ≠ 43 ∧ c ≠ 45 ∧ c ≠ 61 := by
  unfold isDigit at h
  simp at h
  refine ⟨?_, ?_, ?_⟩ <;> (intro e; subst e; revert h; decide)

theorem digits_not_mem (s : Bytes) (n : Nat) (h : IsDigits s n) : (45 : UInt8) ∉ s ∧ (61 : UInt8) ∉ s := by
  have := (parseDigits_digits s n h).2
  constructor <;> intro hm
  · exact (isDigit_ne (this _ hm)).2.1 rfl
  · exact (isDigit_ne (this _ hm)).2.2 rfl

/-- ParseInt on a plain digit string. -/
theorem parseInt64_digits (s : Bytes) (n : Nat) (h : IsDigits s n) :
    parseInt64 s = if (n : Int) ≤ int64Max then some (n : Int) else none := by
  have hd := parseDigits_digits s n h
  cases s with
  | nil => exact absurd rfl hd.1
  | cons c cs =>
    have hc := isDigit_ne (hd.2 c (by simp))
    unfold parseInt64
    simp only [hc.1, hc.2.1, if_false]
    unfold IsDigits at h
    rw [h]

/-- Whatever ParseInt accepts without a `-` in it is DIGITS or `+`DIGITS, with that value. -/
theorem parseInt64_some_inv (s : Bytes) (v : Int) (h : parseInt64 s = some v) (hm : (45 : UInt8) ∉ s) :
    ∃ n : Nat, IsPlusDigits s n ∧ v = n ∧ (n : Int) ≤ int64Max := by
  cases s with
  | nil => simp [parseInt64] at h
  | cons c cs =>
    simp only [parseInt64] at h
    by_cases hc : c = 43
    · simp only [hc, if_true] at h
      cases hp : parseDigits cs with
      | none => simp [hp] at h
      | some n =>
        simp only [hp] at h
        by_cases hle : (n : Int) ≤ int64Max
        · simp only [hle, if_true, Option.some.injEq] at h
          exact ⟨n, Or.inr ⟨cs, by rw [hc], hp⟩, h.symm, hle⟩
        · simp [hle] at h
    · have hc2 : c ≠ 45 := by
        intro e; apply hm; simp [e]
      simp only [hc, hc2, if_false] at h
      cases hp : parseDigits (c :: cs) with
      | none => simp [hp] at h
      | some n =>
        simp only [hp] at h
        by_cases hle : (n : Int) ≤ int64Max
        · simp only [hle, if_true, Option.some.injEq] at h
          exact ⟨n, Or.inl hp, h.symm, hle⟩
        · simp [hle] at h

end Vgw
