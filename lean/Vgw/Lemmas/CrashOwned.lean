import Vgw.Lemmas.CrashPlan
/-
  Lemmas.CrashOwned — every plan writes only paths owned by the request's key (all request kinds, both
  temp-file strategies, both metadata stores, every versioning status, every file system).
-/
namespace Vgw.Model.Crash

variable (cfg : Cfg) (rq : Req) (key : Path)

-- `apply WritesIn.append` must split the plans only at their own `++`
attribute [local irreducible] publish publishR publishC storeAttrs storeAttr mkdirAll openTmp archive deleteAttrs deleteAttr
  deleteNullVersion removeParents planPutSpec prePut preUploadPart preComplete cleanupUpload

theorem tmpDir_prefix_mpObjDir (k : Path) : tmpDir cfg <+: mpObjDir cfg k := List.prefix_append _ _
theorem tmpDir_prefix_mpDir (k : Path) (u : String) : tmpDir cfg <+: mpDir cfg k u :=
  (tmpDir_prefix_mpObjDir cfg k).trans (List.prefix_append _ _)

theorem owned_write_ref {o : Ref × List Step} {dir : Path} (hd : tmpDir cfg <+: dir)
    (ho : ∀ q ∈ o.1.paths, dir <+: q) (v : Val) : WritesOwned cfg key [.write o.1 v] := by
  intro s hs q hq
  simp only [List.mem_singleton] at hs; subst hs
  exact owned_tmp (hd.trans (ho q (by simpa [Step.writes] using hq)))

theorem owned_write_refV {o : Ref × List Step} {rest : Path}
    (ho : ∀ q ∈ o.1.paths, "V" :: rest <+: q) (v : Val) : WritesOwned cfg key [.write o.1 v] := by
  intro s hs q hq
  simp only [List.mem_singleton] at hs; subst hs
  exact owned_near_dir_V (Or.inr (ho q (by simpa [Step.writes] using hq)))

theorem owned_mkdirAll_prefix_obj (fs : FS) {p : Path} (hp : p <+: objPath cfg key) : WritesOwned cfg key (mkdirAll fs p) :=
  WritesOwned.of (writes_mkdirAll fs p) (fun _ h => owned_prefix_obj (h.1.trans hp))

theorem owned_deleteNullVersion (fs : FS) : WritesOwned cfg key (deleteNullVersion cfg fs key) := by
  unfold deleteNullVersion
  dsimp only
  have hvp : verDirOf cfg key ++ ["null"] = "V" :: (cfg.bucket :: hashDirs key ++ ["null"]) := rfl
  split
  · apply WritesIn.append
    · intro s hs q hq
      simp only [List.mem_singleton] at hs; subst hs
      simp only [Step.writes, List.mem_singleton] at hq; subst hq
      exact owned_V ⟨_, rfl⟩
    · exact WritesOwned.of (writes_deleteAttrs cfg _ _) (fun q h => by rw [hvp] at h; exact owned_side_V (Or.inr h))
  · exact WritesIn.nil _

theorem owned_archive (fs : FS) : WritesOwned cfg key (archive cfg rq fs key) := by
  unfold archive
  dsimp only
  split
  · rename_i data attrs _
    have hvb : verBucket cfg ++ [".sgwtmp"] = "V" :: [cfg.bucket, ".sgwtmp"] := rfl
    have hvp : ∀ vid : String, verDirOf cfg key ++ [vid] = "V" :: (cfg.bucket :: hashDirs key ++ [vid]) := fun _ => rfl
    have hvd : verDirOf cfg key = "V" :: (cfg.bucket :: hashDirs key) := rfl
    repeat' apply WritesIn.append
    · exact WritesOwned.of (writes_openTmp cfg fs 1 _ _ _) (fun q h => by rw [hvb] at h; exact owned_near_dir_V h)
    · exact owned_write_refV cfg key (rest := [cfg.bucket, ".sgwtmp"]) (ref_openTmp cfg fs 1 _ _ _) _
    · exact WritesOwned.of (writes_mkdirAll _ _) (fun q h => by rw [hvd] at h; exact owned_near_dir_V (Or.inl h))
    · refine WritesOwned.of (writes_storeAttrs cfg _ _ _ _) (fun q h => ?_)
      rcases h with h | h
      · exact owned_near_dir_V (Or.inr (ref_openTmp cfg fs 1 _ _ _ q h))
      · rw [hvp] at h; exact owned_side_V h
    · refine WritesOwned.of (writes_publishC cfg _ _ _ _ _) (fun q h => ?_)
      rcases h with h | h | h | h
      · subst h; rw [hvp]; exact owned_V ⟨_, rfl⟩
      · rw [hvp] at h; exact owned_near_dir_V (Or.inl h)
      · exact owned_near_dir_V (Or.inr (ref_openTmp cfg fs 1 _ _ _ q h))
      · subst h; exact owned_V ⟨_, rfl⟩
  · exact WritesIn.nil _

theorem owned_removeParents (fs : FS) (rel : Path) (fuel : Nat) (hrel : rel <+: key) :
    WritesOwned cfg key (removeParents cfg fs (bucketPath cfg) rel fuel) := by
  induction fuel generalizing fs rel with
  | zero => unfold removeParents; exact WritesIn.nil _
  | succ fuel ih =>
    unfold removeParents
    dsimp only
    split
    · exact WritesIn.nil _
    · split
      · exact WritesIn.nil _
      · split
        · have hp : rel.dropLast <+: key := (List.dropLast_prefix rel).trans hrel
          intro s hs q hq
          rcases List.mem_cons.mp hs with rfl | hs
          · simp only [Step.writes, List.mem_singleton] at hq; subst hq
            exact owned_prefix_obj ((List.prefix_append_right_inj _).mpr hp)
          · exact ih _ _ hp s hs q hq
        · exact WritesIn.nil _

theorem owned_prePut (fs : FS) (sp : PutSpec) : WritesOwned cfg key (prePut cfg rq fs key sp) := by
  unfold prePut
  dsimp only
  repeat' apply WritesIn.append
  · exact WritesOwned.of (writes_openTmp cfg fs 0 _ _ _) (fun q h => owned_near_dir_tmp (List.prefix_refl _) h)
  · exact owned_write_ref cfg key (List.prefix_refl _) (ref_openTmp cfg fs 0 _ _ _) _
  · exact WritesIn.ite (owned_archive cfg rq key _) (WritesIn.nil _)
  · exact owned_mkdirAll_prefix_obj cfg key _ (List.dropLast_prefix _)
  · exact WritesIn.ite (owned_deleteNullVersion cfg key _) (WritesIn.nil _)
  · exact WritesOwned.of (writes_deleteAttrs cfg _ _) (fun q h => owned_side_down h)
  · refine WritesOwned.of (writes_storeAttrs cfg _ _ _ _) (fun q h => ?_)
    rcases h with h | h
    · exact owned_tmp (ref_openTmp cfg fs 0 _ _ _ q h)
    · exact owned_side_obj h

/-- the common part of PutObject and CopyObject -/
theorem owned_planPutSpec (fs : FS) (sp : PutSpec) : WritesOwned cfg key (planPutSpec cfg rq fs key sp) := by
  unfold planPutSpec
  dsimp only
  refine WritesIn.ite (WritesIn.nil _) ?_
  have hobj : ∀ q : Path, q = objPath cfg key → Owned cfg key q := fun q h => owned_prefix_obj (h ▸ List.prefix_refl _)
  repeat' apply WritesIn.append
  · exact owned_prePut cfg rq key fs sp
  · refine WritesOwned.of (writes_publishC cfg _ _ _ _ _) (fun q h => ?_)
    rcases h with h | h | h | h
    · exact hobj q h
    · exact owned_prefix_obj h.1
    · exact owned_tmp (ref_openTmp cfg fs 0 _ _ _ q h)
    · exact owned_tmp (h ▸ List.prefix_append _ _)
  · refine WritesOwned.of (writes_storeAttrs cfg _ _ _ _) (fun q h => ?_)
    rcases h with h | h
    · exact hobj q (by simpa [Ref.paths] using h)
    · exact owned_side_obj h

theorem owned_planPut (fs : FS) : WritesOwned cfg rq.key (planPut cfg rq fs) := owned_planPutSpec cfg rq rq.key fs _

theorem owned_planCopy (fs : FS) : WritesOwned cfg rq.key (planCopy cfg rq fs) := by
  unfold planCopy
  dsimp only
  split
  · exact WritesIn.ite (WritesIn.nil _) (owned_planPutSpec cfg rq rq.key fs _)
  · exact WritesIn.nil _

theorem owned_planDelete (fs : FS) : WritesOwned cfg rq.key (planDelete cfg rq fs) := by
  unfold planDelete
  dsimp only
  have hobj : ∀ q : Path, q = objPath cfg rq.key → Owned cfg rq.key q := fun q h => owned_prefix_obj (h ▸ List.prefix_refl _)
  have hstore : ∀ (fs' : FS) (a : String) (v : Val),
      WritesOwned cfg rq.key (storeAttr cfg fs' (.path (objPath cfg rq.key)) (objPath cfg rq.key) a v) := by
    intro fs' a v
    refine WritesOwned.of (writes_storeAttr cfg _ _ _ _ _) (fun q h => ?_)
    rcases h with h | h
    · exact hobj q (by simpa [Ref.paths] using h)
    · exact owned_side_obj h
  refine WritesIn.ite (WritesIn.nil _) (WritesIn.ite (WritesIn.ite (WritesIn.nil _) (WritesIn.ite ?_ ?_)) (WritesIn.ite (WritesIn.nil _) ?_))
  · repeat' apply WritesIn.append
    · exact WritesIn.ite (owned_archive cfg rq rq.key _) (WritesIn.nil _)
    · exact hstore _ _ _
    · exact hstore _ _ _
  · repeat' apply WritesIn.append
    · exact WritesIn.ite (owned_archive cfg rq rq.key _) (WritesIn.nil _)
    · exact hstore _ _ _
    · exact owned_deleteNullVersion cfg rq.key _
    · refine WritesOwned.of (writes_deleteAttr cfg _ _ _) (fun q h => ?_)
      rcases h with h | h
      · exact hobj q h
      · exact owned_side_down h
  · repeat' apply WritesIn.append
    · intro s hs q hq
      simp only [List.mem_singleton] at hs; subst hs
      exact hobj q (by simpa [Step.writes] using hq)
    · exact WritesOwned.of (writes_deleteAttrs cfg _ _) (fun q h => owned_side_down h)
    · exact owned_removeParents cfg rq.key _ _ _ (List.prefix_refl _)

theorem owned_preUploadPart (fs : FS) : WritesOwned cfg rq.key (preUploadPart cfg rq fs) := by
  unfold preUploadPart
  dsimp only
  have hod := tmpDir_prefix_mpObjDir cfg rq.key
  have hpart : mpDir cfg rq.key rq.upload ++ [rq.partNo] = tmpDir cfg ++ (["multipart", keyHash rq.key, rq.upload, rq.partNo]) := rfl
  repeat' apply WritesIn.append
  · exact WritesOwned.of (writes_openTmp cfg fs 0 _ _ _) (fun q h => owned_near_dir_tmp hod h)
  · exact owned_write_ref cfg rq.key hod (ref_openTmp cfg fs 0 _ _ _) _
  · refine WritesOwned.of (writes_storeAttr cfg _ _ _ _ _) (fun q h => ?_)
    rcases h with h | h
    · exact owned_tmp (hod.trans (ref_openTmp cfg fs 0 _ _ _ q h))
    · rw [hpart] at h; exact owned_side_tmp h

theorem owned_planUploadPart (fs : FS) : WritesOwned cfg rq.key (planUploadPart cfg rq fs) := by
  unfold planUploadPart
  dsimp only
  refine WritesIn.ite (WritesIn.nil _) ?_
  have hod := tmpDir_prefix_mpObjDir cfg rq.key
  have hpart : mpDir cfg rq.key rq.upload ++ [rq.partNo] = tmpDir cfg ++ (["multipart", keyHash rq.key, rq.upload, rq.partNo]) := rfl
  have hpp : tmpDir cfg <+: mpDir cfg rq.key rq.upload ++ [rq.partNo] := hpart ▸ List.prefix_append _ _
  apply WritesIn.append
  · exact owned_preUploadPart cfg rq fs
  · refine WritesOwned.of (writes_publishC cfg _ _ _ _ _) (fun q h => ?_)
    rcases h with h | h | h | h
    · exact owned_tmp (h ▸ hpp)
    · exact owned_above_tmp hpp h.1 h.2
    · exact owned_tmp (hod.trans (ref_openTmp cfg fs 0 _ _ _ q h))
    · exact owned_tmp (h ▸ List.prefix_append _ _)

theorem owned_preComplete (fs : FS) : WritesOwned cfg rq.key (preComplete cfg rq fs) := by
  unfold preComplete
  dsimp only
  have hstore : ∀ (fs' : FS) (kvs : List (String × Val)),
      WritesOwned cfg rq.key (storeAttrs cfg fs' (openTmp cfg fs 0 (tmpDir cfg) false rq.tmp).1 (objPath cfg rq.key) kvs) := by
    intro fs' kvs
    refine WritesOwned.of (writes_storeAttrs cfg _ _ _ _) (fun q h => ?_)
    rcases h with h | h
    · exact owned_tmp (ref_openTmp cfg fs 0 _ _ _ q h)
    · exact owned_side_obj h
  repeat' apply WritesIn.append
  · exact WritesOwned.of (writes_openTmp cfg fs 0 _ _ _) (fun q h => owned_near_dir_tmp (List.prefix_refl _) h)
  · exact owned_write_ref cfg rq.key (List.prefix_refl _) (ref_openTmp cfg fs 0 _ _ _) _
  · exact owned_mkdirAll_prefix_obj cfg rq.key _ (List.dropLast_prefix _)
  · exact WritesIn.ite (owned_archive cfg rq rq.key _) (WritesIn.nil _)
  · exact WritesOwned.of (writes_deleteAttrs cfg _ _) (fun q h => owned_side_down h)
  · exact hstore _ _

theorem owned_cleanupUpload (fs : FS) : WritesOwned cfg rq.key (cleanupUpload cfg rq fs) := by
  unfold cleanupUpload
  dsimp only
  repeat' apply WritesIn.append
  · intro s hs q hq
    simp only [List.mem_map] at hs
    obtain ⟨e, he, rfl⟩ := hs
    simp only [Step.writes, List.mem_singleton] at hq; subst hq
    exact owned_tmp ((tmpDir_prefix_mpDir cfg rq.key rq.upload).trans (prefix_of_mem_children he))
  · intro s hs q hq
    simp only [List.mem_singleton] at hs; subst hs
    simp only [Step.writes, List.mem_singleton] at hq; subst hq
    exact owned_tmp (tmpDir_prefix_mpDir cfg rq.key rq.upload)
  · refine WritesIn.ite ?_ (WritesIn.nil _)
    intro s hs q hq
    simp only [List.mem_singleton] at hs; subst hs
    simp only [Step.writes, List.mem_singleton] at hq; subst hq
    exact owned_tmp (tmpDir_prefix_mpObjDir cfg rq.key)

theorem owned_planComplete (fs : FS) : WritesOwned cfg rq.key (planComplete cfg rq fs) := by
  unfold planComplete
  dsimp only
  have hobj : ∀ q : Path, q = objPath cfg rq.key → Owned cfg rq.key q := fun q h => owned_prefix_obj (h ▸ List.prefix_refl _)
  refine WritesIn.ite (WritesIn.nil _) (WritesIn.ite (WritesIn.nil _) ?_)
  repeat' apply WritesIn.append
  · exact owned_preComplete cfg rq fs
  · refine WritesOwned.of (writes_publishC cfg _ _ _ _ _) (fun q h => ?_)
    rcases h with h | h | h | h
    · exact hobj q h
    · exact owned_prefix_obj h.1
    · exact owned_tmp (ref_openTmp cfg fs 0 _ _ _ q h)
    · exact owned_tmp (h ▸ List.prefix_append _ _)
  · exact owned_cleanupUpload cfg rq _

/-- Every step of every plan writes only paths owned by the request's key. -/
theorem owned_plan (fs : FS) : WritesOwned cfg rq.key (plan cfg rq fs) := by
  unfold plan
  split
  · exact owned_planPut cfg rq fs
  · exact owned_planCopy cfg rq fs
  · exact owned_planDelete cfg rq fs
  · exact owned_planUploadPart cfg rq fs
  · exact owned_planComplete cfg rq fs

end Vgw.Model.Crash
