/-
  What one callback invocation emits, as a function of the directory entry, for delimiter ""
  and "/" when no directory is an explicit object — the per-node facts behind
  `walk_refines_spec_partial`.
-/
import Vgw.Lemmas.WalkFeed
import Vgw.Lemmas.WalkTree
import Vgw.Lemmas.ListSpec
namespace Vgw.Model.Walk
open Vgw Vgw.Spec.List

/-- delimiter "" or "/", and `getObj` never answers for a directory -/
structure Hyp (c : Cfg) : Prop where
  delim : c.delim = [] ∨ c.delim = [slash]
  noDirObj : ∀ p : Bytes, c.getObj (p ++ [slash]) = none

/-- the directory whose children are being walked is not beyond the prefix by a whole path element
(otherwise it would have been rolled up into a common prefix) -/
def BaseOK (c : Cfg) (b : Bytes) : Prop := c.delim = [slash] → c.pfx <+: b → b = c.pfx

theorem cut_slash_none : ∀ x : Bytes, slash ∉ x → cut [slash] x = none
  | [], _ => by simp [cut]
  | ch :: x, h => by
    have h1 : ch ≠ slash := fun e => h (by simp [e])
    have h2 : slash ∉ x := fun e => h (by simp [e])
    unfold cut
    have : List.isPrefixOf [slash] (ch :: x) = false := by
      simp [List.isPrefixOf]; exact fun e => h1 e.symm
    rw [this]; simp [cut_slash_none x h2]

theorem cut_slash_some : ∀ (x t : Bytes), slash ∉ x → cut [slash] (x ++ slash :: t) = some x
  | [], t, _ => by simp [cut, List.isPrefixOf]
  | ch :: x, t, h => by
    have h1 : ch ≠ slash := fun e => h (by simp [e])
    have h2 : slash ∉ x := fun e => h (by simp [e])
    simp only [List.cons_append]
    unfold cut
    have : List.isPrefixOf [slash] (ch :: (x ++ slash :: t)) = false := by
      simp [List.isPrefixOf]; exact fun e => h1 e.symm
    rw [this]; simp [cut_slash_some x t h2]

/-- a path below `b` that carries the prefix continues it without a '/' -/
theorem suffix_no_slash (P b n : Bytes) (hb : P <+: b → b = P) (hn : slash ∉ n) (hP : P <+: b ++ n) :
    ∃ x, b ++ n = P ++ x ∧ slash ∉ x := by
  rcases List.prefix_or_prefix_of_prefix hP (List.prefix_append b n) with h | h
  · exact ⟨n, by rw [hb h], hn⟩
  · obtain ⟨n', rfl⟩ := h
    obtain ⟨x, hx⟩ := hP
    have : n = n' ++ x := by
      have : b ++ (n' ++ x) = b ++ n := by rw [← hx]; simp
      exact (List.append_cancel_left this).symm
    exact ⟨x, by rw [this]; simp, fun hm => hn (by rw [this]; simp [hm])⟩

theorem prefix_of_prefix_concat (P a : Bytes) (x : UInt8) (h : P <+: a ++ [x]) (hne : P ≠ a ++ [x]) : P <+: a := by
  have hl : P.length ≤ a.length := by
    have := h.length_le
    simp at this
    have : P.length ≠ a.length + 1 := by
      intro e
      exact hne (h.eq_of_length (by simp [e]))
    omega
  exact List.prefix_of_prefix_length_le h (List.prefix_append a [x]) hl

/-! ### the marker tests of `actTail` with `pastMarker` frozen -/

theorem marker_pass (c : Cfg) (p : Bytes) (h : c.marker = [] ∨ blt c.marker p = true) :
    ((!(c.marker == []) && p == c.marker) = false) ∧ ((!(c.marker == []) && blt p c.marker) = false) := by
  rcases h with h | h
  · simp [h]
  · have h1 : (p == c.marker) = false := by
      have := blt_ne _ _ h
      simp; exact fun e => this e.symm
    simp [h1, blt_asymm _ _ h]

theorem marker_fail (c : Cfg) (p : Bytes) (r : Ret) (h : ¬ (c.marker = [] ∨ blt c.marker p = true)) :
    (actTail c (c.marker == []) p r).em? = none := by
  have hne : c.marker ≠ [] := fun e => h (Or.inl e)
  have hb : (c.marker == []) = false := by simpa using hne
  unfold actTail
  rw [hb]
  rcases blt_trichotomy c.marker p with h1 | h1 | h1
  · exact absurd (Or.inr h1) h
  · simp [h1, Act.em?]
  · have : (p == c.marker) = false := by
      have := blt_ne _ _ h1
      simpa using this
    simp [this, h1, Act.em?]

theorem actObj_em (c : Cfg) (k mk : Bytes) (r : Ret) :
    (actObj c k mk r).em? = (c.getObj k).map (fun m => Em.obj ⟨k, m.1, m.2⟩ mk) := by
  unfold actObj
  cases c.getObj k with
  | none => rfl
  | some m => rfl

/-- past the marker, carrying the prefix, no delimiter beyond it: an object -/
theorem actTail_obj (c : Cfg) (p : Bytes) (r : Ret) (hM : c.marker = [] ∨ blt c.marker p = true)
    (hP : c.pfx <+: p) (hcut : c.delim = [] ∨ cut c.delim (p.drop c.pfx.length) = none) :
    actTail c (c.marker == []) p r = actObj c p p r := by
  obtain ⟨m1, m2⟩ := marker_pass c p hM
  unfold actTail
  rw [m1, m2]
  have hp : (decide (c.pfx ≠ []) && !hasPrefix p c.pfx) = false := by
    simp [(hasPrefix_iff _ _).2 hP]
  simp only [Bool.false_eq_true, if_false, hp]
  rcases hcut with h | h
  · simp [h]
  · obtain ⟨t, rfl⟩ := hP
    rw [trimPrefix_append]
    simp only [List.drop_left'] at h
    rw [h]
    split <;> rfl

theorem actTail_noPrefix (c : Cfg) (pm : Bool) (p : Bytes) (r : Ret) (hP : ¬ c.pfx <+: p) :
    (actTail c pm p r).em? = none := by
  have hne : c.pfx ≠ [] := fun e => hP (e ▸ List.nil_prefix)
  have hp : (decide (c.pfx ≠ []) && !hasPrefix p c.pfx) = true := by
    have : hasPrefix p c.pfx = false := by
      cases h : hasPrefix p c.pfx with
      | false => rfl
      | true => exact absurd ((hasPrefix_iff _ _).1 h) hP
    simp [hne, this]
  unfold actTail
  simp only [hp, if_true]
  split; · rfl
  split <;> rfl

/-! ### files -/

theorem em_file (c : Cfg) (h : Hyp c) (b n : Bytes) (hn : slash ∉ n) (hb : BaseOK c b) :
    (act0 c ⟨b ++ n, n, false, true⟩).em? =
      if (c.marker = [] ∨ blt c.marker (b ++ n) = true) ∧ c.pfx <+: b ++ n then
        (c.getObj (b ++ n)).map (fun m => Em.obj ⟨b ++ n, m.1, m.2⟩ (b ++ n))
      else none := by
  unfold act0 actAt act
  · simp only [Bool.false_and, Bool.false_eq_true, if_false]
    by_cases hM : c.marker = [] ∨ blt c.marker (b ++ n) = true
    · by_cases hP : c.pfx <+: b ++ n
      · rw [if_pos ⟨hM, hP⟩, actTail_obj c _ _ hM hP, actObj_em]
        rcases h.delim with hd | hd
        · exact Or.inl hd
        · right
          obtain ⟨x, hx, hxs⟩ := suffix_no_slash c.pfx b n (hb hd) hn hP
          rw [hx, hd]
          simp only [List.drop_left']
          exact cut_slash_none x hxs
      · rw [if_neg (fun hh => hP hh.2)]
        exact actTail_noPrefix c _ _ _ hP
    · rw [if_neg (fun hh => hM hh.1)]
      exact marker_fail c _ _ hM

/-! ### directories -/

/-- pruned because the directory cannot meet the prefix -/
def prefixPruned (c : Cfg) (ps : Bytes) : Prop := ¬ c.pfx <+: ps ∧ ¬ ps <+: c.pfx

/-- rolled up into a common prefix (delimiter "/": `ps` carries the prefix and goes beyond it) -/
def rolledUp (c : Cfg) (ps : Bytes) : Prop := c.delim = [slash] ∧ c.pfx <+: ps ∧ ps ≠ c.pfx

theorem prefixPruned_cond (c : Cfg) (ps : Bytes) :
    (decide (c.pfx ≠ []) && !hasPrefix ps c.pfx && !hasPrefix c.pfx ps) = true ↔ prefixPruned c ps := by
  unfold prefixPruned
  constructor
  · intro h
    simp only [Bool.and_eq_true, Bool.not_eq_true', decide_eq_true_eq] at h
    refine ⟨fun hp => ?_, fun hp => ?_⟩
    · rw [(hasPrefix_iff _ _).2 hp] at h; exact Bool.noConfusion h.1.2
    · rw [(hasPrefix_iff _ _).2 hp] at h; exact Bool.noConfusion h.2
  · rintro ⟨h1, h2⟩
    have hne : c.pfx ≠ [] := fun e => h1 (e ▸ List.nil_prefix)
    have e1 : hasPrefix ps c.pfx = false := by
      cases h : hasPrefix ps c.pfx with
      | false => rfl
      | true => exact absurd ((hasPrefix_iff _ _).1 h) h1
    have e2 : hasPrefix c.pfx ps = false := by
      cases h : hasPrefix c.pfx ps with
      | false => rfl
      | true => exact absurd ((hasPrefix_iff _ _).1 h) h2
    simp [hne, e1, e2]

theorem rolledUp_cond (c : Cfg) (h : Hyp c) (a : Bytes) :
    (decide (c.delim ≠ []) && hasPrefix (a ++ [slash]) c.pfx &&
      containsSub (trimPrefix (a ++ [slash]) c.pfx) c.delim) = true ↔ rolledUp c (a ++ [slash]) := by
  unfold rolledUp
  rcases h.delim with hd | hd
  · simp [hd]
  · constructor
    · intro hc
      simp only [Bool.and_eq_true, decide_eq_true_eq] at hc
      obtain ⟨⟨_, h2⟩, h3⟩ := hc
      have hp := (hasPrefix_iff _ _).1 h2
      refine ⟨hd, hp, ?_⟩
      intro e
      rw [e] at h3
      have : trimPrefix c.pfx c.pfx = [] := by
        have := trimPrefix_append c.pfx []
        simpa using this
      rw [this, hd] at h3
      simp [containsSub, cut] at h3
    · rintro ⟨_, hp, hne⟩
      have hpa := prefix_of_prefix_concat _ _ _ hp (Ne.symm hne)
      obtain ⟨x, hx⟩ := hpa
      have e1 : hasPrefix (a ++ [slash]) c.pfx = true := (hasPrefix_iff _ _).2 hp
      have e2 : trimPrefix (a ++ [slash]) c.pfx = x ++ [slash] := by
        rw [← hx, List.append_assoc]; exact trimPrefix_append _ _
      have e3 : containsSub (x ++ [slash]) [slash] = true := by
        rw [containsSub_iff]; exact ⟨x, List.prefix_refl _⟩
      simp [hd, e1, e2, e3]

/-- the callback's flag for a directory that is not skip-listed -/
theorem flagOf_dir (c : Cfg) (h : Hyp c) (a n : Bytes) (ne : Bool) (hs : a ∉ c.skip) :
    (prefixPruned c (a ++ [slash]) ∨ rolledUp c (a ++ [slash]) → flagOf c ⟨a, n, true, ne⟩ = .skipDir) ∧
    (¬ prefixPruned c (a ++ [slash]) → ¬ rolledUp c (a ++ [slash]) → flagOf c ⟨a, n, true, ne⟩ = .nil) := by
  have hs' : c.skip.contains a = false := by simpa using hs
  unfold flagOf
  simp only [hs', Bool.and_false, Bool.false_eq_true, if_false, if_true]
  by_cases h1 : prefixPruned c (a ++ [slash])
  · rw [if_pos ((prefixPruned_cond c _).2 h1)]
    exact ⟨fun _ => rfl, fun hh => absurd h1 hh⟩
  · rw [if_neg (fun hh => h1 ((prefixPruned_cond c _).1 hh))]
    by_cases h2 : rolledUp c (a ++ [slash])
    · rw [if_pos ((rolledUp_cond c h a).2 h2)]
      exact ⟨fun _ => rfl, fun _ hh => absurd h2 hh⟩
    · rw [if_neg (fun hh => h2 ((rolledUp_cond c h a).1 hh))]
      exact ⟨fun hh => hh.elim (fun x => absurd x h1) (fun x => absurd x h2), fun _ _ => rfl⟩

theorem flagOf_skip (c : Cfg) (a n : Bytes) (ne : Bool) (hs : a ∈ c.skip) : flagOf c ⟨a, n, true, ne⟩ = .skipDir := by
  have hs' : (true && c.skip.contains a) = true := by simpa using hs
  unfold flagOf
  rw [if_pos hs']

/-- a directory that is neither pruned nor rolled up emits nothing (it is not an explicit object) -/
theorem em_dir_descend (c : Cfg) (h : Hyp c) (a n : Bytes) (ne : Bool) (hs : a ∉ c.skip)
    (h1 : ¬ prefixPruned c (a ++ [slash])) (h2 : ¬ rolledUp c (a ++ [slash])) :
    (act0 c ⟨a, n, true, ne⟩).em? = none := by
  have hs' : c.skip.contains a = false := by simpa using hs
  unfold act0 actAt act
  simp only [hs', Bool.and_false, Bool.false_eq_true, if_false, if_true]
  unfold actDir
  dsimp only
  rw [if_neg (fun hh => h1 ((prefixPruned_cond c _).1 hh)), if_neg (fun hh => h2 ((rolledUp_cond c h a).1 hh))]
  split
  · rw [actObj_em, h.noDirObj]; rfl
  · split
    · rfl
    · -- an empty directory: the tail of the callback on `a/`
      by_cases hM : c.marker = [] ∨ blt c.marker (a ++ [slash]) = true
      · by_cases hP : c.pfx <+: a ++ [slash]
        · have hd : c.delim = [slash] := by
            rcases h.delim with hd | hd
            · rename_i hne _; exact absurd hd hne
            · exact hd
          have heq : a ++ [slash] = c.pfx := by
            apply Classical.byContradiction
            intro hne
            exact h2 ⟨hd, hP, hne⟩
          rw [actTail_obj c _ _ hM hP (Or.inr (by rw [heq, hd]; simp [cut])), actObj_em, h.noDirObj]; rfl
        · exact actTail_noPrefix c _ _ _ hP
      · exact marker_fail c _ _ hM

theorem em_dir_pruned (c : Cfg) (a n : Bytes) (ne : Bool) (h1 : prefixPruned c (a ++ [slash])) :
    (act0 c ⟨a, n, true, ne⟩).em? = none := by
  unfold act0 actAt act
  split; · rfl
  simp only [if_true]
  unfold actDir
  dsimp only
  rw [if_pos ((prefixPruned_cond c _).2 h1)]; rfl

theorem em_skip (c : Cfg) (a n : Bytes) (ne : Bool) (hs : a ∈ c.skip) :
    (act0 c ⟨a, n, true, ne⟩).em? = none := by
  have hs' : (true && c.skip.contains a) = true := by simpa using hs
  unfold act0 actAt act
  rw [if_pos hs']; rfl

/-- a rolled-up directory `a/ = P ++ x ++ "/"` emits its common prefix unless the marker says no -/
theorem em_dir_rolled (c : Cfg) (h : Hyp c) (a n : Bytes) (ne : Bool) (hs : a ∉ c.skip)
    (h1 : ¬ prefixPruned c (a ++ [slash])) (h2 : rolledUp c (a ++ [slash]))
    (x : Bytes) (hx : a = c.pfx ++ x) (hxs : slash ∉ x) :
    (act0 c ⟨a, n, true, ne⟩).em? =
      if c.marker = [] ∨ (blt c.marker (a ++ [slash]) = true ∧ ¬ a <+: c.marker) then some (.cp (a ++ [slash])) else none := by
  have hs' : c.skip.contains a = false := by simpa using hs
  have hd := h2.1
  unfold act0 actAt act
  simp only [hs', Bool.and_false, Bool.false_eq_true, if_false, if_true]
  unfold actDir
  dsimp only
  rw [if_neg (fun hh => h1 ((prefixPruned_cond c _).1 hh)), if_pos ((rolledUp_cond c h a).2 h2)]
  by_cases hM : c.marker = [] ∨ blt c.marker (a ++ [slash]) = true
  · obtain ⟨m1, m2⟩ := marker_pass c _ hM
    unfold actTail
    rw [m1, m2]
    have hp : (decide (c.pfx ≠ []) && !hasPrefix (a ++ [slash]) c.pfx) = false := by
      simp [(hasPrefix_iff _ _).2 h2.2.1]
    have hdn : c.delim ≠ [] := by rw [hd]; simp
    simp only [Bool.false_eq_true, if_false, hp, hdn]
    have htrim : trimPrefix (a ++ [slash]) c.pfx = x ++ [slash] := by
      rw [hx, List.append_assoc]; exact trimPrefix_append _ _
    have hcut : cut c.delim (x ++ [slash]) = some x := by
      rw [hd]; exact cut_slash_some x [] hxs
    rw [htrim, hcut]
    dsimp only
    have hcp : c.pfx ++ x ++ c.delim = a ++ [slash] := by rw [hx, hd]
    rw [hcp, ← hx]
    by_cases hmk : c.marker = []
    · have : (a ++ [slash] == c.marker) = false := by simp [hmk]
      simp [this, hmk, Act.em?]
    · have hlt : blt c.marker (a ++ [slash]) = true := hM.resolve_left hmk
      have : (a ++ [slash] == c.marker) = false := by
        have := blt_ne _ _ hlt
        simp; exact fun e => this e.symm
      rw [this]
      simp only [Bool.false_eq_true, if_false]
      by_cases hpm : a <+: c.marker
      · have : (decide (c.marker ≠ []) && hasPrefix c.marker a) = true := by
          simp [hmk, (hasPrefix_iff _ _).2 hpm]
        rw [if_pos this, if_neg (by
          rintro (e | ⟨_, e⟩)
          · exact hmk e
          · exact e hpm)]
        rfl
      · have : (decide (c.marker ≠ []) && hasPrefix c.marker a) = false := by
          have : hasPrefix c.marker a = false := by
            cases hh : hasPrefix c.marker a with
            | false => rfl
            | true => exact absurd ((hasPrefix_iff _ _).1 hh) hpm
          simp [this]
        rw [this, if_pos (Or.inr ⟨hlt, hpm⟩)]
        rfl
  · rw [marker_fail c _ _ hM, if_neg]
    rintro (e | ⟨e, _⟩)
    · exact hM (Or.inl e)
    · exact hM (Or.inr e)

end Vgw.Model.Walk
