/-
  Vocabulary of the cache invariants: which calls have changed the store but not yet the cache
  (`Pending`), typing of program points (`TInv`), the root key never enters the store.
-/
import Vgw.Lemmas.IAMProgress
import Vgw.Model.IAMQuiet
namespace Vgw.Model.IAM
open Vgw
open Vgw.Model.Gw (Account Role)

/-- some call has changed key `k` in the store and still owes the cache its step -/
def Pending (calls : List Call) (k : Bytes) : Prop :=
  ∃ (j : Nat) (c : Call), calls[j]? = some c ∧ pend c.pc = true ∧ c.op.key = k

theorem pending_set_other {calls : List Call} {i : Nat} {c c' : Call} {k : Bytes}
    (hi : calls[i]? = some c) (hop : c'.op = c.op) (hk : k ≠ c.op.key) :
    Pending (calls.set i c') k ↔ Pending calls k := by
  have hlt := (List.getElem?_eq_some_iff.mp hi).1
  constructor
  · rintro ⟨j, cj, hj, hp, hkey⟩
    rw [List.getElem?_set] at hj
    by_cases hij : i = j
    · simp only [hij, if_true] at hj
      split at hj
      · cases hj; rw [hop] at hkey; exact absurd hkey.symm hk
      · cases hj
    · simp only [hij, if_false] at hj; exact ⟨j, cj, hj, hp, hkey⟩
  · rintro ⟨j, cj, hj, hp, hkey⟩
    by_cases hij : i = j
    · subst hij; rw [hi] at hj; cases hj; exact absurd hkey.symm hk
    · exact ⟨j, cj, by rw [List.getElem?_set]; simp [hij, hj], hp, hkey⟩

theorem pending_set_same {calls : List Call} {i : Nat} {c c' : Call} {k : Bytes}
    (hi : calls[i]? = some c) (hop : c'.op = c.op) (hp : pend c'.pc = pend c.pc) :
    Pending (calls.set i c') k ↔ Pending calls k := by
  have hlt := (List.getElem?_eq_some_iff.mp hi).1
  constructor
  · rintro ⟨j, cj, hj, hpj, hkey⟩
    rw [List.getElem?_set] at hj
    by_cases hij : i = j
    · simp only [hij, if_true] at hj
      split at hj
      · cases hj; exact ⟨i, c, hi, by rw [← hp]; exact hpj, by rw [← hop]; exact hkey⟩
      · cases hj
    · simp only [hij, if_false] at hj; exact ⟨j, cj, hj, hpj, hkey⟩
  · rintro ⟨j, cj, hj, hpj, hkey⟩
    by_cases hij : i = j
    · subst hij; rw [hi] at hj; cases hj
      exact ⟨i, c', by rw [List.getElem?_set]; simp [hlt], by rw [hp]; exact hpj, by rw [hop]; exact hkey⟩
    · exact ⟨j, cj, by rw [List.getElem?_set]; simp [hij, hj], hpj, hkey⟩

/-- a call that was not pending cannot have been the witness -/
theorem pending_set_mono {calls : List Call} {i : Nat} {c c' : Call} {k : Bytes}
    (hi : calls[i]? = some c) (hp : pend c.pc = false) (h : Pending calls k) : Pending (calls.set i c') k := by
  obtain ⟨j, cj, hj, hpj, hkey⟩ := h
  by_cases hij : i = j
  · subst hij; rw [hi] at hj; cases hj; rw [hp] at hpj; cases hpj
  · exact ⟨j, cj, by rw [List.getElem?_set]; simp [hij, hj], hpj, hkey⟩

/-- a call that is not pending afterwards is not the witness -/
theorem pending_set_anti {calls : List Call} {i : Nat} {c' : Call} {k : Bytes}
    (hp : pend c'.pc = false) (h : Pending (calls.set i c') k) : Pending calls k := by
  obtain ⟨j, cj, hj, hpj, hkey⟩ := h
  rw [List.getElem?_set] at hj
  by_cases hij : i = j
  · simp only [hij, if_true] at hj
    split at hj
    · cases hj; rw [hp] at hpj; cases hpj
    · cases hj
  · simp only [hij, if_false] at hj; exact ⟨j, cj, hj, hpj, hkey⟩

theorem pending_set_new {calls : List Call} {i : Nat} {c c' : Call}
    (hi : calls[i]? = some c) (hp : pend c'.pc = true) : Pending (calls.set i c') c'.op.key := by
  have hlt := (List.getElem?_eq_some_iff.mp hi).1
  exact ⟨i, c', by rw [List.getElem?_set]; simp [hlt], hp, rfl⟩

theorem pending_append {calls : List Call} {op : Op} {k : Bytes} :
    Pending (calls ++ [⟨op, .start⟩]) k ↔ Pending calls k := by
  constructor
  · rintro ⟨j, cj, hj, hpj, hkey⟩
    by_cases hlt : j < calls.length
    · rw [List.getElem?_append_left hlt] at hj; exact ⟨j, cj, hj, hpj, hkey⟩
    · rw [List.getElem?_append_right (by omega)] at hj
      cases hd : j - calls.length with
      | zero => rw [hd] at hj; simp at hj; subst hj; simp [pend] at hpj
      | succ n => rw [hd] at hj; simp at hj
  · rintro ⟨j, cj, hj, hpj, hkey⟩
    have hlt := (List.getElem?_eq_some_iff.mp hj).1
    exact ⟨j, cj, by rw [List.getElem?_append_left hlt]; exact hj, hpj, hkey⟩

/-! ### typing of program points -/

/-- program points of GetUserAccount behind the cache lookup -/
def isG : PC → Bool
  | .gMiss _ | .gRLocked _ | .gGot _ _ | .gFetched _ _ => true
  | _ => false

/-- program points of ListUserAccounts -/
def isL : PC → Bool
  | .lRLocked | .lGot _ => true
  | _ => false

/-- inside the store's write section or owing the cache step: the call is a mutation, and a create
is not one of the root key -/
def PcT (cfg : Cfg) (c : Call) : Prop :=
  ((inW c.pc = true ∨ pend c.pc = true) → c.op.isMut = true ∧ ∀ a, c.op = .create a → a.access ≠ cfg.root.access) ∧
  (isL c.pc = true → c.op = .list) ∧
  (isG c.pc = true → ∃ k, c.op = .get k)

def TInv (cfg : Cfg) (σ : State) : Prop := ∀ (i : Nat) (c : Call), σ.calls[i]? = some c → PcT cfg c

theorem TInv.stepCall {v : Variant} {cfg : Cfg} {σ : State} {i : Nat} {c : Call}
    (hT : TInv cfg σ) (hi : σ.calls[i]? = some c) : TInv cfg (stepCall v cfg σ i c) := by
  have hc := hT i c hi
  obtain ⟨pc', hcalls⟩ := stepCall_calls v cfg σ i c hi
  intro j cj hj
  by_cases hij : j = i
  · subst hij
    -- the stepping call: look at the step
    unfold PcT at hc ⊢
    unfold Model.IAM.stepCall at hj
    have hlt := (List.getElem?_eq_some_iff.mp hi).1
    have hcs := (cacheStep_frame v cfg σ c.op).2.2.2.2.2.2.1
    repeat' split at hj
    all_goals first
      | (rw [hi] at hj; cases hj; exact hc)
      | (simp only [State.setCall, List.getElem?_set, hlt] at hj; simp at hj; subst hj
         simp_all [inW, pend, isL, isG, Op.isMut]; done)
      | (simp only [State.setCall, hcs, List.getElem?_set, hlt] at hj; simp at hj; subst hj
         simp_all [inW, pend, isL, isG, Op.isMut]; done)
      | (simp only [State.setCall, List.getElem?_set, hlt] at hj; simp at hj; subst hj
         cases hop : c.op <;> simp_all [inW, pend, isL, isG, Op.isMut])
  · rw [hcalls, List.getElem?_set] at hj
    have : ¬ i = j := fun e => hij e.symm
    simp only [this, if_false] at hj
    exact hT j cj hj

theorem TInv.act {v : Variant} {cfg : Cfg} {σ : State} (hT : TInv cfg σ) (a : Act) : TInv cfg (act v cfg σ a) := by
  cases a with
  | step i =>
    simp only [Model.IAM.act, Model.IAM.stepAt]
    split
    · rename_i c hi; exact hT.stepCall hi
    · exact hT
  | tick n => exact fun i c hi => hT i c hi
  | gc => exact fun i c hi => hT i c hi
  | invoke op =>
    intro j cj hj
    simp only [Model.IAM.act] at hj
    by_cases hlt : j < σ.calls.length
    · rw [List.getElem?_append_left hlt] at hj; exact hT j cj hj
    · rw [List.getElem?_append_right (by omega)] at hj
      cases hd : j - σ.calls.length with
      | zero => rw [hd] at hj; simp at hj; subst hj; exact ⟨fun h => by simp [inW, pend] at h, fun h => by simp [isL] at h, fun h => by simp [isG] at h⟩
      | succ n => rw [hd] at hj; simp at hj

end Vgw.Model.IAM
