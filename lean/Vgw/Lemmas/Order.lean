/-
  The bytewise order `blt` (Go's `<` on strings) is a strict total order; its interplay with
  prefixes and concatenation.
-/
import Vgw.Go.StrOrder
namespace Vgw

@[simp] theorem blt_nil_right (a : Bytes) : blt a [] = false := by cases a <;> rfl
@[simp] theorem blt_nil_cons (b : UInt8) (bs : Bytes) : blt [] (b :: bs) = true := rfl
theorem blt_cons_cons (a : UInt8) (as : Bytes) (b : UInt8) (bs : Bytes) :
    blt (a :: as) (b :: bs) = if a < b then true else if a = b then blt as bs else false := rfl

theorem blt_irrefl : ∀ a : Bytes, blt a a = false
  | [] => rfl
  | a :: as => by simp [blt_cons_cons, UInt8.lt_irrefl, blt_irrefl as]

theorem blt_asymm : ∀ a b : Bytes, blt a b = true → blt b a = false
  | _, [], h => by simp at h
  | [], _ :: _, _ => by simp
  | a :: as, b :: bs, h => by
    rw [blt_cons_cons] at h
    rw [blt_cons_cons]
    by_cases hab : a < b
    · have h1 : ¬ b < a := UInt8.lt_asymm hab
      have h2 : b ≠ a := fun e => by subst e; exact UInt8.lt_irrefl _ hab
      simp [h1, h2]
    · simp only [hab, if_false] at h
      by_cases he : a = b
      · subst he
        simp only [if_true] at h
        simp [UInt8.lt_irrefl, blt_asymm as bs h]
      · simp [he] at h

theorem blt_trans : ∀ a b c : Bytes, blt a b = true → blt b c = true → blt a c = true
  | _, _, [], _, h => by simp at h
  | _, [], _ :: _, h, _ => by simp at h
  | [], _ :: _, _ :: _, _, _ => by simp
  | a :: as, b :: bs, c :: cs, h1, h2 => by
    rw [blt_cons_cons] at h1 h2
    rw [blt_cons_cons]
    by_cases hab : a < b
    · by_cases hbc : b < c
      · simp [UInt8.lt_trans hab hbc]
      · simp only [hbc, if_false] at h2
        by_cases he : b = c
        · subst he; simp [hab]
        · simp [he] at h2
    · simp only [hab, if_false] at h1
      by_cases he : a = b
      · subst he
        simp only [if_true] at h1
        by_cases hbc : a < c
        · simp [hbc]
        · simp only [hbc, if_false] at h2 ⊢
          by_cases he2 : a = c
          · subst he2
            simp only [if_true] at h2 ⊢
            exact blt_trans as bs cs h1 h2
          · simp [he2] at h2
      · simp [he] at h1

theorem blt_trichotomy : ∀ a b : Bytes, blt a b = true ∨ a = b ∨ blt b a = true
  | [], [] => by simp
  | [], _ :: _ => by simp
  | _ :: _, [] => by simp
  | a :: as, b :: bs => by
    rw [blt_cons_cons, blt_cons_cons]
    by_cases hab : a < b
    · simp [hab]
    · by_cases hba : b < a
      · simp [hba]
      · have he : a = b := UInt8.le_antisymm (UInt8.not_lt.mp hba) (UInt8.not_lt.mp hab)
        subst he
        simp only [UInt8.lt_irrefl, if_false, if_true, List.cons.injEq, true_and]
        exact blt_trichotomy as bs

theorem blt_append_left : ∀ p a b : Bytes, blt (p ++ a) (p ++ b) = blt a b
  | [], _, _ => rfl
  | x :: p, a, b => by
    simp [blt_cons_cons, UInt8.lt_irrefl, blt_append_left p a b]

/-! ### `ble` -/

theorem ble_iff (a b : Bytes) : ble a b = true ↔ a = b ∨ blt a b = true := by
  unfold ble
  constructor
  · intro h
    rcases blt_trichotomy a b with h1 | h1 | h1
    · exact Or.inr h1
    · exact Or.inl h1
    · simp [h1] at h
  · rintro (rfl | h)
    · simp [blt_irrefl]
    · simp [blt_asymm a b h]

theorem ble_refl (a : Bytes) : ble a a = true := (ble_iff a a).2 (Or.inl rfl)

theorem not_ble (a b : Bytes) : ble a b = false ↔ blt b a = true := by
  unfold ble; cases blt b a <;> simp

theorem blt_of_blt_of_ble (a b c : Bytes) (h1 : blt a b = true) (h2 : ble b c = true) : blt a c = true := by
  rcases (ble_iff b c).1 h2 with rfl | h
  · exact h1
  · exact blt_trans a b c h1 h

theorem blt_of_ble_of_blt (a b c : Bytes) (h1 : ble a b = true) (h2 : blt b c = true) : blt a c = true := by
  rcases (ble_iff a b).1 h1 with rfl | h
  · exact h2
  · exact blt_trans a b c h h2

theorem ble_trans (a b c : Bytes) (h1 : ble a b = true) (h2 : ble b c = true) : ble a c = true := by
  rcases (ble_iff a b).1 h1 with rfl | h
  · exact h2
  · exact (ble_iff a c).2 (Or.inr (blt_of_blt_of_ble a b c h h2))

theorem ble_of_blt (a b : Bytes) (h : blt a b = true) : ble a b = true := (ble_iff a b).2 (Or.inr h)

theorem blt_ne (a b : Bytes) (h : blt a b = true) : a ≠ b := by
  rintro rfl; simp [blt_irrefl] at h

theorem ble_antisymm (a b : Bytes) (h1 : ble a b = true) (h2 : ble b a = true) : a = b := by
  rcases (ble_iff a b).1 h1 with h | h
  · exact h
  · unfold ble at h2; simp [h] at h2

/-! ### prefixes -/

theorem blt_append_right (a : Bytes) : ∀ t : Bytes, t ≠ [] → blt a (a ++ t) = true := by
  intro t ht
  have := blt_append_left a [] t
  simp only [List.append_nil] at this
  rw [this]
  cases t with
  | nil => exact absurd rfl ht
  | cons x xs => simp

theorem ble_of_prefix (a b : Bytes) (h : a <+: b) : ble a b = true := by
  obtain ⟨t, rfl⟩ := h
  cases t with
  | nil => simp [ble_refl]
  | cons x xs => exact ble_of_blt _ _ (blt_append_right a _ (by simp))

theorem blt_of_prefix_ne (a b : Bytes) (h : a <+: b) (hne : a ≠ b) : blt a b = true := by
  rcases (ble_iff a b).1 (ble_of_prefix a b h) with e | e
  · exact absurd e hne
  · exact e

/-- `a < b` where `a` is not a prefix of `b`: the two differ inside both, so whatever is appended
to either keeps the order. -/
theorem blt_append_of_not_prefix : ∀ a b : Bytes, blt a b = true → ¬ a <+: b →
    ∀ t t' : Bytes, blt (a ++ t) (b ++ t') = true
  | _, [], h, _, _, _ => by simp at h
  | [], _ :: _, _, hp, _, _ => absurd List.nil_prefix hp
  | a :: as, b :: bs, h, hp, t, t' => by
    rw [blt_cons_cons] at h
    simp only [List.cons_append]
    rw [blt_cons_cons]
    by_cases hab : a < b
    · simp [hab]
    · simp only [hab, if_false] at h ⊢
      by_cases he : a = b
      · subst he
        simp only [if_true] at h ⊢
        exact blt_append_of_not_prefix as bs h (fun hp' => hp ((List.prefix_cons_inj a).2 hp')) t t'
      · simp [he] at h

/-- everything strictly between `a` and an extension of `a` extends `a` -/
theorem prefix_of_between (a b r : Bytes) (h1 : ble a b = true) (h2 : blt b (a ++ r) = true) : a <+: b := by
  rcases (ble_iff a b).1 h1 with rfl | h
  · exact List.prefix_refl _
  · apply Classical.byContradiction
    intro hp
    have := blt_append_of_not_prefix a b h hp r []
    simp only [List.append_nil] at this
    rw [blt_asymm _ _ this] at h2
    exact Bool.noConfusion h2

/-- `k` above `a` that does not extend `a` is above every extension of `a` -/
theorem blt_append_of_blt_not_prefix (a k : Bytes) (h : blt a k = true) (hp : ¬ a <+: k) (t : Bytes) :
    blt (a ++ t) k = true := by
  have := blt_append_of_not_prefix a k h hp t []
  simpa using this

/-- Pairwise-`blt` lists: `sortDedup` -/
theorem mem_insertSorted (x : Bytes) : ∀ (l : List Bytes) (y : Bytes), y ∈ insertSorted x l ↔ y = x ∨ y ∈ l
  | [], y => by simp [insertSorted]
  | z :: zs, y => by
    unfold insertSorted
    split
    · simp
    · split
      · rename_i h; subst h; simp
      · simp [mem_insertSorted x zs y]; constructor
        · rintro (h | h | h) <;> simp [h]
        · rintro (h | h | h) <;> simp [h]

theorem mem_sortDedup (l : List Bytes) (y : Bytes) : y ∈ sortDedup l ↔ y ∈ l := by
  induction l with
  | nil => simp [sortDedup]
  | cons x xs ih =>
    have : sortDedup (x :: xs) = insertSorted x (sortDedup xs) := rfl
    rw [this, mem_insertSorted, ih]; simp

theorem insertSorted_sorted (x : Bytes) : ∀ l : List Bytes, l.Pairwise (fun a b => blt a b = true) →
    (insertSorted x l).Pairwise (fun a b => blt a b = true)
  | [], _ => by simp [insertSorted]
  | z :: zs, h => by
    unfold insertSorted
    have hz := List.pairwise_cons.1 h
    split
    · rename_i hxz
      refine List.pairwise_cons.2 ⟨?_, h⟩
      intro y hy
      rcases List.mem_cons.1 hy with rfl | hy
      · exact hxz
      · exact blt_trans _ _ _ hxz (hz.1 y hy)
    · split
      · exact h
      · rename_i h1 h2
        refine List.pairwise_cons.2 ⟨?_, insertSorted_sorted x zs hz.2⟩
        intro y hy
        rcases (mem_insertSorted x zs y).1 hy with rfl | hy
        · rcases blt_trichotomy y z with h | h | h
          · simp [h] at h1
          · exact absurd h h2
          · exact h
        · exact hz.1 y hy

theorem sortDedup_sorted (l : List Bytes) : (sortDedup l).Pairwise (fun a b => blt a b = true) := by
  induction l with
  | nil => simp [sortDedup]
  | cons x xs ih => exact insertSorted_sorted x _ ih

theorem insertSorted_of_lt_all (x : Bytes) : ∀ l : List Bytes, (∀ y ∈ l, blt x y = true) →
    insertSorted x l = x :: l
  | [], _ => rfl
  | z :: zs, h => by
    unfold insertSorted
    simp [h z (by simp)]

/-- sorting an ascending duplicate-free list changes nothing -/
theorem sortDedup_of_sorted : ∀ l : List Bytes, l.Pairwise (fun a b => blt a b = true) → sortDedup l = l
  | [], _ => rfl
  | x :: xs, h => by
    have hx := List.pairwise_cons.1 h
    have : sortDedup (x :: xs) = insertSorted x (sortDedup xs) := rfl
    rw [this, sortDedup_of_sorted xs hx.2, insertSorted_of_lt_all x xs hx.1]

end Vgw
