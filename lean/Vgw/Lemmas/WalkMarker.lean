/-
  Markers the server issues itself are clear of the common prefixes (delimiter "/"), in a
  well-formed order-compatible tree without directory objects:
    * `oc_keys`  — a key below `u/` and a key starting with `u ++ [ch]`, `ch ≠ '/'`: then '/' < ch;
    * `no_clash` — no key is a '/'-prefix of another key;
    * `serverIssued_markerClear`.
-/
import Vgw.Lemmas.WalkRoot
namespace Vgw.Model.Walk
open Vgw Vgw.Spec.List

/-- keys of a node when no directory is an object -/
theorem keysNode_cases (g : GetObj) (skip : List Bytes) (hnd : ∀ p : Bytes, g (p ++ [slash]) = none)
    (b k : Bytes) (t : Tree) (hk : k ∈ keysNode g skip b t) :
    (t = .file t.name ∧ k = b ++ t.name) ∨
    (∃ cs, t = .dir t.name cs ∧ k ∈ keysList g skip (b ++ t.name ++ [slash]) cs) := by
  cases t with
  | file n =>
    left
    rw [keysNode_file] at hk
    split at hk
    · simp at hk; exact ⟨rfl, hk⟩
    · simp at hk
  | dir n cs =>
    right
    rw [keysNode_dir] at hk
    split at hk; · simp at hk
    rw [hnd] at hk
    simp at hk
    exact ⟨cs, rfl, by simpa [Tree.name, List.append_assoc] using hk⟩

theorem ocList_pair : ∀ (ts : List Tree), wfList ts = true → ocList ts = true →
    ∀ t1 ∈ ts, ∀ t2 ∈ ts, t1.isDir = true → blt t1.name t2.name = true → badExt t1.name t2.name = false
  | [], _, _, _, h, _, _, _, _ => by simp at h
  | u :: us, hw, ho, t1, h1, t2, h2, hd, hlt => by
    have hw' := (wfList_cons u us).1 hw
    have ho' := (ocList_cons u us).1 ho
    rcases List.mem_cons.1 h1 with e1 | m1
    · rcases List.mem_cons.1 h2 with e2 | m2
      · rw [e1, e2, blt_irrefl] at hlt; cases hlt
      · rw [e1] at hd ⊢; exact ho'.2.1 hd t2 m2
    · rcases List.mem_cons.1 h2 with e2 | m2
      · have := hw'.2.1 t1 m1
        rw [e2, blt_asymm _ _ this] at hlt; cases hlt
      · exact ocList_pair us hw'.2.2 ho'.2.2 t1 m1 t2 m2 hd hlt

theorem mem_unique_name (ts : List Tree) (hw : wfList ts = true) (t1 t2 : Tree) (h1 : t1 ∈ ts) (h2 : t2 ∈ ts)
    (hn : t1.name = t2.name) : t1 = t2 := by
  have e1 := findChild_of_mem ts t1 hw h1
  have e2 := findChild_of_mem ts t2 hw h2
  rw [hn, e2] at e1
  exact (Option.some.inj e1).symm

/-- a prefix of `a ++ [x]` is `a ++ [x]` itself or a prefix of `a` -/
theorem prefix_concat_cases (p a : Bytes) (x : UInt8) (h : p <+: a ++ [x]) : p = a ++ [x] ∨ p <+: a := by
  by_cases he : p = a ++ [x]
  · exact Or.inl he
  · exact Or.inr (prefix_of_prefix_concat p a x h he)

/-- the first '/' of `s` is where the '/'-free `n` ends -/
theorem slash_first (n s u' : Bytes) (hn : slash ∉ n) (h1 : (n ++ [slash]) <+: s) (h2 : (u' ++ [slash]) <+: s) :
    n = u' ∨ (n ++ [slash]) <+: u' := by
  rcases List.prefix_or_prefix_of_prefix h1 h2 with hh | hh
  · rcases prefix_concat_cases _ _ _ hh with e | e
    · exact Or.inl (List.append_cancel_right e)
    · exact Or.inr e
  · rcases prefix_concat_cases _ _ _ hh with e | e
    · exact Or.inl (List.append_cancel_right e).symm
    · exfalso; apply hn
      obtain ⟨r, hr⟩ := e
      rw [← hr]; simp

/-- **sibling order at key level** -/
theorem oc_keys (g : GetObj) (skip : List Bytes) (hnd : ∀ p : Bytes, g (p ++ [slash]) = none) :
    ∀ (n : Nat) (u' : Bytes), u'.length ≤ n → ∀ (b : Bytes) (ts : List Tree) (k1 k2 : Bytes) (ch : UInt8),
    wfList ts = true → ocList ts = true →
    k1 ∈ keysList g skip b ts → k2 ∈ keysList g skip b ts →
    (b ++ u' ++ [slash]) <+: k1 → (b ++ u' ++ [ch]) <+: k2 → ch ≠ slash → ¬ ch < slash := by
  intro n
  induction n with
  | zero =>
    intro u' hu b ts k1 k2 ch hw _ hk1 _ hp1 _ _
    -- u' = []: k1 would start with `b ++ "/"`, but names are not empty and have no '/'
    have hu0 : u' = [] := List.eq_nil_of_length_eq_zero (by omega)
    subst hu0
    exfalso
    obtain ⟨t1, ht1, hkt1⟩ := keysList_mem g skip b ts k1 hk1
    have hv := wfNode_validName t1 (wfList_mem ts hw t1 ht1)
    have hpre := keysNode_prefix g skip t1 b k1 hkt1
    obtain ⟨s, rfl⟩ : b <+: k1 := (List.prefix_append _ _).trans hpre
    have h1 : [slash] <+: s := by
      have : b ++ [slash] <+: b ++ s := by simpa using hp1
      exact (List.prefix_append_right_inj b).1 this
    have h2 : t1.name <+: s := (List.prefix_append_right_inj b).1 hpre
    have hne := validName_ne_nil _ hv
    have hns := validName_no_slash _ hv
    cases hn : t1.name with
    | nil => exact hne hn
    | cons c r =>
      rw [hn] at h2 hns
      cases s with
      | nil => simp at h1
      | cons c' s' =>
        simp only [List.cons_prefix_cons] at h1 h2
        apply hns
        rw [h2.1, ← h1.1]; simp
  | succ n ih =>
    intro u' hu b ts k1 k2 ch hw ho hk1 hk2 hp1 hp2 hch
    obtain ⟨t1, ht1, hkt1⟩ := keysList_mem g skip b ts k1 hk1
    obtain ⟨t2, ht2, hkt2⟩ := keysList_mem g skip b ts k2 hk2
    have hw1 := wfList_mem ts hw t1 ht1
    have hw2 := wfList_mem ts hw t2 ht2
    have hns1 := validName_no_slash _ (wfNode_validName t1 hw1)
    have hns2 := validName_no_slash _ (wfNode_validName t2 hw2)
    obtain ⟨s1, rfl⟩ : b <+: k1 := (List.prefix_append _ _).trans (keysNode_prefix g skip t1 b k1 hkt1)
    obtain ⟨s2, rfl⟩ : b <+: k2 := (List.prefix_append _ _).trans (keysNode_prefix g skip t2 b k2 hkt2)
    have hq1 : (u' ++ [slash]) <+: s1 := by
      have : b ++ (u' ++ [slash]) <+: b ++ s1 := by simpa [List.append_assoc] using hp1
      exact (List.prefix_append_right_inj b).1 this
    have hq2 : (u' ++ [ch]) <+: s2 := by
      have : b ++ (u' ++ [ch]) <+: b ++ s2 := by simpa [List.append_assoc] using hp2
      exact (List.prefix_append_right_inj b).1 this
    have hname2 : t2.name <+: s2 := (List.prefix_append_right_inj b).1 (keysNode_prefix g skip t2 b _ hkt2)
    -- t1 is a directory: s1 contains a '/'
    rcases keysNode_cases g skip hnd b _ t1 hkt1 with ⟨_, hk⟩ | ⟨cs1, ht1e, hkc1⟩
    · exfalso
      have : s1 = t1.name := List.append_cancel_left hk
      apply hns1
      obtain ⟨r, hr⟩ := hq1
      rw [← this, ← hr]; simp
    have hd1 : (t1.name ++ [slash]) <+: s1 := by
      have := keysList_prefix g skip cs1 _ _ hkc1
      have : b ++ (t1.name ++ [slash]) <+: b ++ s1 := by simpa [List.append_assoc] using this
      exact (List.prefix_append_right_inj b).1 this
    have hd : t1.isDir = true := by rw [ht1e]; rfl
    rcases slash_first t1.name s1 u' hns1 hd1 hq1 with hn1 | hB
    · -- Case A: t1.name = u'; t2's name must extend u' by ch
      by_cases hmain : (u' ++ [ch]) <+: t2.name
      · obtain ⟨w, hw2e⟩ := hmain
        have hlt : blt t1.name t2.name = true := by
          rw [← hw2e, hn1, List.append_assoc]; exact blt_append_right _ _ (by simp)
        have hbad := ocList_pair ts hw ho t1 ht1 t2 ht2 hd hlt
        unfold badExt at hbad
        rw [← hw2e, hn1] at hbad
        have h1 : u'.isPrefixOf (u' ++ [ch] ++ w) = true :=
          (isPrefixOf_iff _ _).2 ⟨[ch] ++ w, by simp⟩
        simp [h1] at hbad
        exact UInt8.not_lt.2 hbad
      · exfalso
        -- t2.name is a proper prefix of u' ++ [ch], hence a prefix of u'
        have h3 : t2.name <+: u' := by
          rcases List.prefix_or_prefix_of_prefix hq2 hname2 with h | h
          · exact absurd h hmain
          · rcases prefix_concat_cases _ _ _ h with e | e
            · exact absurd (e ▸ List.prefix_refl _) hmain
            · exact e
        rcases keysNode_cases g skip hnd b _ t2 hkt2 with ⟨_, hk⟩ | ⟨cs2, ht2e, hkc2⟩
        · have : s2 = t2.name := List.append_cancel_left hk
          have hl := hq2.length_le
          have hl3 := h3.length_le
          rw [this] at hl
          simp at hl
          omega
        · have hd2 : (t2.name ++ [slash]) <+: s2 := by
            have := keysList_prefix g skip cs2 _ _ hkc2
            have : b ++ (t2.name ++ [slash]) <+: b ++ s2 := by simpa [List.append_assoc] using this
            exact (List.prefix_append_right_inj b).1 this
          have h4 : (t2.name ++ [slash]) <+: (u' ++ [ch]) :=
            List.prefix_of_prefix_length_le hd2 hq2 (by have := h3.length_le; simp; omega)
          rcases prefix_concat_cases _ _ _ h4 with e | e
          · have h5 := List.append_inj' e (by simp)
            simp at h5
            exact hch h5.2.symm
          · apply hns1
            rw [hn1]
            obtain ⟨r, hr⟩ := e
            rw [← hr]; simp
    · -- Case B: t1.name ++ "/" <+: u': both keys lie below the directory t1
      obtain ⟨u'', hu''⟩ := hB
      have hp2' : (b ++ t1.name ++ [slash]) <+: b ++ s2 := by
        have : (t1.name ++ [slash]) <+: s2 :=
          (show (t1.name ++ [slash]) <+: u' ++ [ch] from ⟨u'' ++ [ch], by rw [← hu'']; simp⟩).trans hq2
        simpa [List.append_assoc] using (List.prefix_append_right_inj b).2 this
      obtain ⟨cs, hf, hk2n⟩ := keys_below g skip b t1.name (b ++ s2) ts hw hk2 hp2' hns1
      have hsame : Tree.dir t1.name cs = t1 :=
        mem_unique_name ts hw _ _ (findChild_some ts _ _ hf).1 ht1 rfl
      have hcs : cs = cs1 := by
        rw [ht1e] at hsame
        injection hsame
      subst hcs
      have hk2c : b ++ s2 ∈ keysList g skip (b ++ t1.name ++ [slash]) cs := by
        rcases keysNode_cases g skip hnd b _ _ hk2n with ⟨h, _⟩ | ⟨cs', he, hk⟩
        · cases h
        · simp only [Tree.name] at he hk
          injection he with _ he
          subst he
          exact hk
      have hwcs : wfList cs = true := by rw [ht1e] at hw1; exact ((wfNode_dir _ _).1 hw1).2
      have hocs : ocList cs = true := by
        have := ocList_mem ts ho t1 ht1
        rw [ht1e] at this
        simpa [ocNode] using this
      apply ih u'' (by
        have := congrArg List.length hu''
        simp at this
        omega) (b ++ t1.name ++ [slash]) cs (b ++ s1) (b ++ s2) ch hwcs hocs hkc1 hk2c _ _ hch
      · rw [← hu''] at hp1; simpa [List.append_assoc] using hp1
      · rw [← hu''] at hp2; simpa [List.append_assoc] using hp2

/-- **no key is a directory on the way to another key** -/
theorem no_clash (g : GetObj) (skip : List Bytes) (hnd : ∀ p : Bytes, g (p ++ [slash]) = none) :
    ∀ (m : Nat) (b : Bytes) (ts : List Tree) (k' k : Bytes), k'.length ≤ b.length + m →
    wfList ts = true → k' ∈ keysList g skip b ts → k ∈ keysList g skip b ts → (k' ++ [slash]) <+: k → False := by
  intro m
  induction m with
  | zero =>
    intro b ts k' k hl hw hk' _ _
    obtain ⟨t, ht, hkt⟩ := keysList_mem g skip b ts k' hk'
    have hne := validName_ne_nil _ (wfNode_validName t (wfList_mem ts hw t ht))
    have := (keysNode_prefix g skip t b k' hkt).length_le
    simp at this
    have : t.name.length = 0 := by omega
    exact hne (List.eq_nil_of_length_eq_zero this)
  | succ m ih =>
    intro b ts k' k hl hw hk' hk hp
    obtain ⟨t, ht, hkt⟩ := keysList_mem g skip b ts k' hk'
    have hwt := wfList_mem ts hw t ht
    have hns := validName_no_slash _ (wfNode_validName t hwt)
    have hne := validName_ne_nil _ (wfNode_validName t hwt)
    rcases keysNode_cases g skip hnd b _ t hkt with ⟨hfile, hke⟩ | ⟨cs', hdir, hkc⟩
    · -- k' is the file t; k would lie below a directory of the same name
      have hp' : (b ++ t.name ++ [slash]) <+: k := by rw [← hke]; exact hp
      obtain ⟨cs, hf, _⟩ := keys_below g skip b t.name k ts hw hk hp' hns
      have := findChild_of_mem ts t hw ht
      rw [hf] at this
      rw [hfile] at this
      cases this
    · have hpre := keysList_prefix g skip cs' _ _ hkc
      have hp' : (b ++ t.name ++ [slash]) <+: k := hpre.trans ((List.prefix_append _ _).trans hp)
      obtain ⟨cs, hf, hkn⟩ := keys_below g skip b t.name k ts hw hk hp' hns
      have hsame : Tree.dir t.name cs = t := mem_unique_name ts hw _ _ (findChild_some ts _ _ hf).1 ht rfl
      have hcs : cs = cs' := by
        rw [hdir] at hsame
        injection hsame
      subst hcs
      have hkc2 : k ∈ keysList g skip (b ++ t.name ++ [slash]) cs := by
        rcases keysNode_cases g skip hnd b _ _ hkn with ⟨h, _⟩ | ⟨cs'', he, hk2⟩
        · cases h
        · simp only [Tree.name] at he hk2
          injection he with _ he
          subst he
          exact hk2
      have hwcs : wfList cs = true := by rw [hdir] at hwt; exact ((wfNode_dir _ _).1 hwt).2
      apply ih (b ++ t.name ++ [slash]) cs k' k _ hwcs hkc hkc2 hp
      have : t.name.length ≥ 1 := by
        cases hn : t.name with
        | nil => exact absurd hn hne
        | cons _ _ => simp
      simp; omega

theorem cut_slash_no_slash (s x : Bytes) (h : cut [slash] s = some x) : slash ∉ x := by
  intro hm
  obtain ⟨y, z, hyz⟩ := List.append_of_mem hm
  obtain ⟨hp, hmin⟩ := cut_some_spec _ _ _ h
  have : (y ++ [slash]) <+: s := by
    refine (show (y ++ [slash]) <+: x ++ [slash] from ⟨z ++ [slash], by rw [hyz]; simp⟩).trans hp
  have := hmin y this
  rw [hyz] at this
  simp at this
  omega

theorem cut_slash_none_no_slash (s : Bytes) (h : cut [slash] s = none) : slash ∉ s := by
  intro hm
  obtain ⟨y, z, hyz⟩ := List.append_of_mem hm
  exact cut_none_spec _ _ h y ⟨z, by rw [hyz]; simp⟩

/-- comparing `P ++ x ++ "/"` with a marker `P ++ x ++ ch :: w`, '/' < ch -/
theorem cp_below_ext (P x w : Bytes) (ch : UInt8) (hlt : slash < ch) :
    ble (P ++ x ++ [slash]) (P ++ x ++ ch :: w) = true ∧
    ((P ++ x ++ [slash]) <+: (P ++ x ++ ch :: w) → P ++ x ++ [slash] = P ++ x ++ ch :: w) := by
  constructor
  · apply ble_of_blt
    rw [blt_append_left]
    simp [blt_cons_cons, hlt]
  · intro hp
    exfalso
    rw [List.prefix_append_right_inj] at hp
    simp only [List.cons_prefix_cons] at hp
    rw [hp.1] at hlt
    exact UInt8.lt_irrefl _ hlt

/-- **a marker the server issued itself is clear of every common prefix** (delimiter "/") -/
theorem serverIssued_markerClear (top : List Tree) (g : GetObj) (skip : List Bytes) (P M : Bytes)
    (hwf : wfList top = true) (hoc : ocList top = true) (hnd : ∀ p : Bytes, g (p ++ [slash]) = none)
    (hsi : serverIssued (keysList g skip [] top) P [slash] M = true) :
    markerClear (keysList g skip [] top) P [slash] M = true := by
  unfold markerClear
  by_cases hM : M = []
  · simp [hM]
  have hM' : (M == []) = false := by simpa using hM
  have hD' : (([slash] : Bytes) == []) = false := by decide
  rw [hM', hD']
  simp only [Bool.false_or, List.all_eq_true]
  -- the key whose entry name the marker is
  unfold serverIssued at hsi
  rw [hM'] at hsi
  simp only [Bool.false_or, List.any_eq_true, Bool.and_eq_true, beq_iff_eq] at hsi
  obtain ⟨k', hk', hPk', hname⟩ := hsi
  obtain ⟨s', rfl⟩ := (isPrefixOf_iff _ _).1 hPk'
  intro k hk
  cases hPk : P.isPrefixOf k with
  | false => rfl
  | true =>
    simp only [Bool.not_true, Bool.false_or]
    obtain ⟨s, rfl⟩ := (isPrefixOf_iff _ _).1 hPk
    simp only [List.drop_left']
    cases hc : cut [slash] s with
    | none => rfl
    | some x =>
      simp only
      cases hpm : (P ++ x).isPrefixOf M with
      | false => rfl
      | true =>
        simp only [Bool.not_true, Bool.false_or]
        have hxs := cut_slash_no_slash s x hc
        obtain ⟨⟨t, ht⟩, _⟩ := cut_some_spec _ _ _ hc
        have hkpre : ([] ++ (P ++ x) ++ [slash]) <+: P ++ s := ⟨t, by rw [← ht]; simp [List.append_assoc]⟩
        have hpm' := (isPrefixOf_iff _ _).1 hpm
        -- it suffices to prove the two facts
        suffices hgoal : ble (P ++ x ++ [slash]) M = true ∧ ((P ++ x ++ [slash]) <+: M → P ++ x ++ [slash] = M) by
          rw [hgoal.1]
          simp only [Bool.true_and, Bool.or_eq_true, Bool.not_eq_true', beq_iff_eq]
          by_cases hp : (P ++ x ++ [slash]) <+: M
          · exact Or.inr (hgoal.2 hp)
          · exact Or.inl ((isPrefixOf_false_iff _ _).2 hp)
        have hslash_ne : ([slash] : Bytes) ≠ [] := by simp
        cases hc' : cut [slash] s' with
        | none =>
          -- the marker is the object key k' = P ++ s', s' without '/'
          have hM2 : M = P ++ s' := by
            rw [← hname, entry_append_none P [slash] s' hc']; rfl
          have hs' := cut_slash_none_no_slash s' hc'
          rw [hM2, List.prefix_append_right_inj] at hpm'
          obtain ⟨w, hw⟩ := hpm'
          cases w with
          | nil =>
            exfalso
            simp at hw
            have hclash : (P ++ s' ++ [slash]) <+: P ++ s := by
              rw [← hw]; simpa using hkpre
            exact no_clash g skip hnd (P ++ s').length [] top (P ++ s') (P ++ s) (by simp) hwf hk' hk hclash
          | cons ch w =>
            have hch : ch ≠ slash := by
              intro e; apply hs'; rw [← hw, e]; simp
            have hk'pre : ([] ++ (P ++ x) ++ [ch]) <+: P ++ s' := ⟨w, by rw [← hw]; simp [List.append_assoc]⟩
            have hnlt := oc_keys g skip hnd (P ++ x).length (P ++ x) (Nat.le_refl _) [] top (P ++ s) (P ++ s') ch
              hwf hoc hk hk' hkpre hk'pre hch
            have hlt : slash < ch := by
              rcases UInt8.lt_or_lt_of_ne hch with h | h
              · exact absurd h hnlt
              · exact h
            rw [hM2, ← hw]
            have := cp_below_ext P x w ch hlt
            simpa [List.append_assoc] using this
        | some x' =>
          have hM2 : M = P ++ x' ++ [slash] := by
            rw [← hname, entry_append_some P [slash] s' x' hslash_ne hc']; rfl
          have hx's := cut_slash_no_slash s' x' hc'
          obtain ⟨⟨t', ht'⟩, _⟩ := cut_some_spec _ _ _ hc'
          rw [hM2, List.append_assoc, List.prefix_append_right_inj] at hpm'
          rcases prefix_concat_cases _ _ _ hpm' with e | e
          · exfalso; apply hxs; rw [e]; simp
          · obtain ⟨w, hw⟩ := e
            cases w with
            | nil =>
              simp at hw
              rw [hM2, hw]
              exact ⟨ble_refl _, fun _ => rfl⟩
            | cons ch w =>
              have hch : ch ≠ slash := by
                intro e; apply hx's; rw [← hw, e]; simp
              have hk'pre : ([] ++ (P ++ x) ++ [ch]) <+: P ++ s' :=
                ⟨w ++ [slash] ++ t', by rw [← ht', ← hw]; simp [List.append_assoc]⟩
              have hnlt := oc_keys g skip hnd (P ++ x).length (P ++ x) (Nat.le_refl _) [] top (P ++ s) (P ++ s') ch
                hwf hoc hk hk' hkpre hk'pre hch
              have hlt : slash < ch := by
                rcases UInt8.lt_or_lt_of_ne hch with h | h
                · exact absurd h hnlt
                · exact h
              rw [hM2, ← hw]
              have := cp_below_ext P x (w ++ [slash]) ch hlt
              simpa [List.append_assoc] using this

end Vgw.Model.Walk
