/-
  Lemmas about Model.Conc, part 11: an acknowledged write has been published (its complete object is
  in the inode table), for the publication strategies of the code as it is; helper lemmas for the
  witnesses of the regression variants.
-/
import Vgw.Lemmas.ConcLin5
namespace Vgw.Model.Conc
open Vgw.Spec.Register

theorem cur_mem {fs : FS} {w : Inode} (h : fs.cur = some w) : w ∈ fs.inodes := by
  unfold FS.cur at h
  cases hk : fs.key with
  | none => rw [hk] at h; cases h
  | some k => rw [hk] at h; exact List.mem_of_getElem? h

/-- a writer past its publication step has its complete object in the inode table. -/
def AckInv (s : State) : Prop :=
  ∀ p ∈ s.reqs, p.1.kind.isWrite = true → passed p.1 p.2 → written p.1 ∈ s.fs.inodes

theorem AckInv_step {c : Cfg} {fs0 : FS} {rqs : List Req} {s s' : State} {i : Nat}
    (g : GInv fs0 rqs s) (L : LInv fs0 rqs s) (A : AckInv s) (h : step c s i = some s') : AckInv s' := by
  obtain ⟨rq, l, a, rest, hr, hp, hfs, hreqs, _⟩ := step_spec h
  obtain ⟨ext, hext⟩ := step_inodes_mono h
  have hmem : (rq, l) ∈ s.reqs := List.mem_of_getElem? hr
  intro p hpm hw hpass
  rw [hreqs] at hpm
  rcases List.mem_or_eq_of_mem_set hpm with hold | rfl
  · rw [hext]; exact List.mem_append_left _ (A p hold hw hpass)
  · have F := facts_writer (c := c) (fs := s.fs) (i := i) (fin := false) hw ((L.kinds _ hmem).1 hw) (g.rinv _ hmem) hp
    rw [← hfs] at F
    cases hlin : isLinEv ⟨i, a, s.fs.key, s'.fs.key, false⟩ with
    | true =>
      have hc := F.cur_lin hlin
      have hop : opOf rq = .write (written rq) := by
        unfold opOf; cases hk : rq.kind <;> simp [hk, Kind.isWrite] at hw <;> rfl
      rw [hop] at hc
      exact cur_mem hc
    | false =>
      have := (F.pass_same hlin).1 hpass
      rw [hext]; exact List.mem_append_left _ (A (rq, l) hmem hw this)

theorem AckInv_reach {c : Cfg} {fs0 : FS} {rqs : List Req} {s : State} (hs : renameOnlyStrat c.strat)
    (hm : c.rmode = .byFd) (h0 : KeyLast fs0) (h : Reach c (init c fs0 rqs) s) :
    AckInv s ∧ LInv fs0 rqs s ∧ FdInv c s ∧ GInv fs0 rqs s := by
  induction h with
  | refl =>
    refine ⟨?_, LInv_init c fs0 rqs hs hm, FdInv_init c fs0 rqs, GInv_init c fs0 rqs h0⟩
    intro p hp hw hpass
    simp only [init, List.mem_map] at hp
    obtain ⟨rq, _, rfl⟩ := hp
    exact absurd hpass (not_passed_init c rq hs hm)
  | step _ hstep ih =>
    obtain ⟨A, L, fd, g⟩ := ih
    exact ⟨AckInv_step g L A hstep, LInv_step hm g fd L hstep, FdInv_step hm g.last fd hstep, GInv_step g hstep⟩

/-! ### helpers for the witnesses about the regression variants -/

theorem reach_run (c : Cfg) (s : State) (sched : List Nat) : Reach c s (run c s sched) := by
  induction sched generalizing s with
  | nil => exact Reach.refl
  | cons i sched ih =>
    simp only [run]
    cases h : step c s i with
    | none => simpa using ih s
    | some s' =>
      simp only [Option.getD_some]
      exact Reach.trans (Reach.step Reach.refl h) (ih s')

/-- with a value in the register and no DELETE, no replay admits an answered read of "missing". -/
theorem accepts_missing_false {V K O : Type} [DecidableEq O] (obs : V → K → O) (es : List (Event V K O)) (st : Option V)
    (hst : st.isSome = true) (hnd : ∀ e ∈ es, e.op ≠ .delete)
    (hm : ∃ e ∈ es, e.ret.isSome = true ∧ (∃ k, e.op = .read k) ∧ e.res = .missing) : accepts obs st es = false := by
  induction es generalizing st with
  | nil => obtain ⟨e, he, _⟩ := hm; cases he
  | cons e es ih =>
    simp only [accepts]
    obtain ⟨e', he', h1, ⟨k, h2⟩, h3⟩ := hm
    rcases List.mem_cons.1 he' with rfl | hin
    · have : admits obs st e'.op e'.res = false := by
        rw [h2, h3]; cases st with
        | none => cases hst
        | some v => rfl
      cases hr : e'.ret with
      | none => rw [hr] at h1; cases h1
      | some r => simp [this]
    · have hnext : (next st e.op).isSome = true := by
        cases hop : e.op with
        | write v => rfl
        | delete => exact absurd hop (hnd e List.mem_cons_self)
        | read k => simpa [next] using hst
      rw [ih (next st e.op) hnext (fun x hx => hnd x (List.mem_cons_of_mem _ hx)) ⟨e', hin, h1, ⟨k, h2⟩, h3⟩]
      simp

/-- with the register always holding one of the values `S` (no DELETE among the operations), no replay
    admits an answered read whose answer is the observation of none of them. -/
theorem accepts_foreign_false {V K O : Type} [DecidableEq O] (obs : V → K → O) (S : List V) (es : List (Event V K O))
    (st : Option V) (hst : ∃ v ∈ S, st = some v)
    (hops : ∀ e ∈ es, e.op ≠ .delete ∧ ∀ v, e.op = .write v → v ∈ S)
    (hm : ∃ e ∈ es, e.ret.isSome = true ∧ ∃ k o, e.op = .read k ∧ e.res = .value o ∧ ∀ v ∈ S, obs v k ≠ o) :
    accepts obs st es = false := by
  induction es generalizing st with
  | nil => obtain ⟨e, he, _⟩ := hm; cases he
  | cons e es ih =>
    simp only [accepts]
    obtain ⟨e', he', h1, k, o, h2, h3, h4⟩ := hm
    rcases List.mem_cons.1 he' with rfl | hin
    · obtain ⟨v, hv, rfl⟩ := hst
      have : admits obs (some v) e'.op e'.res = false := by
        rw [h2, h3]; simp only [admits, Option.map_some, Option.some.injEq, decide_eq_false_iff_not]; exact h4 v hv
      cases hr : e'.ret with
      | none => rw [hr] at h1; cases h1
      | some r => simp [this]
    · have hnext : ∃ v ∈ S, next st e.op = some v := by
        cases hop : e.op with
        | write v => exact ⟨v, (hops e List.mem_cons_self).2 v hop, rfl⟩
        | delete => exact absurd hop (hops e List.mem_cons_self).1
        | read k => simpa [next] using hst
      rw [ih (next st e.op) hnext (fun x hx => hops x (List.mem_cons_of_mem _ hx)) ⟨e', hin, h1, k, o, h2, h3, h4⟩]
      simp

end Vgw.Model.Conc
