/-
  Lemmas about Model.Conc, part 4: a reader whose every step resolves to ONE inode collects exactly
  `observe` of that inode (the sequential GET/HEAD of that object).
-/
import Vgw.Lemmas.ConcRead
namespace Vgw.Model.Conc

/-- one reading step against the fixed inode `ino`. -/
def soloStep (ino : Inode) (l : Local) : Local :=
  match l.prog with
  | [] => l
  | a :: rest => readAct (some ino) { l with prog := rest } a

def soloRun (ino : Inode) : Nat → Local → Local
  | 0, l => l
  | n + 1, l => soloRun ino n (soloStep ino l)

theorem soloRun_add (ino : Inode) (a b : Nat) (l : Local) : soloRun ino (a + b) l = soloRun ino b (soloRun ino a l) := by
  induction a generalizing l with
  | zero => simp [soloRun]
  | succ a ih => rw [Nat.add_right_comm]; simp only [soloRun]; exact ih _

theorem listLen_eq_zero (l : List (Attr × Val)) (h : listLen l = 0) : l = [] := by
  cases l with
  | nil => rfl
  | cons p l =>
    obtain ⟨a, v⟩ := p
    simp only [listLen] at h
    have : a.nameLen > 0 := by cases a <;> simp [Attr.nameLen]
    omega

/-- the getxattr of the listed user-metadata names. -/
theorem solo_getmetas (ino : Inode) (ks : List Nat) (rest : List Act) (l : Local) (hp : l.prog = ks.map .getmeta ++ rest) :
    soloRun ino ks.length l =
      { l with prog := rest, acc := { l.acc with umeta := l.acc.umeta ++ metaOf ino.attrs ks } } := by
  induction ks generalizing l with
  | nil => simp [soloRun, metaOf] at *; cases l; simp_all
  | cons k ks ih =>
    simp only [List.length_cons, soloRun, soloStep, hp, List.map_cons, List.cons_append]
    simp only [readAct, Option.bind_some]
    cases hg : getAttr ino.attrs (.umeta k) with
    | none =>
      simp only [metaOf, hg]
      rw [ih _ rfl]
    | some v =>
      simp only [metaOf, hg]
      rw [ih _ rfl]
      simp [List.append_assoc]

theorem solo_gethdrs (ino : Inode) (as : List Attr) (rest : List Act) (l : Local) (hp : l.prog = as.map .gethdr ++ rest) :
    soloRun ino as.length l =
      { l with prog := rest, acc := { l.acc with hdrs := l.acc.hdrs ++ hdrsOf ino.attrs as } } := by
  induction as generalizing l with
  | nil => simp [soloRun, hdrsOf] at *; cases l; simp_all
  | cons a as ih =>
    simp only [List.length_cons, soloRun, soloStep, hp, List.map_cons, List.cons_append]
    simp only [readAct, Option.bind_some]
    cases hg : getAttr ino.attrs a with
    | none =>
      simp only [hdrsOf, hg]
      rw [ih _ rfl]
    | some v =>
      simp only [hdrsOf, hg]
      rw [ih _ rfl]
      simp [List.append_assoc]


def readTail (head : Bool) : List Act := if head then [.statign, .statign] else [.gettags]

/-- the program of a `byFd` reader after its open. -/
def afterOpen (head : Bool) : List Act := [.rstat] ++ readAttrProg ++ readTail head

/-- what a reader has collected when its program is exhausted: `observe` without the body (which is
    attached from the descriptor when the answer is built). -/
def accOf (ino : Inode) (head : Bool) : ReadResp := { observe ino head with body := none }

theorem solo_tail (ino : Inode) (head : Bool) (l : Local) (hp : l.prog = readTail head) :
    soloRun ino (readTail head).length l =
      { l with prog := [], acc := { l.acc with tags := if head then l.acc.tags else getAttr ino.attrs .tags } } := by
  cases head <;> simp [readTail] at hp ⊢ <;> simp [soloRun, soloStep, hp, readAct]

theorem soloStep_cons (ino : Inode) (l : Local) (a : Act) (rest : List Act) (hp : l.prog = a :: rest) :
    soloStep ino l = readAct (some ino) { l with prog := rest } a := by
  simp [soloStep, hp]

theorem soloRun_succ (ino : Inode) (n : Nat) (l : Local) : soloRun ino (n + 1) l = soloRun ino n (soloStep ino l) := rfl

def hdrProg : List Act := hdrAttrs.map .gethdr

theorem afterOpen_eq (head : Bool) :
    afterOpen head = .rstat :: .listsize :: .listnames :: (hdrProg ++ (.getetag :: readTail head)) := by
  simp [afterOpen, readAttrProg, hdrProg]

theorem dropMeta_afterList (head : Bool) :
    dropMeta (.listnames :: (hdrProg ++ (.getetag :: readTail head))) = .getetag :: readTail head := by
  cases head <;> rfl

theorem solo_eval (ino : Inode) (head : Bool) (l : Local) (hp : l.prog = afterOpen head) (hacc : l.acc = {}) :
    ∃ n, (soloRun ino n l).prog = [] ∧ (soloRun ino n l).acc = accOf ino head ∧
         (soloRun ino n l).result = l.result ∧ (soloRun ino n l).fd = l.fd := by
  rw [afterOpen_eq] at hp
  -- rstat
  have e1 : soloStep ino l = { l with prog := .listsize :: .listnames :: (hdrProg ++ (.getetag :: readTail head)),
                                      acc := { l.acc with size := ino.data.len } } := by
    rw [soloStep_cons _ _ _ _ hp]; rfl
  have hget : ∀ l' : Local, l'.prog = .getetag :: readTail head →
      soloRun ino (1 + (readTail head).length) l' =
        { l' with prog := [],
                  acc := { l'.acc with etag := getAttr ino.attrs .etag,
                                       tags := if head then l'.acc.tags else getAttr ino.attrs .tags } } := by
    intro l' hl'
    rw [soloRun_add]
    have : soloRun ino 1 l' = { l' with prog := readTail head, acc := { l'.acc with etag := getAttr ino.attrs .etag } } := by
      simp only [soloRun, soloStep_cons _ _ _ _ hl']; rfl
    rw [this, solo_tail _ _ _ rfl]
  by_cases h0 : listLen ino.attrs = 0
  · -- no attribute at all: the listing is empty, loadObjectMetaData returns at once
    have hattrs := listLen_eq_zero _ h0
    refine ⟨2 + (1 + (readTail head).length), ?_⟩
    rw [soloRun_add]
    have h2 : soloRun ino 2 l = { l with prog := .getetag :: readTail head, acc := { l.acc with size := ino.data.len } } := by
      simp only [soloRun, e1]
      rw [soloStep_cons _ _ _ _ rfl]
      simp only [readAct, h0, if_true, dropMeta_afterList]
    rw [h2, hget _ rfl]
    cases head <;> simp [hacc, accOf, observe, hattrs, getAttr, metaOf, umetaKeys, hdrsOf, hdrAttrs]
  · refine ⟨3 + ((umetaKeys ino.attrs).length + (hdrAttrs.length + (1 + (readTail head).length))), ?_⟩
    rw [soloRun_add]
    have h3 : soloRun ino 3 l =
        { l with prog := (umetaKeys ino.attrs).map .getmeta ++ (hdrProg ++ (.getetag :: readTail head)),
                 probe := listLen ino.attrs, acc := { l.acc with size := ino.data.len } } := by
      have e2 : ∀ l1 : Local, l1.prog = .listsize :: .listnames :: (hdrProg ++ (.getetag :: readTail head)) →
          soloStep ino l1 = { l1 with prog := .listnames :: (hdrProg ++ (.getetag :: readTail head)), probe := listLen ino.attrs } := by
        intro l1 h1
        rw [soloStep_cons _ _ _ _ h1]
        simp only [readAct, h0, if_false]
      have e3 : ∀ l2 : Local, l2.prog = .listnames :: (hdrProg ++ (.getetag :: readTail head)) → l2.probe = listLen ino.attrs →
          soloStep ino l2 = { l2 with prog := (umetaKeys ino.attrs).map .getmeta ++ (hdrProg ++ (.getetag :: readTail head)) } := by
        intro l2 h2 hpr
        rw [soloStep_cons _ _ _ _ h2]
        have : ¬ (listLen ino.attrs > listLen ino.attrs + 1) := by omega
        simp only [readAct, hpr, this, if_false]
      have s2 := e2 (soloStep ino l) (by rw [e1])
      have s3 := e3 (soloStep ino (soloStep ino l)) (by rw [s2]) (by rw [s2])
      simp only [soloRun]
      rw [s3, s2, e1]
    rw [h3, soloRun_add, solo_getmetas _ _ _ _ rfl, soloRun_add]
    have := solo_gethdrs ino hdrAttrs (.getetag :: readTail head)
    rw [this _ rfl, hget _ rfl]
    cases head <;> simp [hacc, accOf, observe]

end Vgw.Model.Conc
