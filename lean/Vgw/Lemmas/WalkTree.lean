/-
  Tree-level facts: shape of event paths and keys, `events_sorted` (pre-order = ascending paths
  under OrderCompatible), visible events are a sublist of all events.
-/
import Vgw.Lemmas.Walk
namespace Vgw.Model.Walk
open Vgw

/-! ### list-level readings of the Bool predicates -/

theorem wfList_cons (t : Tree) (ts : List Tree) :
    wfList (t :: ts) = true ↔ wfNode t = true ∧ (∀ u ∈ ts, blt t.name u.name = true) ∧ wfList ts = true := by
  simp [wfList, allNames, and_assoc]

theorem wfNode_dir (n : Bytes) (cs : List Tree) : wfNode (.dir n cs) = true ↔ validName n = true ∧ wfList cs = true := by
  simp [wfNode]

theorem wfList_mem : ∀ (ts : List Tree), wfList ts = true → ∀ t ∈ ts, wfNode t = true
  | [], _, _, h => by simp at h
  | u :: us, hw, t, h => by
    have := (wfList_cons u us).1 hw
    rcases List.mem_cons.1 h with rfl | h
    · exact this.1
    · exact wfList_mem us this.2.2 t h

theorem wfNode_validName (t : Tree) (h : wfNode t = true) : validName t.name = true := by
  cases t with
  | file n => simpa [wfNode, Tree.name] using h
  | dir n cs => exact ((wfNode_dir n cs).1 h).1

theorem validName_no_slash (n : Bytes) (h : validName n = true) : slash ∉ n := by
  simp [validName] at h
  exact h.2

theorem validName_ne_nil (n : Bytes) (h : validName n = true) : n ≠ [] := by
  simp [validName, validElem] at h
  exact h.1.1.1

theorem ocList_cons (t : Tree) (ts : List Tree) :
    ocList (t :: ts) = true ↔ ocNode t = true ∧ (t.isDir = true → ∀ u ∈ ts, badExt t.name u.name = false) ∧ ocList ts = true := by
  cases hd : t.isDir <;> simp [ocList, allNames, hd, and_assoc]

/-! ### shape of event paths -/

mutual
theorem eventsNode_prefix : ∀ (t : Tree) (base p : Bytes), p ∈ eventsNode base t →
    (t.isDir = false ∧ p = base ++ t.name) ∨ (t.isDir = true ∧ ∃ r, p = base ++ t.name ++ slash :: r)
  | .file n, base, p, h => by
    simp [eventsNode] at h
    left; exact ⟨rfl, h⟩
  | .dir n cs, base, p, h => by
    right
    refine ⟨rfl, ?_⟩
    simp only [eventsNode, List.mem_cons] at h
    rcases h with rfl | h
    · exact ⟨[], by simp [Tree.name]⟩
    · obtain ⟨r, hr⟩ := eventsList_prefix cs (base ++ n ++ [slash]) p h
      exact ⟨r, by rw [hr]; simp [Tree.name]⟩
theorem eventsList_prefix : ∀ (ts : List Tree) (base p : Bytes), p ∈ eventsList base ts →
    ∃ r, p = base ++ r
  | [], _, _, h => by simp [eventsList] at h
  | t :: ts, base, p, h => by
    simp only [eventsList, List.mem_append] at h
    rcases h with h | h
    · rcases eventsNode_prefix t base p h with ⟨_, hp⟩ | ⟨_, r, hp⟩
      · exact ⟨t.name, hp⟩
      · exact ⟨t.name ++ slash :: r, by rw [hp]; simp⟩
    · exact eventsList_prefix ts base p h
end

theorem eventsList_mem : ∀ (ts : List Tree) (base p : Bytes), p ∈ eventsList base ts →
    ∃ u ∈ ts, p ∈ eventsNode base u
  | [], _, _, h => by simp [eventsList] at h
  | t :: ts, base, p, h => by
    simp only [eventsList, List.mem_append] at h
    rcases h with h | h
    · exact ⟨t, by simp, h⟩
    · obtain ⟨u, hu, hp⟩ := eventsList_mem ts base p h
      exact ⟨u, by simp [hu], hp⟩

/-- the comparison of two sibling subtrees: every event of `t` is below every event of a later
sibling `u` whose name does not extend `t`'s directory name by a byte below '/' -/
theorem sibling_lt (t u : Tree) (base a b : Bytes)
    (hu : validName u.name = true)
    (hlt : blt t.name u.name = true) (hoc : t.isDir = true → badExt t.name u.name = false)
    (ha : a ∈ eventsNode base t) (hb : b ∈ eventsNode base u) : blt a b = true := by
  -- a = base ++ t.name ++ ra, b = base ++ u.name ++ rb with ra, rb empty or starting with '/'
  obtain ⟨ra, hra, hra'⟩ : ∃ ra, a = base ++ (t.name ++ ra) ∧ (ra = [] ∨ (t.isDir = true ∧ ∃ r, ra = slash :: r)) := by
    rcases eventsNode_prefix t base a ha with ⟨_, h⟩ | ⟨hd, r, h⟩
    · exact ⟨[], by simpa using h, Or.inl rfl⟩
    · exact ⟨slash :: r, by rw [h]; simp, Or.inr ⟨hd, r, rfl⟩⟩
  obtain ⟨rb, hrb⟩ : ∃ rb, b = base ++ (u.name ++ rb) := by
    rcases eventsNode_prefix u base b hb with ⟨_, h⟩ | ⟨_, r, h⟩
    · exact ⟨[], by simpa using h⟩
    · exact ⟨slash :: r, by rw [h]; simp⟩
  rw [hra, hrb, blt_append_left]
  by_cases hp : t.name <+: u.name
  · obtain ⟨w, hw⟩ := hp
    have hwne : w ≠ [] := by
      intro h; rw [h] at hw; simp at hw
      exact blt_ne _ _ hlt hw
    rw [← hw, List.append_assoc, blt_append_left]
    cases w with
    | nil => exact absurd rfl hwne
    | cons ch w' =>
      rcases hra' with h | ⟨hd, r, h⟩
      · rw [h]; simp
      · rw [h]
        simp only [List.cons_append]
        rw [blt_cons_cons]
        have hbad := hoc hd
        have hch : ¬ ch < slash := by
          unfold badExt at hbad
          rw [← hw] at hbad
          have h1 : t.name.isPrefixOf (t.name ++ ch :: w') = true := (isPrefixOf_iff _ _).2 (List.prefix_append _ _)
          simp [h1] at hbad
          exact UInt8.not_lt.2 hbad
        have hne : ch ≠ slash := by
          intro he
          apply validName_no_slash _ hu
          rw [← hw, he]; simp
        have : slash < ch := by
          rcases UInt8.lt_or_lt_of_ne hne with h | h
          · exact absurd h hch
          · exact h
        simp [this]
  · exact blt_append_of_not_prefix _ _ hlt hp _ _

/-! ### events_sorted -/

mutual
theorem eventsNode_sorted : ∀ (t : Tree) (base : Bytes), wfNode t = true → ocNode t = true →
    (eventsNode base t).Pairwise (fun a b => blt a b = true)
  | .file n, base, _, _ => by simp [eventsNode]
  | .dir n cs, base, hw, ho => by
    have hw' := (wfNode_dir n cs).1 hw
    have ho' : ocList cs = true := by simpa [ocNode] using ho
    simp only [eventsNode]
    refine List.pairwise_cons.2 ⟨?_, eventsList_sorted cs _ hw'.2 ho'⟩
    intro p hp
    obtain ⟨u, hu, hpu⟩ := eventsList_mem cs _ p hp
    have hune := validName_ne_nil _ (wfNode_validName u (wfList_mem cs hw'.2 u hu))
    apply blt_of_prefix_ne
    · rcases eventsNode_prefix u _ p hpu with ⟨_, h⟩ | ⟨_, r, h⟩
      · exact ⟨u.name, h.symm⟩
      · exact ⟨u.name ++ slash :: r, by rw [h]; simp⟩
    · intro he
      rcases eventsNode_prefix u _ p hpu with ⟨_, h⟩ | ⟨_, r, h⟩
      · rw [← he] at h
        have := congrArg List.length h
        simp at this
        exact hune this
      · rw [← he] at h
        have := congrArg List.length h
        simp at this
theorem eventsList_sorted : ∀ (ts : List Tree) (base : Bytes), wfList ts = true → ocList ts = true →
    (eventsList base ts).Pairwise (fun a b => blt a b = true)
  | [], _, _, _ => by simp [eventsList]
  | t :: ts, base, hw, ho => by
    have hw' := (wfList_cons t ts).1 hw
    have ho' := (ocList_cons t ts).1 ho
    simp only [eventsList]
    rw [List.pairwise_append]
    refine ⟨eventsNode_sorted t base hw'.1 ho'.1, eventsList_sorted ts base hw'.2.2 ho'.2.2, ?_⟩
    intro a ha b hb
    obtain ⟨u, hu, hbu⟩ := eventsList_mem ts base b hb
    exact sibling_lt t u base a b (wfNode_validName u (wfList_mem ts hw'.2.2 u hu))
      (hw'.2.1 u hu) (fun hd => ho'.2.1 hd u hu) ha hbu
end

/-! ### the converse: ascending event paths force order compatibility -/

theorem eventsList_of_mem : ∀ (ts : List Tree) (base : Bytes) (u : Tree), u ∈ ts →
    ∀ p ∈ eventsNode base u, p ∈ eventsList base ts
  | [], _, _, h, _, _ => by simp at h
  | t :: ts, base, u, h, p, hp => by
    simp only [eventsList, List.mem_append]
    rcases List.mem_cons.1 h with rfl | h
    · exact Or.inl hp
    · exact Or.inr (eventsList_of_mem ts base u h p hp)

/-- the node's own event -/
theorem eventsNode_own (base : Bytes) (u : Tree) :
    ∃ r, (r = [] ∨ r = [slash]) ∧ (base ++ u.name ++ r) ∈ eventsNode base u := by
  cases u with
  | file n => exact ⟨[], Or.inl rfl, by simp [eventsNode, Tree.name]⟩
  | dir n cs => exact ⟨[slash], Or.inr rfl, by simp [eventsNode, Tree.name]⟩

mutual
theorem oc_of_eventsNode_sorted : ∀ (t : Tree) (base : Bytes),
    (eventsNode base t).Pairwise (fun a b => blt a b = true) → ocNode t = true
  | .file _, _, _ => by simp [ocNode]
  | .dir n cs, base, h => by
    simp only [eventsNode] at h
    have := oc_of_eventsList_sorted cs _ (List.pairwise_cons.1 h).2
    simpa [ocNode] using this
theorem oc_of_eventsList_sorted : ∀ (ts : List Tree) (base : Bytes),
    (eventsList base ts).Pairwise (fun a b => blt a b = true) → ocList ts = true
  | [], _, _ => by simp [ocList]
  | t :: ts, base, h => by
    simp only [eventsList] at h
    rw [List.pairwise_append] at h
    obtain ⟨h1, h2, hcross⟩ := h
    rw [ocList_cons]
    refine ⟨oc_of_eventsNode_sorted t base h1, ?_, oc_of_eventsList_sorted ts base h2⟩
    intro hd u hu
    cases hb : badExt t.name u.name with
    | false => rfl
    | true =>
      exfalso
      unfold badExt at hb
      simp only [Bool.and_eq_true] at hb
      obtain ⟨hp, hch⟩ := hb
      obtain ⟨w, hw⟩ := (isPrefixOf_iff _ _).1 hp
      rw [← hw] at hch
      simp only [List.drop_left'] at hch
      cases w with
      | nil => simp at hch
      | cons ch w' =>
        simp only [decide_eq_true_eq] at hch
        -- t's own event `base ++ t.name ++ "/"` against u's own event
        have ht : (base ++ t.name ++ [slash]) ∈ eventsNode base t := by
          cases t with
          | file n => simp [Tree.isDir] at hd
          | dir n cs => simp [eventsNode, Tree.name]
        obtain ⟨r, _, hr⟩ := eventsNode_own base u
        have := hcross _ ht _ (eventsList_of_mem ts base u hu _ hr)
        rw [← hw] at this
        have e : base ++ (t.name ++ ch :: w') ++ r = base ++ t.name ++ (ch :: (w' ++ r)) := by simp
        rw [e, blt_append_left, blt_cons_cons] at this
        have h1 : ¬ slash < ch := UInt8.lt_asymm hch
        have h2 : slash ≠ ch := fun e => by rw [e] at hch; exact UInt8.lt_irrefl _ hch
        simp [h1, h2] at this
end

end Vgw.Model.Walk
