/-
  Lemmas for C14: the Go `strings` shim in declarative terms, the matchers of Model.Policy against
  Spec.Policy, and the deny-overrides reading of the `isAllowed` loop.
-/
import Vgw.Lemmas.Glob
import Vgw.Spec.Policy
namespace Vgw.Lemmas.Policy
open Vgw Vgw.Go.Strings Vgw.Model.Policy Vgw.Spec.Policy

/-! ### the `strings` shim -/

theorem hasPrefix_iff (s pre : Bytes) : hasPrefix s pre = true ↔ pre <+: s :=
  List.isPrefixOf_iff_prefix

theorem hasSuffix_star_iff (a : Bytes) : hasSuffix a starLit = true ↔ EndsInStar a := by
  unfold hasSuffix EndsInStar starLit
  rw [List.isSuffixOf_iff_suffix, List.getLast?_eq_some_iff]
  constructor
  · rintro ⟨t, ht⟩; exact ⟨t, ht.symm⟩
  · rintro ⟨t, ht⟩; exact ⟨t, ht.symm⟩

theorem trimSuffix_star (a : Bytes) (h : EndsInStar a) : trimSuffix a starLit = a.dropLast := by
  have hs := (hasSuffix_star_iff a).2 h
  obtain ⟨ys, rfl⟩ := List.getLast?_eq_some_iff.1 h
  unfold hasSuffix at hs
  unfold trimSuffix
  rw [if_pos hs, List.dropLast_concat]
  simp [starLit]

theorem trimPrefix_append (pre rest : Bytes) : trimPrefix (pre ++ rest) pre = rest := by
  unfold trimPrefix
  have : pre.isPrefixOf (pre ++ rest) = true := List.isPrefixOf_iff_prefix.2 (List.prefix_append _ _)
  rw [if_pos this]; simp

theorem containsByte_iff (s : Bytes) (c : UInt8) : containsByte s c = true ↔ c ∈ s := by
  unfold containsByte; exact List.contains_iff_mem

theorem allow_ne_deny : allowLit ≠ denyLit := by decide

/-! ### matchers -/

theorem wildCard_iff (a act : Bytes) :
    (hasSuffix a starLit && wildCardMatch a act) = true ↔ (EndsInStar a ∧ a.dropLast <+: act) := by
  unfold wildCardMatch
  by_cases h : hasSuffix a starLit = true
  · have he := (hasSuffix_star_iff a).1 h
    rw [h, if_pos rfl, Bool.true_and, trimSuffix_star a he, hasPrefix_iff]
    exact ⟨fun hp => ⟨he, hp⟩, fun hp => hp.2⟩
  · have hne : ¬ EndsInStar a := fun he => h ((hasSuffix_star_iff a).2 he)
    simp only [Bool.not_eq_true] at h
    rw [h]; simp [hne]

theorem actions_iff (st : Stmt) (act : Bytes) :
    actionsFindMatch st.actions act = true ↔ ActionHit st act := by
  unfold actionsFindMatch ActionHit
  by_cases h1 : allActions ∈ st.actions
  · simp [h1]
  · by_cases h2 : act ∈ st.actions
    · simp [h2]
    · have c1 : st.actions.contains allActions = false := by
        simpa [List.contains_iff_mem] using h1
      have c2 : st.actions.contains act = false := by
        simpa [List.contains_iff_mem] using h2
      rw [c1, c2]
      simp only [Bool.false_eq_true, if_false, h1, h2, false_or, List.any_eq_true]
      constructor
      · rintro ⟨a, ha, hw⟩; exact ⟨a, ha, (wildCard_iff a act).1 hw⟩
      · rintro ⟨a, ha, hw⟩; exact ⟨a, ha, (wildCard_iff a act).2 hw⟩

theorem principals_iff (st : Stmt) (who : Bytes) :
    principalsContains st.principals who = true ↔ PrincipalHit st who := by
  unfold principalsContains PrincipalHit
  by_cases h1 : starLit ∈ st.principals
  · simp [h1]
  · have c1 : st.principals.contains starLit = false := by
      simpa [List.contains_iff_mem] using h1
    rw [c1]; simp [h1]

/-! ### the `isAllowed` loop is deny-overrides, for any hit predicate -/

theorem loop_iff (who act res : Bytes) (pol : List Stmt) (acc : Bool) :
    isAllowedLoop who act res pol acc = true ↔
      ((acc = true ∨ ∃ st ∈ pol, st.effect = allowLit ∧ stmtFindMatch st who act res = true) ∧
        ¬ ∃ st ∈ pol, st.effect = denyLit ∧ stmtFindMatch st who act res = true) := by
  induction pol generalizing acc with
  | nil => simp [isAllowedLoop]
  | cons st rest ih =>
    rw [isAllowedLoop]
    by_cases hm : stmtFindMatch st who act res = true
    · rw [if_pos hm]
      by_cases ha : st.effect = allowLit
      · have hd : st.effect ≠ denyLit := by rw [ha]; exact allow_ne_deny
        rw [if_pos ha, ih]
        simp [ha, hm, allow_ne_deny]
      · rw [if_neg ha]
        by_cases hd : st.effect = denyLit
        · rw [if_pos hd]
          simp [hd, hm]
        · rw [if_neg hd, ih]
          simp [ha, hd]
    · rw [if_neg hm, ih]
      simp [hm]

end Vgw.Lemmas.Policy
