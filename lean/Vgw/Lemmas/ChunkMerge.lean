/-
  Fragmentation independence of Model.ChunkSigned (the reader as of /repo cf70120):
  delivering `f` and then `g` to two successive `Read`s gives the same run as delivering `f ++ g`
  to one `Read` — for ARBITRARY bytes, valid or not — as long as the 1024-byte limit on a stashed
  partial header does not strike.
-/
import Vgw.Lemmas.ChunkParse
namespace Vgw.Lemmas.ChunkMerge
open Vgw Vgw.Model Vgw.Model.ChunkSigned Vgw.Lemmas.ChunkParse

abbrev Res := State × Out

def setC (c : Int) (st : State) : State := { st with chunkDataLeft := c }
def setE (e : Bool) (st : State) : State := { st with isEOF := e }

/-- same bytes and error value; same state when the run goes on -/
def REq (r r' : Res) : Prop := r.2 = r'.2 ∧ (r.2.status = .nil → r.1 = r'.1)

theorem REq.refl (r : Res) : REq r r := ⟨rfl, fun _ => rfl⟩
theorem REq.symm {r r' : Res} (h : REq r r') : REq r' r := ⟨h.1.symm, fun hs => (h.2 (h.1 ▸ hs)).symm⟩
theorem REq.trans {a b c : Res} (h1 : REq a b) (h2 : REq b c) : REq a c :=
  ⟨h1.1.trans h2.1, fun hs => (h1.2 hs).trans (h2.2 (h1.1 ▸ hs))⟩

/-- what `runFrom` does with the result of a `Read` -/
def tail (cfg : Cfg) (r : Res) (ds : List (Bytes × Bool)) (acc : Bytes) : Bytes × Status :=
  match r.2.status with
  | .nil => runFrom cfg r.1 ds (acc ++ r.2.out)
  | .panic => ([], .panic)
  | .fuel => ([], .fuel)
  | s => (acc ++ r.2.out, s)

theorem runFrom_cons (cfg : Cfg) (st : State) (f : Bytes) (e : Bool) (ds : List (Bytes × Bool)) (acc : Bytes) :
    runFrom cfg st ((f, e) :: ds) acc = tail cfg (read cfg st f e f.length) ds acc := by
  rw [runFrom]
  unfold tail
  generalize ChunkSigned.read cfg st f e f.length = r
  obtain ⟨st', o⟩ := r
  cases hs : o.status <;> simp [hs]

theorem tail_congr (cfg : Cfg) {r r' : Res} (h : REq r r') (ds : List (Bytes × Bool)) (acc : Bytes) :
    tail cfg r ds acc = tail cfg r' ds acc := by
  obtain ⟨h1, h2⟩ := h
  unfold tail
  rw [← h1]
  split
  · rename_i hs; rw [h2 hs]
  · rfl
  · rfl
  · rfl

theorem prepend_congr {r r' : Res} (h : REq r r') (d : Bytes) : REq (prepend d r) (prepend d r') := by
  obtain ⟨h1, h2⟩ := h
  unfold prepend
  rw [← h1]
  split
  · exact ⟨rfl, by simp⟩
  · exact ⟨rfl, by simp⟩
  · rename_i s hp hf
    refine ⟨rfl, ?_⟩
    intro hs
    simp only at hs
    exact h2 hs

theorem prepend_prepend (d d' : Bytes) (r : Res) : prepend d (prepend d' r) = prepend (d ++ d') r := by
  unfold prepend
  cases r.2.status <;> simp

theorem tail_prepend (cfg : Cfg) (d : Bytes) (r : Res) (ds : List (Bytes × Bool)) (acc : Bytes) :
    tail cfg (prepend d r) ds acc = tail cfg r ds (acc ++ d) := by
  unfold tail prepend
  cases hs : r.2.status <;> simp

theorem prepend_nil (r : Res) (h1 : r.2.status ≠ .panic) (h2 : r.2.status ≠ .fuel) : prepend [] r = r := by
  unfold prepend
  cases hs : r.2.status <;> simp_all
  all_goals (cases r; rename_i st o; cases o; simp_all)

/-! ### `chunkDataLeft` on entry is irrelevant to `parseAndRemoveChunkInfo` -/

theorem hdr_setC (cfg : Cfg) (c : Int) (st : State) (p : Bytes) :
    parseChunkHeaderBytes cfg (setC c st) p =
      (setC c (parseChunkHeaderBytes cfg st p).1, (parseChunkHeaderBytes cfg st p).2) := by
  unfold parseChunkHeaderBytes setC
  simp only
  split
  · rfl
  · split
    · rename_i e _
      cases e <;> simp [handleRdrErr] <;> split <;> simp
    · rfl
    · split <;> (try split) <;> rfl

theorem checkSignature_setC (cfg : Cfg) (c : Int) (st : State) :
    checkSignature cfg (setC c st) = (checkSignature cfg st).map (setC c) := by
  unfold checkSignature setC chunkStringToSign
  simp only
  split <;> simp [Except.map]

theorem verifyChecksum_setC (cfg : Cfg) (c : Int) (st : State) :
    verifyChecksum cfg (setC c st) = verifyChecksum cfg st := rfl

theorem verifyTrailer_setC (cfg : Cfg) (c : Int) (st : State) :
    verifyTrailerSignature cfg (setC c st) = verifyTrailerSignature cfg st := rfl

theorem finalChunk_out_setC (cfg : Cfg) (c : Int) (st : State) :
    (finalChunk cfg (setC c st)).2 = (finalChunk cfg st).2 := by
  unfold finalChunk
  simp only
  have e : ({ setC c st with chunkAcc := [] } : State) = setC c { st with chunkAcc := [] } := by simp [setC]
  rw [e, checkSignature_setC]
  cases checkSignature cfg { st with chunkAcc := [] } with
  | error e => simp [Except.map]
  | ok st' =>
    simp only [Except.map, verifyChecksum_setC, verifyTrailer_setC]
    split
    · cases verifyChecksum cfg st' with
      | error e => simp
      | ok _ =>
        simp only
        cases verifyTrailerSignature cfg st' <;> simp
    · simp

theorem finalChunk_not_nil (cfg : Cfg) (st : State) : (finalChunk cfg st).2.status ≠ .nil := by
  unfold finalChunk
  simp only
  cases checkSignature cfg { st with chunkAcc := [] } with
  | error e => simp
  | ok st' =>
    simp only
    split
    · cases verifyChecksum cfg st' with
      | error e => simp
      | ok _ =>
        simp only
        cases verifyTrailerSignature cfg st' <;> simp
    · simp

theorem parBody_setC (cfg : Cfg) (K : State → Bytes → Res) (c : Int) (st : State) (p : Bytes) :
    REq (parBody cfg K (setC c st) p) (parBody cfg K st p) := by
  unfold parBody
  rw [hdr_setC]
  generalize parseChunkHeaderBytes cfg st p = r
  obtain ⟨st2, res⟩ := r
  cases res with
  | skip => exact ⟨rfl, fun _ => by simp [setC]⟩
  | fail e => exact ⟨rfl, fun h => by simp at h⟩
  | chunk size sig off =>
    simp only
    split
    · exact ⟨rfl, fun h => by simp at h⟩
    split
    · have h1 := finalChunk_out_setC cfg c { st2 with parsedSig := sig }
      have h2 := finalChunk_not_nil cfg { st2 with parsedSig := sig }
      have e : ({ setC c st2 with parsedSig := sig } : State) = setC c { st2 with parsedSig := sig } := by simp [setC]
      rw [e]
      exact ⟨h1, fun h => absurd (h1 ▸ h) h2⟩
    · split
      · exact ⟨rfl, fun h => by simp at h⟩
      · split
        · split
          · exact ⟨rfl, fun h => by simp at h⟩
          · have e : ({ ({ setC c st2 with parsedSig := sig } : State) with chunkDataLeft := 0 } : State) =
                { ({ st2 with parsedSig := sig } : State) with chunkDataLeft := 0 } := by simp [setC]
            rw [e]; exact REq.refl _
        · have e : ∀ x : Int, ({ ({ setC c st2 with parsedSig := sig } : State) with chunkDataLeft := x } : State) =
              { ({ st2 with parsedSig := sig } : State) with chunkDataLeft := x } := by intro x; simp [setC]
          rw [e]; exact REq.refl _

theorem parStep_setC (cfg : Cfg) (K : State → Bytes → Res) (c : Int) (st : State) (p : Bytes) :
    REq (parStep cfg K (setC c st) p) (parStep cfg K st p) := by
  unfold parStep
  simp only [show (setC c st).parsedSig = st.parsedSig from rfl]
  by_cases hp : st.parsedSig ≠ []
  · rw [if_pos hp, if_pos hp, checkSignature_setC]
    cases checkSignature cfg st with
    | error e => exact ⟨rfl, fun h => by simp [Except.map] at h⟩
    | ok st' => simpa [Except.map] using parBody_setC cfg K c st' p
  · rw [if_neg hp, if_neg hp]
    exact parBody_setC cfg K c st p

/-! ### the recursion is on a strictly shorter buffer: fuel is irrelevant, output is bounded -/

theorem parBody_congr (cfg : Cfg) (K K' : State → Bytes → Res) (st : State) (p : Bytes)
    (h : ∀ st' p', p'.length < p.length → K st' p' = K' st' p') : parBody cfg K st p = parBody cfg K' st p := by
  unfold parBody
  generalize parseChunkHeaderBytes cfg st p = r
  obtain ⟨st2, res⟩ := r
  cases res with
  | skip => rfl
  | fail e => rfl
  | chunk size sig off =>
    simp only
    split
    · rfl
    split
    · rfl
    · rename_i hz
      split
      · rfl
      · rename_i hoff
        split
        · rename_i hgt
          split
          · rfl
          · rename_i hneg
            rw [h]
            simp only [List.length_drop] at hgt ⊢
            have : size ≠ 0 := by simpa using hz
            omega
        · rfl

theorem parStep_congr (cfg : Cfg) (K K' : State → Bytes → Res) (st : State) (p : Bytes)
    (h : ∀ st' p', p'.length < p.length → K st' p' = K' st' p') : parStep cfg K st p = parStep cfg K' st p := by
  unfold parStep
  simp only
  split
  · rfl
  · exact parBody_congr cfg K K' _ p h

theorem par_fuel (cfg : Cfg) : ∀ (f1 f2 : Nat) (st : State) (p : Bytes), p.length < f1 → p.length < f2 →
    parseAndRemove cfg f1 st p = parseAndRemove cfg f2 st p := by
  intro f1
  induction f1 with
  | zero => intro f2 st p h; omega
  | succ f1 ih =>
    intro f2 st p h1 h2
    obtain ⟨f2, rfl⟩ : ∃ f, f2 = f + 1 := ⟨f2 - 1, by omega⟩
    rw [parseAndRemove, parseAndRemove]
    exact parStep_congr cfg _ _ st p (fun st' p' hp => ih f2 st' p' (by omega) (by omega))

theorem finalChunk_out (cfg : Cfg) (st : State) : (finalChunk cfg st).2.out = [] := by
  unfold finalChunk
  simp only
  cases checkSignature cfg { st with chunkAcc := [] } with
  | error e => simp
  | ok st' =>
    simp only
    split
    · cases verifyChecksum cfg st' with
      | error e => simp
      | ok _ =>
        simp only
        cases verifyTrailerSignature cfg st' <;> simp
    · simp

theorem joinRec_out_le (c : Int) (d : Bytes) (r : Res) : (joinRec c d r).2.out.length ≤ d.length + r.2.out.length := by
  unfold joinRec
  split
  · simp
  · simp
  · split <;> simp

theorem parBody_out_le (cfg : Cfg) (K : State → Bytes → Res) (st : State) (p : Bytes)
    (h : ∀ st' p', (K st' p').2.out.length ≤ p'.length) : (parBody cfg K st p).2.out.length ≤ p.length := by
  unfold parBody
  generalize parseChunkHeaderBytes cfg st p = r
  obtain ⟨st2, res⟩ := r
  cases res with
  | skip => simp
  | fail e => simp
  | chunk size sig off =>
    simp only
    split
    · simp
    split
    · rw [finalChunk_out]; simp
    · split
      · simp
      · split
        · split
          · simp
          · rename_i hneg
            refine Nat.le_trans (joinRec_out_le _ _ _) ?_
            have := h (hashWrite cfg { ({ st2 with parsedSig := sig } : State) with chunkDataLeft := 0 }
              ((p.drop off.toNat).take size.toNat)) ((p.drop off.toNat).drop size.toNat)
            simp only [List.length_drop, List.length_take] at this ⊢
            omega
        · simp

theorem par_out_le (cfg : Cfg) : ∀ (f : Nat) (st : State) (p : Bytes), (parseAndRemove cfg f st p).2.out.length ≤ p.length := by
  intro f
  induction f with
  | zero => intro st p; simp [parseAndRemove]
  | succ f ih =>
    intro st p
    rw [parseAndRemove]
    unfold parStep
    simp only
    split
    · simp
    · exact parBody_out_le cfg _ _ p ih

/-! ### `isEOF` only matters when the header parser runs out of input -/

theorem checkSignature_setE (cfg : Cfg) (e : Bool) (st : State) :
    checkSignature cfg (setE e st) = (checkSignature cfg st).map (setE e) := by
  unfold checkSignature setE chunkStringToSign
  simp only
  split <;> simp [Except.map]

theorem finalChunk_out_setE (cfg : Cfg) (e : Bool) (st : State) :
    (finalChunk cfg (setE e st)).2 = (finalChunk cfg st).2 := by
  unfold finalChunk
  simp only
  have h : ({ setE e st with chunkAcc := [] } : State) = setE e { st with chunkAcc := [] } := by simp [setE]
  rw [h, checkSignature_setE]
  cases checkSignature cfg { st with chunkAcc := [] } with
  | error x => simp [Except.map]
  | ok st' =>
    simp only [Except.map, show verifyChecksum cfg (setE e st') = verifyChecksum cfg st' from rfl,
      show verifyTrailerSignature cfg (setE e st') = verifyTrailerSignature cfg st' from rfl]
    split
    · cases verifyChecksum cfg st' with
      | error x => simp
      | ok _ =>
        simp only
        cases verifyTrailerSignature cfg st' <;> simp
    · simp

/-- the header in `stash ++ q` is complete, or definitely bad: more input and the EOF flag change nothing -/
theorem hdr_decided (cfg : Cfg) (e : Bool) (st : State) (q g : Bytes)
    (hne : parseHeader cfg st.isFirstHeader (st.stash ++ q) ≠ .error (.rd .eof)) :
    parseChunkHeaderBytes cfg (setE e st) (q ++ g) =
      (setE e (parseChunkHeaderBytes cfg st q).1, (parseChunkHeaderBytes cfg st q).2) ∧
    (∀ size sig off, (parseChunkHeaderBytes cfg st q).2 = .chunk size sig off → size ≠ 0 → off ≤ (q.length : Int)) ∧
    (parseChunkHeaderBytes cfg st q).2 ≠ .skip := by
  unfold parseChunkHeaderBytes
  simp only [show (setE e st).stash = st.stash from rfl, show (setE e st).isFirstHeader = st.isFirstHeader from rfl]
  by_cases hlen : st.stash.length > maxHeaderSize
  · simp [hlen, setE]
  · simp only [hlen, if_false]
    cases hp : parseHeader cfg st.isFirstHeader (st.stash ++ q) with
    | error pe =>
      have hd : Definite pe := by
        cases pe with
        | rd x => cases x with
          | eof => exact absurd hp hne
          | mismatch => trivial
        | fail x => trivial
      have h2 := parseHeader_fwd_err cfg st.isFirstHeader (st.stash ++ q) g pe hd hp
      rw [List.append_assoc] at h2
      rw [← List.append_assoc, List.append_assoc, h2]
      cases pe with
      | rd x => cases x with
        | eof => exact absurd hp hne
        | mismatch => simp [handleRdrErr, setE]
      | fail x => simp [setE]
    | ok rr =>
      obtain ⟨r, rest⟩ := rr
      have h2 := parseHeader_fwd_ok cfg st.isFirstHeader (st.stash ++ q) g r rest hp
      rw [List.append_assoc] at h2
      rw [h2]
      obtain ⟨C, hC, _, _, hidx⟩ := parseHeader_shape cfg _ _ r rest hp
      obtain ⟨C2, hC2, _, _, hidx2⟩ := parseHeader_shape cfg _ _ r (rest ++ g) h2
      simp only
      by_cases hz : r.chunkSize = 0
      · simp only [hz, if_true]
        refine ⟨?_, ?_, ?_⟩
        · split <;> simp [setE]
        · intro size sig off h; simp at h; intro hs; exact absurd h.1.symm hs
        · simp
      · simp only [hz, if_false]
        have i1 := hidx hz
        have i2 := hidx2 hz
        have l1 := congrArg List.length hC
        have l2 := congrArg List.length hC2
        simp only [List.length_append] at l1 l2
        have hsk : (if st.isFirstHeader = true then 0 else 2) = skipOf st.isFirstHeader := rfl
        refine ⟨?_, ?_, by simp⟩
        · simp only [setE, Prod.mk.injEq, HdrRes.chunk.injEq, true_and]
          simp only [hsk]
          omega
        · intro size sig off h _
          simp only [HdrRes.chunk.injEq] at h
          obtain ⟨_, _, rfl⟩ := h
          simp only [hsk]
          omega

/-- the header in `stash ++ q` is incomplete and the stream goes on: everything is stashed -/
theorem hdr_needMore (cfg : Cfg) (st : State) (q : Bytes) (hlen : st.stash.length ≤ maxHeaderSize)
    (he : st.isEOF = false) (hp : parseHeader cfg st.isFirstHeader (st.stash ++ q) = .error (.rd .eof)) :
    parseChunkHeaderBytes cfg st q = ({ st with stash := st.stash ++ q }, .skip) := by
  unfold parseChunkHeaderBytes
  have : ¬ st.stash.length > maxHeaderSize := by omega
  simp [this, hp, handleRdrErr, he]

/-- **stash shift**: bytes that could not be parsed yet may equally well sit in the stash or in
front of the next fragment -/
theorem parBody_stash_shift (cfg : Cfg) (K : State → Bytes → Res) (st : State) (S q g : Bytes)
    (hlen : (S ++ q).length ≤ maxHeaderSize)
    (hp : parseHeader cfg st.isFirstHeader (S ++ q) = .error (.rd .eof)) :
    parBody cfg K { st with stash := S ++ q } g = parBody cfg K { st with stash := S } (q ++ g) := by
  have hl1 : ¬ (S ++ q).length > maxHeaderSize := by omega
  have hl2 : ¬ S.length > maxHeaderSize := by simp only [List.length_append] at hlen; omega
  unfold parBody parseChunkHeaderBytes
  simp only [hl1, hl2, if_false, List.append_assoc]
  cases hp2 : parseHeader cfg st.isFirstHeader (S ++ (q ++ g)) with
  | error pe =>
    cases pe with
    | rd x =>
      cases x with
      | eof => by_cases he : st.isEOF = true <;> simp [handleRdrErr, he]
      | mismatch => simp [handleRdrErr]
    | fail x => simp
  | ok rr =>
    obtain ⟨r, rest⟩ := rr
    simp only
    by_cases hz : r.chunkSize = 0
    · simp [hz]
    · simp only [hz, if_false]
      have hlt := parseHeader_needMore_then_ok cfg st.isFirstHeader (S ++ q) g r rest hp (by rw [List.append_assoc]; exact hp2)
      obtain ⟨C, hC, _, h0, hidx⟩ := parseHeader_shape cfg _ _ r rest hp2
      have i1 := hidx hz
      have l1 := congrArg List.length hC
      simp only [List.length_append] at l1
      have hsk : (if st.isFirstHeader = true then 0 else 2) = skipOf st.isFirstHeader := rfl
      simp only [hsk]
      generalize hoff : indexCRLF (List.drop (skipOf st.isFirstHeader) (S ++ (q ++ g))) + ↑(skipOf st.isFirstHeader) + 2 = cc at i1 ⊢
      have hz' : ¬ ((r.chunkSize == 0) = true) := by simpa using hz
      simp only [hz', List.length_append, Int.natCast_add]
      have c1 : (cc - ((S.length : Int) + (q.length : Int)) < 0 ∨ (g.length : Int) < cc - ((S.length : Int) + (q.length : Int))) ↔
          (cc - (S.length : Int) < 0 ∨ (q.length : Int) + (g.length : Int) < cc - (S.length : Int)) := by omega
      have c2 : List.drop (cc - (S.length : Int)).toNat (q ++ g) = List.drop (cc - ((S.length : Int) + (q.length : Int))).toNat g := by
        have : (cc - (S.length : Int)).toNat = q.length + (cc - ((S.length : Int) + (q.length : Int))).toNat := by omega
        rw [this, List.drop_append]
        simp
      simp only [c1, c2]

/-! ### small facts about the pieces of `Read` -/

theorem checked_facts (cfg : Cfg) (st stc : State)
    (h : (if st.parsedSig ≠ [] then checkSignature cfg st else .ok st) = .ok stc) :
    stc.parsedSig = [] ∧ stc.stash = st.stash ∧ stc.isFirstHeader = st.isFirstHeader ∧ stc.isEOF = st.isEOF := by
  by_cases hp : st.parsedSig ≠ []
  · rw [if_pos hp] at h
    unfold checkSignature at h
    simp only at h
    split at h
    · simp at h
    · simp at h; subst h; simp
  · rw [if_neg hp] at h
    simp at h; subst h
    simp at hp
    simp [hp]

theorem checked_setE (cfg : Cfg) (e : Bool) (st : State) :
    (if (setE e st).parsedSig ≠ [] then checkSignature cfg (setE e st) else .ok (setE e st)) =
      (if st.parsedSig ≠ [] then checkSignature cfg st else .ok st).map (setE e) := by
  simp only [show (setE e st).parsedSig = st.parsedSig from rfl]
  by_cases hp : st.parsedSig ≠ []
  · rw [if_pos hp, if_pos hp, checkSignature_setE]
  · rw [if_neg hp, if_neg hp]; rfl

theorem hdr_fields (cfg : Cfg) (st : State) (p : Bytes) :
    (parseChunkHeaderBytes cfg st p).1.isEOF = st.isEOF ∧
    ((parseChunkHeaderBytes cfg st p).2 ≠ .skip → (parseChunkHeaderBytes cfg st p).1.stash = [] ∨
      (parseChunkHeaderBytes cfg st p).1.stash = st.stash) := by
  unfold parseChunkHeaderBytes
  simp only
  split
  · simp
  · split
    · rename_i x _
      cases x <;> simp [handleRdrErr] <;> split <;> simp
    · simp
    · split <;> (try split) <;> simp

theorem joinRec_eq_prepend (c : Int) (d : Bytes) (r : Res) (h : ¬ (c + (r.2.out.length : Int) > intMax)) :
    joinRec c d r = prepend d r := by
  unfold joinRec prepend
  cases hs : r.2.status <;> simp [h]

theorem read_data (cfg : Cfg) (st : State) (g : Bytes) (e : Bool) (cap : Nat) (h : (g.length : Int) ≤ st.chunkDataLeft) :
    read cfg st g e cap =
      (hashWrite cfg { setE e st with chunkDataLeft := st.chunkDataLeft - g.length } g,
        ⟨g, if e then .err .unexpectedEOF else .nil⟩) := by
  unfold ChunkSigned.read
  have : ¬ (st.chunkDataLeft < (g.length : Int)) := by omega
  simp [this, setE]

theorem read_hdr (cfg : Cfg) (st : State) (g : Bytes) (e : Bool) (cap : Nat) (h0 : 0 ≤ st.chunkDataLeft)
    (h : st.chunkDataLeft < (g.length : Int)) :
    read cfg st g e cap =
      prepend (g.take st.chunkDataLeft.toNat)
        (parseAndRemove cfg (g.length + 1)
          (if st.chunkDataLeft > 0 then hashWrite cfg (setE e st) (g.take st.chunkDataLeft.toNat) else setE e st)
          (g.drop st.chunkDataLeft.toNat)) := by
  unfold ChunkSigned.read
  have : ¬ (st.chunkDataLeft < 0) := by omega
  simp [h, this, setE]

theorem tail_not_nil (cfg : Cfg) (r r' : Res) (ds ds' : List (Bytes × Bool)) (acc : Bytes) (h : r.2 = r'.2)
    (hn : r.2.status ≠ .nil) : tail cfg r ds acc = tail cfg r' ds' acc := by
  unfold tail
  rw [← h]
  cases hs : r.2.status <;> simp_all

/-! ### the part of `parseAndRemoveChunkInfo` behind a data-chunk header -/

/-- `copy(p, p[bufOffset:n])` and what follows, for a chunk of `size ≠ 0`; `sL` = the state with the
new `parsedSig` -/
def cont (cfg : Cfg) (K : State → Bytes → Res) (sL : State) (size off : Int) (p : Bytes) : Res :=
  if off < 0 ∨ (p.length : Int) < off then (sL, ⟨[], .panic⟩) else
  let data := p.drop off.toNat
  if (data.length : Int) > size then
    if size < 0 then (sL, ⟨[], .panic⟩) else
    let d := data.take size.toNat
    joinRec size d (K (hashWrite cfg { sL with chunkDataLeft := 0 } d) (data.drop size.toNat))
  else
    (hashWrite cfg { sL with chunkDataLeft := size - data.length } data, ⟨data, .nil⟩)

theorem parBody_chunk (cfg : Cfg) (K : State → Bytes → Res) (st st2 : State) (p sig : Bytes) (size off : Int)
    (h : parseChunkHeaderBytes cfg st p = (st2, .chunk size sig off)) (hsig : sig ≠ []) (hz : size ≠ 0) :
    parBody cfg K st p = cont cfg K { st2 with parsedSig := sig } size off p := by
  unfold parBody cont
  rw [h]
  have : ¬ ((size == 0) = true) := by simpa using hz
  simp only [this, if_neg hsig]
  rfl

/-- a chunk header with an empty signature value is refused (repo fix 7242bc4) -/
theorem parBody_nosig (cfg : Cfg) (K : State → Bytes → Res) (st st2 : State) (p : Bytes) (size off : Int)
    (h : parseChunkHeaderBytes cfg st p = (st2, .chunk size [] off)) :
    parBody cfg K st p = (st2, ⟨[], .err .sigMismatch⟩) := by
  unfold parBody
  rw [h]
  simp

theorem parBody_final (cfg : Cfg) (K : State → Bytes → Res) (st st2 : State) (p sig : Bytes) (off : Int)
    (h : parseChunkHeaderBytes cfg st p = (st2, .chunk 0 sig off)) (hsig : sig ≠ []) :
    parBody cfg K st p = finalChunk cfg { st2 with parsedSig := sig } := by
  unfold parBody
  rw [h]
  simp only [if_neg hsig]
  rfl

theorem hashWrite_setE (cfg : Cfg) (e : Bool) (st : State) (d : Bytes) :
    hashWrite cfg (setE e st) d = setE e (hashWrite cfg st d) := rfl

theorem hashWrite_hashWrite (cfg : Cfg) (st : State) (a b : Bytes) :
    hashWrite cfg (hashWrite cfg st a) b = hashWrite cfg st (a ++ b) := by
  unfold hashWrite
  by_cases h : cfg.trailer ≠ [] <;> simp [h]

theorem hashWrite_fields (cfg : Cfg) (st : State) (d : Bytes) :
    (hashWrite cfg st d).isEOF = st.isEOF ∧ (hashWrite cfg st d).stash = st.stash ∧
    (hashWrite cfg st d).chunkDataLeft = st.chunkDataLeft ∧ (hashWrite cfg st d).parsedSig = st.parsedSig :=
  ⟨rfl, rfl, rfl, rfl⟩

theorem cont_merge (cfg : Cfg) (q g : Bytes) (e : Bool) (rest : List (Bytes × Bool)) (f1 f2 : Nat)
    (sL : State) (size off : Int) (acc : Bytes)
    (hE : sL.isEOF = false) (hgne : g ≠ []) (hrest : e = true → rest = [])
    (hmax : ((q.length : Int) + (g.length : Int)) ≤ intMax) (hf2 : q.length + g.length < f2 + 1) (hqne : q ≠ [])
    (hz : size ≠ 0) (hoff : off ≤ (q.length : Int))
    (hstash : (cont cfg (parseAndRemove cfg f1) sL size off q).2.status = .nil →
      (cont cfg (parseAndRemove cfg f1) sL size off q).1.stash.length ≤ maxHeaderSize)
    (IH : ∀ q', q'.length < q.length → q' ≠ [] → ∀ st' acc', st'.isEOF = false →
      ((parseAndRemove cfg f1 st' q').2.status = .nil → (parseAndRemove cfg f1 st' q').1.stash.length ≤ maxHeaderSize) →
      tail cfg (parseAndRemove cfg f1 st' q') ((g, e) :: rest) acc' =
        tail cfg (parseAndRemove cfg f2 (setE e st') (q' ++ g)) rest acc') :
    tail cfg (cont cfg (parseAndRemove cfg f1) sL size off q) ((g, e) :: rest) acc =
      tail cfg (cont cfg (parseAndRemove cfg f2) (setE e sL) size off (q ++ g)) rest acc := by
  have hglen : 0 < g.length := List.length_pos_iff.2 hgne
  have hqlen : 0 < q.length := List.length_pos_iff.2 hqne
  unfold cont at hstash ⊢
  simp only [List.length_append, Int.natCast_add] at hstash ⊢
  by_cases hneg : off < 0
  · have c1 : off < 0 ∨ (q.length : Int) < off := Or.inl hneg
    have c2 : off < 0 ∨ (q.length : Int) + (g.length : Int) < off := Or.inl hneg
    simp only [c1, c2, if_true]
    exact tail_not_nil cfg _ _ _ _ _ rfl (by simp)
  · have c1 : ¬ (off < 0 ∨ (q.length : Int) < off) := by omega
    have c2 : ¬ (off < 0 ∨ (q.length : Int) + (g.length : Int) < off) := by omega
    simp only [c1, c2, if_false] at hstash ⊢
    have hdrop : List.drop off.toNat (q ++ g) = List.drop off.toNat q ++ g := by
      rw [List.drop_append_of_le_length (by omega)]
    rw [hdrop]
    generalize hd1 : List.drop off.toNat q = data1 at hstash ⊢
    have hd1len : data1.length ≤ q.length := by rw [← hd1]; simp
    simp only [List.length_append, Int.natCast_add]
    by_cases hgt : (data1.length : Int) > size
    · -- the chunk ends inside `q`: recursion
      have hgt2 : (data1.length : Int) + (g.length : Int) > size := by omega
      simp only [hgt, hgt2, if_true] at hstash ⊢
      by_cases hsn : size < 0
      · simp only [hsn, if_true]
        exact tail_not_nil cfg _ _ _ _ _ rfl (by simp)
      · simp only [hsn, if_false] at hstash ⊢
        have htk : List.take size.toNat (data1 ++ g) = List.take size.toNat data1 := by
          rw [List.take_append_of_le_length (by omega)]
        have hdr : List.drop size.toNat (data1 ++ g) = List.drop size.toNat data1 ++ g := by
          rw [List.drop_append_of_le_length (by omega)]
        rw [htk, hdr]
        generalize hdd : List.take size.toNat data1 = d at hstash ⊢
        generalize hq' : List.drop size.toNat data1 = q' at hstash ⊢
        have hq'len : q'.length = data1.length - size.toNat := by rw [← hq']; simp
        have hq'ne : q' ≠ [] := by
          intro h; rw [h] at hq'len; simp at hq'len; omega
        have g1 := par_out_le cfg f1 (hashWrite cfg { sL with chunkDataLeft := 0 } d) q'
        have g2 := par_out_le cfg f2 (hashWrite cfg { setE e sL with chunkDataLeft := 0 } d) (q' ++ g)
        simp only [List.length_append] at g2
        rw [joinRec_eq_prepend _ _ _ (by omega), joinRec_eq_prepend _ _ _ (by omega)] at *
        rw [tail_prepend, tail_prepend]
        have hst : hashWrite cfg { setE e sL with chunkDataLeft := 0 } d =
            setE e (hashWrite cfg { sL with chunkDataLeft := 0 } d) := rfl
        rw [hst]
        refine IH q' (by omega) hq'ne (hashWrite cfg { sL with chunkDataLeft := 0 } d) (acc ++ d) hE ?_
        intro hs
        have : (prepend d (parseAndRemove cfg f1 (hashWrite cfg { sL with chunkDataLeft := 0 } d) q')).2.status = .nil := by
          unfold prepend; rw [hs]
        have h2 := hstash this
        unfold prepend at h2
        rw [hs] at h2
        exact h2
    · -- the chunk goes on behind `q`
      simp only [hgt, if_false] at hstash ⊢
      have hsz : (data1.length : Int) ≤ size := by omega
      generalize hA : hashWrite cfg { sL with chunkDataLeft := size - (data1.length : Int) } data1 = stA
      have hAc : stA.chunkDataLeft = size - (data1.length : Int) := by rw [← hA]; rfl
      have hAe : stA.isEOF = false := by rw [← hA]; exact hE
      rw [show tail cfg (stA, (⟨data1, .nil⟩ : Out)) ((g, e) :: rest) acc =
        runFrom cfg stA ((g, e) :: rest) (acc ++ data1) from rfl, runFrom_cons]
      by_cases hfit : (data1.length : Int) + (g.length : Int) ≤ size
      · -- … and behind `g` as well
        have c3 : ¬ ((data1.length : Int) + (g.length : Int) > size) := by omega
        simp only [c3, if_false]
        rw [read_data cfg stA g e g.length (by omega)]
        have hst : hashWrite cfg { setE e stA with chunkDataLeft := stA.chunkDataLeft - (g.length : Int) } g =
            hashWrite cfg { setE e sL with chunkDataLeft := size - ((data1.length : Int) + (g.length : Int)) } (data1 ++ g) := by
          rw [← hA]
          unfold hashWrite setE
          by_cases ht : cfg.trailer ≠ [] <;> simp [ht] <;> omega
        rw [hst]
        cases e with
        | false => simp [tail]
        | true =>
          rw [hrest rfl]
          simp only [tail, if_true]
          rw [runFrom]
          rw [read_data cfg _ [] true 0 (by simp [hashWrite]; omega)]
          simp
      · -- … and ends inside `g`
        have c3 : (data1.length : Int) + (g.length : Int) > size := by omega
        have c4 : ¬ (size < 0) := by omega
        simp only [c3, c4, if_true, if_false]
        have hc1 : stA.chunkDataLeft.toNat = size.toNat - data1.length := by rw [hAc]; omega
        have htk : List.take size.toNat (data1 ++ g) = data1 ++ List.take (size.toNat - data1.length) g := by
          rw [List.take_append]
          rw [List.take_of_length_le (by omega)]
        have hdr : List.drop size.toNat (data1 ++ g) = List.drop (size.toNat - data1.length) g := by
          rw [List.drop_append]
          rw [List.drop_of_length_le (by omega)]
          simp
        rw [htk, hdr]
        rw [read_hdr cfg stA g e g.length (by omega) (by omega), hc1]
        generalize hk : size.toNat - data1.length = k
        have g2 := par_out_le cfg f2 (hashWrite cfg { setE e sL with chunkDataLeft := 0 } (data1 ++ List.take k g)) (List.drop k g)
        simp only [List.length_drop] at g2
        rw [joinRec_eq_prepend _ _ _ (by omega)]
        rw [tail_prepend, tail_prepend]
        have hstate : (if stA.chunkDataLeft > 0 then hashWrite cfg (setE e stA) (List.take k g) else setE e stA) =
            setC stA.chunkDataLeft (hashWrite cfg { setE e sL with chunkDataLeft := 0 } (data1 ++ List.take k g)) := by
          rw [← hA] at hAc ⊢
          by_cases hpos : size - (data1.length : Int) > 0
          · have : (hashWrite cfg { sL with chunkDataLeft := size - (data1.length : Int) } data1).chunkDataLeft > 0 := hpos
            rw [if_pos this]
            unfold hashWrite setE setC
            by_cases ht : cfg.trailer ≠ [] <;> simp [ht]
          · have : ¬ (hashWrite cfg { sL with chunkDataLeft := size - (data1.length : Int) } data1).chunkDataLeft > 0 := hpos
            rw [if_neg this]
            have hk0 : k = 0 := by omega
            subst hk0
            unfold hashWrite setE setC
            by_cases ht : cfg.trailer ≠ [] <;> simp [ht]
        rw [hstate]
        have hfu : parseAndRemove cfg (g.length + 1) = parseAndRemove cfg (g.length + 1) := rfl
        have hreq : REq (parseAndRemove cfg (g.length + 1)
              (setC stA.chunkDataLeft (hashWrite cfg { setE e sL with chunkDataLeft := 0 } (data1 ++ List.take k g))) (List.drop k g))
            (parseAndRemove cfg f2 (hashWrite cfg { setE e sL with chunkDataLeft := 0 } (data1 ++ List.take k g)) (List.drop k g)) := by
          rw [par_fuel cfg f2 (g.length + 1) _ (List.drop k g) (by simp only [List.length_drop]; omega) (by simp only [List.length_drop]; omega)]
          rw [parseAndRemove, parseAndRemove]
          exact parStep_setC cfg _ _ _ _
        rw [tail_congr cfg hreq]
        simp

/-! ### the merge theorem for `parseAndRemoveChunkInfo` -/

/-- **Two reads or one**: `q` handed to `parseAndRemoveChunkInfo` and then `g` to the next `Read`
gives the same run as `q ++ g` at once. -/
theorem par_merge (cfg : Cfg) : ∀ (n : Nat) (q : Bytes), q.length ≤ n → ∀ (st : State) (g : Bytes) (e : Bool)
    (rest : List (Bytes × Bool)) (acc : Bytes) (f1 f2 : Nat),
    st.isEOF = false → q ≠ [] → q.length < f1 → (q ++ g).length < f2 → g ≠ [] → (e = true → rest = []) →
    ((q ++ g).length : Int) ≤ intMax →
    ((parseAndRemove cfg f1 st q).2.status = .nil → (parseAndRemove cfg f1 st q).1.stash.length ≤ maxHeaderSize) →
    tail cfg (parseAndRemove cfg f1 st q) ((g, e) :: rest) acc =
      tail cfg (parseAndRemove cfg f2 (setE e st) (q ++ g)) rest acc := by
  intro n
  induction n with
  | zero =>
    intro q hq st g e rest acc f1 f2 _ hne
    exact absurd (List.length_eq_zero_iff.1 (Nat.le_zero.1 hq)) hne
  | succ n ih =>
    intro q hq st g e rest acc f1 f2 hE hqne hf1 hf2 hgne hrest hmax hstash
    obtain ⟨f1, rfl⟩ : ∃ f, f1 = f + 1 := ⟨f1 - 1, by omega⟩
    obtain ⟨f2, rfl⟩ : ∃ f, f2 = f + 1 := ⟨f2 - 1, by omega⟩
    have hglen : 0 < g.length := List.length_pos_iff.2 hgne
    have hqlen : 0 < q.length := List.length_pos_iff.2 hqne
    simp only [List.length_append] at hf2 hmax
    simp only [parseAndRemove] at hstash ⊢
    unfold parStep at hstash ⊢
    simp only at hstash ⊢
    rw [checked_setE]
    cases hchk : (if st.parsedSig ≠ [] then checkSignature cfg st else Except.ok st) with
    | error x =>
      simp only [Except.map]
      exact tail_not_nil cfg _ _ _ _ _ rfl (by simp)
    | ok stc =>
      simp only [Except.map, hchk] at hstash ⊢
      obtain ⟨hps, hss, hfs, hes⟩ := checked_facts cfg st stc hchk
      have hEc : stc.isEOF = false := hes.trans hE
      by_cases hnm : parseHeader cfg stc.isFirstHeader (stc.stash ++ q) = .error (.rd .eof)
      · -- the header is still incomplete after `q`
        by_cases hl : stc.stash.length ≤ maxHeaderSize
        · have hh := hdr_needMore cfg stc q hl hEc hnm
          have hL : parBody cfg (parseAndRemove cfg f1) stc q =
              ({ stc with stash := stc.stash ++ q, chunkDataLeft := 0 }, ⟨[], .nil⟩) := by
            unfold parBody; rw [hh]
          rw [hL] at hstash ⊢
          have hsl : (stc.stash ++ q).length ≤ maxHeaderSize := hstash rfl
          -- left: the next Read starts with the stash
          have hread : ChunkSigned.read cfg { stc with stash := stc.stash ++ q, chunkDataLeft := 0 } g e g.length =
              prepend [] (parBody cfg (parseAndRemove cfg f2)
                { setC 0 (setE e stc) with stash := stc.stash ++ q } g) := by
            rw [read_hdr cfg _ g e g.length (by simp) (by simp; omega)]
            simp only [Int.toNat_zero, List.take_zero, List.drop_zero, Int.lt_irrefl, if_false, gt_iff_lt]
            rw [parseAndRemove]
            unfold parStep
            have : (setE e { stc with stash := stc.stash ++ q, chunkDataLeft := 0 }).parsedSig = [] := hps
            simp only [this, ne_eq, not_true_eq_false, if_false]
            have hst : setE e { stc with stash := stc.stash ++ q, chunkDataLeft := 0 } =
                { setC 0 (setE e stc) with stash := stc.stash ++ q } := by simp [setE, setC]
            rw [hst]
            congr 1
            exact parBody_congr cfg _ _ _ g (fun st' p' hp' => par_fuel cfg _ _ st' p' hp' (by omega))
          have hshift := parBody_stash_shift cfg (parseAndRemove cfg f2) (setC 0 (setE e stc)) stc.stash q g hsl
            (by simpa [setC, setE] using hnm)
          have heta : ({ setC 0 (setE e stc) with stash := stc.stash } : State) = setC 0 (setE e stc) := by
            simp [setC, setE]
          rw [heta] at hshift
          have hreq := parBody_setC cfg (parseAndRemove cfg f2) 0 (setE e stc) (q ++ g)
          unfold tail
          simp only
          rw [runFrom_cons, hread, hshift, tail_prepend]
          simp only [List.append_nil]
          exact tail_congr cfg hreq rest acc
        · -- the stash is already too long: both refuse
          have hbad : ∀ (K : State → Bytes → Res) (s : State) (p : Bytes), s.stash = stc.stash →
              (parBody cfg K s p).2 = ⟨[], .err .invalidFormat⟩ := by
            intro K s p hs
            unfold parBody parseChunkHeaderBytes
            have : s.stash.length > maxHeaderSize := by rw [hs]; omega
            simp [this]
          exact tail_not_nil cfg _ _ _ _ _ ((hbad _ stc q rfl).trans (hbad _ (setE e stc) (q ++ g) rfl).symm)
            (by rw [hbad _ stc q rfl]; simp)
      · -- the header is complete (or definitely bad) within `stash ++ q`
        obtain ⟨hdec, hoffle, hnoskip⟩ := hdr_decided cfg e stc q g hnm
        have hfld := hdr_fields cfg stc q
        cases hh : parseChunkHeaderBytes cfg stc q with
        | mk st2 res =>
        rw [hh] at hdec hoffle hnoskip hfld
        simp only at hdec hoffle hnoskip hfld
        have hE2 : st2.isEOF = false := hfld.1.trans hEc
        cases res with
        | skip => exact absurd rfl hnoskip
        | fail x =>
          have h1 : parBody cfg (parseAndRemove cfg f1) stc q = (st2, ⟨[], .err x⟩) := by unfold parBody; rw [hh]
          have h2 : parBody cfg (parseAndRemove cfg f2) (setE e stc) (q ++ g) = (setE e st2, ⟨[], .err x⟩) := by
            unfold parBody; rw [hdec]
          rw [h1, h2]
          exact tail_not_nil cfg _ _ _ _ _ rfl (by simp)
        | chunk size sig off =>
          by_cases hsig : sig = []
          · subst hsig
            rw [parBody_nosig cfg _ stc st2 q size off hh, parBody_nosig cfg _ (setE e stc) (setE e st2) (q ++ g) size off hdec]
            exact tail_not_nil cfg _ _ _ _ _ rfl (by simp)
          by_cases hz : size = 0
          · subst hz
            have h1 : parBody cfg (parseAndRemove cfg f1) stc q = finalChunk cfg { st2 with parsedSig := sig } :=
              parBody_final cfg _ stc st2 q sig off hh hsig
            have h2 : parBody cfg (parseAndRemove cfg f2) (setE e stc) (q ++ g) =
                finalChunk cfg (setE e { st2 with parsedSig := sig }) :=
              parBody_final cfg _ (setE e stc) (setE e st2) (q ++ g) sig off hdec hsig
            rw [h1, h2]
            exact tail_not_nil cfg _ _ _ _ _ (finalChunk_out_setE cfg e _).symm (finalChunk_not_nil cfg _)
          · have h1 := parBody_chunk cfg (parseAndRemove cfg f1) stc st2 q sig size off hh hsig hz
            have h2 := parBody_chunk cfg (parseAndRemove cfg f2) (setE e stc) (setE e st2) (q ++ g) sig size off hdec hsig hz
            rw [h1] at hstash ⊢
            rw [h2]
            have e1 : ({ setE e st2 with parsedSig := sig } : State) = setE e { st2 with parsedSig := sig } := rfl
            rw [e1]
            refine cont_merge cfg q g e rest f1 f2 { st2 with parsedSig := sig } size off acc hE2 hgne hrest
              (by omega) (by omega) hqne hz (hoffle size sig off rfl hz) hstash ?_
            intro q' hq'lt hq'ne st' acc' hE' hst'
            exact ih q' (by omega) st' g e rest acc' f1 f2 hE' hq'ne (by omega)
              (by simp only [List.length_append]; omega) hgne hrest
              (by simp only [List.length_append, Int.natCast_add]; omega) hst'

/-! ### the merge theorem for `Read` and for runs -/

/-- **Two `Read`s or one.**  Delivering `f` and then `g` (io.EOF, if any, with `g`) gives the same
run as delivering `f ++ g`; side condition: if the first `Read` leaves a partial header in the
stash it is at most 1024 bytes long (the reader refuses longer ones). -/
theorem read_merge (cfg : Cfg) (st : State) (f g : Bytes) (e : Bool) (rest : List (Bytes × Bool)) (acc : Bytes)
    (hfne : f ≠ []) (hgne : g ≠ []) (hrest : e = true → rest = []) (hmax : ((f ++ g).length : Int) ≤ intMax)
    (hstash : (ChunkSigned.read cfg st f false f.length).2.status = .nil →
      (ChunkSigned.read cfg st f false f.length).1.stash.length ≤ maxHeaderSize) :
    tail cfg (ChunkSigned.read cfg st f false f.length) ((g, e) :: rest) acc =
      tail cfg (ChunkSigned.read cfg st (f ++ g) e (f ++ g).length) rest acc := by
  have hflen : 0 < f.length := List.length_pos_iff.2 hfne
  have hglen : 0 < g.length := List.length_pos_iff.2 hgne
  simp only [List.length_append, Int.natCast_add] at hmax
  by_cases hneg : st.chunkDataLeft < 0
  · -- p[chunkSize:n] with a negative chunkSize
    have h1 : ∀ (x : Bytes) (b : Bool), x ≠ [] → (ChunkSigned.read cfg st x b x.length).2 = ⟨[], .panic⟩ := by
      intro x b hx
      have : 0 < x.length := List.length_pos_iff.2 hx
      unfold ChunkSigned.read
      have c : st.chunkDataLeft < (x.length : Int) := by omega
      simp [c, hneg]
    exact tail_not_nil cfg _ _ _ _ _ ((h1 f false hfne).trans (h1 (f ++ g) e (by simp [hfne])).symm)
      (by rw [h1 f false hfne]; simp)
  · by_cases hin : st.chunkDataLeft < (f.length : Int)
    · -- the chunk data ends inside `f`
      have hin2 : st.chunkDataLeft < ((f ++ g).length : Int) := by simp only [List.length_append, Int.natCast_add]; omega
      rw [read_hdr cfg st f false f.length (by omega) hin] at hstash ⊢
      rw [read_hdr cfg st (f ++ g) e (f ++ g).length (by omega) hin2]
      have htk : List.take st.chunkDataLeft.toNat (f ++ g) = List.take st.chunkDataLeft.toNat f := by
        rw [List.take_append_of_le_length (by omega)]
      have hdr : List.drop st.chunkDataLeft.toNat (f ++ g) = List.drop st.chunkDataLeft.toNat f ++ g := by
        rw [List.drop_append_of_le_length (by omega)]
      rw [htk, hdr, tail_prepend, tail_prepend]
      generalize hS : (if st.chunkDataLeft > 0 then hashWrite cfg (setE false st) (List.take st.chunkDataLeft.toNat f)
        else setE false st) = S at hstash ⊢
      have hS2 : (if st.chunkDataLeft > 0 then hashWrite cfg (setE e st) (List.take st.chunkDataLeft.toNat f)
          else setE e st) = setE e S := by
        rw [← hS]; split <;> rfl
      rw [hS2]
      have hSe : S.isEOF = false := by rw [← hS]; split <;> rfl
      have hqlen : (List.drop st.chunkDataLeft.toNat f).length = f.length - st.chunkDataLeft.toNat := by simp
      refine par_merge cfg _ _ (Nat.le_refl _) S g e rest _ _ _ hSe ?_ (by omega)
        (by simp only [List.length_append]; omega) hgne hrest (by simp only [List.length_append, Int.natCast_add]; omega) ?_
      · intro h; rw [h] at hqlen; simp at hqlen; omega
      · intro hs
        have : (prepend (List.take st.chunkDataLeft.toNat f)
            (parseAndRemove cfg (f.length + 1) S (List.drop st.chunkDataLeft.toNat f))).2.status = .nil := by
          unfold prepend; rw [hs]
        have h2 := hstash this
        unfold prepend at h2
        rw [hs] at h2
        exact h2
    · -- `f` is chunk data entirely
      rw [read_data cfg st f false f.length (by omega)]
      simp only [Bool.false_eq_true, if_false]
      generalize hA : hashWrite cfg { setE false st with chunkDataLeft := st.chunkDataLeft - (f.length : Int) } f = stA
      have hAc : stA.chunkDataLeft = st.chunkDataLeft - (f.length : Int) := by rw [← hA]; rfl
      rw [show tail cfg (stA, (⟨f, .nil⟩ : Out)) ((g, e) :: rest) acc =
        runFrom cfg stA ((g, e) :: rest) (acc ++ f) from rfl, runFrom_cons]
      by_cases hin2 : st.chunkDataLeft < ((f ++ g).length : Int)
      · -- … and ends inside `g`
        simp only [List.length_append, Int.natCast_add] at hin2
        rw [read_hdr cfg st (f ++ g) e (f ++ g).length (by omega)
          (by simp only [List.length_append, Int.natCast_add]; omega)]
        rw [read_hdr cfg stA g e g.length (by omega) (by omega)]
        have hk : stA.chunkDataLeft.toNat = st.chunkDataLeft.toNat - f.length := by rw [hAc]; omega
        have htk : List.take st.chunkDataLeft.toNat (f ++ g) = f ++ List.take (st.chunkDataLeft.toNat - f.length) g := by
          rw [List.take_append, List.take_of_length_le (by omega)]
        have hdr : List.drop st.chunkDataLeft.toNat (f ++ g) = List.drop (st.chunkDataLeft.toNat - f.length) g := by
          rw [List.drop_append, List.drop_of_length_le (by omega)]; simp
        rw [htk, hdr, hk, tail_prepend, tail_prepend]
        generalize hkk : st.chunkDataLeft.toNat - f.length = k
        have hpos : st.chunkDataLeft > 0 := by omega
        rw [if_pos hpos]
        have hstate : (if stA.chunkDataLeft > 0 then hashWrite cfg (setE e stA) (List.take k g) else setE e stA) =
            setC stA.chunkDataLeft (hashWrite cfg (setE e st) (f ++ List.take k g)) := by
          rw [← hA] at hAc ⊢
          by_cases hp2 : st.chunkDataLeft - (f.length : Int) > 0
          · have : (hashWrite cfg { setE false st with chunkDataLeft := st.chunkDataLeft - (f.length : Int) } f).chunkDataLeft > 0 := hp2
            rw [if_pos this]
            unfold hashWrite setE setC
            by_cases ht : cfg.trailer ≠ [] <;> simp [ht]
          · have : ¬ (hashWrite cfg { setE false st with chunkDataLeft := st.chunkDataLeft - (f.length : Int) } f).chunkDataLeft > 0 := hp2
            rw [if_neg this]
            have hk0 : k = 0 := by omega
            subst hk0
            unfold hashWrite setE setC
            by_cases ht : cfg.trailer ≠ [] <;> simp [ht]
        rw [hstate]
        have hreq : REq (parseAndRemove cfg (g.length + 1)
              (setC stA.chunkDataLeft (hashWrite cfg (setE e st) (f ++ List.take k g))) (List.drop k g))
            (parseAndRemove cfg ((f ++ g).length + 1) (hashWrite cfg (setE e st) (f ++ List.take k g)) (List.drop k g)) := by
          rw [par_fuel cfg ((f ++ g).length + 1) (g.length + 1) _ (List.drop k g)
            (by simp only [List.length_drop, List.length_append]; omega) (by simp only [List.length_drop]; omega)]
          rw [parseAndRemove, parseAndRemove]
          exact parStep_setC cfg _ _ _ _
        rw [tail_congr cfg hreq]
        simp
      · -- … and goes on behind `g`
        simp only [List.length_append, Int.natCast_add] at hin2
        rw [read_data cfg st (f ++ g) e (f ++ g).length (by simp only [List.length_append, Int.natCast_add]; omega)]
        rw [read_data cfg stA g e g.length (by omega)]
        have hst : hashWrite cfg { setE e stA with chunkDataLeft := stA.chunkDataLeft - (g.length : Int) } g =
            hashWrite cfg { setE e st with chunkDataLeft := st.chunkDataLeft - ((f ++ g).length : Int) } (f ++ g) := by
          rw [← hA]
          unfold hashWrite setE
          by_cases ht : cfg.trailer ≠ [] <;> simp [ht] <;> omega
        rw [hst]
        cases e <;> simp [tail]

/-- the wire bytes of a list of deliveries -/
def flat (ds : List (Bytes × Bool)) : Bytes := (ds.map (·.1)).flatten

/-- did io.EOF come together with the last bytes? -/
def lastFlag (ds : List (Bytes × Bool)) : Bool :=
  match ds.getLast? with
  | some d => d.2
  | none => false

/-- non-empty fragments, io.EOF at most with the last one -/
def Good (ds : List (Bytes × Bool)) : Prop := (∀ d ∈ ds, d.1 ≠ []) ∧ (∀ d ∈ ds.dropLast, d.2 = false)

/-- the 1024-byte limit on a stashed partial header is never exceeded: after the one-shot read of
any proper prefix of the deliveries -/
def StashOK (cfg : Cfg) (st : State) (ds : List (Bytes × Bool)) : Prop :=
  ∀ k, 0 < k → k < ds.length →
    (ChunkSigned.read cfg st (flat (ds.take k)) false (flat (ds.take k)).length).2.status = .nil →
    (ChunkSigned.read cfg st (flat (ds.take k)) false (flat (ds.take k)).length).1.stash.length ≤ maxHeaderSize

/-- **Fragmentation independence of the signed reader** (arbitrary bytes, from an arbitrary state):
a run over any list of deliveries equals the run that hands the same bytes over in one `Read`. -/
theorem run_merge (cfg : Cfg) : ∀ (n : Nat) (ds : List (Bytes × Bool)), ds.length ≤ n → ∀ (st : State) (acc : Bytes),
    ds ≠ [] → Good ds → ((flat ds).length : Int) ≤ intMax → StashOK cfg st ds →
    runFrom cfg st ds acc = runFrom cfg st [(flat ds, lastFlag ds)] acc := by
  intro n
  induction n with
  | zero => intro ds h st acc hne; exact absurd (List.length_eq_zero_iff.1 (Nat.le_zero.1 h)) hne
  | succ n ih =>
    intro ds hlen st acc hne hgood hmax hst
    match ds, hne with
    | [(f, e)], _ => simp [flat, lastFlag]
    | (f, e1) :: (g, e2) :: rest, _ =>
      have he1 : e1 = false := hgood.2 (f, e1) (by simp [List.dropLast])
      subst he1
      have hfne : f ≠ [] := hgood.1 (f, false) (by simp)
      have hgne : g ≠ [] := hgood.1 (g, e2) (by simp)
      have hrest : e2 = true → rest = [] := by
        intro h2
        cases rest with
        | nil => rfl
        | cons r rs =>
          have := hgood.2 (g, e2) (by simp [List.dropLast])
          simp [h2] at this
      have hflat : flat ((f, false) :: (g, e2) :: rest) = flat ((f ++ g, e2) :: rest) := by simp [flat]
      have hmax2 : ((f ++ g).length : Int) ≤ intMax := by
        have : (f ++ g).length ≤ (flat ((f, false) :: (g, e2) :: rest)).length := by
          simp [flat]
        omega
      have h1 := hst 1 (by omega) (by simp)
      simp only [List.take_succ_cons, List.take_zero, flat, List.map_cons, List.map_nil, List.flatten_cons,
        List.flatten_nil, List.append_nil] at h1
      rw [runFrom_cons, read_merge cfg st f g e2 rest acc hfne hgne hrest hmax2 h1, ← runFrom_cons]
      rw [ih ((f ++ g, e2) :: rest) (by simp at hlen ⊢; omega) st acc (by simp) ?_ (by rw [← hflat]; exact hmax) ?_]
      · rw [hflat]
        congr 2
        cases rest <;> simp [lastFlag]
      · refine ⟨?_, ?_⟩
        · intro d hd
          simp at hd
          rcases hd with rfl | hd
          · simp [hfne]
          · exact hgood.1 d (by simp [hd])
        · intro d hd
          cases rest with
          | nil => simp [List.dropLast] at hd
          | cons r rs =>
            simp [List.dropLast] at hd
            rcases hd with rfl | hd
            · exact hgood.2 (g, e2) (by simp [List.dropLast])
            · exact hgood.2 d (by simp [List.dropLast, hd])
      · intro k hk0 hkl
        have := hst (k + 1) (by omega) (by simp at hkl ⊢; omega)
        have e : flat (List.take (k + 1) ((f, false) :: (g, e2) :: rest)) = flat (List.take k ((f ++ g, e2) :: rest)) := by
          obtain ⟨k, rfl⟩ : ∃ j, k = j + 1 := ⟨k - 1, by omega⟩
          simp [flat]
        rw [e] at this
        exact this

end Vgw.Lemmas.ChunkMerge
