/-
  Lemmas about Model.Conc, part 10: from the linearization invariant to `Linearizable`.
-/
import Vgw.Lemmas.ConcLin4
namespace Vgw.Model.Conc
open Vgw.Spec.Register

theorem histOf_get (rqs : List Req) (s : State) (i : Nat) : (histOf rqs s)[i]? = (rqs[i]?).map (evOf s i) := by
  simp [histOf, List.getElem?_mapIdx]

theorem passed_of_done (rq : Req) (l : Local) (h : l.prog = []) : passed rq l := by
  unfold passed; cases rq.kind <;> simp [h]

/-- the answer of a request that is past its linearization point is admitted by the register in
    the state just before that point. -/
theorem answer_admitted {c : Cfg} {fs : FS} {rq : Req} {l : Local} {st : Option Inode} {r : Resp} {a : Res ReadResp}
    (hW : rq.kind.isWrite = true → WState l) (hD : rq.kind = .delete → DState l)
    (hF : rq.kind.isRead = true → FdState c fs rq l) (hP : Promise fs rq l st)
    (hdone : l.prog = []) (hr : l.result = some r) (ha : resOf r = some a) :
    admits observe st (opOf rq) a = true := by
  rcases kind_trichotomy rq with hw | hd | hrd
  · have hres := (hW hw).res.2 hdone
    have hop : opOf rq = .write (written rq) := by
      unfold opOf; cases hk : rq.kind <;> simp [hk, Kind.isWrite] at hw <;> rfl
    rcases hres with h1 | h1
    · rw [h1] at hr; cases hr; cases ha; rw [hop]; rfl
    · rw [h1] at hr; cases hr; cases ha
  · have hop : opOf rq = .delete := by unfold opOf; rw [hd]
    have hP' : l.result = some .noSuchKey → st = none := by unfold Promise at hP; rw [hd] at hP; exact hP
    rw [hop]
    cases hD hd with
    | d0 q _ => rw [q] at hdone; cases hdone
    | d1 q _ => rw [q] at hdone; cases hdone
    | d3 q _ => rw [q] at hdone; cases hdone
    | d2 _ q => rw [q] at hr; cases hr; cases ha; rfl
    | d4 _ q => rw [q] at hr; cases hr; cases ha; simp [admits, hP' q]
  · have hP' : st = l.fd.bind (fs.inodes[·]?) := by
      unfold Promise at hP; cases hk : rq.kind <;> simp [hk, Kind.isRead] at hrd <;> rw [hk] at hP <;> exact hP
    have hop : opOf rq = .read (readKindHead rq) := by
      unfold opOf readKindHead; cases hk : rq.kind <;> simp [hk, Kind.isRead] at hrd <;> rfl
    rw [hop]
    cases hF hrd with
    | fresh _ _ q _ => rw [q] at hr; cases hr
    | running _ _ _ _ q => rw [q] at hr; cases hr
    | failed _ q1 q2 => rw [q1] at hr; cases hr; cases ha; rw [hP', q2]; rfl
    | answered k ino q1 q2 _ q4 =>
      rw [q4] at hr; cases hr; cases ha
      rw [hP', q1]; simp [admits, q2]

theorem resp_done {s : State} {i : Nat} {r : Resp} (h : s.resp i = some r) :
    ∃ rq l, s.reqs[i]? = some (rq, l) ∧ l.prog = [] ∧ l.result = some r := by
  unfold State.resp at h
  split at h
  · rename_i rq l hr
    split at h
    · rename_i hd; exact ⟨rq, l, hr, by simpa [Local.done] using hd, h⟩
    · cases h
  · cases h

theorem linearizable_of_inv {c : Cfg} {fs0 : FS} {rqs : List Req} {s : State}
    (g : GInv fs0 rqs s) (fd : FdInv c s) (L : LInv fs0 rqs s) :
    Linearizable observe fs0.cur (histOf rqs s) := by
  refine ⟨ptsT s.trace, ptsT_sorted _, L.nodup, ?_, ?_, ?_⟩
  · intro p hp
    have hlt := L.valid p hp
    obtain ⟨rq, l⟩ := s.reqs[p.2]'hlt
    have hreq : s.reqs[p.2]? = some (s.reqs[p.2]'hlt) := List.getElem?_eq_getElem hlt
    have hrqs : rqs[p.2]? = some (s.reqs[p.2]'hlt).1 := by rw [← g.reqs, List.getElem?_map, hreq]; rfl
    refine ⟨evOf s p.2 (s.reqs[p.2]'hlt).1, by rw [histOf_get, hrqs]; rfl, ?_, ?_⟩
    · obtain ⟨t0, h0, hle⟩ := ptsT_inv s.trace p hp
      simp only [evOf, h0, Option.getD_some]; exact hle
    · intro r hr
      simp only [evOf] at hr
      split at hr
      · exact L.ret p hp r hr
      · cases hr
  · intro i e hi hret
    rw [histOf_get] at hi
    cases hq : rqs[i]? with
    | none => rw [hq] at hi; cases hi
    | some rq =>
      rw [hq] at hi; simp only [Option.map_some, Option.some.injEq] at hi; subst hi
      simp only [evOf] at hret
      split at hret
      · rename_i hans
        cases hresp : s.resp i with
        | none => rw [hresp] at hans; cases hans
        | some r =>
          obtain ⟨rq', l, hi', hdone, _⟩ := resp_done hresp
          exact (L.ids i rq' l hi').2 (passed_of_done rq' l hdone)
      · exact absurd rfl hret
  · -- the replay admits every answer
    have key : ∀ (σ pre : List (Nat × Nat)), ptsT s.trace = pre ++ σ →
        accepts observe (replayIds rqs fs0.cur (pre.map (·.2))) (σ.filterMap fun p => (histOf rqs s)[p.2]?) = true := by
      intro σ
      induction σ with
      | nil => intro pre _; rfl
      | cons p σ ih =>
        intro pre hsplit
        have hpmem : p ∈ ptsT s.trace := by rw [hsplit]; simp
        have hlt := L.valid p hpmem
        have hreq : s.reqs[p.2]? = some (s.reqs[p.2]'hlt) := List.getElem?_eq_getElem hlt
        obtain ⟨rq, l, hrl⟩ : ∃ rq l, s.reqs[p.2]'hlt = (rq, l) := ⟨_, _, rfl⟩
        rw [hrl] at hreq
        have hmem : (rq, l) ∈ s.reqs := List.mem_of_getElem? hreq
        have hrqs : rqs[p.2]? = some rq := by rw [← g.reqs, List.getElem?_map, hreq]; rfl
        have hev : (histOf rqs s)[p.2]? = some (evOf s p.2 rq) := by rw [histOf_get, hrqs]; rfl
        rw [List.filterMap_cons, hev]
        simp only [accepts, Bool.and_eq_true, Bool.or_eq_true]
        constructor
        · -- admitted
          by_cases hans : ((s.resp p.2).bind resOf).isSome = true
          · right
            obtain ⟨a, ha⟩ := Option.isSome_iff_exists.1 hans
            cases hresp : s.resp p.2 with
            | none => rw [hresp] at ha; cases ha
            | some r =>
              rw [hresp] at ha; simp only [Option.bind_some] at ha
              obtain ⟨rq', l', hi', hdone, hres⟩ := resp_done hresp
              rw [hreq] at hi'; simp only [Option.some.injEq, Prod.mk.injEq] at hi'; obtain ⟨rfl, rfl⟩ := hi'
              have hP := L.prom pre p σ rq l hsplit hreq
              have := answer_admitted (c := c) (fun hw => (L.kinds _ hmem).1 hw) (fun hd => (L.kinds _ hmem).2 hd)
                (fun hrd => fd _ hmem hrd) hP hdone hres ha
              simp only [evOf, hresp, Option.bind_some, ha, Option.getD_some]
              exact this
          · left
            simp only [evOf]
            have : ((s.resp p.2).bind resOf).isSome = false := by simpa using hans
            simp [this]
        · have := ih (pre ++ [p]) (by rw [hsplit]; simp)
          rw [List.map_append, List.map_cons, List.map_nil, replayIds_append, hrqs] at this
          simpa [evOf] using this
    have := key (ptsT s.trace) [] (by simp)
    simpa [replayIds] using this


theorem LInv_reach {c : Cfg} {fs0 : FS} {rqs : List Req} {s : State} (hs : renameOnlyStrat c.strat)
    (hm : c.rmode = .byFd) (h0 : KeyLast fs0) (h : Reach c (init c fs0 rqs) s) :
    LInv fs0 rqs s ∧ FdInv c s ∧ GInv fs0 rqs s := by
  induction h with
  | refl => exact ⟨LInv_init c fs0 rqs hs hm, FdInv_init c fs0 rqs, GInv_init c fs0 rqs h0⟩
  | step _ hstep ih =>
    obtain ⟨L, fd, g⟩ := ih
    exact ⟨LInv_step hm g fd L hstep, FdInv_step hm g.last fd hstep, GInv_step g hstep⟩

end Vgw.Model.Conc
