/-
  Lemmas about Model.Conc, part 9: the linearization invariant over all runs (rename-only
  publication, reads through the descriptor).
-/
import Vgw.Lemmas.ConcLin3
namespace Vgw.Model.Conc
open Vgw.Spec.Register

structure LInv (fs0 : FS) (rqs : List Req) (s : State) : Prop where
  kinds : ∀ p ∈ s.reqs, (p.1.kind.isWrite = true → WState p.2) ∧ (p.1.kind = .delete → DState p.2)
  ids : ∀ i rq l, s.reqs[i]? = some (rq, l) → (i ∈ (ptsT s.trace).map (·.2) ↔ passed rq l)
  valid : ∀ p ∈ ptsT s.trace, p.2 < s.reqs.length
  nodup : ((ptsT s.trace).map (·.2)).Nodup
  reg : replayIds rqs fs0.cur ((ptsT s.trace).map (·.2)) = s.fs.cur
  prom : ∀ σ₁ p σ₂ rq l, ptsT s.trace = σ₁ ++ p :: σ₂ → s.reqs[p.2]? = some (rq, l) →
           Promise s.fs rq l (replayIds rqs fs0.cur (σ₁.map (·.2)))
  fin : ∀ i rq l T, s.reqs[i]? = some (rq, l) → retT i s.trace = some T → l.prog = []
  ret : ∀ p ∈ ptsT s.trace, ∀ T, retT p.2 s.trace = some T → p.1 ≤ T

theorem not_passed_init (c : Cfg) (rq : Req) (hs : renameOnlyStrat c.strat) (hm : c.rmode = .byFd) :
    ¬ passed rq { prog := program c rq } := by
  unfold passed
  obtain ⟨x, hx, hxp⟩ : ∃ x ∈ publishProg c.strat, x.isRPub = true := by
    rcases hs with h | h | h <;> rw [h]
    · exact ⟨.linkatx, by simp [publishProg], rfl⟩
    · exact ⟨.rename, by simp [publishProg], rfl⟩
    · exact ⟨.rename, by simp [publishProg], rfl⟩
  have wr : ∀ p : List Act, x ∈ p → ¬ ∀ a ∈ p, a.isRPub = false := by
    intro p hxm hall; have := hall x hxm; rw [hxp] at this; cases this
  cases hk : rq.kind <;> simp only [program, hk, hm]
  · exact wr _ (by simp [hx])
  · exact wr _ (by simp [hx])
  · exact wr _ (by simp [hx])
  · simp
  · simp [readAttrProg]
  · simp [readAttrProg]

theorem LInv_init (c : Cfg) (fs0 : FS) (rqs : List Req) (hs : renameOnlyStrat c.strat) (hm : c.rmode = .byFd) :
    LInv fs0 rqs (init c fs0 rqs) where
  kinds := by
    intro p hp
    simp only [init, List.mem_map] at hp
    obtain ⟨rq, _, rfl⟩ := hp
    exact ⟨fun hw => program_writer_shape c rq hs hw, fun hd => .d0 (by have hd' : rq.kind = .delete := hd; simp only [program, hd']) rfl⟩
  ids := by
    intro i rq l hi
    have : (rq, l) ∈ (init c fs0 rqs).reqs := List.mem_of_getElem? hi
    simp only [init, List.mem_map] at this
    obtain ⟨rq', _, h⟩ := this
    simp only [Prod.mk.injEq] at h
    obtain ⟨rfl, rfl⟩ := h
    simp only [init, ptsT, List.map_nil, List.not_mem_nil, false_iff]
    exact not_passed_init c rq' hs hm
  valid := by intro p hp; cases hp
  nodup := List.nodup_nil
  reg := rfl
  prom := by intro σ₁ p σ₂ rq l h; simp [init, ptsT] at h
  fin := by intro i rq l T _ h; cases h
  ret := by intro p hp; cases hp

theorem Promise_mono {c : Cfg} {fs fs' : FS} {rq : Req} {l : Local} {st : Option Inode} (ext : List Inode)
    (hF : rq.kind.isRead = true → FdState c fs rq l) (hext : fs'.inodes = fs.inodes ++ ext)
    (h : Promise fs rq l st) : Promise fs' rq l st := by
  unfold Promise at h ⊢
  cases hk : rq.kind <;> rw [hk] at h <;> simp only at h ⊢ <;> try exact h
  all_goals
    have hF' := hF (by simp [hk, Kind.isRead])
    rw [h]
    cases hF' with
    | fresh _ _ _ a4 => rw [a4]; rfl
    | failed _ _ a3 => rw [a3]; rfl
    | running k ino a1 a2 =>
      rw [a1]; simp only [Option.bind_some, a2, hext]
      rw [List.getElem?_append_left (List.getElem?_eq_some_iff.1 a2).1]; exact a2.symm
    | answered k ino a1 a2 =>
      rw [a1]; simp only [Option.bind_some, a2, hext]
      rw [List.getElem?_append_left (List.getElem?_eq_some_iff.1 a2).1]; exact a2.symm


theorem kind_trichotomy (rq : Req) : rq.kind.isWrite = true ∨ rq.kind = .delete ∨ rq.kind.isRead = true := by
  cases rq.kind <;> simp [Kind.isWrite, Kind.isRead]

theorem ptsT_cons (e : Ev) (tr : List Ev) :
    ptsT (e :: tr) = ptsT tr ++ (if isLinEv e then [(tr.length, e.rid)] else []) := rfl

theorem LInv_step {c : Cfg} {fs0 : FS} {rqs : List Req} {s s' : State} {i : Nat}
    (hm : c.rmode = .byFd) (g : GInv fs0 rqs s) (fd : FdInv c s) (L : LInv fs0 rqs s)
    (h : step c s i = some s') : LInv fs0 rqs s' := by
  obtain ⟨rq, l, a, rest, hr, hp, hfs, hreqs, htr⟩ := step_spec h
  obtain ⟨ext, hext⟩ := step_inodes_mono h
  have hmem : (rq, l) ∈ s.reqs := List.mem_of_getElem? hr
  have hlt : i < s.reqs.length := (List.getElem?_eq_some_iff.1 hr).1
  have hrqs : rqs[i]? = some rq := by rw [← g.reqs, List.getElem?_map, hr]; rfl
  -- the new local and the event
  obtain ⟨l', hl'⟩ : ∃ l', l' = finalize rq s'.fs (execAct c rq s.fs { l with prog := rest } a).2 := ⟨_, rfl⟩
  rw [← hl'] at hreqs htr
  have hi' : s'.reqs[i]? = some (rq, l') := by rw [hreqs, List.getElem?_set_self hlt]
  have hother : ∀ j, j ≠ i → s'.reqs[j]? = s.reqs[j]? := by
    intro j hj; rw [hreqs, List.getElem?_set_ne (Ne.symm hj)]
  -- the facts of this step
  have F : StepFacts rq l l' s.fs s'.fs (isLinEv ⟨i, a, s.fs.key, s'.fs.key, l'.done⟩) := by
    rw [hl', hfs]
    rcases kind_trichotomy rq with hw | hd | hrd
    · exact facts_writer hw ((L.kinds _ hmem).1 hw) (g.rinv _ hmem) hp
    · exact facts_delete hd ((L.kinds _ hmem).2 hd) hp
    · exact facts_reader hm hrd (fd _ hmem hrd) hp
  obtain ⟨e, he⟩ : ∃ e : Ev, e = ⟨i, a, s.fs.key, s'.fs.key, l'.done⟩ := ⟨_, rfl⟩
  rw [← he] at htr F
  have herid : e.rid = i := by rw [he]
  have hpts : ptsT s'.trace = ptsT s.trace ++ (if isLinEv e then [(s.trace.length, i)] else []) := by
    rw [htr, ptsT_cons, herid]
  have hmono : ∀ j rqj lj st, j ≠ i → s.reqs[j]? = some (rqj, lj) → Promise s.fs rqj lj st → Promise s'.fs rqj lj st := by
    intro j rqj lj st _ hj hP
    exact Promise_mono ext (fun hrd => fd _ (List.mem_of_getElem? hj) hrd) hext hP
  refine ⟨?_, ?_, ?_, ?_, ?_, ?_, ?_, ?_⟩
  · -- kinds
    intro p hpm
    rw [hreqs] at hpm
    rcases List.mem_or_eq_of_mem_set hpm with hold | rfl
    · exact L.kinds p hold
    · exact ⟨fun hw => by rw [hl']; exact WState_step hw ((L.kinds _ hmem).1 hw) hp,
             fun hd => by rw [hl']; exact DState_step hd ((L.kinds _ hmem).2 hd) hp⟩
  · -- ids
    intro j rqj lj hj
    rw [hpts]
    by_cases hji : j = i
    · subst hji
      rw [hi'] at hj; simp only [Option.some.injEq, Prod.mk.injEq] at hj; obtain ⟨rfl, rfl⟩ := hj
      cases hlin : isLinEv e with
      | true => simp only [if_true, List.map_append, List.map_cons, List.map_nil, List.mem_append, List.mem_singleton]
                exact ⟨fun _ => F.pass_after hlin, fun _ => Or.inr trivial⟩
      | false => simp only [Bool.false_eq_true, if_false, List.append_nil]
                 rw [L.ids j rq l hr]; exact (F.pass_same hlin).symm
    · rw [hother j hji] at hj
      rw [← L.ids j rqj lj hj]
      split
      · simp only [List.map_append, List.map_cons, List.map_nil, List.mem_append, List.mem_singleton]
        exact ⟨fun h => h.elim id (fun h => absurd h hji), Or.inl⟩
      · simp
  · -- valid
    intro p hpm
    rw [hpts] at hpm
    have hlen : s'.reqs.length = s.reqs.length := by rw [hreqs, List.length_set]
    rcases List.mem_append.1 hpm with h1 | h1
    · rw [hlen]; exact L.valid p h1
    · split at h1
      · simp only [List.mem_singleton] at h1; subst h1; rw [hlen]; exact hlt
      · cases h1
  · -- nodup
    rw [hpts]
    cases hlin : isLinEv e with
    | false => simpa using L.nodup
    | true =>
      simp only [if_true, List.map_append, List.map_cons, List.map_nil]
      rw [List.nodup_append]
      refine ⟨L.nodup, by simp, ?_⟩
      intro x hx y hy
      simp only [List.mem_singleton] at hy; subst hy
      intro hxy; subst hxy
      exact F.pass_before hlin ((L.ids _ rq l hr).1 hx)
  · -- reg
    rw [hpts]
    cases hlin : isLinEv e with
    | false => simp only [Bool.false_eq_true, if_false, List.append_nil]; rw [L.reg]; exact (F.cur_same hlin).symm
    | true =>
      simp only [if_true, List.map_append, List.map_cons, List.map_nil]
      rw [replayIds_append, hrqs, L.reg]; exact (F.cur_lin hlin).symm
  · -- promises
    intro σ₁ p σ₂ rqp lp hsplit hpq
    rw [hpts] at hsplit
    have old : ∀ σ₂', ptsT s.trace = σ₁ ++ p :: σ₂' → (isLinEv e = true → p.2 ≠ i) →
        Promise s'.fs rqp lp (replayIds rqs fs0.cur (σ₁.map (·.2))) := by
      intro σ₂' hs' hne
      by_cases hpi : p.2 = i
      · -- the stepping request itself, already past its point: the step is not a linearization point
        have hnl : isLinEv e = false := by
          cases hlin : isLinEv e with
          | false => rfl
          | true => exact absurd hpi (hne hlin)
        rw [hpi, hi'] at hpq; simp only [Option.some.injEq, Prod.mk.injEq] at hpq; obtain ⟨rfl, rfl⟩ := hpq
        exact F.prom_keep hnl _ (L.prom σ₁ p σ₂' rq l hs' (by rw [hpi]; exact hr))
      · rw [hother _ hpi] at hpq
        exact hmono _ _ _ _ hpi hpq (L.prom σ₁ p σ₂' rqp lp hs' hpq)
    cases hlin : isLinEv e with
    | false =>
      rw [hlin] at hsplit; simp only [Bool.false_eq_true, if_false, List.append_nil] at hsplit
      exact old σ₂ hsplit (fun h => by rw [hlin] at h; cases h)
    | true =>
      rw [hlin] at hsplit; simp only [if_true] at hsplit
      rcases append_single_split hsplit with ⟨_, h2, h3⟩ | ⟨σ₂', _, h2⟩
      · subst h3
        rw [hi'] at hpq; simp only [Option.some.injEq, Prod.mk.injEq] at hpq; obtain ⟨rfl, rfl⟩ := hpq
        rw [h2, L.reg]; exact F.prom_new hlin
      · refine old σ₂' h2 (fun _ hpi => ?_)
        apply F.pass_before hlin
        apply (L.ids i rq l hr).1
        rw [h2, ← hpi]; simp
  · -- finished requests
    intro j rqj lj T hj hT
    rw [htr, retT_cons] at hT
    by_cases hji : j = i
    · subst hji
      rw [hi'] at hj; simp only [Option.some.injEq, Prod.mk.injEq] at hj; obtain ⟨rfl, rfl⟩ := hj
      split at hT
      · rename_i hc
        have : l'.done = true := by have := hc.2; rw [he] at this; exact this
        simpa [Local.done] using this
      · have := L.fin j rq l T hr hT; rw [hp] at this; cases this
    · rw [hother j hji] at hj
      split at hT
      · rename_i hc; exact absurd (herid ▸ hc.1).symm hji
      · exact L.fin j rqj lj T hj hT
  · -- response times
    intro p hpm T hT
    rw [htr, retT_cons] at hT
    rw [hpts] at hpm
    have hold : p ∈ ptsT s.trace → p.1 ≤ T := by
      intro hp0
      split at hT
      · simp only [Option.some.injEq] at hT; subst hT; exact Nat.le_of_lt (ptsT_lt _ p hp0)
      · exact L.ret p hp0 T hT
    rcases List.mem_append.1 hpm with h1 | h1
    · exact hold h1
    · split at h1
      · simp only [List.mem_singleton] at h1; subst h1
        split at hT
        · simp only [Option.some.injEq] at hT; subst hT; exact Nat.le_refl _
        · have := L.fin i rq l T hr hT; rw [hp] at this; cases this
      · cases h1

end Vgw.Model.Conc
