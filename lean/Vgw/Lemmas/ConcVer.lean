/-
  Lemmas for Props/C05Ver: the invariants of Model.ConcVer.
-/
import Vgw.Model.ConcVer
namespace Vgw.Model.ConcVer

theorem mem_setReq {l : List Req} {i : Nat} {r x : Req} (h : x ∈ setReq l i r) : x = r ∨ x ∈ l := by
  unfold setReq at h
  rcases List.mem_or_eq_of_mem_set h with h | h
  · exact Or.inr h
  · exact Or.inl h

theorem mem_putVer {arch : List Ver} {v e : Ver} (h : e ∈ putVer arch v) : e = v ∨ e ∈ arch := by
  unfold putVer at h
  rcases List.mem_cons.mp h with h | h
  · exact Or.inl h
  · exact Or.inr (List.mem_filter.mp h).1

/-- the handle a request holds, if any. -/
def Req.handle (r : Req) : Option Obj :=
  match r.pc with
  | .opened h | .archived h => h
  | _ => none

/-- invariant of every interleaving (no lock), code as it is. -/
structure Inv (s : Sys) : Prop where
  arch : ∀ v ∈ s.arch, v.complete = true ∧ v.src ∈ s.hist
  hnd  : ∀ r ∈ s.reqs, ∀ o, r.handle = some o → o ∈ s.hist
  cur  : ∀ o, s.cur = some o → o ∈ s.hist
  vids : ∀ o ∈ s.hist, o.vid < s.nextVid
  nodup : (s.hist.map (·.vid)).Nodup
  one  : (s.arch.map (·.src.vid)).Nodup
  pub  : ∀ r ∈ s.reqs, ∀ v, (r.pc = .published v ∨ r.pc = .done v) → (⟨r.w, v⟩ : Obj) ∈ s.hist

theorem nodup_putVer {arch : List Ver} {v : Ver} (h : (arch.map (·.src.vid)).Nodup) :
    ((putVer arch v).map (·.src.vid)).Nodup := by
  unfold putVer
  simp only [List.map_cons, List.nodup_cons]
  refine ⟨?_, ?_⟩
  · intro hm
    rcases List.mem_map.mp hm with ⟨e, he, hv⟩
    have := (List.mem_filter.mp he).2
    simp [hv] at this
  · exact List.Nodup.sublist (List.Sublist.map _ List.filter_sublist) h

theorem Inv_init (c : Option Obj) (ws : List Nat) : Inv (init c ws) := by
  cases c with
  | none =>
    refine ⟨?_, ?_, ?_, ?_, ?_, ?_, ?_⟩ <;> simp [init]
    intro r _ o ho
    simp [Req.handle] at ho
  | some o0 =>
    refine ⟨?_, ?_, ?_, ?_, ?_, ?_, ?_⟩ <;> simp [init]
    intro r _ o ho
    simp [Req.handle] at ho

theorem Inv_step {s : Sys} (h : Inv s) (i : Nat) : Inv (step .byFd s i) := by
  unfold step
  split
  · exact h
  · rename_i r hr
    have hrm : r ∈ s.reqs := List.mem_of_getElem? hr
    split
    · -- start → opened
      rename_i hpc
      refine ⟨h.arch, ?_, h.cur, h.vids, h.nodup, h.one, ?_⟩
      · intro x hx o ho
        rcases mem_setReq hx with rfl | hx
        · simp [Req.handle] at ho
          exact h.cur o ho
        · exact h.hnd x hx o ho
      · intro x hx v hv
        rcases mem_setReq hx with rfl | hx
        · simp at hv
        · exact h.pub x hx v hv
    · -- opened → archived
      rename_i hh hpc
      have hho : ∀ o, hh = some o → o ∈ s.hist := by
        intro o ho
        exact h.hnd r hrm o (by simp [Req.handle, hpc, ho])
      refine ⟨?_, ?_, h.cur, h.vids, h.nodup, ?_, ?_⟩
      rotate_left 3
      · intro x hx v hv
        rcases mem_setReq hx with rfl | hx
        · simp at hv
        · exact h.pub x hx v hv
      · intro v hv
        cases hh with
        | none => exact h.arch v hv
        | some o =>
          rcases mem_putVer hv with rfl | hv
          · exact ⟨by simp [Ver.complete], hho o rfl⟩
          · exact h.arch v hv
      · intro x hx o ho
        rcases mem_setReq hx with rfl | hx
        · simp [Req.handle] at ho
          exact hho o ho
        · exact h.hnd x hx o ho
      · cases hh with
        | none => exact h.one
        | some o => exact nodup_putVer h.one
    · -- archived → published
      rename_i hh hpc
      refine ⟨?_, ?_, ?_, ?_, ?_, h.one, ?_⟩
      rotate_left 5
      · intro x hx v hv
        rcases mem_setReq hx with rfl | hx
        · simp at hv
          subst hv
          exact List.mem_cons_self
        · exact List.mem_cons_of_mem _ (h.pub x hx v hv)
      · intro v hv
        have := h.arch v hv
        exact ⟨this.1, List.mem_cons_of_mem _ this.2⟩
      · intro x hx o ho
        rcases mem_setReq hx with rfl | hx
        · simp [Req.handle] at ho
        · exact List.mem_cons_of_mem _ (h.hnd x hx o ho)
      · intro o ho
        simp at ho
        subst ho
        exact List.mem_cons_self
      · intro o ho
        rcases List.mem_cons.mp ho with rfl | ho
        · simp
        · have := h.vids o ho
          show o.vid < s.nextVid + 1
          omega
      · simp only [List.map_cons, List.nodup_cons]
        refine ⟨?_, h.nodup⟩
        intro hm
        rcases List.mem_map.mp hm with ⟨o, ho, hv⟩
        have := h.vids o ho
        have hv' : o.vid = s.nextVid := hv
        omega
    · -- published → done
      rename_i v hpc
      refine ⟨h.arch, ?_, h.cur, h.vids, h.nodup, h.one, ?_⟩
      · intro x hx o ho
        rcases mem_setReq hx with rfl | hx
        · simp [Req.handle] at ho
        · exact h.hnd x hx o ho
      · intro x hx v' hv
        rcases mem_setReq hx with rfl | hx
        · simp at hv
          subst hv
          exact h.pub r hrm v (Or.inl hpc)
        · exact h.pub x hx v' hv
    · exact h

theorem Inv_run {s : Sys} (h : Inv s) (sched : List Nat) : Inv (run .byFd s sched) := by
  induction sched generalizing s with
  | nil => exact h
  | cons i l ih => exact ih (Inv_step h i)

theorem find_vid {arch : List Ver} {v : Nat} {e : Ver} (h : arch.find? (fun e => e.src.vid == v) = some e) :
    e ∈ arch ∧ e.src.vid = v := by
  have h1 := List.mem_of_find?_eq_some h
  have h2 := List.find?_some h
  exact ⟨h1, by simpa using h2⟩

end Vgw.Model.ConcVer

namespace Vgw.Model.ConcVer

/-! ## serialised writers (`stepL`) -/

/-- every published object can be read back under its version id. -/
def Retrievable (s : Sys) : Prop :=
  ∀ o ∈ s.hist, s.cur = some o ∨ (⟨o, o⟩ : Ver) ∈ s.arch

structure InvL (s : Sys) : Prop where
  base : Inv s
  retr : Retrievable s
  /-- at most one request is between openCur and publish … -/
  uniq : ∀ (i j : Nat) (r r' : Req), s.reqs[i]? = some r → s.reqs[j]? = some r' → r.inCS = true → r'.inCS = true → i = j
  /-- … it holds the object that is current, and once it has archived it, the archive has it. -/
  held : ∀ (j : Nat) (r : Req), s.reqs[j]? = some r → r.inCS = true → r.handle = s.cur
  done : ∀ (j : Nat) (r : Req), s.reqs[j]? = some r → ∀ h, r.pc = .archived h → ∀ o, h = some o → (⟨o, o⟩ : Ver) ∈ s.arch

theorem getElem?_setReq {l : List Req} {i j : Nat} {r x : Req} (h : (setReq l i r)[j]? = some x) :
    (i = j ∧ x = r) ∨ (i ≠ j ∧ l[j]? = some x) := by
  unfold setReq at h
  rw [List.getElem?_set] at h
  split at h
  · split at h
    · left
      exact ⟨by assumption, by simpa using h.symm⟩
    · cases h
  · right
    exact ⟨by assumption, h⟩

theorem mem_putVer_of_mem {arch : List Ver} {v e : Ver} (h : e ∈ arch) (hne : e.src.vid ≠ v.src.vid) :
    e ∈ putVer arch v := by
  unfold putVer
  exact List.mem_cons_of_mem _ (List.mem_filter.mpr ⟨h, by simpa using hne⟩)

theorem eq_of_vid_eq {l : List Obj} (hnd : (l.map (·.vid)).Nodup) {a b : Obj} (ha : a ∈ l) (hb : b ∈ l)
    (h : a.vid = b.vid) : a = b := by
  induction l with
  | nil => cases ha
  | cons x t ih =>
    simp only [List.map_cons, List.nodup_cons] at hnd
    rcases List.mem_cons.mp ha with rfl | ha' <;> rcases List.mem_cons.mp hb with rfl | hb'
    · rfl
    · exact absurd (List.mem_map.mpr ⟨b, hb', h.symm⟩) hnd.1
    · exact absurd (List.mem_map.mpr ⟨a, ha', h⟩) hnd.1
    · exact ih hnd.2 ha' hb'

theorem init_req {c : Option Obj} {ws : List Nat} {j : Nat} {r : Req} (h : (init c ws).reqs[j]? = some r) :
    r.pc = .start := by
  have : r ∈ (init c ws).reqs := List.mem_of_getElem? h
  simp [init] at this
  rcases this with ⟨w, _, rfl⟩
  rfl

theorem InvL_init (c : Option Obj) (ws : List Nat) : InvL (init c ws) := by
  refine ⟨Inv_init c ws, ?_, ?_, ?_, ?_⟩
  · intro o ho
    cases c <;> simp [init] at ho ⊢
    exact ho.symm
  · intro i j r r' hi _ hr _
    simp [Req.inCS, init_req hi] at hr
  · intro j r hj hcs
    simp [Req.inCS, init_req hj] at hcs
  · intro j r hj h hpc
    simp [init_req hj] at hpc

theorem InvL_stepL {s : Sys} (h : InvL s) (i : Nat) : InvL (stepL .byFd s i) := by
  unfold stepL
  split
  case h_2 => exact h
  case h_1 r hr =>
  have hb := h.base
  split
  · -- start (guarded)
    rename_i hpc
    split
    · exact h
    · rename_i hany
      have hnone : ∀ (j : Nat) (x : Req), s.reqs[j]? = some x → x.inCS = false := by
        intro j x hx
        cases hc : x.inCS
        · rfl
        · exact absurd (List.any_eq_true.mpr ⟨x, List.mem_of_getElem? hx, hc⟩) hany
      have hst : step .byFd s i = { s with reqs := setReq s.reqs i { r with pc := .opened s.cur } } := by
        unfold step
        simp [hr, hpc]
      rw [hst]
      have hb' := Inv_step hb i
      rw [hst] at hb'
      refine ⟨hb', h.retr, ?_, ?_, ?_⟩
      · intro a b x y ha hb2 hx hy
        rcases getElem?_setReq ha with ⟨rfl, rfl⟩ | ⟨hne, ha'⟩
        · rcases getElem?_setReq hb2 with ⟨rfl, _⟩ | ⟨hne2, hb'⟩
          · rfl
          · have := hnone _ y hb'
            simp [this] at hy
        · have := hnone _ x ha'
          simp [this] at hx
      · intro j x hx hcs
        rcases getElem?_setReq hx with ⟨rfl, rfl⟩ | ⟨_, hx⟩
        · simp [Req.handle]
        · have := hnone _ x hx
          simp [this] at hcs
      · intro j x hx hh hpc2
        rcases getElem?_setReq hx with ⟨rfl, rfl⟩ | ⟨_, hx⟩
        · simp at hpc2
        · have := hnone _ x hx
          simp [Req.inCS, hpc2] at this
  · -- every other program counter: plain step
    rename_i hnst
    have hb' := Inv_step hb i
    have hcsr : ∀ hh, r.pc = .opened hh ∨ r.pc = .archived hh → hh = s.cur := by
      intro hh hp
      have := h.held i r hr (by rcases hp with hp | hp <;> simp [Req.inCS, hp])
      rcases hp with hp | hp <;> simpa [Req.handle, hp] using this
    -- the others are not in the critical section while r is
    have hothers : r.inCS = true → ∀ (j : Nat) (x : Req), s.reqs[j]? = some x → i ≠ j → x.inCS = false := by
      intro hrcs j x hj hne
      cases hc : x.inCS
      · rfl
      · exact absurd (h.uniq i j r x hr hj hrcs hc) hne
    unfold step at hb' ⊢
    simp only [hr] at hb' ⊢
    cases hpc : r.pc with
    | start => exact absurd hpc (by simpa using hnst)
    | opened hh =>
      simp only [hpc] at hb' ⊢
      have hcur := hcsr hh (Or.inl hpc)
      have hrcs : r.inCS = true := by simp [Req.inCS, hpc]
      refine ⟨hb', ?_, ?_, ?_, ?_⟩
      · intro o ho
        rcases h.retr o ho with hc | hin
        · left; exact hc
        · cases hh with
          | none => right; exact hin
          | some o' =>
            by_cases hv : o.vid = o'.vid
            · have ho' : o' ∈ s.hist := hb.cur o' hcur.symm
              have : o = o' := eq_of_vid_eq hb.nodup ho ho' hv
              subst this
              right
              simp [putVer]
            · right
              exact mem_putVer_of_mem hin (by simpa using hv)
      · intro a b x y ha hb2 hx hy
        rcases getElem?_setReq ha with ⟨rfl, rfl⟩ | ⟨hne, ha'⟩
        · rcases getElem?_setReq hb2 with ⟨rfl, _⟩ | ⟨hne2, hb3⟩
          · rfl
          · have := hothers hrcs b y hb3 hne2
            simp [this] at hy
        · rcases getElem?_setReq hb2 with ⟨rfl, rfl⟩ | ⟨hne2, hb3⟩
          · have := hothers hrcs a x ha' hne
            simp [this] at hx
          · exact h.uniq a b x y ha' hb3 hx hy
      · intro j x hx hcs
        rcases getElem?_setReq hx with ⟨rfl, rfl⟩ | ⟨_, hx⟩
        · simp [Req.handle, hcur]
        · exact h.held j x hx hcs
      · intro j x hx h2 hpc2 o ho
        rcases getElem?_setReq hx with ⟨rfl, rfl⟩ | ⟨hne, hx⟩
        · simp at hpc2
          subst hpc2
          subst ho
          simp [putVer]
        · -- another request in `archived` would be a second one in the critical section
          have := hothers hrcs j x hx hne
          simp [Req.inCS, hpc2] at this
    | archived hh =>
      simp only [hpc] at hb' ⊢
      have hcur := hcsr hh (Or.inr hpc)
      have hrcs : r.inCS = true := by simp [Req.inCS, hpc]
      refine ⟨hb', ?_, ?_, ?_, ?_⟩
      · intro o ho
        rcases List.mem_cons.mp ho with rfl | ho
        · left; rfl
        · right
          rcases h.retr o ho with hc | hin
          · exact h.done i r hr hh hpc o (by rw [hcur, hc])
          · exact hin
      · intro a b x y ha hb2 hx hy
        rcases getElem?_setReq ha with ⟨rfl, rfl⟩ | ⟨hne, ha'⟩
        · simp [Req.inCS] at hx
        · rcases getElem?_setReq hb2 with ⟨rfl, rfl⟩ | ⟨hne2, hb3⟩
          · simp [Req.inCS] at hy
          · exact h.uniq a b x y ha' hb3 hx hy
      · intro j x hx hcs
        rcases getElem?_setReq hx with ⟨rfl, rfl⟩ | ⟨hne, hx⟩
        · simp [Req.inCS] at hcs
        · have := hothers hrcs j x hx hne
          simp [this] at hcs
      · intro j x hx h2 hpc2 o ho
        rcases getElem?_setReq hx with ⟨rfl, rfl⟩ | ⟨_, hx⟩
        · simp at hpc2
        · exact h.done j x hx h2 hpc2 o ho
    | published v =>
      simp only [hpc] at hb' ⊢
      refine ⟨hb', h.retr, ?_, ?_, ?_⟩
      · intro a b x y ha hb2 hx hy
        rcases getElem?_setReq ha with ⟨rfl, rfl⟩ | ⟨hne, ha'⟩
        · simp [Req.inCS] at hx
        · rcases getElem?_setReq hb2 with ⟨rfl, rfl⟩ | ⟨hne2, hb3⟩
          · simp [Req.inCS] at hy
          · exact h.uniq a b x y ha' hb3 hx hy
      · intro j x hx hcs
        rcases getElem?_setReq hx with ⟨rfl, rfl⟩ | ⟨_, hx⟩
        · simp [Req.inCS] at hcs
        · exact h.held j x hx hcs
      · intro j x hx h2 hpc2 o ho
        rcases getElem?_setReq hx with ⟨rfl, rfl⟩ | ⟨_, hx⟩
        · simp at hpc2
        · exact h.done j x hx h2 hpc2 o ho
    | done v =>
      exact h

theorem InvL_runL {s : Sys} (h : InvL s) (sched : List Nat) : InvL (runL .byFd s sched) := by
  induction sched generalizing s with
  | nil => exact h
  | cons i l ih => exact ih (InvL_stepL h i)

end Vgw.Model.ConcVer
