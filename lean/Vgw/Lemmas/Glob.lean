/-
  Lemmas about Spec.Glob.G and the correctness invariant of Model.Glob.loop (C14) — for every
  pattern and every subject (the wildcard test comes first in the fixed code).
-/
import Vgw.Model.Glob
import Vgw.Spec.Glob
namespace Vgw.Lemmas.Glob
open Vgw Vgw.Spec.Glob

theorem star_eq : Model.Glob.star = star := rfl
theorem qmark_eq : Model.Glob.qmark = qmark := rfl
theorem qmark_ne_star : qmark ≠ star := by decide

/-! ### unfolding `G` -/

theorem G_nil (s : Bytes) : G [] s = s.isEmpty := G.eq_1 s

theorem G_star_nil (p : Bytes) : G (star :: p) [] = G p [] := by
  rw [G.eq_2]; simp

theorem G_star_cons (p : Bytes) (c : UInt8) (s : Bytes) :
    G (star :: p) (c :: s) = (G p (c :: s) || G (star :: p) s) := by
  rw [G.eq_3]; simp

theorem G_lit_nil (a : UInt8) (p : Bytes) (h : a ≠ star) : G (a :: p) [] = false := by
  rw [G.eq_2]; simp [h]

theorem G_lit_cons (a : UInt8) (p : Bytes) (c : UInt8) (s : Bytes) (h : a ≠ star) :
    G (a :: p) (c :: s) = ((a = qmark || a = c) && G p s) := by
  rw [G.eq_3]; simp [h]

/-- `*` = some number `k` of subject bytes. -/
theorem G_star_iff (p s : Bytes) :
    G (star :: p) s = true ↔ ∃ k, k ≤ s.length ∧ G p (s.drop k) = true := by
  induction s with
  | nil =>
    rw [G_star_nil]
    constructor
    · intro h; exact ⟨0, by simp, by simpa using h⟩
    · rintro ⟨k, _, hk⟩; simpa using hk
  | cons c s ih =>
    rw [G_star_cons, Bool.or_eq_true, ih]
    constructor
    · rintro (h | ⟨k, hk, hg⟩)
      · exact ⟨0, by simp, by simpa using h⟩
      · exact ⟨k + 1, by simp; omega, by simpa using hg⟩
    · rintro ⟨k, hk, hg⟩
      cases k with
      | zero => left; simpa using hg
      | succ k => right; exact ⟨k, by simp at hk; omega, by simpa using hg⟩

/-- A star-free segment consumes exactly its own length. -/
theorem G_seg (seg r : Bytes) (hseg : star ∉ seg) :
    ∀ t : Bytes, G (seg ++ r) t = true → seg.length ≤ t.length ∧ G r (t.drop seg.length) = true := by
  induction seg with
  | nil => intro t h; simpa using h
  | cons a seg ih =>
    intro t h
    simp only [List.mem_cons, not_or] at hseg
    have ha : a ≠ star := fun e => hseg.1 e.symm
    cases t with
    | nil => rw [List.cons_append, G_lit_nil _ _ ha] at h; cases h
    | cons c t =>
      rw [List.cons_append, G_lit_cons _ _ _ _ ha, Bool.and_eq_true] at h
      have := ih hseg.2 t h.2
      simp only [List.length_cons, List.drop_succ_cons]
      exact ⟨by omega, this.2⟩

/-- Leftmost commitment (the direction that is needed): if `seg ++ '*' :: r` matches `t`, the part
after the star matches a suffix of `t` that starts at or after `|seg|`. -/
theorem G_seg_star (seg r : Bytes) (hseg : star ∉ seg) (t : Bytes)
    (h : G (seg ++ star :: r) t = true) :
    ∃ k, seg.length ≤ k ∧ k ≤ t.length ∧ G r (t.drop k) = true := by
  obtain ⟨hl, hg⟩ := G_seg seg (star :: r) hseg t h
  obtain ⟨k, hk, hgk⟩ := (G_star_iff r _).1 hg
  rw [List.length_drop] at hk
  rw [List.drop_drop] at hgk
  exact ⟨seg.length + k, by omega, by omega, hgk⟩

theorem drop_of_getElem? (p : Bytes) (i : Nat) (c : UInt8) (h : p[i]? = some c) :
    p.drop i = c :: p.drop (i + 1) := by
  obtain ⟨hi, hc⟩ := List.getElem?_eq_some_iff.1 h
  rw [List.drop_eq_getElem_cons hi, hc]

theorem drop_of_lt (s : Bytes) (i : Nat) (h : i < s.length) :
    s.drop i = s[i] :: s.drop (i + 1) := List.drop_eq_getElem_cons h

/-! ### the trailing-star loop -/

theorem skipStars_iff (p : Bytes) (pi : Nat) (hpi : pi ≤ p.length) :
    (Model.Glob.skipStars p pi == p.length) = G (p.drop pi) [] := by
  fun_induction Model.Glob.skipStars p pi with
  | case1 pi h ih =>
    rw [ih (by omega), drop_of_getElem? p pi _ h.2, star_eq, G_star_nil]
  | case2 pi h =>
    by_cases hlt : pi < p.length
    · have hc : p[pi]? = some p[pi] := List.getElem?_eq_getElem hlt
      have hne : p[pi] ≠ star := by
        intro e; apply h; exact ⟨hlt, by rw [hc, e, star_eq]⟩
      rw [drop_of_getElem? p pi _ hc, G_lit_nil _ _ hne]
      simp; omega
    · have : pi = p.length := by omega
      subst this
      simp [G_nil]

/-! ### the main loop

`Rest`: some later restart of the segment after the last star succeeds. -/

def Rest (p s : Bytes) (st : Option Nat) (mi : Nat) : Prop :=
  match st with
  | none => False
  | some k => ∃ j, mi < j ∧ j ≤ s.length ∧ G (p.drop (k + 1)) (s.drop j) = true

/-- Loop invariant.  `seg` = the pattern bytes between the last star and `pIdx`: star-free and as
long as the subject bytes consumed since `matchIdx`.  `sem`: the declarative answer is "the
current attempt succeeds, or a later restart does". -/
structure Inv (p s : Bytes) (pi si : Nat) (st : Option Nat) (mi : Nat) : Prop where
  hsi : si ≤ s.length
  hpi : pi ≤ p.length
  seg : ∀ k, st = some k → k < p.length ∧
          ∃ seg, p.drop (k + 1) = seg ++ p.drop pi ∧ star ∉ seg ∧ seg.length + mi = si
  sem : G p s = true ↔ (G (p.drop pi) (s.drop si) = true ∨ Rest p s st mi)

def accept (p : Bytes) : Option Nat → Bool
  | none => false
  | some pi => Model.Glob.skipStars p pi == p.length

/-- The current attempt is dead when neither the literal/`?` test nor the `*` test fires. -/
theorem current_false (p s : Bytes) (pi si : Nat) (hs : si < s.length)
    (hq : ¬(pi < p.length ∧ p[pi]? = some Model.Glob.star))
    (hp : ¬(pi < p.length ∧ (p[pi]? = some Model.Glob.qmark ∨ p[pi]? = some s[si]))) :
    G (p.drop pi) (s.drop si) = false := by
  rw [drop_of_lt s si hs]
  by_cases hlt : pi < p.length
  · have hc : p[pi]? = some p[pi] := List.getElem?_eq_getElem hlt
    rw [drop_of_getElem? p pi _ hc]
    have h1 : p[pi] ≠ star := by
      intro e; apply hq; exact ⟨hlt, by rw [hc, e, star_eq]⟩
    have h2 : p[pi] ≠ qmark := by
      intro e; apply hp; exact ⟨hlt, Or.inl (by rw [hc, e, qmark_eq])⟩
    have h3 : p[pi] ≠ s[si] := by
      intro e; apply hp; exact ⟨hlt, Or.inr (by rw [hc, e])⟩
    rw [G_lit_cons _ _ _ _ h1]
    simp [h2, h3]
  · rw [List.drop_eq_nil_of_le (by omega), G_nil]; rfl

theorem loop_correct (p s : Bytes) (pi si : Nat) (st : Option Nat) (mi : Nat)
    (h : mi ≤ si) (inv : Inv p s pi si st mi) :
    accept p (Model.Glob.loop p s pi si st mi h) = true ↔ G p s = true := by
  fun_induction Model.Glob.loop p s pi si st mi h with
  | case1 pi si st mi h hs hq ih =>
    -- new star
    apply ih
    obtain ⟨hlt, hc⟩ := hq
    rw [star_eq] at hc
    have hd := drop_of_getElem? p pi star hc
    refine ⟨inv.hsi, by omega, ?_, ?_⟩
    · intro k hk
      cases hk
      exact ⟨hlt, [], by simp, by simp, by simp⟩
    · rw [inv.sem, hd, G_star_iff]
      simp only [Rest]
      constructor
      · rintro (⟨k, hk, hg⟩ | hrest)
        · rw [List.length_drop] at hk
          rw [List.drop_drop] at hg
          cases k with
          | zero => left; simpa using hg
          | succ k => right; exact ⟨si + (k + 1), by omega, by omega, hg⟩
        · cases st with
          | none => exact absurd hrest (by simp)
          | some k0 =>
            obtain ⟨j, hj1, hj2, hg⟩ := hrest
            obtain ⟨_, seg, hseg, hns, hlen⟩ := inv.seg k0 rfl
            rw [hseg, hd] at hg
            obtain ⟨k, hk1, hk2, hgk⟩ := G_seg_star seg _ hns _ hg
            rw [List.length_drop] at hk2
            rw [List.drop_drop] at hgk
            right
            exact ⟨j + k, by omega, by omega, hgk⟩
      · rintro (hg | ⟨j, hj1, hj2, hg⟩)
        · left; exact ⟨0, by simp, by simpa using hg⟩
        · left
          refine ⟨j - si, by rw [List.length_drop]; omega, ?_⟩
          rw [List.drop_drop]
          have : si + (j - si) = j := by omega
          rw [this]; exact hg
  | case2 pi si st mi h hs hq hp ih =>
    -- literal / `?`; the pattern byte is not `*` because the wildcard test came first
    apply ih
    obtain ⟨hlt, hc⟩ := hp
    have hpc : p[pi]? = some p[pi] := List.getElem?_eq_getElem hlt
    have hcs : p[pi] ≠ star := by
      intro e; apply hq; exact ⟨hlt, by rw [hpc, e, star_eq]⟩
    have hcm : p[pi] = qmark ∨ p[pi] = s[si] := by
      rw [hpc] at hc
      rcases hc with e | e
      · left; simp only [Option.some.injEq] at e; rw [e, qmark_eq]
      · right; simpa using e
    have hd := drop_of_getElem? p pi _ hpc
    refine ⟨by omega, by omega, ?_, ?_⟩
    · intro k hk
      obtain ⟨hkl, seg, hseg, hns, hlen⟩ := inv.seg k hk
      refine ⟨hkl, seg ++ [p[pi]], ?_, ?_, ?_⟩
      · rw [hseg, hd]; simp
      · simp only [List.mem_append, List.mem_singleton, not_or]
        exact ⟨hns, fun e => hcs e.symm⟩
      · simp; omega
    · rw [inv.sem, hd, drop_of_lt s si hs, G_lit_cons _ _ _ _ hcs]
      have : (decide (p[pi] = qmark) || decide (p[pi] = s[si])) = true := by
        rcases hcm with e | e <;> simp [e]
      rw [this, Bool.true_and]
  | case3 pi si mi h hs hq hp k _ ih =>
    -- backtrack to the last star
    apply ih
    have hcur := current_false p s pi si hs hq hp
    obtain ⟨hkl, seg, hseg, hns, hlen⟩ := inv.seg k rfl
    refine ⟨by omega, by omega, ?_, ?_⟩
    · intro k' hk'
      cases hk'
      exact ⟨hkl, [], by simp, by simp, by simp⟩
    · rw [inv.sem, hcur]
      simp only [Rest, Bool.false_eq_true, false_or]
      constructor
      · rintro ⟨j, hj1, hj2, hg⟩
        by_cases e : j = mi + 1
        · left; rw [← e]; exact hg
        · right; exact ⟨j, by omega, hj2, hg⟩
      · rintro (hg | ⟨j, hj1, hj2, hg⟩)
        · exact ⟨mi + 1, by omega, by omega, hg⟩
        · exact ⟨j, by omega, hj2, hg⟩
  | case4 pi si mi h hs hq hp _ =>
    -- no star to fall back to: `return false`
    have hcur := current_false p s pi si hs hq hp
    have := inv.sem
    rw [hcur] at this
    simp only [Rest, Bool.false_eq_true, false_or] at this
    simp [accept, this]
  | case5 pi si st mi h hs =>
    -- subject exhausted
    have hsi : si = s.length := by have := inv.hsi; omega
    have hrest : ¬ Rest p s st mi := by
      cases st with
      | none => simp [Rest]
      | some k =>
        rintro ⟨j, hj1, hj2, hg⟩
        obtain ⟨_, seg, hseg, hns, hlen⟩ := inv.seg k rfl
        rw [hseg] at hg
        have := (G_seg seg _ hns _ hg).1
        rw [List.length_drop] at this
        omega
    rw [inv.sem]
    simp only [accept, hrest, or_false]
    rw [skipStars_iff p pi inv.hpi, hsi, List.drop_length]

theorem inv_init (p s : Bytes) : Inv p s 0 0 none 0 :=
  ⟨by omega, by omega, (by intro k hk; cases hk), (by simp [Rest])⟩

end Vgw.Lemmas.Glob
