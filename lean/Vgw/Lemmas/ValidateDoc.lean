/-
  C14: ValidatePolicyDocument against Spec.Policy.WellFormed — statement level and document level.
-/
import Vgw.Lemmas.Validate
namespace Vgw.Lemmas.Validate
open Vgw Vgw.Go.Strings Vgw.Model.Policy Vgw.Spec.Policy Vgw.Lemmas.Policy

/-! ### iteration orders -/

/-- every iteration order is a rearrangement of the set -/
def OrdOK (ord : List Bytes → List Bytes) : Prop := ∀ l a, a ∈ ord l ↔ a ∈ l

/-! ### unfolding the monadic definitions -/

theorem decodeStmt_ok_iff (r : RawStmt) (st : Stmt) :
    decodeStmt r = .ok st ↔
      (decodeEffect r.effect = .ok st.effect ∧
       decodeField .invalidPrincipal (fun s => .ok s) r.principal = .ok st.principals ∧
       decodeField .invalidAction addAction r.action = .ok st.actions ∧
       decodeField .invalidResource addResource r.resource = .ok st.resources) := by
  unfold decodeStmt
  cases h1 : decodeEffect r.effect with
  | error e => simp [bind, Except.bind]
  | ok e =>
    cases h2 : decodeField .invalidPrincipal (fun s => .ok s) r.principal with
    | error e => simp [bind, Except.bind]
    | ok ps =>
      cases h3 : decodeField .invalidAction addAction r.action with
      | error e => simp [bind, Except.bind]
      | ok acts =>
        cases h4 : decodeField .invalidResource addResource r.resource with
        | error e => simp [bind, Except.bind]
        | ok rs =>
          cases st
          simp [bind, Except.bind, pure, Except.pure]

theorem validateStmt_ok_iff (bucket : Bytes) (acct : Bytes → Bool) (st : Stmt) :
    validateStmt bucket acct st = .ok () ↔
      (effectValidate st.effect = .ok () ∧
       (st.principals ≠ [] ∧ st.actions ≠ [] ∧ st.resources ≠ []) ∧
       principalsValidate acct st.principals = .ok () ∧
       resourcesValidate bucket st.resources = .ok () ∧
       kindLoop (containsObjectPattern st.resources) (containsBucketPattern st.resources) st.actions = .ok ()) := by
  unfold validateStmt
  cases h1 : effectValidate st.effect with
  | error e => simp [bind, Except.bind]
  | ok u =>
    simp only [bind, Except.bind, List.length_eq_zero_iff]
    by_cases hp : st.principals = []
    · simp [hp]
    · by_cases ha : st.actions = []
      · simp [hp, ha]
      · by_cases hr : st.resources = []
        · simp [hp, ha, hr]
        · rw [if_neg hp, if_neg ha, if_neg hr]
          cases h2 : principalsValidate acct st.principals with
          | error e => simp
          | ok u =>
            cases h3 : resourcesValidate bucket st.resources with
            | error e => simp
            | ok u => simp [hp, ha, hr]

theorem ord_ne_nil (ord : List Bytes → List Bytes) (hord : OrdOK ord) (l : List Bytes) :
    ord l ≠ [] ↔ l ≠ [] := by
  constructor
  · intro h e
    apply h
    rw [List.eq_nil_iff_forall_not_mem]
    intro a ha
    have := (hord l a).1 ha
    rw [e] at this; cases this
  · intro h e
    obtain ⟨a, ha⟩ := List.exists_mem_of_ne_nil l h
    have := (hord l a).2 ha
    rw [e] at this; cases this

theorem validatePolicy_cons (bucket : Bytes) (acct : Bytes → Bool) (st : Stmt) (rest : Policy) :
    validatePolicy bucket acct (st :: rest) = .ok () ↔
      (validateStmt bucket acct st = .ok () ∧ validatePolicy bucket acct rest = .ok ()) := by
  rw [validatePolicy]
  cases h1 : validateStmt bucket acct st with
  | error e => simp [bind, Except.bind]
  | ok u => simp [bind, Except.bind]

theorem decodeStmts_cons (r : RawStmt) (rest : List RawStmt) (pol : Policy) :
    decodeStmts (r :: rest) = .ok pol ↔
      ∃ st sts, decodeStmt r = .ok st ∧ decodeStmts rest = .ok sts ∧ pol = st :: sts := by
  rw [decodeStmts]
  cases h1 : decodeStmt r with
  | error e => simp [bind, Except.bind]
  | ok st =>
    cases h2 : decodeStmts rest with
    | error e => simp [bind, Except.bind]
    | ok sts =>
      simp [bind, Except.bind, pure, Except.pure]
      exact eq_comm

theorem addAction_ok_iff (a k : Bytes) : addAction a = .ok k ↔ (actionIsValid a = true ∧ k = a) := by
  unfold addAction
  by_cases h : actionIsValid a = true
  · rw [if_pos h]; simp [h, eq_comm]
  · rw [if_neg h]; simp [h]

theorem addResource_ok_iff (x p : Bytes) : addResource x = .ok p ↔ isValidResource x = some p := by
  unfold addResource
  cases h : isValidResource x with
  | none => simp
  | some q => simp

theorem resources_ok_iff (bucket : Bytes) (pats : List Bytes) :
    resourcesValidate bucket pats = .ok () ↔
      ∀ p ∈ pats, p = bucket ∨ (bucket ++ slashLit) <+: p := by
  unfold resourcesValidate
  have key : ∀ p : Bytes, (!(decide (p ≠ bucket) && !hasPrefix p (bucket ++ slashLit))) = true ↔
      (p = bucket ∨ (bucket ++ slashLit) <+: p) := by
    intro p
    by_cases e : p = bucket
    · simp [e]
    · by_cases hp : hasPrefix p (bucket ++ slashLit) = true
      · simp [e, hp, (hasPrefix_iff _ _).1 hp]
      · have hp' : ¬ (bucket ++ slashLit) <+: p := fun h => hp ((hasPrefix_iff _ _).2 h)
        simp only [Bool.not_eq_true] at hp
        simp [e, hp, hp']
  by_cases h : (pats.all fun r => !(decide (r ≠ bucket) && !hasPrefix r (bucket ++ slashLit))) = true
  · rw [if_pos h]
    rw [List.all_eq_true] at h
    simp only [true_iff]
    intro p hp; exact (key p).1 (h p hp)
  · rw [if_neg h]
    simp only [reduceCtorEq, false_iff]
    intro hall; apply h
    rw [List.all_eq_true]
    intro p hp; exact (key p).2 (hall p hp)

/-! ### one statement -/

theorem stmt_accept (ord : List Bytes → List Bytes) (bucket : Bytes) (acct : Bytes → Bool)
    (hs : Sane bucket) (hacct : acct [] = false) (hord : OrdOK ord) (r : RawStmt)
    (hwf : StmtWF .strict bucket acct r) :
    ∃ st, decodeStmt r = .ok st ∧
      validateStmt bucket acct { st with actions := ord st.actions } = .ok () := by
  unfold StmtWF at hwf
  obtain ⟨heff, hrest⟩ := hwf
  split at hrest
  · rename_i ps acts rs hmp hma hmr
    obtain ⟨hP, hA, hR, hK⟩ := hrest
    -- principals
    have hne_p : ∀ s, r.principal = .str s → s ≠ [] := by
      intro s e hs0
      rw [e] at hmp
      simp only [members, Option.some.injEq] at hmp
      subst hmp; subst hs0
      rcases hP with h | h
      · have := h [] (by simp); cases this
      · have := (h [] (by simp)).2; rw [hacct] at this; cases this
    obtain ⟨kp, hkp⟩ := addAll_total (fun s => .ok s) ps (fun s _ => ⟨s, rfl⟩)
    obtain ⟨_, hkp_mem, hkp_nd⟩ := addAll_ok _ ps kp hkp
    have hkp_mem' : ∀ k, k ∈ kp ↔ k ∈ ps := by
      intro k; rw [hkp_mem]
      constructor
      · rintro ⟨s, hs1, e⟩; cases e; exact hs1
      · intro h; exact ⟨k, h, rfl⟩
    -- actions
    have hvalid : ∀ a ∈ acts, actionIsValid a = true := fun a ha => valid_of_strict a (hA a ha)
    have hne_a : ∀ s, r.action = .str s → s ≠ [] := by
      intro s e hs0
      rw [e] at hma
      simp only [members, Option.some.injEq] at hma
      subst hma; subst hs0
      have := hvalid [] (by simp)
      rw [actionIsValid_nil] at this; cases this
    obtain ⟨ka, hka⟩ := addAll_total addAction acts
      (fun a ha => ⟨a, (addAction_ok_iff a a).2 ⟨hvalid a ha, rfl⟩⟩)
    obtain ⟨_, hka_mem, _⟩ := addAll_ok _ acts ka hka
    have hka_mem' : ∀ k, k ∈ ka → k ∈ acts := by
      intro k hk
      obtain ⟨a, ha, e⟩ := (hka_mem k).1 hk
      rw [((addAction_ok_iff a k).1 e).2]; exact ha
    -- resources
    have hpat : ∀ x ∈ rs, ∃ p, isValidResource x = some p ∧
        (p = bucket ∨ (bucket ++ slashLit) <+: p) := by
      intro x hx
      rcases inBucket_pattern bucket x hs (hR x hx) with ⟨_, h⟩ | ⟨_, k, h⟩
      · exact ⟨bucket, h, Or.inl rfl⟩
      · exact ⟨_, h, Or.inr ⟨k, by simp [slashLit]⟩⟩
    have hne_r : ∀ s, r.resource = .str s → s ≠ [] := by
      intro s e hs0
      rw [e] at hmr
      simp only [members, Option.some.injEq] at hmr
      subst hmr; subst hs0
      obtain ⟨p, hp, _⟩ := hpat [] (by simp)
      have := ((isValidResource_some [] p).1 hp).1
      have := congrArg List.length this
      simp [arnPrefix] at this
    obtain ⟨kr, hkr⟩ := addAll_total addResource rs
      (fun x hx => by obtain ⟨p, hp, _⟩ := hpat x hx; exact ⟨p, (addResource_ok_iff x p).2 hp⟩)
    obtain ⟨_, hkr_mem, _⟩ := addAll_ok _ rs kr hkr
    have hstored : Stored rs kr := by
      intro p; rw [hkr_mem]
      constructor
      · rintro ⟨x, hx, e⟩; exact ⟨x, hx, (addResource_ok_iff x p).1 e⟩
      · rintro ⟨x, hx, e⟩; exact ⟨x, hx, (addResource_ok_iff x p).2 e⟩
    -- effect
    obtain ⟨e, he, hee⟩ : ∃ e, r.effect = .str e ∧ (e = allowLit ∨ e = denyLit) := by
      rcases heff with h | h
      · exact ⟨allowLit, h, Or.inl rfl⟩
      · exact ⟨denyLit, h, Or.inr rfl⟩
    refine ⟨⟨e, kp, ka, kr⟩, ?_, ?_⟩
    · rw [decodeStmt_ok_iff]
      refine ⟨by rw [he]; rfl, ?_, ?_, ?_⟩
      · rw [decodeField_of_members _ _ _ ps hmp hne_p]; exact hkp
      · rw [decodeField_of_members _ _ _ acts hma hne_a]; exact hka
      · rw [decodeField_of_members _ _ _ rs hmr hne_r]; exact hkr
    · rw [validateStmt_ok_iff]
      refine ⟨(effect_ok_iff e).2 hee, ⟨?_, ?_, ?_⟩, ?_, ?_, ?_⟩
      · obtain ⟨x, hx⟩ := List.exists_mem_of_ne_nil ps (members_ne_nil _ _ hmp)
        exact List.ne_nil_of_mem ((hkp_mem' x).2 hx)
      · obtain ⟨a, ha⟩ := List.exists_mem_of_ne_nil acts (members_ne_nil _ _ hma)
        have : a ∈ ka := (hka_mem a).2 ⟨a, ha, (addAction_ok_iff a a).2 ⟨hvalid a ha, rfl⟩⟩
        exact (ord_ne_nil ord hord ka).2 (List.ne_nil_of_mem this)
      · obtain ⟨x, hx⟩ := List.exists_mem_of_ne_nil rs (members_ne_nil _ _ hmr)
        obtain ⟨p, hp, _⟩ := hpat x hx
        exact List.ne_nil_of_mem ((hstored p).2 ⟨x, hx, hp⟩)
      · exact (principals_ok_iff acct kp ps hkp_mem' hkp_nd (members_ne_nil _ _ hmp)).2 hP
      · rw [resources_ok_iff]
        intro p hp
        obtain ⟨x, hx, hv⟩ := (hstored p).1 hp
        obtain ⟨q, hq, hpre⟩ := hpat x hx
        rw [isValidResource_inj x p q hv hq]; exact hpre
      · rw [kindLoop_ok_iff]
        intro a ha
        have hmem := hka_mem' a ((hord ka a).1 ha)
        exact step_of_strict bucket rs kr a hs hR hstored (hA a hmem) (hK a hmem)
  · exact absurd hrest id

theorem actionKind_ne_all (a : Bytes) (hv : actionIsValid a = true) (hne : a ≠ allActions) :
    actionKind a ≠ .all := by
  have hnil : a ≠ [] := by intro e; rw [e, actionIsValid_nil] at hv; cases hv
  rcases actionKind_cases a hne hnil with ⟨h, _⟩ | ⟨h, _⟩ <;> rw [h] <;> intro e <;> cases e

theorem stmt_refuse_inv (ord : List Bytes → List Bytes) (bucket : Bytes) (acct : Bytes → Bool)
    (hs : Sane bucket) (hord : OrdOK ord) (r : RawStmt) (st : Stmt)
    (hd : decodeStmt r = .ok st)
    (hv : validateStmt bucket acct { st with actions := ord st.actions } = .ok ())
 : StmtWF .lenient bucket acct r := by
  obtain ⟨hde, hdp, hda, hdr⟩ := (decodeStmt_ok_iff r st).1 hd
  obtain ⟨hve, ⟨hnp, hna, hnr⟩, hvp, hvr, hvk⟩ := (validateStmt_ok_iff bucket acct _).1 hv
  simp only at hve hvp hvr hvk hnp hna hnr
  have hna' : st.actions ≠ [] := (ord_ne_nil ord hord st.actions).1 hna
  -- effect
  have heff : r.effect = .str allowLit ∨ r.effect = .str denyLit := by
    have hee := (effect_ok_iff _).1 hve
    cases hre : r.effect with
    | missing =>
      rw [hre, decodeEffect] at hde
      have e : st.effect = [] := by injection hde with h; exact h.symm
      rw [e] at hee
      rcases hee with h | h <;> cases h
    | str s =>
      rw [hre, decodeEffect] at hde
      have e : st.effect = s := by injection hde with h; exact h.symm
      rw [e] at hee
      rcases hee with h | h
      · left; rw [h]
      · right; rw [h]
    | arr l => rw [hre] at hde; simp [decodeEffect] at hde
    | bad => rw [hre] at hde; simp [decodeEffect] at hde
  -- principals
  obtain ⟨ps, hmp, hap, _⟩ : ∃ l, members r.principal = some l ∧
      addAll (fun s => .ok s) l = .ok st.principals ∧ ∀ s, r.principal = .str s → s ≠ [] := by
    rcases decodeField_ok _ _ _ _ hdp with h | h
    · exact absurd h.2 hnp
    · exact h
  obtain ⟨_, hp_mem, hp_nd⟩ := addAll_ok _ ps _ hap
  have hp_mem' : ∀ k, k ∈ st.principals ↔ k ∈ ps := by
    intro k; rw [hp_mem]
    constructor
    · rintro ⟨s, hs1, e⟩; cases e; exact hs1
    · intro h; exact ⟨k, h, rfl⟩
  have hP : PrincipalsOK acct ps :=
    (principals_ok_iff acct _ ps hp_mem' hp_nd (members_ne_nil _ _ hmp)).1 hvp
  -- actions
  obtain ⟨acts, hma, haa, _⟩ : ∃ l, members r.action = some l ∧
      addAll addAction l = .ok st.actions ∧ ∀ s, r.action = .str s → s ≠ [] := by
    rcases decodeField_ok _ _ _ _ hda with h | h
    · exact absurd h.2 hna'
    · exact h
  obtain ⟨ha_all, ha_mem, _⟩ := addAll_ok _ acts _ haa
  have hvalid : ∀ a ∈ acts, actionIsValid a = true := by
    intro a ha
    obtain ⟨k, hk⟩ := ha_all a ha
    exact ((addAction_ok_iff a k).1 hk).1
  have ha_mem' : ∀ k, k ∈ st.actions ↔ k ∈ acts := by
    intro k; rw [ha_mem]
    constructor
    · rintro ⟨a, ha, e⟩; rw [((addAction_ok_iff a k).1 e).2]; exact ha
    · intro h; exact ⟨k, h, (addAction_ok_iff k k).2 ⟨hvalid k h, rfl⟩⟩
  -- resources
  obtain ⟨rs, hmr, har, _⟩ : ∃ l, members r.resource = some l ∧
      addAll addResource l = .ok st.resources ∧ ∀ s, r.resource = .str s → s ≠ [] := by
    rcases decodeField_ok _ _ _ _ hdr with h | h
    · exact absurd h.2 hnr
    · exact h
  obtain ⟨hr_all, hr_mem, _⟩ := addAll_ok _ rs _ har
  have hstored : Stored rs st.resources := by
    intro p; rw [hr_mem]
    constructor
    · rintro ⟨x, hx, e⟩; exact ⟨x, hx, (addResource_ok_iff x p).1 e⟩
    · rintro ⟨x, hx, e⟩; exact ⟨x, hx, (addResource_ok_iff x p).2 e⟩
  have hR : ∀ x ∈ rs, InBucket bucket x := by
    intro x hx
    obtain ⟨p, hp⟩ := hr_all x hx
    have hvp' := (addResource_ok_iff x p).1 hp
    have hxe := ((isValidResource_some x p).1 hvp').1
    rcases (resources_ok_iff bucket _).1 hvr p ((hstored p).2 ⟨x, hx, hvp'⟩) with e | ⟨t, ht⟩
    · left; unfold IsBucketRes; rw [hxe, e]
    · right; exact ⟨t, by rw [hxe, ← ht]; simp [slashLit]⟩
  -- kinds: every action was checked (the loop `continue`s at `s3:*`)
  have hK : ∀ a ∈ acts, KindOK .lenient bucket rs a := by
    intro a ha
    have hsteps := (kindLoop_ok_iff st.resources (ord st.actions)).1 hvk
    have := hsteps a ((hord _ a).2 ((ha_mem' a).2 ha))
    exact lenient_of_step bucket rs st.resources a hs hR hstored (hvalid a ha) this
  unfold StmtWF
  refine ⟨heff, ?_⟩
  rw [hmp, hma, hmr]
  exact ⟨hP, fun a ha => lenient_of_valid a (hvalid a ha), hR, hK⟩

/-! ### the document -/

theorem reorder_cons (ord : List Bytes → List Bytes) (st : Stmt) (sts : Policy) :
    reorder ord (st :: sts) = { st with actions := ord st.actions } :: reorder ord sts := rfl

theorem stmts_accept (ord : List Bytes → List Bytes) (bucket : Bytes) (acct : Bytes → Bool)
    (hs : Sane bucket) (hacct : acct [] = false) (hord : OrdOK ord) (l : List RawStmt)
    (h : ∀ r ∈ l, StmtWF .strict bucket acct r) :
    ∃ pol, decodeStmts l = .ok pol ∧ pol.length = l.length ∧
      validatePolicy bucket acct (reorder ord pol) = .ok () := by
  induction l with
  | nil => exact ⟨[], rfl, rfl, rfl⟩
  | cons r rest ih =>
    obtain ⟨st, hd, hv⟩ := stmt_accept ord bucket acct hs hacct hord r (h r (by simp))
    obtain ⟨sts, hds, hlen, hvs⟩ := ih (fun x hx => h x (by simp [hx]))
    refine ⟨st :: sts, (decodeStmts_cons r rest _).2 ⟨st, sts, hd, hds, rfl⟩, by simp [hlen], ?_⟩
    rw [reorder_cons, validatePolicy_cons]
    exact ⟨hv, hvs⟩

theorem stmts_refuse_inv (ord : List Bytes → List Bytes) (bucket : Bytes) (acct : Bytes → Bool)
    (hs : Sane bucket) (hord : OrdOK ord) (l : List RawStmt) (pol : Policy)
    (hd : decodeStmts l = .ok pol) (hv : validatePolicy bucket acct (reorder ord pol) = .ok ()) :
    (∀ r ∈ l, StmtWF .lenient bucket acct r) ∧ pol.length = l.length := by
  induction l generalizing pol with
  | nil =>
    rw [decodeStmts] at hd; cases hd
    exact ⟨(fun r hr => by cases hr), rfl⟩
  | cons r rest ih =>
    obtain ⟨st, sts, hd1, hd2, rfl⟩ := (decodeStmts_cons r rest pol).1 hd
    rw [reorder_cons, validatePolicy_cons] at hv
    have hwf := stmt_refuse_inv ord bucket acct hs hord r st hd1 hv.1
    obtain ⟨hrest, hlen⟩ := ih sts hd2 hv.2
    refine ⟨?_, by simp [hlen]⟩
    intro x hx
    rcases List.mem_cons.1 hx with rfl | hx
    · exact hwf
    · exact hrest x hx

theorem validateDocument_ok_iff (ord : List Bytes → List Bytes) (bucket : Bytes)
    (acct : Bytes → Bool) (doc : RawDoc) :
    validateDocument ord bucket acct doc = .ok () ↔
      ∃ pol, decodeDoc doc = .ok pol ∧ pol.length ≠ 0 ∧
        validatePolicy bucket acct (reorder ord pol) = .ok () := by
  unfold validateDocument
  cases h : decodeDoc doc with
  | error e => simp [bind, Except.bind]
  | ok pol =>
    simp only [bind, Except.bind]
    by_cases hl : pol.length = 0
    · rw [if_pos hl]
      constructor
      · intro e; cases e
      · rintro ⟨p, e, hne, _⟩; cases e; exact absurd hl hne
    · rw [if_neg hl]
      constructor
      · intro e; exact ⟨pol, rfl, hl, e⟩
      · rintro ⟨p, e, _, hv⟩; cases e; exact hv

/-- ACCEPT direction: a (strictly) well-formed document is accepted, whatever the map order. -/
theorem doc_accept (ord : List Bytes → List Bytes) (bucket : Bytes) (acct : Bytes → Bool)
    (hs : Sane bucket) (hacct : acct [] = false) (hord : OrdOK ord) (doc : RawDoc)
    (hwf : WellFormed .strict bucket acct doc) : validateDocument ord bucket acct doc = .ok () := by
  rw [validateDocument_ok_iff]
  cases doc with
  | badJson => exact absurd hwf id
  | noStatement => exact absurd hwf id
  | stmts l =>
    cases l with
    | nil => exact absurd hwf id
    | cons x t =>
      have hall : ∀ st ∈ x :: t, StmtWF .strict bucket acct st := hwf
      obtain ⟨pol, hd, hlen, hv⟩ := stmts_accept ord bucket acct hs hacct hord (x :: t) hall
      exact ⟨pol, hd, by rw [hlen]; simp, hv⟩

/-- REFUSE direction (contrapositive): whatever is accepted — in whatever map order — is (leniently)
well-formed. -/
theorem doc_accepted_wellformed (ord : List Bytes → List Bytes) (bucket : Bytes)
    (acct : Bytes → Bool) (hs : Sane bucket) (hord : OrdOK ord) (doc : RawDoc)
    (hok : validateDocument ord bucket acct doc = .ok ()) : WellFormed .lenient bucket acct doc := by
  obtain ⟨pol, hd, hlen, hv⟩ := (validateDocument_ok_iff ord bucket acct doc).1 hok
  cases doc with
  | badJson => cases hd
  | noStatement => cases hd
  | stmts l =>
    have hd' : decodeStmts l = .ok pol := hd
    obtain ⟨hall, hl⟩ := stmts_refuse_inv ord bucket acct hs hord l pol hd' hv
    cases l with
    | nil => exact absurd hl hlen
    | cons x t => exact hall

end Vgw.Lemmas.Validate
